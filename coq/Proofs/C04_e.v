(* C04 proofs, part 5: the header FORMS of the demultiplexer as tables - which headers a form accepts (exactly those
   with the right number of separator characters), which piece goes to which tag, and that the name format of the
   tagger inverts the assignment table.  Every lemma of the first half is for EVERY form table. *)
From Coq Require Import ZArith List Bool Lia.
Import ListNotations.
From SCMO Require Import Lib.Val Gen.GenCodec Model.C04 Proofs.C04 Proofs.C04_b.
Open Scope Z_scope.

(* ------------------------------------------------------------------ dict.update *)
Lemma update_cons : forall V (d : list (str * V)) kv r, update d (kv :: r) = update (dset (fst kv) (snd kv) d) r.
Proof. reflexivity. Qed.

Lemma get_update_notin : forall V k (kvs d : list (str * V)), ~ In k (map fst kvs) -> get k (update d kvs) = get k d.
Proof.
  intros V k kvs. induction kvs as [|[k' v'] kvs IH]; intros d H; [reflexivity|].
  rewrite update_cons. cbn [fst snd]. rewrite IH by (intro HI; apply H; right; exact HI).
  apply get_dset_other. intro E. apply H. left. symmetry. exact E.
Qed.

Lemma get_update_in : forall V k (v : V) (kvs d : list (str * V)), NoDup (map fst kvs) -> In (k, v) kvs ->
  get k (update d kvs) = Some v.
Proof.
  intros V k v kvs. induction kvs as [|[k' v'] kvs IH]; intros d ND HI; [contradiction|].
  cbn [map fst] in ND. inversion ND as [|? ? Hn ND']; subst. rewrite update_cons. cbn [fst snd]. destruct HI as [HI|HI].
  - inversion HI; subst. rewrite get_update_notin by exact Hn. apply get_dset_same.
  - apply IH; assumption.
Qed.

Lemma nodup_strs_NoDup : forall l, nodup_strs l = true -> NoDup l.
Proof.
  induction l as [|k l IH]; intro H; [constructor|]. cbn [nodup_strs] in H. apply andb_true_iff in H. destruct H as [H1 H2].
  constructor; [|apply IH; exact H2]. intro HI. apply negb_true_iff in H1.
  assert (E : existsb (str_eqb k) l = true) by (apply existsb_exists; exists k; split; [exact HI|apply str_eqb_refl]).
  congruence.
Qed.

Lemma existsb_str_false : forall k l, existsb (str_eqb k) l = false -> ~ In k l.
Proof.
  intros k l H HI. assert (E : existsb (str_eqb k) l = true) by (apply existsb_exists; exists k; split; [exact HI|apply str_eqb_refl]).
  congruence.
Qed.

(* ------------------------------------------------------------------ which headers a form accepts *)
(* a form accepts a header iff the header (after the deletion) holds exactly n-1 separator characters:
   a header with fewer or more fields is not of this form *)
Lemma form_pieces_iff : forall F h,
  (exists p, form_pieces F h = Some p) <-> 1 + count_in (f_seps F) (remove_sub (f_del F) h) = f_n F.
Proof.
  intros F h. unfold form_pieces. cbv zeta. rewrite <- split_any_len.
  destruct (len (split_any (f_seps F) (remove_sub (f_del F) h)) =? f_n F) eqn:E.
  - apply Z.eqb_eq in E. split; [intros _; exact E|intros _; eexists; reflexivity].
  - apply Z.eqb_neq in E. split; [intros [p Hp]; discriminate|intro; contradiction].
Qed.

Lemma form_pieces_Some : forall F h p, form_pieces F h = Some p ->
  p = split_any (f_seps F) (remove_sub (f_del F) h) /\ len p = f_n F.
Proof.
  intros F h p H. unfold form_pieces in H. cbv zeta in H.
  destruct (len (split_any (f_seps F) (remove_sub (f_del F) h)) =? f_n F) eqn:E; [|discriminate].
  inversion H; subst. split; [reflexivity|apply Z.eqb_eq; exact E].
Qed.

(* pieces free of separators, glued with separators, are given back *)
Lemma form_pieces_glue : forall F h ps ss, remove_sub (f_del F) h = glue ps ss -> ps <> [] -> S (length ss) = length ps ->
  Forall (fun p => forall c, In c p -> in_chars (f_seps F) c = false) ps -> Forall (fun x => in_chars (f_seps F) x = true) ss ->
  len ps = f_n F -> form_pieces F h = Some ps.
Proof.
  intros F h ps ss Hh Hne Hl HP HS Hn. unfold form_pieces. cbv zeta. rewrite Hh, split_any_glue by assumption.
  apply Z.eqb_eq in Hn. rewrite Hn. reflexivity.
Qed.

(* the nested try/except: no form accepts iff every form rejects *)
Lemma first_form_None : forall forms h, first_form forms h = None <-> Forall (fun F => form_pieces F h = None) forms.
Proof.
  intros forms h. induction forms as [|F r IH]; [split; [constructor|reflexivity]|].
  cbn [first_form]. destruct (form_pieces F h) as [p|] eqn:E.
  - split; [discriminate|]. intro H. inversion H; subst. congruence.
  - rewrite IH. split; [intro H; constructor; assumption|intro H; inversion H; assumption].
Qed.

Lemma first_form_Some : forall forms h F p, first_form forms h = Some (F, p) -> In F forms /\ form_pieces F h = Some p.
Proof.
  intros forms h F p. induction forms as [|G r IH]; intro H; [discriminate|].
  cbn [first_form] in H. destruct (form_pieces G h) as [q|] eqn:E.
  - inversion H; subst. split; [left; reflexivity|exact E].
  - destruct (IH H) as [A B]. split; [right; exact A|exact B].
Qed.

(* ------------------------------------------------------------------ which piece goes to which tag *)
Section Assign.
  Context {V : Type}.
  Variables (forms : list form) (raw : str) (found : list (str * Z)) (inj : tval -> V).

  (* a tag of the assignment table holds its source, whatever the index part does afterwards, when it is not an index tag *)
  Lemma parse_assign : forall h ix (d : list (str * V)) F ps k s,
    first_form forms h = Some (F, ps) -> nodup_strs (map fst (f_assign F)) = true -> In (k, s) (f_assign F) ->
    k <> raw -> ~ In k (map fst found) ->
    get k (fst (parse_illumina_g forms raw found inj h ix d)) = Some (inj (eval_src ps s)).
  Proof.
    intros h ix d F ps k s HF ND HI Hraw Hfound. unfold parse_illumina_g. rewrite HF. cbv zeta.
    set (d1 := update d (map (fun kv => (fst kv, inj (snd kv))) (form_assign F ps))).
    assert (G1 : get k d1 = Some (inj (eval_src ps s))).
    { unfold d1. apply get_update_in.
      - unfold form_assign. rewrite !map_map. cbn [fst]. apply nodup_strs_NoDup. exact ND.
      - unfold form_assign. rewrite map_map. apply in_map_iff. exists (k, s). split; [reflexivity|exact HI]. }
    assert (G2 : get k (dset raw (inj (TS (fmt (eval_src ps (f_idx F))))) d1) = Some (inj (eval_src ps s))).
    { rewrite get_dset_other by exact Hraw. exact G1. }
    destruct ix as [tbl|]; [|exact G2].
    destruct (get (fmt (eval_src ps (f_idx F))) tbl) as [[[ident corrected]|]|]; cbn [fst]; try exact G2.
    rewrite get_update_notin; [exact G2|]. rewrite map_map. cbn [fst]. exact Hfound.
  Qed.

  (* a header no form accepts: ValueError, the store is untouched *)
  Lemma parse_none : forall h ix (d : list (str * V)), first_form forms h = None ->
    parse_illumina_g forms raw found inj h ix d = (d, Some EValue).
  Proof. intros h ix d H. unfold parse_illumina_g. rewrite H. reflexivity. Qed.

  (* the raw index tag holds the index as written whenever a form accepts *)
  Lemma parse_raw_index : forall h ix (d : list (str * V)) F ps,
    first_form forms h = Some (F, ps) -> ~ In raw (map fst found) ->
    get raw (fst (parse_illumina_g forms raw found inj h ix d)) = Some (inj (TS (fmt (eval_src ps (f_idx F))))).
  Proof.
    intros h ix d F ps HF Hn. unfold parse_illumina_g. rewrite HF. cbv zeta.
    destruct ix as [tbl|]; [|cbn [fst]; apply get_dset_same].
    destruct (get (fmt (eval_src ps (f_idx F))) tbl) as [[[ident corrected]|]|]; cbn [fst]; try apply get_dset_same.
    rewrite get_update_notin; [apply get_dset_same|]. rewrite map_map. cbn [fst]. exact Hn.
  Qed.
End Assign.

(* ------------------------------------------------------------------ the name format inverts the assignment table *)
Lemma name_inverts_spec : forall nk a i, name_inverts_from i nk a = true ->
  forall j k, nth_error nk j = Some k -> get k a = Some (SField (i + j)).
Proof.
  induction nk as [|k0 nk IH]; intros a i H j k Hj; [destruct j; discriminate|].
  cbn [name_inverts_from] in H. apply andb_true_iff in H. destruct H as [H1 H2]. destruct j as [|j].
  - cbn in Hj. inversion Hj; subst k0. destruct (get k a) as [s|]; [|discriminate]. destruct s as [n| |]; try discriminate.
    cbn [src_is_field] in H1. apply Nat.eqb_eq in H1. subst. rewrite Nat.add_0_r. reflexivity.
  - cbn [nth_error] in Hj. rewrite (IH a (S i) H2 j k Hj). f_equal. f_equal. lia.
Qed.

Lemma get_assign_In : forall k s (a : list (str * src)), get k a = Some s -> In (k, s) a.
Proof. intros. apply get_Some_In. assumption. Qed.

(* For EVERY form table and name format with [wf_form]: after _parse_illumina_header accepted a header by form F with
   pieces ps, the j-th key of the name format holds the j-th piece *)
Lemma name_keys_hold_pieces : forall V forms raw found (inj : tval -> V) keep nk h ix d F ps,
  first_form forms h = Some (F, ps) -> wf_form keep nk (raw :: map fst found) F = true ->
  forall j k, nth_error nk j = Some k ->
  get k (fst (parse_illumina_g forms raw found inj h ix d)) = Some (inj (TS (nth j ps []))).
Proof.
  intros V forms raw found inj keep nk h ix d F ps HF WF j k Hj.
  unfold wf_form in WF. repeat (apply andb_true_iff in WF; destruct WF as [WF ?]).
  rename H into Hother. rename H0 into Hseps. rename H1 into Hlen. rename H2 into Hinv.
  pose proof (name_inverts_spec nk (f_assign F) O Hinv j k Hj) as G. cbn [Nat.add] in G.
  rewrite forallb_forall in Hother. pose proof (Hother k (nth_error_In _ _ Hj)) as Hk.
  apply negb_true_iff in Hk. apply existsb_str_false in Hk.
  change (TS (nth j ps [])) with (eval_src ps (SField j)).
  apply (parse_assign forms raw found inj h ix d F ps k (SField j) HF WF (get_assign_In _ _ _ G)).
  - intro E. apply Hk. left. symmetry. exact E.
  - intro HI. apply Hk. right. exact HI.
Qed.
