(* C02 proofs, part 2: what the positional specification [expected] means, index by index;
   every base accounted for; nothing from the other mate; the constructor; the tables. *)
From Coq Require Import ZArith List Bool Lia ZifyBool PeanoNat.
Import ListNotations.
From SCMO Require Import Lib.Val Lib.PySlice Lib.PySliceFacts Model.C02Defs Model.C02Protocols
     Gen.GenLayouts Model.C02 Proofs.C02.
Open Scope Z_scope.

(* ------------------------------------------------------------------ shape of expected *)
Lemma expected_inv P b lookup recs out : expected P b lookup recs = Some out ->
  exists bi BC, lookup (cat_seq recs (p_bc P)) = Some (bi, BC) /\
    out = emit_all (p_insert P) 0 recs (fun s q =>
      let has_rx := if b then negb (is_nil (cat_seq recs (p_umi P))) else negb (is_nil (p_umi P)) in
      mkO s q (cat_seq recs (p_bc P)) BC bi
          (if has_rx then Some (cat_seq recs (p_umi P)) else None)
          (if has_rx then Some (map enc_total (cat_qual recs (p_umi P))) else None)
          (option_map (reg_seq recs) (p_primer P))
          (option_map (reg_seq recs) (p_lig P))
          (option_map (fun r => map enc_total (reg_qual recs r)) (p_lig P))
          []).
Proof.
  unfold expected. destruct (lookup _) as [[bi BC]|] eqn:E; [|discriminate].
  intros H. inversion H. exists bi, BC. split; reflexivity.
Qed.

(* one record per input mate *)
Lemma expected_arity P b lookup recs out : expected P b lookup recs = Some out -> length out = length recs.
Proof.
  intros H. destruct (expected_inv _ _ _ _ _ H) as (bi & BC & _ & ->). apply emit_all_length.
Qed.

Definition ins_of (P : playout) (i : nat) : nat := Z.to_nat (nth i (p_insert P) 0).

(* record i: emitted sequence AND qualities are the suffix of mate i from the insert start; tags are
   the bases / encoded qualities at the layout's regions *)
Lemma expected_record P b lookup recs out i r o :
  expected P b lookup recs = Some out -> nth_error recs i = Some r -> nth_error out i = Some o ->
  o_seq o = skipn (ins_of P i) (fst r) /\ o_qual o = skipn (ins_of P i) (snd r) /\
  o_bc o = cat_seq recs (p_bc P) /\
  lookup (o_bc o) = Some (o_bi o, o_BC o) /\
  (o_RX o = None /\ o_RQ o = None \/
   o_RX o = Some (cat_seq recs (p_umi P)) /\ o_RQ o = Some (map enc_total (cat_qual recs (p_umi P)))) /\
  (b = false -> (o_RX o = None <-> p_umi P = [])) /\
  (b = true -> (o_RX o = None <-> cat_seq recs (p_umi P) = [])) /\
  o_rS o = option_map (reg_seq recs) (p_primer P) /\
  o_lh o = option_map (reg_seq recs) (p_lig P) /\
  o_lq o = option_map (fun r => map enc_total (reg_qual recs r)) (p_lig P).
Proof.
  intros H Hr Ho. destruct (expected_inv _ _ _ _ _ H) as (bi & BC & Hlk & ->).
  rewrite (emit_all_nth _ _ _ _ _ _ Hr) in Ho. inversion Ho; subst o. clear Ho.
  cbn [o_seq o_qual o_bc o_BC o_bi o_RX o_RQ o_rS o_lh o_lq Nat.add]. unfold ins_of.
  repeat split; try reflexivity; try assumption.
  - destruct b; destruct (negb _); [right|left|right|left]; split; reflexivity.
  - match goal with Hb : b = _ |- _ => rewrite Hb end.
    destruct (p_umi P); cbn [is_nil negb]; [reflexivity|discriminate].
  - match goal with Hb : b = _ |- _ => rewrite Hb end.
    intros Hu. rewrite Hu. reflexivity.
  - match goal with Hb : b = _ |- _ => rewrite Hb end.
    destruct (cat_seq recs (p_umi P)); cbn [is_nil negb]; [reflexivity|discriminate].
  - match goal with Hb : b = _ |- _ => rewrite Hb end.
    intros Hu. rewrite Hu. reflexivity.
Qed.

(* index-wise meaning of a region: base j of the tag is base a+j of the stated mate, j < k *)
Lemma reg_seq_nth recs m a k j : 0 <= a -> 0 <= k ->
  nth_error (reg_seq recs (m, a, k)) j
  = if (j <? Z.to_nat k)%nat then nth_error (mate_seq recs m) (Z.to_nat a + j) else None.
Proof. intros _ _. unfold reg_seq. apply sub_nth_error. Qed.
Lemma reg_qual_nth recs m a k j : 0 <= a -> 0 <= k ->
  nth_error (reg_qual recs (m, a, k)) j
  = if (j <? Z.to_nat k)%nat then nth_error (mate_qual recs m) (Z.to_nat a + j) else None.
Proof. intros _ _. unfold reg_qual. apply sub_nth_error. Qed.

(* emitted stretch: same slice of sequence and qualities, index aligned *)
Lemma emitted_aligned P b lookup recs out i r o :
  expected P b lookup recs = Some out -> nth_error recs i = Some r -> nth_error out i = Some o ->
  (forall j, nth_error (o_seq o) j = nth_error (fst r) (ins_of P i + j)) /\
  (forall j, nth_error (o_qual o) j = nth_error (snd r) (ins_of P i + j)) /\
  (length (fst r) = length (snd r) -> length (o_seq o) = length (o_qual o)).
Proof.
  intros H Hr Ho. destruct (expected_record _ _ _ _ _ _ _ _ H Hr Ho) as (Hs & Hq & _).
  rewrite Hs, Hq. repeat split.
  - intros j. apply nth_error_skipn.
  - intros j. apply nth_error_skipn.
  - intros Hl. rewrite !skipn_length. lia.
Qed.

(* ------------------------------------------------------------------ every base accounted for *)
Lemma zseq_In n p : 0 <= p < n -> In p (zseq n).
Proof.
  intros H. unfold zseq. apply in_map_iff. exists (Z.to_nat p). split; [lia|].
  apply in_seq. lia.
Qed.

Lemma wf_p_covered P m p : wf_p P = true -> (m = 0 \/ m = 1) -> 0 <= p < nth (Z.to_nat m) (p_insert P) 0 ->
  exists r, In r (tag_regions P) /\ in_region m p r = true.
Proof.
  intros Hwf Hm Hp. unfold wf_p in Hwf. split_andb.
  match goal with H : forallb (fun m => forallb (covered P m) _) [0; 1] = true |- _ => rename H into Hc end.
  rewrite forallb_forall in Hc. specialize (Hc m ltac:(cbn [In]; lia)).
  rewrite forallb_forall in Hc. specialize (Hc p (zseq_In _ _ Hp)).
  unfold covered in Hc. apply existsb_exists in Hc. exact Hc.
Qed.

(* a position of mate i of an accepted input is either recorded in a tag region of that mate
   (positions before the insert start) or emitted at index p - insert_start; nothing in between is lost *)
Lemma accounted P b lookup recs out i r o p :
  wf_p P = true -> (i < 2)%nat ->
  expected P b lookup recs = Some out -> nth_error recs i = Some r -> nth_error out i = Some o ->
  (p < length (fst r))%nat ->
  (exists reg, In reg (tag_regions P) /\ in_region (Z.of_nat i) (Z.of_nat p) reg = true) \/
  ((ins_of P i <= p)%nat /\ nth_error (o_seq o) (p - ins_of P i) = nth_error (fst r) p).
Proof.
  intros Hwf Hi H Hr Ho Hp.
  destruct (emitted_aligned _ _ _ _ _ _ _ _ H Hr Ho) as (Hs & _ & _).
  destruct (Nat.lt_ge_cases p (ins_of P i)) as [Hlt|Hge].
  - left. apply (wf_p_covered P (Z.of_nat i) (Z.of_nat p) Hwf); [lia|].
    rewrite Nat2Z.id. unfold ins_of in Hlt. lia.
  - right. split; [assumption|]. rewrite Hs. f_equal. lia.
Qed.

(* ------------------------------------------------------------------ nothing from the other mate *)
(* record i depends on mate i and, beyond that, only on the bases / qualities inside the tag regions *)
Lemma cat_seq_ext recs recs' rs :
  (forall r, In r rs -> reg_seq recs r = reg_seq recs' r) -> cat_seq recs rs = cat_seq recs' rs.
Proof.
  intros H. unfold cat_seq. f_equal. apply map_ext_in. assumption.
Qed.
Lemma cat_qual_ext recs recs' rs :
  (forall r, In r rs -> reg_qual recs r = reg_qual recs' r) -> cat_qual recs rs = cat_qual recs' rs.
Proof.
  intros H. unfold cat_qual. f_equal. apply map_ext_in. assumption.
Qed.

Lemma other_mate_irrelevant P b lookup recs recs' out out' i :
  expected P b lookup recs = Some out -> expected P b lookup recs' = Some out' ->
  nth_error recs i = nth_error recs' i ->
  (forall r, In r (tag_regions P) -> reg_seq recs r = reg_seq recs' r /\ reg_qual recs r = reg_qual recs' r) ->
  nth_error out i = nth_error out' i.
Proof.
  intros H H' Hi Hreg.
  assert (Hbc : cat_seq recs (p_bc P) = cat_seq recs' (p_bc P)).
  { apply cat_seq_ext. intros r Hr. apply Hreg. unfold tag_regions. apply in_or_app. left. assumption. }
  assert (Hu : cat_seq recs (p_umi P) = cat_seq recs' (p_umi P)).
  { apply cat_seq_ext. intros r Hr. apply Hreg. unfold tag_regions. apply in_or_app. right. apply in_or_app. left. assumption. }
  assert (Huq : cat_qual recs (p_umi P) = cat_qual recs' (p_umi P)).
  { apply cat_qual_ext. intros r Hr. apply Hreg. unfold tag_regions. apply in_or_app. right. apply in_or_app. left. assumption. }
  assert (Hpr : option_map (reg_seq recs) (p_primer P) = option_map (reg_seq recs') (p_primer P)).
  { destruct (p_primer P) as [r|] eqn:E; [|reflexivity]. cbn [option_map]. f_equal. apply Hreg.
    unfold tag_regions. rewrite E. apply in_or_app. right. apply in_or_app. right. apply in_or_app. left. left. reflexivity. }
  assert (Hlg : option_map (reg_seq recs) (p_lig P) = option_map (reg_seq recs') (p_lig P) /\
                option_map (fun r => map enc_total (reg_qual recs r)) (p_lig P)
                = option_map (fun r => map enc_total (reg_qual recs' r)) (p_lig P)).
  { destruct (p_lig P) as [r|] eqn:E; [|split; reflexivity]. cbn [option_map].
    assert (In r (tag_regions P)).
    { unfold tag_regions. rewrite E. apply in_or_app. right. apply in_or_app. right. apply in_or_app. right. left. reflexivity. }
    destruct (Hreg r H0) as [-> ->]. split; reflexivity. }
  destruct Hlg as [Hl1 Hl2].
  destruct (expected_inv _ _ _ _ _ H) as (bi & BC & Hlk & ->).
  destruct (expected_inv _ _ _ _ _ H') as (bi' & BC' & Hlk' & ->).
  rewrite <- Hbc in Hlk'. rewrite Hlk in Hlk'. inversion Hlk'; subst bi' BC'.
  destruct (nth_error recs i) as [r|] eqn:Er.
  - symmetry in Hi. rewrite (emit_all_nth _ _ _ _ _ _ Er), (emit_all_nth _ _ _ _ _ _ Hi).
    cbv zeta. rewrite Hbc, Hu, Huq, Hpr, Hl1, Hl2. reflexivity.
  - symmetry in Hi.
    assert (forall ins rid rs mk, nth_error rs i = None -> nth_error (emit_all ins rid rs mk) i = None) as Hnone.
    { intros ins rid rs mk Hn. apply nth_error_None. rewrite emit_all_length. apply nth_error_None. assumption. }
    rewrite !Hnone by assumption. reflexivity.
Qed.

(* ------------------------------------------------------------------ quality encoding is injective on phred 0..51 *)
Lemma enc_q_injective_b :
  forallb (fun a => forallb (fun c => implb (match enc_q (33 + a), enc_q (33 + c) with
                                             | Some x, Some y => x =? y
                                             | _, _ => true
                                             end) (a =? c)) (zseq 52)) (zseq 52) = true.
Proof. vm_compute. reflexivity. Qed.

Lemma enc_q_defined c : exists x, enc_q c = Some x.
Proof.
  unfold enc_q.
  destruct (nth_error ascii_letters (Z.to_nat (Z.min (Z.max 0 (c - 33)) 51))) eqn:E; [eauto|].
  apply nth_error_None in E. change (length ascii_letters) with 52%nat in E. lia.
Qed.

Lemma enc_q_injective c1 c2 : 33 <= c1 < 85 -> 33 <= c2 < 85 -> enc_q c1 = enc_q c2 -> c1 = c2.
Proof.
  intros H1 H2 He. pose proof enc_q_injective_b as Hb. rewrite forallb_forall in Hb.
  specialize (Hb (c1 - 33) (zseq_In 52 (c1 - 33) ltac:(lia))). rewrite forallb_forall in Hb.
  specialize (Hb (c2 - 33) (zseq_In 52 (c2 - 33) ltac:(lia))).
  replace (33 + (c1 - 33)) with c1 in Hb by lia. replace (33 + (c2 - 33)) with c2 in Hb by lia.
  destruct (enc_q_defined c1) as [x Hx]. destruct (enc_q_defined c2) as [y Hy].
  rewrite Hx, Hy in Hb, He. inversion He; subst y. rewrite Z.eqb_refl in Hb. cbn [implb] in Hb. lia.
Qed.

(* the encoder never raises; a quality above phred 51 is clamped to 'Z' (code 90) *)
Lemma enc_q_clamps c : 84 <= c -> enc_q c = Some 90.
Proof.
  intros H. unfold enc_q. rewrite Z.max_r by lia. rewrite Z.min_r by lia. reflexivity.
Qed.

Lemma enc_qs_defined l : exists r, enc_qs l = Some r.
Proof.
  induction l as [|c t [r IH]]; [exists []; reflexivity|].
  destruct (enc_q_defined c) as [x Hx]. exists (x :: r). cbn [enc_qs]. rewrite Hx, IH. reflexivity.
Qed.

(* ------------------------------------------------------------------ the constructor *)
(* primer on the mate that does not carry the barcode, taken from the read start: the capture starts
   after barcode+UMI on the barcode mate and after the primer on the other one *)
Lemma derive_capture_separate a br k :
  (a_bcRead a = br) -> (br = 0 \/ br = 1) -> a_rpRead a = Some (1 - br) -> a_rpLength a = Some k ->
  a_rpEnd a = false -> a_umiLength a <> 0 -> a_umiRead a = br -> (a_umiStart a = 0 \/ a_bcStart a = 0) ->
  exists cap, derive_capture a = Some (cap, Some (slice_range 0 k)) /\
    pyindex cap br = Some (slice_from (a_bcLength a + a_umiLength a)) /\
    pyindex cap (1 - br) = Some (slice_from k).
Proof.
  intros Hbr Hb Hrp Hk He Hul Hur Hst. unfold derive_capture.
  apply Z.eqb_neq in Hul. rewrite Hul, Hur, Hbr, Z.eqb_refl. cbn [negb].
  assert (Hor : (a_umiStart a =? 0) || (a_bcStart a =? 0) = true) by lia. rewrite Hor. cbn [negb].
  rewrite Hrp, Hk, He.
  destruct Hb as [-> | ->]; cbn; eexists; repeat split.
Qed.

(* D5: a primer configured on the barcode mate (random_primer_end=False) OVERWRITES the capture
   start of that mate with the primer length: barcode/UMI bases leak into the emitted read *)
Lemma derive_capture_overwrite a br k :
  (a_bcRead a = br) -> (br = 0 \/ br = 1) -> a_rpRead a = Some br -> a_rpLength a = Some k ->
  a_rpEnd a = false -> a_umiLength a <> 0 -> a_umiRead a = br -> (a_umiStart a = 0 \/ a_bcStart a = 0) ->
  exists cap, derive_capture a = Some (cap, Some (slice_range 0 k)) /\
    pyindex cap br = Some (slice_from k) /\ pyindex cap (1 - br) = Some slice_all.
Proof.
  intros Hbr Hb Hrp Hk He Hul Hur Hst. unfold derive_capture.
  apply Z.eqb_neq in Hul. rewrite Hul, Hur, Hbr, Z.eqb_refl. cbn [negb].
  assert (Hor : (a_umiStart a =? 0) || (a_bcStart a =? 0) = true) by lia. rewrite Hor. cbn [negb].
  rewrite Hrp, Hk, He.
  destruct Hb as [-> | ->]; cbn; eexists; repeat split.
Qed.

(* ------------------------------------------------------------------ the tables *)
Lemma registered_wf : forallb registered_ok gen_table = true.
Proof. vm_compute. reflexivity. Qed.

Lemma registered_derive : forallb derive_ok gen_table = true.
Proof. vm_compute. reflexivity. Qed.

Lemma region_eqb_eq x y : region_eqb x y = true -> x = y.
Proof.
  destruct x as [[x1 x2] x3], y as [[y1 y2] y3]. intros Hxy. unfold region_eqb in Hxy. split_andb.
  f_equal; [f_equal|]; lia.
Qed.

Lemma playout_eqb_eq a b : playout_eqb a b = true -> a = b.
Proof.
  assert (Hregs : forall x y, regions_eqb x y = true -> x = y).
  { induction x as [|h t IH]; intros [|h' t'] Hxy; cbn [regions_eqb] in Hxy; try discriminate; [reflexivity|].
    split_andb. f_equal; [apply region_eqb_eq|apply IH]; assumption. }
  assert (Hor : forall x y, oregion_eqb x y = true -> x = y).
  { intros [x|] [y|] Hxy; cbn [oregion_eqb] in Hxy; try discriminate; [f_equal; apply region_eqb_eq; assumption|reflexivity]. }
  assert (Hl : forall x y, list_eqb x y = true -> x = y).
  { unfold list_eqb. induction x as [|h t IH]; intros [|h' t'] Hxy; cbn [length combine forallb Nat.eqb] in Hxy;
      try discriminate; [reflexivity|]. split_andb. cbn [fst snd] in *. f_equal; [lia|].
    apply IH. apply andb_true_iff. split; assumption. }
  destruct a as [a1 a2 a3 a4 a5 a6 a7], b as [b1 b2 b3 b4 b5 b6 b7]. intros Hab. unfold playout_eqb in Hab.
  cbn [p_bc p_umi p_primer p_lig p_insert p_min p_max] in Hab. split_andb.
  f_equal; try (apply Hregs; assumption); try (apply Hor; assumption); try (apply Hl; assumption); lia.
Qed.

Lemma extras_eqb_eq a b : extras_eqb a b = true -> a = b.
Proof.
  revert b. induction a as [|[t r] a' IH]; intros [|[t' r'] b'] H; cbn [extras_eqb] in H; try discriminate; [reflexivity|].
  cbn [fst snd] in H. split_andb. f_equal; [f_equal; [lia|apply region_eqb_eq; assumption]|apply IH; assumption].
Qed.

(* every single-protocol registered strategy: accepted => exactly the records the PINNED protocol prescribes *)
Lemma registered_spec g p lookup recs o out :
  In g gen_table -> find_protocol (g_name g) = Some p ->
  g_kind g = 1 \/ g_kind g = 2 ->
  demux_gen g lookup recs = Some o -> o = Accept out ->
  wf_p (pr_layout p) = true /\
  expected (pr_layout p) (pr_kind p =? 2) lookup recs = Some out /\
  p_min (pr_layout p) <= Z.of_nat (length recs) <= p_max (pr_layout p).
Proof.
  intros Hin Hf Hk Hd ->. pose proof registered_wf as Hr. rewrite forallb_forall in Hr.
  specialize (Hr g Hin). unfold registered_ok in Hr. rewrite Hf in Hr.
  apply andb_true_iff in Hr. destruct Hr as [Hkind Hr].
  assert (Hk12 : (g_kind g =? 1) || (g_kind g =? 2) = true) by lia. rewrite Hk12 in Hr.
  destruct (gen_positions g) as [P|] eqn:EP; [|discriminate].
  split_andb.
  match goal with H : playout_eqb P (pr_layout p) = true |- _ => apply playout_eqb_eq in H; subst P end.
  split; [assumption|].
  assert (Hpk : pr_kind p = g_kind g) by lia.
  unfold demux_gen in Hd. unfold gen_positions in EP. rewrite Hpk.
  destruct Hk as [Hk|Hk]; rewrite Hk in *; cbn [Z.eqb Pos.eqb] in *.
  - inversion Hd as [Hd']. apply (contig_spec _ _ _ _ _ _ EP Hd').
  - inversion Hd as [Hd']. apply (scattered_spec _ _ _ _ _ _ EP Hd').
Qed.

(* the restriction-bisulfite strategy: accepted => the pinned protocol's records incl. QT / ES / eq / IS *)
Lemma registered_spec_rb g p lookup recs o out :
  In g gen_table -> find_protocol (g_name g) = Some p -> g_kind g = 4 ->
  demux_gen g lookup recs = Some o -> o = Accept out ->
  expected_rb (pr_layout p) (pr_extra p) lookup recs = Some out /\ length recs = 2%nat.
Proof.
  intros Hin Hf Hk Hd ->. pose proof registered_wf as Hr. rewrite forallb_forall in Hr.
  specialize (Hr g Hin). unfold registered_ok in Hr. rewrite Hf in Hr.
  apply andb_true_iff in Hr. destruct Hr as [Hkind Hr]. rewrite Hk in Hr. cbn [Z.eqb Pos.eqb orb] in Hr.
  destruct (positions_rb (g_c g) (g_rb g)) as [[P X]|] eqn:EP; [|discriminate].
  split_andb.
  match goal with H : playout_eqb P (pr_layout p) = true |- _ => apply playout_eqb_eq in H; subst P end.
  match goal with H : extras_eqb X (pr_extra p) = true |- _ => apply extras_eqb_eq in H; subst X end.
  unfold demux_gen in Hd. rewrite Hk in Hd. cbn [Z.eqb Pos.eqb] in Hd. inversion Hd as [Hd'].
  apply (rb_spec _ _ _ _ _ _ _ EP Hd').
Qed.

(* corollaries in terms of the model alone *)
Lemma contig_accept_arity L W lookup recs out P :
  positions_c L W = Some P -> demux_contig L W lookup recs = Accept out -> length out = length recs.
Proof. intros HP H. destruct (contig_spec _ _ _ _ _ _ HP H) as [He _]. eapply expected_arity; eassumption. Qed.

Lemma scattered_accept_arity L W lookup recs out P :
  positions_s L W = Some P -> demux_scattered L W lookup recs = Accept out -> length out = length recs.
Proof. intros HP H. destruct (scattered_spec _ _ _ _ _ _ HP H) as [He _]. eapply expected_arity; eassumption. Qed.

Lemma contig_wf_full L W lookup recs out :
  wf_c L W = true -> demux_contig L W lookup recs = Accept out ->
  exists P, positions_c L W = Some P /\ wf_p P = true /\ expected P false lookup recs = Some out /\
            length out = length recs /\ p_min P <= Z.of_nat (length recs) <= p_max P.
Proof.
  unfold wf_c. intros Hwf H. destruct (positions_c L W) as [P|] eqn:EP; [|discriminate].
  exists P. destruct (contig_spec _ _ _ _ _ _ EP H) as [He Ha].
  repeat split; try assumption; try lia. eapply expected_arity; eassumption.
Qed.

Lemma scattered_wf_full L W lookup recs out :
  wf_s L W = true -> demux_scattered L W lookup recs = Accept out ->
  exists P, positions_s L W = Some P /\ wf_p P = true /\ expected P true lookup recs = Some out /\
            length out = length recs /\ p_min P <= Z.of_nat (length recs) <= p_max P.
Proof.
  unfold wf_s. intros Hwf H. destruct (positions_s L W) as [P|] eqn:EP; [|discriminate].
  exists P. destruct (scattered_spec _ _ _ _ _ _ EP H) as [He Ha].
  repeat split; try assumption; try lia. eapply expected_arity; eassumption.
Qed.
