(* C10, second proof file: consequences of the kernel characterisation for the whole table.
   - the two copies of coordinate_to_bins agree;
   - number and order of the windows of one coordinate;
   - the statement's "consequently" clause in closed form for the non-sliding mode;
   - the table is a function of the multiset of reads (order of reads, of alignment files and of
     contigs is irrelevant), is additive over concatenation, and holds one row per cell. *)
From Coq Require Import ZArith List Bool Lia ZifyBool Permutation Sorted.
Import ListNotations.
From SCMO Require Import Lib.Val Lib.PyInt Lib.PyIntFacts Gen.GenBins Model.C10 Proofs.C10.
Open Scope Z_scope.
Ltac Zify.zify_post_hook ::= Z.to_euclidean_division_equations.

(* ---- kernel *)
Lemma copies_agree dp b s : 0 < s -> bins_u dp b s = bins_t dp b s.
Proof. intros Hs. rewrite bins_u_def, bins_t_def by assumption. reflexivity. Qed.

Lemma window_count dp b s : 0 < s -> s <= b ->
  Z.of_nat (length (bins_t dp b s)) = dp / s - (dp - b) / s.
Proof. exact (count_windows bins_t bins_t_def dp b s). Qed.

Lemma window_count_divides dp s m : 0 < s -> 1 <= m ->
  Z.of_nat (length (bins_t dp (m * s) s)) = m.
Proof.
  intros Hs Hm. rewrite window_count by nia.
  replace (dp - m * s) with (dp + (- m) * s) by lia. rewrite Z.div_add by lia. lia.
Qed.

Lemma window_count_bounds dp b s : 0 < s -> s <= b ->
  b / s <= Z.of_nat (length (bins_t dp b s)) <= b / s + 1.
Proof.
  intros Hs Hb. rewrite window_count by assumption.
  pose proof (Z.div_mod dp s ltac:(lia)) as E1. pose proof (Z.mod_pos_bound dp s Hs) as B1.
  pose proof (Z.div_mod (dp - b) s ltac:(lia)) as E2. pose proof (Z.mod_pos_bound (dp - b) s Hs) as B2.
  pose proof (Z.div_mod b s ltac:(lia)) as E3. pose proof (Z.mod_pos_bound b s Hs) as B3.
  set (q1 := dp / s) in *. set (r1 := dp mod s) in *.
  set (q2 := (dp - b) / s) in *. set (r2 := (dp - b) mod s) in *.
  set (q3 := b / s) in *. set (r3 := b mod s) in *.
  assert (s * (q1 - q2 - q3) = r3 + r2 - r1) by lia.
  assert (- s < s * (q1 - q2 - q3) < 2 * s) by lia.
  nia.
Qed.

Lemma at_least_one_window dp b s : 0 < s -> s <= b -> bins_t dp b s <> [].
Proof.
  intros Hs Hb E. pose proof (window_count_bounds dp b s Hs Hb) as [H _].
  rewrite E in H. cbn [length] in H.
  assert (1 <= b / s) by (apply Z.div_le_lower_bound; lia). lia.
Qed.

Lemma zrange_from_sorted : forall n lo, StronglySorted Z.lt (zrange_from lo n).
Proof.
  induction n as [|n IH]; intros lo; cbn [zrange_from]; constructor.
  - apply IH.
  - apply Forall_forall. intros x Hx. apply zrange_from_In in Hx. lia.
Qed.

Lemma StronglySorted_map {A B} (R : A -> A -> Prop) (S : B -> B -> Prop) (f : A -> B) :
  (forall x y, R x y -> S (f x) (f y)) ->
  forall l, StronglySorted R l -> StronglySorted S (map f l).
Proof.
  intros Hf l H. induction H as [|a l Hs IH Hall]; cbn [map]; constructor; [exact IH|].
  apply Forall_forall. intros y Hy. apply in_map_iff in Hy. destruct Hy as (x & <- & Hx).
  apply Hf. rewrite Forall_forall in Hall. auto.
Qed.

(* windows are emitted left to right: strictly increasing start (and hence end) *)
Lemma bins_sorted dp b s : 0 < s ->
  StronglySorted (fun p q => fst p < fst q /\ snd p < snd q) (bins_t dp b s).
Proof.
  intros Hs. rewrite bins_t_def by assumption.
  apply (StronglySorted_map Z.lt); [|apply zrange_from_sorted].
  intros x y Hxy. cbn [fst snd]. nia.
Qed.

(* every window has width b and starts on a multiple of s *)
Lemma bins_shape_all dp b s : 0 < s ->
  Forall (fun p => snd p = fst p + b /\ fst p mod s = 0) (bins_t dp b s).
Proof.
  intros Hs. apply Forall_forall. intros [lo hi] Hin.
  apply (membership bins_t bins_t_def) in Hin; [|assumption].
  destruct Hin as (i & -> & -> & _). cbn [fst snd]. split; [reflexivity|apply Z_mod_mult].
Qed.

(* ---- non-sliding mode in closed form *)
Definition inside (keep : bool) (b : Z) (r : read) : bool :=
  keep || ((0 <=? b * (r_dp r / b)) && (b * (r_dp r / b) + b <=? r_reflen r)).

Lemma counted_no_sliding keep reflen dp b : 0 < b ->
  counted_bins keep reflen dp b b =
  if keep || ((0 <=? b * (dp / b)) && (b * (dp / b) + b <=? reflen))
  then [(b * (dp / b), b * (dp / b) + b)] else [].
Proof.
  intros Hb. unfold counted_bins. rewrite (no_sliding bins_t bins_t_def) by assumption.
  cbn [filter fst snd].
  (* robust to equivalent rewrites of the regenerated over-bounds test: decided by lia on booleans *)
  destruct (skip_bin keep (b * (dp / b)) (b * (dp / b) + b) reflen) eqn:E;
    destruct (keep || ((0 <=? b * (dp / b)) && (b * (dp / b) + b <=? reflen))) eqn:F;
    cbn [negb]; try reflexivity; exfalso; unfold skip_bin in E;
    generalize dependent (b * (dp / b)); intros lo E F; destruct keep; cbn in E, F; lia.
Qed.

Definition weight_inside keep b (reads : list read) : Z :=
  fold_right (fun r acc => (if inside keep b r then r_w r else 0) + acc) 0 reads.

Lemma total_no_sliding keep b reads : 0 < b ->
  total (table keep b b reads) = weight_inside keep b reads.
Proof.
  intros Hb. rewrite table_total. induction reads as [|r reads IH]; [reflexivity|].
  rewrite spec_total_cons, IH. unfold weight_inside. cbn [fold_right].
  unfold read_bins, inside. rewrite counted_no_sliding by assumption.
  destruct (keep || ((0 <=? b * (r_dp r / b)) && (b * (r_dp r / b) + b <=? r_reflen r)));
    cbn [length]; lia.
Qed.

Definition weight_all (reads : list read) : Z := fold_right (fun r acc => r_w r + acc) 0 reads.

Lemma total_keep_no_sliding b reads : 0 < b -> total (table true b b reads) = weight_all reads.
Proof.
  intros Hb. rewrite total_no_sliding by assumption.
  induction reads as [|r reads IH]; [reflexivity|].
  unfold weight_inside, weight_all in *. cbn [fold_right]. rewrite IH. unfold inside. cbn [orb]. lia.
Qed.

Lemma filter_all {A} (f : A -> bool) (l : list A) : (forall x, f x = true) -> filter f l = l.
Proof. intros H. induction l as [|x l IH]; cbn [filter]; [reflexivity|]. rewrite H, IH. reflexivity. Qed.

(* sliding, keepOverBounds, s | b: every read counts exactly b/s times *)
Lemma total_keep_divides s m reads : 0 < s -> 1 <= m ->
  total (table true (m * s) s reads) = m * weight_all reads.
Proof.
  intros Hs Hm. rewrite table_total. induction reads as [|r reads IH]; [cbn; lia|].
  rewrite spec_total_cons, IH. unfold weight_all. cbn [fold_right]. fold (weight_all reads).
  unfold read_bins, counted_bins, skip_bin.
  rewrite filter_all by (intros x; reflexivity).
  rewrite window_count_divides by assumption. lia.
Qed.

(* a read in the trailing partial bin of a contig is dropped unless keepOverBounds *)
Lemma partial_last_bin reflen dp b : 0 < b -> 0 <= dp < reflen ->
  counted_bins false reflen dp b b = [] <-> b * (reflen / b) <= dp.
Proof.
  intros Hb Hdp. rewrite counted_no_sliding by assumption. cbn [orb].
  destruct ((0 <=? b * (dp / b)) && (b * (dp / b) + b <=? reflen)) eqn:E.
  - split; [discriminate|]. intros H. exfalso.
    apply andb_true_iff in E. destruct E as [E1 E2].
    apply Z.leb_le in E2.
    assert (A : dp / b + 1 <= reflen / b) by (apply Z.div_le_lower_bound; lia).
    assert (B : b * (dp / b + 1) <= b * (reflen / b)) by (apply Z.mul_le_mono_nonneg_l; lia).
    pose proof (Z.div_mod dp b ltac:(lia)) as D. pose proof (Z.mod_pos_bound dp b Hb) as M.
    clear A E1. lia.
  - split; [intros _|reflexivity].
    pose proof (Z.div_mod dp b ltac:(lia)) as D. pose proof (Z.mod_pos_bound dp b Hb) as M.
    assert (P : 0 <= dp / b) by (apply Z.div_pos; lia).
    apply andb_false_iff in E. destruct E as [E|E].
    + apply Z.leb_gt in E. exfalso. assert (0 <= b * (dp / b)) by (apply Z.mul_nonneg_nonneg; lia). lia.
    + apply Z.leb_gt in E.
      assert (A : reflen / b < dp / b + 1) by (apply Z.div_lt_upper_bound; lia).
      assert (B : b * (reflen / b) <= b * (dp / b)) by (apply Z.mul_le_mono_nonneg_l; lia).
      clear A P. lia.
Qed.

(* ---- the table as a function of the multiset of reads *)
Lemma decl_cell_app keep b s q r1 r2 :
  decl_cell keep b s q (r1 ++ r2) = decl_cell keep b s q r1 + decl_cell keep b s q r2.
Proof.
  unfold decl_cell. induction r1 as [|r r1 IH]; cbn [app fold_right]; [lia|]. rewrite IH. lia.
Qed.

Lemma decl_cell_perm keep b s q r1 r2 : Permutation r1 r2 ->
  decl_cell keep b s q r1 = decl_cell keep b s q r2.
Proof.
  unfold decl_cell. induction 1 as [|x l l' _ IH|x y l|l l' l'' _ IH1 _ IH2]; cbn [fold_right]; lia.
Qed.

Lemma cell_app keep b s k lo hi r1 r2 : 0 < s ->
  cell (k, lo, hi) (table keep b s (r1 ++ r2))
  = cell (k, lo, hi) (table keep b s r1) + cell (k, lo, hi) (table keep b s r2).
Proof. intros Hs. rewrite !table_cell_decl by assumption. apply decl_cell_app. Qed.

Lemma cell_perm keep b s k lo hi r1 r2 : 0 < s -> Permutation r1 r2 ->
  cell (k, lo, hi) (table keep b s r1) = cell (k, lo, hi) (table keep b s r2).
Proof. intros Hs P. rewrite !table_cell_decl by assumption. apply decl_cell_perm; assumption. Qed.

Lemma spec_total_perm keep b s r1 r2 : Permutation r1 r2 ->
  spec_total keep b s r1 = spec_total keep b s r2.
Proof.
  unfold spec_total. induction 1 as [|x l l' _ IH|x y l|l l' l'' _ IH1 _ IH2]; cbn [fold_right]; lia.
Qed.

Lemma total_perm keep b s r1 r2 : Permutation r1 r2 ->
  total (table keep b s r1) = total (table keep b s r2).
Proof. intros P. rewrite !table_total. apply spec_total_perm; assumption. Qed.

Lemma total_app keep b s r1 r2 :
  total (table keep b s (r1 ++ r2)) = total (table keep b s r1) + total (table keep b s r2).
Proof.
  rewrite !table_total. unfold spec_total.
  induction r1 as [|r r1 IH]; cbn [app fold_right]; [lia|]. rewrite IH. lia.
Qed.

(* ---- one row per cell *)
Lemma add_cell_keys k w t :
  map fst (add_cell k w t) = if existsb (tkey_eqb k) (map fst t) then map fst t else map fst t ++ [k].
Proof.
  induction t as [|[k' w'] t IH]; cbn [add_cell map existsb fst app]; [reflexivity|].
  destruct (tkey_eqb k k') eqn:E; cbn [orb map fst]; [reflexivity|].
  rewrite IH. destruct (existsb (tkey_eqb k) (map fst t)); reflexivity.
Qed.

Lemma NoDup_snoc {A} (l : list A) (k : A) : NoDup l -> ~ In k l -> NoDup (l ++ [k]).
Proof.
  induction l as [|x l IH]; intros Hnd Hin; cbn [app]; [constructor; [intros []|constructor]|].
  inversion Hnd as [|? ? Hx Hl]; subst. constructor.
  - intros H. apply in_app_or in H. destruct H as [H|[H|[]]]; [contradiction|]. apply Hin. left. symmetry. exact H.
  - apply IH; [exact Hl|]. intros H. apply Hin. right. exact H.
Qed.

Lemma add_cell_NoDup k w t : NoDup (map fst t) -> NoDup (map fst (add_cell k w t)).
Proof.
  intros H. rewrite add_cell_keys. destruct (existsb (tkey_eqb k) (map fst t)) eqn:E; [exact H|].
  apply NoDup_snoc; [exact H|]. intros Hin.
  assert (existsb (tkey_eqb k) (map fst t) = true); [|congruence].
  apply existsb_exists. exists k. split; [exact Hin|]. apply tkey_eqb_eq. reflexivity.
Qed.

Lemma add_bins_NoDup key w : forall l t, NoDup (map fst t) ->
  NoDup (map fst (fold_left (fun t p => add_cell (key, fst p, snd p) w t) l t)).
Proof.
  induction l as [|p l IH]; intros t H; cbn [fold_left]; [exact H|].
  apply IH. apply add_cell_NoDup. exact H.
Qed.

Lemma table_rows_NoDup keep b s reads : NoDup (map fst (table keep b s reads)).
Proof.
  unfold table. assert (G : forall t, NoDup (map fst t) -> NoDup (map fst (fold_left (add_read keep b s) reads t))).
  { induction reads as [|r reads IH]; intros t H; cbn [fold_left]; [exact H|].
    apply IH. unfold add_read. apply add_bins_NoDup. exact H. }
  apply G. constructor.
Qed.

(* a row exists only if some read contributed to it: no phantom rows *)
Lemma add_cell_keys_in k w t q : In q (map fst (add_cell k w t)) -> q = k \/ In q (map fst t).
Proof.
  rewrite add_cell_keys. destruct (existsb (tkey_eqb k) (map fst t)); [auto|].
  intros H. apply in_app_or in H. destruct H as [H|[H|[]]]; auto.
Qed.

Lemma table_rows_sound keep b s reads q : 0 < s ->
  In q (map fst (table keep b s reads)) ->
  exists r, In r reads /\ In (snd (fst q), snd q) (read_bins keep b s r) /\ fst (fst q) = r_key r.
Proof.
  intros Hs. unfold table.
  assert (G : forall t, In q (map fst (fold_left (add_read keep b s) reads t)) ->
            In q (map fst t) \/ exists r, In r reads /\ In (snd (fst q), snd q) (read_bins keep b s r) /\ fst (fst q) = r_key r).
  { induction reads as [|r reads IH]; intros t H; cbn [fold_left] in H; [left; exact H|].
    apply IH in H. destruct H as [H|(r' & H1 & H2)]; [|right; exists r'; split; [right; exact H1|exact H2]].
    unfold add_read in H. fold (read_bins keep b s r) in H.
    assert (A : forall l t0, In q (map fst (fold_left (fun t p => add_cell (r_key r, fst p, snd p) (r_w r) t) l t0)) ->
                In q (map fst t0) \/ (In (snd (fst q), snd q) l /\ fst (fst q) = r_key r)).
    { induction l as [|p l IHl]; intros t0 H0; cbn [fold_left] in H0; [left; exact H0|].
      apply IHl in H0. destruct H0 as [H0|[H0 H0']]; [|right; split; [right; exact H0|exact H0']].
      apply add_cell_keys_in in H0. destruct H0 as [->|H0]; [|left; exact H0].
      right. cbn [fst snd]. split; [left; destruct p; reflexivity|reflexivity]. }
    apply A in H. destruct H as [H|[H H']]; [left; exact H|].
    right. exists r. split; [left; reflexivity|split; assumption]. }
  intros H. apply G in H. destruct H as [[]|H]. exact H.
Qed.
