(* C06 proofs, part 0: shape lemmas connecting the GENERATED kernel (Gen/GenAssign.v, regenerated from /repo on every
   run) to the closed forms the invariant proofs use.  A change of an operator, of a compared attribute, of a
   match_hash component, of the capacity test or of a tag expression in the source breaks one of these lemmas;
   equivalent rewrites (reordered guards, reordered tuple, rc != 0 for rc > 0, ...) do not: every lemma is proved
   by case analysis on the conditions followed by lia / congruence. *)
From Coq Require Import ZArith List Bool Lia ZifyBool.
Import ListNotations.
From SCMO Require Import Lib.Val Gen.GenAssign Model.C06.
Open Scope Z_scope.

Ltac split_ifs :=
  repeat match goal with
         | |- context [if ?b then _ else _] => destruct b eqn:?
         end.
Ltac shape := cbn [andb orb negb]; split_ifs; cbn [andb orb negb] in *; try reflexivity; try lia; try congruence.

(* ---- Fragment.umi_eq: equal UMIs match; distance 0 is exact; lengths must agree; hamming <= d *)
Lemma umi_eq_shape d a b :
  umi_eq d a b = (if zs_eqb a b then true else if d =? 0 then false
                  else if negb (Nat.eqb (length a) (length b)) then false else hamming a b <=? d).
Proof.
  unfold umi_eq, g_umi_eq. generalize (zs_eqb a b) (Nat.eqb (length a) (length b)) (hamming a b).
  intros [] [] h; shape.
Qed.

(* ---- the three __eq__ guard chains *)
Definition accepts_spec (c : cfg) (f : frag) (m : mol) : bool :=
  let fs := m_frags m in
  if c_cls c =? 1 then zs_eqb (key c f) (hash_of c fs) && umi_eq (c_d c) (f_umi f) (rep_of fs)
  else if c_cls c =? 2 then
    zs_eqb (key c f) (hash_of c fs)
    && negb ((0 <? c_r c) && (c_r c <? Z.abs (f_site f - site_of (fs ++ m_ovf m))))
    && umi_eq (c_d c) (f_umi f) (rep_of fs)
  else
    (f_cell f =? cell_of fs) && (f_strand f =? strand_of fs) && (f_contig f =? chrom_of fs)
    && negb (c_r c <? Z.min (Z.abs (f_site f - start_of fs)) (Z.abs (f_end f - end_of fs)))
    && umi_eq (c_d c) (f_umi f) (rep_of fs).

Lemma accepts_shape c f m : accepts c f m = accepts_spec c f m.
Proof.
  unfold accepts, accepts_spec, g_nla_eq, g_chic_eq, g_fragment_eq, g_mol_span_ok. cbv zeta.
  generalize (umi_eq (c_d c) (f_umi f) (rep_of (m_frags m))) (zs_eqb (key c f) (hash_of c (m_frags m))).
  intros u h. destruct (c_cls c =? 1); [destruct h, u; shape|].
  destruct (c_cls c =? 2).
  - generalize (Z.abs (f_site f - site_of (m_frags m ++ m_ovf m))). intros x. destruct h, u; shape.
  - generalize (Z.min (Z.abs (f_site f - start_of (m_frags m))) (Z.abs (f_end f - end_of (m_frags m)))). intros x.
    destruct u; shape.
Qed.

(* Molecule.has_valid_span: both ends set (`is not None`; position 0 is a valid coordinate) *)
Lemma mol_span_shape s e : g_mol_span_ok s e = s && e.
Proof. unfold g_mol_span_ok. destruct s, e; shape. Qed.

(* ---- match_hash: which components the tuple (composed with the stores of set_site) pins down *)
Lemma key_nla c f g : c_cls c = 1 ->
  (key c f = key c g <-> f_strand f = f_strand g /\ f_contig f = f_contig g /\ f_site f = f_site g /\ f_cell f = f_cell g).
Proof.
  intros E. unfold key, g_nla_hash. rewrite E. cbn [Z.eqb Pos.eqb]. split.
  - intros H. inversion H. repeat split; congruence.
  - intros (H1 & H2 & H3 & H4). now rewrite H1, H2, H3, H4.
Qed.
Lemma key_chic0 c f g : c_cls c = 2 -> c_r c = 0 ->
  (key c f = key c g <-> f_strand f = f_strand g /\ f_contig f = f_contig g /\ f_site f = f_site g /\ f_cell f = f_cell g).
Proof.
  intros E Er. unfold key, g_chic_hash. rewrite E, Er. cbn [Z.eqb Pos.eqb]. split.
  - intros H. inversion H. repeat split; congruence.
  - intros (H1 & H2 & H3 & H4). now rewrite H1, H2, H3, H4.
Qed.
Lemma key_chicr c f g : c_cls c = 2 -> c_r c <> 0 ->
  (key c f = key c g -> f_strand f = f_strand g /\ f_contig f = f_contig g /\ f_cell f = f_cell g).
Proof.
  intros E Er. unfold key, g_chic_hash. rewrite E. cbn [Z.eqb Pos.eqb].
  destruct (c_r c =? 0) eqn:E0; [apply Z.eqb_eq in E0; contradiction|].
  intros H. inversion H. repeat split; congruence.
Qed.
Lemma key_plain c f : c_cls c <> 1 -> c_cls c <> 2 -> key c f = [].
Proof.
  intros H1 H2. unfold key. destruct (c_cls c =? 1) eqn:E1; [apply Z.eqb_eq in E1; contradiction|].
  destruct (c_cls c =? 2) eqn:E2; [apply Z.eqb_eq in E2; contradiction|]. reflexivity.
Qed.

(* ---- add_fragment: the capacity test is `len >= cap`, applied only to a fragment that MATCHES *)
Lemma add_decision_shape a hc n cap :
  g_add_decision false a hc n cap = (if a then (if hc && (cap <=? n) then 2 else 1) else 0).
Proof. unfold g_add_decision. destruct a, hc; shape. Qed.

Lemma decide_shape c f m : decide c f m = (if accepts c f m then (if full c m then 2 else 1) else 0).
Proof.
  unfold decide, full, has_cap, cap_val. rewrite add_decision_shape. destruct (c_cap c); cbn [andb]; reflexivity.
Qed.

Lemma offer_cons c f m ms :
  offer c f (m :: ms) =
  if accepts c f m then (if full c m then Overflowed (mol_bump m f :: ms) else Added (mol_add m f :: ms))
  else match offer c f ms with
       | Added r => Added (m :: r)
       | Overflowed r => Overflowed (m :: r)
       | Rejected => Rejected
       end.
Proof. cbn [offer]. rewrite decide_shape. destruct (accepts c f m); [destruct (full c m)|]; reflexivity. Qed.

(* the Molecule constructor (add_fragment on an empty molecule) raises exactly for cap <= 0 *)
Lemma cap_bad_shape c : cap_bad c = match c_cap c with Some k => k <=? 0 | None => false end.
Proof. unfold cap_bad, g_add_decision, has_cap, cap_val. destruct (c_cap c); shape. Qed.

(* ---- write_tags: RC = rank, duplicate = rank > 0 (whatever the input flag), af = size, TF = size + overflow *)
Lemma tag_rc_shape n rc : g_tag_rc n rc = rc.
Proof. unfold g_tag_rc. shape. Qed.
Lemma tag_dup_shape n rc d : 0 <= n -> 0 <= rc -> g_tag_dup n rc d = (0 <? rc).
Proof. intros Hn Hrc. unfold g_tag_dup. destruct d; shape. Qed.
Lemma tag_af_shape n over : g_tag_af n over = n.
Proof. unfold g_tag_af. shape. Qed.
Lemma tag_tf_shape n over : g_tag_tf n over = n + over.
Proof. unfold g_tag_tf. shape. Qed.

Lemma tags_from_cons n over rc f fs : 0 <= n -> 0 <= rc ->
  tags_from true n over rc (f :: fs) =
  {| t_id := f_id f; t_rc := rc; t_dup := 0 <? rc; t_af := n; t_tf := n + over; t_qc := negb (f_valid f) |}
  :: tags_from true n over (rc + 1) fs.
Proof.
  intros Hn Hrc. cbn [tags_from]. now rewrite tag_rc_shape, tag_dup_shape, tag_af_shape, tag_tf_shape.
Qed.

Lemma key_shape c f g :
  (c_cls c = 1 \/ (c_cls c = 2 /\ c_r c = 0) ->
   (key c f = key c g <-> f_strand f = f_strand g /\ f_contig f = f_contig g /\ f_site f = f_site g /\ f_cell f = f_cell g)) /\
  (c_cls c = 2 -> c_r c <> 0 -> key c f = key c g -> f_strand f = f_strand g /\ f_contig f = f_contig g /\ f_cell f = f_cell g).
Proof.
  split.
  - intros [E|[E Er]]; [now apply key_nla|now apply key_chic0].
  - intros E Er. now apply key_chicr.
Qed.

Lemma add_shape c f m ms :
  offer c f (m :: ms) =
  (if accepts c f m then (if full c m then Overflowed (mol_bump m f :: ms) else Added (mol_add m f :: ms))
   else match offer c f ms with Added r => Added (m :: r) | Overflowed r => Overflowed (m :: r) | Rejected => Rejected end) /\
  cap_bad c = match c_cap c with Some k => k <=? 0 | None => false end.
Proof. split; [apply offer_cons|apply cap_bad_shape]. Qed.
