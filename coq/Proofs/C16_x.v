(* C16 proofs, part x: tuple order is a total order (list.sort is canonical), structural facts about the index sort()
   builds, the feature loaders. *)
From Coq Require Import ZArith List Bool Lia Permutation Sorted.
Import ListNotations.
From SCMO Require Import Gen.GenFeatures Model.C16 Model.C16x Proofs.C16_a Proofs.C16_b Proofs.C16_c.
Open Scope Z_scope.

(* ------------------------------------------------------------------ tuple comparison is a total order *)
Fixpoint lexle (a b : list Z) : Prop :=
  match a, b with
  | x :: a', y :: b' => x < y \/ (x = y /\ lexle a' b')
  | [], _ => True
  | _ :: _, [] => False
  end.
Definition fkey (f : feat) : list Z := [f_start f; f_end f; f_name f; f_strand f; f_data f].

Lemma lexle_trans a : forall b c, lexle a b -> lexle b c -> lexle a c.
Proof.
  induction a as [|x a IH]; intros [|y b] [|z c]; cbn; try tauto.
  intros [H1|[H1 H1']] [H2|[H2 H2']]; try (left; lia). right. split; [lia | eapply IH; eassumption].
Qed.
Lemma lexle_total a : forall b, lexle a b \/ lexle b a.
Proof.
  induction a as [|x a IH]; intros [|y b]; cbn; try tauto.
  destruct (Z.lt_trichotomy x y) as [H|[H|H]]; [left; left; exact H | | right; left; exact H].
  destruct (IH b) as [H'|H']; [left | right]; right; split; auto.
Qed.
Lemma lexle_antisym a : forall b, length a = length b -> lexle a b -> lexle b a -> a = b.
Proof.
  induction a as [|x a IH]; intros [|y b]; cbn; try discriminate; [reflexivity|].
  intros Hl [H1|[H1 H1']] [H2|[H2 H2']]; try lia. subst y. f_equal. apply IH; [lia | assumption | assumption].
Qed.

Lemma feat_leb_lex a b : feat_leb a b = true <-> lexle (fkey a) (fkey b).
Proof.
  unfold feat_leb, feat_cmp, lex, fkey. cbn [lexle].
  destruct (Z.compare_spec (f_start a) (f_start b)); destruct (Z.compare_spec (f_end a) (f_end b));
    destruct (Z.compare_spec (f_name a) (f_name b)); destruct (Z.compare_spec (f_strand a) (f_strand b));
    destruct (Z.compare_spec (f_data a) (f_data b));
    (split; [intros Hd; try discriminate Hd; lia | intros Hd; try reflexivity; exfalso; lia]).
Qed.

Definition fle (a b : feat) : Prop := feat_leb a b = true.
Lemma fle_trans a b c : fle a b -> fle b c -> fle a c.
Proof. unfold fle. rewrite !feat_leb_lex. apply lexle_trans. Qed.
Lemma fle_total a b : fle a b \/ fle b a.
Proof. unfold fle. rewrite !feat_leb_lex. apply lexle_total. Qed.
Lemma fle_antisym a b : fle a b -> fle b a -> a = b.
Proof.
  unfold fle. rewrite !feat_leb_lex. intros H1 H2.
  assert (E : fkey a = fkey b) by (apply lexle_antisym; [reflexivity | assumption | assumption]).
  destruct a, b. unfold fkey in E. cbn in E. congruence.
Qed.

Lemma insert_ssorted f l : StronglySorted fle l -> StronglySorted fle (insert_feat f l).
Proof.
  induction l as [|g t IH]; intros Hs; cbn [insert_feat].
  - constructor; constructor.
  - apply StronglySorted_inv in Hs. destruct Hs as [Hs Hall]. destruct (feat_leb f g) eqn:E.
    + constructor; [constructor; assumption|]. constructor; [exact E|].
      rewrite Forall_forall in *. intros x Hx. eapply fle_trans; [exact E | apply Hall; exact Hx].
    + constructor; [apply IH; exact Hs|]. rewrite Forall_forall in *. intros x Hx.
      apply insert_In in Hx. destruct Hx as [->|Hx]; [|apply Hall; exact Hx].
      destruct (fle_total g f) as [H|H]; [exact H | unfold fle in H; congruence].
Qed.
Lemma sort_ssorted l : StronglySorted fle (sort_feats l).
Proof. induction l as [|a l IH]; cbn; [constructor | apply insert_ssorted; exact IH]. Qed.

Lemma sorted_perm_eq l1 : forall l2, StronglySorted fle l1 -> StronglySorted fle l2 -> Permutation l1 l2 -> l1 = l2.
Proof.
  induction l1 as [|a t1 IH]; intros l2 H1 H2 Hp.
  - apply Permutation_nil in Hp. subst. reflexivity.
  - destruct l2 as [|b t2]; [apply Permutation_sym, Permutation_nil in Hp; discriminate|].
    apply StronglySorted_inv in H1. destruct H1 as [H1 Ha]. apply StronglySorted_inv in H2. destruct H2 as [H2 Hb].
    rewrite Forall_forall in Ha, Hb.
    assert (Hab : a = b).
    { assert (I1 : In b (a :: t1)) by (eapply Permutation_in; [apply Permutation_sym; exact Hp | left; reflexivity]).
      assert (I2 : In a (b :: t2)) by (eapply Permutation_in; [exact Hp | left; reflexivity]).
      destruct I1 as [E|I1]; [exact E|]. destruct I2 as [E|I2]; [symmetry; exact E|].
      apply fle_antisym; [apply Ha; exact I1 | apply Hb; exact I2]. }
    subst b. f_equal. apply IH; [assumption | assumption | eapply Permutation_cons_inv; exact Hp].
Qed.

(* list.sort() is canonical: the sorted list depends on the multiset only *)
Lemma sort_feats_perm l l' : Permutation l l' -> sort_feats l = sort_feats l'.
Proof.
  intros Hp. apply sorted_perm_eq; [apply sort_ssorted | apply sort_ssorted|].
  rewrite sort_perm, sort_perm. exact Hp.
Qed.

(* ------------------------------------------------------------------ loadGTF *)
Lemma str_eqb_refl s : str_eqb s s = true.
Proof. induction s as [|a s IH]; cbn; [reflexivity | rewrite Z.eqb_refl; exact IH]. Qed.

Lemma kv_get_last k v l : kv_get k (l ++ [(k, v)]) = Some v.
Proof. unfold kv_get. rewrite rev_app_distr. cbn. rewrite str_eqb_refl. reflexivity. Qed.

Definition frec_op (code : str -> Z) (r : frec) : op := Add (fst (frec_feat code r)) (snd (frec_feat code r)).

Lemma gtf_line_print code r :
  gtf_line code gpar_default (print_gtf r) = LAdd (fst (frec_feat code r)) (snd (frec_feat code r)).
Proof.
  unfold gtf_line, print_gtf, gpar_default, frec_feat, gtf_name.
  cbn [gr_comment gr_chrom gr_type gr_start gr_end gr_strand gr_frame gr_attrs gp_contig gp_third gp_select gp_exon gp_ident
       gp_ignchr gp_offset gp_region gp_head gp_remap opt_in negb remap assoc_str flat_map fst snd].
  rewrite kv_get_last. cbn [app join flat_map]. rewrite app_nil_r.
  replace (r_start r + 1 + -1) with (r_start r) by lia. replace (r_end r + 1 + -1) with (r_end r) by lia.
  destruct (r_plus r); reflexivity.
Qed.

(* loading the printed records yields exactly those features, in file order, and no exception *)
Lemma gtf_roundtrip code recs : forall added,
  gtf_compile code gpar_default added (map print_gtf recs) = (map (frec_op code) recs, None).
Proof.
  induction recs as [|r t IH]; intros added; cbn [map gtf_compile]; [reflexivity|].
  cbn [gp_head gpar_default]. rewrite gtf_line_print. rewrite IH. reflexivity.
Qed.

Definition set_select (p : gpar) (tys : option (list str)) : gpar :=
  mkGP (gp_contig p) (gp_third p) tys (gp_exon p) (gp_ident p) (gp_ignchr p) (gp_offset p) (gp_region p) (gp_head p) (gp_remap p).

Lemma gtf_line_select_in code p tys r : str_in (gr_type r) tys = true ->
  gtf_line code (set_select p (Some tys)) r = gtf_line code (set_select p None) r.
Proof. intros H. unfold gtf_line, set_select, gtf_name. cbn. rewrite H. reflexivity. Qed.

Lemma gtf_line_select_out code p tys r : str_in (gr_type r) tys = false ->
  gtf_line code (set_select p (Some tys)) r = LSkip.
Proof.
  intros H. unfold gtf_line, set_select. cbn. rewrite H. cbn.
  destruct (gr_comment r); [reflexivity|].
  destruct (negb match gp_contig p with Some c => str_eqb (gr_chrom r) c | None => true end); [reflexivity|].
  destruct (negb (opt_in (gr_type r) (gp_third p))); reflexivity.
Qed.

Lemma gtf_compile_head_stop code p added recs h : gp_head p = Some h -> (added >? h) = true ->
  gtf_compile code p added recs = ([], None).
Proof. intros Hh Ha. destruct recs as [|r t]; cbn [gtf_compile]; [reflexivity|]. rewrite Hh, Ha. reflexivity. Qed.

(* select_feature_type: the features filtered out are exactly those of other types (with every other argument, head included) *)
Lemma gtf_select code p tys recs : forall added,
  gtf_compile code (set_select p (Some tys)) added recs =
  gtf_compile code (set_select p None) added (filter (fun r => str_in (gr_type r) tys) recs).
Proof.
  induction recs as [|r t IH]; intros added; cbn [filter]; [reflexivity|].
  destruct (str_in (gr_type r) tys) eqn:E.
  - cbn [gtf_compile]. rewrite (gtf_line_select_in code p tys r E).
    replace (gp_head (set_select p (Some tys))) with (gp_head (set_select p None)) by reflexivity.
    destruct (match gp_head (set_select p None) with Some h => added >? h | None => false end); [reflexivity|].
    destruct (gtf_line code (set_select p None) r); [apply IH | rewrite IH; reflexivity | reflexivity].
  - cbn [gtf_compile]. rewrite (gtf_line_select_out code p tys r E). rewrite IH.
    destruct (gp_head (set_select p (Some tys))) as [h|] eqn:Eh; [|reflexivity].
    destruct (added >? h) eqn:Ea; [|reflexivity].
    symmetry. apply (gtf_compile_head_stop code (set_select p None) added _ h); [exact Eh | exact Ea].
Qed.

(* ------------------------------------------------------------------ findNearestRightFeature on a sorted list *)
Lemma skipn_ss_filter fs v : sorted_start fs ->
  skipn (ss_left (map f_start fs) v) fs = filter (fun f => v <=? f_start f) fs.
Proof.
  unfold sorted_start. induction fs as [|a t IH]; intros Hs; cbn [map ss_left filter]; [reflexivity|].
  inversion Hs as [|? ? Hst Hall]; subst. destruct (f_start a <? v) eqn:E.
  - cbn [skipn]. rewrite (IH Hst). apply Z.ltb_lt in E. destruct (v <=? f_start a) eqn:E2; [apply Z.leb_le in E2; lia | reflexivity].
  - cbn [skipn]. apply Z.ltb_ge in E. destruct (v <=? f_start a) eqn:E2; [|apply Z.leb_gt in E2; lia].
    f_equal. symmetry. apply filter_all. intros x Hx. rewrite Forall_forall in Hall. specialize (Hall x Hx).
    unfold le_start in Hall. apply Z.leb_le. lia.
Qed.

Lemma find_strand_filter q l : find_strand q l = match filter (smatch q) l with [] => [] | f :: _ => [f] end.
Proof. induction l as [|a t IH]; cbn [find_strand filter]; [reflexivity|]. destruct (smatch q a); [reflexivity | exact IH]. Qed.

Definition right_of (x q : Z) (f : feat) : bool := (x <? f_start f) && smatch q f.

Lemma near_right_rec_exact r x q :
  sorted_start (c_feats r) -> c_starts r = map f_start (c_feats r) -> (forall f, In f (c_feats r) -> f_start f <= f_end f) ->
  near_right_rec r x q = match filter (right_of x q) (c_feats r) with [] => [] | f :: _ => [f] end.
Proof.
  intros Hs Hst Hwf. unfold near_right_rec. rewrite Hst, (skipn_ss_filter _ _ Hs).
  assert (E : filter (right_of x q) (c_feats r) = filter (smatch q) (filter (fun f => x + 1 <=? f_start f) (c_feats r))).
  { rewrite <- filter_andb. apply filter_ext'. intros f. unfold right_of. f_equal.
    apply eq_iff_eq_true. rewrite Z.ltb_lt, Z.leb_le. lia. }
  rewrite E. destruct (filter (fun f => x + 1 <=? f_start f) (c_feats r)) as [|f t] eqn:Ef; [reflexivity|].
  assert (Hin : In f (filter (fun f => x + 1 <=? f_start f) (c_feats r))) by (rewrite Ef; left; reflexivity).
  apply filter_In in Hin. destruct Hin as [Hin Hx]. apply Z.leb_le in Hx. specialize (Hwf f Hin).
  destruct (f_end f <? x) eqn:E3; [apply Z.ltb_lt in E3; lia|]. apply find_strand_filter.
Qed.

Lemma hd_filter_min (p : feat -> bool) l : StronglySorted fle l -> forall f t, filter p l = f :: t ->
  In f l /\ p f = true /\ forall g, In g l -> p g = true -> fle f g.
Proof.
  induction l as [|a l IH]; intros Hs f t; cbn [filter]; [discriminate|].
  apply StronglySorted_inv in Hs. destruct Hs as [Hs Hall]. rewrite Forall_forall in Hall.
  destruct (p a) eqn:Ea.
  - intros E. injection E as E1 E2. subst a. split; [left; reflexivity|]. split; [exact Ea|].
    intros g [Hg|Hg] _; [subst g; destruct (fle_total f f); assumption | apply Hall; exact Hg].
  - intros E. destruct (IH Hs f t E) as [H1 [H2 H3]]. split; [right; exact H1|]. split; [exact H2|].
    intros g [Hg|Hg] Hp; [subst g; congruence | apply H3; assumption].
Qed.
