(* C19 proofs, part 5: the statements of Proofs/C19.v and C19_leak.v transported along the translator tie
   to the model that is defined with the regenerated decisions (hl_run_ops, hl_close_all). *)
From Coq Require Import ZArith List Bool Lia.
Import ListNotations.
From SCMO Require Import Lib.Val Gen.GenHandles Model.C19 Proofs.C19 Proofs.C19_leak Proofs.C19_tie.
Open Scope Z_scope.

Lemma hl_content_plain : forall mh pe orc init ops,
  (forall o, In o ops -> w_fa o = false) ->
  (forall i o, In o ops -> orc i (w_path o) 0%nat = false) ->
  exists st, hl_run_ops mh pe orc init ops = (length ops, Ok st) /\
             opens (hl_close_all st) = [] /\
             (forall p, In p (map w_path ops) -> fs (hl_close_all st) p = Some (writes_of p ops)) /\
             (forall p, ~ In p (map w_path ops) -> fs (hl_close_all st) p = init p).
Proof.
  intros mh pe orc init ops H1 H2.
  destruct (content_plain (cfg_of mh pe) orc init ops eq_refl H1 H2) as [st H].
  exists st. rewrite tie_run_ops, tie_close. exact H.
Qed.

Lemma hl_content_thm : forall mh pe orc init ops,
  fa_consistentb ops = true ->
  (forall i o, In o ops -> orc i (w_path o) 0%nat = false) ->
  exists st, hl_run_ops mh pe orc init ops = (length ops, Ok st) /\
             opens (hl_close_all st) = [] /\
             forall p, fs (hl_close_all st) p = expected init ops p.
Proof.
  intros mh pe orc init ops H1 H2.
  destruct (content_thm (cfg_of mh pe) orc init ops eq_refl H1 H2) as [st H].
  exists st. rewrite tie_run_ops, tie_close. exact H.
Qed.

Lemma hl_prefix : forall mh pe orc init ops k r,
  fa_consistentb ops = true ->
  hl_run_ops mh pe orc init ops = (k, r) ->
  (k <= length ops)%nat /\
  (forall p, fs (hl_close_all (state_of r)) p = expected init (firstn k ops) p) /\
  (k = length ops <-> exists st, r = Ok st).
Proof.
  intros mh pe orc init ops k r H1 H2. rewrite tie_run_ops in H2. rewrite tie_close.
  exact (prefix (cfg_of mh pe) orc init ops k r eq_refl H1 H2).
Qed.

Lemma hl_raise_only_if_hopeless : forall mh pe orc init ops k e st,
  hl_run_ops mh pe orc init ops = (k, Raise e st) ->
  e = EOS /\ exists o i, nth_error ops k = Some o /\ att st = S i /\
                         orc i (w_path o) 0%nat = true /\ opens st = [].
Proof.
  intros mh pe orc init ops k e st H. rewrite tie_run_ops in H.
  exact (raise_only_if_hopeless (cfg_of mh pe) orc init ops k e st eq_refl H).
Qed.

Lemma hl_handles_bounded : forall mh pe orc init ops k r,
  hl_run_ops mh pe orc init ops = (k, r) ->
  Z.of_nat (length (opens (state_of r))) <= Z.max 0 mh + Z.max 0 (pe - 1).
Proof.
  intros mh pe orc init ops k r H. rewrite tie_run_ops in H.
  exact (handles_bounded (cfg_of mh pe) orc init ops k r H).
Qed.

Lemma hl_no_leak : forall mh pe orc init ops k r,
  hl_run_ops mh pe orc init ops = (k, r) ->
  n_opened (trace (hl_close_all (state_of r))) = n_closed (trace (hl_close_all (state_of r))).
Proof.
  intros mh pe orc init ops k r H. rewrite tie_run_ops in H. rewrite tie_close.
  exact (no_leak (cfg_of mh pe) orc init ops k r eq_refl H).
Qed.
