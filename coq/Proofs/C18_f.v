(* C18 proofs, part f: several resolver objects alive in one process, operations interleaved.
   Every answer of an object is the specification for THAT object's settings: objects do not influence
   each other except through the (sound) cache directory. *)
From Coq Require Import ZArith List Bool Lia Arith.
Import ListNotations.
From SCMO Require Import Lib.Val Model.C18 Proofs.C18_a Proofs.C18_b Proofs.C18_c Proofs.C18_d Proofs.C18_e.
Open Scope Z_scope.

Lemma nateqb_eq (a b : nat) : Nat.eqb a b = true <-> a = b.
Proof. apply Nat.eqb_eq. Qed.

Lemma ctor_ok_init v cf : ctor_ok v cf = match init_table v cf with Some _ => true | None => false end.
Proof.
  unfold ctor_ok, init_table. destruct (is_lazy cf); [reflexivity|]. destruct (c_chrom cf); [|reflexivity].
  destruct (valid_contig v s); reflexivity.
Qed.

Section Session.
  Variable v : vcf.
  Hypothesis Hv : vcf_ok v = true.
  Variable ks : list (cfg * str).
  Hypothesis Hks : names_ok ks = true.
  Variable objs : list cfg.

  Definition tbl_ok (cf : cfg) (t : table) : Prop :=
    forall c, amem seqb t c = true -> good_ct v cf c (getd seqb t c).
  Definition obj_ok (cf : cfg) (ot : option table) : Prop :=
    match ot with
    | Some t => if is_lazy cf then tbl_ok cf t else init_table v cf = Some t
    | None => init_table v cf = None
    end.
  Definition os_ok (os : objs_state) : Prop :=
    forall i ot, aget Nat.eqb os i = Some ot -> obj_ok (obj_cfg objs i) ot.

  Lemma obj_ok_init cf : obj_ok cf (init_table v cf).
  Proof.
    unfold obj_ok. destruct (init_table v cf) as [t|] eqn:E; [|reflexivity].
    destruct (is_lazy cf) eqn:Hl; [|reflexivity].
    unfold init_table in E. rewrite Hl in E. inversion E; subst. intros c H. discriminate.
  Qed.

  Lemma os_ok_aset os i ot : os_ok os -> obj_ok (obj_cfg objs i) ot -> os_ok (aset Nat.eqb os i ot).
  Proof.
    intros Hos Ho j ot'. rewrite (aget_aset Nat.eqb nateqb_eq). destruct (Nat.eqb j i) eqn:E.
    - apply Nat.eqb_eq in E. subst j. intros H. inversion H; subst. exact Ho.
    - apply Hos.
  Qed.

  Lemma session_step_ok os fs op :
    os_ok os -> fs_ok v ks fs -> In (obj_cfg objs (fst op), query_contig (snd op)) ks -> 0 <= query_pos (snd op) ->
    os_ok (fst (fst (session_step v objs (os, fs) op))) /\ fs_ok v ks (snd (fst (session_step v objs (os, fs) op)))
    /\ snd (session_step v objs (os, fs) op) = spec_op v objs op.
  Proof.
    intros Hos Hfs Hk Hp. unfold session_step, spec_op. cbn [fst snd].
    set (cf := obj_cfg objs (fst op)) in *.
    assert (Hot : obj_ok cf (match aget Nat.eqb os (fst op) with Some x => x | None => init_table v cf end)).
    { destruct (aget Nat.eqb os (fst op)) as [x|] eqn:E; [apply (Hos _ _ E)|apply obj_ok_init]. }
    destruct (match aget Nat.eqb os (fst op) with Some x => x | None => init_table v cf end) as [t|].
    - cbn [obj_ok] in Hot. destruct (is_lazy cf) eqn:Hl.
      + destruct (step_lazy v Hv ks Hks cf (t, fs) (snd op) Hl (conj Hfs Hot) Hk Hp) as [[A B] C].
        cbn [fst snd]. split; [|split].
        * apply os_ok_aset; [exact Hos|]. cbn [obj_ok]. fold cf. rewrite Hl. exact B.
        * exact A.
        * rewrite C. unfold ctor_ok. rewrite Hl. reflexivity.
      + rewrite (step_eager v cf t fs (snd op) Hl). cbn [fst snd]. split; [|split].
        * apply os_ok_aset; [exact Hos|]. cbn [obj_ok]. fold cf. rewrite Hl. exact Hot.
        * exact Hfs.
        * rewrite (eager_answers v Hv cf t Hl Hot (snd op) Hp). rewrite ctor_ok_init, Hot. reflexivity.
    - cbn [obj_ok] in Hot. cbn [fst snd]. split; [|split].
      + apply os_ok_aset; [exact Hos|]. exact Hot.
      + exact Hfs.
      + rewrite ctor_ok_init, Hot. reflexivity.
  Qed.

  Lemma run_session_ok ops : forall os fs, os_ok os -> fs_ok v ks fs ->
    (forall op, In op ops -> In (obj_cfg objs (fst op), query_contig (snd op)) ks /\ 0 <= query_pos (snd op)) ->
    snd (run_session v objs (os, fs) ops) = map (spec_op v objs) ops.
  Proof.
    induction ops as [|op ops IH]; intros os fs Hos Hfs Hq; [reflexivity|].
    cbn [run_session map]. destruct (Hq op (or_introl eq_refl)) as [Hk Hp].
    destruct (session_step_ok os fs op Hos Hfs Hk Hp) as (A & B & C).
    destruct (session_step v objs (os, fs) op) as [[os' fs'] a]. cbn [fst snd] in *.
    specialize (IH os' fs' A B (fun op' Hin => Hq op' (or_intror Hin))).
    destruct (run_session v objs (os', fs') ops) as [fs2 ans]. cbn [snd] in *. rewrite C, IH. reflexivity.
  Qed.
End Session.

Theorem objects_independent v objs ops : vcf_ok v = true -> sess_ok objs ops = true ->
  snd (run_session v objs ([], []) ops) = map (spec_op v objs) ops.
Proof.
  intros Hv Hs. unfold sess_ok in Hs. apply andb_true_iff in Hs. destruct Hs as [Hpos Hn].
  apply (run_session_ok v Hv (sess_keys objs ops) Hn objs ops [] []).
  - intros i ot E. discriminate.
  - intros name content E. discriminate.
  - intros op Hin. split.
    + unfold sess_keys. apply in_map_iff. exists op. split; [reflexivity|exact Hin].
    + rewrite forallb_forall in Hpos. apply Z.leb_le, (Hpos op Hin).
Qed.

(* the answer to an operation does not depend on which other objects exist or what was asked of them *)
Corollary objects_independent_pair v objs1 ops1 objs2 ops2 n1 n2 : vcf_ok v = true ->
  sess_ok objs1 ops1 = true -> sess_ok objs2 ops2 = true ->
  (n1 < length ops1)%nat -> (n2 < length ops2)%nat ->
  obj_cfg objs1 (fst (nth n1 ops1 (0%nat, QHas [] 0))) = obj_cfg objs2 (fst (nth n2 ops2 (0%nat, QHas [] 0))) ->
  snd (nth n1 ops1 (0%nat, QHas [] 0)) = snd (nth n2 ops2 (0%nat, QHas [] 0)) ->
  nth n1 (snd (run_session v objs1 ([], []) ops1)) ANone = nth n2 (snd (run_session v objs2 ([], []) ops2)) ANone.
Proof.
  intros Hv H1 H2 L1 L2 Ecf Eq. rewrite !objects_independent by assumption.
  set (d := (0%nat, QHas [] 0)) in *.
  rewrite (nth_indep _ ANone (spec_op v objs1 d)) by (rewrite map_length; exact L1).
  rewrite (nth_indep _ ANone (spec_op v objs2 d)) by (rewrite map_length; exact L2).
  rewrite !map_nth. unfold spec_op. rewrite Ecf, Eq. reflexivity.
Qed.
