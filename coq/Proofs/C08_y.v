(* C08 extension: no record is written twice, for any number of tasks whose fetch windows overlap. *)
From Coq Require Import ZArith List Bool Lia Permutation.
Import ListNotations.
From SCMO Require Import Lib.Val Gen.GenOwner Model.C08 Proofs.C08_a Proofs.C08_b Proofs.C08 Proofs.C08_ex.
Open Scope Z_scope.

Lemma NoDup_app_incl {B} (a b b' : list B) : NoDup (a ++ b) -> NoDup b' -> incl b' b -> NoDup (a ++ b').
Proof.
  induction a as [| x a IH]; cbn [app]; intros H Hb Hi; [assumption |].
  inversion H as [| ? ? Hn Hd]; subst. constructor.
  - intros Hin. apply Hn. apply in_app_or in Hin. apply in_or_app. destruct Hin as [Hin | Hin]; [left; assumption | right; apply Hi; assumption].
  - apply IH; assumption.
Qed.

Lemma NoDup_app_r {B} (a b : list B) : NoDup (a ++ b) -> NoDup b.
Proof. induction a as [| x a IH]; cbn [app]; intros H; [assumption |]. inversion H; subst. apply IH. assumption. Qed.

Lemma NoDup_flat_map_filter {A B} (h : A -> list B) (p : A -> bool) (l : list A) :
  NoDup (flat_map h l) -> NoDup (flat_map h (filter p l)).
Proof.
  induction l as [| a l IH]; cbn [flat_map filter]; intros H; [constructor |].
  assert (Hl : NoDup (flat_map h l)) by (apply NoDup_app_r in H; exact H).
  destruct (p a); [| apply IH; exact Hl]. cbn [flat_map].
  apply (NoDup_app_incl (h a) (flat_map h l)); [exact H | apply IH; exact Hl |].
  intros x Hx. apply in_flat_map in Hx. destruct Hx as (m & Hm & Hx). apply filter_In in Hm.
  apply in_flat_map. exists m. tauto.
Qed.

Lemma map_flat_map_fst {A B C} (W : A -> list (B * C)) (l : list A) :
  map fst (flat_map W l) = flat_map (fun m => map fst (W m)) l.
Proof. induction l as [| a l IH]; cbn [flat_map map]; [reflexivity |]. rewrite map_app, IH. reflexivity. Qed.

(* record ids written (first components of [write]) *)
Definition written_ids (tagf : mol -> frag -> read -> Z) (ms : list mol) : list Z := map fst (flat_map (write tagf) ms).

Lemma no_double_write : forall (g : list frag -> list mol) (partial : task -> frag -> frag)
    (ksite : Z -> option Z) (kcontig : Z -> Z) (L : Z) (ps : list contig_plan) (fs : list frag)
    (tagf : mol -> frag -> read -> Z) (jobs : list (list task)),
  (forall l m f, In m (g l) -> In f m -> In f l) ->
  (forall l m, In m (g l) -> m <> []) ->
  plans_ok L ps = true -> frags_ok L ps fs = true ->
  (forall f, In f fs -> keyed ksite kcontig f) ->
  (forall t f, In t (plan_tasks ps) -> In f fs -> In (partial t f) (job_frag partial t f) -> keyed ksite kcontig (partial t f)) ->
  (forall t f, In t (plan_tasks ps) -> In f fs ->
     f_site (partial t f) = None \/ f_site (partial t f) = f_site f \/
     exists r, In r (f_reads f) /\ f_site (partial t f) = Some (r_lo r)) ->
  (forall t f, In t (plan_tasks ps) -> In f fs -> f_contig f = t_contig t -> f_contig (partial t f) = t_contig t) ->
  Permutation (concat jobs) (plan_tasks ps) ->
  NoDup (written_ids tagf (serial g fs)) ->
  NoDup (written_ids tagf (parallel g partial jobs fs)).
Proof.
  intros g partial ksite kcontig L ps fs tagf jobs Hs Hn Hp Hf Hk Hpk Hps Hpc Hj Hnd.
  pose proof (equiv_stmt g partial ksite kcontig L ps fs tagf jobs Hs Hn Hp Hf Hk Hpk Hps Hpc Hj) as HP.
  unfold written_ids in *. eapply Permutation_NoDup; [apply Permutation_sym, Permutation_map, HP |].
  rewrite map_flat_map_fst in *. apply NoDup_flat_map_filter. exact Hnd.
Qed.

(* ownership counted over an arbitrary number of tasks that all FETCH the molecule: however many
   fetch windows contain the site, exactly one of the tasks of a tiling owns it *)
Lemma owner_unique_among_fetchers : forall c lo hi ts s, chain c lo hi ts = true -> lo <= s < hi ->
  length (filter (fun t => owns t c s) ts) = 1%nat /\
  Nat.le (length (filter (fun t => owns t c s) (filter (fun t => (t_fs t <=? s) && (s <? t_fe t)) ts))) 1.
Proof.
  intros c lo hi ts s Hc Hs. pose proof (owner_unique_chain c lo hi ts s Hc Hs) as H1. split; [exact H1 |].
  rewrite <- H1. clear. unfold Nat.le. induction ts as [| t r IH]; cbn [filter]; [lia |].
  destruct ((t_fs t <=? s) && (s <? t_fe t)); cbn [filter]; destruct (owns t c s); cbn [length]; lia.
Qed.


Lemma ex_no_double : NoDup (written_ids ex_tag (serial g_one ex_fs)) /\
  NoDup (written_ids ex_tag (parallel g_one partial_nla ex_jobs ex_fs)) /\
  length (written_ids ex_tag (parallel g_one partial_nla ex_jobs ex_fs)) = length (written_ids ex_tag (serial g_one ex_fs)).
Proof.
  vm_compute. split; [| split; [| reflexivity]];
    repeat (constructor; [cbn; intuition discriminate |]); constructor.
Qed.
