(* C11 proofs, part 1: equality tests, the filter (short-circuit order = declarative conjunction, no exception
   on well-formed reads), weights. *)
From Coq Require Import ZArith List Bool QArith Lia.
Import ListNotations.
From SCMO Require Import Lib.Val Model.C11.
Open Scope Z_scope.

(* ------------------------------------------------------------------ boolean equalities *)
Lemma str_eqb_eq : forall a b, str_eqb a b = true <-> a = b.
Proof.
  induction a as [|x a IH]; destruct b as [|y b]; cbn [str_eqb]; try (split; [discriminate|discriminate]).
  - split; reflexivity.
  - rewrite andb_true_iff, Z.eqb_eq, IH. split.
    + intros [-> ->]. reflexivity.
    + intros H. inversion H. auto.
Qed.

Lemma str_eqb_refl a : str_eqb a a = true.
Proof. apply str_eqb_eq. reflexivity. Qed.

Lemma list_eqb_eq {A} (eqb : A -> A -> bool) :
  (forall x y, eqb x y = true <-> x = y) -> forall a b, list_eqb eqb a b = true <-> a = b.
Proof.
  intros Heq. induction a as [|x a IH]; destruct b as [|y b]; cbn [list_eqb]; try (split; [discriminate|discriminate]).
  - split; reflexivity.
  - rewrite andb_true_iff, Heq, IH. split.
    + intros [-> ->]. reflexivity.
    + intros H. inversion H. auto.
Qed.

Lemma tval_eqb_eq a b : tval_eqb a b = true <-> a = b.
Proof.
  destruct a as [x|x|[xn xd] x], b as [y|y|[yn yd] y]; cbn [tval_eqb]; try (split; [discriminate|discriminate]).
  - rewrite Z.eqb_eq. split; [intros ->; reflexivity|intros H; inversion H; reflexivity].
  - rewrite str_eqb_eq. split; [intros ->; reflexivity|intros H; inversion H; reflexivity].
  - cbn [Qnum Qden]. rewrite !andb_true_iff, !Z.eqb_eq, str_eqb_eq. split.
    + intros [[-> H] ->]. inversion H. reflexivity.
    + intros H. inversion H. auto.
Qed.

Lemma otval_eqb_eq a b : otval_eqb a b = true <-> a = b.
Proof.
  destruct a as [x|], b as [y|]; cbn [otval_eqb]; try (split; [discriminate|discriminate]).
  - rewrite tval_eqb_eq. split; [intros ->; reflexivity|intros H; inversion H; reflexivity].
  - split; reflexivity.
Qed.

Lemma kc_eqb_eq a b : kc_eqb a b = true <-> a = b.
Proof.
  destruct a as [x|x], b as [y|y]; cbn [kc_eqb]; try (split; [discriminate|discriminate]).
  - rewrite str_eqb_eq. split; [intros ->; reflexivity|intros H; inversion H; reflexivity].
  - rewrite Z.eqb_eq. split; [intros ->; reflexivity|intros H; inversion H; reflexivity].
Qed.

Lemma ck_eqb_eq a b : ck_eqb a b = true <-> a = b.
Proof.
  destruct a as [s k], b as [s' k']. unfold ck_eqb. cbn [fst snd].
  rewrite andb_true_iff, (list_eqb_eq otval_eqb otval_eqb_eq), (list_eqb_eq kc_eqb kc_eqb_eq). split.
  - intros [-> ->]. reflexivity.
  - intros H. inversion H. auto.
Qed.

Lemma ck_eqb_refl a : ck_eqb a a = true.
Proof. apply ck_eqb_eq. reflexivity. Qed.

(* ------------------------------------------------------------------ the declarative filter *)
(* Each selected filter as a proposition about the read; no order, no exceptions.  *)
Definition tag_is (r : read) (t : str) (v : tval) : Prop := get_tag r t = Some v.
Definition tag_absent (r : read) (t : str) : Prop := get_tag r t = None.

(* value of the NM tag as int(): an integer tag, or a string that is a plain integer literal *)
Definition nm_value (r : read) (n : Z) : Prop :=
  tag_is r t_NM (TInt n) \/ (exists s, tag_is r t_NM (TStr s) /\ parse_int s = Some n)
  \/ (exists q s, tag_is r t_NM (TFlt q s) /\ n = trunc_Q q).

(* an XA entry naming a contig that is not an alternative contig *)
Definition xa_has_nonalt (r : read) : Prop :=
  exists s e, tag_is r t_XA (TStr s) /\ In e (split [59] s) /\ e <> [] /\ ends_with s_alt (hd [] (split [44] e)) = false.

(* start or end of the alignment inside a blacklisted interval of the read's contig *)
Definition blacklisted (o : opts) (r : read) : Prop :=
  exists bl c s e, o_blacklist o = Some bl /\ refname r = Some c /\ In (c, s, e) bl /\
    ((s <= rstart r < e) \/ exists x, rend r = Some x /\ s <= x < e).

Record passes (o : opts) (r : read) : Prop := {
  p_mapped     : unmapped r = false;
  p_qc         : qcfail r = false;
  p_mapq       : o_minMQ o <= mapq r;
  p_r1only     : o_r1only o = true -> read2 r = false;
  p_r2only     : o_r2only o = true -> read1 r = false;
  p_mp         : o_filterMP o = true -> tag_is r t_mp (TStr s_unique);
  p_proper     : o_proper o = true -> proper r = true;
  p_indels     : o_no_indels o = true -> ~ In 1 (cigar r) /\ ~ In 2 (cigar r);
  p_softclips  : o_no_softclips o = true -> ~ In 4 (cigar r);
  p_edits      : forall m n, o_max_edits o = Some m -> nm_value r n -> n <= m;
  p_xa         : o_filterXA o = true -> ~ xa_has_nonalt r;
  p_dedup      : o_dedup o = true -> dup r = false /\ tag_absent r t_RR;
  p_blacklist  : ~ blacklisted o r
}.

Lemma has_op_In r ops : has_op r ops = true <-> exists op, In op (cigar r) /\ In op ops.
Proof.
  unfold has_op. rewrite existsb_exists. split.
  - intros (op & Hin & Hex). apply existsb_exists in Hex. destruct Hex as (op' & Hin' & Heq).
    apply Z.eqb_eq in Heq. subst op'. exists op. auto.
  - intros (op & Hin & Hin'). exists op. split; [assumption|]. apply existsb_exists. exists op.
    split; [assumption|apply Z.eqb_refl].
Qed.

Lemma mp_unique_iff r : mp_unique r = true <-> tag_is r t_mp (TStr s_unique).
Proof.
  unfold mp_unique, tag_eq_str, tag_is. destruct (get_tag r t_mp) as [[z|s|q s]|]; try (split; [discriminate|discriminate]).
  rewrite str_eqb_eq. split; [intros ->; reflexivity|intros H; inversion H; reflexivity].
Qed.

Lemma nm_ok_iff o r : nm_ok o r = true <-> (forall m n, o_max_edits o = Some m -> nm_value r n -> n <= m).
Proof.
  unfold nm_ok, nm_value, tag_is. destruct (o_max_edits o) as [m|].
  2:{ split; [intros _ m n H; discriminate|reflexivity]. }
  destruct (get_tag r t_NM) as [[z|s|q s]|].
  - rewrite Z.leb_le. split.
    + intros Hle m' n Hm [Hn|[(s & Hn & _)|(q & s & Hn & _)]]; inversion Hm; inversion Hn; subst; assumption.
    + intros H. apply (H m z); [reflexivity|left; reflexivity].
  - destruct (parse_int s) as [n|] eqn:Hp.
    + rewrite Z.leb_le. split.
      * intros Hle m' n' Hm [Hn|[(s' & Hn & Hp')|(q & s' & Hn & _)]]; inversion Hm; inversion Hn; subst.
        rewrite Hp in Hp'. inversion Hp'. subst. assumption.
      * intros H. apply (H m n); [reflexivity|]. right. left. exists s. auto.
    + split; [|reflexivity]. intros _ m' n' Hm [Hn|[(s' & Hn & Hp')|(q & s' & Hn & _)]]; inversion Hn; subst.
      rewrite Hp in Hp'. discriminate.
  - rewrite Z.leb_le. split.
    + intros Hle m' n Hm [Hn|[(s' & Hn & _)|(q' & s' & Hn & Hq)]]; inversion Hm; inversion Hn; subst; assumption.
    + intros H. apply (H m (trunc_Q q)); [reflexivity|]. right. right. exists q, s. split; reflexivity.
  - split; [|reflexivity]. intros _ m' n' _ [Hn|[(s' & Hn & _)|(q & s' & Hn & _)]]; discriminate.
Qed.

Lemma xa_nonalt_iff r : xa_nonalt r = true <-> xa_has_nonalt r.
Proof.
  unfold xa_nonalt, xa_has_nonalt, tag_is. destruct (get_tag r t_XA) as [[z|s|q s0]|].
  3:{ split; [discriminate|]. intros (s & e & H & _). discriminate. }
  - split; [discriminate|]. intros (s & e & H & _). discriminate.
  - rewrite existsb_exists. split.
    + intros (e & Hin & He). unfold xa_nonalt_entry in He. apply andb_true_iff in He. destruct He as [He1 He2].
      exists s, e. repeat split; try assumption.
      * intros ->. discriminate.
      * apply negb_true_iff in He2. assumption.
    + intros (s' & e & Hs & Hin & Hne & Halt). inversion Hs. subst s'. exists e. split; [assumption|].
      unfold xa_nonalt_entry. rewrite Halt. destruct e; [contradiction|reflexivity].
  - split; [discriminate|]. intros (s & e & H & _). discriminate.
Qed.

Lemma in_iv_iff x s e : in_iv x s e = true <-> s <= x < e.
Proof. unfold in_iv. rewrite andb_true_iff, Z.leb_le, Z.ltb_lt. reflexivity. Qed.

Lemma bl_in_iff o r : bl_in o r = true <-> blacklisted o r.
Proof.
  unfold bl_in, blacklisted. destruct (o_blacklist o) as [bl|].
  2:{ split; [discriminate|]. intros (bl & c & s & e & H & _). discriminate. }
  destruct (refname r) as [c|].
  2:{ split; [discriminate|]. intros (bl' & c & s & e & _ & H & _). discriminate. }
  rewrite existsb_exists. split.
  - intros ([[c' s] e] & Hin & H). cbn [fst snd] in H. apply andb_true_iff in H. destruct H as [Hc H].
    apply str_eqb_eq in Hc. subst c'. exists bl, c, s, e. repeat split; try assumption.
    apply orb_true_iff in H. destruct H as [H|H].
    + left. apply in_iv_iff. assumption.
    + right. destruct (rend r) as [x|]; [|discriminate]. exists x. split; [reflexivity|]. apply in_iv_iff. assumption.
  - intros (bl' & c' & s & e & Hbl & Hc & Hin & H). inversion Hbl. inversion Hc. subst bl' c'.
    exists (c, s, e). split; [assumption|]. cbn [fst snd]. rewrite str_eqb_refl. cbn [andb].
    apply orb_true_iff. destruct H as [H|(x & Hx & H)].
    + left. apply in_iv_iff. assumption.
    + right. rewrite Hx. apply in_iv_iff. assumption.
Qed.

Lemma has_tag_false r t : has_tag r t = false <-> tag_absent r t.
Proof. unfold has_tag, tag_absent. destruct (get_tag r t); split; try reflexivity; discriminate. Qed.

Lemma passesb_iff o r : passesb o r = true <-> passes o r.
Proof.
  unfold passesb. rewrite !andb_true_iff, !negb_true_iff, !orb_true_iff, !negb_true_iff, !andb_true_iff, !negb_true_iff.
  split.
  - intros [[[[[[[[[[[[H1 H2] H3] H4] H5] H6] H7] H8] H9] H10] H11] H12] H13].
    constructor; try assumption.
    + apply Z.leb_le. assumption.
    + intros E. rewrite E in H1. cbn [andb] in H1. assumption.
    + intros E. rewrite E in H2. cbn [andb] in H2. assumption.
    + intros E. apply mp_unique_iff. destruct H3 as [H3|H3]; [congruence|assumption].
    + intros E. destruct H6 as [H6|H6]; [congruence|assumption].
    + intros E. destruct H8 as [H8|H8]; [congruence|].
      split; intros Hin; (assert (Hex : has_op r [1; 2] = true);
        [apply has_op_In; eexists; split; [exact Hin|cbn; auto]|congruence]).
    + intros E. destruct H10 as [H10|H10]; [congruence|]. intros Hin.
      assert (Hex : has_op r [4] = true) by (apply has_op_In; eexists; split; [exact Hin|cbn; auto]). congruence.
    + apply nm_ok_iff. assumption.
    + intros E. destruct H11 as [H11|H11]; [congruence|]. intros Hx. apply xa_nonalt_iff in Hx. congruence.
    + intros E. destruct H12 as [H12|[H12 H12']]; [congruence|]. split; [assumption|]. apply has_tag_false. assumption.
    + intros Hb. apply bl_in_iff in Hb. congruence.
  - intros [P1 P2 P3 P4 P5 P6 P7 P8 P9 P10 P11 P12 P13].
    repeat split.
    + destruct (o_r1only o); [rewrite P4 by reflexivity|]; reflexivity.
    + destruct (o_r2only o); [rewrite P5 by reflexivity|]; reflexivity.
    + destruct (o_filterMP o); [right; apply mp_unique_iff; auto|left; reflexivity].
    + assumption.
    + apply Z.leb_le. assumption.
    + destruct (o_proper o); [right; auto|left; reflexivity].
    + assumption.
    + destruct (o_no_indels o); [right|left; reflexivity].
      destruct (has_op r [1; 2]) eqn:E; [|reflexivity]. exfalso. apply has_op_In in E.
      destruct E as (op & Hin & Hop). destruct (P8 eq_refl) as [Q1 Q2].
      cbn in Hop. destruct Hop as [<-|[<-|[]]]; contradiction.
    + apply nm_ok_iff. assumption.
    + destruct (o_no_softclips o); [right|left; reflexivity].
      destruct (has_op r [4]) eqn:E; [|reflexivity]. exfalso. apply has_op_In in E.
      destruct E as (op & Hin & Hop). cbn in Hop. destruct Hop as [<-|[]]. exact (P9 eq_refl Hin).
    + destruct (o_filterXA o); [right|left; reflexivity].
      destruct (xa_nonalt r) eqn:E; [|reflexivity]. exfalso. apply xa_nonalt_iff in E. exact (P11 eq_refl E).
    + destruct (o_dedup o); [right|left; reflexivity]. destruct (P12 eq_refl) as [Q1 Q2].
      split; [apply has_tag_false|]; assumption.
    + destruct (bl_in o r) eqn:E; [|reflexivity]. exfalso. apply bl_in_iff in E. exact (P13 E).
Qed.

(* ------------------------------------------------------------------ short-circuit order = conjunction *)
Lemma guard_inv b k v : guard b k = Ok v ->
  (b = Ok true /\ v = false) \/ (b = Ok false /\ k = Ok v).
Proof. destruct b as [[|]|e]; cbn [guard]; intros H; [left|right|discriminate]; split; congruence. Qed.

Lemma cig_has_ok r ops b : cig_has r ops = Ok b -> b = has_op r ops.
Proof. unfold cig_has, has_op. destruct (cigar r); [discriminate|]. intros H. inversion H. reflexivity. Qed.

Lemma nm_exceeds_ok o r b : nm_exceeds o r = Ok b -> b = negb (nm_ok o r).
Proof.
  unfold nm_exceeds, nm_ok. destruct (o_max_edits o) as [m|]; [|intros H; inversion H; reflexivity].
  destruct (get_tag r t_NM) as [[z|s|q s]|]; cbn [py_int].
  - intros H. inversion H. rewrite Z.leb_antisym, negb_involutive. reflexivity.
  - destruct (parse_int s) as [n|]; [|discriminate]. intros H. inversion H.
    rewrite Z.leb_antisym, negb_involutive. reflexivity.
  - intros H. inversion H. rewrite Z.leb_antisym, negb_involutive. reflexivity.
  - intros H. inversion H. reflexivity.
Qed.

Lemma xa_scan_ok : forall es b, xa_scan es = Ok b -> b = existsb xa_nonalt_entry es.
Proof.
  induction es as [|e es IH]; intros b; cbn [xa_scan existsb].
  - intros H. inversion H. reflexivity.
  - unfold xa_nonalt_entry at 1. destruct (is_nil e) eqn:En; cbn [negb andb orb]; [apply IH|].
    destruct (Z.of_nat (length (split [44] e)) =? 4); [|discriminate].
    destruct (ends_with s_alt (hd [] (split [44] e))); cbn [negb orb]; [apply IH|].
    intros H. inversion H. reflexivity.
Qed.

Lemma xa_hit_ok r b : xa_hit r = Ok b -> b = xa_nonalt r.
Proof.
  unfold xa_hit, xa_nonalt. destruct (get_tag r t_XA) as [[z|s|q s]|]; [discriminate|apply xa_scan_ok|discriminate|].
  intros H. inversion H. reflexivity.
Qed.

Lemma existsb_bl_rows bl c (f : Z -> Z -> bool) :
  existsb (fun iv => f (fst iv) (snd iv)) (bl_rows bl c)
  = existsb (fun row => str_eqb (fst (fst row)) c && f (snd (fst row)) (snd row)) bl.
Proof.
  unfold bl_rows. induction bl as [|[[c' s] e] bl IH]; [reflexivity|].
  cbn [filter fst snd existsb]. destruct (str_eqb c' c); cbn [map existsb fst snd andb orb]; rewrite IH; reflexivity.
Qed.

Lemma bl_hit_ok o r b : bl_hit o r = Ok b -> b = bl_in o r.
Proof.
  unfold bl_hit, bl_in. destruct (o_blacklist o) as [bl|]; [|intros H; inversion H; reflexivity].
  destruct (refname r) as [c|]; [|intros H; inversion H; reflexivity].
  destruct (bl_rows bl c) as [|iv ivs] eqn:Erows.
  - intros H. inversion H. symmetry.
    pose proof (existsb_bl_rows bl c (fun s e => in_iv (rstart r) s e
       || match rend r with Some x => in_iv x s e | None => false end)) as Hx.
    rewrite Erows in Hx. cbn [existsb] in Hx. symmetry. exact Hx.
  - destruct (rend r) as [x|] eqn:Ex; [|discriminate]. intros H.
    pose proof (existsb_bl_rows bl c (fun s e => in_iv (rstart r) s e || in_iv x s e)) as Hx.
    rewrite Erows in Hx. rewrite <- Hx. congruence.
Qed.

Ltac step_guard H :=
  apply guard_inv in H; destruct H as [[H ->]|[H' H]].

Lemma Ok_inj {A} (a b : A) : Ok a = Ok b -> a = b.
Proof. intros H. injection H as H. exact H. Qed.

Lemma should_count_passesb o r b : should_count o r = Ok b -> b = passesb o r.
Proof.
  unfold should_count, passesb. intros H.
  step_guard H. { apply Ok_inj in H. rename H into E. rewrite E. reflexivity. }
  apply Ok_inj in H'. rename H' into E1. rewrite E1. clear E1.
  step_guard H. { apply Ok_inj in H. rename H into E. rewrite E. reflexivity. }
  apply Ok_inj in H'. rename H' into E2. rewrite E2. clear E2.
  step_guard H. { apply Ok_inj in H. rename H into E. destruct (o_filterMP o); [|discriminate].
                  cbn [andb] in E. apply negb_true_iff in E. rewrite E. reflexivity. }
  apply Ok_inj in H'. rename H' into E3.
  replace (negb (o_filterMP o) || mp_unique r) with true
    by (destruct (o_filterMP o); [cbn [andb] in E3; apply negb_false_iff in E3; rewrite E3|]; reflexivity).
  clear E3.
  step_guard H. { apply Ok_inj in H. rename H into E. rewrite E. cbn. reflexivity. }
  apply Ok_inj in H'. rename H' into E4. rewrite E4. clear E4.
  step_guard H. { apply Ok_inj in H. rename H into E. rewrite Z.leb_antisym, E. cbn. reflexivity. }
  apply Ok_inj in H'. rename H' into E5. rewrite Z.leb_antisym, E5. clear E5.
  step_guard H. { apply Ok_inj in H. rename H into E. destruct (o_proper o); [|discriminate].
                  cbn [andb] in E. apply negb_true_iff in E. rewrite E. cbn. reflexivity. }
  apply Ok_inj in H'. rename H' into E6.
  replace (negb (o_proper o) || proper r) with true
    by (destruct (o_proper o); [cbn [andb] in E6; apply negb_false_iff in E6; rewrite E6|]; reflexivity).
  clear E6.
  step_guard H. { apply Ok_inj in H. rename H into E. rewrite E. cbn. reflexivity. }
  apply Ok_inj in H'. rename H' into E7. rewrite E7.
  cbn [negb andb].
  step_guard H. { destruct (o_no_indels o); [|discriminate]. apply cig_has_ok in H. rewrite <- H. reflexivity. }
  assert (E8 : negb (o_no_indels o) || negb (has_op r [1; 2]) = true).
  { destruct (o_no_indels o); [|reflexivity]. apply cig_has_ok in H'. rewrite <- H'. reflexivity. }
  rewrite E8. clear H' E8. cbn [andb].
  step_guard H. { apply nm_exceeds_ok in H. apply negb_sym in H. cbn [negb] in H. rewrite H. reflexivity. }
  apply nm_exceeds_ok in H'. apply negb_sym in H'. cbn [negb] in H'. rewrite H'. clear H'. cbn [andb].
  step_guard H. { destruct (o_no_softclips o); [|discriminate]. apply cig_has_ok in H. rewrite <- H. reflexivity. }
  assert (E10 : negb (o_no_softclips o) || negb (has_op r [4]) = true).
  { destruct (o_no_softclips o); [|reflexivity]. apply cig_has_ok in H'. rewrite <- H'. reflexivity. }
  rewrite E10. clear H' E10. cbn [andb].
  step_guard H. { destruct (o_filterXA o); [|discriminate]. apply xa_hit_ok in H. rewrite <- H. reflexivity. }
  assert (E11 : negb (o_filterXA o) || negb (xa_nonalt r) = true).
  { destruct (o_filterXA o); [|reflexivity]. apply xa_hit_ok in H'. rewrite <- H'. reflexivity. }
  rewrite E11. clear H' E11. cbn [andb].
  rewrite E7 in H. cbn [orb] in H.
  step_guard H. { apply Ok_inj in H. rename H into E. destruct (o_dedup o); [|discriminate]. cbn [andb negb orb] in E |- *.
                  apply orb_true_iff in E. destruct E as [E|E]; rewrite E; cbn; [reflexivity|].
                  destruct (has_tag r t_RR); reflexivity. }
  apply Ok_inj in H'. rename H' into E12.
  assert (E12' : negb (o_dedup o) || (negb (has_tag r t_RR) && negb (dup r)) = true).
  { destruct (o_dedup o); [|reflexivity]. cbn [andb negb orb] in E12 |- *. apply orb_false_iff in E12.
    destruct E12 as [-> ->]. reflexivity. }
  rewrite E12'. clear E12 E12'. cbn [andb].
  step_guard H. { apply bl_hit_ok in H. rewrite <- H. reflexivity. }
  apply bl_hit_ok in H'. rewrite <- H'. apply Ok_inj in H. subst b. reflexivity.
Qed.

(* C11_iff *)
Lemma should_count_iff o r b : should_count o r = Ok b -> (b = true <-> passes o r).
Proof. intros H. apply should_count_passesb in H. subst b. apply passesb_iff. Qed.

(* ------------------------------------------------------------------ no exception on well-formed reads *)
Lemma wf_read_inv r : wf_read r = true ->
  (unmapped r = true \/ (cigar r <> [] /\ exists e, rend r = Some e))
  /\ (forall s, get_tag r t_NM <> Some (TStr s))
  /\ (forall s, get_tag r t_XA = Some (TStr s) -> forallb xa_entry_ok (split [59] s) = true)
  /\ (forall z, get_tag r t_XA <> Some (TInt z))
  /\ (forall s, get_tag r t_NH <> Some (TStr s))
  /\ get_tag r t_NH <> Some (TInt 0)
  /\ (forall q s, get_tag r t_XA <> Some (TFlt q s))
  /\ (forall q s, get_tag r t_NH <> Some (TFlt q s)).
Proof.
  unfold wf_read. rewrite !andb_true_iff. intros [[[H1 H2] H3] H4].
  split; [|split; [|split; [|split; [|split; [|split; [|split]]]]]].
  - apply orb_true_iff in H1. destruct H1 as [H1|H1]; [left; assumption|right].
    apply andb_true_iff in H1. destruct H1 as [Hc He]. split.
    + destruct (cigar r); [discriminate|discriminate].
    + destruct (rend r) as [e|]; [exists e; reflexivity|discriminate].
  - intros s E. rewrite E in H2. discriminate.
  - intros s E. rewrite E in H3. assumption.
  - intros z E. rewrite E in H3. discriminate.
  - intros s E. rewrite E in H4. discriminate.
  - intros E. rewrite E in H4. discriminate.
  - intros q s E. rewrite E in H3. discriminate.
  - intros q s E. rewrite E in H4. discriminate.
Qed.

Lemma xa_scan_total : forall es, forallb xa_entry_ok es = true -> exists b, xa_scan es = Ok b.
Proof.
  induction es as [|e es IH]; cbn [forallb xa_scan]; intros H.
  - exists false. reflexivity.
  - apply andb_true_iff in H. destruct H as [He Hes]. unfold xa_entry_ok in He.
    destruct (is_nil e); [apply IH; assumption|]. cbn [orb] in He. rewrite He.
    destruct (ends_with s_alt (hd [] (split [44] e))); [apply IH; assumption|exists true; reflexivity].
Qed.

Lemma guard_total b k : (exists v, b = Ok v) -> (exists v, k = Ok v) -> exists v, guard b k = Ok v.
Proof. intros [[|] ->] [v ->]; cbn [guard]; eauto. Qed.

Lemma guard_true k : guard (Ok true) k = Ok false.
Proof. reflexivity. Qed.

Lemma should_count_total o r : wf_read r = true -> exists b, should_count o r = Ok b.
Proof.
  intros Hwf. apply wf_read_inv in Hwf. destruct Hwf as (Hmap & Hnm & Hxa & Hxai & _ & _ & Hxaf & _).
  unfold should_count.
  do 6 (apply guard_total; [eexists; reflexivity|]).
  destruct (unmapped r) eqn:Eu; [rewrite guard_true; eauto|].
  destruct Hmap as [Hmap|[Hc [e He]]]; [discriminate Hmap|].
  apply guard_total; [eexists; reflexivity|].
  assert (Hcig : forall ops, exists v, cig_has r ops = Ok v).
  { intros ops. unfold cig_has. destruct (cigar r); [contradiction|eauto]. }
  apply guard_total. { destruct (o_no_indels o); [apply Hcig|eauto]. }
  apply guard_total.
  { unfold nm_exceeds. destruct (o_max_edits o) as [m|]; [|eauto].
    destruct (get_tag r t_NM) as [[n|s|q s]|] eqn:En; cbn [py_int]; eauto. exfalso. exact (Hnm s eq_refl). }
  apply guard_total. { destruct (o_no_softclips o); [apply Hcig|eauto]. }
  apply guard_total.
  { destruct (o_filterXA o); [|eauto]. unfold xa_hit.
    destruct (get_tag r t_XA) as [[n|s|q s]|] eqn:Ex; eauto.
    - exfalso. exact (Hxai n eq_refl).
    - apply xa_scan_total. apply Hxa. reflexivity.
    - exfalso. exact (Hxaf q s eq_refl). }
  apply guard_total; [eexists; reflexivity|].
  apply guard_total; [|eauto].
  unfold bl_hit. destruct (o_blacklist o) as [bl|]; [|eauto]. destruct (refname r) as [c|]; [|eauto].
  destruct (bl_rows bl c); [eauto|]. rewrite He. eauto.
Qed.

(* the repair is conservative: same decision on every mapped read; an unmapped read is never counted *)
Lemma orig_mapped o r : unmapped r = false -> should_count_orig o r = should_count o r.
Proof. intros E. unfold should_count_orig, should_count. rewrite E. reflexivity. Qed.

Lemma guard_false_absorb b k : (forall v, k = Ok v -> v = false) -> forall v, guard b k = Ok v -> v = false.
Proof. intros Hk v H. destruct b as [[|]|e]; cbn [guard] in H; [congruence|auto|discriminate]. Qed.

Lemma orig_unmapped o r b : unmapped r = true -> should_count_orig o r = Ok b -> b = false.
Proof.
  intros E. unfold should_count_orig. rewrite E. cbn [orb]. rewrite guard_true. revert b.
  repeat apply guard_false_absorb. intros v H. congruence.
Qed.

(* D14: before the repair an unmapped record (which has no CIGAR) makes --no_indels raise TypeError *)
Definition d14_read : read :=
  mkRead false false false true false false false false 0 [] [([83; 77], TStr [99; 49])] (Some [99; 104; 114; 49]) 10 None.
Definition d14_opts : opts :=
  mkOpts false false false 0 false true None false false false None false false None (Some [s_chrom]) None false [44]
         [[83; 77]] None None.

Lemma d14_refuted : wf_read d14_read = true /\ wf_opts d14_opts = true /\
  should_count_orig d14_opts d14_read = Raise 1 /\ should_count d14_opts d14_read = Ok false.
Proof. vm_compute. repeat split. Qed.

(* ------------------------------------------------------------------ weights *)
Lemma Qdiv_1 (w : Q) : (w / inject_Z 1 == w)%Q.
Proof. unfold Qdiv. change (/ inject_Z 1)%Q with 1%Q. ring. Qed.

Lemma weight_pure o r w : weight o r = Ok w -> (w == pure_weight o r)%Q.
Proof.
  unfold weight, pure_weight, hits. destruct (o_div_multi o).
  2:{ intros H. inversion H. symmetry. apply Qdiv_1. }
  destruct (get_tag r t_XA) as [[z|s|q s]|].
  - discriminate.
  - intros H. inversion H. reflexivity.
  - discriminate.
  - destruct (get_tag r t_NH) as [[n|s|q s]|]; cbn [py_int].
    + destruct (n =? 0); [discriminate|]. intros H. inversion H. reflexivity.
    + destruct (parse_int s) as [n|]; [|discriminate]. destruct (n =? 0); [discriminate|].
      intros H. inversion H. reflexivity.
    + destruct (trunc_Q q =? 0); [discriminate|]. intros H. inversion H. reflexivity.
    + intros H. inversion H. symmetry. apply Qdiv_1.
Qed.

Lemma weight_total o r : wf_read r = true -> exists w, weight o r = Ok w.
Proof.
  intros Hwf. apply wf_read_inv in Hwf. destruct Hwf as (_ & _ & _ & Hxai & Hnhs & Hnh0 & Hxaf & Hnhf).
  unfold weight. destruct (o_div_multi o); [|eauto].
  destruct (get_tag r t_XA) as [[z|s|q s]|] eqn:Ex;
    [exfalso; exact (Hxai z eq_refl)|eauto|exfalso; exact (Hxaf q s eq_refl)|].
  destruct (get_tag r t_NH) as [[n|s|q s]|] eqn:En; cbn [py_int];
    [|exfalso; exact (Hnhs s eq_refl)|exfalso; exact (Hnhf q s eq_refl)|eauto].
  destruct (n =? 0) eqn:E0; [|eauto]. apply Z.eqb_eq in E0. subst n. exfalso. exact (Hnh0 eq_refl).
Qed.

(* half per mate; 1 per mate when fragment division is off; 1 for the selected mate *)
Lemma base_weight_cases o r :
  base_weight o r =
    if o_r1only o || o_r2only o || o_no_divide o then 1%Q
    else if paired r && negb (mate_unmapped r) then (1 # 2)%Q else 1%Q.
Proof. unfold base_weight. destruct (o_r1only o), (o_r2only o), (o_no_divide o); reflexivity. Qed.

Lemma pair_weight_half o r1 r2 w1 w2 :
  paired r1 = true -> paired r2 = true -> mate_unmapped r1 = false -> mate_unmapped r2 = false ->
  o_r1only o = false -> o_r2only o = false -> o_no_divide o = false -> o_div_multi o = false ->
  weight o r1 = Ok w1 -> weight o r2 = Ok w2 -> (w1 + w2 == 1)%Q.
Proof.
  intros P1 P2 M1 M2 O1 O2 O3 O4 H1 H2. unfold weight, base_weight in H1, H2.
  rewrite O1, O2, O3, O4 in H1, H2. rewrite P1, M1 in H1. rewrite P2, M2 in H2. cbn in H1, H2.
  inversion H1. inversion H2. reflexivity.
Qed.

Lemma pair_weight_nodivide o r1 r2 w1 w2 :
  o_no_divide o = true -> o_div_multi o = false ->
  weight o r1 = Ok w1 -> weight o r2 = Ok w2 -> (w1 + w2 == 2)%Q.
Proof.
  intros O3 O4 H1 H2. unfold weight in H1, H2. rewrite base_weight_cases, O3, O4 in H1, H2.
  rewrite !orb_true_r in H1, H2. inversion H1. inversion H2. reflexivity.
Qed.

Lemma pair_weight_r1only o r1 r2 w1 :
  o_r1only o = true -> o_div_multi o = false -> read2 r2 = true ->
  weight o r1 = Ok w1 -> (w1 == 1)%Q /\ should_count o r2 = Ok false.
Proof.
  intros O1 O4 R2 H1. unfold weight in H1. rewrite base_weight_cases, O1, O4 in H1. cbn [orb] in H1.
  inversion H1. split; [reflexivity|]. unfold should_count. rewrite O1, R2. reflexivity.
Qed.

Lemma pair_weight_r2only o r1 r2 w2 :
  o_r2only o = true -> o_div_multi o = false -> read1 r1 = true ->
  weight o r2 = Ok w2 -> (w2 == 1)%Q /\ (forall b, should_count o r1 = Ok b -> b = false).
Proof.
  intros O2 O4 R1 H2. unfold weight in H2. rewrite base_weight_cases, O2, O4, orb_true_r in H2. cbn [orb] in H2.
  inversion H2. split; [reflexivity|]. intros b Hb. apply should_count_passesb in Hb. subst b.
  unfold passesb. rewrite O2, R1. cbn [andb negb]. rewrite andb_false_r. reflexivity.
Qed.

(* multimapping: the weight is the base weight divided by the number of reported hits *)
Lemma weight_multimap o r w : weight o r = Ok w -> (w == base_weight o r / inject_Z (hits o r))%Q.
Proof. exact (weight_pure o r w). Qed.

Lemma hits_XA o r s : o_div_multi o = true -> get_tag r t_XA = Some (TStr s) ->
  hits o r = Z.of_nat (length (split [59] s)).
Proof. intros O E. unfold hits. rewrite O, E. reflexivity. Qed.

Lemma hits_NH o r n : o_div_multi o = true -> get_tag r t_XA = None -> get_tag r t_NH = Some (TInt n) ->
  hits o r = n.
Proof. intros O E1 E2. unfold hits. rewrite O, E1, E2. reflexivity. Qed.

Lemma hits_none o r : o_div_multi o = false \/ (get_tag r t_XA = None /\ get_tag r t_NH = None) -> hits o r = 1.
Proof. unfold hits. intros [->|[-> ->]]; [reflexivity|]. destruct (o_div_multi o); reflexivity. Qed.
