(* C15 proofs, part d: what the likelihood table of a column contains (declaratively). *)
From Coq Require Import ZArith List Bool Lia QArith Permutation.
Import ListNotations.
From SCMO Require Import Lib.Val Lib.PyInt Model.C15 Proofs.C15_c.
Open Scope Z_scope.

Definition dict := list (Z * list Q).
Fixpoint dget (b : Z) (d : dict) : list Q :=
  match d with [] => [] | (k, v) :: t => if k =? b then v else dget b t end.
Definition keys (d : dict) : list Z := map fst d.

(* the qualities observed with base b, in read order *)
Definition quals_of (b : Z) (os : list (Z * Z)) : list Z := map snd (filter (fun o => fst o =? b) os).
Definition nonN (os : list (Z * Z)) : list (Z * Z) := filter (fun o => negb (fst o =? baseN)) os.

Ltac eqb_cases :=
  repeat match goal with
  | |- context [Z.eqb ?x ?y] =>
      let E := fresh "E" in destruct (Z.eqb x y) eqn:E; [apply Z.eqb_eq in E|apply Z.eqb_neq in E]
  end; subst; try reflexivity; try lia; try congruence.

Lemma dget_add b p d b' :
  dget b' (dict_add b p d) = if b' =? b then dget b d ++ [p] else dget b' d.
Proof.
  induction d as [|[k v] t IH]; cbn [dict_add dget].
  - eqb_cases.
  - destruct (k =? b) eqn:Ekb; cbn [dget]; [|rewrite IH]; revert Ekb; eqb_cases.
Qed.

Lemma keys_add b p d k : In k (keys (dict_add b p d)) <-> k = b \/ In k (keys d).
Proof.
  induction d as [|[k0 v] t IH]; cbn [dict_add keys map In fst].
  - intuition.
  - destruct (k0 =? b) eqn:E; cbn [map In fst].
    + apply Z.eqb_eq in E. subst k0. intuition.
    + fold (keys (dict_add b p t)). fold (keys t). rewrite IH. intuition.
Qed.

Lemma keys_add_nodup b p d : NoDup (keys d) -> NoDup (keys (dict_add b p d)).
Proof.
  induction d as [|[k0 v] t IH]; intros H; cbn [dict_add keys map fst].
  - constructor; [intros []|constructor].
  - inversion H as [|? ? Hn Ht]; subst. destruct (k0 =? b) eqn:E; cbn [map fst].
    + constructor; assumption.
    + apply Z.eqb_neq in E. constructor; [|apply IH; assumption].
      fold (keys (dict_add b p t)). rewrite keys_add. intros [->|Hin]; [now apply E|now apply Hn].
Qed.

Lemma dget_in d k v : NoDup (keys d) -> In (k, v) d -> dget k d = v.
Proof.
  induction d as [|[k0 v0] t IH]; intros Hnd Hin; [destruct Hin|]. cbn [dget].
  inversion Hnd as [|? ? Hn Ht]; subst. destruct Hin as [E|Hin].
  - inversion E; subst. now rewrite Z.eqb_refl.
  - destruct (k0 =? k) eqn:E; [|now apply IH].
    apply Z.eqb_eq in E. subst k0. exfalso. apply Hn. apply in_map_iff. exists (k, v). auto.
Qed.

Section Table.
  Variable pc : Z -> Q.
  Let f := fun (d : dict) (o : Z * Z) => dict_add (fst o) (pc (snd o)) d.

  Lemma fold_dget b : forall os d,
    dget b (fold_left f os d) = dget b d ++ map pc (quals_of b os).
  Proof.
    induction os as [|o os IH]; intros d; cbn [fold_left].
    - unfold quals_of. cbn. now rewrite app_nil_r.
    - rewrite IH. change (f d o) with (dict_add (fst o) (pc (snd o)) d). rewrite dget_add. unfold quals_of. cbn [filter].
      rewrite (Z.eqb_sym (fst o) b). destruct (b =? fst o) eqn:E; cbn [map]; [|reflexivity].
      apply Z.eqb_eq in E. rewrite <- E. now rewrite <- app_assoc.
  Qed.

  Lemma fold_keys k : forall os d,
    In k (keys (fold_left f os d)) <-> In k (keys d) \/ exists q, In (k, q) os.
  Proof.
    induction os as [|o os IH]; intros d; cbn [fold_left].
    - split; [auto|]. intros [H|(q & [])]. assumption.
    - rewrite IH. change (f d o) with (dict_add (fst o) (pc (snd o)) d). rewrite keys_add. split.
      + intros [[->|H]|(q & H)]; [right; exists (snd o); left; now destruct o|now left|].
        right. exists q. now right.
      + intros [H|(q & [E|H])]; [left; now right| |right; now exists q].
        left. left. subst o. reflexivity.
  Qed.

  Lemma fold_nodup : forall os d, NoDup (keys d) -> NoDup (keys (fold_left f os d)).
  Proof.
    induction os as [|o os IH]; intros d H; cbn [fold_left]; [assumption|].
    apply IH. change (f d o) with (dict_add (fst o) (pc (snd o)) d). now apply keys_add_nodup.
  Qed.

  Definition om (o : Z * Z) : Q := (1 - pc (snd o))%Q.

  Lemma n_probs_add b p d :
    Permutation (n_probs (dict_add b p d)) (n_probs d ++ (if b =? baseN then [] else [(1 - p)%Q])).
  Proof.
    induction d as [|[k v] t IH]; cbn [dict_add].
    - unfold n_probs. cbn [flat_map fst snd map app]. rewrite app_nil_r. reflexivity.
    - destruct (k =? b) eqn:E.
      + apply Z.eqb_eq in E. subst k. unfold n_probs. cbn [flat_map fst snd].
        destruct (b =? baseN); [now rewrite app_nil_r|].
        rewrite map_app. cbn [map]. rewrite <- !app_assoc. apply Permutation_app_head.
        apply Permutation_app_comm.
      + unfold n_probs in *. cbn [flat_map]. rewrite <- app_assoc. apply Permutation_app_head.
        exact IH.
  Qed.

  Lemma fold_n_probs : forall os d,
    Permutation (n_probs (fold_left f os d)) (n_probs d ++ map om (nonN os)).
  Proof.
    induction os as [|o os IH]; intros d; cbn [fold_left].
    - unfold nonN. cbn. now rewrite app_nil_r.
    - rewrite IH. change (f d o) with (dict_add (fst o) (pc (snd o)) d). rewrite n_probs_add. rewrite <- app_assoc. apply Permutation_app_head.
      unfold nonN. cbn [filter]. destruct (fst o =? baseN); cbn [negb map app]; reflexivity.
  Qed.

  Lemma keys_set b v d k : In k (keys (dict_set b v d)) <-> k = b \/ In k (keys d).
  Proof.
    induction d as [|[k0 w] t IH]; cbn [dict_set keys map In fst].
    - intuition.
    - destruct (k0 =? b) eqn:E; cbn [map In fst].
      + apply Z.eqb_eq in E. subst k0. intuition.
      + fold (keys (dict_set b v t)). fold (keys t). rewrite IH. intuition.
  Qed.

  Lemma keys_set_nodup b v d : NoDup (keys d) -> NoDup (keys (dict_set b v d)).
  Proof.
    induction d as [|[k0 w] t IH]; intros H; cbn [dict_set keys map fst].
    - constructor; [intros []|constructor].
    - inversion H as [|? ? Hn Ht]; subst. destruct (k0 =? b) eqn:E; cbn [map fst].
      + constructor; assumption.
      + apply Z.eqb_neq in E. constructor; [|apply IH; assumption].
        fold (keys (dict_set b v t)). rewrite keys_set. intros [->|Hin]; [now apply E|now apply Hn].
  Qed.

  Lemma dget_set b v d b' : dget b' (dict_set b v d) = if b' =? b then v else dget b' d.
  Proof.
    induction d as [|[k w] t IH]; cbn [dict_set dget].
    - eqb_cases.
    - destruct (k =? b) eqn:Ekb; cbn [dget]; [|rewrite IH]; revert Ekb; eqb_cases.
  Qed.

  (* products do not depend on the order of the factors *)
  Definition qprodr (v : list Q) : Q := fold_right Qmult 1%Q v.
  Lemma qprod_acc : forall v a, (fold_left Qmult v a == a * qprodr v)%Q.
  Proof.
    induction v as [|p v IH]; intros a; cbn [fold_left qprodr fold_right].
    - ring.
    - rewrite IH. fold (qprodr v). ring.
  Qed.
  Lemma qprodr_perm v w : Permutation v w -> (qprodr v == qprodr w)%Q.
  Proof.
    induction 1 as [|x v w _ IH|x y v|u v w _ IH1 _ IH2]; cbn [qprodr fold_right].
    - reflexivity.
    - fold (qprodr v). fold (qprodr w). now rewrite IH.
    - fold (qprodr v). ring.
    - now rewrite IH1.
  Qed.
  Lemma lik_perm v w : Permutation v w -> (lik v == lik w)%Q.
  Proof.
    intros H. unfold lik, qprod. rewrite !qprod_acc, (qprodr_perm v w H), (Permutation_length H).
    reflexivity.
  Qed.

  Lemma likelihoods_unfold os :
    likelihoods pc os = map (fun kv : Z * list Q => (fst kv, lik (snd kv)))
                            (dict_set baseN (n_probs (fold_left f os [])) (fold_left f os [])).
  Proof. reflexivity. Qed.

  (* the likelihood table of one column *)
  Lemma likelihoods_spec os :
    NoDup (map fst (likelihoods pc os)) /\
    (forall b, In b (map fst (likelihoods pc os)) <-> b = baseN \/ exists q, In (b, q) os) /\
    (forall b v, In (b, v) (likelihoods pc os) -> b <> baseN ->
                 v = lik (map pc (quals_of b os))) /\
    (forall v, In (baseN, v) (likelihoods pc os) -> (v == lik (map om (nonN os)))%Q).
  Proof.
    rewrite likelihoods_unfold.
    set (d := fold_left f os []).
    assert (Hnd : NoDup (keys d)) by (apply fold_nodup; constructor).
    assert (Hnd' : NoDup (keys (dict_set baseN (n_probs d) d))) by now apply keys_set_nodup.
    assert (Hk : map fst (map (fun kv : Z * list Q => (fst kv, lik (snd kv))) (dict_set baseN (n_probs d) d))
                 = keys (dict_set baseN (n_probs d) d)).
    { rewrite map_map. reflexivity. }
    rewrite Hk. repeat split.
    - exact Hnd'.
    - rewrite keys_set. intros [->|H]; [now left|]. unfold d in H. rewrite fold_keys in H.
      destruct H as [[]|H]. now right.
    - rewrite keys_set. intros [->|H]; [now left|]. right. unfold d. rewrite fold_keys. now right.
    - intros b v Hin Hb. apply in_map_iff in Hin. destruct Hin as ([k w] & E & Hin).
      cbn [fst snd] in E. inversion E; subst. f_equal.
      rewrite <- (dget_in _ _ _ Hnd' Hin), dget_set.
      destruct (b =? baseN) eqn:Eb; [apply Z.eqb_eq in Eb; contradiction|].
      unfold d. rewrite fold_dget. reflexivity.
    - intros v Hin. apply in_map_iff in Hin. destruct Hin as ([k w] & E & Hin).
      cbn [fst snd] in E. inversion E; subst.
      rewrite <- (dget_in _ _ _ Hnd' Hin), dget_set, Z.eqb_refl.
      apply lik_perm. unfold d. rewrite fold_n_probs. reflexivity.
  Qed.
End Table.

(* ------------------------------------------------------------------ the call, declaratively
   L os k: likelihood of key k in a column = product of the correctness probabilities of the
   observations showing k (k a base), or of the error probabilities of all non-N observations (k = N),
   times 4^(number of factors - 1) *)
Definition L (pc : Z -> Q) (os : list (Z * Z)) (k : Z) : Q :=
  if k =? baseN then lik (map (om pc) (nonN os)) else lik (map pc (quals_of k os)).
Definition is_key (os : list (Z * Z)) (k : Z) : Prop := k = baseN \/ exists q, In (k, q) os.

Lemma entry_L pc os k v : In (k, v) (likelihoods pc os) -> (v == L pc os k)%Q.
Proof.
  intros Hin. destruct (likelihoods_spec pc os) as (_ & _ & H3 & H4). unfold L.
  destruct (k =? baseN) eqn:E.
  - apply Z.eqb_eq in E. subst k. now apply H4.
  - apply Z.eqb_neq in E. rewrite (H3 k v Hin E). reflexivity.
Qed.

Lemma key_entry pc os k : is_key os k -> exists v, In (k, v) (likelihoods pc os).
Proof.
  intros Hk. destruct (likelihoods_spec pc os) as (_ & H2 & _). apply H2 in Hk.
  apply in_map_iff in Hk. destruct Hk as ([k' v] & E & Hin). cbn [fst] in E. subst k'. eauto.
Qed.

Lemma entry_key pc os k v : In (k, v) (likelihoods pc os) -> is_key os k.
Proof.
  intros Hin. destruct (likelihoods_spec pc os) as (_ & H2 & _). apply H2.
  apply in_map_iff. exists (k, v). auto.
Qed.

Lemma call_decl pc : (forall q, (0 <= pc q /\ pc q < 1)%Q) -> forall os,
  let b := fst (call pc os) in
  (is_key os b /\ forall k, is_key os k -> k <> b -> (L pc os k < L pc os b)%Q) \/
  (b = baseN /\ exists k1 k2, k1 <> k2 /\ is_key os k1 /\ is_key os k2 /\
                 (L pc os k1 == L pc os k2)%Q /\ forall k, is_key os k -> (L pc os k <= L pc os k1)%Q).
Proof.
  intros Hpc os. cbn zeta.
  destruct (likelihoods_spec pc os) as (Hnd & _).
  destruct (call_argmax pc Hpc os) as [(p & rest & Hperm & Hmax)|[(e1 & e2 & rest & Hperm & Heq & Hmax) Hb]].
  - left. set (b := fst (call pc os)) in *.
    assert (Hbin : In (b, p) (likelihoods pc os)).
    { apply (Permutation_in _ (Permutation_sym Hperm)). now left. }
    split; [eapply entry_key; eassumption|].
    intros k Hk Hne. destruct (key_entry pc os k Hk) as (v & Hv).
    rewrite <- (entry_L pc os k v Hv), <- (entry_L pc os b p Hbin).
    apply (Permutation_in _ Hperm) in Hv. destruct Hv as [E|Hv]; [inversion E; congruence|].
    apply (Hmax _ Hv).
  - right. split; [assumption|]. destruct e1 as [k1 v1], e2 as [k2 v2]. cbn [snd] in *.
    assert (H1 : In (k1, v1) (likelihoods pc os)).
    { apply (Permutation_in _ (Permutation_sym Hperm)). now left. }
    assert (H2 : In (k2, v2) (likelihoods pc os)).
    { apply (Permutation_in _ (Permutation_sym Hperm)). right. now left. }
    exists k1, k2. repeat split.
    + apply (Permutation_map fst) in Hperm. apply (Permutation_NoDup Hperm) in Hnd.
      cbn [map fst] in Hnd. inversion Hnd as [|? ? Hn _]; subst. intros ->. apply Hn. now left.
    + eapply entry_key; eassumption.
    + eapply entry_key; eassumption.
    + rewrite <- (entry_L pc os k1 v1 H1), <- (entry_L pc os k2 v2 H2). assumption.
    + intros k Hk. destruct (key_entry pc os k Hk) as (v & Hv).
      rewrite <- (entry_L pc os k v Hv), <- (entry_L pc os k1 v1 H1).
      apply (Permutation_in _ Hperm) in Hv. destruct Hv as [E|[E|Hv]].
      * inversion E; subst. apply Qle_refl.
      * inversion E; subst. rewrite Heq. apply Qle_refl.
      * apply (Hmax _ Hv).
Qed.
