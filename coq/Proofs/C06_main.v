(* C06 proofs, part 3: the invariants of Proofs/C06.v restated for the result of [assign]. *)
From Coq Require Import ZArith List Bool Lia Permutation.
Import ListNotations.
From SCMO Require Import Lib.Val Model.C06 Proofs.C06_shape Proofs.C06 Proofs.C06_dup.
Open Scope Z_scope.

Definition normal (m : mol) : bool := m_kind m =? 0.

Lemma assign_total c frags : cap_bad c = false -> exists out, assign c frags = Some out.
Proof. intros H. unfold assign. rewrite H. eauto. Qed.

Lemma assign_parts c frags out : assign c frags = Some out ->
  exists E X, out = E ++ X /\ (forall m, In m X -> cached_ok c m) /\ (forall m, In m E -> emitted_ok m) /\
    (cap_bad c = false -> E = st_emitted (fold_left (step c) frags st0) /\ X = all_mols (st_groups (fold_left (step c) frags st0))) /\
    (cap_bad c = true -> E = [] /\ X = [] /\ forall f, In f frags -> needs_mol c f = false).
Proof.
  intros H. apply assign_some in H as [(Hb & -> & Hn)|(Hb & ->)].
  - exists [], []. split; [reflexivity|]. split; [intros m []|]. split; [intros m []|]. split; [congruence|auto].
  - destruct (basic_inv c frags) as [HX HE].
    exists (st_emitted (fold_left (step c) frags st0)), (all_mols (st_groups (fold_left (step c) frags st0))).
    split; [reflexivity|]. split; [assumption|]. split; [assumption|]. split; [auto|congruence].
Qed.

Lemma filter_normal E X : (forall m, In m X -> m_kind m = 0) -> (forall m, In m E -> m_kind m = 1 \/ m_kind m = 2) ->
  filter normal (E ++ X) = X.
Proof.
  intros HX HE. rewrite filter_app. rewrite (filter_none normal E).
  - cbn [app]. induction X as [|m X IH]; [reflexivity|]. cbn [filter]. unfold normal at 1. rewrite (HX m) by now left.
    cbn. f_equal. apply IH. intros x Hx. apply HX. now right.
  - intros m Hm. unfold normal. destruct (HE m Hm) as [-> | ->]; reflexivity.
Qed.

Lemma normal_parts c frags out : assign c frags = Some out ->
  (cap_bad c = false /\ filter normal out = all_mols (st_groups (fold_left (step c) frags st0))) \/
  (cap_bad c = true /\ out = [] /\ forall f, In f frags -> needs_mol c f = false).
Proof.
  intros H. destruct (assign_parts _ _ _ H) as (E & X & -> & HX & HE & Hok & Hbad).
  destruct (cap_bad c) eqn:Hb.
  - right. destruct (Hbad eq_refl) as (-> & -> & Hn). auto.
  - left. split; [reflexivity|]. destruct (Hok eq_refl) as [_ <-]. apply filter_normal.
    + intros m Hm. now destruct (HX m Hm).
    + intros m Hm. now destruct (HE m Hm).
Qed.

(* ---- every molecule is non-empty *)
Lemma out_nonempty c frags out m : assign c frags = Some out -> In m out -> m_frags m <> [].
Proof.
  intros H Hm. destruct (assign_parts _ _ _ H) as (E & X & -> & HX & HE & _).
  apply in_app_or in Hm as [Hm|Hm].
  - destruct (HE m Hm) as (_ & _ & f & -> & _). discriminate.
  - now destruct (HX m Hm) as (_ & Hne & _).
Qed.

(* ---- partition *)
Lemma partition_main c frags out : c_yover c = true -> assign c frags = Some out ->
  Permutation (concat (map m_frags out)) (filter (needs_mol c) frags).
Proof.
  intros Hy H. apply assign_some in H as [(Hb & -> & Hn)|(Hb & ->)].
  - rewrite filter_none by assumption. constructor.
  - now apply partition_inv.
Qed.

(* ---- soundness *)
Lemma sound_main c frags out m : assign c frags = Some out -> In m out ->
  (forall f g, In f (m_frags m) -> In g (m_frags m) ->
     f_cell f = f_cell g /\ f_strand f = f_strand g /\ f_contig f = f_contig g /\ (exact_site c -> f_site f = f_site g)) /\
  (forall p f q, m_frags m = p ++ f :: q -> p <> [] ->
     umi_close (c_d c) (f_umi f) (rep_of p) /\ radius_ok c p f) /\
  (m_kind m <> 2 -> forall f, In f (m_frags m) -> f_valid f = true).
Proof.
  intros H Hm. destruct (assign_parts _ _ _ H) as (E & X & -> & HX & HE & Hok & Hbad).
  assert (Hs : mol_sound c (m_frags m) /\ (m_kind m <> 2 -> forall f, In f (m_frags m) -> f_valid f = true)).
  { apply in_app_or in Hm as [Hm|Hm].
    - destruct (HE m Hm) as (Hk & _ & f & Hf & Hv1 & Hv2). rewrite Hf. split; [apply mol_sound_one|].
      intros Hk2 g [<-|[]]. destruct Hk as [Hk|Hk]; [auto|contradiction].
    - destruct (cap_bad c) eqn:Hb; [destruct (Hbad eq_refl) as (_ & -> & _); destruct Hm|].
      destruct (Hok eq_refl) as [_ ->]. destruct (sound_inv c frags m Hm) as [(_ & _ & Hv & _) Hs]. split; [assumption|].
      intros _. assumption. }
  destruct Hs as [[H1 H2] H3]. split; [|split; assumption].
  intros f g Hf Hg. destruct (H1 f g Hf Hg) as [(K1 & K2 & K3) K4]. auto.
Qed.

(* ---- exactness *)
Lemma fkeyb_meaning c g x : exact_site c ->
  (fkeyb c g x = true <-> f_cell g = f_cell x /\ f_strand g = f_strand x /\ f_contig g = f_contig x /\
                          f_site g = f_site x /\ f_umi g = f_umi x).
Proof.
  intros He. unfold fkeyb. rewrite andb_true_iff, !zs_eqb_eq.
  assert (Hk : key c g = key c x <-> f_strand g = f_strand x /\ f_contig g = f_contig x /\ f_site g = f_site x /\ f_cell g = f_cell x)
    by (destruct He as [E1|[E2 Er]]; [now apply key_nla|now apply key_chic0]).
  rewrite Hk. tauto.
Qed.

Lemma exact_main c frags out : c_d c = 0 -> exact_site c -> c_cap c = None -> assign c frags = Some out ->
  let ms := filter normal out in
  let vf := filter f_valid frags in
  (forall m, In m ms -> exists g, In g vf /\ m_frags m = filter (fkeyb c g) vf) /\
  (forall x, In x vf -> exists m, In m ms /\ In x (m_frags m)) /\
  NoDup (map (mkey c) ms) /\
  (forall m, In m out -> normal m = false -> exists f, m_frags m = [f] /\ f_valid f = false).
Proof.
  intros Hd He Hcap H. cbn zeta.
  assert (Hb : cap_bad c = false) by (rewrite cap_bad_shape; now rewrite Hcap).
  pose proof H as H0. destruct (normal_parts _ _ _ H) as [(_ & ->)|(Hb' & _)]; [|congruence].
  destruct (exact_fold c frags Hd He Hcap) as [(Hcl & Hnd & Hcov) Hk2].
  split; [|split; [|split]]; try assumption.
  - intros m Hm. destruct (Hcl m Hm) as (_ & g & Hh & Hf). exists g. split; [|assumption].
    assert (Hg : In g (m_frags m)) by (destruct (m_frags m); [discriminate|inversion Hh; now left]).
    rewrite Hf in Hg. now apply filter_In in Hg.
  - intros m Hm Hn. destruct (assign_parts _ _ _ H0) as (E & X & -> & HX & HE & Hok & _).
    destruct (Hok Hb) as [-> ->]. apply in_app_or in Hm as [Hm|Hm].
    + destruct (HE m Hm) as (_ & _ & f & Hf & _ & Hv2). exists f. split; [assumption|]. apply Hv2. now apply Hk2.
    + destruct (HX m Hm) as (Hk & _). unfold normal in Hn. rewrite Hk in Hn. discriminate.
Qed.

(* ---- tags *)
Lemma one_primary_main c frags out m : assign c frags = Some out -> In m out ->
  exists x, filter (fun x => negb (t_dup x)) (write_tags true m) = [x] /\ hd_error (write_tags true m) = Some x.
Proof. intros H Hm. apply write_tags_one_primary. eapply out_nonempty; eassumption. Qed.

Lemma tags_main m : length (write_tags true m) = length (m_frags m) /\
  forall i x, nth_error (write_tags true m) i = Some x ->
    exists f, nth_error (m_frags m) i = Some f /\ t_id x = f_id f /\ t_rc x = Z.of_nat i /\
              t_dup x = (0 <? Z.of_nat i) /\
              t_af x = Z.of_nat (length (m_frags m)) /\
              t_tf x = Z.of_nat (length (m_frags m)) + Z.of_nat (length (m_ovf m)).
Proof.
  split; [apply tags_from_length|]. intros i x H. apply write_tags_nth in H as (f & H1 & H2 & H3 & H4 & H5 & _ & H7).
  exists f. repeat split; assumption.
Qed.

Lemma tf_total_main c frags out : assign c frags = Some out ->
  list_sum (map tfn (filter normal out)) = length (filter f_valid frags).
Proof.
  intros H. destruct (normal_parts _ _ _ H) as [(_ & ->)|(_ & -> & Hn)].
  - apply tf_inv.
  - cbn. rewrite filter_none; [reflexivity|]. intros f Hf. apply Hn in Hf. unfold needs_mol in Hf.
    now apply orb_false_iff in Hf as [Hf _].
Qed.
