(* C16 proofs, part a: lists, sorting, searchsorted windows, exactness of the three lookup variants and of the
   range scan on a well built contig index. *)
From Coq Require Import ZArith List Bool Lia ZifyBool Permutation Sorted.
Import ListNotations.
From SCMO Require Import Gen.GenFeatures Model.C16.
Open Scope Z_scope.

(* ------------------------------------------------------------------ generic list facts *)
Lemma filter_none {A} (p : A -> bool) (l : list A) :
  (forall x, In x l -> p x = false) -> filter p l = [].
Proof.
  induction l as [|a l IH]; intros H; cbn; [reflexivity|].
  rewrite (H a (or_introl eq_refl)). apply IH. intros x Hx. apply H. right. exact Hx.
Qed.

Lemma filter_ext_In {A} (p q : A -> bool) (l : list A) :
  (forall x, In x l -> p x = q x) -> filter p l = filter q l.
Proof.
  induction l as [|a l IH]; intros H; cbn; [reflexivity|].
  rewrite (H a (or_introl eq_refl)). rewrite IH; [reflexivity|].
  intros x Hx. apply H. right. exact Hx.
Qed.

Lemma filter_andb {A} (p q : A -> bool) (l : list A) :
  filter (fun f => p f && q f) l = filter q (filter p l).
Proof.
  induction l as [|a l IH]; cbn; [reflexivity|].
  destruct (p a) eqn:Hp; cbn; [destruct (q a); rewrite IH; reflexivity | exact IH].
Qed.

Lemma filter_all {A} (p : A -> bool) (l : list A) :
  (forall x, In x l -> p x = true) -> filter p l = l.
Proof.
  induction l as [|a l IH]; intros H; cbn; [reflexivity|].
  rewrite (H a (or_introl eq_refl)). f_equal. apply IH. intros x Hx. apply H. right. exact Hx.
Qed.

Lemma In_firstn {A} (x : A) n l : In x (firstn n l) -> In x l.
Proof.
  revert l; induction n as [|n IH]; intros [|a l] H; cbn in *; try contradiction.
  destruct H as [H|H]; [left; exact H | right; apply IH; exact H].
Qed.

Lemma In_skipn {A} (x : A) n l : In x (skipn n l) -> In x l.
Proof.
  revert l; induction n as [|n IH]; intros [|a l] H; cbn in *; try contradiction; auto.
Qed.

Lemma skipn_skipn' {A} a b (l : list A) : skipn a (skipn b l) = skipn (b + a) l.
Proof.
  revert l; induction b as [|b IH]; intros l; cbn; [reflexivity|].
  destruct l as [|x l]; [destruct a; reflexivity | apply IH].
Qed.

Lemma window_split {A} lo hi (l : list A) :
  (lo <= hi)%nat -> l = firstn lo l ++ window lo hi l ++ skipn hi l.
Proof.
  intros Hle. unfold window.
  replace (skipn hi l) with (skipn (hi - lo) (skipn lo l)).
  - rewrite (firstn_skipn (hi - lo) (skipn lo l)). symmetry. apply firstn_skipn.
  - rewrite skipn_skipn'. f_equal. lia.
Qed.

Lemma In_window {A} (x : A) lo hi l : (lo <= hi)%nat -> In x (window lo hi l) -> In x (firstn hi l).
Proof.
  intros Hle. unfold window. replace hi with (lo + (hi - lo))%nat at 2 by lia.
  generalize (hi - lo)%nat as n. clear Hle hi. revert l.
  induction lo as [|lo IH]; intros l n H; cbn in *; [exact H|].
  destruct l as [|a l]; cbn in *; [destruct n; cbn in H; contradiction|].
  right. apply IH. exact H.
Qed.

Lemma nth_In_firstn {A} (d : A) k l : (k < length l)%nat -> In (nth k l d) (firstn (S k) l).
Proof.
  revert l; induction k as [|k IH]; intros [|a l] H; cbn in *; try lia.
  - left; reflexivity.
  - right. apply IH. lia.
Qed.

Lemma nth_map' {A B} (g : A -> B) (d : A) (d0 : B) k l :
  (k < length l)%nat -> nth k (map g l) d0 = g (nth k l d).
Proof.
  revert l; induction k as [|k IH]; intros [|a l] H; cbn in *; try lia; [reflexivity|].
  apply IH. lia.
Qed.

(* ------------------------------------------------------------------ T: shape lemmas
   The model (Model/C16.v) is written over the definitions g_* regenerated from the current source.  The reference
   kernel below is what the window proofs are about; each shape lemma re-proves, for the source as it is now, that
   the generated piece is the reference piece.  A changed side=, search key, comparison operator, window end, block
   end or a dropped re-index / cache_clear makes the corresponding lemma (and with it every theorem) fail. *)
Definition smatch_ref := smatch.

Definition at_rec_ref (r : crec) (x q o : Z) : list feat :=
  let fs := c_feats r in
  let s := ss_left (c_starts r) (x + 1) in
  let hi := Nat.min s (length fs) in
  if o =? 0 then
    filter (fun f => endok x f && smatch q f) (window (fast_at (c_fast r) s) hi fs)
  else if o =? 1 then
    filter (smatch q) (dedup (filter (endok x) (window (ss_left (c_starts r) (x - c_maxlen r)) hi fs)))
  else
    filter (smatch q) (dedup (filter (endok x) (window 0 hi fs))).

Definition pre_rec_ref (fs : list feat) : crec :=
  mkC fs true (map f_start fs) (sort_Z (map f_end fs)) (list_max (map (fun f => f_end f - f_start f) fs)) [].

Fixpoint scan_between_ref (a b q : Z) (l : list feat) : list feat :=
  match l with
  | [] => []
  | f :: t => if f_start f >? b then []
              else (if overlap a b f && smatch q f then [f] else []) ++ scan_between_ref a b q t
  end.

Definition between_rec_ref (r : crec) (a b q : Z) : list feat :=
  let i0 := (ss_left (c_starts r) a - 1)%nat in
  let k := ss_left (c_ends r) b in
  scan_between_ref a b q (skipn (Nat.min i0 k) (c_feats r)).

(* np.searchsorted calls: side and key *)
Lemma ss_s_shape l x : ss g_s_side l (g_s_key x) = ss_left l (x + 1).
Proof. unfold ss, g_s_side, g_s_key. cbn [Z.eqb]. f_equal; lia. Qed.
Lemma ss_nb_shape l x m : ss g_nb_side l (g_nb_key x m) = ss_left l (x - m).
Proof. unfold ss, g_nb_side, g_nb_key. cbn [Z.eqb]. f_equal; lia. Qed.
Lemma ss_optim_shape l x : ss g_optim_side l (g_optim_key x) = ss_left l (x + 1).
Proof. unfold ss, g_optim_side, g_optim_key. cbn [Z.eqb]. f_equal; lia. Qed.
Lemma ss_fastidx_shape l v : ss g_fastidx_side l v = ss_left l v.
Proof. unfold ss, g_fastidx_side. cbn [Z.eqb]. reflexivity. Qed.
Lemma ss_btw_s_shape l a b : ss g_btw_s_side l (g_btw_s_key a b) = ss_left l a.
Proof. unfold ss, g_btw_s_side, g_btw_s_key. cbn [Z.eqb]. f_equal; lia. Qed.
Lemma ss_btw_e_shape l a b : ss g_btw_e_side l (g_btw_e_key a b) = ss_left l b.
Proof. unfold ss, g_btw_e_side, g_btw_e_key. cbn [Z.eqb]. f_equal; lia. Qed.

(* window ends *)
Lemma fast_end_shape s n : Z.to_nat (g_fast_end (Z.of_nat s) (Z.of_nat n)) = Nat.min s n.
Proof. unfold g_fast_end. lia. Qed.
Lemma nb_end_shape s n : Z.to_nat (g_nb_end (Z.of_nat s) (Z.of_nat n)) = Nat.min s n.
Proof. unfold g_nb_end. lia. Qed.
Lemma optim_end_shape s n : Z.to_nat (g_optim_end (Z.of_nat s) (Z.of_nat n)) = Nat.min s n.
Proof. unfold g_optim_end. lia. Qed.

(* scan conditions *)
Lemma fast_keep_shape x q f :
  g_fast_keep (f_end f) x (q =? 0) (f_strand f =? q) = endok x f && smatch q f.
Proof. unfold g_fast_keep, endok, smatch. lia. Qed.
Lemma nb_keep_shape x f : g_nb_keep (f_end f) x = endok x f.
Proof. unfold g_nb_keep, endok. lia. Qed.
Lemma optim_keep_shape x f : g_optim_keep (f_end f) x = endok x f.
Proof. unfold g_optim_keep, endok. lia. Qed.
Lemma strand_keep_shape q f : g_strand_keep (q =? 0) (f_strand f =? q) = smatch q f.
Proof. unfold g_strand_keep, smatch. lia. Qed.
Lemma btw_stop_shape b f : g_btw_stop (f_start f) b = (f_start f >? b).
Proof. unfold g_btw_stop. lia. Qed.
Lemma btw_cond_shape a b q f :
  g_btw_overlap a b (f_start f) (f_end f) && g_btw_strand (q =? 0) (q =? f_strand f) = overlap a b f && smatch q f.
Proof. unfold g_btw_overlap, g_btw_strand, overlap, smatch. lia. Qed.
Lemma btw_start_shape ssa sse :
  Z.to_nat (g_btw_start (g_btw_i0 (Z.of_nat ssa)) (Z.of_nat sse)) = Nat.min (ssa - 1) sse.
Proof. unfold g_btw_start, g_btw_i0. lia. Qed.
Lemma len_shape f : g_len (f_start f) (f_end f) = f_end f - f_start f.
Proof. unfold g_len. lia. Qed.

(* the read annotation: half open pysam block -> closed range *)
Lemma block_start_shape bs be : g_block_start bs be = bs.
Proof. unfold g_block_start. lia. Qed.
Lemma block_end_shape bs be : g_block_end bs be = be - 1.
Proof. unfold g_block_end. lia. Qed.

(* which lookups re-index an unsorted container first; where the lru_cache is cleared *)
Lemma autosort_at_shape : g_autosort_at = true.
Proof. reflexivity. Qed.
Lemma cfg_fixed_shape : cfg_fixed = cfg_ref.
Proof. reflexivity. Qed.

Lemma filter_ext' {A} (p q : A -> bool) (l : list A) : (forall x, p x = q x) -> filter p l = filter q l.
Proof. intros H. induction l as [|a l IH]; cbn; [reflexivity|]. rewrite H, IH. reflexivity. Qed.

Lemma at_rec_shape r x q o : at_rec r x q o = at_rec_ref r x q o.
Proof.
  unfold at_rec, at_rec_ref. cbv zeta.
  rewrite ss_s_shape, ss_nb_shape, ss_optim_shape, fast_end_shape, nb_end_shape, optim_end_shape.
  destruct (o =? 0); [apply filter_ext'; intros f; apply fast_keep_shape|].
  destruct (o =? 1).
  - rewrite (filter_ext' (fun f => g_strand_keep (q =? 0) (f_strand f =? q)) (smatch q)) by (intros f; apply strand_keep_shape).
    rewrite (filter_ext' (fun f => g_nb_keep (f_end f) x) (endok x)) by (intros f; apply nb_keep_shape). reflexivity.
  - rewrite (filter_ext' (fun f => g_strand_keep (q =? 0) (f_strand f =? q)) (smatch q)) by (intros f; apply strand_keep_shape).
    rewrite (filter_ext' (fun f => g_optim_keep (f_end f) x) (endok x)) by (intros f; apply optim_keep_shape). reflexivity.
Qed.

Lemma pre_rec_shape fs : pre_rec fs = pre_rec_ref fs.
Proof.
  unfold pre_rec, pre_rec_ref.
  replace (map (fun f => g_len (f_start f) (f_end f)) fs) with (map (fun f => f_end f - f_start f) fs); [reflexivity|].
  apply map_ext. intros f. symmetry. apply len_shape.
Qed.

Lemma scan_shape a b q l : scan_between a b q l = scan_between_ref a b q l.
Proof.
  induction l as [|f t IH]; cbn [scan_between scan_between_ref]; [reflexivity|].
  rewrite btw_stop_shape, btw_cond_shape, IH. reflexivity.
Qed.

Lemma between_rec_shape r a b q : between_rec r a b q = between_rec_ref r a b q.
Proof.
  unfold between_rec, between_rec_ref. cbv zeta.
  rewrite ss_btw_s_shape, ss_btw_e_shape, btw_start_shape, scan_shape. reflexivity.
Qed.

(* ------------------------------------------------------------------ feature equality, dedup *)
Lemma feat_eqb_eq a b : feat_eqb a b = true <-> a = b.
Proof.
  destruct a as [a1 a2 a3 a4 a5], b as [b1 b2 b3 b4 b5]. unfold feat_eqb; cbn.
  rewrite !andb_true_iff, !Z.eqb_eq. split.
  - intros [[[[H1 H2] H3] H4] H5]. subst. reflexivity.
  - intros H. inversion H. subst. repeat split.
Qed.

Lemma memf_In f l : memf f l = true <-> In f l.
Proof.
  unfold memf. rewrite existsb_exists. split.
  - intros [x [Hx He]]. apply feat_eqb_eq in He. subst. exact Hx.
  - intros H. exists f. split; [exact H | apply feat_eqb_eq; reflexivity].
Qed.

Lemma dedup_In f l : In f (dedup l) <-> In f l.
Proof.
  induction l as [|a l IH]; cbn; [tauto|].
  destruct (memf a l) eqn:Hm.
  - rewrite IH. split; [auto|]. intros [H|H]; [subst; apply memf_In; exact Hm | exact H].
  - cbn. rewrite IH. tauto.
Qed.

Lemma dedup_NoDup l : NoDup (dedup l).
Proof.
  induction l as [|a l IH]; cbn; [constructor|].
  destruct (memf a l) eqn:Hm; [exact IH|].
  constructor; [|exact IH]. rewrite dedup_In. intros H. apply memf_In in H. congruence.
Qed.

(* ------------------------------------------------------------------ sorting *)
Definition le_start (a b : feat) : Prop := f_start a <= f_start b.
Definition sorted_start (l : list feat) : Prop := StronglySorted le_start l.

Lemma feat_leb_start a b : feat_leb a b = true -> f_start a <= f_start b.
Proof.
  unfold feat_leb, feat_cmp, lex.
  destruct (Z.compare_spec (f_start a) (f_start b)) as [E|E|E]; intros H; [lia | lia | discriminate].
Qed.

Lemma feat_leb_false_start a b : feat_leb a b = false -> f_start b <= f_start a.
Proof.
  unfold feat_leb, feat_cmp, lex.
  destruct (Z.compare_spec (f_start a) (f_start b)) as [E|E|E]; intros H; [lia | discriminate | lia].
Qed.

Lemma insert_In x f l : In x (insert_feat f l) <-> x = f \/ In x l.
Proof.
  induction l as [|g t IH]; cbn; [intuition congruence|].
  destruct (feat_leb f g); cbn; [intuition congruence|].
  rewrite IH. intuition congruence.
Qed.

Lemma insert_sorted f l : sorted_start l -> sorted_start (insert_feat f l).
Proof.
  unfold sorted_start. induction l as [|g t IH]; intros Hs; cbn.
  - constructor; constructor.
  - inversion Hs as [|? ? Hst Hall]; subst.
    destruct (feat_leb f g) eqn:E.
    + constructor; [exact Hs|]. constructor; [apply feat_leb_start; exact E|].
      apply feat_leb_start in E. rewrite Forall_forall in *. intros x Hx. specialize (Hall x Hx).
      unfold le_start in *. lia.
    + constructor; [apply IH; exact Hst|].
      rewrite Forall_forall in *. intros x Hx. apply insert_In in Hx. destruct Hx as [Hx|Hx].
      * subst. apply feat_leb_false_start. exact E.
      * apply Hall. exact Hx.
Qed.

Lemma sort_sorted l : sorted_start (sort_feats l).
Proof.
  induction l as [|a l IH]; cbn; [constructor | apply insert_sorted; exact IH].
Qed.

Lemma insert_perm f l : Permutation (insert_feat f l) (f :: l).
Proof.
  induction l as [|g t IH]; cbn; [reflexivity|].
  destruct (feat_leb f g); [reflexivity|].
  rewrite IH. apply perm_swap.
Qed.

Lemma sort_perm l : Permutation (sort_feats l) l.
Proof.
  induction l as [|a l IH]; cbn; [reflexivity|].
  rewrite insert_perm. constructor. exact IH.
Qed.

Lemma sort_In f l : In f (sort_feats l) <-> In f l.
Proof.
  split; intros H; [eapply Permutation_in; [apply sort_perm | exact H]
                   | eapply Permutation_in; [apply Permutation_sym, sort_perm | exact H]].
Qed.

Lemma perm_filter {A} (p : A -> bool) l l' : Permutation l l' -> Permutation (filter p l) (filter p l').
Proof.
  induction 1 as [|x l l' H IH|x y l|l l' l'' H1 IH1 H2 IH2]; cbn.
  - constructor.
  - destruct (p x); [constructor|]; exact IH.
  - destruct (p x), (p y); try reflexivity. apply perm_swap.
  - etransitivity; eassumption.
Qed.

(* ------------------------------------------------------------------ searchsorted *)
Lemma ss_le_len l v : (ss_left l v <= length l)%nat.
Proof.
  induction l as [|a l IH]; cbn; [lia|]. destruct (a <? v); cbn; lia.
Qed.

Lemma ss_mono l v w : v <= w -> (ss_left l v <= ss_left l w)%nat.
Proof.
  intros Hvw. induction l as [|a l IH]; cbn; [lia|].
  destruct (Z.ltb_spec a v), (Z.ltb_spec a w); lia.
Qed.

Lemma ss_firstn fs v f : In f (firstn (ss_left (map f_start fs) v) fs) -> f_start f < v.
Proof.
  induction fs as [|a fs IH]; cbn; [contradiction|].
  destruct (f_start a <? v) eqn:E; cbn; [|contradiction].
  intros [H|H]; [subst; apply Z.ltb_lt; exact E | apply IH; exact H].
Qed.

Lemma ss_skipn fs v f :
  sorted_start fs -> In f (skipn (ss_left (map f_start fs) v) fs) -> v <= f_start f.
Proof.
  unfold sorted_start. induction fs as [|a fs IH]; intros Hs; cbn; [contradiction|].
  inversion Hs as [|? ? Hst Hall]; subst.
  destruct (f_start a <? v) eqn:E; cbn.
  - apply IH. exact Hst.
  - apply Z.ltb_ge in E. intros [H|H]; [subst; exact E|].
    rewrite Forall_forall in Hall. specialize (Hall f H). unfold le_start in Hall. lia.
Qed.

(* the window [lo, s) with s = searchsorted(starts, x+1) is exact as soon as nothing left of lo contains x *)
Lemma window_exact fs x lo :
  sorted_start fs ->
  (lo <= ss_left (map f_start fs) (x + 1))%nat ->
  (forall f, In f (firstn lo fs) -> contains x f = false) ->
  filter (endok x) (window lo (Nat.min (ss_left (map f_start fs) (x + 1)) (length fs)) fs)
  = filter (contains x) fs.
Proof.
  intros Hs Hlo Hleft.
  set (s := ss_left (map f_start fs) (x + 1)) in *.
  assert (Hsn : (s <= length fs)%nat).
  { unfold s. pose proof (ss_le_len (map f_start fs) (x + 1)) as H. rewrite map_length in H. exact H. }
  rewrite Nat.min_l by exact Hsn.
  rewrite (window_split lo s fs Hlo) at 2.
  rewrite !filter_app.
  rewrite (filter_none (contains x) (firstn lo fs)) by exact Hleft.
  rewrite (filter_none (contains x) (skipn s fs)).
  - rewrite app_nil_r. cbn. apply filter_ext_In. intros f Hf.
    apply In_window in Hf; [|exact Hlo]. apply ss_firstn in Hf.
    unfold contains, endok. replace (f_start f <=? x) with true; [reflexivity|].
    symmetry. apply Z.leb_le. lia.
  - intros f Hf. apply (ss_skipn fs (x + 1) f Hs) in Hf.
    unfold contains. replace (f_start f <=? x) with false; [reflexivity|].
    symmetry. apply Z.leb_gt. lia.
Qed.

Lemma nb_window_exact fs x maxlen :
  sorted_start fs ->
  (forall f, In f fs -> f_end f - f_start f <= maxlen) -> 0 <= maxlen ->
  filter (endok x) (window (ss_left (map f_start fs) (x - maxlen))
                           (Nat.min (ss_left (map f_start fs) (x + 1)) (length fs)) fs)
  = filter (contains x) fs.
Proof.
  intros Hs Hmax Hnn. apply window_exact; [exact Hs | apply ss_mono; lia |].
  intros f Hf. pose proof (ss_firstn _ _ _ Hf) as H1. apply In_firstn in Hf. specialize (Hmax f Hf).
  unfold contains. replace (x <=? f_end f) with false; [apply andb_false_r|].
  symmetry. apply Z.leb_gt. lia.
Qed.

Lemma optim_window_exact fs x :
  sorted_start fs ->
  filter (endok x) (window 0 (Nat.min (ss_left (map f_start fs) (x + 1)) (length fs)) fs)
  = filter (contains x) fs.
Proof.
  intros Hs. apply window_exact; [exact Hs | lia | cbn; contradiction].
Qed.

(* ------------------------------------------------------------------ max / min folds *)
Lemma fold_max_ge l : forall acc, acc <= fold_left Z.max l acc /\ (forall a, In a l -> a <= fold_left Z.max l acc).
Proof.
  induction l as [|b l IH]; intros acc; cbn; [split; [lia | contradiction]|].
  destruct (IH (Z.max acc b)) as [H1 H2]. split; [lia|].
  intros a [Ha|Ha]; [subst; lia | apply H2; exact Ha].
Qed.

Lemma list_max_ge l a : In a l -> a <= list_max l.
Proof.
  destruct l as [|b l]; cbn; [contradiction|].
  destruct (fold_max_ge l b) as [H1 H2]. intros [H|H]; [subst; exact H1 | apply H2; exact H].
Qed.

Lemma list_max_nonneg l : (forall a, In a l -> 0 <= a) -> 0 <= list_max l.
Proof.
  destruct l as [|b l]; intros H; [cbn; lia|].
  specialize (H b (or_introl eq_refl)). pose proof (list_max_ge (b :: l) b (or_introl eq_refl)). lia.
Qed.

Lemma fold_min_spec l : forall acc,
  fold_left Z.min l acc <= acc /\ (forall a, In a l -> fold_left Z.min l acc <= a) /\
  (fold_left Z.min l acc = acc \/ In (fold_left Z.min l acc) l).
Proof.
  induction l as [|b l IH]; intros acc; cbn; [repeat split; [lia | contradiction | left; reflexivity]|].
  destruct (IH (Z.min acc b)) as [H1 [H2 H3]]. repeat split.
  - lia.
  - intros a [Ha|Ha]; [subst; lia | apply H2; exact Ha].
  - destruct H3 as [H3|H3]; [|right; right; exact H3].
    rewrite H3. destruct (Z.min_spec acc b) as [[_ E]|[_ E]]; rewrite E; [left; reflexivity | right; left; reflexivity].
Qed.

Lemma min_start_le v f : In f v -> min_start v <= f_start f.
Proof.
  destruct v as [|g t]; cbn; [contradiction|].
  destruct (fold_min_spec (map f_start t) (f_start g)) as [H1 [H2 _]].
  intros [H|H]; [subst; exact H1 | apply H2; apply in_map; exact H].
Qed.

Lemma min_start_in v : v <> [] -> exists f, In f v /\ min_start v = f_start f.
Proof.
  destruct v as [|g t]; [congruence|]. intros _. cbn.
  destruct (fold_min_spec (map f_start t) (f_start g)) as [_ [_ [H|H]]].
  - exists g. split; [left; reflexivity | exact H].
  - apply in_map_iff in H. destruct H as [f [Hf Hin]]. exists f. split; [right; exact Hin | symmetry; exact Hf].
Qed.

(* ------------------------------------------------------------------ the index built by sort(), memo free *)
Definition wfP (f : feat) : Prop := f_start f <= f_end f /\ 0 <= f_end f.

Definition build_pure (fs0 : list feat) : crec :=
  let fs := sort_feats fs0 in
  let r1 := pre_rec fs in
  mkC fs true (c_starts r1) (c_ends r1) (c_maxlen r1)
      (map (fun f => ss g_fastidx_side (c_starts r1) (min_start (at_rec r1 (f_start f) 0 1))) fs).

Lemma build_pure_unfold fs0 :
  build_pure fs0 =
  let fs := sort_feats fs0 in
  let r1 := pre_rec_ref fs in
  mkC fs true (c_starts r1) (c_ends r1) (c_maxlen r1)
      (map (fun f => ss_left (c_starts r1) (min_start (at_rec r1 (f_start f) 0 1))) fs).
Proof.
  unfold build_pure. cbv zeta. rewrite pre_rec_shape.
  f_equal; apply map_ext; intros f; apply ss_fastidx_shape.
Qed.

Record wb (r : crec) : Prop := {
  wb_idx : c_indexed r = true;
  wb_sorted : sorted_start (c_feats r);
  wb_starts : c_starts r = map f_start (c_feats r);
  wb_maxlen : forall f, In f (c_feats r) -> f_end f - f_start f <= c_maxlen r;
  wb_maxnn : 0 <= c_maxlen r;
  wb_fast : forall x,
      filter (endok x) (window (fast_at (c_fast r) (ss_left (c_starts r) (x + 1)))
                               (Nat.min (ss_left (c_starts r) (x + 1)) (length (c_feats r))) (c_feats r))
      = filter (contains x) (c_feats r) }.

(* the 'nb' and 'optim' scans only need the sorted list, the starts and the longest length *)
Lemma at_rec_set_exact r x q o :
  sorted_start (c_feats r) -> c_starts r = map f_start (c_feats r) ->
  (forall f, In f (c_feats r) -> f_end f - f_start f <= c_maxlen r) -> 0 <= c_maxlen r ->
  o = 1 \/ o = 2 ->
  at_rec r x q o = filter (smatch q) (dedup (filter (contains x) (c_feats r))).
Proof.
  intros Hs Hst Hmax Hnn Ho. rewrite at_rec_shape. unfold at_rec_ref. rewrite Hst.
  destruct Ho as [Ho|Ho]; subst o; cbn [Z.eqb Pos.eqb].
  - rewrite nb_window_exact by assumption. reflexivity.
  - rewrite optim_window_exact by assumption. reflexivity.
Qed.

Lemma smatch0 f : smatch 0 f = true.
Proof. reflexivity. Qed.

Lemma pre_rec_ref_nb_In fs x f :
  sorted_start fs -> (forall g, In g fs -> f_start g <= f_end g) ->
  (In f (at_rec (pre_rec_ref fs) x 0 1) <-> In f fs /\ contains x f = true).
Proof.
  intros Hs Hwf.
  rewrite at_rec_set_exact; cbn [pre_rec_ref c_feats c_starts c_maxlen]; auto.
  - rewrite filter_all by (intros; apply smatch0). rewrite dedup_In, filter_In. tauto.
  - intros g Hg. apply list_max_ge. apply (in_map (fun f => f_end f - f_start f)). exact Hg.
  - apply list_max_nonneg. intros a Ha. apply in_map_iff in Ha. destruct Ha as [g [Hg Hin]].
    specialize (Hwf g Hin). lia.
Qed.

Lemma pre_rec_nb_In fs x f :
  sorted_start fs -> (forall g, In g fs -> f_start g <= f_end g) ->
  (In f (at_rec (pre_rec fs) x 0 1) <-> In f fs /\ contains x f = true).
Proof. rewrite pre_rec_shape. apply pre_rec_ref_nb_In. Qed.

Lemma build_wb fs0 : (forall f, In f fs0 -> f_start f <= f_end f) -> wb (build_pure fs0).
Proof.
  intros Hwf0.
  assert (Hs : sorted_start (sort_feats fs0)) by apply sort_sorted.
  assert (Hwf : forall g, In g (sort_feats fs0) -> f_start g <= f_end g).
  { intros g Hg. apply Hwf0. apply sort_In. exact Hg. }
  rewrite build_pure_unfold.
  constructor; cbn [pre_rec_ref c_feats c_starts c_maxlen c_indexed c_fast]; auto.
  - intros f Hf. apply list_max_ge. apply (in_map (fun f => f_end f - f_start f)). exact Hf.
  - apply list_max_nonneg. intros a Ha. apply in_map_iff in Ha. destruct Ha as [g [Hg Hin]].
    specialize (Hwf g Hin). lia.
  - intros x. set (fs := sort_feats fs0) in *.
    destruct (ss_left (map f_start fs) (x + 1)) as [|k] eqn:Es.
    + (* nothing starts at or before x: fastIndex[-1], empty range *)
      cbn [Nat.min]. unfold window. rewrite Nat.sub_0_l. cbn [firstn filter]. symmetry.
      apply filter_none. intros f Hf.
      assert (H : In f (skipn (ss_left (map f_start fs) (x + 1)) fs)) by (rewrite Es; exact Hf).
      apply (ss_skipn fs (x + 1) f Hs) in H.
      unfold contains. replace (f_start f <=? x) with false; [reflexivity|]. symmetry. apply Z.leb_gt. lia.
    + assert (Hk : (k < length fs)%nat).
      { pose proof (ss_le_len (map f_start fs) (x + 1)) as H. rewrite map_length, Es in H. lia. }
      cbn [fast_at]. set (d := mkF 0 0 0 0 0).
      rewrite (nth_map' _ d O k fs Hk).
      set (h := nth k fs d).
      assert (Hh_in : In h fs) by (apply nth_In; exact Hk).
      assert (Hh_x : f_start h <= x).
      { pose proof (nth_In_firstn d k fs Hk) as H. rewrite <- Es in H. apply ss_firstn in H. fold h in H. lia. }
      set (v := at_rec (pre_rec_ref fs) (f_start h) 0 1).
      assert (Hv : forall f, In f v <-> In f fs /\ contains (f_start h) f = true)
        by (intros f; apply pre_rec_ref_nb_In; assumption).
      assert (Hhv : In h v).
      { apply Hv. split; [exact Hh_in|]. unfold contains. specialize (Hwf h Hh_in).
        apply andb_true_iff. split; apply Z.leb_le; lia. }
      pose proof (min_start_le v h Hhv) as Hmin.
      rewrite <- Es.
      apply window_exact; [exact Hs | apply ss_mono; lia |].
      intros f Hf. pose proof (ss_firstn _ _ _ Hf) as Hlt. apply In_firstn in Hf.
      destruct (contains x f) eqn:Ec; [|reflexivity]. exfalso.
      unfold contains in Ec. apply andb_true_iff in Ec. destruct Ec as [E1 E2].
      apply Z.leb_le in E1. apply Z.leb_le in E2.
      assert (Hfv : In f v).
      { apply Hv. split; [exact Hf|]. unfold contains. apply andb_true_iff. split; apply Z.leb_le; lia. }
      pose proof (min_start_le v f Hfv). lia.
Qed.

Lemma build_feats fs0 : c_feats (build_pure fs0) = sort_feats fs0.
Proof. reflexivity. Qed.

(* ------------------------------------------------------------------ exactness on a well built index *)
Definition hit (x q : Z) (f : feat) : bool := contains x f && smatch q f.
Definition hit_between (a b q : Z) (f : feat) : bool := overlap a b f && smatch q f.

Lemma at_exact_fast r x q : wb r -> at_rec r x q 0 = filter (hit x q) (c_feats r).
Proof.
  intros [_ _ _ _ _ Hfast]. rewrite at_rec_shape. unfold at_rec_ref. cbn [Z.eqb].
  rewrite filter_andb. rewrite Hfast. unfold hit. rewrite filter_andb. reflexivity.
Qed.

Lemma at_exact_set r x q o : wb r -> o = 1 \/ o = 2 ->
  at_rec r x q o = filter (smatch q) (dedup (filter (contains x) (c_feats r))).
Proof.
  intros [_ Hs Hst Hmax Hnn _] Ho. apply at_rec_set_exact; assumption.
Qed.

Lemma at_exact_In r x q o f : wb r -> o = 0 \/ o = 1 \/ o = 2 ->
  (In f (at_rec r x q o) <-> In f (c_feats r) /\ hit x q f = true).
Proof.
  intros Hwb [Ho|Ho].
  - subst. rewrite at_exact_fast by exact Hwb. apply filter_In.
  - rewrite at_exact_set by assumption. rewrite filter_In, dedup_In, filter_In.
    unfold hit. rewrite andb_true_iff. tauto.
Qed.

Lemma scan_sound a b q l f :
  In f (scan_between_ref a b q l) -> In f l /\ hit_between a b q f = true.
Proof.
  induction l as [|g t IH]; cbn; [contradiction|].
  destruct (f_start g >? b); [contradiction|].
  intros H. apply in_app_or in H. destruct H as [H|H].
  - fold (hit_between a b q g) in H. destruct (hit_between a b q g) eqn:E; [|contradiction].
    destruct H as [H|[]]. subst. split; [left; reflexivity | exact E].
  - destruct (IH H) as [H1 H2]. split; [right; exact H1 | exact H2].
Qed.

Lemma scan_complete a b q l f :
  sorted_start l -> In f l -> f_start f <= b -> hit_between a b q f = true ->
  In f (scan_between_ref a b q l).
Proof.
  unfold sorted_start. induction l as [|g t IH]; intros Hs Hin Hb Hhit; [contradiction|].
  inversion Hs as [|? ? Hst Hall]; subst. cbn.
  assert (Hg : f_start g <= b).
  { destruct Hin as [Hin|Hin]; [subst; exact Hb|].
    rewrite Forall_forall in Hall. specialize (Hall f Hin). unfold le_start in Hall. lia. }
  replace (f_start g >? b) with false by (symmetry; rewrite Z.gtb_ltb; apply Z.ltb_ge; lia).
  apply in_or_app. destruct Hin as [Hin|Hin].
  - subst. left. fold (hit_between a b q f). rewrite Hhit. left. reflexivity.
  - right. apply IH; assumption.
Qed.

Lemma overlap_spec a b f : overlap a b f = true <-> (a <= b /\ a <= f_end f /\ f_start f <= b /\ f_start f <= f_end f).
Proof. unfold overlap. rewrite Z.leb_le. lia. Qed.

(* findFeaturesBetween = scan from a safe start index, plus the two point lookups *)
Lemma between_exact r a b q f :
  wb r -> a <= b ->
  (In f (dedup (between_rec r a b q ++ at_rec r a q 0 ++ at_rec r b q 0))
   <-> In f (c_feats r) /\ hit_between a b q f = true).
Proof.
  intros Hwb Hab. pose proof Hwb as [_ Hs Hst _ _ _].
  rewrite dedup_In, !in_app_iff. rewrite !(at_exact_In r _ q 0 f Hwb) by (left; reflexivity).
  rewrite between_rec_shape. unfold between_rec_ref. set (n0 := Nat.min _ _).
  split.
  - intros [H|[[H1 H2]|[H1 H2]]].
    + apply scan_sound in H. destruct H as [H1 H2]. split; [eapply In_skipn; exact H1 | exact H2].
    + split; [exact H1|]. unfold hit, hit_between, contains in *.
      apply andb_true_iff in H2. destruct H2 as [H2 H3]. apply andb_true_iff in H2. destruct H2 as [E1 E2].
      apply Z.leb_le in E1. apply Z.leb_le in E2. rewrite H3, andb_true_r. apply overlap_spec. lia.
    + split; [exact H1|]. unfold hit, hit_between, contains in *.
      apply andb_true_iff in H2. destruct H2 as [H2 H3]. apply andb_true_iff in H2. destruct H2 as [E1 E2].
      apply Z.leb_le in E1. apply Z.leb_le in E2. rewrite H3, andb_true_r. apply overlap_spec. lia.
  - intros [Hin Hhit]. pose proof Hhit as Hhit'. unfold hit_between in Hhit'.
    apply andb_true_iff in Hhit'. destruct Hhit' as [Hov Hsm]. apply overlap_spec in Hov.
    destruct (Z_le_gt_dec (f_start f) a) as [Hle|Hgt].
    + right. left. split; [exact Hin|]. unfold hit, contains. rewrite Hsm, andb_true_r.
      apply andb_true_iff. split; apply Z.leb_le; lia.
    + left. apply scan_complete; [| | lia | exact Hhit].
      * unfold sorted_start in *. clear - Hs. revert Hs. generalize (c_feats r) as l. generalize n0 as n.
        induction n as [|n IH]; intros l Hs; cbn; [exact Hs|].
        destruct l as [|x l]; [exact Hs|]. inversion Hs; subst. apply IH. assumption.
      * (* f lies at or after the start index: everything before index searchsorted(starts, a) starts before a *)
        rewrite <- (firstn_skipn n0 (c_feats r)) in Hin. apply in_app_or in Hin. destruct Hin as [Hin|Hin]; [|exact Hin].
        exfalso.
        assert (Hn0 : (n0 <= ss_left (map f_start (c_feats r)) a)%nat) by (unfold n0; rewrite Hst; lia).
        assert (Hin' : In f (firstn (ss_left (map f_start (c_feats r)) a) (c_feats r))).
        { clear - Hin Hn0. revert Hin Hn0. generalize (ss_left (map f_start (c_feats r)) a) as m.
          generalize (c_feats r) as l. induction n0 as [|n IH]; intros l m Hin Hm; cbn in *; [contradiction|].
          destruct l as [|x l]; [contradiction|]. destruct m as [|m]; [lia|]. cbn.
          destruct Hin as [Hin|Hin]; [left; exact Hin | right; apply IH; [exact Hin | lia]]. }
        apply ss_firstn in Hin'. lia.
Qed.
