(* C18 proofs, part d: loaded tables are well formed, equal settings build equal tables, and the
   lazy / cached resolver refines the mode-independent specification along any history *)
From Coq Require Import ZArith List Bool Lia Permutation Sorting.Sorted.
Import ListNotations.
From SCMO Require Import Lib.Val Gen.GenAlleles Model.C18 Proofs.C18_s Proofs.C18_a Proofs.C18_b Proofs.C18_c.
Open Scope Z_scope.

(* ------------------------------------------------------------------ loaded tables are well formed *)
Lemma badd_all_values ps b ss : In (b, ss) (badd_all ps []) -> forall s, In s ss -> In (b, s) ps.
Proof.
  intros Hin s Hs.
  assert (E : aget seqb (badd_all ps []) b = Some ss).
  { apply (In_aget seqb seqb_eq); [apply badd_all_NoDup; constructor|exact Hin]. }
  rewrite badd_all_aget in E.
  destruct (canon (map snd (filter (fun bs => seqb (fst bs) b) ps))) as [|x l] eqn:C; [discriminate|].
  inversion E; subst. rewrite <- C in Hs. apply canon_In, in_map_iff in Hs.
  destruct Hs as ([b0 s0] & E0 & Hf). cbn in E0. subst s0. apply filter_In in Hf. destruct Hf as [Hf Hb].
  cbn in Hb. apply seqb_eq in Hb. subst b0. exact Hf.
Qed.
Lemma badd_all_key_in ps b ss : In (b, ss) (badd_all ps []) -> In b (map fst ps).
Proof.
  intros Hin. assert (H : In b (map fst (badd_all ps []))) by (change b with (fst (b, ss)); apply in_map, Hin).
  apply badd_all_keys in H. destruct H as [[]|H]. exact H.
Qed.

Lemma badd_all_nonnil q ps : badd_all (q :: ps) [] <> [].
Proof.
  intros E. assert (H : In (fst q) (map fst (badd_all (q :: ps) []))) by (apply badd_all_keys; right; left; reflexivity).
  rewrite E in H. destruct H.
Qed.
Lemma letters_ok l : In l letters -> name_ok_P l.
Proof.
  intros H. apply name_ok_iff. cbn in H.
  destruct H as [<-|[<-|[<-|[<-|[<-|[<-|[]]]]]]]; reflexivity.
Qed.
Lemma in_combine_letters l a r : In (l, a) (combine letters (alleles r)) -> In l letters /\ In a (alleles r).
Proof. intros H. split; [eapply in_combine_l|eapply in_combine_r]; exact H. Qed.

Lemma rec_ok_parts v r : rec_ok v r = true ->
  In (r_chrom r) (v_contigs v) /\ r_gts r <> [] /\
  (forall s al, In (s, al) (r_gts r) -> name_ok_P s /\ forall b, In (Some b) al -> base_ok_P b) /\
  (forall a, In a (alleles r) -> base_ok_P a).
Proof.
  unfold rec_ok. rewrite !andb_true_iff. intros ((((H1 & H2) & H3) & H4) & H5).
  split; [apply smem_In, H1|]. split; [destruct (r_gts r); [discriminate|discriminate]|]. split.
  - intros s al Hin. rewrite forallb_forall in H3, H5. split.
    + apply name_ok_iff. apply (H3 (s, al) Hin).
    + intros b Hb. specialize (H5 (s, al) Hin). cbn in H5. rewrite forallb_forall in H5.
      apply base_ok_iff. apply (H5 (Some b) Hb).
  - intros a Ha. rewrite forallb_forall in H4. apply base_ok_iff, H4, Ha.
Qed.

Lemma site_dict_wf v cf r : rec_ok v r = true -> informativeb cf r = true -> bm_wf (site_dict cf r).
Proof.
  intros Hok Hinf. destruct (rec_ok_parts v r Hok) as (_ & _ & Hg & Ha).
  destruct (site_dict_good cf r) as [Hd Hv]. split; [|split; [exact Hd|]].
  - (* not empty *)
    unfold site_dict. destruct (c_phased cf) eqn:Hp.
    + intros E. pose proof (phased_nbases cf r) as L. rewrite phased_bm, E in L. cbn in L.
      unfold informativeb in Hinf. rewrite Hp, <- L in Hinf. cbn in Hinf. discriminate.
    + change (upairs r) with (swap ([85], r_ref r) :: map swap (combine [[86]; [87]; [88]; [89]; [90]] (r_alts r))).
      apply badd_all_nonnil.
  - intros b ss Hin. destruct (Hv b ss Hin) as [Hne Hso]. split; [|split; [exact Hne|split; [exact Hso|]]].
    + apply badd_all_key_in in Hin. apply in_map_iff in Hin. destruct Hin as ([b0 s] & E & Hin). cbn in E. subst b0.
      destruct (c_phased cf).
      * apply pairs_of_In in Hin. destruct Hin as [He _]. apply events_In in He. destruct He as (al & Hgin & _ & Hal).
        apply (proj2 (Hg s al Hgin) b Hal).
      * unfold upairs in Hin. apply in_map_iff in Hin. destruct Hin as ([l a] & E & Hin). unfold swap in E. cbn in E.
        inversion E; subst. apply Ha. apply (in_combine_letters _ _ _ Hin).
    + intros s Hs. pose proof (badd_all_values _ b ss Hin s Hs) as Hp.
      destruct (c_phased cf).
      * apply pairs_of_In in Hp. destruct Hp as [He _]. apply events_In in He. destruct He as (al & Hgin & _ & _).
        apply (proj1 (Hg s al Hgin)).
      * unfold upairs in Hp. apply in_map_iff in Hp. destruct Hp as ([l a] & E & Hp). unfold swap in E. cbn in E.
        inversion E; subst. apply letters_ok. apply (in_combine_letters _ _ _ Hp).
Qed.

Section AsetIn.
  Context {K V : Type}.
  Variable eqb : K -> K -> bool.
  Lemma aset_In_inv (m : list (K * V)) k v k' v' : In (k', v') (aset eqb m k v) -> v' = v \/ In (k', v') m.
  Proof.
    induction m as [|[k0 v0] m IH]; cbn.
    - intros [E|[]]. inversion E. left; reflexivity.
    - destruct (eqb k k0); cbn.
      + intros [E|H]; [inversion E; left; reflexivity|right; right; exact H].
      + intros [E|H]; [right; left; exact E|]. destruct (IH H) as [->|H']; [left; reflexivity|right; right; exact H'].
  Qed.
End AsetIn.

Lemma ct_wf_nil : ct_wf [].
Proof. split; [constructor|intros p bm []]. Qed.
Lemma ct_wf_aset ct p bm : ct_wf ct -> bm_wf bm -> ct_wf (aset Z.eqb ct p bm).
Proof.
  intros [Hd Hw] Hb. split; [apply (aset_NoDup Z.eqb zeqb_eq), Hd|].
  intros p' bm' Hin. apply aset_In_inv in Hin. destruct Hin as [->|Hin]; [exact Hb|apply (Hw p' bm' Hin)].
Qed.

Definition tbl_wf (t : table) : Prop := forall c ct, aget seqb t c = Some ct -> ct_wf ct.
Lemma tbl_wf_getd t c : tbl_wf t -> ct_wf (getd seqb t c).
Proof.
  intros H. unfold tbl_wf in H. norm_ty. destruct (aget seqb t c) as [ct|] eqn:E; [apply (H c ct E)|apply ct_wf_nil].
Qed.
Lemma tbl_wf_store t c p bm : tbl_wf t -> bm_wf bm -> tbl_wf (store t c p bm).
Proof.
  intros Ht Hb c' ct. unfold store. rewrite (aget_aset seqb seqb_eq). destruct (seqb c' c).
  - intros E. inversion E; subst. apply ct_wf_aset; [apply tbl_wf_getd, Ht|exact Hb].
  - apply Ht.
Qed.
Lemma tbl_wf_load v cf recs : (forall r, In r recs -> rec_ok v r = true) ->
  forall t, tbl_wf t -> tbl_wf (load_recs cf recs t).
Proof.
  unfold load_recs. induction recs as [|r recs IH]; intros Hok t Ht; [exact Ht|]. cbn [fold_left].
  apply IH; [intros r' Hr; apply Hok; right; exact Hr|].
  rewrite informative_eq. destruct (informativeb cf r) eqn:E; [|exact Ht].
  apply tbl_wf_store; [exact Ht|]. apply (site_dict_wf v); [apply Hok; left; reflexivity|exact E].
Qed.
Lemma sentinel_wf : bm_wf (badd [] str_N str_Nop).
Proof.
  split; [discriminate|]. split; [repeat constructor; intros []|].
  intros b ss [E|[]]. inversion E; subst. split; [|split; [discriminate|split]].
  - repeat constructor; discriminate.
  - repeat constructor.
  - intros s [<-|[]]. apply name_ok_iff. reflexivity.
Qed.
Lemma tbl_wf_sentinel c : tbl_wf (add_sentinel [] c).
Proof. unfold add_sentinel. apply tbl_wf_store; [intros c' ct E; discriminate|apply sentinel_wf]. Qed.

Lemma vcf_ok_recs v r : vcf_ok v = true -> In r (v_recs v) -> rec_ok v r = true.
Proof. unfold vcf_ok. rewrite forallb_forall. auto. Qed.
Lemma recs_of_In v c r : In r (recs_of v c) <-> In r (v_recs v) /\ r_chrom r = c.
Proof. unfold recs_of. rewrite filter_In, seqb_eq. tauto. Qed.

Lemma contig_table_wf v cf c : vcf_ok v = true -> tbl_wf (contig_table v cf c).
Proof.
  intros Hv. unfold contig_table. destruct (valid_contig v c); [|apply tbl_wf_sentinel].
  apply (tbl_wf_load v); [|apply tbl_wf_sentinel]. intros r Hr. apply recs_of_In in Hr. apply vcf_ok_recs; tauto.
Qed.
Lemma contig_table_only v cf c : only_key c (contig_table v cf c).
Proof.
  unfold contig_table. assert (Hs : only_key c (add_sentinel [] c)).
  { unfold add_sentinel. apply only_key_store, only_key_nil. }
  destruct (valid_contig v c); [|exact Hs].
  intros c' Hm. apply load_recs_amem in Hm. destruct Hm as [Hm|(r & Hr & E)]; [apply Hs, Hm|].
  apply recs_of_In in Hr. destruct Hr as [_ E']. congruence.
Qed.
Lemma contig_table_amem v cf c : amem seqb (contig_table v cf c) c = true.
Proof.
  unfold contig_table. assert (Hs : amem seqb (add_sentinel [] c) c = true).
  { rewrite add_sentinel_amem, seqb_refl. reflexivity. }
  destruct (valid_contig v c); [apply load_recs_amem_mono, Hs|exact Hs].
Qed.

(* ------------------------------------------------------------------ what a contig table answers (positions >= 0) *)
Lemma at_site_chrom c p r : at_site c p r = true -> r_chrom r = c.
Proof. unfold at_site. rewrite andb_true_iff, seqb_eq. tauto. Qed.

Lemma contig_table_lookup v cf c p : vcf_ok v = true -> 0 <= p ->
  lookup2 (contig_table v cf c) c p = option_map (site_dict cf) (spec_rec v cf c p).
Proof.
  intros Hv Hp. rewrite <- last_inf_spec_rec. unfold contig_table.
  destruct (valid_contig v c) eqn:Hc.
  - rewrite load_recs_lookup, add_sentinel_lookup by exact Hp. cbn [lookup2 aget].
    unfold recs_of. apply last_inf_filter. intros r Hr. apply seqb_eq. apply (at_site_chrom _ _ _ Hr).
  - rewrite add_sentinel_lookup by exact Hp. cbn [lookup2 aget]. symmetry. apply last_inf_none.
    intros r Hr. destruct (at_site c p r) eqn:E; [|reflexivity]. exfalso.
    apply at_site_chrom in E. destruct (rec_ok_parts v r (vcf_ok_recs v r Hv Hr)) as (Hin & _).
    unfold valid_contig in Hc. rewrite E in Hin. apply smem_In in Hin. congruence.
Qed.

Lemma lookup2_getd t c p : lookup2 t c p = aget Z.eqb (getd seqb t c) p.
Proof. unfold lookup2. norm_ty. destruct (aget seqb t c); reflexivity. Qed.

(* the answers, as functions of the per-contig dict *)
Definition ans_get (ct : ctable) (p : Z) (b : str) : answer :=
  match look3 ct p b with Some ss => ASome ss | None => ANone end.
Definition ans_has (ct : ctable) (p : Z) : answer := ABool (amem Z.eqb ct p).
Lemma answer_get_ct t c p b : answer_get t c p b = ans_get (getd seqb t c) p b.
Proof.
  unfold answer_get, ans_get, look3. rewrite lookup2_getd.
  destruct (aget Z.eqb (getd seqb t c) p) as [bm|]; [|reflexivity]. destruct (aget seqb bm b); reflexivity.
Qed.
Lemma answer_has_ct t c p : answer_has t c p = ans_has (getd seqb t c) p.
Proof. unfold answer_has, ans_has, amem. rewrite lookup2_getd. destruct (aget Z.eqb (getd seqb t c) p); reflexivity. Qed.

Definition CT (v : vcf) (cf : cfg) (c : str) : ctable := getd seqb (contig_table v cf c) c.

Definition site_answer (v : vcf) (cf : cfg) (q : query) : answer :=
  match q with
  | QGet c p b => match spec_rec v cf c p with
                  | Some r => match carriers cf r b with [] => ANone | ss => ASome ss end
                  | None => ANone end
  | QHas c p => ABool (match spec_rec v cf c p with Some _ => true | None => false end)
  end.

Lemma CT_get v cf c p b : vcf_ok v = true -> 0 <= p -> ans_get (CT v cf c) p b = site_answer v cf (QGet c p b).
Proof.
  intros Hv Hp. unfold ans_get, look3, CT. rewrite <- lookup2_getd, contig_table_lookup by assumption.
  cbn [site_answer]. destruct (spec_rec v cf c p) as [r|]; cbn [option_map]; [|reflexivity].
  rewrite site_dict_aget. destruct (carriers cf r b); reflexivity.
Qed.
Lemma CT_has v cf c p : vcf_ok v = true -> 0 <= p -> ans_has (CT v cf c) p = site_answer v cf (QHas c p).
Proof.
  intros Hv Hp. unfold ans_has, amem, CT. rewrite <- lookup2_getd, contig_table_lookup by assumption.
  cbn [site_answer]. destruct (spec_rec v cf c p); reflexivity.
Qed.

(* ------------------------------------------------------------------ equal settings build equal tables *)
Lemma pair_mem_In a b l : pair_mem a b l = true <-> In (a, b) l.
Proof.
  unfold pair_mem. rewrite existsb_exists. split.
  - intros ([a' b'] & Hin & E). cbn in E. apply andb_true_iff in E. destruct E as [E1 E2].
    apply seqb_eq in E1, E2. subst. exact Hin.
  - intros Hin. exists (a, b). split; [exact Hin|]. cbn. rewrite !seqb_refl. reflexivity.
Qed.
Lemma ignored_list cf r bm :
  ignored cf r bm = existsb (fun kv => pair_mem (r_ref r) (fst kv) (ign_list (c_ignore cf))) bm.
Proof.
  unfold ignored, ign_list. destruct (c_ignore cf); [reflexivity|]. induction bm as [|kv bm IH]; [reflexivity|exact IH].
Qed.
Lemma ign_same_mem i1 i2 : ign_same i1 i2 = true -> forall a b, pair_mem a b (ign_list i1) = pair_mem a b (ign_list i2).
Proof.
  unfold ign_same. rewrite andb_true_iff, !forallb_forall. intros [H1 H2] a b.
  destruct (pair_mem a b (ign_list i1)) eqn:E1; destruct (pair_mem a b (ign_list i2)) eqn:E2; try reflexivity.
  - apply pair_mem_In in E1. specialize (H1 _ E1). cbn in H1. congruence.
  - apply pair_mem_In in E2. specialize (H2 _ E2). cbn in H2. congruence.
Qed.
Lemma sel_same_mem cf1 cf2 : sel_same (c_select cf1) (c_select cf2) = true -> forall s, selected cf1 s = selected cf2 s.
Proof.
  unfold sel_same, selected. destruct (c_select cf1) as [l1|], (c_select cf2) as [l2|]; try discriminate; [|reflexivity].
  rewrite !andb_true_iff, !forallb_forall. intros [[_ H1] H2] s.
  destruct (smem s l1) eqn:E1; destruct (smem s l2) eqn:E2; try reflexivity.
  - apply smem_In in E1. specialize (H1 _ E1). congruence.
  - apply smem_In in E2. specialize (H2 _ E2). congruence.
Qed.

Lemma existsb_ext_fun {A} (f g : A -> bool) l : (forall x, f x = g x) -> existsb f l = existsb g l.
Proof. intros H. induction l as [|a l IH]; cbn; [reflexivity|]. rewrite H, IH. reflexivity. Qed.
Lemma fold_left_ext' {A B} (f g : A -> B -> A) l : (forall a b, f a b = g a b) -> forall a, fold_left f l a = fold_left g l a.
Proof. intros H. induction l as [|b l IH]; intros a; [reflexivity|]. cbn. rewrite H. apply IH. Qed.

Lemma same_sem_informative cf1 cf2 r : same_sem cf1 cf2 = true -> informative cf1 r = informative cf2 r.
Proof.
  unfold same_sem. rewrite !andb_true_iff. intros [[Hp Hs] Hi]. apply eqb_prop in Hp.
  pose proof (sel_same_mem cf1 cf2 Hs) as Hsel. pose proof (ign_same_mem _ _ Hi) as Hign.
  assert (Hscan : scan_rec cf1 r = scan_rec cf2 r).
  { unfold scan_rec. apply fold_left_ext'. intros st g. unfold scan_sample. rewrite !gselected_shape, Hsel. reflexivity. }
  rewrite !informative_shape. unfold informative_ref. rewrite <- Hp. destruct (c_phased cf1).
  - unfold phased_site_ref. rewrite <- Hscan.
    assert (Hb : match c_select cf1 with
                 | Some sel => if s_used (scan_rec cf1 r) then (if (length (s_assigned (scan_rec cf1 r)) =? length sel)%nat then s_bad (scan_rec cf1 r) else true) else s_bad (scan_rec cf1 r)
                 | None => s_bad (scan_rec cf1 r) end
               = match c_select cf2 with
                 | Some sel => if s_used (scan_rec cf1 r) then (if (length (s_assigned (scan_rec cf1 r)) =? length sel)%nat then s_bad (scan_rec cf1 r) else true) else s_bad (scan_rec cf1 r)
                 | None => s_bad (scan_rec cf1 r) end).
    { unfold sel_same in Hs. destruct (c_select cf1) as [l1|], (c_select cf2) as [l2|]; try discriminate; [|reflexivity].
      apply andb_true_iff in Hs. destruct Hs as [Hs _]. apply andb_true_iff in Hs. destruct Hs as [Hl _].
      apply Nat.eqb_eq in Hl. rewrite Hl. reflexivity. }
    rewrite Hb. rewrite !ignored_list.
    rewrite (existsb_ext_fun _ _ (s_bm (scan_rec cf1 r)) (fun kv => Hign (r_ref r) (fst kv))). reflexivity.
  - destruct (unphased_site_ref r) as [[bm used] bad]. rewrite !ignored_list.
    rewrite (existsb_ext_fun _ _ bm (fun kv => Hign (r_ref r) (fst kv))). reflexivity.
Qed.
