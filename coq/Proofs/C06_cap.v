(* C06 proofs, part 5: exactness with a cap (distance 0, exact sites): the first `cap` fragments of every class
   form the molecule, the rest of the class are its overflow fragments; TF = size of the class. *)
From Coq Require Import ZArith List Bool Lia Permutation.
Import ListNotations.
From SCMO Require Import Lib.Val Model.C06 Proofs.C06_shape Proofs.C06 Proofs.C06_dup Proofs.C06_main Proofs.C06_greedy.
Open Scope Z_scope.

Definition capclass_mol (c : cfg) (K : nat) (vf : list frag) (m : mol) : Prop :=
  exists g, hd_error (m_frags m) = Some g /\
            m_frags m = firstn K (filter (fkeyb c g) vf) /\ m_ovf m = skipn K (filter (fkeyb c g) vf).
Definition capexact_inv (c : cfg) (K : nat) (vf : list frag) (X : list mol) : Prop :=
  (forall m, In m X -> cached_ok c m /\ capclass_mol c K vf m) /\ NoDup (map (mkey c) X) /\
  (forall x, In x vf -> exists m g, In m X /\ hd_error (m_frags m) = Some g /\ fkeyb c g x = true).

Lemma in_firstn {A} n (l : list A) x : In x (firstn n l) -> In x l.
Proof. intros H. rewrite <- (firstn_skipn n l). apply in_or_app; now left. Qed.

Lemma other_key c l1 m l2 g f : NoDup (map (mkey c) (l1 ++ m :: l2)) -> hd_error (m_frags m) = Some g ->
  fkeyb c f g = true -> forall m2 g2, In m2 (l1 ++ l2) -> hd_error (m_frags m2) = Some g2 -> fkeyb c g2 f = false.
Proof.
  intros Hnd Hh Hag m2 g2 Hm2 Hh2. apply fkeyb_false. intros Ek. rewrite map_app in Hnd. cbn [map] in Hnd.
  assert (Hmk : mkey c m2 = mkey c m).
  { unfold mkey. rewrite Hh2, Hh. cbn. f_equal. apply fkeyb_eq in Hag. congruence. }
  apply NoDup_remove_2 in Hnd. apply Hnd. rewrite <- map_app, <- Hmk. now apply in_map.
Qed.

Lemma capexact_step c k f vf X X' e : c_d c = 0 -> exact_site c -> c_cap c = Some k -> 1 <= k -> f_valid f = true ->
  capexact_inv c (Z.to_nat k) vf X -> trans c f X X' e -> capexact_inv c (Z.to_nat k) (vf ++ [f]) X'.
Proof.
  intros Hd He Hcap Hk Hv (Hcl & Hnd & Hcov) Ht. set (K := Z.to_nat k) in *.
  assert (HXok : forall m, In m X' -> cached_ok c m).
  { eapply cached_ok_trans; try eassumption. intros m Hm. now apply Hcl. }
  assert (Hacc : forall m, In m X -> exists g, hd_error (m_frags m) = Some g /\
                 m_frags m = firstn K (filter (fkeyb c g) vf) /\ m_ovf m = skipn K (filter (fkeyb c g) vf) /\
                 accepts c f m = fkeyb c f g).
  { intros m Hm. destruct (Hcl _ Hm) as (_ & g & Hh & Hf & Ho). exists g. repeat split; try assumption.
    apply accepts_exact; try assumption. intros x Hx. rewrite Hf in Hx. apply in_firstn in Hx. now apply filter_In in Hx. }
  assert (Hkeep : forall m g, hd_error (m_frags m) = Some g -> fkeyb c g f = false ->
                  capclass_mol c K vf m -> capclass_mol c K (vf ++ [f]) m).
  { intros m g Hh Hf (g' & Hh' & H1 & H2). rewrite Hh in Hh'. inversion Hh'; subst g'. exists g.
    rewrite filter_snoc, Hf, app_nil_r. auto. }
  inversion Ht; subst.
  - (* joins m: the molecule was not full, so its class so far is the molecule itself *)
    assert (Hin : In m (l1 ++ m :: l2)) by (apply in_or_app; right; now left).
    destruct (Hacc m Hin) as (g & Hh & Hf & Ho & Hag). rewrite H1 in Hag. symmetry in Hag.
    destruct (Hcl m Hin) as ((_ & _ & _ & Hfull) & _).
    assert (Ho0 : m_ovf m = []).
    { destruct (m_ovf m) eqn:Eo; [reflexivity|]. assert (full c m = true) by (apply Hfull; discriminate). congruence. }
    set (F := filter (fkeyb c g) vf) in *.
    assert (HF : F = m_frags m) by (rewrite <- (firstn_skipn K F), <- Hf, <- Ho, Ho0; apply app_nil_r).
    assert (Hlen : (length F < K)%nat).
    { unfold full in H2. rewrite Hcap in H2. apply Z.leb_gt in H2. rewrite HF. unfold K. lia. }
    split; [|split].
    + intros m' Hm'. split; [now apply HXok|]. apply in_app_or in Hm' as [Hm'|[<-|Hm']].
      * assert (Hm0 : In m' (l1 ++ m :: l2)) by (apply in_or_app; now left).
        destruct (Hcl m' Hm0) as (_ & Hc'). destruct Hc' as (g2 & Hh2 & Hrest). eapply Hkeep; [exact Hh2| |exists g2; auto].
        eapply other_key; try eassumption. apply in_or_app; now left.
      * exists g. cbn [mol_add m_frags m_ovf]. split; [now apply hd_error_snoc|].
        rewrite filter_snoc, fkeyb_sym, Hag. fold F.
        rewrite firstn_all2 by (rewrite app_length; cbn; lia). rewrite skipn_all2 by (rewrite app_length; cbn; lia).
        rewrite HF. auto.
      * assert (Hm0 : In m' (l1 ++ m :: l2)) by (apply in_or_app; right; now right).
        destruct (Hcl m' Hm0) as (_ & Hc'). destruct Hc' as (g2 & Hh2 & Hrest). eapply Hkeep; [exact Hh2| |exists g2; auto].
        eapply other_key; try eassumption. apply in_or_app; now right.
    + replace (map (mkey c) (l1 ++ mol_add m f :: l2)) with (map (mkey c) (l1 ++ m :: l2)); [assumption|].
      rewrite !map_app. cbn [map]. f_equal. f_equal. unfold mkey. cbn [mol_add m_frags]. now rewrite (hd_error_snoc _ _ f Hh), Hh.
    + intros x Hx. apply in_app_or in Hx as [Hx|[<-|[]]].
      * destruct (Hcov _ Hx) as (m0 & g0 & Hm0 & Hh0 & Hk0). apply in_app_or in Hm0 as [Hm0|[<-|Hm0]].
        -- exists m0, g0. split; [apply in_or_app; now left|auto].
        -- exists (mol_add m f), g0. split; [apply in_or_app; right; now left|]. cbn [mol_add m_frags].
           split; [now apply hd_error_snoc|assumption].
        -- exists m0, g0. split; [apply in_or_app; right; now right|auto].
      * exists (mol_add m f), g. split; [apply in_or_app; right; now left|]. cbn [mol_add m_frags].
        split; [now apply hd_error_snoc|now rewrite fkeyb_sym].
  - (* overflow: the molecule is full, the fragment extends the refused part of its class *)
    assert (Hin : In m (l1 ++ m :: l2)) by (apply in_or_app; right; now left).
    destruct (Hacc m Hin) as (g & Hh & Hf & Ho & Hag). rewrite H1 in Hag. symmetry in Hag.
    set (F := filter (fkeyb c g) vf) in *.
    assert (Hlen : (K <= length F)%nat).
    { unfold full in H2. rewrite Hcap in H2. apply Z.leb_le in H2.
      assert (length (m_frags m) <= length F)%nat by (rewrite Hf; rewrite firstn_length; lia). unfold K. lia. }
    split; [|split].
    + intros m' Hm'. split; [now apply HXok|]. apply in_app_or in Hm' as [Hm'|[<-|Hm']].
      * assert (Hm0 : In m' (l1 ++ m :: l2)) by (apply in_or_app; now left).
        destruct (Hcl m' Hm0) as (_ & Hc'). destruct Hc' as (g2 & Hh2 & Hrest). eapply Hkeep; [exact Hh2| |exists g2; auto].
        eapply other_key; try eassumption. apply in_or_app; now left.
      * exists g. cbn [mol_bump m_frags m_ovf]. split; [assumption|].
        rewrite filter_snoc, fkeyb_sym, Hag. fold F. rewrite firstn_app, skipn_app.
        replace (K - length F)%nat with 0%nat by lia. cbn [firstn skipn]. rewrite app_nil_r. now rewrite <- Hf, <- Ho.
      * assert (Hm0 : In m' (l1 ++ m :: l2)) by (apply in_or_app; right; now right).
        destruct (Hcl m' Hm0) as (_ & Hc'). destruct Hc' as (g2 & Hh2 & Hrest). eapply Hkeep; [exact Hh2| |exists g2; auto].
        eapply other_key; try eassumption. apply in_or_app; now right.
    + replace (map (mkey c) (l1 ++ mol_bump m f :: l2)) with (map (mkey c) (l1 ++ m :: l2)); [assumption|].
      rewrite !map_app. reflexivity.
    + intros x Hx. apply in_app_or in Hx as [Hx|[<-|[]]].
      * destruct (Hcov _ Hx) as (m0 & g0 & Hm0 & Hh0 & Hk0). apply in_app_or in Hm0 as [Hm0|[<-|Hm0]].
        -- exists m0, g0. split; [apply in_or_app; now left|auto].
        -- exists (mol_bump m f), g0. split; [apply in_or_app; right; now left|auto].
        -- exists m0, g0. split; [apply in_or_app; right; now right|auto].
      * exists (mol_bump m f), g. split; [apply in_or_app; right; now left|]. split; [assumption|now rewrite fkeyb_sym].
  - (* new molecule: no class of f exists yet *)
    assert (Hrej : forall m g, In m (l1 ++ l2) -> hd_error (m_frags m) = Some g -> fkeyb c f g = false).
    { intros m g Hm Hh. destruct (Hacc m Hm) as (g' & Hh' & _ & _ & Hag). rewrite Hh in Hh'. inversion Hh'; subst g'.
      rewrite <- Hag. now apply H1. }
    assert (Hnone : filter (fkeyb c f) vf = []).
    { apply filter_none. intros x Hx. destruct (Hcov _ Hx) as (m & g & Hm & Hh & Hkx). apply fkeyb_false. intros Ek.
      apply fkeyb_eq in Hkx. specialize (Hrej m g Hm Hh). apply fkeyb_false in Hrej. congruence. }
    split; [|split].
    + intros m' Hm'. split; [now apply HXok|]. apply in_app_or in Hm' as [Hm'|[<-|Hm']].
      * assert (Hm0 : In m' (l1 ++ l2)) by (apply in_or_app; now left).
        destruct (Hcl m' Hm0) as (_ & Hc'). destruct Hc' as (g2 & Hh2 & Hrest). eapply Hkeep; [exact Hh2| |exists g2; auto].
        rewrite fkeyb_sym. eapply Hrej; eassumption.
      * exists f. cbn [mol_new m_frags m_ovf]. split; [reflexivity|]. rewrite filter_snoc, Hnone.
        assert (Hff : fkeyb c f f = true) by (unfold fkeyb; now rewrite !zs_eqb_refl). rewrite Hff. cbn [app].
        assert (HK : (1 <= K)%nat) by (unfold K; lia). destruct K as [|K']; [lia|]. cbn. now destruct K'.
      * assert (Hm0 : In m' (l1 ++ l2)) by (apply in_or_app; now right).
        destruct (Hcl m' Hm0) as (_ & Hc'). destruct Hc' as (g2 & Hh2 & Hrest). eapply Hkeep; [exact Hh2| |exists g2; auto].
        rewrite fkeyb_sym. eapply Hrej; eassumption.
    + rewrite map_app in *. cbn [map]. apply Permutation_NoDup with (mkey c (mol_new 0 f) :: map (mkey c) l1 ++ map (mkey c) l2).
      * apply Permutation_middle.
      * constructor; [|assumption]. rewrite <- map_app. intros Hin. apply in_map_iff in Hin as (m & Hkm & Hm).
        unfold mkey in Hkm. cbn [mol_new m_frags hd_error option_map] in Hkm.
        destruct (hd_error (m_frags m)) as [g|] eqn:Hh; [|discriminate]. cbn in Hkm. inversion Hkm as [Hk'].
        specialize (Hrej m g Hm Hh). apply fkeyb_false in Hrej. unfold fkey in Hrej. congruence.
    + intros x Hx. apply in_app_or in Hx as [Hx|[<-|[]]].
      * destruct (Hcov _ Hx) as (m0 & g0 & Hm0 & Hh0 & Hk0). exists m0, g0. split; [|auto].
        apply in_app_or in Hm0 as [?|?]; apply in_or_app; [now left|right; now right].
      * exists (mol_new 0 f), f. split; [apply in_or_app; right; now left|]. split; [reflexivity|].
        unfold fkeyb. now rewrite !zs_eqb_refl.
Qed.

Lemma capexact_fold c k frags : c_d c = 0 -> exact_site c -> c_cap c = Some k -> 1 <= k ->
  let st := fold_left (step c) frags st0 in
  capexact_inv c (Z.to_nat k) (filter f_valid frags) (all_mols (st_groups st)).
Proof.
  intros Hd He Hcap Hk.
  apply (run_inv c (fun pre X _ => capexact_inv c (Z.to_nat k) (filter f_valid pre) X)).
  - split; [intros m []|]. split; [constructor|intros x []].
  - intros pre X E f HX Hv. now rewrite filter_snoc, Hv, app_nil_r.
  - intros pre X E f X' e HX Hv Ht. rewrite filter_snoc, Hv. eapply capexact_step; eassumption.
Qed.

Lemma exact_cap_main c k frags out : c_d c = 0 -> exact_site c -> c_cap c = Some k -> 1 <= k -> assign c frags = Some out ->
  let ms := filter normal out in
  let vf := filter f_valid frags in
  (forall m, In m ms -> exists g, In g vf /\ m_frags m = firstn (Z.to_nat k) (filter (fkeyb c g) vf) /\
                                  m_ovf m = skipn (Z.to_nat k) (filter (fkeyb c g) vf) /\
                                  Z.of_nat (length (m_frags m)) + m_over m = Z.of_nat (length (filter (fkeyb c g) vf))) /\
  (forall x, In x vf -> exists m g, In m ms /\ hd_error (m_frags m) = Some g /\ fkeyb c g x = true) /\
  NoDup (map (mkey c) ms).
Proof.
  intros Hd He Hcap Hk H. cbn zeta.
  assert (Hb : cap_bad c = false) by (rewrite cap_bad_shape, Hcap; apply Z.leb_gt; lia).
  destruct (normal_parts _ _ _ H) as [(_ & ->)|(Hb' & _)]; [|congruence].
  destruct (capexact_fold c k frags Hd He Hcap Hk) as (Hcl & Hnd & Hcov).
  split; [|split]; try assumption.
  intros m Hm. destruct (Hcl m Hm) as (_ & g & Hh & Hf & Ho). exists g.
  assert (Hg : In g (m_frags m)) by (destruct (m_frags m); [discriminate|inversion Hh; now left]).
  split; [rewrite Hf in Hg; apply in_firstn in Hg; now apply filter_In in Hg|].
  split; [assumption|]. split; [assumption|]. unfold m_over. rewrite Hf at 1. rewrite Ho.
  rewrite <- Nat2Z.inj_add, <- app_length, firstn_skipn. reflexivity.
Qed.
