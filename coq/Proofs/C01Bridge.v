(* C01: the bridge between the theorems about the labelled trace of the model (Proofs/C01_b.v, C01_c.v) and the
   specification over observations (Proofs/C01Spec.v): the run of the model, observed the way the correspondence check
   observes the implementation (records per output file, each attributed to its input pair and strategy; returned
   counters), satisfies spec_C01 -- for every well-formed shape of the loop.  So what specb_C01 decides on the
   implementation's files is what the theorems establish for the model. *)
From Coq Require Import ZArith List Bool Lia Arith Sorted.
Import ListNotations.
From SCMO Require Import Lib.Val Lib.C01Shape Model.C01 Model.C01Spec Proofs.C01 Proofs.C01_b Proofs.C01_c Proofs.C01Spec.
Open Scope Z_scope.

(* ------------------------------------------------------------------ observing a trace *)
Definition ev_orec (e : event) : orec := mkOrec (Z.of_nat (e_pair e)) (Some (e_strat e)) (e_text e).
(* one write() of one record = one chunk of its file; a file is the concatenation of its chunks (recs_of) *)
Definition chunk (e : event) : ofile := mkOfile (e_target e) (e_cell e) (e_mate e) [ev_orec e].
Definition model_out (tr : list event) : list ofile := map chunk tr.

Definition model_obs (files : list (list str)) (res : result) : obs :=
  mkObs files (fastq_iter files) (model_out (res_trace res)) (res_processed res) (res_yields res) None.

Definition model_sconf (strats : list strategy) (cfg : config) (nm : nat) : sconf :=
  mkSconf (length strats) (c_rejects cfg) (Nat.min (c_nh cfg) nm) (c_max cfg).

Definition on_sink (t : bool) (m : nat) (e : event) : bool := Bool.eqb (e_target e) t && Nat.eqb (e_mate e) m.

Lemma recs_of_model tr t cell m : recs_of (model_out tr) t cell m = map ev_orec (file_events tr t cell m).
Proof.
  unfold recs_of, model_out, file_events. induction tr as [|e tr IH]; [reflexivity|].
  cbn [map filter]. change (at_file t cell m (chunk e)) with (in_file t cell m e).
  destruct (in_file t cell m e); cbn [map concat f_recs chunk app]; now rewrite IH.
Qed.

Lemma recs_at_model tr t m : recs_at (model_out tr) t m = map ev_orec (filter (on_sink t m) tr).
Proof.
  unfold recs_at, model_out. induction tr as [|e tr IH]; [reflexivity|].
  cbn [map filter]. change (at_sink t m (chunk e)) with (on_sink t m e).
  destruct (on_sink t m e); cbn [map concat f_recs chunk app]; now rewrite IH.
Qed.

Lemma filter_map {A B} (g : A -> B) (P : B -> bool) (l : list A) :
  filter P (map g l) = map g (filter (fun x => P (g x)) l).
Proof. induction l as [|x l IH]; [reflexivity|]. cbn [map filter]. destruct (P (g x)); cbn [map]; now rewrite IH. Qed.

Lemma filter_comm {A} (f g : A -> bool) (l : list A) : filter f (filter g l) = filter g (filter f l).
Proof. rewrite !filter_filter. apply filter_ext. intros x. apply andb_comm. Qed.

Lemma filter_compl_length {A} (g : A -> bool) (l : list A) :
  (length (filter g l) + length (filter (fun x => negb (g x)) l) = length l)%nat.
Proof. induction l as [|x l IH]; [reflexivity|]. cbn [filter]. destruct (g x); cbn [negb length]; lia. Qed.

Lemma filter_length_le {A} (g : A -> bool) (l : list A) : (length (filter g l) <= length l)%nat.
Proof. induction l as [|x l IH]; [reflexivity|]. cbn [filter]. destruct (g x); cbn [length]; lia. Qed.

Lemma from_pair_ev p e : from_pair (Z.of_nat p) (ev_orec e) = Nat.eqb (e_pair e) p.
Proof.
  unfold from_pair, ev_orec. cbn [o_pair].
  destruct (Nat.eqb (e_pair e) p) eqn:E.
  - apply Nat.eqb_eq in E. subst. apply Z.eqb_refl.
  - apply Nat.eqb_neq in E. apply Z.eqb_neq. lia.
Qed.

(* ------------------------------------------------------------------ newline-free text *)
Definition nl_free (s : str) : Prop := ~ In NLc s.
Definition read_nlfree (r : read) : Prop :=
  nl_free (r_header r) /\ nl_free (r_seq r) /\ nl_free (r_plus r) /\ nl_free (r_qual r).

Lemma lines_app s t : nl_free s -> lines (s ++ NLc :: t) = s :: lines t.
Proof.
  unfold nl_free. induction s as [|c s IH]; intros H.
  - cbn [app lines]. now rewrite Z.eqb_refl.
  - cbn [app lines]. destruct (c =? NLc) eqn:E.
    + apply Z.eqb_eq in E. subst. exfalso. apply H. now left.
    + rewrite IH; [reflexivity|]. intros Hin. apply H. now right.
Qed.

Lemma lines_fastq h s pl q : nl_free h -> nl_free s -> nl_free pl -> nl_free q ->
  lines (fastq_text h s pl q) = [h; s; pl; q; []].
Proof.
  intros Hh Hs Hp Hq. unfold fastq_text. change NL with NLc.
  rewrite (lines_app h) by assumption. rewrite (lines_app s) by assumption. rewrite (lines_app pl) by assumption.
  change (q ++ [NLc]) with (q ++ NLc :: []). rewrite (lines_app q) by assumption. reflexivity.
Qed.

Lemma nl_free_app a b : nl_free a -> nl_free b -> nl_free (a ++ b).
Proof. unfold nl_free. intros Ha Hb H. apply in_app_or in H. tauto. Qed.

Lemma in_dropwhile {A} (f : A -> bool) x : forall l, In x (dropwhile f l) -> In x l.
Proof. induction l as [|y l IH]; cbn [dropwhile]; [auto|]. destruct (f y); [intros H; right; auto|auto]. Qed.

Lemma nl_free_rstrip s : nl_free s -> nl_free (rstrip s).
Proof. unfold nl_free, rstrip. intros H Hin. apply H. apply in_rev in Hin. apply in_dropwhile in Hin. now apply in_rev. Qed.

Lemma nl_free_nil : nl_free [].
Proof. intros []. Qed.

Lemma line_at_nlfree k ls : Forall nl_free ls -> nl_free (line_at k ls).
Proof.
  intros H. unfold line_at. apply nl_free_rstrip.
  destruct (Nat.lt_ge_cases k (length ls)) as [Hk|Hk].
  - rewrite Forall_forall in H. apply H. now apply nth_In.
  - rewrite nth_overflow by assumption. apply nl_free_nil.
Qed.

Lemma Forall_skipn {A} (P : A -> Prop) k : forall l, Forall P l -> Forall P (skipn k l).
Proof.
  induction k as [|k IH]; intros l H; [assumption|]. destruct l as [|x l]; [constructor|].
  cbn [skipn]. apply IH. now inversion H.
Qed.

(* every record the reader yields is newline-free when the lines of the files are *)
Lemma reader_nlfree files : files <> [] -> Forall (Forall nl_free) files ->
  forall p r, In p (fastq_iter files) -> In r p -> read_nlfree r.
Proof.
  intros Hne Hnl p r Hp Hr. destruct (stop_rule files Hne) as [H1 _].
  destruct (In_nth _ _ [] Hp) as (k & Hk & Hnth). destruct (H1 k Hk) as [Hrow _].
  assert (Ep : p = row k files) by (rewrite <- Hnth; exact Hrow). rewrite Ep in Hr. unfold row in Hr. apply in_map_iff in Hr. destruct Hr as (ls & <- & Hls).
  rewrite Forall_forall in Hnl. specialize (Hnl ls Hls).
  unfold record_at, read_record, read_nlfree. cbn [r_header r_seq r_plus r_qual].
  pose proof (Forall_skipn nl_free (4 * k) ls Hnl) as Hs.
  repeat split; now apply line_at_nlfree.
Qed.

Lemma contains_tagR why h : contains (tagRR ++ why) h -> contains tagR h.
Proof.
  intros (a & b & ->). exists (a ++ [59]), (why ++ b). unfold tagRR, tagR. rewrite <- !app_assoc. reflexivity.
Qed.

(* ------------------------------------------------------------------ the loader, observed *)
Section Bridge.
  Variable sh : shape.
  Variable strats : list strategy.
  Variable rejhdr : read -> str -> hout.
  Variable cfg : config.
  Hypothesis wf : wf_shape sh = true.

  (* contracts of the parameters: a formatted reject header carries the reason tag; headers and reasons hold no newline *)
  Hypothesis rejhdr_ok : forall r reason h, rejhdr r reason = HOk h ->
    contains (tagRR ++ reason) h /\ (read_nlfree r -> nl_free reason -> nl_free h).
  Hypothesis rejhdr_why : forall r reason why, rejhdr r reason = HNonMux why -> nl_free why.
  Hypothesis reasons_nl : forall f r why, In f strats -> (f r = Reject why \/ f r = Raise why) -> nl_free why.

  (* a reject record, with its header newline-free *)
  Definition reject_ok2 (r : read) (text : str) : Prop :=
    exists h, text = fastq_text h (r_seq r) (r_plus r) (r_qual r) /\ contains tagR h /\ nl_free h.

  Lemma base_headers_ok2 reason : nl_free reason -> forall reads hs, Forall read_nlfree reads ->
    base_headers rejhdr reads reason = HsOk hs ->
    Forall2 (fun r h => contains tagR h /\ nl_free h) reads hs.
  Proof.
    intros Hre. induction reads as [|r rest IH]; intros hs Hnl H; cbn [base_headers] in H.
    - inversion H. constructor.
    - destruct (rejhdr r reason) as [h| |] eqn:Hh; try discriminate.
      destruct (base_headers rejhdr rest reason) as [hs'| |] eqn:Hb; try discriminate.
      inversion H; subst. inversion Hnl; subst. destruct (rejhdr_ok _ _ _ Hh) as [Hc Hn].
      constructor; [split; [now apply contains_tagR in Hc|now apply Hn]|]. now apply IH.
  Qed.

  Lemma base_headers_why reason : forall reads why, base_headers rejhdr reads reason = HsNonMux why -> nl_free why.
  Proof.
    induction reads as [|r rest IH]; intros why H; cbn [base_headers] in H; [discriminate|].
    destruct (rejhdr r reason) as [h|w|] eqn:Hh; try discriminate.
    - destruct (base_headers rejhdr rest reason) as [hs'|w|] eqn:Hb; try discriminate.
      inversion H; subst. now apply IH.
    - inversion H; subst. now apply rejhdr_why in Hh.
  Qed.

  Lemma nl_free_tag (t : str) : t = tagRR \/ t = tagRr -> nl_free t.
  Proof. intros [->| ->]; intros H; cbn in H; repeat (destruct H as [H|H]; [discriminate|]); destruct H. Qed.

  Lemma raw_ok2 suffix why r : read_nlfree r -> suffix = tagRR ++ why -> nl_free why -> reject_ok2 r (raw_text suffix r).
  Proof.
    intros (Hh & _) -> Hw. exists (r_header r ++ tagRR ++ why). split; [reflexivity|]. split.
    - apply (contains_tagR why). exists (r_header r), []. now rewrite app_nil_r.
    - apply nl_free_app; [assumption|]. apply nl_free_app; [apply nl_free_tag; now left|assumption].
  Qed.

  Lemma reject_texts_ok2 reads reason ts : Forall read_nlfree reads -> nl_free reason ->
    reject_texts rejhdr reads reason = RTexts ts -> Forall2 reject_ok2 reads ts.
  Proof.
    intros Hnl Hre. unfold reject_texts.
    destruct (base_headers rejhdr reads reason) as [hs|why|] eqn:Hb; intros H; inversion H; subst; clear H.
    - apply (base_headers_ok2 reason Hre) in Hb; [|assumption].
      induction Hb as [|r h reads hs [Hc Hn] Hrest IH]; cbn [combine map]; [constructor|].
      inversion Hnl; subst. constructor; [|now apply IH].
      exists (64 :: h). split; [reflexivity|]. split.
      + destruct Hc as (a & b & ->). exists (64 :: a), b. reflexivity.
      + intros [E|Hin]; [discriminate|]. now apply Hn.
    - apply base_headers_why in Hb.
      induction reads as [|r rest IH]; cbn [map]; [constructor|]. inversion Hnl; subst. constructor; [|now apply IH].
      replace (tagRR ++ reason ++ tagRr ++ why) with (tagRR ++ (reason ++ tagRr ++ why)) by reflexivity.
      apply (raw_ok2 _ (reason ++ tagRr ++ why)); [assumption|reflexivity|].
      apply nl_free_app; [assumption|]. apply nl_free_app; [apply nl_free_tag; now right|assumption].
  Qed.

  Lemma generic_texts_ok2 reads kind : Forall read_nlfree reads -> nl_free kind ->
    Forall2 reject_ok2 reads (generic_texts reads kind).
  Proof.
    intros Hnl Hk. unfold generic_texts. induction reads as [|r rest IH]; cbn [map]; [constructor|].
    inversion Hnl; subst. constructor; [|now apply IH]. now apply (raw_ok2 _ kind).
  Qed.

  Lemma in_write_reject p j e : forall ts, In e (write_reject cfg p j ts) ->
    exists text, nth_error ts (e_mate e) = Some text /\ e_text e = text /\ e_target e = false.
  Proof.
    unfold write_reject. intros ts H. apply in_map_iff in H. destruct H as ([m text] & <- & Hin). cbn.
    exists text. split; [|auto].
    assert (G : forall a n (l : list str), In (m, text) (combine (seq a n) l) -> nth_error l (m - a) = Some text /\ (a <= m)%nat).
    { intros a n. revert a. induction n as [|n IHn]; intros a l Hl; [destruct Hl|].
      destruct l as [|x l]; [destruct Hl|]. cbn [seq combine] in Hl. destruct Hl as [Hl|Hl].
      - inversion Hl; subst. rewrite Nat.sub_diag. split; [reflexivity|lia].
      - destruct (IHn (S a) l Hl) as [H1 H2]. split; [|lia].
        replace (m - a)%nat with (S (m - S a)) by lia. exact H1. }
    destruct (G 0%nat (c_nh cfg) ts Hin) as [G1 _]. now rewrite Nat.sub_0_r in G1.
  Qed.

  Lemma Forall2_nth_error {A B} (R : A -> B -> Prop) : forall l1 l2 k y, Forall2 R l1 l2 -> nth_error l2 k = Some y ->
    exists x, nth_error l1 k = Some x /\ R x y.
  Proof.
    intros l1 l2 k y H. revert k. induction H as [|a b l1 l2 Hab Hrest IH]; intros k Hk; [destruct k; discriminate|].
    destruct k as [|k]; cbn in *; [inversion Hk; subst; eauto|auto].
  Qed.

  (* every reject event of a well-formed step repeats its input record *)
  Lemma step_reject_event p reads j f e : In f strats -> Forall read_nlfree reads -> step_ok cfg reads f ->
    In e (step_events rejhdr cfg p reads j f) -> e_target e = false ->
    exists orig, nth_error reads (e_mate e) = Some orig /\ reject_ok2 orig (e_text e).
  Proof.
    intros Hf Hnl Hok Hin Ht. unfold step_events, step_ok in *.
    destruct (f reads) as [recs|reason|kind] eqn:Hout.
    - destruct Hok as [_ Hall]. rewrite (ok_prefix_all _ Hall) in Hin.
      apply write_target_labels in Hin. destruct Hin as (_ & _ & Hin). congruence.
    - destruct (c_rejects cfg); [|destruct Hin].
      destruct (reject_texts rejhdr reads reason) as [ts|] eqn:Hts; [|destruct Hin].
      destruct (in_write_reject p j e ts Hin) as (text & Hn & <- & _).
      apply (reject_texts_ok2 reads reason ts Hnl) in Hts; [|apply (reasons_nl f reads reason Hf); now left].
      destruct (Forall2_nth_error _ _ _ _ _ Hts Hn) as (orig & Ho & Hr). eauto.
    - destruct (c_rejects cfg); [|destruct Hin].
      destruct (in_write_reject p j e _ Hin) as (text & Hn & <- & _).
      pose proof (generic_texts_ok2 reads kind Hnl (reasons_nl f reads kind Hf (or_intror Hout))) as Hts.
      destruct (Forall2_nth_error _ _ _ _ _ Hts Hn) as (orig & Ho & Hr). eauto.
  Qed.

  (* ---------------- the events of one pair *)
  Lemma filter_pair_pairs p : forall pairs p0,
    filter (fun e => Nat.eqb (e_pair e) p) (pairs_from strats rejhdr cfg p0 pairs) =
    if (p0 <=? p)%nat && (p <? p0 + length pairs)%nat
    then steps_from rejhdr cfg p (nth (p - p0) pairs []) 0 strats else [].
  Proof.
    induction pairs as [|r rest IH]; intros p0.
    - cbn [pairs_from filter length]. rewrite Nat.add_0_r.
      destruct (p0 <=? p)%nat eqn:H1, (p <? p0)%nat eqn:H2; cbn [andb]; try reflexivity.
      apply Nat.leb_le in H1. apply Nat.ltb_lt in H2. lia.
    - cbn [pairs_from]. rewrite filter_app, IH. cbn [length].
      destruct (Nat.eqb p0 p) eqn:Hp.
      + apply Nat.eqb_eq in Hp. subst p0.
        rewrite filter_all.
        2:{ intros e He. apply steps_from_labels in He. destruct He as [-> _]. apply Nat.eqb_refl. }
        assert (H1 : (p <=? p)%nat = true) by (apply Nat.leb_le; lia).
        assert (H2 : (p <? p + S (length rest))%nat = true) by (apply Nat.ltb_lt; lia).
        assert (H3 : (S p <=? p)%nat = false) by (apply Nat.leb_gt; lia).
        rewrite H1, H2, H3, Nat.sub_diag. cbn [andb nth]. now rewrite app_nil_r.
      + apply Nat.eqb_neq in Hp.
        rewrite filter_nil_forall.
        2:{ intros e He. apply steps_from_labels in He. destruct He as [-> _]. now apply Nat.eqb_neq. }
        cbn [app].
        destruct (S p0 <=? p)%nat eqn:H1.
        * apply Nat.leb_le in H1.
          assert (H1' : (p0 <=? p)%nat = true) by (apply Nat.leb_le; lia). rewrite H1'.
          replace (p - p0)%nat with (S (p - S p0)) by lia. cbn [nth].
          replace (p0 + S (length rest))%nat with (S p0 + length rest)%nat by lia. reflexivity.
        * apply Nat.leb_gt in H1. assert (H1' : (p0 <=? p)%nat = false) by (apply Nat.leb_gt; lia).
          now rewrite H1'.
  Qed.

  Definition good_step (r : pair) (f : strategy) : Prop := step_ok cfg r f /\ step_crash rejhdr cfg r f = false.

  (* number of records one pair puts into mate file 0 of a sink = number of strategies that send it there *)
  Lemma steps_sink_count (t : bool) p r : (0 < width cfg t)%nat -> forall ss j0, (forall f, In f ss -> good_step r f) ->
    length (filter (on_sink t 0) (steps_from rejhdr cfg p r j0 ss)) =
    length (filter (fun f => Bool.eqb t (is_accept cfg (f r)) && (t || c_rejects cfg)) ss).
  Proof.
    intros Hw. induction ss as [|f ss IH]; intros j0 Hall; [reflexivity|].
    cbn [steps_from filter]. rewrite filter_app, app_length, IH by (intros f' Hf'; apply Hall; now right).
    destruct (Hall f (or_introl eq_refl)) as [Hok Hcr].
    unfold on_sink. rewrite (step_count rejhdr cfg t p r j0 f 0%nat Hok Hcr) by (unfold width in Hw; destruct t; assumption).
    destruct (Bool.eqb t (is_accept cfg (f r)) && (t || c_rejects cfg)); cbn [length]; lia.
  Qed.

  (* the strategy labels of the demultiplexed records of one pair are distinct *)
  Lemma steps_strat_nodup p r : (0 < target_width cfg)%nat -> forall ss j0, (forall f, In f ss -> good_step r f) ->
    NoDup (map e_strat (filter (on_sink true 0) (steps_from rejhdr cfg p r j0 ss))).
  Proof.
    intros Hw. induction ss as [|f ss IH]; intros j0 Hall; [constructor|].
    cbn [steps_from]. rewrite filter_app, map_app.
    destruct (Hall f (or_introl eq_refl)) as [Hok Hcr].
    pose proof (step_count rejhdr cfg true p r j0 f 0%nat Hok Hcr Hw) as Hc. fold (on_sink true 0) in Hc.
    assert (Hrest : forall x, In x (map e_strat (filter (on_sink true 0) (steps_from rejhdr cfg p r (S j0) ss))) -> (j0 < x)%nat).
    { intros x Hx. apply in_map_iff in Hx. destruct Hx as (e & <- & He). apply filter_In in He. destruct He as [He _].
      apply steps_from_labels in He. lia. }
    destruct (filter (on_sink true 0) (step_events rejhdr cfg p r j0 f)) as [|e [|e2 l]] eqn:El.
    - cbn [map app]. apply IH. intros f' Hf'. apply Hall. now right.
    - cbn [map app]. constructor; [|apply IH; intros f' Hf'; apply Hall; now right].
      assert (He : In e (step_events rejhdr cfg p r j0 f)).
      { assert (In e (filter (on_sink true 0) (step_events rejhdr cfg p r j0 f))) by (rewrite El; now left).
        apply filter_In in H. tauto. }
      apply step_events_labels in He. destruct He as [_ ->]. intros Hin. apply Hrest in Hin. lia.
    - cbn [length] in Hc. destruct (Bool.eqb true (is_accept cfg (f r)) && (true || c_rejects cfg)); discriminate.
  Qed.

  (* ---------------- the yield counters add up to the demultiplexed R1 records *)
  Lemma sumZ_bump : forall ys j, (j < length ys)%nat -> sumZ (bump j ys) = sumZ ys + 1.
  Proof.
    induction ys as [|y ys IH]; intros j Hj; [cbn in Hj; lia|].
    destruct j as [|j]; cbn [bump sumZ fold_right].
    - fold (sumZ ys). lia.
    - fold (sumZ (bump j ys)). fold (sumZ ys). rewrite IH by (cbn [length] in Hj; lia). lia.
  Qed.

  Lemma sumZ_yields_from r : forall ss j0 ys, (j0 + length ss <= length ys)%nat ->
    sumZ (yields_from cfg r j0 ss ys) = sumZ ys + Z.of_nat (length (filter (fun f => is_accept cfg (f r)) ss)).
  Proof.
    induction ss as [|f ss IH]; intros j0 ys Hlen; cbn [yields_from filter length]; [lia|].
    cbn [length] in Hlen. destruct (is_accept cfg (f r)).
    - rewrite IH by (rewrite bump_length; lia). rewrite sumZ_bump by lia. cbn [length]. lia.
    - rewrite IH by lia. reflexivity.
  Qed.

  Lemma sumZ_yields_pairs : (0 < target_width cfg)%nat -> forall pairs p0 ys, (length strats <= length ys)%nat ->
    (forall r f, In r pairs -> In f strats -> good_step r f) ->
    sumZ (yields_pairs strats cfg pairs ys) =
    sumZ ys + Z.of_nat (length (filter (on_sink true 0) (pairs_from strats rejhdr cfg p0 pairs))).
  Proof.
    intros Hw. unfold yields_pairs. induction pairs as [|r rest IH]; intros p0 ys Hlen Hall; cbn [fold_left pairs_from filter length]; [lia|].
    rewrite (IH (S p0)); [|rewrite yields_from_length; lia|intros r' f Hr' Hf; apply Hall; [now right|assumption]].
    rewrite sumZ_yields_from by (cbn [Nat.add]; lia).
    rewrite filter_app, app_length.
    rewrite (steps_sink_count true p0 r Hw strats 0%nat) by (intros f Hf; apply Hall; [now left|assumption]).
    rewrite (filter_ext (fun f => Bool.eqb true (is_accept cfg (f r)) && (true || c_rejects cfg)) (fun f => is_accept cfg (f r))).
    2:{ intros f. destruct (is_accept cfg (f r)); reflexivity. }
    lia.
  Qed.

  Lemma sumZ_repeat0 k : sumZ (repeat 0 k) = 0.
  Proof. induction k as [|k IH]; [reflexivity|]. cbn [repeat sumZ fold_right]. fold (sumZ (repeat 0 k)). lia. Qed.

  Lemma ssorted_pairs (l : list event) : StronglySorted ev_le l -> Sorted Z.le (map (fun e => Z.of_nat (e_pair e)) l).
  Proof.
    induction 1 as [|a l Hs IH Hf]; cbn [map]; constructor; [assumption|].
    destruct l as [|b l]; cbn [map]; constructor.
    inversion Hf as [|? ? Hab _]; subst. unfold ev_le in Hab. lia.
  Qed.

  (* ---------------- the run of the model satisfies the specification *)
  Theorem model_satisfies_spec files :
    files <> [] -> Forall (Forall nl_free) files -> (0 < c_nh cfg)%nat ->
    let pairs := fastq_iter files in
    let res := demultiplex sh strats rejhdr cfg files in
    res_crashed res = false ->
    (forall r f, In r (consumed sh cfg pairs) -> In f strats -> step_ok2 cfg r f) ->
    spec_C01 (model_sconf strats cfg (length files)) (model_obs files res).
  Proof.
    intros Hne Hnl Hnh pairs res Hc Hok. unfold demultiplex in res. fold pairs in res.
    destruct (loader_decl sh strats rejhdr cfg wf pairs Hc) as (Hex & Htr & Hys & Hpr).
    fold res in Htr, Hys, Hpr.
    assert (Htw : (0 < target_width cfg)%nat) by (unfold target_width; destruct (c_sc cfg); lia).
    assert (Hgood : forall r f, In r (consumed sh cfg pairs) -> In f strats -> good_step r f).
    { intros r f Hr Hf. split; [apply (Hok r f Hr Hf)|].
      destruct (step_crash rejhdr cfg r f) eqn:Hsc; [|reflexivity].
      assert (existsb (pair_crash strats rejhdr cfg) (consumed sh cfg pairs) = true).
      { apply existsb_exists. exists r. split; [assumption|]. unfold pair_crash. apply existsb_exists. eauto. }
      congruence. }
    assert (Hlab : forall e, In e (res_trace res) -> (e_pair e < length (consumed sh cfg pairs))%nat /\ (e_strat e < length strats)%nat).
    { intros e He. rewrite Htr in He. apply pairs_from_labels in He. lia. }
    assert (Hcons : forall p, (p < length (consumed sh cfg pairs))%nat ->
                    In (nth p pairs []) (consumed sh cfg pairs) /\ (p < length pairs)%nat).
    { intros p Hp. destruct (nth_consumed sh cfg pairs p Hp) as [E Hl]. split; [|assumption]. rewrite <- E. now apply nth_In. }
    (* records of pair p in mate file 0 of a sink *)
    assert (Hcount : forall (t : bool) p, (p < length (consumed sh cfg pairs))%nat ->
              count_pair (Z.of_nat p) (recs_at (model_out (res_trace res)) t 0) =
              length (filter (fun f => Bool.eqb t (is_accept cfg (f (nth p pairs []))) && (t || c_rejects cfg)) strats)).
    { intros t p Hp. unfold count_pair. rewrite recs_at_model, filter_map, map_length.
      rewrite (filter_ext _ (fun e => Nat.eqb (e_pair e) p)) by (intros e; apply from_pair_ev).
      rewrite filter_comm, Htr, filter_pair_pairs. cbn [Nat.leb Nat.add andb]. rewrite Nat.sub_0_r.
      apply Nat.ltb_lt in Hp. rewrite Hp. apply Nat.ltb_lt in Hp.
      destruct (nth_consumed sh cfg pairs p Hp) as [-> _].
      apply steps_sink_count; [unfold width; destruct t; assumption|].
      intros f Hf. apply Hgood; [apply Hcons; assumption|assumption]. }
    unfold spec_C01, model_obs, model_sconf.
    repeat match goal with |- _ /\ _ => split end.
    - (* stop *) unfold stop_P. cbn [ob_pairs ob_in]. destruct (stop_rule files Hne) as [S1 S2].
      split; [intros k Hk; now apply (S1 k Hk)|exact S2].
    - (* reader *) unfold reader_P. cbn [ob_pairs ob_in]. intros k Hk. now apply (stop_rule files Hne).
    - (* processed *) unfold processed_P. cbn [ob_pairs ob_processed s_max].
      destruct (processed_spec sh strats rejhdr cfg wf pairs Hc) as (_ & Hf & _). fold res in Hf. fold pairs.
      rewrite Hf. unfold min_consumed. destruct pairs as [|p0 rest]; [cbn [length]; repeat split; try lia; intros m Hm; lia|].
      destruct (c_max cfg) as [m|].
      + repeat split; try lia.
        * destruct (sh_strat_before_test sh); lia.
        * intros Hlt. exists m. split; [reflexivity|]. destruct (sh_strat_before_test sh); lia.
        * intros m' Hm. inversion Hm; subst. destruct (sh_strat_before_test sh); lia.
      + repeat split; try lia. intros m Hm. discriminate.
    - (* order *) unfold order_P. cbn [ob_out]. intros t cell. rewrite recs_of_model, map_map. cbn [o_pair ev_orec].
      apply ssorted_pairs. apply (file_sorted sh strats rejhdr cfg wf pairs t cell 0%nat Hc).
    - (* sync *) unfold sync_P. cbn [ob_out s_width]. intros Hw t cell. rewrite !recs_of_model, !map_map. cbn [o_pair ev_orec].
      assert (Hnh2 : (2 <= c_nh cfg)%nat) by lia.
      assert (Hw2 : (2 <= width cfg t)%nat) by (unfold width, target_width; destruct t; [destruct (c_sc cfg)|]; lia).
      pose proof (mate_sync sh strats rejhdr cfg wf pairs t cell 0%nat 1%nat Hc Hok) as Hs.
      fold res in Hs. specialize (Hs ltac:(lia) ltac:(lia)).
      apply (f_equal (map (fun l => Z.of_nat (fst l)))) in Hs. rewrite !map_map in Hs. exact Hs.
    - (* beyond *) unfold beyond_P. cbn [ob_out ob_processed]. intros r Hr. rewrite !recs_at_model, <- map_app in Hr.
      apply in_map_iff in Hr. destruct Hr as (e & <- & He). cbn [o_pair ev_orec]. rewrite Hpr.
      assert (In e (res_trace res)) by (apply in_app_or in He; destruct He as [He|He]; apply filter_In in He; tauto).
      apply Hlab in H. lia.
    - (* partition *) unfold partition_P. cbn [ob_out ob_processed s_rejects s_ns]. rewrite Hpr. intros u Hu.
      assert (Hp : (Z.to_nat u < length (consumed sh cfg pairs))%nat) by lia.
      replace u with (Z.of_nat (Z.to_nat u)) by lia.
      rewrite (Hcount true _ Hp), (Hcount false _ Hp).
      destruct (c_rejects cfg).
      + etransitivity; [|apply (filter_compl_length (fun f : strategy => is_accept cfg (f (nth (Z.to_nat u) pairs []))) strats)]. f_equal.
        * apply f_equal, filter_ext. intros f. now destruct (is_accept cfg (f _)).
        * apply f_equal, filter_ext. intros f. now destruct (is_accept cfg (f _)).
      + split; [|apply filter_length_le].
        rewrite filter_nil_forall; [reflexivity|]. intros f _. now destruct (is_accept cfg (f _)).
    - (* twice *) unfold twice_P. cbn [ob_out]. intros u. rewrite recs_at_model, filter_map.
      destruct (Z_lt_ge_dec u 0) as [Hneg|Hpos].
      + rewrite filter_nil_forall; [constructor|]. intros e _. unfold from_pair, ev_orec. cbn [o_pair]. apply Z.eqb_neq. lia.
      + replace u with (Z.of_nat (Z.to_nat u)) by lia. set (p := Z.to_nat u).
        rewrite (filter_ext _ (fun e => Nat.eqb (e_pair e) p)) by (intros e; apply from_pair_ev).
        rewrite filter_comm, Htr, filter_pair_pairs. cbn [Nat.leb Nat.add andb]. rewrite Nat.sub_0_r.
        destruct (p <? length (consumed sh cfg pairs))%nat eqn:Hp; [|constructor].
        apply Nat.ltb_lt in Hp. destruct (nth_consumed sh cfg pairs p Hp) as [-> _].
        rewrite map_map.
        assert (E : map (fun x => o_strat (ev_orec x)) (filter (on_sink true 0) (steps_from rejhdr cfg p (nth p pairs []) 0 strats))
                    = map Some (map e_strat (filter (on_sink true 0) (steps_from rejhdr cfg p (nth p pairs []) 0 strats))))
          by (rewrite map_map; reflexivity).
        rewrite E.
        assert (S : forall l : list nat, somes (map Some l) = l) by (induction l as [|x l IHl]; cbn; [reflexivity|now rewrite IHl]).
        rewrite S. apply steps_strat_nodup; [assumption|]. intros f Hf. apply Hgood; [apply Hcons; assumption|assumption].
    - (* reject content *) unfold reject_content_P. cbn [ob_out ob_pairs]. intros f r Hf Ht Hr Hin.
      apply in_map_iff in Hf. destruct Hf as (e & <- & He). cbn [chunk f_target f_recs f_mate] in *.
      destruct Hr as [<-|[]]. cbn [o_pair ev_orec o_text] in *.
      destruct (Hlab e He) as [Hp Hj].
      assert (Hev : In e (step_events rejhdr cfg (e_pair e) (nth (e_pair e) pairs []) (e_strat e) (nth (e_strat e) strats dflt))).
      { pose proof (partition_events sh strats rejhdr cfg wf pairs (e_pair e) (e_strat e) Hc) as Hpe. fold res in Hpe.
        apply Nat.ltb_lt in Hp. apply Nat.ltb_lt in Hj. rewrite Hp, Hj in Hpe. cbn [andb] in Hpe. rewrite <- Hpe.
        apply filter_In. split; [assumption|]. unfold lab_eqb. now rewrite !Nat.eqb_refl. }
      assert (Hrn : Forall read_nlfree (nth (e_pair e) pairs [])).
      { apply Forall_forall. intros x Hx. apply (reader_nlfree files Hne Hnl (nth (e_pair e) pairs []) x); [|assumption].
        apply nth_In. apply Hcons. assumption. }
      destruct (step_reject_event _ _ _ _ e (nth_In strats dflt Hj) Hrn
                  (proj1 (Hok _ _ (proj1 (Hcons _ Hp)) (nth_In strats dflt Hj))) Hev Ht) as (orig & Ho & (h & Htext & _ & Hh)).
      exists orig, h, (r_plus orig). unfold original. cbn [ob_pairs o_pair f_mate ev_orec chunk]. rewrite Nat2Z.id. fold pairs. split; [exact Ho|].
      rewrite Htext.
      assert (Hon : read_nlfree orig) by (rewrite Forall_forall in Hrn; apply Hrn; now apply nth_error_In in Ho).
      destruct Hon as (_ & H2 & H3 & H4). now apply lines_fastq.
    - (* reject reason *) unfold reject_reason_P. cbn [ob_out ob_pairs]. intros f r Hf Ht Hr Hin.
      apply in_map_iff in Hf. destruct Hf as (e & <- & He). cbn [chunk f_target f_recs f_mate] in *.
      destruct Hr as [<-|[]]. cbn [o_pair ev_orec o_text] in *.
      destruct (Hlab e He) as [Hp Hj].
      assert (Hev : In e (step_events rejhdr cfg (e_pair e) (nth (e_pair e) pairs []) (e_strat e) (nth (e_strat e) strats dflt))).
      { pose proof (partition_events sh strats rejhdr cfg wf pairs (e_pair e) (e_strat e) Hc) as Hpe. fold res in Hpe.
        apply Nat.ltb_lt in Hp. apply Nat.ltb_lt in Hj. rewrite Hp, Hj in Hpe. cbn [andb] in Hpe. rewrite <- Hpe.
        apply filter_In. split; [assumption|]. unfold lab_eqb. now rewrite !Nat.eqb_refl. }
      assert (Hrn : Forall read_nlfree (nth (e_pair e) pairs [])).
      { apply Forall_forall. intros x Hx. apply (reader_nlfree files Hne Hnl (nth (e_pair e) pairs []) x); [|assumption].
        apply nth_In. apply Hcons. assumption. }
      destruct (step_reject_event _ _ _ _ e (nth_In strats dflt Hj) Hrn
                  (proj1 (Hok _ _ (proj1 (Hcons _ Hp)) (nth_In strats dflt Hj))) Hev Ht) as (orig & Ho & (h & Htext & Hct & Hh)).
      rewrite Htext.
      assert (Hon : read_nlfree orig) by (rewrite Forall_forall in Hrn; apply Hrn; now apply nth_error_In in Ho).
      destruct Hon as (_ & H2 & H3 & H4). rewrite lines_fastq by assumption. exact Hct.
    - (* yields *) unfold yields_P. cbn [ob_out ob_yields s_ns]. split.
      + rewrite Hys, recs_at_model, map_length, Htr.
        rewrite (sumZ_yields_pairs Htw (consumed sh cfg pairs) 0%nat) by (rewrite ?repeat_length; auto).
        rewrite sumZ_repeat0. lia.
      + intros j Hj _. unfold res.
        rewrite (counters_written sh strats rejhdr cfg wf pairs j Hc Hj Htw) by (intros r Hr; apply Hok; [assumption|now apply nth_In]).
        f_equal. unfold count_strat. rewrite recs_at_model, filter_map, map_length, filter_filter.
        f_equal. apply filter_ext. intros e. unfold by_strat, ev_orec, written_by, on_sink. cbn [o_strat].
        now rewrite andb_comm.
    - (* log *) unfold log_P. cbn [ob_log]. intros lp lys E. discriminate.
  Qed.
End Bridge.

(* ------------------------------------------------------------------ non-vacuity: a library of three pairs (accepted /
   rejected / the strategy raises) read from two mate files satisfies every hypothesis of model_satisfies_spec *)
Definition bx_strat : strategy := fun p =>
  match p with
  | r1 :: r2 :: _ =>
      if hd 0 (r_seq r1) =? 65
      then Accept [mkArec true [49] (fastq_text (r_header r1 ++ [59; 88]) (tl (r_seq r1)) [43] (tl (r_qual r1)));
                   mkArec true [49] (fastq_text (r_header r2 ++ [59; 88]) (r_seq r2) [43] (r_qual r2))]
      else if hd 0 (r_seq r1) =? 67 then Reject [98; 99] else Raise [73; 69]
  | _ => Raise [73; 69]
  end.
Definition bx_rejhdr : read -> str -> hout := fun r reason => HOk (tl (r_header r) ++ tagRR ++ reason).
Definition bx_cfg : config := mkConfig None true false 2 false.
Definition bx_files : list (list str) :=
  [[[64;97]; [65;67;71]; [43]; [73;73;73];  [64;98]; [67;67]; [43]; [73;73];  [64;99]; [71]; [43]; [73]];
   [[64;97]; [84;84]; [43]; [73;73];        [64;98]; [71]; [43]; [73];        [64;99]; []; [43]; []]].

Lemma bx_outcomes p : match bx_strat p with Reject w => w = [98; 99] | Raise k => k = [73; 69] | Accept _ => True end.
Proof.
  unfold bx_strat. destruct p as [|r1 [|r2 t]]; try reflexivity.
  destruct (hd 0 (r_seq r1) =? 65); [exact I|]. destruct (hd 0 (r_seq r1) =? 67); reflexivity.
Qed.

Ltac nlfree_concrete := unfold nl_free, NLc; cbn; intros H; repeat (destruct H as [H|H]; [discriminate|]); destruct H.

Lemma bx_bridge :
  let res := demultiplex repaired_shape [bx_strat] bx_rejhdr bx_cfg bx_files in
  res_crashed res = false /\ res_processed res = 3 /\ res_yields res = [1] /\
  spec_C01 (model_sconf [bx_strat] bx_cfg (length bx_files)) (model_obs bx_files res) /\
  specb_C01 (model_sconf [bx_strat] bx_cfg (length bx_files)) (model_obs bx_files res) = true.
Proof.
  cbv zeta. split; [vm_compute; reflexivity|]. split; [vm_compute; reflexivity|]. split; [vm_compute; reflexivity|].
  assert (S : spec_C01 (model_sconf [bx_strat] bx_cfg (length bx_files))
                       (model_obs bx_files (demultiplex repaired_shape [bx_strat] bx_rejhdr bx_cfg bx_files))).
  { apply (model_satisfies_spec repaired_shape [bx_strat] bx_rejhdr bx_cfg).
    - reflexivity.
    - intros r reason h E. unfold bx_rejhdr in E.
      assert (Eh : h = tl (r_header r) ++ tagRR ++ reason) by congruence. subst h. clear E. split.
      + exists (tl (r_header r)), []. now rewrite app_nil_r.
      + intros (Hh & _) Hre. apply nl_free_app; [|apply nl_free_app; [nlfree_concrete|assumption]].
        intros Hin. apply Hh. destruct (r_header r); [destruct Hin|now right].
    - intros r reason why E. discriminate.
    - intros f r why [<-|[]] [E|E]; pose proof (bx_outcomes r) as O; rewrite E in O; subst; nlfree_concrete.
    - discriminate.
    - repeat constructor; nlfree_concrete.
    - cbn. lia.
    - vm_compute. reflexivity.
    - intros r f Hr [<-|[]]. vm_compute in Hr. destruct Hr as [<-|[<-|[<-|[]]]]; (split; [vm_compute; lia|]); cbn; try exact I.
      intros _ x y [<-|[<-|[]]] [<-|[<-|[]]]; reflexivity. }
  split; [exact S|]. now apply specb_iff.
Qed.

Lemma bx_specb_rejects :
  let res := demultiplex repaired_shape [bx_strat] bx_rejhdr bx_cfg bx_files in
  let sc := model_sconf [bx_strat] bx_cfg (length bx_files) in
  let ob := model_obs bx_files res in
  specb_C01 sc (mkObs (ob_in ob) (ob_pairs ob) (ob_out ob) (ob_processed ob) [2] None) = false /\
  specb_C01 sc (mkObs (ob_in ob) (ob_pairs ob) (filter (fun f => f_target f) (ob_out ob)) (ob_processed ob) (ob_yields ob) None) = false /\
  specb_C01 sc (mkObs (ob_in ob) (ob_pairs ob) (ob_out ob ++ ob_out ob) (ob_processed ob) (ob_yields ob) None) = false.
Proof. vm_compute. repeat split; reflexivity. Qed.
