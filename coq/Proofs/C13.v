(* C13 lemmas.  Structure:
   A dict / B vectors / C vote accumulation is additive / D molecule table = sum of fragment contributions /
   E argmax+mask = unique strict maximum / F consensus characterisation (any skip rule, any input) /
   G under the base precondition a fragment's contribution is the indicator of its one call /
   H majority theorem, corollaries / I permutation and duplication / J pick_best / K read dictionary *)
From Coq Require Import ZArith List Bool Lia Permutation Arith.
Import ListNotations.
From SCMO Require Import Lib.Val Model.C13.
Open Scope Z_scope.

(* ------------------------------------------------------------------ A. dict *)
Lemma key_eqb_eq a b : key_eqb a b = true <-> a = b.
Proof.
  destruct a as [a1 a2], b as [b1 b2]. unfold key_eqb. cbn [fst snd].
  rewrite andb_true_iff, !Z.eqb_eq. split; [intros [-> ->]; reflexivity | intros H; inversion H; auto].
Qed.
Lemma key_eqb_refl a : key_eqb a a = true.
Proof. apply key_eqb_eq. reflexivity. Qed.
Lemma key_eqb_neq a b : key_eqb a b = false <-> a <> b.
Proof.
  split.
  - intros H E. apply key_eqb_eq in E. congruence.
  - intros H. destruct (key_eqb a b) eqn:E; [apply key_eqb_eq in E; contradiction | reflexivity].
Qed.
Lemma key_eqb_sym a b : key_eqb a b = key_eqb b a.
Proof.
  destruct (key_eqb a b) eqn:E; symmetry.
  - apply key_eqb_eq in E. subst. apply key_eqb_refl.
  - apply key_eqb_neq. apply key_eqb_neq in E. congruence.
Qed.

Section DictFacts.
  Context {V : Type}.
  Implicit Types d : dict V.

  Lemma dget_dset k k' (v : V) d : dget k (dset k' v d) = if key_eqb k k' then Some v else dget k d.
  Proof.
    induction d as [|[k0 v0] d IH]; cbn [dset dget].
    - reflexivity.
    - destruct (key_eqb k' k0) eqn:E0; cbn [dget].
      + apply key_eqb_eq in E0. subst k0. destruct (key_eqb k k'); reflexivity.
      + rewrite IH. destruct (key_eqb k k0) eqn:E1; [|reflexivity].
        apply key_eqb_eq in E1. subst k0. rewrite key_eqb_sym, E0. reflexivity.
  Qed.

  Lemma dget_none_iff k d : dget k d = None <-> ~ In k (dkeys d).
  Proof.
    induction d as [|[k0 v0] d IH]; cbn [dget dkeys map In fst].
    - tauto.
    - destruct (key_eqb k k0) eqn:E.
      + apply key_eqb_eq in E. subst. split; [discriminate | intros H; exfalso; apply H; auto].
      + apply key_eqb_neq in E. unfold dkeys in IH. rewrite IH. split; [intros H [H1|H1]; [congruence|auto] | tauto].
  Qed.

  Lemma dget_some_in k d v : dget k d = Some v -> In (k, v) d.
  Proof.
    induction d as [|[k0 v0] d IH]; cbn [dget]; [discriminate|].
    destruct (key_eqb k k0) eqn:E.
    - apply key_eqb_eq in E. subst. intros H; inversion H; subst. left; reflexivity.
    - intros H. right. auto.
  Qed.

  Lemma dkeys_dset_in k k' (v : V) d : In k (dkeys (dset k' v d)) <-> k = k' \/ In k (dkeys d).
  Proof.
    induction d as [|[k0 v0] d IH]; cbn [dset dkeys map In fst].
    - intuition.
    - destruct (key_eqb k' k0) eqn:E; cbn [map In fst].
      + apply key_eqb_eq in E. subst. intuition congruence.
      + unfold dkeys in IH. rewrite IH. intuition congruence.
  Qed.

  Lemma dkeys_dset_nodup k (v : V) d : NoDup (dkeys d) -> NoDup (dkeys (dset k v d)).
  Proof.
    induction d as [|[k0 v0] d IH]; cbn [dset dkeys map fst]; intros H.
    - constructor; [intros []|constructor].
    - inversion H as [|? ? Hn Hd]; subst. destruct (key_eqb k k0) eqn:E; cbn [map fst].
      + constructor; assumption.
      + constructor; [|apply IH; assumption].
        intros Hin. apply (dkeys_dset_in k0 k v d) in Hin. destruct Hin as [->|Hin]; [|contradiction].
        rewrite key_eqb_refl in E. discriminate.
  Qed.

  Lemma dict_of_nodup (items : list (key * V)) : NoDup (dkeys (dict_of items)).
  Proof.
    unfold dict_of. assert (G : forall d, NoDup (dkeys d) ->
      NoDup (dkeys (fold_left (fun d kv => dset (fst kv) (snd kv) d) items d))).
    { induction items as [|kv items IH]; intros d Hd; cbn [fold_left]; [assumption|].
      apply IH. apply dkeys_dset_nodup. assumption. }
    apply G. constructor.
  Qed.
End DictFacts.

(* ------------------------------------------------------------------ B. vectors *)
Lemma vnth_vincr i j v : (i < 5)%nat -> vnth j (vincr i v) = vnth j v + (if Nat.eqb i j then 1 else 0).
Proof.
  intros Hi. destruct v as [[[[a c] g] t] n].
  do 5 (destruct i as [|i]; [do 5 (destruct j as [|j]; [cbn; lia|]); cbn; destruct j; cbn; lia|]). lia.
Qed.
Lemma vnth_zeros j : vnth j zeros = 0.
Proof. do 5 (destruct j as [|j]; [reflexivity|]). destruct j; reflexivity. Qed.
Lemma vnth_ge5 j v : (5 <= j)%nat -> vnth j v = 0.
Proof. intros H. destruct v as [[[[a c] g] t] n]. do 5 (destruct j as [|j]; [lia|]). destruct j; reflexivity. Qed.
Lemma vlist_length v : length (vlist v) = 5%nat.
Proof. destruct v as [[[[a c] g] t] n]. reflexivity. Qed.

Lemma base_index_lt b i : base_index b = Some i -> (i < 5)%nat.
Proof.
  unfold base_index. repeat (match goal with |- context [if ?c then _ else _] => destruct c end);
    intros H; inversion H; lia.
Qed.
Lemma index_base_index b i : base_index b = Some i -> index_base i = b.
Proof.
  unfold base_index.
  destruct (b =? bA) eqn:E0; [intros H; inversion H; apply Z.eqb_eq in E0; subst; reflexivity|].
  destruct (b =? bC) eqn:E1; [intros H; inversion H; apply Z.eqb_eq in E1; subst; reflexivity|].
  destruct (b =? bG) eqn:E2; [intros H; inversion H; apply Z.eqb_eq in E2; subst; reflexivity|].
  destruct (b =? bT) eqn:E3; [intros H; inversion H; apply Z.eqb_eq in E3; subst; reflexivity|].
  destruct (b =? bN) eqn:E4; [intros H; inversion H; apply Z.eqb_eq in E4; subst; reflexivity|].
  discriminate.
Qed.
Lemma base_index_base i : (i < 5)%nat -> base_index (index_base i) = Some i.
Proof. intros H. do 5 (destruct i as [|i]; [reflexivity|]). lia. Qed.

(* ------------------------------------------------------------------ C. vote accumulation is additive *)
Lemma tget_nil k : tget k [] = zeros.
Proof. reflexivity. Qed.
Lemma tget_tincr k k' i t : tget k (tincr k' i t) = if key_eqb k k' then vincr i (tget k' t) else tget k t.
Proof. unfold tincr, tget at 1. rewrite dget_dset. destruct (key_eqb k k'); reflexivity. Qed.

Lemma vote_items_add items : forall t k j,
  vnth j (tget k (vote_items items t)) = vnth j (tget k t) + vnth j (tget k (vote_items items [])).
Proof.
  induction items as [|[k' [b q]] rest IH]; intros t k j; cbn [vote_items].
  - rewrite tget_nil, vnth_zeros. lia.
  - destruct (b =? bN); [apply IH|].
    destruct (base_index b) as [i|] eqn:Ei; [|rewrite tget_nil, vnth_zeros; lia].
    rewrite (IH (tincr k' i t)), (IH (tincr k' i [])). rewrite !tget_tincr.
    destruct (key_eqb k k') eqn:E.
    + apply key_eqb_eq in E. subst k'. rewrite !vnth_vincr by (eapply base_index_lt; eassumption).
      rewrite tget_nil, vnth_zeros. lia.
    + rewrite tget_nil, vnth_zeros. lia.
Qed.

Lemma tincr_nodup k i t : NoDup (dkeys t) -> NoDup (dkeys (tincr k i t)).
Proof. apply dkeys_dset_nodup. Qed.
Lemma vote_items_nodup items : forall t, NoDup (dkeys t) -> NoDup (dkeys (vote_items items t)).
Proof.
  induction items as [|[k' [b q]] rest IH]; intros t H; cbn [vote_items]; [assumption|].
  destruct (b =? bN); [auto|]. destruct (base_index b); [|assumption]. apply IH, tincr_nodup, H.
Qed.

(* ------------------------------------------------------------------ D. molecule table = sum of contributions *)
Lemma zsum_cons x l : zsum (x :: l) = x + zsum l.
Proof. reflexivity. Qed.
Lemma zsum_app l1 l2 : zsum (l1 ++ l2) = zsum l1 + zsum l2.
Proof.
  induction l1 as [|x l1 IH]; [reflexivity|].
  change ((x :: l1) ++ l2) with (x :: (l1 ++ l2)). rewrite !zsum_cons, IH. lia.
Qed.
Lemma zsum_perm l1 l2 : Permutation l1 l2 -> zsum l1 = zsum l2.
Proof.
  intros H. induction H as [|x l l' H IH|x y l|l l' l'' H1 IH1 H2 IH2].
  - reflexivity.
  - rewrite !zsum_cons, IH. reflexivity.
  - rewrite !zsum_cons. lia.
  - congruence.
Qed.

Section Mol.
  Variable skip : opts -> frag -> bool.

  (* what one fragment adds to component j of the vote vector at k *)
  Definition contrib (ds : opts) (f : frag) (k : key) (j : nat) : Z :=
    if skip ds f then 0 else
    match frag_consensus ds f with
    | Ok items => vnth j (tget k (vote_items items []))
    | _ => 0
    end.
  (* the fragment makes Molecule.get_consensus raise IndexError *)
  Definition raises (ds : opts) (f : frag) : bool :=
    negb (skip ds f) && match frag_consensus ds f with IndexError => true | _ => false end.
  Definition V (ds : opts) (fs : list frag) (k : key) (j : nat) : Z := zsum (map (fun f => contrib ds f k j) fs).

  Lemma mol_table_cons ds f rest t :
    mol_table skip ds (f :: rest) t =
    if skip ds f then mol_table skip ds rest t
    else match frag_consensus ds f with
         | Ok items => mol_table skip ds rest (vote_items items t)
         | ValueError => mol_table skip ds rest t
         | IndexError => IndexError
         end.
  Proof. reflexivity. Qed.

  Lemma mol_table_sum ds fs : forall t t', mol_table skip ds fs t = Ok t' ->
    forall k j, vnth j (tget k t') = vnth j (tget k t) + V ds fs k j.
  Proof.
    induction fs as [|f rest IH]; intros t t' H k j.
    - cbn in H. inversion H; subst. unfold V. cbn. lia.
    - rewrite mol_table_cons in H. unfold V. cbn [map]. rewrite zsum_cons. fold (V ds rest k j).
      unfold contrib. destruct (skip ds f).
      + rewrite (IH _ _ H). lia.
      + destruct (frag_consensus ds f) as [items| |].
        * rewrite (IH _ _ H). rewrite vote_items_add. lia.
        * rewrite (IH _ _ H). lia.
        * discriminate.
  Qed.

  Lemma mol_table_nodup ds fs : forall t t', NoDup (dkeys t) -> mol_table skip ds fs t = Ok t' -> NoDup (dkeys t').
  Proof.
    induction fs as [|f rest IH]; intros t t' Hn H.
    - cbn in H. inversion H; subst. assumption.
    - rewrite mol_table_cons in H. destruct (skip ds f); [eauto|].
      destruct (frag_consensus ds f) as [items| |]; [|eauto|discriminate].
      eapply IH; [|eassumption]. apply vote_items_nodup. assumption.
  Qed.

  (* outcome: IndexError iff some fragment that is not skipped has fewer than two slots; never ValueError *)
  Lemma mol_table_outcome ds fs : forall t,
    (existsb (raises ds) fs = true /\ mol_table skip ds fs t = IndexError) \/
    (existsb (raises ds) fs = false /\ exists t', mol_table skip ds fs t = Ok t').
  Proof.
    induction fs as [|f rest IH]; intros t.
    - right. split; [reflexivity|]. exists t. reflexivity.
    - rewrite mol_table_cons. cbn [existsb]. unfold raises at 1 3.
      destruct (skip ds f); cbn [negb andb orb]; [apply IH|].
      destruct (frag_consensus ds f) as [items| |]; cbn [orb]; [apply IH|apply IH|].
      left. split; reflexivity.
  Qed.

  (* ---------------------------------------------------------------- E. finish *)
  Lemma dget_app_l {A} k (d1 d2 : dict A) v : dget k d1 = Some v -> dget k (d1 ++ d2) = Some v.
  Proof.
    induction d1 as [|[k0 v0] d1 IH]; cbn [dget app]; [discriminate|].
    destruct (key_eqb k k0); auto.
  Qed.
  Lemma dget_app_r {A} k (d1 d2 : dict A) : dget k d1 = None -> dget k (d1 ++ d2) = dget k d2.
  Proof.
    induction d1 as [|[k0 v0] d1 IH]; cbn [dget app]; [reflexivity|].
    destruct (key_eqb k k0); [discriminate|auto].
  Qed.

  Lemma dget_finish t k : NoDup (dkeys t) ->
    dget k (finish t) = match dget k t with Some v => call_of_vec v | None => None end.
  Proof.
    induction t as [|[k0 v0] t IH]; intros Hn; [reflexivity|].
    cbn [dkeys map fst] in Hn. inversion Hn as [|? ? Hnot Hn']; subst.
    unfold finish. cbn [flat_map fst snd dget]. fold (finish t).
    destruct (key_eqb k k0) eqn:E.
    - apply key_eqb_eq in E. subst k0.
      destruct (call_of_vec v0) as [b|]; cbn [app dget]; [rewrite key_eqb_refl; reflexivity|].
      rewrite (IH Hn'). apply dget_none_iff in Hnot. rewrite Hnot. reflexivity.
    - destruct (call_of_vec v0) as [b|]; cbn [app dget]; [rewrite E|]; apply IH; assumption.
  Qed.
End Mol.

(* ------------------------------------------------------------------ E'. argmax + uniqueness mask = unique strict maximum *)
Lemma fr_max_ge d l : d <= fold_right Z.max d l /\ forall x, In x l -> x <= fold_right Z.max d l.
Proof.
  induction l as [|y l [IH1 IH2]]; cbn [fold_right In]; [split; [lia|tauto]|].
  split; [lia|]. intros x [->|H]; [lia|]. specialize (IH2 x H). lia.
Qed.
Lemma fr_max_in d l : fold_right Z.max d l = d \/ In (fold_right Z.max d l) l.
Proof.
  induction l as [|y l IH]; cbn [fold_right In]; [left; reflexivity|].
  destruct (Z.max_spec y (fold_right Z.max d l)) as [[_ E]|[_ E]]; rewrite E; [|right; left; reflexivity].
  destruct IH as [IH|IH]; [left; assumption | right; right; assumption].
Qed.
Lemma lmax_ge l x : In x l -> x <= lmax l.
Proof. unfold lmax. apply fr_max_ge. Qed.
Lemma lmax_in l : l <> [] -> In (lmax l) l.
Proof.
  destruct l as [|y l]; [congruence|]. intros _. unfold lmax. cbn [hd].
  destruct (fr_max_in y (y :: l)) as [E|H]; [rewrite E; left; reflexivity | assumption].
Qed.

Lemma count_eq_cons m x r : count_eq m (x :: r) = if m =? x then S (count_eq m r) else count_eq m r.
Proof. unfold count_eq. cbn [filter]. destruct (m =? x); reflexivity. Qed.
Lemma count_eq_zero m l : (forall x, In x l -> x <> m) -> count_eq m l = 0%nat.
Proof.
  induction l as [|x r IH]; intros H; [reflexivity|]. rewrite count_eq_cons.
  destruct (m =? x) eqn:E; [apply Z.eqb_eq in E; exfalso; apply (H x); [left; reflexivity|congruence]|].
  apply IH. intros y Hy. apply H. right. assumption.
Qed.
Lemma count_eq_zero_inv m l : count_eq m l = 0%nat -> forall x, In x l -> x <> m.
Proof.
  induction l as [|x r IH]; intros H y []; rewrite count_eq_cons in H; destruct (m =? x) eqn:E; try discriminate.
  - subst. apply Z.eqb_neq in E. congruence.
  - apply IH; assumption.
Qed.

Lemma count_first m l : forall i, (i < length l)%nat -> nth i l 0 = m ->
  (forall j, (j < length l)%nat -> j <> i -> nth j l 0 <> m) -> count_eq m l = 1%nat /\ first_idx m l = i.
Proof.
  induction l as [|x r IH]; intros i Hi Hm Ho; [cbn in Hi; lia|].
  rewrite count_eq_cons. cbn [first_idx]. destruct i as [|i].
  - cbn in Hm. subst x. rewrite !Z.eqb_refl. split; [|reflexivity]. f_equal. apply count_eq_zero.
    intros y Hy. destruct (In_nth _ _ 0 Hy) as (j & Hj & <-). apply (Ho (S j)); cbn [length]; lia.
  - assert (Hx : x <> m) by (apply (Ho 0%nat); cbn [length]; lia).
    destruct (m =? x) eqn:E; [apply Z.eqb_eq in E; congruence|].
    destruct (x =? m) eqn:E'; [apply Z.eqb_eq in E'; congruence|].
    cbn [length nth] in *. destruct (IH i) as [H1 H2]; [lia|assumption| |split; [assumption|congruence]].
    intros j Hj Hji. apply (Ho (S j)); lia.
Qed.

Lemma count_one m l : count_eq m l = 1%nat ->
  (first_idx m l < length l)%nat /\ nth (first_idx m l) l 0 = m /\
  forall j, (j < length l)%nat -> nth j l 0 = m -> j = first_idx m l.
Proof.
  induction l as [|x r IH]; intros H; [discriminate|].
  rewrite count_eq_cons in H. cbn [first_idx length].
  destruct (m =? x) eqn:E.
  - apply Z.eqb_eq in E. subst x. rewrite Z.eqb_refl. split; [lia|]. split; [reflexivity|].
    intros j Hj Hn. destruct j as [|j]; [reflexivity|]. exfalso. cbn [nth] in Hn.
    assert (H0 : count_eq m r = 0%nat) by lia.
    apply (count_eq_zero_inv _ _ H0 (nth j r 0)); [apply nth_In; lia|assumption].
  - destruct (x =? m) eqn:E'; [apply Z.eqb_eq in E'; apply Z.eqb_neq in E; congruence|].
    destruct (IH H) as (H1 & H2 & H3). split; [lia|]. split; [assumption|].
    intros j Hj Hn. destruct j as [|j]; [cbn in Hn; apply Z.eqb_neq in E'; congruence|].
    f_equal. apply H3; [lia|assumption].
Qed.

Lemma call_of_list_spec l b : l <> [] ->
  call_of_list l = Some b <->
  exists i, (i < length l)%nat /\ b = index_base i /\
            forall j, (j < length l)%nat -> j <> i -> nth j l 0 < nth i l 0.
Proof.
  intros Hne. unfold call_of_list. split.
  - destruct (Nat.eqb (count_eq (lmax l) l) 1) eqn:E; [|discriminate]. apply Nat.eqb_eq in E.
    intros H. inversion H; subst b. clear H.
    destruct (count_one _ _ E) as (H1 & H2 & H3). exists (first_idx (lmax l) l). split; [assumption|].
    split; [reflexivity|]. intros j Hj Hne'. rewrite H2.
    assert (nth j l 0 <= lmax l) by (apply lmax_ge, nth_In; assumption).
    assert (nth j l 0 <> lmax l) by (intros Eq; apply Hne', H3; assumption). lia.
  - intros (i & Hi & -> & Hs).
    assert (Hm : lmax l = nth i l 0).
    { destruct (In_nth _ _ 0 (lmax_in l Hne)) as (j & Hj & Ej).
      destruct (Nat.eq_dec j i) as [->|Hji]; [symmetry; assumption|].
      specialize (Hs j Hj Hji). assert (nth i l 0 <= lmax l) by (apply lmax_ge, nth_In; assumption). lia. }
    destruct (count_first (lmax l) l i Hi (eq_sym Hm)) as [H1 H2].
    { intros j Hj Hji. specialize (Hs j Hj Hji). lia. }
    rewrite H1, H2. reflexivity.
Qed.

Lemma call_of_vec_spec v b :
  call_of_vec v = Some b <->
  exists i, (i < 5)%nat /\ b = index_base i /\ forall j, (j < 5)%nat -> j <> i -> vnth j v < vnth i v.
Proof.
  unfold call_of_vec. rewrite call_of_list_spec by (destruct v as [[[[a c] g] t] n]; discriminate).
  rewrite vlist_length. reflexivity.
Qed.
Lemma call_of_vec_zeros : call_of_vec zeros = None.
Proof. reflexivity. Qed.

(* two options characterised by the same predicate are equal *)
Lemma opt_ext {A} (o1 o2 : option A) : (forall b, o1 = Some b <-> o2 = Some b) -> o1 = o2.
Proof.
  intros H. destruct o1 as [a|], o2 as [b|]; try reflexivity.
  - apply H. reflexivity.
  - specialize (H a). destruct H as [H _]. specialize (H eq_refl). discriminate.
  - specialize (H b). destruct H as [_ H]. specialize (H eq_refl). discriminate.
Qed.

(* ------------------------------------------------------------------ F. consensus characterisation (any skip rule, any input) *)
Definition strict_max (W : nat -> Z) (i : nat) : Prop :=
  (i < 5)%nat /\ forall j, (j < 5)%nat -> j <> i -> W j < W i.

Section Cons.
  Variable skip : opts -> frag -> bool.

  Lemma mol_consensus_ok ds fs out : mol_consensus skip ds fs = Ok out ->
    exists t, mol_table skip ds fs [] = Ok t /\ out = finish t /\ NoDup (dkeys t) /\
              forall k j, vnth j (tget k t) = V skip ds fs k j.
  Proof.
    unfold mol_consensus. destruct (mol_table skip ds fs []) as [t| |] eqn:E; try discriminate.
    intros H. inversion H; subst. exists t. split; [reflexivity|]. split; [reflexivity|].
    split; [eapply mol_table_nodup; [|eassumption]; constructor|].
    intros k j. rewrite (mol_table_sum skip ds fs [] t E k j), tget_nil, vnth_zeros. lia.
  Qed.

  Lemma consensus_general ds fs out k b : mol_consensus skip ds fs = Ok out ->
    (dget k out = Some b <-> exists i, b = index_base i /\ strict_max (V skip ds fs k) i).
  Proof.
    intros H. destruct (mol_consensus_ok _ _ _ H) as (t & Ht & -> & Hn & Hv).
    rewrite dget_finish by assumption.
    assert (E : match dget k t with Some v => call_of_vec v | None => None end = call_of_vec (tget k t)).
    { unfold tget. destruct (dget k t); [reflexivity|symmetry; apply call_of_vec_zeros]. }
    rewrite E, call_of_vec_spec. unfold strict_max. split.
    - intros (i & Hi & -> & Hs). exists i. split; [reflexivity|]. split; [assumption|].
      intros j Hj Hji. rewrite <- !Hv. auto.
    - intros (i & -> & Hi & Hs). exists i. split; [assumption|]. split; [reflexivity|].
      intros j Hj Hji. rewrite !Hv. auto.
  Qed.

  Lemma mol_consensus_outcome ds fs :
    (existsb (raises skip ds) fs = true /\ mol_consensus skip ds fs = IndexError) \/
    (existsb (raises skip ds) fs = false /\ exists out, mol_consensus skip ds fs = Ok out).
  Proof.
    unfold mol_consensus. destruct (mol_table_outcome skip ds fs []) as [[H1 H2]|[H1 [t H2]]]; rewrite H2.
    - left. split; [assumption|reflexivity].
    - right. split; [assumption|]. eexists. reflexivity.
  Qed.
End Cons.

(* ------------------------------------------------------------------ G. a fragment's contribution is the indicator of its one call *)
Lemma pb_fold_base cs : forall s b, pb_base (fold_left pb_step cs s) = Some b ->
  pb_base s = Some b \/ exists q, In (Some (b, q)) cs.
Proof.
  induction cs as [|c cs IH]; intros s b H; cbn [fold_left] in H; [left; assumption|].
  destruct (IH _ _ H) as [H1|[q Hq]]; [|right; exists q; right; assumption].
  destruct c as [[b0 q0]|]; cbn [pb_step] in H1; [|left; assumption].
  destruct (q0 >? pb_q s).
  - cbn in H1. inversion H1; subst. right. exists q0. left. reflexivity.
  - destruct ((q0 =? pb_q s) && negb (opt_is (pb_base s) b0)); cbn in H1; left; assumption.
Qed.
Lemma pick_best_base cs b q : pick_best cs = (b, q) -> b = bN \/ exists q', In (Some (b, q')) cs.
Proof.
  unfold pick_best, pb_result. destruct (pb_base (fold_left pb_step cs pb_init)) as [b'|] eqn:E.
  - destruct (pb_tie _); intros H; inversion H; subst; [left; reflexivity|].
    destruct (pb_fold_base _ _ _ E) as [H1|H1]; [discriminate|right; assumption].
  - intros H; inversion H. left; reflexivity.
Qed.

Lemma dict_of_get {A} (items : list (key * A)) k v : dget k (dict_of items) = Some v -> In (k, v) items.
Proof.
  unfold dict_of.
  assert (G : forall d, dget k (fold_left (fun d kv => dset (fst kv) (snd kv) d) items d) = Some v ->
                        dget k d = Some v \/ In (k, v) items).
  { induction items as [|[k0 v0] items IH]; intros d H; cbn [fold_left] in H; [left; assumption|].
    destruct (IH _ H) as [H1|H1]; [|right; right; assumption].
    cbn [fst snd] in H1. rewrite dget_dset in H1. destruct (key_eqb k k0) eqn:E; [|left; assumption].
    apply key_eqb_eq in E. subst. inversion H1; subst. right. left. reflexivity. }
  intros H. destruct (G [] H) as [H1|H1]; [discriminate|assumption].
Qed.

Lemma read_dict_base_ok w fl o d k b q : read_dict w fl o = Ok d ->
  match o with Some r => read_bases_ok r = true | None => True end ->
  dget k d = Some (b, q) -> base_index b <> None.
Proof.
  destruct o as [r|]; cbn [read_dict]; [|intros H; inversion H; subst; discriminate].
  destruct (r_md r); [|discriminate]. intros H Hok Hg. inversion H; subst. clear H.
  apply dict_of_get in Hg. unfold read_items in Hg. apply in_map_iff in Hg.
  destruct Hg as ([[[[p b'] q'] qp] rb] & Heq & Hin). inversion Heq; subst. apply filter_In in Hin. destruct Hin as [Hin _].
  unfold read_bases_ok in Hok. rewrite forallb_forall in Hok. specialize (Hok _ Hin). cbn in Hok.
  destruct (base_index b); [discriminate|discriminate].
Qed.

Lemma nodup_app {A} (l1 l2 : list A) : NoDup l1 -> NoDup l2 -> (forall x, In x l1 -> ~ In x l2) -> NoDup (l1 ++ l2).
Proof.
  induction l1 as [|x l1 IH]; intros H1 H2 Hd; [assumption|].
  inversion H1; subst. cbn [app]. constructor.
  - rewrite in_app_iff. intros [H|H]; [contradiction|]. apply (Hd x); [left; reflexivity|assumption].
  - apply IH; [assumption|assumption|]. intros y Hy. apply Hd. right. assumption.
Qed.

Lemma dmem_keys {A} k (d : dict A) : existsb (key_eqb k) (dkeys d) = dmem k d.
Proof.
  unfold dmem. induction d as [|[k0 v0] d IH]; [reflexivity|]. cbn [dkeys map fst existsb dget].
  destruct (key_eqb k k0); [reflexivity|]. apply IH.
Qed.
Lemma existsb_filter_key k p l : existsb (key_eqb k) (filter p l) = p k && existsb (key_eqb k) l.
Proof.
  induction l as [|x l IH]; cbn [filter existsb]; [rewrite andb_false_r; reflexivity|].
  destruct (key_eqb k x) eqn:E.
  - apply key_eqb_eq in E. subst x. destruct (p k); cbn [existsb]; [rewrite key_eqb_refl; reflexivity|].
    rewrite IH. reflexivity.
  - destruct (p x); cbn [existsb]; [rewrite E|]; rewrite IH; cbn [orb]; reflexivity.
Qed.
Lemma union_keys_mem k d1 d2 : existsb (key_eqb k) (union_keys d1 d2) = dmem k d1 || dmem k d2.
Proof.
  unfold union_keys. rewrite existsb_app, existsb_filter_key, !dmem_keys.
  destruct (dmem k d1), (dmem k d2); reflexivity.
Qed.
Lemma union_keys_nodup d1 d2 : NoDup (dkeys d1) -> NoDup (dkeys d2) -> NoDup (union_keys d1 d2).
Proof.
  intros H1 H2. unfold union_keys. apply nodup_app; [assumption|apply NoDup_filter; assumption|].
  intros x Hx Hf. apply filter_In in Hf. destruct Hf as [_ Hf]. unfold dmem in Hf.
  destruct (dget x d1) eqn:E; [discriminate|]. apply dget_none_iff in E. contradiction.
Qed.

Lemma dget_map_keys {A} (g : key -> A) ks k :
  dget k (map (fun k => (k, g k)) ks) = if existsb (key_eqb k) ks then Some (g k) else None.
Proof.
  induction ks as [|k0 ks IH]; [reflexivity|]. cbn [map dget existsb].
  destruct (key_eqb k k0) eqn:E; [apply key_eqb_eq in E; subst; reflexivity|]. apply IH.
Qed.
Lemma dkeys_map_keys {A} (g : key -> A) ks : dkeys (map (fun k => (k, g k)) ks) = ks.
Proof. unfold dkeys. rewrite map_map. cbn [fst]. apply map_id. Qed.

Lemma read_dict_nodup w fl o d : read_dict w fl o = Ok d -> NoDup (dkeys d).
Proof.
  destruct o as [r|]; cbn [read_dict].
  - destruct (r_md r); [|discriminate]. intros H; inversion H. apply dict_of_nodup.
  - intros H; inversion H. constructor.
Qed.

(* the pieces of Fragment.get_consensus when it returns *)
Lemma frag_consensus_ok ds f items : frag_consensus ds f = Ok items ->
  exists r1 r2 w d1 d2, nth_error f 0 = Some r1 /\ nth_error f 1 = Some r2 /\ window ds r1 r2 = Ok w /\
    read_dict w (flt1 ds) r1 = Ok d1 /\ read_dict w (flt2 ds) r2 = Ok d2 /\
    items = map (fun k => (k, pick_best [dget k d1; dget k d2])) (union_keys d1 d2).
Proof.
  unfold frag_consensus. destruct (nth_error f 0) as [r1|] eqn:E1; [|discriminate].
  destruct (nth_error f 1) as [r2|] eqn:E2; [|discriminate].
  destruct (window ds r1 r2) as [w| |] eqn:E3; try discriminate.
  destruct (read_dict w (flt1 ds) r1) as [d1| |] eqn:E4; try discriminate.
  destruct (read_dict w (flt2 ds) r2) as [d2| |] eqn:E5; try discriminate.
  intros H. inversion H. exists r1, r2, w, d1, d2. repeat split; assumption.
Qed.

Lemma frag_items_nodup ds f items : frag_consensus ds f = Ok items -> NoDup (dkeys items).
Proof.
  intros H. destruct (frag_consensus_ok _ _ _ H) as (r1 & r2 & w & d1 & d2 & _ & _ & _ & H1 & H2 & ->).
  rewrite dkeys_map_keys. apply union_keys_nodup; eapply read_dict_nodup; eassumption.
Qed.

Lemma frag_slot_ok f n o : frag_bases_ok f = true -> nth_error f n = Some o ->
  match o with Some r => read_bases_ok r = true | None => True end.
Proof.
  intros H Hn. unfold frag_bases_ok in H. rewrite forallb_forall in H. specialize (H _ (nth_error_In _ _ Hn)).
  destruct o; [assumption|exact I].
Qed.

Lemma frag_items_bases ds f items : frag_consensus ds f = Ok items -> frag_bases_ok f = true ->
  forall k b q, In (k, (b, q)) items -> base_index b <> None.
Proof.
  intros H Hok k b q Hin.
  destruct (frag_consensus_ok _ _ _ H) as (r1 & r2 & w & d1 & d2 & E1 & E2 & _ & H1 & H2 & ->).
  apply in_map_iff in Hin. destruct Hin as (k' & Heq & _). inversion Heq; subst k'. clear Heq.
  match goal with H : pick_best _ = _ |- _ => apply pick_best_base in H; destruct H as [->|[q' Hq]] end; [discriminate|].
  destruct Hq as [Hq|[Hq|[]]].
  - eapply read_dict_base_ok; [exact H1|eapply frag_slot_ok; eassumption|exact Hq].
  - eapply read_dict_base_ok; [exact H2|eapply frag_slot_ok; eassumption|exact Hq].
Qed.

Definition item_ind (o : option call) (j : nat) : Z :=
  match o with
  | Some (b, _) => if b =? bN then 0 else
                   match base_index b with Some i => if Nat.eqb i j then 1 else 0 | None => 0 end
  | None => 0
  end.

Lemma vote_items_ind (items : dict call) : NoDup (dkeys items) ->
  (forall k b q, In (k, (b, q)) items -> base_index b <> None) ->
  forall k j, vnth j (tget k (vote_items items [])) = item_ind (dget k items) j.
Proof.
  induction items as [|[k' [b q]] rest IH]; intros Hn Hb k j.
  - cbn [vote_items dget item_ind]. rewrite tget_nil, vnth_zeros. reflexivity.
  - cbn [dkeys map fst] in Hn. inversion Hn as [|? ? Hnot Hn']; subst.
    assert (Hb' : forall k b q, In (k, (b, q)) rest -> base_index b <> None)
      by (intros; eapply Hb; right; eassumption).
    specialize (IH Hn' Hb'). apply dget_none_iff in Hnot.
    cbn [vote_items dget]. destruct (b =? bN) eqn:EN.
    + rewrite IH. destruct (key_eqb k k') eqn:E; [|reflexivity].
      apply key_eqb_eq in E. subst k'. rewrite Hnot. cbn [item_ind]. rewrite EN. reflexivity.
    + destruct (base_index b) as [i|] eqn:Ei; [|exfalso; eapply Hb; [left; reflexivity|assumption]].
      rewrite vote_items_add, tget_tincr, IH. destruct (key_eqb k k') eqn:E.
      * apply key_eqb_eq in E. subst k'. rewrite Hnot, tget_nil.
        rewrite vnth_vincr by (eapply base_index_lt; eassumption). rewrite vnth_zeros.
        cbn [item_ind]. rewrite EN, Ei. lia.
      * rewrite tget_nil, vnth_zeros. lia.
Qed.

(* ------------------------------------------------------------------ H. majority *)
Definition call_ind (o : option Z) (j : nat) : Z :=
  match o with
  | Some b => match base_index b with Some i => if Nat.eqb i j then 1 else 0 | None => 0 end
  | None => 0
  end.

Definition bases_ok (fs : list frag) : Prop := forall f, In f fs -> frag_bases_ok f = true.
Definition res_equiv (a b : Res (dict Z)) : Prop :=
  match a, b with
  | Ok x, Ok y => forall k, dget k x = dget k y
  | ValueError, ValueError => True
  | IndexError, IndexError => True
  | _, _ => False
  end.

Section Major.
  Variable skip : opts -> frag -> bool.

  Lemma frag_call_items ds f items k : skip ds f = false -> frag_consensus ds f = Ok items ->
    frag_call skip ds f k =
    match dget k items with Some (b, _) => if b =? bN then None else Some b | None => None end.
  Proof.
    intros Hs H. destruct (frag_consensus_ok _ _ _ H) as (r1 & r2 & w & d1 & d2 & E1 & E2 & E3 & H1 & H2 & ->).
    unfold frag_call. rewrite Hs, E1, E2, E3, H1, H2, dget_map_keys, union_keys_mem. unfold dmem.
    destruct (dget k d1) as [c1|], (dget k d2) as [c2|]; cbn [orb]; try reflexivity;
      destruct (pick_best _) as [b q]; reflexivity.
  Qed.

  Lemma frag_call_none ds f k :
    (skip ds f = true \/ forall items, frag_consensus ds f <> Ok items) -> frag_call skip ds f k = None.
  Proof.
    unfold frag_call, frag_consensus. destruct (skip ds f); [reflexivity|]. intros [H|H]; [discriminate|].
    destruct (nth_error f 0) as [r1|]; [|reflexivity]. destruct (nth_error f 1) as [r2|]; [|reflexivity].
    destruct (window ds r1 r2) as [w| |]; try reflexivity.
    destruct (read_dict w (flt1 ds) r1) as [d1| |]; try reflexivity.
    destruct (read_dict w (flt2 ds) r2) as [d2| |]; try reflexivity.
    exfalso. eapply H. reflexivity.
  Qed.

  Lemma frag_call_not_N ds f k : frag_call skip ds f k <> Some bN.
  Proof.
    unfold frag_call. destruct (skip ds f); [discriminate|].
    destruct (nth_error f 0) as [r1|]; [|discriminate]. destruct (nth_error f 1) as [r2|]; [|discriminate].
    destruct (window ds r1 r2) as [w| |]; try discriminate.
    destruct (read_dict w (flt1 ds) r1) as [d1| |]; try discriminate.
    destruct (read_dict w (flt2 ds) r2) as [d2| |]; try discriminate.
    destruct (dget k d1) as [c1|], (dget k d2) as [c2|]; try discriminate;
      destruct (fst (pick_best _) =? bN) eqn:E; try discriminate;
      intros H; inversion H as [H']; rewrite H' in E; discriminate.
  Qed.

  Lemma contrib_ind ds f k j : frag_bases_ok f = true ->
    contrib skip ds f k j = call_ind (frag_call skip ds f k) j.
  Proof.
    intros Hok. unfold contrib. destruct (skip ds f) eqn:Hs.
    - rewrite frag_call_none by (left; assumption). reflexivity.
    - destruct (frag_consensus ds f) as [items| |] eqn:E.
      + rewrite vote_items_ind; [|eapply frag_items_nodup; eassumption|eapply frag_items_bases; eassumption].
        rewrite (frag_call_items _ _ _ _ Hs E). unfold item_ind, call_ind.
        destruct (dget k items) as [[b q]|]; [|reflexivity]. destruct (b =? bN); reflexivity.
      + rewrite frag_call_none; [reflexivity|]. right. intros items. rewrite E. discriminate.
      + rewrite frag_call_none; [reflexivity|]. right. intros items. rewrite E. discriminate.
  Qed.

  Lemma call_ind_opt_is o j : (j < 5)%nat -> call_ind o j = if opt_is o (index_base j) then 1 else 0.
  Proof.
    intros Hj. destruct o as [b|]; [|reflexivity]. cbn [call_ind opt_is].
    destruct (base_index b) as [i|] eqn:Ei.
    - pose proof (index_base_index _ _ Ei) as Hb. destruct (Nat.eqb i j) eqn:E.
      + apply Nat.eqb_eq in E. subst i. rewrite Hb, Z.eqb_refl. reflexivity.
      + destruct (b =? index_base j) eqn:E'; [|reflexivity]. apply Z.eqb_eq in E'. clear Hb. subst b.
        rewrite base_index_base in Ei by assumption. inversion Ei; subst. rewrite Nat.eqb_refl in E. discriminate.
    - destruct (b =? index_base j) eqn:E'; [|reflexivity]. apply Z.eqb_eq in E'. subst b.
      rewrite base_index_base in Ei by assumption. discriminate.
  Qed.

  Lemma V_votes ds fs k j : bases_ok fs -> (j < 5)%nat -> V skip ds fs k j = votes skip ds fs k (index_base j).
  Proof.
    intros Hok Hj. unfold V, votes. f_equal. apply map_ext_in. intros f Hf.
    rewrite contrib_ind by (apply Hok; assumption). apply call_ind_opt_is. assumption.
  Qed.

  Lemma votes_nonneg ds fs k b : 0 <= votes skip ds fs k b.
  Proof.
    unfold votes. induction fs as [|f fs IH]; cbn [map]; [cbn; lia|]. rewrite zsum_cons.
    destruct (opt_is _ b); lia.
  Qed.
  Lemma votes_N ds fs k : votes skip ds fs k bN = 0.
  Proof.
    unfold votes. induction fs as [|f fs IH]; cbn [map]; [reflexivity|]. rewrite zsum_cons, IH.
    destruct (frag_call skip ds f k) as [b|] eqn:E; cbn [opt_is]; [|reflexivity].
    destruct (b =? bN) eqn:E'; [|reflexivity]. apply Z.eqb_eq in E'. subst b.
    exfalso. eapply frag_call_not_N. eassumption.
  Qed.

  Definition is_majority (ds : opts) (fs : list frag) (k : key) (b : Z) : Prop :=
    In b acgt /\ forall b', In b' acgt -> b' <> b -> votes skip ds fs k b' < votes skip ds fs k b.

  Lemma strict_max_majority ds fs k b : bases_ok fs ->
    (exists i, b = index_base i /\ strict_max (V skip ds fs k) i) <-> is_majority ds fs k b.
  Proof.
    intros Hok.
    assert (HV : forall j, (j < 5)%nat -> V skip ds fs k j = votes skip ds fs k (index_base j))
      by (intros; apply V_votes; assumption).
    pose proof (votes_N ds fs k) as HN.
    pose proof (votes_nonneg ds fs k bA) as GA. pose proof (votes_nonneg ds fs k bC) as GC.
    pose proof (votes_nonneg ds fs k bG) as GG. pose proof (votes_nonneg ds fs k bT) as GT.
    unfold is_majority, strict_max, acgt. split.
    - intros (i & -> & Hi & Hs).
      pose proof (Hs 0%nat) as S0. pose proof (Hs 1%nat) as S1. pose proof (Hs 2%nat) as S2.
      pose proof (Hs 3%nat) as S3. pose proof (Hs 4%nat) as S4.
      rewrite !HV in S0, S1, S2, S3, S4 by lia. cbn [index_base nth] in S0, S1, S2, S3, S4.
      assert (Hc : (i = 0 \/ i = 1 \/ i = 2 \/ i = 3 \/ i = 4)%nat) by lia.
      destruct Hc as [->|[->|[->|[->| ->]]]]; cbn [index_base nth] in *.
      + split; [cbn; tauto|]. intros b' [<-|[<-|[<-|[<-|[]]]]] Hne; try congruence; [apply S1|apply S2|apply S3]; lia.
      + split; [cbn; tauto|]. intros b' [<-|[<-|[<-|[<-|[]]]]] Hne; try congruence; [apply S0|apply S2|apply S3]; lia.
      + split; [cbn; tauto|]. intros b' [<-|[<-|[<-|[<-|[]]]]] Hne; try congruence; [apply S0|apply S1|apply S3]; lia.
      + split; [cbn; tauto|]. intros b' [<-|[<-|[<-|[<-|[]]]]] Hne; try congruence; [apply S0|apply S1|apply S2]; lia.
      + exfalso. assert (votes skip ds fs k bA < votes skip ds fs k bN) by (apply S0; lia). lia.
    - intros [Hin Hs].
      assert (In bA acgt /\ In bC acgt /\ In bG acgt /\ In bT acgt) as (IA & IC & IG & IT) by (cbn; tauto).
      destruct Hin as [<-|[<-|[<-|[<-|[]]]]].
      + assert (LC := Hs bC IC ltac:(discriminate)). assert (LG := Hs bG IG ltac:(discriminate)).
        assert (LT := Hs bT IT ltac:(discriminate)). clear Hs IA IC IG IT.
        exists 0%nat. split; [reflexivity|]. split; [lia|]. intros j Hj Hne. rewrite !HV by lia.
        assert (Hc : (j = 1 \/ j = 2 \/ j = 3 \/ j = 4)%nat) by lia.
        destruct Hc as [->|[->|[->| ->]]]; cbn [index_base nth]; lia.
      + assert (LA := Hs bA IA ltac:(discriminate)). assert (LG := Hs bG IG ltac:(discriminate)).
        assert (LT := Hs bT IT ltac:(discriminate)). clear Hs IA IC IG IT.
        exists 1%nat. split; [reflexivity|]. split; [lia|]. intros j Hj Hne. rewrite !HV by lia.
        assert (Hc : (j = 0 \/ j = 2 \/ j = 3 \/ j = 4)%nat) by lia.
        destruct Hc as [->|[->|[->| ->]]]; cbn [index_base nth]; lia.
      + assert (LA := Hs bA IA ltac:(discriminate)). assert (LC := Hs bC IC ltac:(discriminate)).
        assert (LT := Hs bT IT ltac:(discriminate)). clear Hs IA IC IG IT.
        exists 2%nat. split; [reflexivity|]. split; [lia|]. intros j Hj Hne. rewrite !HV by lia.
        assert (Hc : (j = 0 \/ j = 1 \/ j = 3 \/ j = 4)%nat) by lia.
        destruct Hc as [->|[->|[->| ->]]]; cbn [index_base nth]; lia.
      + assert (LA := Hs bA IA ltac:(discriminate)). assert (LC := Hs bC IC ltac:(discriminate)).
        assert (LG := Hs bG IG ltac:(discriminate)). clear Hs IA IC IG IT.
        exists 3%nat. split; [reflexivity|]. split; [lia|]. intros j Hj Hne. rewrite !HV by lia.
        assert (Hc : (j = 0 \/ j = 1 \/ j = 2 \/ j = 4)%nat) by lia.
        destruct Hc as [->|[->|[->| ->]]]; cbn [index_base nth]; lia.
  Qed.

  Theorem majority_iff ds fs out k b : bases_ok fs -> mol_consensus skip ds fs = Ok out ->
    (dget k out = Some b <-> is_majority ds fs k b).
  Proof.
    intros Hok H. rewrite (consensus_general skip ds fs out k b H). apply strict_max_majority. assumption.
  Qed.
End Major.

(* ------------------------------------------------------------------ H'. the computed majority, tie / N corollaries, totality *)
Section Major2.
  Variable skip : opts -> frag -> bool.

  Lemma majority_unique ds fs k b1 b2 : is_majority skip ds fs k b1 -> is_majority skip ds fs k b2 -> b1 = b2.
  Proof.
    intros [I1 H1] [I2 H2]. destruct (Z.eq_dec b1 b2) as [E|E]; [assumption|].
    specialize (H1 b2 I2 (not_eq_sym E)). specialize (H2 b1 I1 E). lia.
  Qed.

  Lemma majority_pred ds fs k b : In b acgt ->
    forallb (fun b' => (b' =? b) || (votes skip ds fs k b' <? votes skip ds fs k b)) acgt = true <->
    (forall b', In b' acgt -> b' <> b -> votes skip ds fs k b' < votes skip ds fs k b).
  Proof.
    intros _. rewrite forallb_forall. split.
    - intros H b' Hin Hne. specialize (H b' Hin). apply orb_true_iff in H. destruct H as [H|H].
      + apply Z.eqb_eq in H. contradiction.
      + apply Z.ltb_lt. assumption.
    - intros H b' Hin. destruct (b' =? b) eqn:E; [reflexivity|]. apply Z.eqb_neq in E. cbn [orb].
      apply Z.ltb_lt. auto.
  Qed.

  Lemma majority_spec ds fs k b : majority skip ds fs k = Some b <-> is_majority skip ds fs k b.
  Proof.
    unfold majority. split.
    - intros H. apply find_some in H. destruct H as [Hin H]. split; [assumption|]. apply majority_pred; assumption.
    - intros Hm. destruct (find _ acgt) as [b0|] eqn:E.
      + f_equal. apply find_some in E. destruct E as [Hin0 H0]. pose proof (proj1 (majority_pred ds fs k b0 Hin0) H0) as H0'.
        apply (majority_unique ds fs k); [split; [exact Hin0|exact H0']|assumption].
      + exfalso. destruct Hm as [Hin Hs]. pose proof (find_none _ _ E b Hin) as Hn. cbv beta in Hn.
        pose proof (proj2 (majority_pred ds fs k b Hin) Hs) as Hp. congruence.
  Qed.

  Theorem consensus_is_majority ds fs out k : bases_ok fs -> mol_consensus skip ds fs = Ok out ->
    dget k out = majority skip ds fs k.
  Proof.
    intros Hok H. apply opt_ext. intros b. rewrite majority_spec. apply majority_iff; assumption.
  Qed.

  Lemma opt_eqb_refl o : opt_eqb o o = true.
  Proof. destruct o; cbn; [apply Z.eqb_refl|reflexivity]. Qed.

  Theorem specb_sound ds fs out : bases_ok fs -> mol_consensus skip ds fs = Ok out -> specb skip ds fs out = true.
  Proof.
    intros Hok H. unfold specb. apply forallb_forall. intros k _.
    rewrite (consensus_is_majority ds fs out k Hok H). apply opt_eqb_refl.
  Qed.

  (* a tie for the highest count, or no non-N call at all: the position is absent *)
  Theorem tie_absent ds fs out k b1 b2 : bases_ok fs -> mol_consensus skip ds fs = Ok out ->
    In b1 acgt -> In b2 acgt -> b1 <> b2 -> votes skip ds fs k b1 = votes skip ds fs k b2 ->
    (forall b, In b acgt -> votes skip ds fs k b <= votes skip ds fs k b1) ->
    dget k out = None.
  Proof.
    intros Hok H I1 I2 Hne Heq Hmax. destruct (dget k out) as [b|] eqn:E; [|reflexivity]. exfalso.
    apply (majority_iff skip ds fs out k b Hok H) in E. destruct E as [Hin Hs].
    destruct (Z.eq_dec b b1) as [->|N1].
    - specialize (Hs b2 I2 (not_eq_sym Hne)). lia.
    - specialize (Hs b1 I1 (not_eq_sym N1)). specialize (Hmax b Hin). lia.
  Qed.

  Theorem no_votes_absent ds fs out k : bases_ok fs -> mol_consensus skip ds fs = Ok out ->
    (forall f, In f fs -> frag_call skip ds f k = None) -> dget k out = None.
  Proof.
    intros Hok H Hnone. destruct (dget k out) as [b|] eqn:E; [|reflexivity]. exfalso.
    apply (majority_iff skip ds fs out k b Hok H) in E. destruct E as [Hin Hs].
    assert (Hz : forall b', votes skip ds fs k b' = 0).
    { intros b'. unfold votes. clear - Hnone. induction fs as [|f fs' IH]; [reflexivity|].
      cbn [map]. rewrite zsum_cons, IH by (intros; apply Hnone; right; assumption).
      rewrite (Hnone f) by (left; reflexivity). reflexivity. }
    assert (Ho : exists b', In b' acgt /\ b' <> b).
    { destruct (Z.eq_dec b bA) as [->|N]; [exists bC; split; [cbn; tauto|discriminate] | exists bA; split; [cbn; tauto|congruence]]. }
    destruct Ho as (b' & I' & N'). specialize (Hs b' I' N'). rewrite !Hz in Hs. lia.
  Qed.

  (* outcome *)
  Lemma two_slots_no_raise ds f : two_slots f = true -> raises skip ds f = false.
  Proof.
    unfold two_slots, raises, frag_consensus. intros H. apply Nat.eqb_eq in H.
    destruct f as [|r1 [|r2 [|r3 f]]]; try discriminate. cbn [nth_error].
    destruct (skip ds [r1; r2]); [reflexivity|]. cbn [negb andb].
    destruct (window ds r1 r2) as [w| |] eqn:Ew; try reflexivity.
    - destruct (read_dict w (flt1 ds) r1) as [d1| |] eqn:E1; try reflexivity.
      + destruct (read_dict w (flt2 ds) r2) as [d2| |] eqn:E2; try reflexivity.
        destruct r2 as [r|]; cbn [read_dict] in E2; [destruct (r_md r)|]; discriminate.
      + destruct r1 as [r|]; cbn [read_dict] in E1; [destruct (r_md r)|]; discriminate.
    - unfold window in Ew. destruct (o_ds ds); [|discriminate]. destruct r1 as [a|], r2 as [b|]; try discriminate.
      destruct (r_rev a && negb (r_rev b)); [discriminate|]. destruct (negb (r_rev a) && r_rev b); discriminate.
  Qed.

  Theorem consensus_total ds fs : forallb two_slots fs = true -> exists out, mol_consensus skip ds fs = Ok out.
  Proof.
    intros H. destruct (mol_consensus_outcome skip ds fs) as [[H1 _]|[_ H2]]; [|assumption].
    exfalso. apply existsb_exists in H1. destruct H1 as (f & Hin & Hr). rewrite forallb_forall in H.
    rewrite (two_slots_no_raise ds f (H f Hin)) in Hr. discriminate.
  Qed.

  Lemma pre_bases_ok fs : pre fs = true -> bases_ok fs /\ forallb two_slots fs = true.
  Proof.
    unfold pre, bases_ok. rewrite forallb_forall. intros H. split.
    - intros f Hf. specialize (H f Hf). apply andb_true_iff in H. tauto.
    - apply forallb_forall. intros f Hf. specialize (H f Hf). apply andb_true_iff in H. tauto.
  Qed.

  (* ---------------------------------------------------------------- I. insertion order and duplication *)
  Lemma V_perm ds fs fs' k j : Permutation fs fs' -> V skip ds fs k j = V skip ds fs' k j.
  Proof. intros H. unfold V. apply zsum_perm, Permutation_map, H. Qed.
  Lemma existsb_perm {A} (p : A -> bool) l l' : Permutation l l' -> existsb p l = existsb p l'.
  Proof.
    intros H. induction H as [|x l l' H IH|x y l|l l' l'' H1 IH1 H2 IH2]; cbn [existsb].
    - reflexivity.
    - rewrite IH. reflexivity.
    - destruct (p x), (p y); reflexivity.
    - congruence.
  Qed.

  Lemma consensus_equiv ds fs1 fs2 :
    existsb (raises skip ds) fs1 = existsb (raises skip ds) fs2 ->
    (forall k i, strict_max (V skip ds fs1 k) i <-> strict_max (V skip ds fs2 k) i) ->
    res_equiv (mol_consensus skip ds fs1) (mol_consensus skip ds fs2).
  Proof.
    intros He Hs.
    destruct (mol_consensus_outcome skip ds fs1) as [[R1 E1]|[R1 [o1 E1]]];
    destruct (mol_consensus_outcome skip ds fs2) as [[R2 E2]|[R2 [o2 E2]]]; rewrite E1, E2; cbn [res_equiv];
      try exact I; try congruence.
    intros k. apply opt_ext. intros b.
    rewrite (consensus_general skip ds fs1 o1 k b E1), (consensus_general skip ds fs2 o2 k b E2).
    split; intros (i & Hb & Hm); exists i; (split; [assumption|]); apply Hs; assumption.
  Qed.

  Theorem perm_invariant ds fs fs' : Permutation fs fs' ->
    res_equiv (mol_consensus skip ds fs) (mol_consensus skip ds fs').
  Proof.
    intros H. apply consensus_equiv; [apply existsb_perm; assumption|].
    intros k i. unfold strict_max. split; intros [Hi Hs]; (split; [assumption|]); intros j Hj Hne;
      [rewrite <- !(V_perm ds fs fs' k) by assumption | rewrite !(V_perm ds fs fs' k) by assumption]; auto.
  Qed.

  Lemma V_double ds fs k j : V skip ds (fs ++ fs) k j = 2 * V skip ds fs k j.
  Proof. unfold V. rewrite map_app, zsum_app. lia. Qed.

  Theorem double_invariant ds fs fs2 : Permutation fs2 (fs ++ fs) ->
    res_equiv (mol_consensus skip ds fs2) (mol_consensus skip ds fs).
  Proof.
    intros H. apply consensus_equiv.
    - rewrite (existsb_perm _ _ _ H), existsb_app. destruct (existsb _ fs); reflexivity.
    - intros k i. unfold strict_max. split; intros [Hi Hs]; (split; [assumption|]); intros j Hj Hne;
        specialize (Hs j Hj Hne); rewrite !(V_perm ds fs2 (fs ++ fs) k) in * by assumption;
        rewrite !V_double in *; lia.
  Qed.

  (* ---------------------------------------------------------------- K. one call per fragment *)
  Definition vsum (v : vec) : Z := vnth 0 v + vnth 1 v + vnth 2 v + vnth 3 v + vnth 4 v.
  Definition has_call (ds : opts) (k : key) (f : frag) : bool :=
    match frag_call skip ds f k with Some _ => true | None => false end.

  Lemma call_ind_sum o : (forall b, o = Some b -> base_index b <> None) ->
    call_ind o 0 + call_ind o 1 + call_ind o 2 + call_ind o 3 + call_ind o 4 =
    match o with Some _ => 1 | None => 0 end.
  Proof.
    intros H. destruct o as [b|]; [|reflexivity]. cbn [call_ind].
    destruct (base_index b) as [i|] eqn:E; [|exfalso; exact (H b eq_refl E)].
    pose proof (base_index_lt _ _ E). do 5 (destruct i as [|i]; [reflexivity|]). lia.
  Qed.

  Lemma frag_call_base_ok ds f k b : frag_bases_ok f = true -> frag_call skip ds f k = Some b -> base_index b <> None.
  Proof.
    intros Hok Hc. destruct (skip ds f) eqn:Hs; [rewrite frag_call_none in Hc by (left; assumption); discriminate|].
    destruct (frag_consensus ds f) as [items| |] eqn:E;
      try (rewrite frag_call_none in Hc; [discriminate|right; intros it; rewrite E; discriminate]).
    rewrite (frag_call_items skip _ _ _ _ Hs E) in Hc.
    destruct (dget k items) as [[b' q]|] eqn:Eg; [|discriminate]. destruct (b' =? bN); [discriminate|].
    inversion Hc; subst. eapply frag_items_bases; [eassumption|assumption|]. apply dget_some_in. eassumption.
  Qed.

  Theorem one_call_per_fragment ds fs t k : bases_ok fs -> mol_table skip ds fs [] = Ok t ->
    vsum (tget k t) = Z.of_nat (length (filter (has_call ds k) fs)).
  Proof.
    intros Hok H. unfold vsum. rewrite !(mol_table_sum skip ds fs [] t H), tget_nil, !vnth_zeros. clear H.
    unfold V. induction fs as [|f fs' IH]; [reflexivity|].
    cbn [map filter]. rewrite !zsum_cons.
    assert (Hok' : bases_ok fs') by (intros g Hg; apply Hok; right; assumption).
    specialize (IH Hok'). rewrite !contrib_ind by (apply Hok; left; reflexivity).
    pose proof (call_ind_sum (frag_call skip ds f k)) as Hs.
    unfold has_call at 1. destruct (frag_call skip ds f k) as [b|] eqn:E.
    - cbn [length]. rewrite Nat2Z.inj_succ.
      assert (Hb : forall b0, Some b = Some b0 -> base_index b0 <> None)
        by (intros b0 Hb0; inversion Hb0; subst; eapply frag_call_base_ok; [apply Hok; left; reflexivity|eassumption]).
      specialize (Hs Hb). lia.
    - cbn [call_ind]. lia.
  Qed.
End Major2.

(* ------------------------------------------------------------------ J. pick_best_base_call *)
Definition calls_nonneg (cs : list (option call)) : Prop := forall b q, In (Some (b, q)) cs -> 0 <= q.

Definition pb_inv (l : list (option call)) (s : pb_state) : Prop :=
  ((forall c, In c l -> c = None) /\ s = pb_init) \/
  (exists b, pb_base s = Some b /\ In (Some (b, pb_q s)) l /\
     (forall b' q', In (Some (b', q')) l -> q' <= pb_q s) /\
     (pb_tie s = true <-> exists b', b' <> b /\ In (Some (b', pb_q s)) l)).

Lemma in_snoc {A} (x y : A) l : In x (l ++ [y]) <-> In x l \/ x = y.
Proof. rewrite in_app_iff. cbn [In]. intuition congruence. Qed.

Lemma pb_inv_step l s c : calls_nonneg (l ++ [c]) -> pb_inv l s -> pb_inv (l ++ [c]) (pb_step s c).
Proof.
  intros Hnn Hinv. destruct c as [[b0 q0]|].
  - assert (Hq0 : 0 <= q0) by (apply (Hnn b0 q0), in_snoc; right; reflexivity).
    destruct Hinv as [[Hall ->]|(b & Hb & Hin & Hle & Htie)].
    + right. cbn [pb_step pb_init pb_q pb_base pb_tie].
      destruct (q0 >? -1) eqn:E; [|lia]. cbn [pb_q pb_base pb_tie]. exists b0. split; [reflexivity|].
      split; [apply in_snoc; right; reflexivity|]. split.
      * intros b' q' H. apply in_snoc in H. destruct H as [H|H]; [apply Hall in H; discriminate|inversion H; lia].
      * split; [discriminate|]. intros (b' & Hne & H). apply in_snoc in H.
        destruct H as [H|H]; [apply Hall in H; discriminate|inversion H; congruence].
    + right. cbn [pb_step]. destruct (q0 >? pb_q s) eqn:E.
      * cbn [pb_q pb_base pb_tie]. exists b0. split; [reflexivity|]. split; [apply in_snoc; right; reflexivity|]. split.
        -- intros b' q' H. apply in_snoc in H. destruct H as [H|H]; [specialize (Hle _ _ H); lia|inversion H; lia].
        -- split; [discriminate|]. intros (b' & Hne & H). apply in_snoc in H.
           destruct H as [H|H]; [specialize (Hle _ _ H); lia|inversion H; congruence].
      * rewrite Hb. cbn [opt_is]. destruct ((q0 =? pb_q s) && negb (b =? b0)) eqn:E2.
        -- apply andb_true_iff in E2. destruct E2 as [E2 E3]. apply Z.eqb_eq in E2.
           apply negb_true_iff, Z.eqb_neq in E3. cbn [pb_q pb_base pb_tie]. exists b. split; [reflexivity|].
           split; [apply in_snoc; left; assumption|]. split.
           ++ intros b' q' H. apply in_snoc in H. destruct H as [H|H]; [eauto|inversion H; lia].
           ++ split; [|reflexivity]. intros _. exists b0. split; [apply not_eq_sym; assumption|]. apply in_snoc. right. rewrite E2. reflexivity.
        -- exists b. split; [assumption|]. split; [apply in_snoc; left; assumption|]. split.
           ++ intros b' q' H. apply in_snoc in H. destruct H as [H|H]; [eauto|inversion H; lia].
           ++ rewrite Htie. split.
              ** intros (b' & Hne & H). exists b'. split; [assumption|]. apply in_snoc. left. assumption.
              ** intros (b' & Hne & H). apply in_snoc in H. destruct H as [H|H]; [exists b'; split; assumption|].
                 inversion H; subst. rewrite Z.eqb_refl in E2. cbn [andb] in E2.
                 apply negb_false_iff, Z.eqb_eq in E2. congruence.
  - cbn [pb_step]. destruct Hinv as [[Hall ->]|(b & Hb & Hin & Hle & Htie)].
    + left. split; [|reflexivity]. intros c H. apply in_snoc in H. destruct H as [H|H]; [auto|assumption].
    + right. exists b. split; [assumption|]. split; [apply in_snoc; left; assumption|]. split.
      * intros b' q' H. apply in_snoc in H. destruct H as [H|H]; [eauto|discriminate].
      * rewrite Htie. split; intros (b' & Hne & H); exists b'; (split; [assumption|]).
        -- apply in_snoc. left. assumption.
        -- apply in_snoc in H. destruct H as [H|H]; [assumption|discriminate].
Qed.

Lemma pb_inv_fold cs : calls_nonneg cs -> pb_inv cs (fold_left pb_step cs pb_init).
Proof.
  induction cs as [|c l IH] using rev_ind; intros Hnn.
  - left. split; [intros c []|reflexivity].
  - rewrite fold_left_app. cbn [fold_left]. apply pb_inv_step; [assumption|]. apply IH.
    intros b q H. apply (Hnn b q), in_snoc. left. assumption.
Qed.

(* the call with the highest quality wins when every call of that quality names the same base *)
Theorem pick_unique cs b q : calls_nonneg cs -> In (Some (b, q)) cs ->
  (forall b' q', In (Some (b', q')) cs -> q' <= q /\ (q' = q -> b' = b)) -> pick_best cs = (b, q).
Proof.
  intros Hnn Hin Hmax. unfold pick_best, pb_result.
  destruct (pb_inv_fold cs Hnn) as [[Hall _]|(b0 & Hb & Hin0 & Hle & Htie)].
  - apply Hall in Hin. discriminate.
  - set (s := fold_left pb_step cs pb_init) in *. rewrite Hb.
    assert (Hq : pb_q s = q) by (specialize (Hle _ _ Hin); destruct (Hmax _ _ Hin0); lia).
    assert (Hb0 : b0 = b) by (destruct (Hmax _ _ Hin0) as [_ H]; apply H; assumption).
    destruct (pb_tie s) eqn:Et; [|congruence].
    destruct (proj1 Htie eq_refl) as (b' & Hne & H'). destruct (Hmax _ _ H') as [_ H]. specialize (H Hq). congruence.
Qed.

(* two calls of the highest quality naming different bases: no call ('N', 0) *)
Theorem pick_tie cs b1 b2 q : calls_nonneg cs -> In (Some (b1, q)) cs -> In (Some (b2, q)) cs -> b1 <> b2 ->
  (forall b' q', In (Some (b', q')) cs -> q' <= q) -> pick_best cs = (bN, 0).
Proof.
  intros Hnn H1 H2 Hne Hmax. unfold pick_best, pb_result.
  destruct (pb_inv_fold cs Hnn) as [[Hall _]|(b0 & Hb & Hin0 & Hle & Htie)].
  - apply Hall in H1. discriminate.
  - set (s := fold_left pb_step cs pb_init) in *. rewrite Hb.
    assert (Hq : pb_q s = q) by (specialize (Hle _ _ H1); specialize (Hmax _ _ Hin0); lia).
    assert (Ht : pb_tie s = true).
    { apply Htie. rewrite Hq. destruct (Z.eq_dec b1 b0) as [->|N1]; [exists b2; split; [congruence|assumption]|exists b1; split; assumption]. }
    rewrite Ht. reflexivity.
Qed.

Theorem pick_none cs : (forall c, In c cs -> c = None) -> pick_best cs = (bN, 0).
Proof.
  intros Hall. unfold pick_best, pb_result.
  assert (Hnn : calls_nonneg cs) by (intros b q H; apply Hall in H; discriminate).
  destruct (pb_inv_fold cs Hnn) as [[_ ->]|(b0 & Hb & Hin0 & _)]; [reflexivity|].
  apply Hall in Hin0. discriminate.
Qed.

(* the two-mate instances used by Fragment.get_consensus *)
Lemma pick2_hi_l b1 q1 b2 q2 : 0 <= q2 < q1 -> pick_best [Some (b1, q1); Some (b2, q2)] = (b1, q1).
Proof.
  intros H. apply pick_unique.
  - intros b q [E|[E|[]]]; inversion E; lia.
  - left. reflexivity.
  - intros b' q' [E|[E|[]]]; inversion E; subst; split; try lia; intros; reflexivity.
Qed.
Lemma pick2_hi_r b1 q1 b2 q2 : 0 <= q1 < q2 -> pick_best [Some (b1, q1); Some (b2, q2)] = (b2, q2).
Proof.
  intros H. apply pick_unique.
  - intros b q [E|[E|[]]]; inversion E; lia.
  - right. left. reflexivity.
  - intros b' q' [E|[E|[]]]; inversion E; subst; split; try lia; intros; reflexivity.
Qed.
Lemma pick2_eq_same b q : 0 <= q -> pick_best [Some (b, q); Some (b, q)] = (b, q).
Proof.
  intros H. apply pick_unique.
  - intros b' q' [E|[E|[]]]; inversion E; lia.
  - left. reflexivity.
  - intros b' q' [E|[E|[]]]; inversion E; subst; split; try lia; intros; reflexivity.
Qed.
Lemma pick2_eq_diff b1 b2 q : 0 <= q -> b1 <> b2 -> pick_best [Some (b1, q); Some (b2, q)] = (bN, 0).
Proof.
  intros H Hne. apply (pick_tie _ b1 b2 q); try assumption.
  - intros b' q' [E|[E|[]]]; inversion E; lia.
  - left. reflexivity.
  - right. left. reflexivity.
  - intros b' q' [E|[E|[]]]; inversion E; lia.
Qed.
Lemma pick1_l b q : 0 <= q -> pick_best [Some (b, q); None] = (b, q).
Proof.
  intros H. apply pick_unique.
  - intros b' q' [E|[E|[]]]; inversion E; lia.
  - left. reflexivity.
  - intros b' q' [E|[E|[]]]; inversion E; subst; split; try lia; intros; reflexivity.
Qed.
Lemma pick1_r b q : 0 <= q -> pick_best [None; Some (b, q)] = (b, q).
Proof.
  intros H. apply pick_unique.
  - intros b' q' [E|[E|[]]]; inversion E; lia.
  - right. left. reflexivity.
  - intros b' q' [E|[E|[]]]; inversion E; subst; split; try lia; intros; reflexivity.
Qed.

(* order of the two mates is irrelevant *)
Lemma pick2_comm c1 c2 : calls_nonneg [c1; c2] -> pick_best [c1; c2] = pick_best [c2; c1].
Proof.
  intros Hnn. destruct c1 as [[b1 q1]|], c2 as [[b2 q2]|].
  - assert (0 <= q1) by (apply (Hnn b1 q1); left; reflexivity).
    assert (0 <= q2) by (apply (Hnn b2 q2); right; left; reflexivity).
    destruct (Z.lt_trichotomy q1 q2) as [L|[E|G]].
    + rewrite pick2_hi_r, pick2_hi_l by lia. reflexivity.
    + subst q2. destruct (Z.eq_dec b1 b2) as [->|N]; [reflexivity|].
      rewrite !pick2_eq_diff by (try lia; congruence). reflexivity.
    + rewrite pick2_hi_l, pick2_hi_r by lia. reflexivity.
  - assert (0 <= q1) by (apply (Hnn b1 q1); left; reflexivity). rewrite pick1_l, pick1_r by lia. reflexivity.
  - assert (0 <= q2) by (apply (Hnn b2 q2); right; left; reflexivity). rewrite pick1_l, pick1_r by lia. reflexivity.
  - reflexivity.
Qed.

(* ------------------------------------------------------------------ K. what a read contributes: its aligned triples inside the window *)
Definition call_pos (c : acall) : Z := let '(p, _, _, _, _) := c in p.

Lemma fold_dset_notin {A} (items : list (key * A)) k : ~ In k (map fst items) ->
  forall d, dget k (fold_left (fun d kv => dset (fst kv) (snd kv) d) items d) = dget k d.
Proof.
  induction items as [|[k0 v0] items IH]; intros Hn d; [reflexivity|].
  cbn [fold_left fst snd]. rewrite IH by (intros H; apply Hn; right; assumption).
  rewrite dget_dset. destruct (key_eqb k k0) eqn:E; [|reflexivity].
  apply key_eqb_eq in E. subst. exfalso. apply Hn. left. reflexivity.
Qed.

Lemma dict_of_in {A} (items : list (key * A)) k v : NoDup (map fst items) -> In (k, v) items ->
  dget k (dict_of items) = Some v.
Proof.
  unfold dict_of. generalize (@nil (key * A)) as d.
  induction items as [|[k0 v0] items IH]; intros d Hn Hin; [destruct Hin|].
  cbn [map fst] in Hn. inversion Hn as [|? ? Hnot Hn']; subst. cbn [fold_left fst snd].
  destruct Hin as [E|Hin].
  - inversion E; subst. rewrite fold_dset_notin by assumption. rewrite dget_dset, key_eqb_refl. reflexivity.
  - apply IH; assumption.
Qed.

Lemma NoDup_map_filter {A B} (f : A -> B) (g : A -> bool) l : NoDup (map f l) -> NoDup (map f (filter g l)).
Proof.
  induction l as [|x l IH]; intros H; [constructor|]. cbn [map] in H. inversion H as [|? ? Hn Hd]; subst.
  cbn [filter]. destruct (g x); [|auto]. cbn [map]. constructor; [|auto].
  intros Hin. apply Hn. apply in_map_iff in Hin. destruct Hin as (y & <- & Hy). apply filter_In in Hy.
  apply in_map. tauto.
Qed.

Lemma read_items_keys w fl r :
  map fst (read_items w fl r) = map (fun p0 => (r_contig r, p0)) (map call_pos (filter (keep_call w fl r) (r_calls r))).
Proof. unfold read_items. rewrite !map_map. apply map_ext. intros [[[[p0 b0] q0] qp0] rb0]. reflexivity. Qed.

(* a mate contributes (b, q) at (c, p) iff it is on contig c and one of its aligned pairs at p carries (b, q) and passes
   every filter of the comprehension (window, min_phred_score, skipped cycles, only_include_refbase) *)
Theorem read_dict_get w fl r d c p b q : read_dict w fl (Some r) = Ok d -> NoDup (map call_pos (r_calls r)) ->
  (dget (c, p) d = Some (b, q) <->
   c = r_contig r /\ exists qp rb, In (p, b, q, qp, rb) (r_calls r) /\ keep_call w fl r (p, b, q, qp, rb) = true).
Proof.
  cbn [read_dict]. destruct (r_md r); [|discriminate]. intros H Hn. inversion H; subst d. clear H. split.
  - intros H. apply dict_of_get in H. unfold read_items in H. apply in_map_iff in H.
    destruct H as ([[[[p' b'] q'] qp] rb] & E & Hin). inversion E; subst. apply filter_In in Hin.
    split; [reflexivity|]. exists qp, rb. tauto.
  - intros (-> & qp & rb & Hin & Hk). apply dict_of_in.
    + rewrite read_items_keys. apply FinFun.Injective_map_NoDup; [intros x y Hxy; inversion Hxy; reflexivity|].
      apply NoDup_map_filter. assumption.
    + unfold read_items. apply in_map_iff. exists (p, b, q, qp, rb). split; [reflexivity|]. apply filter_In. tauto.
Qed.

Lemma keep_call_default w r p b q qp rb : keep_call w (flt1 (dflt false)) r (p, b, q, qp, rb) = in_win w p.
Proof. cbn. rewrite !andb_true_r. reflexivity. Qed.

(* ------------------------------------------------------------------ D16: /repo HEAD's skip rule drops R2-only fragments *)
Definition ex_read (rev : bool) (b : Z) : option read :=
  Some {| r_contig := 0; r_start := 20; r_end := 21; r_rev := rev; r_md := true; r_calls := [(20, b, 30, 0, bA)]; r_qlen := 1 |}.
Definition ex_d16 : list frag := [[ex_read false bA; None]; [None; ex_read true bC]; [None; ex_read true bC]].

Lemma head_refuted :
  exists fs out, pre fs = true /\ mol_consensus skip_head (dflt false) fs = Ok out /\
                 majority skip_fixed (dflt false) fs (0, 20) = Some bC /\ dget (0, 20) out = Some bA.
Proof. exists ex_d16. eexists. vm_compute. repeat split. Qed.

Lemma head_r2_only_no_call ds r k : frag_call skip_head ds [None; Some r] k = None.
Proof. unfold frag_call, skip_head, has_R1, has_R2. cbn [nth_error]. rewrite orb_true_r. reflexivity. Qed.

(* ------------------------------------------------------------------ wrappers in the shape of Props/C13.v *)
Section Final.
  Variable skip : opts -> frag -> bool.

  Lemma majority_pre ds fs out k b : pre fs = true -> mol_consensus skip ds fs = Ok out ->
    (dget k out = Some b <->
     In b acgt /\ forall b', In b' acgt -> b' <> b -> votes skip ds fs k b' < votes skip ds fs k b).
  Proof. intros Hp. apply (majority_iff skip ds fs out k b). apply pre_bases_ok. assumption. Qed.

  Lemma total_pre ds fs : pre fs = true -> exists out, mol_consensus skip ds fs = Ok out.
  Proof. intros Hp. apply consensus_total. apply pre_bases_ok. assumption. Qed.

  Lemma table_is_votes ds fs t k j : pre fs = true -> mol_table skip ds fs [] = Ok t -> (j < 5)%nat ->
    vnth j (tget k t) = votes skip ds fs k (index_base j) /\ vnth 4 (tget k t) = 0.
  Proof.
    intros Hp H Hj. destruct (pre_bases_ok _ Hp) as [Hok _].
    rewrite !(mol_table_sum skip ds fs [] t H), tget_nil, !vnth_zeros, !V_votes by (assumption || lia).
    split; [lia|]. cbn [index_base nth]. rewrite votes_N. reflexivity.
  Qed.

  Lemma outcome_iff ds fs :
    (mol_consensus skip ds fs = IndexError <->
     exists f, In f fs /\ skip ds f = false /\ frag_consensus ds f = IndexError) /\
    mol_consensus skip ds fs <> ValueError.
  Proof.
    split.
    - destruct (mol_consensus_outcome skip ds fs) as [[H1 H2]|[H1 [out H2]]]; rewrite H2; split; intros H; try discriminate; try reflexivity.
      + apply existsb_exists in H1. destruct H1 as (f & Hin & Hr). exists f. split; [assumption|].
        unfold raises in Hr. apply andb_true_iff in Hr. destruct Hr as [Hr1 Hr2]. apply negb_true_iff in Hr1.
        split; [assumption|]. destruct (frag_consensus ds f); try discriminate. reflexivity.
      + exfalso. destruct H as (f & Hin & Hs & Hf).
        assert (Hr : existsb (raises skip ds) fs = true).
        { apply existsb_exists. exists f. split; [assumption|]. unfold raises. rewrite Hs, Hf. reflexivity. }
        congruence.
    - destruct (mol_consensus_outcome skip ds fs) as [[_ H2]|[_ [out H2]]]; rewrite H2; discriminate.
  Qed.

  Lemma frag_index_error ds f : frag_consensus ds f = IndexError <-> (length f < 2)%nat.
  Proof.
    split.
    - intros H. destruct f as [|r1 [|r2 f]]; cbn [length]; try lia. exfalso.
      pose proof (two_slots_no_raise (fun _ _ => false) ds [r1; r2] eq_refl) as Hr.
      unfold raises in Hr. cbn [negb andb] in Hr.
      unfold frag_consensus in *. cbn [nth_error] in *.
      destruct (window ds r1 r2) as [w| |]; try discriminate.
      destruct (read_dict w (flt1 ds) r1) as [d1| |]; try discriminate.
      destruct (read_dict w (flt2 ds) r2) as [d2| |]; discriminate.
    - intros H. destruct f as [|r1 [|r2 f]]; cbn [length] in H; try lia; reflexivity.
  Qed.
End Final.

Lemma skip_fixed_no_dove ds f : o_ds ds = false -> skip_fixed ds f = false.
Proof. unfold skip_fixed. intros ->. reflexivity. Qed.
Lemma skip_fixed_dove ds f : o_ds ds = true -> skip_fixed ds f = negb (has_R1 f && has_R2 f).
Proof. unfold skip_fixed. intros ->. cbn [andb]. destruct (has_R1 f), (has_R2 f); reflexivity. Qed.

(* non-vacuity: three fragments; position 20 has a 1:1 tie (A vs C; the third mate pair disagrees at equal
   quality -> N, no vote), position 21 a 2:1 majority, position 22 only N calls *)
Definition ex_rd (rev : bool) (calls : list (Z * Z * Z)) : option read :=
  Some {| r_contig := 0; r_start := 20; r_end := 23; r_rev := rev; r_md := true; r_qlen := 3;
          r_calls := map (fun c => let '(p, b, q) := c in (p, b, q, p - 20, bA)) calls |}.
Definition ex_mol : list frag :=
  [ [ex_rd false [(20, bA, 30); (21, bG, 30); (22, bN, 30)]; None];
    [None; ex_rd true [(20, bC, 30); (21, bG, 20); (22, bN, 2)]];
    [ex_rd false [(20, bA, 30); (21, bT, 37); (22, bN, 30)]; ex_rd true [(20, bC, 30); (21, bG, 30); (22, bA, 2)]] ].
Lemma ex_mol_facts :
  pre ex_mol = true /\ mol_consensus skip_fixed (dflt false) ex_mol = Ok [((0, 21), bG)] /\
  mol_consensus skip_fixed (dflt true) ex_mol = Ok [((0, 21), bT)] /\
  votes skip_fixed (dflt false) ex_mol (0, 20) bA = 1 /\ votes skip_fixed (dflt false) ex_mol (0, 20) bC = 1 /\
  votes skip_fixed (dflt false) ex_mol (0, 21) bG = 2 /\ votes skip_fixed (dflt false) ex_mol (0, 21) bT = 1 /\
  mol_consensus skip_fixed (dflt false) (ex_mol ++ [[ex_rd false []]]) = IndexError.
Proof. vm_compute. repeat split. Qed.

Lemma pick2_hi_both b1 q1 b2 q2 : 0 <= q2 < q1 ->
  pick_best [Some (b1, q1); Some (b2, q2)] = (b1, q1) /\ pick_best [Some (b2, q2); Some (b1, q1)] = (b1, q1).
Proof. intros H. exact (conj (pick2_hi_l b1 q1 b2 q2 H) (pick2_hi_r b2 q2 b1 q1 H)). Qed.
Lemma skip_rule ds f : (o_ds ds = false -> skip_fixed ds f = false) /\ (o_ds ds = true -> skip_fixed ds f = negb (has_R1 f && has_R2 f)).
Proof. exact (conj (skip_fixed_no_dove ds f) (skip_fixed_dove ds f)). Qed.

(* concrete instances of the hypotheses used in Props (non-vacuity) *)
Lemma ex_tie_facts :
  votes skip_fixed (dflt false) ex_mol (0, 20) bA = votes skip_fixed (dflt false) ex_mol (0, 20) bC /\
  forallb (fun b => votes skip_fixed (dflt false) ex_mol (0, 20) b <=? votes skip_fixed (dflt false) ex_mol (0, 20) bA) acgt = true /\
  frag_call skip_fixed (dflt false) (nth 2 ex_mol []) (0, 20) = None /\
  forallb (fun f => match frag_call skip_fixed (dflt false) f (0, 22) with None => true | Some _ => false end) ex_mol = true /\
  majority skip_fixed (dflt false) ex_mol (0, 20) = None /\ majority skip_fixed (dflt false) ex_mol (0, 21) = Some bG /\
  specb skip_fixed (dflt false) ex_mol [((0, 21), bG)] = true /\ specb skip_fixed (dflt false) ex_mol [((0, 21), bG); ((0, 20), bA)] = false.
Proof. vm_compute. repeat split. Qed.
Lemma ex_perm_facts :
  Permutation (rev ex_mol) ex_mol /\ mol_consensus skip_fixed (dflt false) (rev ex_mol) = mol_consensus skip_fixed (dflt false) ex_mol /\
  mol_consensus skip_fixed (dflt false) (ex_mol ++ rev ex_mol) = mol_consensus skip_fixed (dflt false) ex_mol /\
  mol_table skip_fixed (dflt false) ex_mol [] = Ok [((0, 20), (1, 1, 0, 0, 0)); ((0, 21), (0, 0, 2, 1, 0))].
Proof. split; [symmetry; apply Permutation_rev|]. vm_compute. repeat split. Qed.
Lemma ex_pick_facts :
  pick_best [Some (bA, 30); Some (bC, 30); Some (bA, 30)] = (bN, 0) /\
  pick_best [Some (bA, 30); None; Some (bC, 37)] = (bC, 37) /\
  pick_best [Some (bA, 0); Some (bA, 0)] = (bA, 0) /\ pick_best [None; None] = (bN, 0) /\
  calls_nonneg [Some (bA, 30); None; Some (bC, 37)].
Proof.
  repeat split; try reflexivity. intros b q [H|[H|[H|[]]]]; inversion H; subst; discriminate.
Qed.

(* ------------------------------------------------------------------ L. histories: get_consensus is stateless *)
Section History.
  Variable skip : opts -> frag -> bool.

  Lemma step_state st o : fst (step skip st o) = st ++ op_frags o.
  Proof. destruct o as [[|] f|f|fs|ds pr]; cbn [step fst op_frags]; rewrite ?app_nil_r; reflexivity. Qed.

  Lemma run_ops_app p : forall st q,
    run_ops skip st (p ++ q) = run_ops skip st p ++ run_ops skip (st ++ held p) q.
  Proof.
    induction p as [|o p IH]; intros st q.
    - cbn [app run_ops held flat_map]. rewrite app_nil_r. reflexivity.
    - cbn [app run_ops]. rewrite IH, step_state. unfold held. cbn [flat_map]. rewrite <- !app_assoc. reflexivity.
  Qed.

  (* whatever was added and asked before (any operation sequence p), a query answers for exactly the fragments held *)
  Theorem history_query p st ds pr :
    run_ops skip st (p ++ [OpGet ds pr]) = run_ops skip st p ++ [answer_of skip ds pr (st ++ held p)].
  Proof. rewrite run_ops_app. cbn [run_ops step fst snd]. rewrite app_nil_r. reflexivity. Qed.

  (* the number of answers is the number of queries: nothing else answers, nothing is dropped *)
  Lemma run_ops_length ops : forall st,
    length (run_ops skip st ops) = length (filter (fun o => match o with OpGet _ _ => true | _ => false end) ops).
  Proof.
    induction ops as [|o ops IH]; intros st; [reflexivity|]. cbn [run_ops filter]. rewrite app_length, IH.
    destruct o as [[|] f|f|fs|ds pr]; reflexivity.
  Qed.

  (* two histories that hold the same fragments (as multisets; any routes, orders, intervening queries) answer alike *)
  Theorem history_route_independent p1 p2 ds : Permutation (held p1) (held p2) ->
    exists r1 r2, run_ops skip [] (p1 ++ [OpGet ds false]) = run_ops skip [] p1 ++ [AnsCons r1] /\
                  run_ops skip [] (p2 ++ [OpGet ds false]) = run_ops skip [] p2 ++ [AnsCons r2] /\
                  r1 = mol_consensus skip ds (held p1) /\ r2 = mol_consensus skip ds (held p2) /\ res_equiv r1 r2.
  Proof.
    intros H. exists (mol_consensus skip ds (held p1)), (mol_consensus skip ds (held p2)).
    rewrite !history_query. cbn [app answer_of]. repeat split. apply perm_invariant. assumption.
  Qed.

  (* asking twice gives the same answer; asking does not change later answers *)
  Theorem history_query_idempotent p ds pr ds' pr' :
    run_ops skip [] (p ++ [OpGet ds' pr'; OpGet ds pr]) =
    run_ops skip [] p ++ [answer_of skip ds' pr' (held p); answer_of skip ds pr (held p)].
  Proof.
    rewrite run_ops_app. cbn [run_ops step fst snd app]. reflexivity.
  Qed.
End History.

Definition ex_history : list op :=
  [OpAdd true (nth 0 ex_mol []); OpGet (dflt false) false; OpMol [nth 1 ex_mol []; nth 2 ex_mol []]; OpGet (dflt false) false;
   OpAdd false (nth 0 ex_mol []); OpGet (dflt true) true; OpRaw (nth 1 ex_mol []); OpGet (dflt false) false].
Lemma ex_history_facts :
  run_ops skip_fixed [] ex_history =
  [AnsCons (Ok [((0, 20), bA); ((0, 21), bG)]);
   AnsCons (Ok [((0, 21), bG)]);
   AnsProbs (Ok [((0, 21), bT)]) (Ok [((0, 21), (0, 0, 0, 1, 0))]);
   AnsCons (Ok [((0, 20), bC); ((0, 21), bG)])] /\
  held ex_history = ex_mol ++ [nth 1 ex_mol []].
Proof. vm_compute. split; reflexivity. Qed.

(* the options matter: with min_phred_score=25 the quality-20 G of the second fragment no longer votes at 21 (tie G/T);
   a query with options followed by a plain query answers each for its own options *)
Definition ex_minq : opts :=
  {| o_ds := false; o_refbase := None; o_minq := Some 25; o_sf1 := None; o_sl1 := None; o_sf2 := None; o_sl2 := None;
     o_d1 := 0; o_d2 := 0 |}.
Definition ex_skipc : opts :=
  {| o_ds := true; o_refbase := Some bA; o_minq := None; o_sf1 := Some 0; o_sl1 := None; o_sf2 := Some 1; o_sl2 := Some 1;
     o_d1 := 1; o_d2 := 0 |}.
Lemma ex_opts_facts :
  mol_consensus skip_fixed ex_minq ex_mol = Ok [] /\
  mol_consensus skip_fixed (dflt false) ex_mol = Ok [((0, 21), bG)] /\
  run_ops skip_fixed [] [OpMol ex_mol; OpGet ex_minq false; OpGet (dflt false) false; OpGet ex_skipc false] =
  [AnsCons (Ok []); AnsCons (Ok [((0, 21), bG)]); AnsCons (Ok [((0, 21), bT)])].
Proof. vm_compute. repeat split. Qed.
