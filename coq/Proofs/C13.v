From Coq Require Import ZArith List Bool Lia.
Import ListNotations.
From SCMO Require Import Lib.Val Model.C13.
Open Scope Z_scope.
Lemma pick2_hi b1 q1 b2 q2 : 0 <= q2 < q1 -> pick_best [Some (b1, q1); Some (b2, q2)] = (b1, q1).
Proof.
  intros H. unfold pick_best, pb_result, pb_step, pb_init. cbn [fold_left pb_q pb_base pb_tie].
  destruct (q1 >? -1) eqn:E1; [|lia]. cbn [pb_q pb_base pb_tie].
  destruct (q2 >? q1) eqn:E2; [lia|]. destruct (q2 =? q1) eqn:E3; [lia|]. reflexivity.
Qed.
