(* C04 proofs, part 6: the regenerated form tables accept exactly the Illumina header shapes and hand the seven
   coordinates to the seven keys of the name format, so that the tagger restores "Is:RN:Fc:La:Ti:CX:CY" =
   the original header up to its first blank; headers with fewer or more fields are refused. *)
From Coq Require Import ZArith List Bool Lia.
Import ListNotations.
From SCMO Require Import Lib.Val Gen.GenCodec Model.C04 Proofs.C04 Proofs.C04_b Proofs.C04_c Proofs.C04_d Proofs.C04_e.
Open Scope Z_scope.

(* ------------------------------------------------------------------ the regenerated tables, written out *)
Definition asg10 : list (str * src) :=
  [(k_Is, SField 0); (k_RN, SField 1); (k_Fc, SField 2); (k_La, SField 3); (k_Ti, SField 4); (k_CX, SField 5);
   (k_CY, SField 6); (k_RP, SField 7); (k_Fi, SField 8); (k_CN, SField 9)].
Definition form1 : form := {| f_del := []; f_seps := [58; 32]; f_n := 11; f_assign := asg10; f_idx := SField 10 |}.
Definition form2 : form := {| f_del := [58; 58]; f_seps := [58; 32]; f_n := 10; f_assign := asg10; f_idx := SStr s_N |}.
Definition form3 : form :=
  {| f_del := []; f_seps := [58]; f_n := 7;
     f_assign := [(k_Is, SField 0); (k_RN, SField 1); (k_Fc, SField 2); (k_La, SField 3); (k_Ti, SField 4); (k_CX, SField 5);
                  (k_CY, SField 6); (k_RP, SInt 1); (k_Fi, SInt 0); (k_CN, SInt 0)];
     f_idx := SStr s_N |}.

(* fails when the source changes a form: the theorems of this file are about these three forms *)
Lemma gen_forms : forms0 = [form1; form2; form3].
Proof. reflexivity. Qed.
Lemma gen_index_tags : index_raw_tag = k_aa /\ index_found_tags = [(k_aA, 0); (k_aI, 1)].
Proof. split; reflexivity. Qed.
Lemma gen_name_keys7 : name_keys = [k_Is; k_RN; k_Fc; k_La; k_Ti; k_CX; k_CY].
Proof. reflexivity. Qed.
Lemma gen_wf_forms : forallb (wf_form fqsafe_ranges name_keys index_tags) forms0 = true.
Proof. vm_compute. reflexivity. Qed.
Lemma gen_raw_side : scmo_prefix = [64; 73; 115] /\ t_sep threedec0 = 95 /\ t_nsep threedec0 = 4.
Proof. repeat split; reflexivity. Qed.

(* ------------------------------------------------------------------ no two adjacent x *)
Fixpoint no_pair (x : Z) (s : str) : bool :=
  match s with
  | a :: r => match r with b :: _ => negb ((a =? x) && (b =? x)) | [] => true end && no_pair x r
  | [] => true
  end.

Fixpoint last_ne (x : Z) (s : str) : bool :=
  match s with
  | [] => false
  | a :: r => match r with [] => negb (a =? x) | _ :: _ => last_ne x r end
  end.

Lemma no_pair_occurs : forall x s, no_pair x s = true -> occurs [x; x] s = false.
Proof.
  intros x s. induction s as [|a r IH]; intro H; [reflexivity|].
  cbn [no_pair] in H. apply andb_true_iff in H. destruct H as [H1 H2].
  cbn [occurs]. rewrite (IH H2), orb_false_r. cbn [starts_with]. destruct r as [|b r'].
  - destruct (x =? a); reflexivity.
  - apply negb_true_iff in H1. rewrite (Z.eqb_sym x a), (Z.eqb_sym x b). rewrite andb_true_r. exact H1.
Qed.

Lemma remove_pair_none : forall x s, no_pair x s = true -> remove_sub [x; x] s = s.
Proof. intros x s H. apply remove_sub_noocc. apply no_pair_occurs. exact H. Qed.

Lemma remove_pair_end : forall x s, no_pair x s = true -> last_ne x s = true -> remove_sub [x; x] (s ++ [x; x]) = s.
Proof.
  intros x s. unfold remove_sub. induction s as [|a r IH]; intros H L; [discriminate|].
  cbn [no_pair] in H. apply andb_true_iff in H. destruct H as [H1 H2]. destruct r as [|b r'].
  - cbn [last_ne] in L. apply negb_true_iff in L. cbn [app remove_sub_aux starts_with length Nat.pred].
    rewrite (Z.eqb_sym x a), L. cbn [andb]. rewrite Z.eqb_refl. cbn [andb]. reflexivity.
  - cbn [last_ne] in L. apply negb_true_iff in H1.
    change ((a :: b :: r') ++ [x; x]) with (a :: (b :: r') ++ [x; x]).
    cbn [remove_sub_aux]. cbn [starts_with app]. rewrite (Z.eqb_sym x a), (Z.eqb_sym x b), andb_true_r, H1.
    f_equal. apply IH; assumption.
Qed.

Lemma no_pair_free : forall x p, ~ In x p -> no_pair x p = true.
Proof.
  intros x p. induction p as [|a r IH]; intro H; [reflexivity|]. cbn [no_pair].
  rewrite IH by (intro HI; apply H; right; exact HI). rewrite andb_true_r.
  destruct r; [reflexivity|]. assert (E : (a =? x) = false) by (apply Z.eqb_neq; intro; subst; apply H; left; reflexivity).
  rewrite E. reflexivity.
Qed.

Definition head_ne (x : Z) (s : str) : Prop := match s with g :: _ => g <> x | [] => True end.

Lemma no_pair_app_sep : forall x p s G, ~ In x p -> p <> [] -> no_pair x G = true -> head_ne x G ->
  no_pair x (p ++ s :: G) = true.
Proof.
  intros x p s G. induction p as [|a r IH]; intros Hf Hne HG Hh; [contradiction|].
  assert (Ea : (a =? x) = false) by (apply Z.eqb_neq; intro; subst; apply Hf; left; reflexivity).
  destruct r as [|b r'].
  - cbn [app no_pair]. rewrite Ea. cbn [andb negb]. rewrite HG, andb_true_r.
    destruct G as [|g G']; [reflexivity|]. cbn [head_ne] in Hh. apply Z.eqb_neq in Hh. rewrite Hh, andb_false_r. reflexivity.
  - change ((a :: b :: r') ++ s :: G) with (a :: (b :: r') ++ s :: G). cbn [no_pair]. cbn [app]. rewrite Ea. cbn [andb negb].
    apply IH; [intro HI; apply Hf; right; exact HI|discriminate|exact HG|exact Hh].
Qed.

Definition piece_ok (x : Z) (p : str) : Prop := p <> [] /\ ~ In x p.

Lemma head_glue : forall x ps ss, ps <> [] -> Forall (piece_ok x) ps -> head_ne x (glue ps ss) /\ glue ps ss <> [].
Proof.
  intros x ps ss Hne H. destruct ps as [|p r]; [contradiction|]. inversion H as [|? ? [Hp Hf] _]; subst.
  destruct p as [|a p']; [contradiction|].
  assert (Ha : a <> x) by (intro; subst; apply Hf; left; reflexivity).
  destruct r as [|q r]; [cbn [glue]; split; [exact Ha|discriminate]|].
  destruct ss as [|s ss]; cbn [glue app head_ne]; split; try exact Ha; discriminate.
Qed.

Lemma no_pair_glue : forall x ps ss, Forall (piece_ok x) ps -> no_pair x (glue ps ss) = true.
Proof.
  intros x ps. induction ps as [|p r IH]; intros ss H; [reflexivity|].
  inversion H as [|? ? [Hp Hf] Hr]; subst. destruct r as [|q r].
  - destruct ss; cbn [glue]; apply no_pair_free; exact Hf.
  - destruct ss as [|s ss]; [cbn [glue]; apply no_pair_free; exact Hf|].
    rewrite glue_cons2. apply no_pair_app_sep; [exact Hf|exact Hp|apply IH; exact Hr|].
    apply (head_glue x (q :: r) ss); [discriminate|exact Hr].
Qed.

Lemma last_ne_app : forall x p r, r <> [] -> last_ne x (p ++ r) = last_ne x r.
Proof.
  intros x p r Hr. induction p as [|a p IH]; [reflexivity|]. cbn [app last_ne].
  destruct (p ++ r) eqn:E; [destruct p; [cbn in E; contradiction|discriminate]|]. exact IH.
Qed.

Lemma last_ne_free : forall x p, p <> [] -> ~ In x p -> last_ne x p = true.
Proof.
  intros x p. induction p as [|a r IH]; intros Hne Hf; [contradiction|]. cbn [last_ne]. destruct r as [|b r'].
  - apply negb_true_iff. apply Z.eqb_neq. intro; subst. apply Hf. left. reflexivity.
  - apply IH; [discriminate|intro HI; apply Hf; right; exact HI].
Qed.

Lemma last_ne_glue : forall x ps ss, ps <> [] -> Forall (piece_ok x) ps -> last_ne x (glue ps ss) = true.
Proof.
  intros x ps. induction ps as [|p r IH]; intros ss Hne H; [contradiction|].
  inversion H as [|? ? [Hp Hf] Hr]; subst. destruct r as [|q r].
  - destruct ss; cbn [glue]; apply last_ne_free; assumption.
  - destruct ss as [|s ss]; [cbn [glue]; apply last_ne_free; assumption|].
    rewrite glue_cons2. rewrite last_ne_app by discriminate.
    pose proof (head_glue x (q :: r) ss) as HG. destruct HG as [_ HG]; [discriminate|exact Hr|].
    cbn [last_ne]. destruct (glue (q :: r) ss) eqn:E; [contradiction|]. rewrite <- E. apply IH; [discriminate|exact Hr].
Qed.

(* ------------------------------------------------------------------ the Illumina header shapes *)
(* fields of the header-safe alphabet contain neither ':' nor ' ' *)
Lemma field_ok_spec : forall f, field_ok f = true -> f <> [] /\ safe f = true /\ ~ In 58 f /\ ~ In 32 f.
Proof.
  intros f H. unfold field_ok in H. apply andb_true_iff in H. destruct H as [H1 H2].
  split; [intro; subst; discriminate|]. split; [exact H2|].
  split; intro HI; pose proof (safe_In C0 f _ H2 HI) as K; vm_compute in K; discriminate.
Qed.

Lemma field_free : forall f S, field_ok f = true -> (S = [58; 32] \/ S = [58]) -> forall c, In c f -> in_chars S c = false.
Proof.
  intros f S H HS c Hc. destruct (field_ok_spec f H) as [_ [_ [N1 N2]]].
  assert (c <> 58) by (intro; subst; contradiction). assert (c <> 32) by (intro; subst; contradiction).
  destruct HS; subst S; unfold in_chars; cbn [existsb]; repeat (rewrite (proj2 (Z.eqb_neq _ _)) by assumption); reflexivity.
Qed.

Lemma sepfree_free : forall i, sepfree i = true -> forall c, In c i -> in_chars [58; 32] c = false.
Proof.
  intros i H c Hc. pose proof (sepfree_In C0 i c H Hc) as K. destruct (sepfree_char_spec C0 c K) as [_ [B D]].
  change (k_kvsep C0) with 58 in B. assert (c <> 32).
  { intro; subst. vm_compute in D. discriminate. }
  unfold in_chars. cbn [existsb]. rewrite (proj2 (Z.eqb_neq _ _) B), (proj2 (Z.eqb_neq _ _) H0). reflexivity.
Qed.

(* what follows the coordinates *)
Inductive tail :=
| TNone                              (* "@Is:RN:Fc:La:Ti:CX:CY"                 -> form 3 *)
| TIdx (a b c i : str)               (* "... RP:Fi:CN:index"                    -> form 1 *)
| TPlain (a b c : str)               (* "... RP:Fi:CN"                          -> form 2 *)
| TColons (a b c : str).             (* "... RP:Fi:CN::"                        -> form 2 *)

Definition tail_str (t : tail) : str :=
  match t with
  | TNone => []
  | TIdx a b c i => 32 :: a ++ 58 :: b ++ 58 :: c ++ 58 :: i
  | TPlain a b c => 32 :: a ++ 58 :: b ++ 58 :: c
  | TColons a b c => 32 :: a ++ 58 :: b ++ 58 :: c ++ [58; 58]
  end.

Definition tail_wf (t : tail) : Prop :=
  match t with
  | TNone => True
  | TIdx a b c i => field_ok a = true /\ field_ok b = true /\ field_ok c = true /\ sepfree i = true
  | TPlain a b c | TColons a b c => field_ok a = true /\ field_ok b = true /\ field_ok c = true
  end.

Definition tail_pieces (t : tail) : list str :=
  match t with TNone => [] | TIdx a b c i => [a; b; c; i] | TPlain a b c | TColons a b c => [a; b; c] end.

Definition tail_form (t : tail) : form := match t with TNone => form3 | TIdx _ _ _ _ => form1 | _ => form2 end.

Definition coords7 (f0 f1 f2 f3 f4 f5 f6 : str) : str :=
  f0 ++ 58 :: f1 ++ 58 :: f2 ++ 58 :: f3 ++ 58 :: f4 ++ 58 :: f5 ++ 58 :: f6.

Lemma coords7_join : forall f0 f1 f2 f3 f4 f5 f6, coords7 f0 f1 f2 f3 f4 f5 f6 = join 58 [f0; f1; f2; f3; f4; f5; f6].
Proof. reflexivity. Qed.

Section Shapes.
  Variables f0 f1 f2 f3 f4 f5 f6 : str.
  Hypothesis H0 : field_ok f0 = true.
  Hypothesis H1 : field_ok f1 = true.
  Hypothesis H2 : field_ok f2 = true.
  Hypothesis H3 : field_ok f3 = true.
  Hypothesis H4 : field_ok f4 = true.
  Hypothesis H5 : field_ok f5 = true.
  Hypothesis H6 : field_ok f6 = true.

  Let P : list str := [64 :: f0; f1; f2; f3; f4; f5; f6].
  Definition header_of_shape (t : tail) : str := 64 :: coords7 f0 f1 f2 f3 f4 f5 f6 ++ tail_str t.

  Lemma at_field_free : forall S, (S = [58; 32] \/ S = [58]) -> forall c, In c (64 :: f0) -> in_chars S c = false.
  Proof.
    intros S HS c [Hc|Hc]; [subst c; destruct HS; subst S; reflexivity|]. apply (field_free f0 S H0 HS c Hc).
  Qed.

  Lemma P_free : forall S, (S = [58; 32] \/ S = [58]) -> Forall (fun p => forall c, In c p -> in_chars S c = false) P.
  Proof.
    intros S HS. unfold P. repeat constructor; try (apply at_field_free; exact HS);
      first [apply (field_free f1 S H1 HS)|apply (field_free f2 S H2 HS)|apply (field_free f3 S H3 HS)
            |apply (field_free f4 S H4 HS)|apply (field_free f5 S H5 HS)|apply (field_free f6 S H6 HS)].
  Qed.

  Lemma piece_ok_field : forall f, field_ok f = true -> piece_ok 58 f.
  Proof. intros f H. destruct (field_ok_spec f H) as [A [_ [B _]]]. split; assumption. Qed.

  Lemma P_piece_ok : Forall (piece_ok 58) P.
  Proof.
    unfold P. constructor.
    - split; [discriminate|]. intros [E|E]; [discriminate|]. destruct (field_ok_spec f0 H0) as [_ [_ [B _]]]. contradiction.
    - repeat constructor; apply piece_ok_field; assumption.
  Qed.

  (* the header as pieces glued by its separators *)
  Lemma shape_glue : forall t, exists ss,
    header_of_shape t = glue (P ++ tail_pieces t ++ match t with TColons _ _ _ => [[]; []] | _ => [] end) ss /\
    S (length ss) = length (P ++ tail_pieces t ++ match t with TColons _ _ _ => [[]; []] | _ => [] end) /\
    Forall (fun x => x = 58 \/ x = 32) ss /\
    (match t with TNone => Forall (fun x => x = 58) ss | _ => True end).
  Proof.
    intro t. unfold header_of_shape, coords7, P.
    assert (FA : forall ss, forallb (fun x => (x =? 58) || (x =? 32)) ss = true -> Forall (fun x => x = 58 \/ x = 32) ss).
    { intros ss Hs. apply Forall_forall. intros x Hx. rewrite forallb_forall in Hs. specialize (Hs x Hx).
      apply orb_true_iff in Hs. destruct Hs as [E|E]; apply Z.eqb_eq in E; [left|right]; exact E. }
    destruct t as [|a b c i|a b c|a b c]; cbn [tail_str tail_pieces app].
    - exists [58; 58; 58; 58; 58; 58]. rewrite app_nil_r. cbn [glue app].
      split; [reflexivity|]. split; [reflexivity|]. split; [apply FA; reflexivity|]. repeat constructor.
    - exists [58; 58; 58; 58; 58; 58; 32; 58; 58; 58]. cbn [glue]. repeat (rewrite <- app_assoc; cbn [app]).
      split; [reflexivity|]. split; [reflexivity|]. split; [apply FA; reflexivity|exact I].
    - exists [58; 58; 58; 58; 58; 58; 32; 58; 58]. cbn [glue]. repeat (rewrite <- app_assoc; cbn [app]).
      split; [reflexivity|]. split; [reflexivity|]. split; [apply FA; reflexivity|exact I].
    - exists [58; 58; 58; 58; 58; 58; 32; 58; 58; 58; 58]. cbn [glue]. repeat (rewrite <- app_assoc; cbn [app]).
      split; [reflexivity|]. split; [reflexivity|]. split; [apply FA; reflexivity|exact I].
  Qed.

  Lemma form_pieces_of : forall F h ps, split_any (f_seps F) (remove_sub (f_del F) h) = ps ->
    form_pieces F h = if len ps =? f_n F then Some ps else None.
  Proof. intros F h ps E. unfold form_pieces. cbv zeta. rewrite E. reflexivity. Qed.

  Let S2 : list Z := [58; 32].
  Let S1 : list Z := [58].

  Lemma seps2 : forall ss, Forall (fun x => x = 58 \/ x = 32) ss -> Forall (fun x => in_chars S2 x = true) ss.
  Proof. intros ss H. eapply Forall_impl; [|exact H]. intros x E. cbv beta in E. destruct E; subst; reflexivity. Qed.
  Lemma seps1 : forall ss, Forall (fun x => x = 58) ss -> Forall (fun x => in_chars S1 x = true) ss.
  Proof. intros ss H. eapply Forall_impl; [|exact H]. intros x E. cbv beta in E. subst. reflexivity. Qed.

  Lemma tail_free2 : forall t, tail_wf t ->
    Forall (fun p => forall c, In c p -> in_chars S2 c = false)
           (tail_pieces t ++ match t with TColons _ _ _ => [[]; []] | _ => [] end).
  Proof.
    intros t W. destruct t as [|a b c i|a b c|a b c]; cbn [tail_pieces app tail_wf] in *.
    - constructor.
    - destruct W as [A [B [D E]]]. repeat constructor;
        first [apply (field_free a S2 A); left; reflexivity|apply (field_free b S2 B); left; reflexivity
              |apply (field_free c S2 D); left; reflexivity|apply (sepfree_free i E)].
    - destruct W as [A [B D]]. repeat constructor;
        first [apply (field_free a S2 A); left; reflexivity|apply (field_free b S2 B); left; reflexivity
              |apply (field_free c S2 D); left; reflexivity].
    - destruct W as [A [B D]]. repeat constructor;
        first [apply (field_free a S2 A); left; reflexivity|apply (field_free b S2 B); left; reflexivity
              |apply (field_free c S2 D); left; reflexivity|intros x []].
  Qed.

  (* split at ':' and ' ' gives the pieces back, for every shape *)
  Lemma shape_split2 : forall t, tail_wf t ->
    split_any S2 (header_of_shape t) = P ++ tail_pieces t ++ match t with TColons _ _ _ => [[]; []] | _ => [] end.
  Proof.
    intros t W. destruct (shape_glue t) as [ss [E [L [FS _]]]]. rewrite E. apply split_any_glue.
    - unfold P. discriminate.
    - exact L.
    - apply Forall_app. split; [apply P_free; left; reflexivity|apply tail_free2; exact W].
    - apply seps2. exact FS.
  Qed.

  (* no "::" in a header whose pieces are all non-empty *)
  Lemma shape_no_pair : forall t, tail_wf t -> (match t with TNone | TPlain _ _ _ => True | _ => False end) ->
    no_pair 58 (header_of_shape t) = true /\ last_ne 58 (header_of_shape t) = true.
  Proof.
    intros t W NC. destruct (shape_glue t) as [ss [E _]]. rewrite E.
    assert (PO : Forall (piece_ok 58) (P ++ tail_pieces t ++ match t with TColons _ _ _ => [[]; []] | _ => [] end)).
    { apply Forall_app. split; [apply P_piece_ok|]. destruct t as [|a b c i|a b c|a b c]; cbn [tail_pieces app tail_wf] in *.
      - constructor.
      - contradiction.
      - destruct W as [A [B D]]. repeat constructor; apply piece_ok_field; assumption.
      - contradiction. }
    split; [apply no_pair_glue; exact PO|apply last_ne_glue; [unfold P; discriminate|exact PO]].
  Qed.

  Lemma shape_split1 : split_any S1 (header_of_shape TNone) = P.
  Proof.
    destruct (shape_glue TNone) as [ss [E [L [_ F1]]]]. rewrite E. cbn [tail_pieces app]. rewrite app_nil_r in *.
    apply split_any_glue; [unfold P; discriminate|exact L|apply P_free; right; reflexivity|apply seps1; exact F1].
  Qed.

  (* which form of the regenerated table accepts which shape, and with which pieces *)
  Lemma shape_first_form : forall t, tail_wf t ->
    first_form forms0 (header_of_shape t) = Some (tail_form t, P ++ tail_pieces t).
  Proof.
    intros t W. rewrite gen_forms. pose proof (shape_split2 t W) as E2.
    destruct t as [|a b c i|a b c|a b c]; cbn [tail_pieces tail_form app] in *.
    - (* 7 pieces: forms 1 and 2 refuse, form 3 accepts *)
      destruct (shape_no_pair TNone I I) as [NP _]. rewrite app_nil_r in E2.
      cbn [first_form]. rewrite (form_pieces_of form1 _ _ E2).
      match goal with |- context [if ?b then _ else _] => replace b with false by reflexivity end.
      assert (E3 : split_any (f_seps form2) (remove_sub (f_del form2) (header_of_shape TNone)) = P).
      { cbn [f_seps f_del form2]. rewrite (remove_pair_none 58 _ NP). exact E2. }
      rewrite (form_pieces_of form2 _ _ E3).
      match goal with |- context [if ?b then _ else _] => replace b with false by reflexivity end.
      rewrite (form_pieces_of form3 _ _ shape_split1). rewrite app_nil_r. reflexivity.
    - (* 11 pieces: form 1 *)
      cbn [first_form]. rewrite (form_pieces_of form1 _ _ E2). reflexivity.
    - (* 10 pieces: form 1 refuses, form 2 accepts *)
      destruct (shape_no_pair (TPlain a b c) W I) as [NP _].
      cbn [first_form]. rewrite (form_pieces_of form1 _ _ E2).
      match goal with |- context [if ?b then _ else _] => replace b with false by reflexivity end.
      assert (E3 : split_any (f_seps form2) (remove_sub (f_del form2) (header_of_shape (TPlain a b c))) = P ++ [a; b; c]).
      { cbn [f_seps f_del form2]. rewrite (remove_pair_none 58 _ NP). exact E2. }
      rewrite (form_pieces_of form2 _ _ E3). reflexivity.
    - (* 10 pieces followed by "::": 12 pieces for form 1, which refuses; form 2 deletes the "::" *)
      cbn [first_form]. rewrite (form_pieces_of form1 _ _ E2).
      match goal with |- context [if ?b then _ else _] => replace b with false by reflexivity end.
      destruct (shape_no_pair (TPlain a b c) W I) as [NP LN].
      assert (EH : header_of_shape (TColons a b c) = header_of_shape (TPlain a b c) ++ [58; 58]).
      { unfold header_of_shape. cbn [tail_str]. cbn [app]. f_equal. repeat (rewrite <- app_assoc; cbn [app]). reflexivity. }
      pose proof (shape_split2 (TPlain a b c) W) as E2'. cbn [tail_pieces app] in E2'.
      assert (E3 : split_any (f_seps form2) (remove_sub (f_del form2) (header_of_shape (TColons a b c))) = P ++ [a; b; c]).
      { cbn [f_seps f_del form2]. rewrite EH, (remove_pair_end 58 _ NP LN). exact E2'. }
      rewrite (form_pieces_of form2 _ _ E3). reflexivity.
  Qed.
End Shapes.

(* ------------------------------------------------------------------ the coordinates reach the name keys *)
Lemma wf_form_of_first : forall h F ps, first_form forms0 h = Some (F, ps) ->
  wf_form fqsafe_ranges name_keys (index_raw_tag :: map fst index_found_tags) F = true.
Proof.
  intros h F ps H. destruct (first_form_Some _ _ _ _ H) as [HI _].
  pose proof gen_wf_forms as G. rewrite forallb_forall in G. exact (G F HI).
Qed.

(* after _parse_illumina_header (either side: [inj] = how the store holds a value), whatever the index lookup says:
   Is = '@' + first field, RN .. CY = the next six fields *)
Lemma coordinates_parse : forall f0 f1 f2 f3 f4 f5 f6 tl V (inj : tval -> V) ix d,
  field_ok f0 = true -> field_ok f1 = true -> field_ok f2 = true -> field_ok f3 = true -> field_ok f4 = true ->
  field_ok f5 = true -> field_ok f6 = true -> tail_wf tl ->
  let d' := fst (parse_illumina inj (header_of_shape f0 f1 f2 f3 f4 f5 f6 tl) ix d) in
  get k_Is d' = Some (inj (TS (64 :: f0))) /\ get k_RN d' = Some (inj (TS f1)) /\ get k_Fc d' = Some (inj (TS f2)) /\
  get k_La d' = Some (inj (TS f3)) /\ get k_Ti d' = Some (inj (TS f4)) /\ get k_CX d' = Some (inj (TS f5)) /\
  get k_CY d' = Some (inj (TS f6)).
Proof.
  intros f0 f1 f2 f3 f4 f5 f6 tl V inj ix d H0 H1 H2 H3 H4 H5 H6 W d'.
  pose proof (shape_first_form f0 f1 f2 f3 f4 f5 f6 H0 H1 H2 H3 H4 H5 H6 tl W) as FF.
  pose proof (wf_form_of_first _ _ _ FF) as WF.
  assert (K : forall j k, nth_error name_keys j = Some k ->
              get k d' = Some (inj (TS (nth j ([64 :: f0; f1; f2; f3; f4; f5; f6] ++ tail_pieces tl) [])))).
  { intros j k Hj. unfold d', parse_illumina.
    apply (name_keys_hold_pieces V forms0 index_raw_tag index_found_tags inj fqsafe_ranges name_keys _ ix d _ _ FF WF j k Hj). }
  rewrite gen_name_keys7 in K.
  repeat split; [apply (K 0%nat)|apply (K 1%nat)|apply (K 2%nat)|apply (K 3%nat)|apply (K 4%nat)|apply (K 5%nat)|apply (K 6%nat)];
    reflexivity.
Qed.

Lemma fqSafe_at : forall f, safe f = true -> fqSafe (64 :: f) = f.
Proof.
  intros f H. unfold fqSafe, fqSafe_g. cbn [filter]. change (in_ranges fqsafe_ranges 64) with false. cbv iota.
  apply (fqSafe_fixed f H).
Qed.

(* the name the tagger rebuilds from these seven tags is the original header between '@' and the first blank *)
Lemma restored_name : forall f0 f1 f2 f3 f4 f5 f6,
  field_ok f0 = true -> field_ok f1 = true -> field_ok f2 = true -> field_ok f3 = true -> field_ok f4 = true ->
  field_ok f5 = true -> field_ok f6 = true ->
  join 58 (map fqSafe [64 :: f0; f1; f2; f3; f4; f5; f6]) = coords7 f0 f1 f2 f3 f4 f5 f6.
Proof.
  intros f0 f1 f2 f3 f4 f5 f6 H0 H1 H2 H3 H4 H5 H6. cbn [map]. rewrite coords7_join.
  destruct (field_ok_spec _ H0) as [_ [S0 _]]. destruct (field_ok_spec _ H1) as [_ [S1 _]].
  destruct (field_ok_spec _ H2) as [_ [S2 _]]. destruct (field_ok_spec _ H3) as [_ [S3 _]].
  destruct (field_ok_spec _ H4) as [_ [S4 _]]. destruct (field_ok_spec _ H5) as [_ [S5 _]].
  destruct (field_ok_spec _ H6) as [_ [S6 _]].
  rewrite (fqSafe_at f0 S0), (fqSafe_fixed f1 S1), (fqSafe_fixed f2 S2), (fqSafe_fixed f3 S3), (fqSafe_fixed f4 S4),
    (fqSafe_fixed f5 S5), (fqSafe_fixed f6 S6). reflexivity.
Qed.

(* END TO END with the original header: a cell read whose coordinate tags are the ones _parse_illumina_header produced
   from an Illumina-shaped header gets back, as query name, the coordinates of that header *)
Lemma coordinates_end_to_end : forall f0 f1 f2 f3 f4 f5 f6 tl ix t bc ia ly bi,
  field_ok f0 = true -> field_ok f1 = true -> field_ok f2 = true -> field_ok f3 = true -> field_ok f4 = true ->
  field_ok f5 = true -> field_ok f6 = true -> tail_wf tl ->
  let d0 := fst (parse_illumina fmt (header_of_shape f0 f1 f2 f3 f4 f5 f6 tl) ix []) in
  wf_store t = true ->
  let w := wr t in
  (forall k, In k name_keys -> get k w = get k d0) ->
  len (header_of w) <= header_limit ->
  get k_BC w = Some bc -> get k_QT w = None -> get k_aA w = Some ia -> get k_LY w = Some ly -> get k_bi w = Some bi ->
  (forall k v, In (k, v) w -> is_phred k = true -> Forall (fun x => In x dec_table) v) ->
  exists out, chain t = Ok (coords7 f0 f1 f2 f3 f4 f5 f6, out) /\
    get k_SM out = Some (TS (fqSafe ly ++ 95 :: fqSafe bi)) /\
    get k_MI out = Some (TS (fqSafe bc ++ ovalue (get k_RX w) ++ fqSafe ia)).
Proof.
  intros f0 f1 f2 f3 f4 f5 f6 tl ix t bc ia ly bi H0 H1 H2 H3 H4 H5 H6 W d0 Hwf w Hk Hlen HBC HQT HaA HLY Hbi HP.
  destruct (coordinates_parse f0 f1 f2 f3 f4 f5 f6 tl str fmt ix [] H0 H1 H2 H3 H4 H5 H6 W) as [G0 [G1 [G2 [G3 [G4 [G5 G6]]]]]].
  fold d0 in G0, G1, G2, G3, G4, G5, G6. cbn [fmt] in *.
  assert (NK : forall k, In k [k_Is; k_RN; k_Fc; k_La; k_Ti; k_CX; k_CY] -> get k w = get k d0).
  { intros k HI. apply Hk. rewrite gen_name_keys7. exact HI. }
  destruct (chain_cell t bc ia ly bi (64 :: f0) f1 f2 f3 f4 f5 f6 Hwf Hlen HBC HQT HaA HLY Hbi) as [out [HC [HSM [HMI _]]]];
    try (rewrite NK by (cbn [In]; tauto); assumption); [exact HP|].
  exists out. split; [|split; assumption]. rewrite HC. f_equal. f_equal. apply restored_name; assumption.
Qed.

(* ------------------------------------------------------------------ the table-free statement: coords_of *)
Lemma take_until_spec : forall x s a o, take_until x s = (a, o) ->
  ~ In x a /\ match o with None => s = a | Some b => s = a ++ x :: b end.
Proof.
  intros x s. induction s as [|c s IH]; intros a o H.
  - cbn in H. inversion H; subst. split; [intros []|reflexivity].
  - cbn [take_until] in H. destruct (c =? x) eqn:E.
    + apply Z.eqb_eq in E. inversion H; subst. split; [intros []|reflexivity].
    + destruct (take_until x s) as [a' o'] eqn:T. inversion H; subst. destruct (IH a' o eq_refl) as [N M].
      apply Z.eqb_neq in E. split; [intros [HI|HI]; [congruence|contradiction]|].
      destruct o; cbn [app]; rewrite M; reflexivity.
Qed.

Lemma join_split : forall sep s, join sep (split sep s) = s.
Proof.
  intros sep s. induction s as [|c s IH]; [reflexivity|]. rewrite split_cons. destruct (c =? sep) eqn:E.
  - apply Z.eqb_eq in E. subst. destruct (split sep s) as [|h t] eqn:S; [destruct s; cbn in S; try discriminate;
      destruct (z =? sep); destruct (split sep s); discriminate|].
    rewrite join_cons2. cbn [app]. rewrite IH. reflexivity.
  - destruct (split sep s) as [|h t] eqn:S.
    + exfalso. destruct s as [|z s']; [discriminate|]. rewrite split_cons in S. destruct (z =? sep); destruct (split sep s'); discriminate.
    + destruct t as [|q r]; [cbn [join] in *; rewrite IH; reflexivity|].
      rewrite join_cons2 in *. cbn [app]. rewrite IH. reflexivity.
Qed.

Lemma coords_of_shape : forall h c, coords_of h = Some c ->
  exists f0 f1 f2 f3 f4 f5 f6 tl,
    field_ok f0 = true /\ field_ok f1 = true /\ field_ok f2 = true /\ field_ok f3 = true /\ field_ok f4 = true /\
    field_ok f5 = true /\ field_ok f6 = true /\ tail_wf tl /\
    h = header_of_shape f0 f1 f2 f3 f4 f5 f6 tl /\ c = coords7 f0 f1 f2 f3 f4 f5 f6.
Proof.
  intros h c H. unfold coords_of in H. destruct h as [|x r]; [discriminate|].
  destruct (x =? 64) eqn:Ex.
  2:{ exfalso. destruct x; try discriminate. repeat (destruct p; try discriminate). }
  apply Z.eqb_eq in Ex. subst x. destruct (take_until 32 r) as [cc t] eqn:T. cbv zeta in H.
  destruct ((len (split 58 cc) =? 7) && forallb field_ok (split 58 cc) &&
            match t with None => true | Some t' => tail_ok t' end) eqn:B; [|discriminate].
  inversion H; subst cc. apply andb_true_iff in B. destruct B as [B Bt]. apply andb_true_iff in B. destruct B as [Bl Bf].
  destruct (take_until_spec _ _ _ _ T) as [_ M]. pose proof (join_split 58 c) as J.
  destruct (split 58 c) as [|f0 [|f1 [|f2 [|f3 [|f4 [|f5 [|f6 [|f7 rest]]]]]]]]; try (vm_compute in Bl; discriminate).
  2:{ unfold len in Bl. cbn [length] in Bl. apply Z.eqb_eq in Bl. lia. }
  cbn [forallb] in Bf. apply andb_true_iff in Bf. destruct Bf as [H0 Bf]. apply andb_true_iff in Bf. destruct Bf as [H1 Bf].
  apply andb_true_iff in Bf. destruct Bf as [H2 Bf]. apply andb_true_iff in Bf. destruct Bf as [H3 Bf].
  apply andb_true_iff in Bf. destruct Bf as [H4 Bf]. apply andb_true_iff in Bf. destruct Bf as [H5 Bf].
  apply andb_true_iff in Bf. destruct Bf as [H6 _].
  assert (Ec : c = coords7 f0 f1 f2 f3 f4 f5 f6) by (rewrite coords7_join; symmetry; exact J).
  destruct t as [t'|].
  - unfold tail_ok in Bt. pose proof (join_split 58 t') as Jt.
    destruct (split 58 t') as [|a [|b [|d [|i [|j [|k rest]]]]]]; try discriminate.
    + (* three pieces *)
      apply andb_true_iff in Bt. destruct Bt as [Bt A3]. apply andb_true_iff in Bt. destruct Bt as [A1 A2].
      exists f0, f1, f2, f3, f4, f5, f6, (TPlain a b d). repeat (split; [assumption|]).
      split; [cbn [tail_wf]; repeat split; assumption|]. split; [|exact Ec].
      unfold header_of_shape. rewrite <- Ec. cbn [tail_str]. rewrite M. cbn [join] in Jt. rewrite <- Jt. reflexivity.
    + (* four pieces: an index *)
      assert (Bt' : field_ok a && field_ok b && field_ok d && sepfree i = true) by (destruct i; exact Bt).
      clear Bt. rename Bt' into Bt. apply andb_true_iff in Bt. destruct Bt as [Bt A4]. apply andb_true_iff in Bt. destruct Bt as [Bt A3].
      apply andb_true_iff in Bt. destruct Bt as [A1 A2].
      exists f0, f1, f2, f3, f4, f5, f6, (TIdx a b d i). repeat (split; [assumption|]).
      split; [cbn [tail_wf]; repeat split; assumption|]. split; [|exact Ec].
      unfold header_of_shape. rewrite <- Ec. cbn [tail_str]. rewrite M. cbn [join] in Jt. rewrite <- Jt. reflexivity.
    + (* five pieces: the last two empty *)
      destruct i; [|discriminate]. destruct j; [|discriminate].
      apply andb_true_iff in Bt. destruct Bt as [Bt A3]. apply andb_true_iff in Bt. destruct Bt as [A1 A2].
      exists f0, f1, f2, f3, f4, f5, f6, (TColons a b d). repeat (split; [assumption|]).
      split; [cbn [tail_wf]; repeat split; assumption|]. split; [|exact Ec].
      unfold header_of_shape. rewrite <- Ec. cbn [tail_str]. rewrite M. cbn [join app] in Jt. rewrite <- Jt. reflexivity.
    + exfalso. destruct i; try discriminate. destruct j; discriminate.
  - exists f0, f1, f2, f3, f4, f5, f6, TNone. repeat (split; [assumption|]).
    split; [exact I|]. split; [|exact Ec]. unfold header_of_shape. rewrite <- Ec. cbn [tail_str]. rewrite app_nil_r, M. reflexivity.
Qed.
