(* C01 proofs, part 1: the lock-step reader and the declarative form of the loader loop. *)
From Coq Require Import ZArith List Bool Lia Arith.
Import ListNotations.
From SCMO Require Import Lib.Val Lib.C01Shape Model.C01.
Open Scope Z_scope.

(* ------------------------------------------------------------------ small list facts *)
Lemma skipn_add {A} (a b : nat) (l : list A) : skipn a (skipn b l) = skipn (a + b) l.
Proof.
  revert l; induction b as [|b IH]; intros l.
  - now rewrite Nat.add_0_r.
  - rewrite Nat.add_succ_r. destruct l as [|x l]; cbn [skipn].
    + now destruct a.
    + apply IH.
Qed.

Lemma filter_nil_forall {A} (f : A -> bool) (l : list A) :
  (forall x, In x l -> f x = false) -> filter f l = [].
Proof.
  induction l as [|x l IH]; intros H; cbn [filter]; [reflexivity|].
  rewrite (H x (or_introl eq_refl)). apply IH. intros y Hy. apply H. now right.
Qed.

(* ------------------------------------------------------------------ FastqIterator: the stop rule *)
(* record_at / row / exhausted: Model/C01.v *)
Lemma row_0 files : row 0 files = map read_record files.
Proof. unfold row, record_at. cbn [Nat.mul skipn]. reflexivity. Qed.

Lemma row_S k files : row (S k) files = row k (map (skipn 4) files).
Proof.
  unfold row, record_at. rewrite map_map. apply map_ext. intros ls.
  rewrite skipn_add. f_equal. f_equal. lia.
Qed.

Lemma empty_header_nil_file : empty_header (read_record []) = true.
Proof. reflexivity. Qed.

Lemma read_all_spec : forall fuel files, files <> [] -> (length (hd [] files) < fuel)%nat ->
  (forall k, (k < length (read_all fuel files))%nat ->
             nth k (read_all fuel files) [] = row k files /\ exhausted k files = false)
  /\ exhausted (length (read_all fuel files)) files = true.
Proof.
  induction fuel as [|f IH]; intros files Hne Hlen; [lia|].
  cbn [read_all]. destruct (existsb empty_header (map read_record files)) eqn:Hex.
  - split; [cbn [length]; intros k Hk; lia|].
    cbn [length]. unfold exhausted. now rewrite row_0.
  - destruct files as [|f0 rest]; [contradiction|].
    assert (Hf0 : (1 <= length f0)%nat).
    { destruct f0 as [|l0 f0]; [|cbn [length]; lia].
      cbn [map existsb] in Hex. rewrite empty_header_nil_file in Hex. discriminate. }
    assert (Hne' : map (skipn 4) (f0 :: rest) <> []) by (cbn [map]; discriminate).
    assert (Hlen' : (length (hd [] (map (skipn 4) (f0 :: rest))) < f)%nat).
    { cbn [map hd]. rewrite skipn_length. cbn [hd] in Hlen. lia. }
    destruct (IH _ Hne' Hlen') as [IH1 IH2].
    split.
    + intros [|k] Hk.
      * cbn [nth]. split; [now rewrite row_0|]. unfold exhausted. now rewrite row_0.
      * cbn [nth]. cbn [length] in Hk. rewrite row_S. unfold exhausted. rewrite row_S.
        apply IH1. lia.
    + cbn [length]. unfold exhausted. rewrite row_S. exact IH2.
Qed.

Lemma stop_rule files : files <> [] ->
  (forall k, (k < length (fastq_iter files))%nat ->
             nth k (fastq_iter files) [] = row k files /\ exhausted k files = false)
  /\ exhausted (length (fastq_iter files)) files = true.
Proof. intros Hne. apply read_all_spec; [assumption|lia]. Qed.

(* the number of records read is THE first exhausted index *)
Lemma stop_rule_unique files n : files <> [] ->
  (forall k, (k < n)%nat -> exhausted k files = false) -> exhausted n files = true ->
  length (fastq_iter files) = n.
Proof.
  intros Hne Hlt Hn. destruct (stop_rule files Hne) as [H1 H2].
  destruct (Nat.lt_trichotomy (length (fastq_iter files)) n) as [H|[H|H]]; [|assumption|].
  - rewrite (Hlt _ H) in H2. discriminate.
  - destruct (H1 n H) as [_ H3]. rewrite H3 in Hn. discriminate.
Qed.

(* ------------------------------------------------------------------ well-formed shapes *)
Lemma sink_eqb_eq a b : sink_eqb a b = true -> a = b.
Proof. destruct a, b; cbn; congruence. Qed.

Lemma wf_shape_inv sh : wf_shape sh = true -> exists g b, sh = good_shape g b.
Proof.
  unfold wf_shape. intros H.
  repeat (apply andb_prop in H; let H' := fresh "W" in destruct H as [H H']).
  destruct sh as [[s1 g1 c1] [s2 g2 c2] [s3 g3 c3] e i t]. cbn in *.
  apply sink_eqb_eq in H. apply sink_eqb_eq in W6. apply sink_eqb_eq in W3.
  apply negb_true_iff in W4. apply negb_true_iff in W1. apply negb_true_iff in W0. apply eqb_prop in W. subst.
  exists g1, t. reflexivity.
Qed.

Lemma good_shape_wf g b : wf_shape (good_shape g b) = true.
Proof. destruct g, b; reflexivity. Qed.

Lemma wf_shapes sh : wf_shape sh = true <-> exists g b, sh = good_shape g b.
Proof. split; [apply wf_shape_inv|intros (g & b & ->); apply good_shape_wf]. Qed.

(* ------------------------------------------------------------------ the loader, declaratively *)
Section Loader.
  Variable sh : shape.
  Variable strats : list strategy.
  Variable rejhdr : read -> str -> hout.
  Variable cfg : config.
  Hypothesis wf : wf_shape sh = true.

  (* what one (pair, strategy) step writes *)
  Definition step_events (p : nat) (reads : pair) (j : nat) (f : strategy) : list event :=
    match f reads with
    | Accept recs =>
        match ok_prefix (touched cfg recs) with
        | (_, None) => write_target cfg p j recs
        | (pre, Some kind) =>
            write_target cfg p j pre ++ (if c_rejects cfg then write_reject cfg p j (generic_texts reads kind) else [])
        end
    | Reject reason =>
        if c_rejects cfg then
          match reject_texts rejhdr reads reason with
          | RTexts ts => write_reject cfg p j ts
          | RCrash => []
          end
        else []
    | Raise kind => if c_rejects cfg then write_reject cfg p j (generic_texts reads kind) else []
    end.

  (* accepted AND written: every record write() touches could be serialised *)
  Definition is_accept (o : outcome) : bool :=
    match o with
    | Accept recs => match snd (ok_prefix (touched cfg recs)) with None => true | Some _ => false end
    | _ => false
    end.

  (* the step leaves the loop with an exception: the reject record cannot be formatted *)
  Definition step_crash (reads : pair) (f : strategy) : bool :=
    match f reads with
    | Reject reason =>
        c_rejects cfg && match reject_texts rejhdr reads reason with RCrash => true | RTexts _ => false end
    | _ => false
    end.

  Fixpoint steps_from (p : nat) (reads : pair) (j : nat) (ss : list strategy) : list event :=
    match ss with
    | [] => []
    | f :: ss' => step_events p reads j f ++ steps_from p reads (S j) ss'
    end.

  Fixpoint yields_from (reads : pair) (j : nat) (ss : list strategy) (ys : list Z) : list Z :=
    match ss with
    | [] => ys
    | f :: ss' => yields_from reads (S j) ss' (if is_accept (f reads) then bump j ys else ys)
    end.

  (* the step function the model derives from a well-formed shape is the declarative step *)
  Lemma step_spec g b p j reads f tr ys :
    match step (good_shape g b) rejhdr cfg p j reads f tr ys with
    | (tr', ys', true) => step_crash reads f = true
    | (tr', ys', false) => step_crash reads f = false
                           /\ tr' = tr ++ step_events p reads j f
                           /\ ys' = if is_accept (f reads) then bump j ys else ys
    end.
  Proof.
    unfold step, step_events, step_crash, is_accept, generic_arm, reject_arm, counted.
    cbn [good_shape sh_accept sh_reject sh_generic sh_count_early arm_sink arm_guarded arm_counts
         write_recs write_texts present andb negb].
    destruct (f reads) as [recs|reason|kind].
    - destruct (ok_prefix (touched cfg recs)) as [pre [kind|]]; cbn [snd].
      + destruct (c_rejects cfg); cbn; rewrite <- ?app_assoc, ?app_nil_r; auto.
      + auto.
    - destruct (c_rejects cfg); cbn [andb negb].
      + destruct (reject_texts rejhdr reads reason) as [ts|]; auto.
      + rewrite app_nil_r. auto.
    - destruct (c_rejects cfg); cbn; rewrite ?app_nil_r; auto.
  Qed.

  Lemma strat_loop_spec p reads : forall ss j tr ys,
    match strat_loop sh rejhdr cfg p reads j ss tr ys with
    | (tr', ys', true) => existsb (step_crash reads) ss = true
    | (tr', ys', false) => existsb (step_crash reads) ss = false
                           /\ tr' = tr ++ steps_from p reads j ss /\ ys' = yields_from reads j ss ys
    end.
  Proof.
    destruct (wf_shape_inv sh wf) as (g & b & ->).
    induction ss as [|f ss IH]; intros j tr ys.
    - cbn. now rewrite app_nil_r.
    - cbn [strat_loop steps_from yields_from existsb].
      pose proof (step_spec g b p j reads f tr ys) as Hs.
      destruct (step (good_shape g b) rejhdr cfg p j reads f tr ys) as [[tr1 ys1] [|]].
      + now rewrite Hs.
      + destruct Hs as (Hc & -> & ->). rewrite Hc. cbn [orb].
        specialize (IH (S j) (tr ++ step_events p reads j f) (if is_accept (f reads) then bump j ys else ys)).
        destruct (strat_loop _ _ _ _ _ _ _ _ _) as [[tr' ys'] [|]]; [assumption|].
        destruct IH as (H1 & H2 & H3). rewrite <- app_assoc in H2. auto.
  Qed.

  (* the pairs the strategy loop runs on.  Test after the strategy loop: up to and including the first pair at which
     the maxReadPairs test fires; test before it: the pairs before the first one at which it fires.
     [proc] = processedReadPairs before the iteration *)
  Fixpoint consumed_from (proc : Z) (pairs : list pair) : list pair :=
    match pairs with
    | [] => []
    | r :: rest =>
        let proc1 := if sh_incr_before_test sh then proc + 1 else proc in
        if sh_strat_before_test sh
        then r :: (if stop_after cfg proc1 then [] else consumed_from (proc + 1) rest)
        else if stop_after cfg proc1 then [] else r :: consumed_from (proc + 1) rest
    end.

  Fixpoint pairs_from (p : nat) (pairs : list pair) : list event :=
    match pairs with
    | [] => []
    | r :: rest => steps_from p r 0 strats ++ pairs_from (S p) rest
    end.

  Definition yields_pairs (pairs : list pair) (ys : list Z) : list Z :=
    fold_left (fun ys r => yields_from r 0 strats ys) pairs ys.

  Definition pair_crash (reads : pair) : bool := existsb (step_crash reads) strats.

  Lemma pair_loop_spec : forall pairs p tr ys proc,
    let res := pair_loop sh strats rejhdr cfg p pairs tr ys proc in
    if res_crashed res then existsb pair_crash (consumed_from proc pairs) = true
    else existsb pair_crash (consumed_from proc pairs) = false
         /\ res_trace res = tr ++ pairs_from p (consumed_from proc pairs)
         /\ res_yields res = yields_pairs (consumed_from proc pairs) ys
         /\ res_processed res = proc + Z.of_nat (length (consumed_from proc pairs)).
  Proof.
    pose proof strat_loop_spec as SL.
    destruct (wf_shape_inv sh wf) as (g & b & E).
    assert (Ei : sh_incr_before_test sh = b) by (rewrite E; reflexivity).
    assert (Et : sh_strat_before_test sh = b) by (rewrite E; reflexivity).
    induction pairs as [|r rest IH]; intros p tr ys proc.
    - cbn. rewrite app_nil_r. repeat split; auto; lia.
    - cbn [pair_loop consumed_from]. rewrite Ei, Et.
      pose proof (SL p r strats 0%nat tr ys) as Hs. fold (pair_crash r) in Hs.
      destruct b.
      + (* increment, strategy loop, test *)
        destruct (strat_loop sh rejhdr cfg p r 0 strats tr ys) as [[tr' ys'] [|]].
        * cbn [res_crashed existsb]. rewrite Hs. reflexivity.
        * destruct Hs as (Hc & Htr & Hys).
          destruct (stop_after cfg (proc + 1)) eqn:Hstop.
          -- cbn [res_crashed res_trace res_yields res_processed existsb pairs_from yields_pairs fold_left length].
             rewrite Hc, app_nil_r. cbn [orb]. repeat split; auto; lia.
          -- specialize (IH (S p) tr' ys' (proc + 1)). cbv zeta in IH.
             destruct (res_crashed (pair_loop sh strats rejhdr cfg (S p) rest tr' ys' (proc + 1))).
             ++ cbn [existsb]. rewrite IH. apply orb_true_r.
             ++ destruct IH as (H1 & H2 & H3 & H4).
                cbn [existsb pairs_from yields_pairs fold_left length]. rewrite Hc, H1. cbn [orb].
                repeat split; auto.
                ** rewrite H2, Htr, <- app_assoc. reflexivity.
                ** rewrite H3, Hys. reflexivity.
                ** rewrite H4. lia.
      + (* test, then increment and strategy loop *)
        destruct (stop_after cfg proc) eqn:Hstop.
        * cbn. rewrite app_nil_r. repeat split; auto; lia.
        * destruct (strat_loop sh rejhdr cfg p r 0 strats tr ys) as [[tr' ys'] [|]].
          -- cbn [res_crashed existsb]. rewrite Hs. reflexivity.
          -- destruct Hs as (Hc & Htr & Hys).
             specialize (IH (S p) tr' ys' (proc + 1)). cbv zeta in IH.
             destruct (res_crashed (pair_loop sh strats rejhdr cfg (S p) rest tr' ys' (proc + 1))).
             ++ cbn [existsb]. rewrite IH. apply orb_true_r.
             ++ destruct IH as (H1 & H2 & H3 & H4).
                cbn [existsb pairs_from yields_pairs fold_left length]. rewrite Hc, H1. cbn [orb].
                repeat split; auto.
                ** rewrite H2, Htr, <- app_assoc. reflexivity.
                ** rewrite H3, Hys. reflexivity.
                ** rewrite H4. lia.
  Qed.

  Definition consumed (pairs : list pair) : list pair := consumed_from 0 pairs.

  (* the whole run in closed form, for every run that returns *)
  Lemma loader_decl pairs :
    res_crashed (loader sh strats rejhdr cfg pairs) = false ->
    existsb pair_crash (consumed pairs) = false
    /\ res_trace (loader sh strats rejhdr cfg pairs) = pairs_from 0 (consumed pairs)
    /\ res_yields (loader sh strats rejhdr cfg pairs) = yields_pairs (consumed pairs) (repeat 0 (length strats))
    /\ res_processed (loader sh strats rejhdr cfg pairs) = Z.of_nat (length (consumed pairs)).
  Proof.
    intros Hc. unfold loader in *.
    pose proof (pair_loop_spec pairs 0%nat [] (repeat 0 (length strats)) 0) as H. cbv zeta in H.
    rewrite Hc in H. destruct H as (H1 & H2 & H3 & H4). unfold consumed.
    repeat split; auto.
  Qed.

  Lemma loader_crash_iff pairs :
    res_crashed (loader sh strats rejhdr cfg pairs) = existsb pair_crash (consumed pairs).
  Proof.
    unfold loader, consumed.
    pose proof (pair_loop_spec pairs 0%nat [] (repeat 0 (length strats)) 0) as H. cbv zeta in H.
    destruct (res_crashed _); [now rewrite H|]. destruct H as (H & _). now rewrite H.
  Qed.

  (* ---------------- which pairs are consumed: the maxReadPairs arithmetic *)
  Lemma consumed_from_prefix : forall pairs proc, exists k, consumed_from proc pairs = firstn k pairs.
  Proof.
    induction pairs as [|r rest IH]; intros proc; [exists 0%nat; reflexivity|].
    cbn [consumed_from]. destruct (IH (proc + 1)) as [k Hk].
    destruct (sh_strat_before_test sh).
    - destruct (stop_after cfg _).
      + exists 1%nat. reflexivity.
      + exists (S k). cbn [firstn]. now rewrite Hk.
    - destruct (stop_after cfg _).
      + exists 0%nat. reflexivity.
      + exists (S k). cbn [firstn]. now rewrite Hk.
  Qed.

  Lemma consumed_from_length_none : c_max cfg = None ->
    forall pairs proc, consumed_from proc pairs = pairs.
  Proof.
    intros Hm. induction pairs as [|r rest IH]; intros proc; [reflexivity|].
    cbn [consumed_from]. unfold stop_after. rewrite Hm. rewrite IH. now destruct (sh_strat_before_test sh).
  Qed.

  (* the least number of pairs a non-empty library gives to the strategy loop: 1 when the test stands after it *)
  Definition min_consumed : Z := if sh_strat_before_test sh then 1 else 0.

  Lemma consumed_from_length_some m : c_max cfg = Some m ->
    forall pairs proc, Z.of_nat (length (consumed_from proc pairs)) =
                    match pairs with
                    | [] => 0
                    | _ => Z.min (Z.of_nat (length pairs)) (Z.max min_consumed (m - proc))
                    end.
  Proof.
    intros Hm. unfold min_consumed.
    destruct (wf_shape_inv sh wf) as (g & b & E).
    assert (Ei : sh_incr_before_test sh = b) by (rewrite E; reflexivity).
    assert (Et : sh_strat_before_test sh = b) by (rewrite E; reflexivity).
    induction pairs as [|r rest IH]; intros proc; [reflexivity|].
    cbn [consumed_from]. rewrite Ei, Et in *. unfold stop_after. rewrite Hm. destruct b.
    - destruct (m <=? proc + 1) eqn:Hle.
      + cbn [length]. lia.
      + cbn [length]. rewrite Nat2Z.inj_succ, IH. destruct rest as [|r2 rest2]; cbn [length]; lia.
    - destruct (m <=? proc) eqn:Hle.
      + cbn [length]. lia.
      + cbn [length]. rewrite Nat2Z.inj_succ, IH. destruct rest as [|r2 rest2]; cbn [length]; lia.
  Qed.

  Lemma processed_formula pairs :
    res_crashed (loader sh strats rejhdr cfg pairs) = false ->
    res_processed (loader sh strats rejhdr cfg pairs) =
      match pairs, c_max cfg with
      | [], _ => 0
      | _, None => Z.of_nat (length pairs)
      | _, Some m => Z.min (Z.of_nat (length pairs)) (Z.max min_consumed m)
      end.
  Proof.
    intros Hc. destruct (loader_decl pairs Hc) as (_ & _ & _ & ->). unfold consumed.
    destruct (c_max cfg) as [m|] eqn:Hm.
    - rewrite (consumed_from_length_some m Hm). destruct pairs; [reflexivity|]. f_equal. f_equal. lia.
    - rewrite (consumed_from_length_none Hm). now destruct pairs.
  Qed.
End Loader.
