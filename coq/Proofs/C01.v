(* C01 proofs, part 1: the lock-step reader and the declarative form of the loader loop. *)
From Coq Require Import ZArith List Bool Lia Arith.
Import ListNotations.
From SCMO Require Import Lib.Val Model.C01.
Open Scope Z_scope.

(* ------------------------------------------------------------------ small list facts *)
Lemma skipn_add {A} (a b : nat) (l : list A) : skipn a (skipn b l) = skipn (a + b) l.
Proof.
  revert l; induction b as [|b IH]; intros l.
  - now rewrite Nat.add_0_r.
  - rewrite Nat.add_succ_r. destruct l as [|x l]; cbn [skipn].
    + now destruct a.
    + apply IH.
Qed.

Lemma filter_nil_forall {A} (f : A -> bool) (l : list A) :
  (forall x, In x l -> f x = false) -> filter f l = [].
Proof.
  induction l as [|x l IH]; intros H; cbn [filter]; [reflexivity|].
  rewrite (H x (or_introl eq_refl)). apply IH. intros y Hy. apply H. now right.
Qed.

(* ------------------------------------------------------------------ FastqIterator: the stop rule *)
Definition record_at (k : nat) (ls : list str) : read := read_record (skipn (4 * k) ls).
Definition row (k : nat) (files : list (list str)) : pair := map (record_at k) files.
Definition exhausted (k : nat) (files : list (list str)) : bool := existsb empty_header (row k files).

Lemma row_0 files : row 0 files = map read_record files.
Proof. unfold row, record_at. cbn [Nat.mul skipn]. reflexivity. Qed.

Lemma row_S k files : row (S k) files = row k (map (skipn 4) files).
Proof.
  unfold row, record_at. rewrite map_map. apply map_ext. intros ls.
  rewrite skipn_add. f_equal. f_equal. lia.
Qed.

Lemma empty_header_nil_file : empty_header (read_record []) = true.
Proof. reflexivity. Qed.

Lemma read_all_spec : forall fuel files, files <> [] -> (length (hd [] files) < fuel)%nat ->
  (forall k, (k < length (read_all fuel files))%nat ->
             nth k (read_all fuel files) [] = row k files /\ exhausted k files = false)
  /\ exhausted (length (read_all fuel files)) files = true.
Proof.
  induction fuel as [|f IH]; intros files Hne Hlen; [lia|].
  cbn [read_all]. destruct (existsb empty_header (map read_record files)) eqn:Hex.
  - split; [cbn [length]; intros k Hk; lia|].
    cbn [length]. unfold exhausted. now rewrite row_0.
  - destruct files as [|f0 rest]; [contradiction|].
    assert (Hf0 : (1 <= length f0)%nat).
    { destruct f0 as [|l0 f0]; [|cbn [length]; lia].
      cbn [map existsb] in Hex. rewrite empty_header_nil_file in Hex. discriminate. }
    assert (Hne' : map (skipn 4) (f0 :: rest) <> []) by (cbn [map]; discriminate).
    assert (Hlen' : (length (hd [] (map (skipn 4) (f0 :: rest))) < f)%nat).
    { cbn [map hd]. rewrite skipn_length. cbn [hd] in Hlen. lia. }
    destruct (IH _ Hne' Hlen') as [IH1 IH2].
    split.
    + intros [|k] Hk.
      * cbn [nth]. split; [now rewrite row_0|]. unfold exhausted. now rewrite row_0.
      * cbn [nth]. cbn [length] in Hk. rewrite row_S. unfold exhausted. rewrite row_S.
        apply IH1. lia.
    + cbn [length]. unfold exhausted. rewrite row_S. exact IH2.
Qed.

Lemma stop_rule files : files <> [] ->
  (forall k, (k < length (fastq_iter files))%nat ->
             nth k (fastq_iter files) [] = row k files /\ exhausted k files = false)
  /\ exhausted (length (fastq_iter files)) files = true.
Proof. intros Hne. apply read_all_spec; [assumption|lia]. Qed.

(* the number of records read is THE first exhausted index *)
Lemma stop_rule_unique files n : files <> [] ->
  (forall k, (k < n)%nat -> exhausted k files = false) -> exhausted n files = true ->
  length (fastq_iter files) = n.
Proof.
  intros Hne Hlt Hn. destruct (stop_rule files Hne) as [H1 H2].
  destruct (Nat.lt_trichotomy (length (fastq_iter files)) n) as [H|[H|H]]; [|assumption|].
  - rewrite (Hlt _ H) in H2. discriminate.
  - destruct (H1 n H) as [_ H3]. rewrite H3 in Hn. discriminate.
Qed.

(* ------------------------------------------------------------------ the loader, declaratively *)
Section Loader.
  Variable strats : list strategy.
  Variable rejhdr : read -> str -> hout.
  Variable cfg : config.
  Hypothesis repaired : c_legacy cfg = false.

  (* what one (pair, strategy) step writes *)
  Definition step_events (p : nat) (reads : pair) (j : nat) (f : strategy) : list event :=
    match f reads with
    | Accept recs =>
        match ok_prefix (touched cfg recs) with
        | (_, None) => write_target cfg p j recs
        | (pre, Some kind) =>
            write_target cfg p j pre ++ (if c_rejects cfg then write_reject cfg p j (generic_texts reads kind) else [])
        end
    | Reject reason =>
        if c_rejects cfg then
          match reject_texts rejhdr reads reason with
          | RTexts ts => write_reject cfg p j ts
          | RCrash => []
          end
        else []
    | Raise kind => if c_rejects cfg then write_reject cfg p j (generic_texts reads kind) else []
    end.

  (* accepted AND written: every record write() touches could be serialised *)
  Definition is_accept (o : outcome) : bool :=
    match o with
    | Accept recs => match snd (ok_prefix (touched cfg recs)) with None => true | Some _ => false end
    | _ => false
    end.

  (* the step leaves the loop with an exception: the reject record cannot be formatted *)
  Definition step_crash (reads : pair) (f : strategy) : bool :=
    match f reads with
    | Reject reason =>
        c_rejects cfg && match reject_texts rejhdr reads reason with RCrash => true | RTexts _ => false end
    | _ => false
    end.

  Fixpoint steps_from (p : nat) (reads : pair) (j : nat) (ss : list strategy) : list event :=
    match ss with
    | [] => []
    | f :: ss' => step_events p reads j f ++ steps_from p reads (S j) ss'
    end.

  Fixpoint yields_from (reads : pair) (j : nat) (ss : list strategy) (ys : list Z) : list Z :=
    match ss with
    | [] => ys
    | f :: ss' => yields_from reads (S j) ss' (if is_accept (f reads) then bump j ys else ys)
    end.

  Lemma strat_loop_spec p reads : forall ss j tr ys,
    match strat_loop rejhdr cfg p reads j ss tr ys with
    | (tr', ys', true) => existsb (step_crash reads) ss = true
    | (tr', ys', false) => existsb (step_crash reads) ss = false
                           /\ tr' = tr ++ steps_from p reads j ss /\ ys' = yields_from reads j ss ys
    end.
  Proof.
    induction ss as [|f ss IH]; intros j tr ys.
    - cbn. now rewrite app_nil_r.
    - cbn [strat_loop steps_from yields_from existsb]. unfold step_crash at 1 3, step_events.
      destruct (f reads) as [recs|reason|kind] eqn:Hf; cbn [is_accept orb].
      + destruct (ok_prefix (touched cfg recs)) as [pre [kind|]]; cbn [snd].
        * rewrite repaired.
          specialize (IH (S j) (tr ++ write_target cfg p j pre ++
                                (if c_rejects cfg then write_reject cfg p j (generic_texts reads kind) else [])) ys).
          destruct (strat_loop _ _ _ _ _ _ _ _) as [[tr' ys'] [|]]; [assumption|].
          destruct IH as (H1 & H2 & H3). rewrite <- app_assoc in H2. auto.
        * specialize (IH (S j) (tr ++ write_target cfg p j recs) (bump j ys)).
          destruct (strat_loop _ _ _ _ _ _ _ _) as [[tr' ys'] [|]]; [assumption|].
          destruct IH as (H1 & H2 & H3). rewrite <- app_assoc in H2. auto.
      + destruct (c_rejects cfg) eqn:Hr; cbn [andb].
        * destruct (reject_texts rejhdr reads reason) as [ts|] eqn:Hts.
          -- specialize (IH (S j) (tr ++ write_reject cfg p j ts) ys).
             destruct (strat_loop _ _ _ _ _ _ _ _) as [[tr' ys'] [|]]; [assumption|].
             destruct IH as (H1 & H2 & H3). rewrite <- app_assoc in H2. auto.
          -- reflexivity.
        * specialize (IH (S j) tr ys).
          destruct (strat_loop _ _ _ _ _ _ _ _) as [[tr' ys'] [|]]; [assumption|].
          destruct IH as (H1 & H2 & H3). auto.
      + rewrite repaired.
        destruct (c_rejects cfg) eqn:Hr.
        * specialize (IH (S j) (tr ++ write_reject cfg p j (generic_texts reads kind)) ys).
          destruct (strat_loop _ _ _ _ _ _ _ _) as [[tr' ys'] [|]]; [assumption|].
          destruct IH as (H1 & H2 & H3). rewrite <- app_assoc in H2. auto.
        * specialize (IH (S j) tr ys).
          destruct (strat_loop _ _ _ _ _ _ _ _) as [[tr' ys'] [|]]; [assumption|].
          destruct IH as (H1 & H2 & H3). auto.
  Qed.

  (* the pairs the loop body runs on: up to and including the first one at which the maxReadPairs test fires *)
  Fixpoint consumed_from (p : nat) (pairs : list pair) : list pair :=
    match pairs with
    | [] => []
    | r :: rest => if stop_after cfg (Z.of_nat p + 1) then [r] else r :: consumed_from (S p) rest
    end.

  Fixpoint pairs_from (p : nat) (pairs : list pair) : list event :=
    match pairs with
    | [] => []
    | r :: rest => steps_from p r 0 strats ++ pairs_from (S p) rest
    end.

  Definition yields_pairs (pairs : list pair) (ys : list Z) : list Z :=
    fold_left (fun ys r => yields_from r 0 strats ys) pairs ys.

  Definition pair_crash (reads : pair) : bool := existsb (step_crash reads) strats.

  Lemma pair_loop_spec : forall pairs p tr ys proc,
    let res := pair_loop strats rejhdr cfg p pairs tr ys proc in
    if res_crashed res then existsb pair_crash (consumed_from p pairs) = true
    else existsb pair_crash (consumed_from p pairs) = false
         /\ res_trace res = tr ++ pairs_from p (consumed_from p pairs)
         /\ res_yields res = yields_pairs (consumed_from p pairs) ys
         /\ res_processed res = match pairs with [] => proc | _ => Z.of_nat p + Z.of_nat (length (consumed_from p pairs)) end.
  Proof.
    induction pairs as [|r rest IH]; intros p tr ys proc.
    - cbn. now rewrite app_nil_r.
    - cbn [pair_loop consumed_from].
      pose proof (strat_loop_spec p r strats 0%nat tr ys) as Hs.
      destruct (strat_loop rejhdr cfg p r 0 strats tr ys) as [[tr' ys'] [|]].
      + cbn [res_crashed]. fold (pair_crash r) in Hs.
        destruct (stop_after cfg (Z.of_nat p + 1)); cbn [existsb]; rewrite Hs; reflexivity.
      + destruct Hs as (Hc & Htr & Hys). fold (pair_crash r) in Hc.
        destruct (stop_after cfg (Z.of_nat p + 1)) eqn:Hstop.
        * cbn [res_crashed res_trace res_yields res_processed existsb pairs_from yields_pairs fold_left length].
          rewrite Hc, app_nil_r. cbn [orb]. repeat split; auto; lia.
        * specialize (IH (S p) tr' ys' (Z.of_nat p + 1)). cbv zeta in IH.
          destruct (res_crashed (pair_loop strats rejhdr cfg (S p) rest tr' ys' (Z.of_nat p + 1))).
          -- cbn [existsb]. rewrite IH. apply orb_true_r.
          -- destruct IH as (H1 & H2 & H3 & H4).
             cbn [existsb pairs_from yields_pairs fold_left length]. rewrite Hc, H1. cbn [orb].
             repeat split; auto.
             ++ rewrite H2, Htr, <- app_assoc. reflexivity.
             ++ rewrite H3, Hys. reflexivity.
             ++ rewrite H4. destruct rest as [|r2 rest2]; [cbn [consumed_from length]; lia|]. lia.
  Qed.

  Definition consumed (pairs : list pair) : list pair := consumed_from 0 pairs.

  (* the whole run in closed form, for every run that returns *)
  Lemma loader_decl pairs :
    res_crashed (loader strats rejhdr cfg pairs) = false ->
    existsb pair_crash (consumed pairs) = false
    /\ res_trace (loader strats rejhdr cfg pairs) = pairs_from 0 (consumed pairs)
    /\ res_yields (loader strats rejhdr cfg pairs) = yields_pairs (consumed pairs) (repeat 0 (length strats))
    /\ res_processed (loader strats rejhdr cfg pairs) = Z.of_nat (length (consumed pairs)).
  Proof.
    intros Hc. unfold loader in *.
    pose proof (pair_loop_spec pairs 0%nat [] (repeat 0 (length strats)) 0) as H. cbv zeta in H.
    rewrite Hc in H. destruct H as (H1 & H2 & H3 & H4). unfold consumed.
    repeat split; auto.
    rewrite H4. destruct pairs; cbn [consumed_from length]; lia.
  Qed.

  Lemma loader_crash_iff pairs :
    res_crashed (loader strats rejhdr cfg pairs) = existsb pair_crash (consumed pairs).
  Proof.
    unfold loader, consumed.
    pose proof (pair_loop_spec pairs 0%nat [] (repeat 0 (length strats)) 0) as H. cbv zeta in H.
    destruct (res_crashed _); [now rewrite H|]. destruct H as (H & _). now rewrite H.
  Qed.

  (* ---------------- which pairs are consumed: the maxReadPairs arithmetic *)
  Lemma consumed_from_prefix : forall pairs p, exists k, consumed_from p pairs = firstn k pairs.
  Proof.
    induction pairs as [|r rest IH]; intros p; [exists 0%nat; reflexivity|].
    cbn [consumed_from]. destruct (stop_after cfg (Z.of_nat p + 1)).
    - exists 1%nat. reflexivity.
    - destruct (IH (S p)) as [k Hk]. exists (S k). cbn [firstn]. now rewrite Hk.
  Qed.

  Lemma consumed_from_length_none : c_max cfg = None ->
    forall pairs p, consumed_from p pairs = pairs.
  Proof.
    intros Hm. induction pairs as [|r rest IH]; intros p; [reflexivity|].
    cbn [consumed_from]. unfold stop_after. rewrite Hm. now rewrite IH.
  Qed.

  Lemma consumed_from_length_some m : c_max cfg = Some m ->
    forall pairs p, Z.of_nat (length (consumed_from p pairs)) =
                    match pairs with
                    | [] => 0
                    | _ => Z.min (Z.of_nat (length pairs)) (Z.max 1 (m - Z.of_nat p))
                    end.
  Proof.
    intros Hm. induction pairs as [|r rest IH]; intros p; [reflexivity|].
    cbn [consumed_from]. unfold stop_after. rewrite Hm.
    destruct (m <=? Z.of_nat p + 1) eqn:Hle.
    - cbn [length]. lia.
    - cbn [length]. rewrite Nat2Z.inj_succ, IH. destruct rest as [|r2 rest2]; cbn [length]; lia.
  Qed.

  Lemma processed_formula pairs :
    res_crashed (loader strats rejhdr cfg pairs) = false ->
    res_processed (loader strats rejhdr cfg pairs) =
      match pairs, c_max cfg with
      | [], _ => 0
      | _, None => Z.of_nat (length pairs)
      | _, Some m => Z.min (Z.of_nat (length pairs)) (Z.max 1 m)
      end.
  Proof.
    intros Hc. destruct (loader_decl pairs Hc) as (_ & _ & _ & ->). unfold consumed.
    destruct (c_max cfg) as [m|] eqn:Hm.
    - rewrite (consumed_from_length_some m Hm). destruct pairs; [reflexivity|]. f_equal. f_equal. lia.
    - rewrite (consumed_from_length_none Hm). now destruct pairs.
  Qed.
End Loader.
