(* C06 proofs, extension part 3: overflow fragments become their own one-fragment molecules; their number is the
   number of refused fragments the cached molecules count in TF (both pooling methods). *)
From Coq Require Import ZArith List Bool Lia ZifyBool Permutation.
Import ListNotations.
From SCMO Require Import Lib.Val Gen.GenAssign Model.C06 Model.C06x Proofs.C06_shape Proofs.C06 Proofs.C06_main Proofs.C06x.
Open Scope Z_scope.

Definition is_over (m : mol) : bool := m_kind m =? 1.
Definition ovf_sum (l : list mol) : nat := list_sum (map (fun m => length (m_ovf m)) l).
Lemma ovf_sum_app a b : ovf_sum (a ++ b) = (ovf_sum a + ovf_sum b)%nat.
Proof. unfold ovf_sum. now rewrite map_app, list_sum_app. Qed.
Lemma ovf_sum_cons m l : ovf_sum (m :: l) = (length (m_ovf m) + ovf_sum l)%nat.
Proof. reflexivity. Qed.

Lemma over_inv1 c frags : c_yover c = true -> let st := fold_left (step c) frags st0 in
  length (filter is_over (st_emitted st)) = ovf_sum (all_mols (st_groups st)).
Proof.
  intros Hy. apply (run_inv c (fun _ X E => length (filter is_over E) = ovf_sum X)).
  - reflexivity.
  - intros pre X E f HP Hv. rewrite filter_app. destruct (c_yinv c); cbn; rewrite app_length; cbn; lia.
  - intros pre X E f X' e HP Hv Ht. rewrite filter_app, app_length.
    inversion Ht; subst; unfold emit_of; rewrite ?Hy; rewrite !ovf_sum_app, !ovf_sum_cons in *;
      cbn [mol_add mol_bump mol_new m_ovf m_kind filter is_over Z.eqb Pos.eqb length]; rewrite ?app_length; cbn [length]; lia.
Qed.

Lemma over_inv0 c frags : c_yover c = true -> let st := fold_left (step0 c) frags s00 in
  length (filter is_over (s0_emitted st)) = ovf_sum (s0_mols st).
Proof.
  intros Hy. apply (run_inv0 c (fun _ X E => length (filter is_over E) = ovf_sum X)).
  - reflexivity.
  - intros pre X E f HP Hv. rewrite filter_app. destruct (c_yinv c); cbn; rewrite app_length; cbn; lia.
  - intros pre X E f X' e HP Hv Ht. rewrite filter_app, app_length.
    inversion Ht; subst; unfold emit_of; rewrite ?Hy; rewrite ?ovf_sum_app, ?ovf_sum_cons in *;
      cbn [mol_add mol_bump mol_new m_ovf m_kind filter is_over Z.eqb Pos.eqb length]; rewrite ?app_length; cbn [length]; try change (ovf_sum []) with 0%nat; lia.
Qed.

Lemma filter_over_parts E X : (forall m, In m X -> m_kind m = 0) -> filter is_over (E ++ X) = filter is_over E.
Proof.
  intros HX. rewrite filter_app. rewrite (filter_none is_over X); [now rewrite app_nil_r|].
  intros m Hm. unfold is_over. now rewrite (HX m Hm).
Qed.

(* pooling 1 *)
Lemma overflow_main1 c frags out : assign c frags = Some out ->
  (forall m, In m out -> m_kind m = 1 -> exists f, m_frags m = [f] /\ m_ovf m = [] /\ f_valid f = true) /\
  (c_yover c = true -> length (filter is_over out) = ovf_sum (filter normal out)) /\
  (c_yover c = false -> filter is_over out = []).
Proof.
  intros H. destruct (assign_parts _ _ _ H) as (E & X & -> & HX & HE & Hok & Hbad). split; [|split].
  - intros m Hm Hk. apply in_app_or in Hm as [Hm|Hm].
    + destruct (HE m Hm) as (_ & Ho & f & Hf & Hv & _). exists f. auto.
    + destruct (HX m Hm) as (Hk0 & _). congruence.
  - intros Hy. rewrite filter_over_parts by (intros m Hm; now destruct (HX m Hm)).
    rewrite filter_normal; [|intros m Hm; now destruct (HX m Hm)|intros m Hm; now destruct (HE m Hm)].
    destruct (cap_bad c) eqn:Hb.
    + destruct (Hbad eq_refl) as (-> & -> & _). reflexivity.
    + destruct (Hok eq_refl) as (-> & ->). now apply over_inv1.
  - intros Hy. rewrite filter_over_parts by (intros m Hm; now destruct (HX m Hm)).
    destruct (cap_bad c) eqn:Hb.
    + destruct (Hbad eq_refl) as (-> & -> & _). reflexivity.
    + destruct (Hok eq_refl) as (-> & _).
      apply (run_inv c (fun _ _ E => filter is_over E = [])).
      * reflexivity.
      * intros pre X0 E0 f HP Hv. rewrite filter_app, HP. destruct (c_yinv c); reflexivity.
      * intros pre X0 E0 f X' e HP Hv Ht. rewrite filter_app, HP. unfold emit_of. rewrite Hy. destruct e; reflexivity.
Qed.

(* pooling 0 *)
Lemma overflow_main0 c frags out : assign0 c frags = Some out ->
  (forall m, In m out -> m_kind m = 1 -> exists f, m_frags m = [f] /\ m_ovf m = [] /\ f_valid f = true) /\
  (c_yover c = true -> length (filter is_over out) = ovf_sum (filter normal out)) /\
  (c_yover c = false -> filter is_over out = []).
Proof.
  intros H. destruct (normal0_parts _ _ _ H) as [(Hb & -> & Hn)|(Hb & -> & _)].
  - destruct (basic0_inv c frags) as [HX HE]. split; [|split].
    + intros m Hm Hk. apply in_app_or in Hm as [Hm|Hm].
      * destruct (HE m Hm) as (_ & Ho & f & Hf & Hv & _). exists f. auto.
      * destruct (HX m Hm) as (Hk0 & _). congruence.
    + intros Hy. rewrite Hn. rewrite filter_over_parts by (intros m Hm; now destruct (HX m Hm)). now apply over_inv0.
    + intros Hy. rewrite filter_over_parts by (intros m Hm; now destruct (HX m Hm)).
      apply (run_inv0 c (fun _ _ E => filter is_over E = [])).
      * reflexivity.
      * intros pre X0 E0 f HP Hv. rewrite filter_app, HP. destruct (c_yinv c); reflexivity.
      * intros pre X0 E0 f X' e HP Hv Ht. rewrite filter_app, HP. unfold emit_of. rewrite Hy. destruct e; reflexivity.
  - split; [intros m []|]. split; reflexivity.
Qed.
