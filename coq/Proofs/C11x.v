(* C11 proofs, part 5 (extension): several files, -head, --bulk, --showtags / output mode, by-value sums.
   The loops as coded hand a prefix of the iterator to assignReads; the accumulated table is the group-by sum over
   those records; --bulk is the per-key sum over all samples. *)
From Coq Require Import ZArith List Bool QArith Lia.
Import ListNotations.
From SCMO Require Import Lib.Val Model.C11 Model.C11x Proofs.C11 Proofs.C11_table Proofs.C11_keys.
Open Scope Z_scope.

(* ------------------------------------------------------------------ the loops = a prefix *)
Lemma count_reads_cons o reg r rs acc : count_reads o reg (r :: rs) acc = count_reads o reg rs (step o reg acc r).
Proof. reflexivity. Qed.

Lemma count_reads_nil o reg acc : count_reads o reg [] acc = acc.
Proof. reflexivity. Qed.

Lemma loop_plain_none o : forall reads i acc, loop_plain o None i reads acc = count_reads o None reads acc.
Proof.
  induction reads as [|r rs IH]; intros i acc; [reflexivity|]. cbn [loop_plain stop]. rewrite IH. reflexivity.
Qed.

(* at index i, with limit n: the records with index i .. n are processed, i.e. the next n + 1 - i *)
Lemma loop_plain_some o n : forall reads i acc,
  loop_plain o (Some n) i reads acc = count_reads o None (firstn (Z.to_nat (n + 1 - i)) reads) acc.
Proof.
  induction reads as [|r rs IH]; intros i acc.
  - rewrite firstn_nil. reflexivity.
  - cbn [loop_plain stop]. destruct (n <? i) eqn:E.
    + apply Z.ltb_lt in E. replace (Z.to_nat (n + 1 - i)) with O by lia. reflexivity.
    + apply Z.ltb_ge in E. replace (Z.to_nat (n + 1 - i)) with (S (Z.to_nat (n + 1 - (i + 1)))) by lia.
      cbn [firstn]. rewrite count_reads_cons. apply IH.
Qed.

Lemma loop_plain_head o h reads acc :
  loop_plain o h 0 reads acc = count_reads o None (head_plain h reads) acc.
Proof.
  destruct h as [n|]; cbn [head_plain]; [|apply loop_plain_none].
  rewrite loop_plain_some. replace (n + 1 - 0) with (n + 1) by lia. reflexivity.
Qed.

Lemma loop_bed_none o reg : forall reads i acc, loop_bed o reg None i reads acc = count_reads o (Some reg) reads acc.
Proof.
  induction reads as [|r rs IH]; intros i acc; [reflexivity|]. cbn [loop_bed stop]. rewrite IH. reflexivity.
Qed.

(* the test follows the call: the record at index i is always processed; then indices up to n + 1 *)
Lemma loop_bed_some o reg n : forall reads i acc,
  loop_bed o reg (Some n) i reads acc
  = count_reads o (Some reg) (firstn (Z.to_nat (Z.max 1 (n + 2 - i))) reads) acc.
Proof.
  induction reads as [|r rs IH]; intros i acc.
  - rewrite firstn_nil. reflexivity.
  - cbn [loop_bed stop]. destruct (n <? i) eqn:E.
    + apply Z.ltb_lt in E. replace (Z.to_nat (Z.max 1 (n + 2 - i))) with 1%nat by lia. reflexivity.
    + apply Z.ltb_ge in E.
      replace (Z.to_nat (Z.max 1 (n + 2 - i))) with (S (Z.to_nat (Z.max 1 (n + 2 - (i + 1))))) by lia.
      cbn [firstn]. rewrite count_reads_cons. apply IH.
Qed.

Lemma loop_bed_head o reg h reads acc :
  loop_bed o reg h 0 reads acc = count_reads o (Some reg) (head_bed h reads) acc.
Proof.
  destruct h as [n|]; cbn [head_bed]; [|apply loop_bed_none].
  rewrite loop_bed_some. replace (n + 2 - 0) with (n + 2) by lia. reflexivity.
Qed.

(* the generic loop of the generated description, instantiated as the two hand-written loops *)
Lemma loop_src_ext first f g o reg h :
  (forall i, f h i = g h i) -> forall reads i acc,
  loop_src first f o reg h i reads acc = loop_src first g o reg h i reads acc.
Proof.
  intros Hfg. induction reads as [|r rs IH]; intros i acc; [reflexivity|].
  cbn [loop_src]. rewrite Hfg. destruct first; destruct (g h i); try reflexivity; apply IH.
Qed.

Lemma loop_src_plain o h : forall reads i acc,
  loop_src true stop o None h i reads acc = loop_plain o h i reads acc.
Proof.
  induction reads as [|r rs IH]; intros i acc; [reflexivity|].
  cbn [loop_src loop_plain]. destruct (stop h i); [reflexivity|apply IH].
Qed.

Lemma loop_src_bed o reg h : forall reads i acc,
  loop_src false stop o (Some reg) h i reads acc = loop_bed o reg h i reads acc.
Proof.
  induction reads as [|r rs IH]; intros i acc; [reflexivity|].
  cbn [loop_src loop_bed]. destruct (stop h i); [reflexivity|apply IH].
Qed.

(* ------------------------------------------------------------------ files -> presented pairs *)
Lemma xbed_fold o h reads : forall regions acc,
  fold_left (fun acc (row : str * Z * Z * str) =>
               let '(c, s, e, n) := row in
               if region_selected o c then loop_bed o (s, e, n) h 0 (filter (overlaps c s e) reads) acc else acc)
            regions acc
  = count_pairs o (flat_map (fun row : str * Z * Z * str =>
                               let '(c, s, e, n) := row in
                               if region_selected o c
                               then map (pair (Some (s, e, n))) (head_bed h (filter (overlaps c s e) reads))
                               else []) regions) acc.
Proof.
  induction regions as [|[[[c s] e] n] regions IH]; intros acc; [reflexivity|].
  cbn [fold_left flat_map]. rewrite count_pairs_app, IH. f_equal.
  destruct (region_selected o c); [|reflexivity]. rewrite loop_bed_head. apply count_reads_pairs.
Qed.

Lemma count_file_pairs x acc reads :
  count_file x acc reads = count_pairs (x_o x) (xpresented_file x reads) acc.
Proof.
  unfold count_file, xpresented_file. destruct (o_bed (x_o x)) as [regions|].
  - apply xbed_fold.
  - rewrite loop_plain_head. apply count_reads_pairs.
Qed.

Lemma xcount_fold x : forall files acc,
  fold_left (count_file x) files acc = count_pairs (x_o x) (flat_map (xpresented_file x) files) acc.
Proof.
  induction files as [|f files IH]; intros acc; [reflexivity|].
  cbn [fold_left flat_map]. rewrite count_pairs_app, IH, count_file_pairs. reflexivity.
Qed.

Lemma xcount_pairs x files : xcount x files = count_pairs (x_o x) (xpresented x files) (Ok []).
Proof. apply xcount_fold. Qed.

Lemma xspec_cell_sum x k files : xspec_cell x k files = spec_sum (x_o x) k (xpresented x files).
Proof. reflexivity. Qed.

(* the table for every option record, -head and several files included: group-by sum over the presented records *)
Lemma xcount_spec x files t :
  xcount x files = Ok t -> forall k, (cell k t == xspec_cell x k files)%Q.
Proof.
  rewrite xcount_pairs. intros H k. apply (count_pairs_ok (x_o x) k) in H.
  rewrite H, cell_nil, xspec_cell_sum. ring.
Qed.

Lemma firstn_In {A} (n : nat) : forall (l : list A) a, In a (firstn n l) -> In a l.
Proof.
  induction n as [|n IH]; intros l a H; [destruct H|]. destruct l as [|b l]; [destruct H|].
  cbn [firstn] in H. destruct H as [<-|H]; [left; reflexivity|right; apply IH; assumption].
Qed.

Lemma head_plain_In {A} h (l : list A) a : In a (head_plain h l) -> In a l.
Proof. destruct h; cbn [head_plain]; [apply firstn_In|auto]. Qed.

Lemma head_bed_In {A} h (l : list A) a : In a (head_bed h l) -> In a l.
Proof. destruct h; cbn [head_bed]; [apply firstn_In|auto]. Qed.

Lemma xpresented_file_subset x reads p : In p (xpresented_file x reads) -> In (snd p) reads.
Proof.
  unfold xpresented_file. destruct (o_bed (x_o x)) as [regions|].
  - rewrite in_flat_map. intros ([[[c s] e] n] & _ & Hin).
    destruct (region_selected (x_o x) c); [|destruct Hin].
    apply in_map_iff in Hin. destruct Hin as (r & <- & Hr). apply head_bed_In in Hr.
    apply filter_In in Hr. exact (proj1 Hr).
  - rewrite in_map_iff. intros (r & <- & Hr). cbn [snd]. apply head_plain_In in Hr.
    destruct (o_contig (x_o x)); [apply filter_In in Hr; exact (proj1 Hr)|exact Hr].
Qed.

Lemma xpresented_subset x files p : In p (xpresented x files) -> exists f, In f files /\ In (snd p) f.
Proof.
  unfold xpresented. rewrite in_flat_map. intros (f & Hf & Hp). exists f. split; [assumption|].
  apply xpresented_file_subset with (x := x). assumption.
Qed.

Lemma xcount_total x files : xpre x files = true -> exists t, xcount x files = Ok t.
Proof.
  unfold xpre. rewrite andb_true_iff. intros [Ho Hr]. rewrite xcount_pairs.
  apply count_pairs_total; [assumption|]. apply Forall_forall. intros p Hp.
  apply xpresented_subset in Hp. destruct Hp as (f & Hf & Hp).
  rewrite forallb_forall in Hr. specialize (Hr f Hf). rewrite forallb_forall in Hr. apply Hr. assumption.
Qed.

(* without -head and with one file this is the table of Model/C11.v *)
Lemma xpresented_nohead x reads : x_head x = None -> xpresented x [reads] = presented (x_o x) reads.
Proof.
  intros Hh. unfold xpresented, xpresented_file, presented. cbn [flat_map]. rewrite app_nil_r, Hh.
  destruct (o_bed (x_o x)); reflexivity.
Qed.

Lemma xcount_conservative x reads :
  is_nil (snd (prep (x_o x))) = false -> x_head x = None -> xcount x [reads] = count_table (x_o x) reads.
Proof.
  intros Hn Hh. rewrite xcount_pairs, count_table_pairs, Hn, xpresented_nohead by assumption. reflexivity.
Qed.

(* several files, no BED, no -head: the table of the concatenated record stream *)
Lemma filter_concat {A} (f : A -> bool) : forall ls, filter f (concat ls) = concat (map (filter f) ls).
Proof.
  induction ls as [|l ls IH]; [reflexivity|]. cbn [concat map]. rewrite filter_app, IH. reflexivity.
Qed.

Lemma xpresented_plain_concat x files :
  x_head x = None -> o_bed (x_o x) = None -> xpresented x files = presented (x_o x) (concat files).
Proof.
  intros Hh Hb. unfold xpresented, xpresented_file, presented. rewrite Hh, Hb. cbn [head_plain].
  induction files as [|f files IH]; [destruct (o_contig (x_o x)); reflexivity|].
  cbn [flat_map concat]. rewrite IH. destruct (o_contig (x_o x)).
  - rewrite filter_app, map_app. reflexivity.
  - rewrite map_app. reflexivity.
Qed.

Lemma xcount_concat x files :
  is_nil (snd (prep (x_o x))) = false -> x_head x = None -> o_bed (x_o x) = None ->
  xcount x files = count_table (x_o x) (concat files).
Proof.
  intros Hn Hh Hb. rewrite xcount_pairs, count_table_pairs, Hn, xpresented_plain_concat by assumption. reflexivity.
Qed.

(* -head N on one file, plain mode: the table of the first N + 1 records the iterator yields *)
Lemma xcount_head_plain x n reads :
  is_nil (snd (prep (x_o x))) = false -> x_head x = Some n -> o_bed (x_o x) = None -> o_contig (x_o x) = None ->
  xcount x [reads] = count_table (x_o x) (firstn (Z.to_nat (n + 1)) reads).
Proof.
  intros Hn Hh Hb Hc. rewrite xcount_pairs, count_table_pairs, Hn.
  unfold xpresented, xpresented_file, presented. cbn [flat_map]. rewrite app_nil_r, Hh, Hb, Hc. reflexivity.
Qed.

(* ------------------------------------------------------------------ --bulk *)
Lemma key_eqb_eq a b : key_eqb a b = true <-> a = b.
Proof. apply (list_eqb_eq kc_eqb kc_eqb_eq). Qed.

Lemma key_eqb_refl a : key_eqb a a = true.
Proof. apply key_eqb_eq. reflexivity. Qed.

Lemma key_sum_cons k c l :
  key_sum k (c :: l) = ((if key_eqb k (snd (fst c)) then snd c else 0) + key_sum k l)%Q.
Proof. reflexivity. Qed.

Lemma key_sum_nil k : key_sum k [] = 0%Q.
Proof. reflexivity. Qed.

Lemma key_sum_app k l1 l2 : (key_sum k (l1 ++ l2) == key_sum k l1 + key_sum k l2)%Q.
Proof.
  induction l1 as [|c l1 IH]; cbn [app]; [rewrite key_sum_nil; ring|].
  rewrite !key_sum_cons, IH. ring.
Qed.

Lemma key_sum_compat k l l' : eqvK l l' -> (key_sum k l == key_sum k l')%Q.
Proof.
  intros H. induction H as [|a b l l' [H1 H2] _ IH]; [reflexivity|].
  rewrite !key_sum_cons, IH, H1. destruct (key_eqb k (snd (fst b))); [rewrite H2|]; reflexivity.
Qed.

Lemma bulk_sample_refl : list_eqb otval_eqb bulk_sample bulk_sample = true.
Proof. reflexivity. Qed.

Lemma sum_matching_relabel k : forall l, (sum_matching (bulk_sample, k) (map relabel l) == key_sum k l)%Q.
Proof.
  induction l as [|c l IH]; [reflexivity|]. cbn [map]. rewrite sum_matching_cons, key_sum_cons, IH.
  unfold relabel at 1 2. cbn [fst snd]. unfold ck_eqb. cbn [fst snd]. rewrite bulk_sample_refl.
  cbn [andb]. reflexivity.
Qed.

(* the Bulkseq cell of a key is the sum of that key's row over all samples *)
Lemma bulk_colsum t k : (cell (bulk_sample, k) (bulk_of t) == key_sum k t)%Q.
Proof.
  unfold bulk_of. rewrite cell_add_all, cell_nil, sum_matching_relabel. ring.
Qed.

(* cells of any other sample do not exist in a bulk table *)
Lemma sum_matching_relabel_other s k : s <> bulk_sample -> forall l, (sum_matching (s, k) (map relabel l) == 0)%Q.
Proof.
  intros Hs. induction l as [|c l IH]; [reflexivity|]. cbn [map]. rewrite sum_matching_cons, IH.
  unfold relabel at 1. cbn [fst snd]. unfold ck_eqb. cbn [fst snd].
  destruct (list_eqb otval_eqb s bulk_sample) eqn:E.
  - apply (list_eqb_eq otval_eqb otval_eqb_eq) in E. contradiction.
  - cbn [andb]. ring.
Qed.

Lemma bulk_other_sample t s k : s <> bulk_sample -> (cell (s, k) (bulk_of t) == 0)%Q.
Proof.
  intros Hs. unfold bulk_of. rewrite cell_add_all, cell_nil, (sum_matching_relabel_other s k Hs). ring.
Qed.

(* row sums of the accumulated table, by induction over the record stream *)
Lemma key_sum_add_cell q k w t :
  (key_sum q (add_cell k w t) == key_sum q t + (if key_eqb q (snd k) then w else 0))%Q.
Proof.
  induction t as [|[k' w'] t IH]; cbn [add_cell].
  - rewrite key_sum_cons, key_sum_nil. cbn [fst snd]. ring.
  - destruct (ck_eqb k k') eqn:E.
    + apply ck_eqb_eq in E. subst k'. rewrite !key_sum_cons. cbn [fst snd]. destruct (key_eqb q (snd k)); ring.
    + rewrite !key_sum_cons, IH. cbn [fst snd]. ring.
Qed.

Lemma key_sum_add_all q : forall l t, (key_sum q (add_all l t) == key_sum q t + key_sum q l)%Q.
Proof.
  induction l as [|c l IH]; intros t; unfold add_all; cbn [fold_left].
  - rewrite key_sum_nil. ring.
  - fold (add_all l (add_cell (fst c) (snd c) t)). rewrite IH, key_sum_add_cell, key_sum_cons. ring.
Qed.

Definition bulk_sum (o : opts) (k : key) (pairs : list (option (Z * Z * str) * read)) : Q :=
  fold_right (fun p acc => (key_sum k (spec_contrib o (fst p) (snd p)) + acc)%Q) 0%Q pairs.

Lemma bulk_sum_cons o k p pairs :
  bulk_sum o k (p :: pairs) = (key_sum k (spec_contrib o (fst p) (snd p)) + bulk_sum o k pairs)%Q.
Proof. reflexivity. Qed.

Lemma count_pairs_rowsum o k : forall pairs t t',
  count_pairs o pairs (Ok t) = Ok t' -> (key_sum k t' == key_sum k t + bulk_sum o k pairs)%Q.
Proof.
  induction pairs as [|p pairs IH]; intros t t' H.
  - cbn in H. apply Ok_inj in H. subst t'. unfold bulk_sum. cbn [fold_right]. ring.
  - rewrite count_pairs_cons in H. unfold step in H at 1.
    destruct (assign o (fst p) (snd p)) as [l|e] eqn:Ha.
    2:{ rewrite count_pairs_raise in H. discriminate. }
    apply IH in H. rewrite H, key_sum_add_all, bulk_sum_cons.
    rewrite (key_sum_compat k _ _ (assign_spec _ _ _ _ Ha)). ring.
Qed.

(* --bulk: every Bulkseq cell is the group-by-key sum of the contributions of all presented records *)
Lemma xcount_bulk_spec x files t :
  xcount x files = Ok t -> forall k, (cell (bulk_sample, k) (bulk_of t) == xspec_bulk x k files)%Q.
Proof.
  rewrite xcount_pairs. intros H k. apply (count_pairs_rowsum (x_o x) k) in H.
  rewrite bulk_colsum, H, key_sum_nil. unfold xspec_bulk, bulk_sum. ring.
Qed.

Definition set_bulk (b : bool) (x : xopts) : xopts :=
  mkX (x_o x) (x_head x) b (x_showtags x) (x_return_df x) (x_out x).

(* file output: the --bulk run is the row-sum of the run without --bulk, on every input (errors and exits alike) *)
Lemma xrun_bulk x files :
  x_return_df x = false ->
  xrun (set_bulk true x) files
  = match xrun (set_bulk false x) files with XTable t => XTable (bulk_of t) | r => r end.
Proof.
  intros Hr. unfold xrun, set_bulk, exits, xcount, count_file. cbn [x_o x_head x_bulk x_showtags x_return_df x_out].
  rewrite Hr. destruct (is_nil files); [reflexivity|].
  destruct (x_showtags x || (negb false && negb (x_out x))); [reflexivity|].
  destruct (is_nil (snd (prep (x_o x)))); [reflexivity|].
  match goal with |- match ?a with _ => _ end = match match ?b with _ => _ end with _ => _ end =>
    change b with a; destruct a end; reflexivity.
Qed.

(* return_df=True returns before --bulk is looked at *)
Lemma xrun_bulk_ignored x files b : x_return_df x = true -> xrun (set_bulk b x) files = xrun x files.
Proof.
  intros Hr. unfold xrun, set_bulk, exits, xcount, count_file. cbn [x_o x_head x_bulk x_showtags x_return_df x_out].
  rewrite Hr. reflexivity.
Qed.

(* --showtags (or no -o without return_df): nothing is counted *)
Lemma xrun_showtags x files : files <> [] -> exits x = true -> xrun x files = XExit.
Proof. intros Hf He. unfold xrun. rewrite He. destruct files; [contradiction|reflexivity]. Qed.

Lemma xrun_table x files t :
  xrun x files = XTable t ->
  exits x = false /\ exists t0, xcount x files = Ok t0 /\ t = if bulk_mode x then bulk_of t0 else t0.
Proof.
  unfold xrun, bulk_mode. destruct (is_nil files); [discriminate|]. destruct (exits x); [discriminate|].
  destruct (is_nil (snd (prep (x_o x)))); [discriminate|]. destruct (xcount x files) as [t0|e]; [|discriminate].
  intros H. split; [reflexivity|]. exists t0. split; [reflexivity|].
  destruct (x_return_df x); cbn [negb andb]; [inversion H; reflexivity|].
  destruct (x_bulk x); inversion H; reflexivity.
Qed.

(* ------------------------------------------------------------------ by-value counting: sums of tag values *)
Definition byvalue_sum (o : opts) (b : str) (k : cellkey) (reads : list read) : Q :=
  fold_right (fun r acc =>
                ((if passesb o r && ck_eqb k (sample_of o r, map KS (joined_feature o (snd (prep o)) r))
                  then num_of (meta r b) else 0) + acc)%Q) 0%Q reads.

Lemma spec_contrib_byvalue o r jt b :
  o_jtags o = Some jt -> jt <> [] -> o_split o = false -> o_byvalue o = Some b ->
  spec_contrib o None r
  = if passesb o r then [((sample_of o r, map KS (joined_feature o (snd (prep o)) r)), num_of (meta r b))] else [].
Proof.
  intros Hj Hne Hs Hb. unfold spec_contrib. destruct (passesb o r); [|reflexivity].
  unfold pure_incs, incs. destruct (prep o) as [joined ft] eqn:Hprep. unfold prep in Hprep. rewrite Hj, Hb in Hprep.
  inversion Hprep as [[Hjn Hft]]. rewrite Hs, Hb. cbn [final_keys map fst snd plain_key].
  assert (Hm : mem b ft = true).
  { rewrite <- Hft. destruct jt as [|t jt']; [contradiction|]. cbn [is_nil negb andb].
    destruct (mem b (t :: jt')) eqn:Em; cbn [negb]; [exact Em|apply mem_app_self]. }
  rewrite !Hft. unfold byvalue_amount. rewrite Hm. reflexivity.
Qed.

(* joined tags + -byValue: every cell is the sum of the by-value tag over the counted records of that sample / key *)
Lemma by_value_table o reads t jt b :
  o_jtags o = Some jt -> jt <> [] -> o_split o = false -> o_byvalue o = Some b -> o_bed o = None -> o_contig o = None ->
  count_table o reads = Ok t -> forall k, (cell k t == byvalue_sum o b k reads)%Q.
Proof.
  intros Hj Hne Hs Hb Hbed Hc H k. rewrite (count_table_spec o reads t H k).
  unfold spec_cell, presented. rewrite Hbed, Hc. unfold byvalue_sum. clear H.
  induction reads as [|r reads IH]; [reflexivity|]. cbn [map fold_right fst snd]. rewrite IH.
  rewrite (spec_contrib_byvalue o r jt b Hj Hne Hs Hb). destruct (passesb o r); cbn [andb].
  - rewrite sum_matching_cons. cbn [fst snd]. unfold sum_matching. cbn [fold_right].
    destruct (ck_eqb k _); ring.
  - unfold sum_matching. cbn [fold_right]. ring.
Qed.

(* ------------------------------------------------------------------ soundness of the executable specification *)
Lemma xcount_NoDup x files t : xcount x files = Ok t -> NoDup (map fst t).
Proof. rewrite xcount_pairs. intros H. apply count_pairs_NoDup in H; [assumption|constructor]. Qed.

Lemma bulk_of_NoDup t : NoDup (map fst (bulk_of t)).
Proof. unfold bulk_of. apply add_all_NoDup. constructor. Qed.

Lemma add_cell_keys_sample k w (P : cellkey -> Prop) : forall t,
  P k -> Forall P (map fst t) -> Forall P (map fst (add_cell k w t)).
Proof.
  induction t as [|[k' w'] t IH]; intros Hk Ht; cbn [add_cell map fst].
  - constructor; [assumption|constructor].
  - cbn [map fst] in Ht. inversion Ht as [|? ? Hk' Ht']; subst.
    destruct (ck_eqb k k'); cbn [map fst]; constructor; auto.
Qed.

Lemma add_all_keys_sample (P : cellkey -> Prop) : forall l t,
  Forall P (map fst l) -> Forall P (map fst t) -> Forall P (map fst (add_all l t)).
Proof.
  induction l as [|c l IH]; intros t Hl Ht; [exact Ht|]. unfold add_all. cbn [fold_left].
  cbn [map] in Hl. inversion Hl as [|? ? Hc Hl']; subst.
  apply IH; [assumption|]. apply add_cell_keys_sample; assumption.
Qed.

Lemma bulk_of_samples t : Forall (fun ck => fst ck = bulk_sample) (map fst (bulk_of t)).
Proof.
  unfold bulk_of. apply add_all_keys_sample; [|constructor].
  apply Forall_forall. intros ck Hin. apply in_map_iff in Hin. destruct Hin as (c & <- & Hc).
  apply in_map_iff in Hc. destruct Hc as (c0 & <- & _). reflexivity.
Qed.

Lemma percell_sound x files t :
  NoDup (map fst t) -> (forall k, (cell k t == xspec_cell x k files)%Q) ->
  forallb (fun c => Qeq_bool (snd c) (xspec_cell x (fst c) files)) (filter nonzero t)
  && forallb (fun k => Qeq_bool (xspec_cell x k files) 0 || existsb (ck_eqb k) (map fst (filter nonzero t)))
             (xspec_keys x files)
  && nodup_keys (map fst (filter nonzero t)) = true.
Proof.
  intros Hd Hs. rewrite !andb_true_iff. split; [split|].
  - apply forallb_forall. intros c Hc. apply filter_In in Hc. destruct Hc as [Hc _].
    apply Qeq_bool_iff. rewrite <- Hs. symmetry. apply cell_unique; assumption.
  - apply forallb_forall. intros k _. destruct (Qeq_bool (xspec_cell x k files) 0) eqn:E; [reflexivity|].
    cbn [orb]. apply existsb_ck. apply Qeq_bool_neq in E. rewrite <- Hs in E.
    destruct (existsb (ck_eqb k) (map fst t)) eqn:Ein.
    + apply existsb_ck in Ein. apply in_map_iff in Ein. destruct Ein as ([k' w] & Hk & Hin). cbn [fst] in Hk. subst k'.
      apply in_map_iff. exists (k, w). split; [reflexivity|]. apply filter_In. split; [assumption|].
      unfold nonzero. cbn [snd]. apply negb_true_iff. destruct (Qeq_bool w 0) eqn:Ew; [|reflexivity].
      exfalso. apply E. apply Qeq_bool_iff in Ew. rewrite <- Ew. exact (cell_unique t (k, w) Hd Hin).
    + exfalso. apply E. apply cell_notin. intros Hin. apply existsb_ck in Hin. congruence.
  - apply nodup_keys_iff. apply NoDup_map_filter. assumption.
Qed.

Lemma bulk_sound x files t :
  NoDup (map fst t) -> Forall (fun ck => fst ck = bulk_sample) (map fst t) ->
  (forall k, (cell (bulk_sample, k) t == xspec_bulk x k files)%Q) ->
  forallb (fun c => list_eqb otval_eqb (fst (fst c)) bulk_sample
                    && Qeq_bool (snd c) (xspec_bulk x (snd (fst c)) files)) (filter nonzero t)
  && forallb (fun k => Qeq_bool (xspec_bulk x (snd k) files) 0
                       || existsb (ck_eqb (bulk_sample, snd k)) (map fst (filter nonzero t))) (xspec_keys x files)
  && nodup_keys (map fst (filter nonzero t)) = true.
Proof.
  intros Hd Hsm Hs. rewrite !andb_true_iff. split; [split|].
  - apply forallb_forall. intros c Hc. apply filter_In in Hc. destruct Hc as [Hc _].
    rewrite Forall_forall in Hsm. assert (Hb : fst (fst c) = bulk_sample) by (apply Hsm; apply in_map; assumption).
    apply andb_true_iff. split; [rewrite Hb; reflexivity|].
    apply Qeq_bool_iff. rewrite <- Hs. symmetry. rewrite <- Hb. rewrite <- surjective_pairing.
    apply cell_unique; assumption.
  - apply forallb_forall. intros k _. destruct (Qeq_bool (xspec_bulk x (snd k) files) 0) eqn:E; [reflexivity|].
    cbn [orb]. apply existsb_ck. apply Qeq_bool_neq in E. rewrite <- Hs in E.
    destruct (existsb (ck_eqb (bulk_sample, snd k)) (map fst t)) eqn:Ein.
    + apply existsb_ck in Ein. apply in_map_iff in Ein. destruct Ein as ([k' w] & Hk & Hin). cbn [fst] in Hk. subst k'.
      apply in_map_iff. exists ((bulk_sample, snd k), w). split; [reflexivity|]. apply filter_In. split; [assumption|].
      unfold nonzero. cbn [snd]. apply negb_true_iff. destruct (Qeq_bool w 0) eqn:Ew; [|reflexivity].
      exfalso. apply E. apply Qeq_bool_iff in Ew. rewrite <- Ew.
      exact (cell_unique t ((bulk_sample, snd k), w) Hd Hin).
    + exfalso. apply E. apply cell_notin. intros Hin. apply existsb_ck in Hin. exact (eq_true_false_abs _ Hin Ein).
  - apply nodup_keys_iff. apply NoDup_map_filter. assumption.
Qed.

Definition obs_of (r : xres) : xobs :=
  match r with XTable t => OTable (filter nonzero t) | XRaise _ => ORaise | XExit => OExit end.

(* the specification the check evaluates on the implementation's output accepts every outcome of the model *)
Lemma xspecb_sound x files : xspecb x files (obs_of (xrun x files)) = true.
Proof.
  unfold xspecb. destruct (is_nil files) eqn:Ef.
  { unfold xrun. rewrite Ef. reflexivity. }
  destruct (exits x) eqn:Ee.
  { unfold xrun. rewrite Ef, Ee. reflexivity. }
  destruct (xpre x files) eqn:Ep; [|reflexivity].
  destruct (xcount_total x files Ep) as [t0 Ht0].
  assert (Hn : is_nil (snd (prep (x_o x))) = false).
  { unfold xpre, wf_opts in Ep. rewrite !andb_true_iff in Ep. destruct Ep as [[[Ho _] _] _].
    apply negb_true_iff in Ho. exact Ho. }
  unfold xrun. rewrite Ef, Ee, Hn, Ht0. unfold bulk_mode.
  destruct (x_return_df x); cbn [negb andb obs_of].
  - apply percell_sound; [exact (xcount_NoDup x files t0 Ht0)|exact (xcount_spec x files t0 Ht0)].
  - destruct (x_bulk x); cbn [obs_of].
    + apply bulk_sound; [apply bulk_of_NoDup|apply bulk_of_samples|exact (xcount_bulk_spec x files t0 Ht0)].
    + apply percell_sound; [exact (xcount_NoDup x files t0 Ht0)|exact (xcount_spec x files t0 Ht0)].
Qed.

(* ------------------------------------------------------------------ -head: the documented meaning is refuted *)
(* two single-end records of cell c1 on chr1, joined tag chrom *)
Definition hx_read (p : Z) : read :=
  mkRead false false false false false false false false 60 [0] [([83; 77], TStr [99; 49])] (Some [99; 104; 114; 49]) p (Some (p + 20)).
Definition hx_opts : opts :=
  mkOpts false false false 0 false false None false false false None false false None (Some [s_chrom]) None false [44]
         [[83; 77]] None None.
Definition hx_x (h : option Z) : xopts := mkX hx_opts h false false true false.
Definition hx_key : cellkey := ([Some (TStr [99; 49])], [KS [99; 104; 114; 49]]).
Definition hx_reads : list read := [hx_read 10; hx_read 40; hx_read 70].

(* "-head N: run the algorithm only on the first N reads": with N = 1 the table holds 2 *)
Lemma head_documented_refuted :
  xpre (hx_x (Some 1)) [hx_reads] = true /\
  exists t, xcount (hx_x (Some 1)) [hx_reads] = Ok t /\
    (cell hx_key t == 2)%Q /\
    (spec_cell hx_opts hx_key (firstn 1 hx_reads) == 1)%Q /\
    ~ (cell hx_key t == spec_cell hx_opts hx_key (firstn 1 hx_reads))%Q.
Proof.
  split; [vm_compute; reflexivity|]. eexists. split; [vm_compute; reflexivity|].
  split; [vm_compute; reflexivity|]. split; [vm_compute; reflexivity|]. vm_compute. discriminate.
Qed.

(* BED mode: one more; with N = 0 two records of the region are counted *)
Definition hx_bed_opts : opts :=
  mkOpts false false false 0 false false None false false false None false false None (Some [s_chrom]) None false [44]
         [[83; 77]] None (Some [([99; 104; 114; 49], 0, 200, [98; 48])]).
Definition hx_bed_x (h : option Z) : xopts := mkX hx_bed_opts h false false true false.
Definition hx_bed_key : cellkey := ([Some (TStr [99; 49])], [KS [99; 104; 114; 49]; KZ 0; KZ 200; KS [98; 48]]).

Lemma head_bed_documented_refuted :
  xpre (hx_bed_x (Some 0)) [hx_reads] = true /\
  exists t, xcount (hx_bed_x (Some 0)) [hx_reads] = Ok t /\ (cell hx_bed_key t == 2)%Q.
Proof.
  split; [vm_compute; reflexivity|]. eexists. split; [vm_compute; reflexivity|]. vm_compute. reflexivity.
Qed.

(* ------------------------------------------------------------------ a concrete example: two files, -head 1, --bulk,
   by-value on a float tag (0.5 and 0.25 exactly) *)
Definition bx_read (p : Z) (sm : Z) (q : Q) (s : str) : read :=
  mkRead false false false false false false false false 60 [0]
         [([83; 77], TStr [99; sm]); ([102; 118], TFlt q s)] (Some [99; 104; 114; 49]) p (Some (p + 20)).
Definition bx_opts : opts :=
  mkOpts false false false 0 false false None false false false None false false None (Some [s_chrom]) (Some [102; 118]) false [44]
         [[83; 77]] None None.
Definition bx_x : xopts := mkX bx_opts (Some 1) true false false true.
Definition bx_files : list (list read) :=
  [ [bx_read 10 49 (1 # 2) [48; 46; 53]; bx_read 20 50 (1 # 4) [48; 46; 50; 53]; bx_read 30 49 (1 # 2) [48; 46; 53]];
    [bx_read 15 50 (1 # 4) [48; 46; 50; 53]] ].
Definition bx_key : key := [KS [99; 104; 114; 49]].

Lemma bx_ok :
  xpre bx_x bx_files = true /\
  exists t, xrun bx_x bx_files = XTable t /\ (cell (bulk_sample, bx_key) t == 1)%Q /\
            length (xpresented bx_x bx_files) = 3%nat.
Proof.
  split; [vm_compute; reflexivity|]. eexists. split; [vm_compute; reflexivity|]. split; vm_compute; reflexivity.
Qed.
