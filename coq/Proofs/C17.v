(* C17 proofs: fill_range tiles, merge_overlapping_ranges normalises a blacklist, trim_rangelist clips it,
   blacklisted_binning partitions the region minus the blacklist and its fetch windows stay inside their
   gap; bp_chunked only groups. *)
From Coq Require Import ZArith List Bool Lia ZifyBool Arith.
Import ListNotations.
From SCMO Require Import Lib.Val Lib.Tiling Lib.TilingFacts Gen.GenTiling Model.C17 Proofs.C17_shape.
Open Scope Z_scope.

(* ================================================================== specification (statement level) *)
(* a fetch window w of bin b: contains the bin, extends it by at most f on either side, stays inside the
   region [sc,ec) and contains no blacklisted base *)
Definition window_ok (sc ec f : Z) (bl : list iv) (o : obin) : Prop :=
  exists w, snd o = Some w /\
    fst w <= fst (fst o) /\ snd (fst o) <= snd w /\
    fst (fst o) - fst w <= f /\ snd w - snd (fst o) <= f /\
    sc <= fst w /\ snd w <= ec /\
    forall p, inside p w -> ~ covers bl p.

(* the property: the bins are non-empty, increasing, pairwise disjoint and inside [sc,ec) (ordered);
   none is longer than bs; every base of the region is in a bin iff it is not blacklisted;
   windows as above *)
Definition spec (sc ec bs : Z) (bl : list iv) (frag : option Z) (out : list obin) : Prop :=
  let bins := map fst out in
  ordered sc ec bins /\
  Forall (fun b => snd b - fst b <= bs) bins /\
  (forall p, sc <= p < ec -> (covers bins p <-> ~ covers bl p)) /\
  match frag with
  | None => Forall (fun o => snd o = None) out
  | Some f => Forall (window_ok sc ec f bl) out
  end.

(* ================================================================== fill_range *)
Lemma fr_tail_eq st en step e : fr_tail st en step e = if e <? en then [(e, en)] else [].
Proof.
  unfold fr_tail. rewrite sh_fr_last. destruct (g_fr_tail st en step e) eqn:E.
  - apply sh_fr_tail in E. destruct (e <? en) eqn:E2; [reflexivity | lia].
  - apply not_true_iff_false in E. rewrite sh_fr_tail in E. destruct (e <? en) eqn:E2; [lia | reflexivity].
Qed.

(* the loop for step > 0: the loop-carried e equals the loop variable at the head of every iteration *)
Lemma fr_loop_chain st step : 0 < step -> forall fuel en i, i <= en -> en - i < Z.of_nat fuel * step ->
  chain step i en (fr_loop fuel st en step true en step i i).
Proof.
  intros Hs. induction fuel as [| f IH]; intros en i Hle Hf.
  - lia.
  - cbn [fr_loop]. destruct (i >=? en) eqn:E1.
    + rewrite fr_tail_eq. destruct (i <? en) eqn:E0; [lia |]. cbn [chain]. lia.
    + cbv zeta. rewrite sh_fr_e. destruct (g_fr_over st en step i (i + step)) eqn:E2.
      * apply sh_fr_over in E2. rewrite sh_fr_back, fr_tail_eq. replace (i + step - step) with i by lia.
        destruct (i <? en) eqn:E0; [| lia].
        apply chain_cons. split; [reflexivity |]. split; [lia |]. split; [lia |]. split; [lia |]. reflexivity.
      * apply not_true_iff_false in E2. rewrite sh_fr_over in E2. rewrite sh_fr_yield.
        apply chain_cons. split; [reflexivity |]. split; [lia |]. split; [lia |]. split; [lia |]. apply IH; lia.
Qed.

Lemma fill_range_pos s e step : 0 < step ->
  fill_range s e step = Ok (fr_loop (S (Z.to_nat (Z.abs (e - s) / Z.abs step))) s e step true e step s s).
Proof.
  intros Hs. unfold fill_range. rewrite sh_fr_range, sh_fr_init. cbv beta iota.
  destruct (step =? 0) eqn:E0; [lia |]. destruct (0 <? step) eqn:E1; [reflexivity | lia].
Qed.

Lemma fill_range_partition s e step : 0 < step -> s <= e ->
  exists l, fill_range s e step = Ok l /\ chain step s e l.
Proof.
  intros Hs Hle. eexists. split; [apply fill_range_pos; assumption |]. apply fr_loop_chain; auto.
  rewrite !Z.abs_eq by lia.
  assert (0 <= (e - s) / step) by (apply Z.div_pos; lia).
  rewrite Nat2Z.inj_succ, Z2Nat.id by assumption.
  pose proof (Z.mod_pos_bound (e - s) step Hs). pose proof (Z.div_mod (e - s) step ltac:(lia)). nia.
Qed.

Lemma fill_range_zero s e : fill_range s e 0 = Raise 1.
Proof. unfold fill_range. rewrite sh_fr_range. reflexivity. Qed.

Lemma fill_range_empty s e step : 0 < step -> e <= s -> fill_range s e step = Ok [].
Proof.
  intros Hs Hle. rewrite fill_range_pos by assumption. f_equal.
  cbn [fr_loop]. destruct (s >=? e) eqn:E; [| lia]. rewrite fr_tail_eq. destruct (s <? e) eqn:E2; [lia | reflexivity].
Qed.

(* ================================================================== sorted() *)
Definition hd_le (a : iv) (l : list iv) : Prop := match l with [] => True | b :: _ => lex_leb a b = true end.

Fixpoint lsorted (l : list iv) : Prop :=
  match l with
  | [] => True
  | a :: t => hd_le a t /\ lsorted t
  end.

Lemma lex_leb_total a b : lex_leb a b = false -> lex_leb b a = true.
Proof. unfold lex_leb. lia. Qed.

Lemma lex_leb_fst a b : lex_leb a b = true -> fst a <= fst b.
Proof. unfold lex_leb. lia. Qed.

Lemma insert_hd_le a b l : lex_leb b a = true -> hd_le b l -> hd_le b (insert a l).
Proof. destruct l as [| c l]; cbn [insert hd_le]; auto. destruct (lex_leb a c); cbn [hd_le]; auto. Qed.

Lemma insert_sorted a : forall l, lsorted l -> lsorted (insert a l).
Proof.
  induction l as [| b l IH]; cbn [insert lsorted hd_le]; intros H.
  - auto.
  - destruct H as (H1 & H2). destruct (lex_leb a b) eqn:E.
    + cbn [lsorted hd_le]. auto.
    + cbn [lsorted]. split; [| auto]. apply insert_hd_le; auto. apply lex_leb_total; assumption.
Qed.

Lemma isort_sorted : forall l, lsorted (isort l).
Proof. induction l as [| a l IH]; cbn [isort lsorted]; auto. apply insert_sorted; assumption. Qed.

Lemma insert_In a x : forall l, In x (insert a l) <-> x = a \/ In x l.
Proof.
  induction l as [| b l IH]; cbn [insert In].
  - intuition.
  - destruct (lex_leb a b); cbn [In]; rewrite ?IH; intuition.
Qed.

Lemma isort_In x : forall l, In x (isort l) <-> In x l.
Proof. induction l as [| a l IH]; cbn [isort In]; [tauto |]. rewrite insert_In, IH. intuition. Qed.

Lemma insert_length a : forall l, length (insert a l) = S (length l).
Proof. induction l as [| b l IH]; cbn [insert length]; auto. destruct (lex_leb a b); cbn [length]; auto. Qed.

Lemma isort_length : forall l, length (isort l) = length l.
Proof. induction l as [| a l IH]; cbn [isort length]; auto. rewrite insert_length. auto. Qed.

(* sorting a sorted list changes nothing (range_contains_overlap re-sorts its argument) *)
Lemma isort_sorted_id : forall l, lsorted l -> isort l = l.
Proof.
  induction l as [| a l IH]; cbn [isort lsorted]; intros H; auto.
  destruct H as (H1 & H2). rewrite (IH H2). destruct l as [| b l]; cbn [insert hd_le] in *; auto.
  rewrite H1. reflexivity.
Qed.

Lemma isort_covers l p : covers (isort l) p <-> covers l p.
Proof. apply covers_ext. intros b. apply isort_In. Qed.

Lemma isort_Forall (P : iv -> Prop) l : Forall P l -> Forall P (isort l).
Proof. rewrite !Forall_forall. intros H x Hx. apply H. apply isort_In. assumption. Qed.

(* ================================================================== overlap test *)
Lemma ov_iff a b : ov a b = true <-> fst b < fst a \/ fst b < snd a \/ snd b < snd a \/ snd b < fst a.
Proof. unfold ov. apply sh_mp_ov. Qed.

(* range_contains_overlap and _merge_overlapping_ranges use the same test *)
Lemma ov_rco_eq a b : ov_rco a b = ov a b.
Proof. apply eq_true_iff_eq. unfold ov_rco. rewrite sh_rco_ov, ov_iff. tauto. Qed.

Lemma any_ov_cons2 a b t : any_ov (a :: b :: t) = ov a b || any_ov (b :: t).
Proof. change (any_ov (a :: b :: t)) with (ov_rco a b || any_ov (b :: t)). rewrite ov_rco_eq. reflexivity. Qed.

Lemma any_ov_length l : any_ov l = true -> (2 <= length l)%nat.
Proof. destruct l as [| a [| b t]]; cbn [any_ov length]; try discriminate. lia. Qed.

Lemma any_ov_short l : (length l < 2)%nat -> any_ov l = false.
Proof. destruct l as [| a [| b t]]; cbn [any_ov length]; auto. lia. Qed.

Lemma ov_false a b : ov a b = false -> snd a <= fst b.
Proof. intros H. apply not_true_iff_false in H. rewrite ov_iff in H. lia. Qed.

(* no reported overlap + well-formed intervals = increasing and pairwise disjoint *)
Lemma any_ov_false_sdisj : forall l lo, any_ov l = false -> Forall wf l ->
  (forall b t, l = b :: t -> lo <= fst b) -> sdisj lo l.
Proof.
  induction l as [| [s e] l IH]; intros lo Hov Hwf Hlo.
  - exact I.
  - cbn [sdisj]. inversion Hwf as [| x y Hw Hwf']; subst. unfold wf in Hw; cbn [fst snd] in Hw.
    split; [apply (Hlo _ _ eq_refl) |]. split; [assumption |].
    destruct l as [| b t]; [exact I |].
    rewrite any_ov_cons2 in Hov. apply orb_false_iff in Hov. destruct Hov as (H1 & H2).
    apply IH; auto. intros b' t' Heq. inversion Heq; subst. apply ov_false in H1. exact H1.
Qed.

(* ================================================================== one merge pass *)
Lemma keep1_eq a b : keep1 a b = a.
Proof. unfold keep1. rewrite sh_mp_keep. destruct a; reflexivity. Qed.

Lemma mpass_true_cons b t : mpass true (b :: t) = mpass false t.
Proof. destruct t; reflexivity. Qed.

Lemma mpass_cons2 a b t :
  mpass false (a :: b :: t) = if ov a b then merge2 a b :: mpass false t else a :: mpass false (b :: t).
Proof. destruct t; cbn [mpass]; rewrite keep1_eq; reflexivity. Qed.

Lemma list_ind2 (P : list iv -> Prop) :
  P [] -> (forall a, P [a]) -> (forall a b t, P t -> P (b :: t) -> P (a :: b :: t)) -> forall l, P l.
Proof.
  intros H0 H1 H2. assert (H : forall l, P l /\ forall a, P (a :: l)).
  { induction l as [| b l (IHa & IHb)]; split; auto. }
  intros l. apply H.
Qed.

Lemma mpass_length_le : forall l, (length (mpass false l) <= length l)%nat.
Proof.
  induction l as [| a | a b t IHt IHbt] using list_ind2; [cbn [mpass length]; auto .. |].
  rewrite mpass_cons2. destruct (ov a b); cbn [length] in *; lia.
Qed.

Lemma mpass_length_lt : forall l, any_ov l = true -> (length (mpass false l) < length l)%nat.
Proof.
  induction l as [| a | a b t IHt IHbt] using list_ind2; intros H; try discriminate.
  rewrite mpass_cons2. rewrite any_ov_cons2 in H. destruct (ov a b) eqn:E.
  - cbn [length]. pose proof (mpass_length_le t). lia.
  - cbn [orb] in H. specialize (IHbt H). cbn [length] in *. lia.
Qed.

Lemma merge2_wf a b : wf a -> wf b -> wf (merge2 a b).
Proof. unfold wf, merge2. rewrite sh_mp_merge. cbn [fst snd]. lia. Qed.

Lemma mpass_wf : forall l, Forall wf l -> Forall wf (mpass false l).
Proof.
  induction l as [| a | a b t IHt IHbt] using list_ind2; intros H; [cbn [mpass]; auto .. |].
  rewrite mpass_cons2. inversion H as [| ? ? Ha H']; subst. inversion H' as [| ? ? Hb H'']; subst.
  destruct (ov a b); constructor; auto. apply merge2_wf; auto.
Qed.

(* two overlapping intervals with increasing starts: the merged interval is their union *)
Lemma merge2_inside a b p : fst a <= fst b -> wf a -> wf b -> ov a b = true ->
  (inside p (merge2 a b) <-> inside p a \/ inside p b).
Proof.
  intros H1 H2 H3 H4. apply ov_iff in H4. unfold merge2. rewrite sh_mp_merge.
  unfold wf, inside in *. cbn [fst snd]. lia.
Qed.

Lemma mpass_covers p : forall l, lsorted l -> Forall wf l -> (covers (mpass false l) p <-> covers l p).
Proof.
  induction l as [| a | a b t IHt IHbt] using list_ind2; intros Hs Hw; [cbn [mpass]; tauto .. |].
  rewrite mpass_cons2. inversion Hw as [| ? ? Ha Hw']; subst. inversion Hw' as [| ? ? Hb Hw'']; subst.
  cbn [lsorted hd_le] in Hs. destruct Hs as (Hab & Hbt). pose proof Hbt as (_ & Ht).
  destruct (ov a b) eqn:E.
  - rewrite !covers_cons, (IHt Ht Hw''), (merge2_inside a b p (lex_leb_fst _ _ Hab) Ha Hb E). tauto.
  - rewrite covers_cons, (IHbt Hbt Hw'), !covers_cons. tauto.
Qed.

(* ================================================================== merge_overlapping_ranges *)
Lemma rco_sorted cl : lsorted cl -> range_contains_overlap cl = any_ov cl.
Proof.
  intros H. unfold range_contains_overlap. cbv zeta. rewrite isort_sorted_id by assumption.
  destruct (g_rco_short (Z.of_nat (length cl))) eqn:E; [| reflexivity].
  apply sh_rco_short in E. symmetry. apply any_ov_short. lia.
Qed.

(* the while loop terminates within the fuel given by the model (no wf needed) *)
Lemma merge_loop_total : forall fuel cl, lsorted cl -> (length cl < fuel)%nat -> exists m, merge_loop fuel cl = Some m.
Proof.
  induction fuel as [| f IH]; intros cl Hs Hf; [lia |].
  cbn [merge_loop]. rewrite rco_sorted by assumption. destruct (any_ov cl) eqn:E; [| eauto].
  apply IH; [apply isort_sorted |]. rewrite isort_length. pose proof (mpass_length_lt cl E). lia.
Qed.

Theorem merge_total l : exists m, merge_overlapping_ranges l = Some m.
Proof. apply merge_loop_total; [apply isort_sorted |]. rewrite isort_length. lia. Qed.

Lemma merge_loop_spec : forall fuel cl, lsorted cl -> Forall wf cl -> (length cl < fuel)%nat ->
  exists m, merge_loop fuel cl = Some m /\ lsorted m /\ Forall wf m /\ any_ov m = false /\
            forall p, covers m p <-> covers cl p.
Proof.
  induction fuel as [| f IH]; intros cl Hs Hw Hf; [lia |].
  cbn [merge_loop]. rewrite rco_sorted by assumption. destruct (any_ov cl) eqn:E.
  - destruct (IH (isort (mpass false cl))) as (m & Hm & H1 & H2 & H3 & H4).
    + apply isort_sorted.
    + apply isort_Forall, mpass_wf; assumption.
    + rewrite isort_length. pose proof (mpass_length_lt cl E). lia.
    + exists m. repeat split; auto; intros Hc.
      * apply (mpass_covers p cl Hs Hw), isort_covers, H4; assumption.
      * apply H4, isort_covers, (mpass_covers p cl Hs Hw); assumption.
  - exists cl. repeat split; auto.
Qed.

Definition first_start (l : list iv) : Z := match l with [] => 0 | b :: _ => fst b end.

(* merge_disjoint_sorted: the result is increasing, pairwise disjoint and has the same point set *)
Theorem merge_spec l : Forall wf l ->
  exists m, merge_overlapping_ranges l = Some m /\ sdisj (first_start m) m /\ forall p, covers m p <-> covers l p.
Proof.
  intros Hw. destruct (merge_loop_spec (S (length l)) (isort l)) as (m & Hm & H1 & H2 & H3 & H4).
  - apply isort_sorted.
  - apply isort_Forall; assumption.
  - rewrite isort_length. lia.
  - exists m. split; [exact Hm |]. split.
    + apply any_ov_false_sdisj; auto. intros b t ->. cbn [first_start]. lia.
    + intros p. rewrite H4. apply isort_covers.
Qed.

(* ================================================================== trim_rangelist *)
Lemma trim_cons b l sc ec :
  trim_rangelist (b :: l) sc ec =
  if trim_keep sc ec b then trim_clip sc ec b :: trim_rangelist l sc ec else trim_rangelist l sc ec.
Proof. unfold trim_rangelist. cbn [filter]. destruct (trim_keep sc ec b); reflexivity. Qed.

Lemma trim_keep_iff sc ec s e :
  trim_keep sc ec (s, e) = true <-> (sc <= s < ec) \/ (sc <= e < ec) \/ (s < sc /\ ec <= e).
Proof. unfold trim_keep. cbn [fst snd]. apply sh_trim_keep. Qed.

Lemma trim_clip_eq sc ec b : trim_clip sc ec b = (Z.max (fst b) sc, Z.min (snd b) ec).
Proof. unfold trim_clip. apply sh_trim_clip. Qed.

Lemma trim_dchain sc ec : sc <= ec -> forall l lo c, sdisj lo l -> sc <= c -> c <= ec -> c <= Z.max lo sc ->
  dchain c ec (trim_rangelist l sc ec).
Proof.
  intros Hse. induction l as [| [s e] l IH]; intros lo c Hd H1 H2 H3.
  - cbn. assumption.
  - cbn [sdisj] in Hd. destruct Hd as (Ha & Hb & Hc). rewrite trim_cons.
    destruct (trim_keep sc ec (s, e)) eqn:K.
    + apply trim_keep_iff in K. rewrite trim_clip_eq. cbn [fst snd dchain].
      split; [lia |]. split; [lia |]. apply (IH e); auto; lia.
    + apply (IH e); auto; lia.
Qed.

Lemma trim_covers sc ec p : forall l, covers (trim_rangelist l sc ec) p <-> covers l p /\ sc <= p < ec.
Proof.
  induction l as [| [s e] l IH].
  - cbn. split; [intros H; destruct (covers_nil _ H) | intros (H & _); destruct (covers_nil _ H)].
  - rewrite trim_cons, covers_cons. unfold inside at 1. cbn [fst snd].
    destruct (trim_keep sc ec (s, e)) eqn:K.
    + apply trim_keep_iff in K. rewrite covers_cons, IH, trim_clip_eq. unfold inside. cbn [fst snd].
      split; [intros [H | H] | intros ([H | H] & H')]; try tauto; lia.
    + apply not_true_iff_false in K. rewrite trim_keep_iff in K. rewrite IH. split; [tauto |].
      intros ([H | H] & H'); [lia | tauto].
Qed.

(* ================================================================== one gap *)
(* the window of a piece [ps,pe) of the gap [gs,ge): widened by f and clipped to the gap *)
Definition window (frag : option Z) (gs ge ps pe : Z) : option iv :=
  match frag with
  | None => None
  | Some f => Some (Z.max gs (ps - f), Z.min ge (pe + f))
  end.

Lemma mk_obin_eq frag sc ec bs start en gs b :
  mk_obin frag sc ec bs start en gs b = (b, window frag gs start (fst b) (snd b)).
Proof.
  unfold mk_obin, window. destruct frag as [f |].
  - rewrite sh_bb_fs, sh_bb_fe, sh_bb_yield4. destruct b; reflexivity.
  - rewrite sh_bb_yield2. destruct b; reflexivity.
Qed.

Lemma gap_bins_spec frag sc ec bs start en cur : 0 < bs -> cur < start ->
  exists l, gap_bins frag sc ec bs start en cur =
            Ok (Some (map (fun b => (b, window frag cur start (fst b) (snd b))) l)) /\
            chain bs cur start l.
Proof.
  intros Hbs Hlt. unfold gap_bins. rewrite sh_bb_tb_args. cbv beta iota.
  destruct (fill_range_partition cur start bs Hbs ltac:(lia)) as (l0 & -> & Hc0).
  pose proof (chain_length_le _ _ _ _ Hc0) as Hlen1. pose proof (chain_length_ge _ _ _ _ Hc0) as Hlen2.
  cbv zeta. set (tb0 := Z.of_nat (length l0)) in *.
  assert (Htb : 1 <= tb0) by nia.
  destruct (g_bb_tb_neg tb0) eqn:N; [apply sh_bb_tb_neg in N; lia |].
  destruct (g_bb_tb_zero tb0) eqn:E; [apply sh_bb_tb_zero in E; lia |].
  rewrite sh_bb_lbs, sh_bb_gap_start, sh_bb_fill_args by lia. cbv beta iota.
  assert (Hq : 1 <= (start - cur) / tb0 <= bs).
  { split.
    - apply Z.div_le_lower_bound; lia.
    - apply Z.div_le_upper_bound; [lia |]. nia. }
  destruct (fill_range_partition cur start ((start - cur) / tb0) ltac:(lia) ltac:(lia)) as (l & -> & Hc).
  exists l. split.
  - f_equal. f_equal. apply map_ext. intros b. apply mk_obin_eq.
  - eapply chain_mono; [| exact Hc]. lia.
Qed.

(* ================================================================== the loop over the blacklist *)
Definition win_ok (frag : option Z) (G : Z -> Prop) (o : obin) : Prop :=
  match frag, snd o with
  | None, None => True
  | Some f, Some w =>
      (0 <= f -> fst w <= fst (fst o) /\ snd (fst o) <= snd w /\
                 fst (fst o) - fst w <= f /\ snd w - snd (fst o) <= f) /\
      (forall p, inside p w -> G p)
  | _, _ => False
  end.

Lemma win_ok_impl frag (G G' : Z -> Prop) o : (forall p, G p -> G' p) -> win_ok frag G o -> win_ok frag G' o.
Proof.
  unfold win_ok. intros HG. destruct frag, (snd o); auto. intros (H1 & H2). split; auto.
Qed.

Lemma map_fst_pairing {A B} (f : A -> B) l : map fst (map (fun b => (b, f b)) l) = l.
Proof. induction l as [| a l IH]; cbn [map fst]; f_equal; auto. Qed.

Lemma gap_windows frag cur start bs : forall l, chain bs cur start l ->
  Forall (win_ok frag (fun p => cur <= p < start))
         (map (fun b => (b, window frag cur start (fst b) (snd b))) l).
Proof.
  intros l Hc. apply chain_Forall in Hc. apply Forall_forall. intros o Ho.
  apply in_map_iff in Ho. destruct Ho as (b & <- & Hb). rewrite Forall_forall in Hc. specialize (Hc _ Hb).
  unfold win_ok, window. cbn [fst snd]. destruct frag as [f |]; [| exact I]. cbn [fst snd].
  unfold inside. cbn [fst snd]. repeat split; try lia.
Qed.

Lemma bb_loop_spec frag sc ec bs : 0 < bs -> forall ivs cur hi, dchain cur hi ivs ->
  exists out, bb_loop frag sc ec bs cur ivs = Ok out /\
    ordered cur (last_end cur ivs) (map fst out) /\
    Forall (fun b => snd b - fst b <= bs) (map fst out) /\
    (forall p, covers (map fst out) p <-> in_gaps cur ivs p) /\
    Forall (win_ok frag (in_gaps cur ivs)) out.
Proof.
  intros Hbs. induction ivs as [| [s e] rest IH]; intros cur hi Hd.
  - exists []. cbn [bb_loop map ordered last_end in_gaps]. repeat split; auto; try lia.
    apply covers_nil.
  - cbn [dchain] in Hd. destruct Hd as (H1 & H2 & H3).
    destruct (IH e hi H3) as (r & Hr & Ho & Hsz & Hcov & Hwin).
    cbn [bb_loop last_end]. destruct (g_bb_skip sc ec bs s e cur) eqn:E.
    + apply sh_bb_skip in E. rewrite sh_bb_cur_skip. exists r. split; [exact Hr |]. split; [eapply ordered_weaken; eauto; lia |]. split; [exact Hsz |]. split.
      * intros p. rewrite Hcov. cbn [in_gaps]. split; [auto | intros [H | H]; [lia | auto]].
      * eapply Forall_impl; [| exact Hwin]. intros o. apply win_ok_impl. intros p Hp. cbn [in_gaps]. auto.
    + apply not_true_iff_false in E. rewrite sh_bb_skip in E.
      destruct (gap_bins_spec frag sc ec bs s e cur Hbs ltac:(lia)) as (l & -> & Hc). rewrite sh_bb_cur_after, Hr.
      exists (map (fun b => (b, window frag cur s (fst b) (snd b))) l ++ r). split; [reflexivity |].
      rewrite map_app, (map_fst_pairing (fun b => window frag cur s (fst b) (snd b))). split; [| split; [| split]].
      * eapply ordered_app; [eapply chain_ordered; exact Hc | exact Ho | lia].
      * apply Forall_app. split; [| exact Hsz]. eapply Forall_impl; [| apply (chain_Forall _ _ _ _ Hc)].
        cbn beta. intros b. lia.
      * intros p. rewrite covers_app, Hcov, (chain_covers _ _ _ _ Hc). cbn [in_gaps]. tauto.
      * apply Forall_app. split.
        -- eapply Forall_impl; [| apply (gap_windows frag cur s bs l Hc)].
           intros o. apply win_ok_impl. intros p Hp. cbn [in_gaps]. auto.
        -- eapply Forall_impl; [| exact Hwin]. intros o. apply win_ok_impl. intros p Hp. cbn [in_gaps]. auto.
Qed.

(* ================================================================== blacklisted_binning *)
Lemma ordered_tighten : forall l lo hi hi', ordered lo hi l -> lo <= hi' ->
  (forall p, covers l p -> p < hi') -> ordered lo hi' l.
Proof.
  induction l as [| [x y] l IH]; cbn [ordered]; intros lo hi hi' H Hlo Hc.
  - assumption.
  - destruct H as (H1 & H2 & H3). split; [assumption |]. split; [assumption |].
    assert (y - 1 < hi') by (apply Hc; apply covers_cons; left; unfold inside; cbn [fst snd]; lia).
    apply (IH y hi hi'); auto; [lia |]. intros p Hp. apply Hc. apply covers_cons. right. assumption.
Qed.

(* the blacklist after the optional merge: increasing, disjoint, same points *)
Lemma normalised_blacklist bl : Forall wf bl ->
  exists m, (if g_bb_need_merge (Z.of_nat (length bl)) then merge_overlapping_ranges bl else Some bl) = Some m /\
            sdisj (first_start m) m /\ forall p, covers m p <-> covers bl p.
Proof.
  intros Hw. destruct (g_bb_need_merge (Z.of_nat (length bl))) eqn:E.
  - apply merge_spec; assumption.
  - apply not_true_iff_false in E. rewrite sh_bb_need_merge in E. exists bl. split; [reflexivity |]. split; [| tauto].
    destruct bl as [| [s e] [| b t]]; cbn [length] in E; [exact I | | lia].
    inversion Hw as [| ? ? Hse _]; subst. unfold wf in Hse. cbn [first_start sdisj fst snd] in *. lia.
Qed.

Lemma bb_spec sc ec bs bl frag : 0 < bs -> sc <= ec -> Forall wf bl ->
  exists out, blacklisted_binning sc ec bs bl frag = Ok out /\
    ordered sc ec (map fst out) /\
    Forall (fun b => snd b - fst b <= bs) (map fst out) /\
    (forall p, covers (map fst out) p <-> sc <= p < ec /\ ~ covers bl p) /\
    Forall (win_ok frag (fun p => sc <= p < ec /\ ~ covers bl p)) out.
Proof.
  intros Hbs Hse Hw. unfold blacklisted_binning.
  destruct (normalised_blacklist bl Hw) as (m & -> & Hsd & Hpts).
  rewrite sh_bb_trim_args, sh_bb_cur0, sh_bb_sentinel. cbv beta iota.
  set (T := trim_rangelist m sc ec).
  assert (HdT : dchain sc ec T) by (apply (trim_dchain sc ec Hse m (first_start m) sc); auto; lia).
  assert (Hd : dchain sc (ec + 1) (T ++ [(ec, ec + 1)])) by (eapply dchain_snoc; eauto; lia).
  destruct (bb_loop_spec frag sc ec bs Hbs _ _ _ Hd) as (out & Hout & Ho & Hsz & Hcov & Hwin).
  rewrite last_end_snoc in Ho.
  assert (HG : forall p, in_gaps sc (T ++ [(ec, ec + 1)]) p <-> sc <= p < ec /\ ~ covers bl p).
  { intros p. rewrite (in_gaps_iff _ _ _ p Hd), last_end_snoc, covers_app, covers_cons.
    unfold T at 1. rewrite trim_covers, Hpts. unfold inside. cbn [fst snd].
    pose proof (covers_nil p). split.
    - intros (Hr & Hn). split; [split; [lia |] |].
      + destruct (Z_lt_ge_dec p ec); [assumption |]. exfalso. apply Hn. right. left. lia.
      + intros Hc. apply Hn. left. split; [assumption |].
        destruct (Z_lt_ge_dec p ec); [lia |]. exfalso. apply Hn. right. left. lia.
    - intros (Hr & Hn). split; [lia |]. intros [(Hc & _) | [Hc | Hc]]; [auto | lia | auto]. }
  exists out. split; [exact Hout |]. split; [| split; [exact Hsz | split]].
  - eapply ordered_tighten; [exact Ho | exact Hse |]. intros p Hp. apply Hcov, HG in Hp. lia.
  - intros p. rewrite Hcov. apply HG.
  - eapply Forall_impl; [| exact Hwin]. intros o. apply win_ok_impl. intros p. apply HG.
Qed.

Lemma win_ok_window_ok sc ec f bl o : 0 <= f -> fst (fst o) < snd (fst o) ->
  win_ok (Some f) (fun p => sc <= p < ec /\ ~ covers bl p) o -> window_ok sc ec f bl o.
Proof.
  intros Hf Hne. unfold win_ok, window_ok. destruct o as [b [w |]]; cbn [fst snd] in *; [| intros []].
  intros (H3 & H4). exists w. split; [reflexivity |]. destruct (H3 Hf) as (H1 & H2 & H5 & H6).
  assert (Ha : sc <= fst w < ec /\ ~ covers bl (fst w)) by (apply H4; unfold inside; lia).
  assert (Hb : sc <= snd w - 1 < ec /\ ~ covers bl (snd w - 1)) by (apply H4; unfold inside; lia).
  repeat split; try lia. intros p Hp. apply H4. assumption.
Qed.

(* C17 main theorem: partition and windows *)
Theorem bb_correct sc ec bs bl frag : 0 < bs -> sc <= ec -> Forall wf bl ->
  match frag with Some f => 0 <= f | None => True end ->
  exists out, blacklisted_binning sc ec bs bl frag = Ok out /\ spec sc ec bs bl frag out.
Proof.
  intros Hbs Hse Hw Hf. destruct (bb_spec sc ec bs bl frag Hbs Hse Hw) as (out & Hout & Ho & Hsz & Hcov & Hwin).
  exists out. split; [exact Hout |]. unfold spec. split; [exact Ho |]. split; [exact Hsz |]. split.
  - intros p Hp. rewrite Hcov. tauto.
  - destruct frag as [f |].
    + rewrite Forall_forall in *. intros o Ho'. apply win_ok_window_ok; auto.
      assert (Hin : In (fst o) (map fst out)) by (apply in_map; assumption).
      pose proof (ordered_In _ _ _ _ Ho Hin) as (_ & Hlt & _). exact Hlt.
    + eapply Forall_impl; [| exact Hwin]. intros o. unfold win_ok. destruct (snd o); tauto.
Qed.

(* consequences stated on their own *)
Lemma spec_exactly_once sc ec bs bl frag out : spec sc ec bs bl frag out ->
  forall b1 b2 p, In b1 (map fst out) -> In b2 (map fst out) -> inside p b1 -> inside p b2 -> b1 = b2.
Proof. intros (Ho & _) b1 b2 p. eapply ordered_unique; eauto. Qed.

Lemma spec_inside_region sc ec bs bl frag out : spec sc ec bs bl frag out ->
  forall b, In b (map fst out) -> sc <= fst b /\ fst b < snd b /\ snd b <= ec /\ snd b - fst b <= bs.
Proof.
  intros (Ho & Hsz & _) b Hb. pose proof (ordered_In _ _ _ _ Ho Hb). rewrite Forall_forall in Hsz.
  specialize (Hsz _ Hb). cbn beta in Hsz. lia.
Qed.

Lemma spec_no_blacklisted_base sc ec bs bl frag out : spec sc ec bs bl frag out ->
  forall b p, In b (map fst out) -> inside p b -> ~ covers bl p.
Proof.
  intros (Ho & _ & Hcov & _) b p Hb Hp.
  assert (Hc : covers (map fst out) p) by (exists b; auto).
  pose proof (ordered_covers_bounds _ _ _ _ Ho Hc). apply (Hcov p); auto.
Qed.

(* total length: bins + blacklisted bases of the region = region (counting form of "exactly once") *)
Lemma spec_total_len sc ec bs bl frag out : spec sc ec bs bl frag out -> total_len (map fst out) <= ec - sc.
Proof. intros (Ho & _). apply ordered_total_len. assumption. Qed.

(* ================================================================== executable spec is the spec *)
Lemma orderedb_iff : forall l lo hi, orderedb lo hi l = true <-> ordered lo hi l.
Proof.
  induction l as [| [x y] l IH]; cbn [orderedb ordered]; intros lo hi.
  - lia.
  - rewrite !andb_true_iff, IH, Z.leb_le, Z.ltb_lt. tauto.
Qed.

Lemma forallb_range (f : Z -> bool) lo n :
  forallb f (map (fun i => lo + Z.of_nat i) (seq 0 n)) = true <-> forall p, lo <= p < lo + Z.of_nat n -> f p = true.
Proof.
  rewrite forallb_forall. split.
  - intros H p Hp. apply H. apply in_map_iff. exists (Z.to_nat (p - lo)). split; [lia |]. apply in_seq. lia.
  - intros H x Hx. apply in_map_iff in Hx. destruct Hx as (i & <- & Hi). apply in_seq in Hi. apply H. lia.
Qed.

Lemma window_okb_iff sc ec f bl o : window_okb sc ec f bl o = true <-> window_ok sc ec f bl o.
Proof.
  unfold window_okb, window_ok. destruct o as [b [w |]]; cbn [fst snd].
  - rewrite !andb_true_iff, forallb_range. split.
    + intros ((((((H1 & H2) & H3) & H4) & H5) & H6) & H7). exists w. split; [reflexivity |].
      repeat split; try lia. intros p Hp. apply coversb_false_iff. unfold inside in Hp.
      specialize (H7 p ltac:(lia)). destruct (coversb bl p); [discriminate | reflexivity].
    + intros (w' & Heq & H1 & H2 & H3 & H4 & H5 & H6 & H7). inversion Heq; subst w'.
      repeat split; try lia. intros p Hp. specialize (H7 p ltac:(unfold inside; lia)).
      apply coversb_false_iff in H7. rewrite H7. reflexivity.
  - split; [discriminate |]. intros (w & Heq & _). discriminate.
Qed.

Theorem specb_iff sc ec bs bl frag out : specb sc ec bs bl frag out = true <-> spec sc ec bs bl frag out.
Proof.
  unfold specb, spec. rewrite !andb_true_iff, orderedb_iff, forallb_range.
  assert (H1 : forallb (fun b => snd b - fst b <=? bs) (map fst out) = true <->
               Forall (fun b => snd b - fst b <= bs) (map fst out)).
  { rewrite forallb_forall, Forall_forall. split; intros H x Hx; specialize (H x Hx); lia. }
  assert (H2 : (forall p, sc <= p < sc + Z.of_nat (Z.to_nat (ec - sc)) ->
                  Bool.eqb (coversb (map fst out) p) (negb (coversb bl p)) = true) <->
               (forall p, sc <= p < ec -> (covers (map fst out) p <-> ~ covers bl p))).
  { split; intros H p Hp.
    - specialize (H p ltac:(lia)). apply eqb_prop in H. rewrite <- coversb_iff, <- coversb_false_iff, H.
      destruct (coversb bl p); cbn [negb]; split; congruence.
    - specialize (H p ltac:(lia)). rewrite <- coversb_iff, <- coversb_false_iff in H.
      destruct (coversb (map fst out) p), (coversb bl p); cbn [negb Bool.eqb]; auto; destruct H as (Ha & Hb); auto;
        try (specialize (Ha eq_refl); discriminate); try (specialize (Hb eq_refl); discriminate). }
  assert (H3 : (match frag with
                | None => forallb (fun o => match snd o with None => true | Some _ => false end) out
                | Some f => forallb (window_okb sc ec f bl) out end) = true <->
               match frag with
               | None => Forall (fun o => snd o = None) out
               | Some f => Forall (window_ok sc ec f bl) out end).
  { destruct frag as [f |]; rewrite forallb_forall, Forall_forall; split; intros H x Hx; specialize (H x Hx).
    - apply window_okb_iff; assumption.
    - apply window_okb_iff; assumption.
    - destruct (snd x); [discriminate | reflexivity].
    - rewrite H. reflexivity. }
  rewrite H1, H2, H3. tauto.
Qed.

Lemma pre_iff sc ec bs bl frag : pre sc ec bs bl frag = true <->
  0 < bs /\ sc <= ec /\ Forall wf bl /\ match frag with Some f => 0 <= f | None => True end.
Proof.
  unfold pre. rewrite !andb_true_iff, forallb_forall, Forall_forall.
  assert (H : (forall x, In x bl -> wfb x = true) <-> (forall x, In x bl -> wf x)).
  { split; intros H x Hx; specialize (H x Hx); unfold wf, wfb in *; lia. }
  rewrite H. destruct frag; split; intros; repeat split; try tauto; try lia.
Qed.

(* ================================================================== statement-level packaging *)
Lemma fill_range_full s e step : 0 < step -> s <= e ->
  exists l, fill_range s e step = Ok l /\ chain step s e l /\ forall p, covers l p <-> s <= p < e.
Proof.
  intros Hs Hle. destruct (fill_range_partition s e step Hs Hle) as (l & H1 & H2).
  exists l. split; [exact H1 |]. split; [exact H2 |]. apply (chain_covers step l s e H2).
Qed.

Lemma trim_spec l lo sc ec : sdisj lo l -> sc <= ec ->
  dchain sc ec (trim_rangelist l sc ec) /\
  forall p, covers (trim_rangelist l sc ec) p <-> covers l p /\ sc <= p < ec.
Proof.
  intros Hd Hse. split; [| intros p; apply trim_covers].
  apply (trim_dchain sc ec Hse l lo sc Hd); lia.
Qed.

(* ================================================================== bp_chunked *)
Section ChunkFacts.
  Context {A : Type}.
  Variable span : A -> iv.

  Lemma bp_loop_concat k : forall jobs bp cur, concat (bp_loop span k bp cur jobs) = cur ++ jobs.
  Proof.
    induction jobs as [| j rest IH]; intros bp cur; cbn [bp_loop].
    - cbn [concat]. rewrite !app_nil_r. reflexivity.
    - cbv zeta. destruct (g_bp_full (bp + g_bp_inc (fst (span j)) (snd (span j))) k).
      + cbn [concat]. rewrite IH. cbn [app]. rewrite <- app_assoc. reflexivity.
      + rewrite IH. rewrite <- app_assoc. reflexivity.
  Qed.

  (* grouping never loses, duplicates or reorders a job *)
  Theorem bp_chunked_concat jobs k : concat (bp_chunked span jobs k) = jobs.
  Proof. unfold bp_chunked. rewrite bp_loop_concat. reflexivity. Qed.

  Definition bp_job (j : A) : Z := Z.abs (snd (span j) - fst (span j)).
  Definition bp_sum (l : list A) : Z := fold_right (fun j acc => bp_job j + acc) 0 l.

  Lemma bp_sum_cons a l : bp_sum (a :: l) = bp_job a + bp_sum l.
  Proof. reflexivity. Qed.

  Lemma bp_sum_app l1 l2 : bp_sum (l1 ++ l2) = bp_sum l1 + bp_sum l2.
  Proof.
    induction l1 as [| a l1 IH]; cbn [app]; [reflexivity |]. rewrite !bp_sum_cons, IH. lia.
  Qed.

  Lemma bp_loop_nonempty k : forall jobs bp cur, bp_loop span k bp cur jobs <> [].
  Proof.
    induction jobs as [| j rest IH]; intros bp cur; cbn [bp_loop]; [discriminate |].
    cbv zeta. destruct (g_bp_full (bp + g_bp_inc (fst (span j)) (snd (span j))) k); [discriminate | apply IH].
  Qed.

  Lemma removelast_cons2 {B} (x : B) l : l <> [] -> removelast (x :: l) = x :: removelast l.
  Proof. destruct l; [congruence | reflexivity]. Qed.

  Lemma last_cons2 {B} (x : B) l d : l <> [] -> last (x :: l) d = last l d.
  Proof. destruct l; [congruence | reflexivity]. Qed.

  (* a closed chunk reaches bp_per_job, and does so only with its last job *)
  Definition closed_chunk (k : Z) (c : list A) : Prop :=
    k <= bp_sum c /\ bp_sum (removelast c) < k /\ c <> [].

  Lemma bp_loop_chunks k : forall jobs cur, bp_sum [] < k -> bp_sum cur < k ->
    Forall (closed_chunk k) (removelast (bp_loop span k (bp_sum cur) cur jobs))
    /\ bp_sum (last (bp_loop span k (bp_sum cur) cur jobs) []) < k.
  Proof.
    induction jobs as [| j rest IH]; intros cur Hk Hlt; cbn [bp_loop].
    - cbn [removelast last]. split; [constructor | assumption].
    - cbv zeta. rewrite sh_bp_inc, sh_bp_reset.
      assert (Hs : bp_sum cur + Z.abs (snd (span j) - fst (span j)) = bp_sum (cur ++ [j])).
      { rewrite bp_sum_app, bp_sum_cons. unfold bp_job. cbv [bp_sum fold_right]. lia. }
      destruct (g_bp_full (bp_sum cur + Z.abs (snd (span j) - fst (span j))) k) eqn:E.
      + apply sh_bp_full in E. pose proof (bp_loop_nonempty k rest 0 []) as Hne.
        rewrite (removelast_cons2 _ _ Hne), (last_cons2 _ _ _ Hne).
        destruct (IH [] Hk Hk) as (H1 & H2). change (bp_sum []) with 0 in H1, H2.
        split; [| exact H2]. constructor; [| exact H1].
        unfold closed_chunk. rewrite removelast_last. split; [lia |]. split; [assumption |].
        intros Heq. apply app_eq_nil in Heq. destruct Heq as (_ & Heq). discriminate.
      + apply not_true_iff_false in E. rewrite sh_bp_full in E. rewrite Hs. apply IH; [assumption | lia].
  Qed.

  Theorem bp_chunked_chunks jobs k : 0 < k ->
    Forall (closed_chunk k) (removelast (bp_chunked span jobs k))
    /\ bp_sum (last (bp_chunked span jobs k) []) < k.
  Proof. intros Hk. unfold bp_chunked. rewrite sh_bp_init. apply (bp_loop_chunks k jobs []); cbv [bp_sum fold_right]; lia. Qed.
End ChunkFacts.
