(* C17 extension proofs, character level: reading back a printed BED file gives the records (print / parse
   round trip of Model.C17bed), also with extra columns after the third one. *)
From Coq Require Import ZArith List Bool Lia ZifyBool Arith.
Import ListNotations.
From SCMO Require Import Lib.Tiling Model.C17 Model.C17bed.
Open Scope Z_scope.
Ltac Zify.zify_post_hook ::= Z.to_euclidean_division_equations.

Definition nospace (c : Z) : Prop := is_space c = false.
Definition noeol (c : Z) : Prop := c <> 10 /\ c <> 13.

Lemma nospace_noeol c : nospace c -> noeol c.
Proof. unfold nospace, noeol, is_space. lia. Qed.

Lemma digit_nospace c : is_digit c = true -> nospace c.
Proof. unfold nospace, is_digit, is_space. lia. Qed.

(* ================================================================== decimal digits *)
Definition dstep (a c : Z) : Z := a * 10 + (c - 48).

Lemma dec_digits : forall fuel n, 0 <= n -> Forall (fun c => is_digit c = true) (dec fuel n).
Proof.
  induction fuel as [| f IH]; intros n Hn; cbn [dec]; [constructor |].
  destruct (n <? 10) eqn:E.
  - constructor; [unfold is_digit; lia | constructor].
  - apply Forall_app. split; [apply IH; lia |]. constructor; [unfold is_digit; lia | constructor].
Qed.

Lemma dec_nonempty f n : dec (S f) n <> [].
Proof.
  cbn [dec]. destruct (n <? 10); [discriminate |]. intros H. apply app_eq_nil in H. destruct H as (_ & H). discriminate.
Qed.

Lemma pow10_succ (k : nat) : 10 ^ Z.of_nat (S k) = 10 * 10 ^ Z.of_nat k.
Proof. rewrite Nat2Z.inj_succ, Z.pow_succ_r by lia. reflexivity. Qed.

Lemma dec_val : forall fuel n, 0 <= n < 10 ^ Z.of_nat fuel -> fold_left dstep (dec fuel n) 0 = n.
Proof.
  induction fuel as [| f IH]; intros n Hn.
  - change (10 ^ Z.of_nat 0) with 1 in Hn. cbn [dec fold_left]. lia.
  - cbn [dec]. destruct (n <? 10) eqn:E.
    + cbn [fold_left]. unfold dstep. lia.
    + rewrite fold_left_app. cbn [fold_left]. rewrite IH.
      * unfold dstep. lia.
      * rewrite pow10_succ in Hn. lia.
Qed.

Lemma dec_length : forall fuel n k, 0 <= n < 10 ^ k -> 1 <= k -> Z.of_nat (length (dec fuel n)) <= k.
Proof.
  induction fuel as [| f IH]; intros n k Hn Hk; cbn [dec]; [cbn; lia |].
  destruct (n <? 10) eqn:E; [cbn; lia |].
  rewrite app_length, Nat2Z.inj_add. cbn [length].
  assert (Hk2 : 2 <= k).
  { destruct (Z_lt_ge_dec k 2) as [H | H]; [| lia]. assert (k = 1) by lia. subst k. cbn in Hn. lia. }
  assert (Hp : 10 ^ k = 10 * 10 ^ (k - 1)) by (rewrite <- Z.pow_succ_r by lia; f_equal; lia).
  specialize (IH (n / 10) (k - 1)). rewrite Hp in Hn. lia.
Qed.

Lemma print_nat_bound n : 0 <= n -> n < 10 ^ Z.of_nat (S (Z.to_nat (Z.log2 n))).
Proof.
  intros Hn. pose proof (Z.log2_nonneg n) as Hl. rewrite Nat2Z.inj_succ, Z2Nat.id by assumption.
  destruct (Z.eq_dec n 0) as [-> | Hz]; [cbn; lia |].
  pose proof (Z.log2_spec n ltac:(lia)) as (_ & H2).
  assert (2 ^ Z.succ (Z.log2 n) <= 10 ^ Z.succ (Z.log2 n)) by (apply Z.pow_le_mono_l; lia). lia.
Qed.

(* ================================================================== int() *)
Lemma parse_digits_all : forall l prev acc cnt, Forall (fun c => is_digit c = true) l -> l <> [] \/ prev = true ->
  parse_digits prev acc cnt l = Some (fold_left dstep l acc, cnt + Z.of_nat (length l)).
Proof.
  induction l as [| c t IH]; intros prev acc cnt Hd Hne.
  - destruct Hne as [H | ->]; [congruence |]. cbn. f_equal. f_equal. lia.
  - inversion Hd as [| ? ? Hc Ht]; subst. cbn [parse_digits]. rewrite Hc. rewrite (IH true) by auto.
    cbn [fold_left length]. unfold dstep at 2. f_equal. f_equal. lia.
Qed.

(* the numbers int() reads back: fewer than MAX_STR_DIGITS + 1 = 4301 digits.  [digits_limit] stays folded in the
   proofs (lia treats it as an atom; nothing ever computes 10 ^ 4300) *)
Definition digits_limit : Z := 10 ^ MAX_STR_DIGITS.

Lemma parse_nat_print n : 0 <= n < digits_limit -> parse_nat (print_nat n) = Ok n.
Proof.
  intros (H0 & H1). unfold parse_nat, print_nat.
  rewrite parse_digits_all; [| apply dec_digits; exact H0 | left; apply dec_nonempty].
  rewrite dec_val by (split; [exact H0 | apply print_nat_bound; exact H0]).
  assert (Hk : 1 <= MAX_STR_DIGITS) by (unfold MAX_STR_DIGITS; lia).
  pose proof (dec_length (S (Z.to_nat (Z.log2 n))) n MAX_STR_DIGITS (conj H0 H1) Hk) as Hl. clear H1.
  destruct (0 + Z.of_nat (length (dec (S (Z.to_nat (Z.log2 n))) n)) <=? MAX_STR_DIGITS) eqn:E; [reflexivity | lia].
Qed.

Lemma print_nat_digits n : 0 <= n -> Forall (fun c => is_digit c = true) (print_nat n).
Proof. intros Hn. apply dec_digits. exact Hn. Qed.

Lemma print_nat_nonempty n : print_nat n <> [].
Proof. apply dec_nonempty. Qed.

Theorem parse_int_print z : Z.abs z < digits_limit -> parse_int (print_int z) = Ok z.
Proof.
  intros Hz. unfold print_int. destruct (z <? 0) eqn:E.
  - cbn [parse_int]. change (45 =? 43) with false. change (45 =? 45) with true. cbv iota.
    rewrite parse_nat_print by lia. f_equal. lia.
  - pose proof (print_nat_digits z ltac:(lia)) as Hd. pose proof (print_nat_nonempty z) as Hne.
    rewrite <- (parse_nat_print z) by lia. destruct (print_nat z) as [| c t]; [congruence |].
    inversion Hd as [| ? ? Hc _]; subst. cbn [parse_int]. unfold is_digit in Hc.
    destruct (c =? 43) eqn:E1; [lia |]. destruct (c =? 45) eqn:E2; [lia |]. reflexivity.
Qed.

Lemma print_int_nospace z : Forall nospace (print_int z).
Proof.
  unfold print_int. destruct (z <? 0) eqn:E.
  - constructor; [reflexivity |]. eapply Forall_impl; [| apply print_nat_digits; lia]. intros c. apply digit_nospace.
  - eapply Forall_impl; [| apply print_nat_digits; lia]. intros c. apply digit_nospace.
Qed.

Lemma print_int_nonempty z : print_int z <> [].
Proof. unfold print_int. destruct (z <? 0); [discriminate | apply print_nat_nonempty]. Qed.

(* ================================================================== tokens *)
Lemma tokens_word : forall w cur l, Forall nospace w -> tokens cur (w ++ l) = tokens (rev w ++ cur) l.
Proof.
  induction w as [| c w IH]; intros cur l Hw; [reflexivity |].
  inversion Hw as [| ? ? Hc Hw']; subst. cbn [app tokens]. unfold nospace in Hc. rewrite Hc, IH by assumption.
  cbn [rev]. rewrite <- app_assoc. reflexivity.
Qed.

Lemma flush_tok_word w : w <> [] -> flush_tok (rev w ++ []) = [w].
Proof.
  intros Hw. rewrite app_nil_r. unfold flush_tok. destruct (rev w) eqn:E.
  - exfalso. apply Hw. rewrite <- (rev_involutive w), E. reflexivity.
  - rewrite <- E, rev_involutive. reflexivity.
Qed.

(* a word followed by a whitespace character *)
Lemma tokens_word_sep w c l : Forall nospace w -> w <> [] -> is_space c = true ->
  tokens [] (w ++ c :: l) = w :: tokens [] l.
Proof.
  intros Hw Hne Hc. rewrite tokens_word by assumption. cbn [tokens]. rewrite Hc, flush_tok_word by assumption. reflexivity.
Qed.

Lemma tokens_word_end w : Forall nospace w -> w <> [] -> tokens [] w = [w].
Proof.
  intros Hw Hne. rewrite <- (app_nil_r w) at 1. rewrite tokens_word by assumption. cbn [tokens]. apply flush_tok_word. exact Hne.
Qed.

(* extra text after the third column: nothing, or something that starts with a whitespace character *)
Definition extra_ok (x : list Z) : Prop :=
  (x = [] \/ exists c t, x = c :: t /\ is_space c = true) /\ Forall noeol x.

(* the three columns of a record *)
Definition print_cols (r : bedrec) : list Z :=
  fst r ++ [9] ++ print_int (fst (snd r)) ++ [9] ++ print_int (snd (snd r)).

(* a printable record: the name is a non-empty string without whitespace, the coordinates have at most 4300 digits *)
Definition rec_ok (r : bedrec) : Prop :=
  fst r <> [] /\ Forall nospace (fst r) /\ Z.abs (fst (snd r)) < digits_limit /\ Z.abs (snd (snd r)) < digits_limit.

Lemma tokens_cols r x : rec_ok r -> extra_ok x ->
  exists rest, tokens [] (print_cols r ++ x) = fst r :: print_int (fst (snd r)) :: print_int (snd (snd r)) :: rest.
Proof.
  intros (Hne & Hns & _ & _) (Hx & _). unfold print_cols. rewrite <- !app_assoc. cbn [app].
  rewrite tokens_word_sep by (auto; reflexivity).
  rewrite tokens_word_sep by (auto using print_int_nospace, print_int_nonempty; reflexivity).
  destruct Hx as [-> | (c & t & -> & Hc)].
  - rewrite app_nil_r, tokens_word_end by auto using print_int_nospace, print_int_nonempty. exists []. reflexivity.
  - rewrite tokens_word_sep by auto using print_int_nospace, print_int_nonempty. eexists. reflexivity.
Qed.

Lemma parse_line_cols r x : rec_ok r -> extra_ok x -> parse_line (print_cols r ++ x) = Ok r.
Proof.
  intros Hr Hx. destruct (tokens_cols r x Hr Hx) as (rest & E). unfold parse_line. rewrite E.
  destruct Hr as (_ & _ & Hs & He). rewrite !parse_int_print by assumption. destruct r as [c [s e]]. reflexivity.
Qed.

(* ================================================================== lines *)
Lemma split_lines_line : forall l cur t, Forall noeol l -> split_lines cur (l ++ 10 :: t) = (rev cur ++ l) :: split_lines [] t.
Proof.
  induction l as [| c l IH]; intros cur t Hl.
  - cbn [app split_lines]. change (10 =? 10) with true. cbv iota. rewrite app_nil_r. reflexivity.
  - inversion Hl as [| ? ? (H1 & H2) Hl']; subst. cbn [app split_lines].
    destruct (c =? 10) eqn:E1; [lia |]. destruct (c =? 13) eqn:E2; [lia |].
    rewrite IH by assumption. cbn [rev]. rewrite <- app_assoc. reflexivity.
Qed.

(* the same with '\r\n' as the line terminator *)
Lemma split_lines_line_crlf : forall l cur t, Forall noeol l ->
  split_lines cur (l ++ 13 :: 10 :: t) = (rev cur ++ l) :: split_lines [] t.
Proof.
  induction l as [| c l IH]; intros cur t Hl.
  - cbn [app split_lines]. change (13 =? 10) with false. change (13 =? 13) with true. change (10 =? 10) with true.
    cbv iota. rewrite app_nil_r. reflexivity.
  - inversion Hl as [| ? ? (H1 & H2) Hl']; subst. cbn [app split_lines].
    destruct (c =? 10) eqn:E1; [lia |]. destruct (c =? 13) eqn:E2; [lia |].
    rewrite IH by assumption. cbn [rev]. rewrite <- app_assoc. reflexivity.
Qed.

Lemma print_cols_noeol r : rec_ok r -> Forall noeol (print_cols r).
Proof.
  intros (_ & Hns & _ & _). unfold print_cols.
  assert (H9 : noeol 9) by (unfold noeol; lia).
  repeat (apply Forall_app; split); try (constructor; [exact H9 | constructor]).
  - eapply Forall_impl; [| exact Hns]. apply nospace_noeol.
  - eapply Forall_impl; [| apply print_int_nospace]. apply nospace_noeol.
  - eapply Forall_impl; [| apply print_int_nospace]. apply nospace_noeol.
Qed.

(* a BED text: per record the three columns, optional extra columns, and '\n' or '\r\n' *)
Definition print_line_ext (p : bedrec * (list Z * bool)) : list Z :=
  print_cols (fst p) ++ fst (snd p) ++ (if snd (snd p) then [13; 10] else [10]).

Definition print_bed_ext (l : list (bedrec * (list Z * bool))) : list Z := concat (map print_line_ext l).

Theorem parse_print_bed_ext : forall l, Forall (fun p => rec_ok (fst p) /\ extra_ok (fst (snd p))) l ->
  parse_bed (print_bed_ext l) = Ok (map fst l).
Proof.
  unfold parse_bed. induction l as [| [r [x crlf]] l IH]; intros Hall; [reflexivity |].
  inversion Hall as [| ? ? (Hr & Hx) Hall']; subst. cbn [fst snd] in Hr, Hx.
  unfold print_bed_ext. cbn [map concat]. unfold print_line_ext at 1. cbn [fst snd].
  assert (Hne : Forall noeol (print_cols r ++ x)) by (apply Forall_app; split; [apply print_cols_noeol; exact Hr | apply Hx]).
  replace ((print_cols r ++ x ++ (if crlf then [13; 10] else [10])) ++ concat (map print_line_ext l))
    with ((print_cols r ++ x) ++ (if crlf then 13 :: 10 :: print_bed_ext l else 10 :: print_bed_ext l))
    by (unfold print_bed_ext; destruct crlf; rewrite <- !app_assoc; reflexivity).
  assert (E : split_lines [] ((print_cols r ++ x) ++ (if crlf then 13 :: 10 :: print_bed_ext l else 10 :: print_bed_ext l))
              = (print_cols r ++ x) :: split_lines [] (print_bed_ext l)).
  { destruct crlf; [apply (split_lines_line_crlf _ [] _ Hne) | apply (split_lines_line _ [] _ Hne)]. }
  rewrite E. cbn [parse_lines]. rewrite parse_line_cols by assumption. rewrite (IH Hall'). reflexivity.
Qed.

Lemma extra_ok_nil : extra_ok [].
Proof. split; [left; reflexivity | constructor]. Qed.

Lemma print_bed_as_ext recs : print_bed recs = print_bed_ext (map (fun r => (r, ([], false))) recs).
Proof.
  unfold print_bed, print_bed_ext. rewrite map_map. f_equal. apply map_ext. intros r.
  unfold print_rec, print_line_ext, print_cols. cbn [fst snd]. rewrite <- !app_assoc. reflexivity.
Qed.

(* ROUND TRIP: reading the text printed from a list of records gives exactly those records *)
Theorem parse_print_bed recs : Forall rec_ok recs -> parse_bed (print_bed recs) = Ok recs.
Proof.
  intros H. rewrite print_bed_as_ext, parse_print_bed_ext.
  - rewrite map_map. cbn [fst]. rewrite map_id. reflexivity.
  - apply Forall_forall. intros p Hp. apply in_map_iff in Hp. destruct Hp as (r & <- & Hr). cbn [fst snd].
    split; [| apply extra_ok_nil]. rewrite Forall_forall in H. apply H. exact Hr.
Qed.

(* non-vacuity of rec_ok *)
Lemma rec_ok_example : rec_ok ([99; 104; 114; 49], (12, -305)).
Proof.
  assert (H : 10 ^ 4 <= digits_limit) by (unfold digits_limit, MAX_STR_DIGITS; apply Z.pow_le_mono_r; lia).
  change (10 ^ 4) with 10000 in H.
  unfold rec_ok. cbn [fst snd]. split; [discriminate |]. split; [repeat constructor |]. split; lia.
Qed.

(* what the limit is *)
Lemma digits_limit_eq : digits_limit = 10 ^ 4300.
Proof. reflexivity. Qed.
