(* C08 extension: the GENERATED tiling (blacklisted_binning_contigs without blacklist, as called by
   run_multiome_tagging) satisfies the tiling hypothesis of the equivalence theorem; corollaries:
   equivalence without the tiling hypothesis, independence of the bin size, count conservation,
   no record written twice. *)
From Coq Require Import ZArith List Bool Lia ZifyBool Permutation.
Import ListNotations.
From SCMO Require Import Lib.Val Lib.Tiling Lib.TilingFacts Gen.GenTiling Model.C17 Proofs.C17_shape Proofs.C17.
From SCMO Require Import Gen.GenOwner Model.C08 Model.C08x Proofs.C08_a Proofs.C08_b Proofs.C08 Proofs.C08_ex.
Open Scope Z_scope.

(* the task of bin b on contig c of length len with fragment size f: window = bin widened by f, clipped to [0,len] *)
Definition mkt (c len f : Z) (b : iv) : task :=
  {| t_contig := c; t_region := true; t_start := fst b; t_end := snd b;
     t_fs := Z.max 0 (fst b - f); t_fe := Z.min len (snd b + f) |}.

Lemma bb_empty_blacklist len bs f : 0 < bs -> 0 <= len ->
  exists l, C17.blacklisted_binning 0 len bs [] (Some f)
            = Ok (map (fun b => (b, window (Some f) 0 len (fst b) (snd b))) l) /\ Tiling.chain bs 0 len l.
Proof.
  intros Hbs Hlen. unfold C17.blacklisted_binning.
  destruct (g_bb_need_merge (Z.of_nat (length (@nil iv)))) eqn:E.
  { apply sh_bb_need_merge in E. cbn in E. lia. }
  rewrite sh_bb_trim_args, sh_bb_cur0, sh_bb_sentinel. cbv beta iota.
  unfold trim_rangelist. cbn [filter map app bb_loop].
  destruct (g_bb_skip 0 len bs len (len + 1) 0) eqn:S.
  - apply sh_bb_skip in S. exists []. cbn [map Tiling.chain]. split; [reflexivity | lia].
  - apply not_true_iff_false in S. rewrite sh_bb_skip in S.
    destruct (gap_bins_spec (Some f) 0 len bs len (len + 1) 0 Hbs ltac:(lia)) as (l & -> & Hc).
    exists l. rewrite app_nil_r. split; [reflexivity | exact Hc].
Qed.

Lemma gen_tasks_eq c len bs f : 0 < bs -> 0 <= len ->
  exists l, Tiling.chain bs 0 len l /\ gen_tasks c len bs f = map (mkt c len f) l.
Proof.
  intros Hbs Hlen. destruct (bb_empty_blacklist len bs f Hbs Hlen) as (l & E & Hc).
  exists l. split; [exact Hc |]. unfold gen_tasks. rewrite E, map_map. apply map_ext.
  intros b. reflexivity.
Qed.

Lemma chain_mkt c len f bs : forall l a, Tiling.chain bs a len l -> C08.chain c a len (map (mkt c len f) l) = true.
Proof.
  induction l as [| [x y] l IH]; intros a H; cbn [Tiling.chain map C08.chain] in *.
  - lia.
  - destruct H as (H1 & H2 & H3 & H4 & H5). cbn [mkt t_region t_contig t_start t_end fst snd].
    rewrite (IH y H5). lia.
Qed.

Lemma margin_mkt L c len f b : L <= f -> margin_ok L len (mkt c len f b) = true.
Proof. intros H. unfold margin_ok, mkt. cbn [t_fs t_fe t_start t_end]. lia. Qed.

Lemma gen_tasks_tiling L c len bs f : 0 < bs -> 0 <= len -> L <= f ->
  C08.chain c 0 len (gen_tasks c len bs f) = true /\ forallb (margin_ok L len) (gen_tasks c len bs f) = true.
Proof.
  intros Hbs Hlen HL. destruct (gen_tasks_eq c len bs f Hbs Hlen) as (l & Hc & ->). split.
  - apply chain_mkt with (bs := bs). exact Hc.
  - apply forallb_forall. intros t Ht. apply in_map_iff in Ht. destruct Ht as (b & <- & _).
    apply margin_mkt. exact HL.
Qed.

(* the shape of every generated task *)
Lemma gen_tasks_shape c len bs f t : 0 < bs -> 0 <= len -> In t (gen_tasks c len bs f) ->
  t_contig t = c /\ t_region t = true /\ 0 <= t_start t /\ t_start t < t_end t /\ t_end t <= len /\
  t_end t - t_start t <= bs /\
  t_fs t = Z.max 0 (t_start t - f) /\ t_fe t = Z.min len (t_end t + f).
Proof.
  intros Hbs Hlen Ht. destruct (gen_tasks_eq c len bs f Hbs Hlen) as (l & Hc & E). rewrite E in Ht.
  apply in_map_iff in Ht. destruct Ht as (b & <- & Hb).
  pose proof (chain_Forall _ _ _ _ Hc) as HF. rewrite Forall_forall in HF. specialize (HF _ Hb).
  unfold mkt; cbn [t_contig t_region t_start t_end t_fs t_fe]. cbv beta in HF. destruct HF as (Ha & Hb' & Hc' & Hd'). repeat split; try reflexivity; lia.
Qed.

Lemma plan_ok_region L c len ts : C08.chain c 0 len ts = true -> forallb (margin_ok L len) ts = true ->
  plan_ok L (c, len, ts) = true.
Proof.
  intros Hc Hm. unfold plan_ok. destruct ts as [| t [| t' r]].
  - rewrite Hc, Hm. reflexivity.
  - destruct (t_region t) eqn:Hr; [rewrite Hc, Hm; reflexivity |]. simpl in Hc. rewrite Hr in Hc. simpl in Hc. discriminate.
  - rewrite Hc, Hm. reflexivity.
Qed.

Lemma plan_contigs_gen contigs bs f : plan_contigs (gen_plans contigs bs f) = map fst contigs.
Proof. unfold plan_contigs, gen_plans. rewrite map_map. apply map_ext. intros a. reflexivity. Qed.

Lemma gen_plans_ok L contigs bs f : 0 < bs -> L <= f ->
  (forall cl, In cl contigs -> 0 <= snd cl) -> distinct (map fst contigs) = true ->
  plans_ok L (gen_plans contigs bs f) = true.
Proof.
  intros Hbs HL Hlen Hd. unfold plans_ok. rewrite plan_contigs_gen, Hd, andb_true_r.
  apply forallb_forall. intros p Hp. unfold gen_plans in Hp. apply in_map_iff in Hp.
  destruct Hp as (cl & <- & Hcl).
  destruct (gen_tasks_tiling L (fst cl) (snd cl) bs f Hbs (Hlen _ Hcl) HL) as (H1 & H2).
  apply plan_ok_region; assumption.
Qed.

(* ---- equivalence for the generated tiling: no tiling hypothesis left *)
Lemma equiv_generated : forall (g : list frag -> list mol) (partial : task -> frag -> frag)
    (ksite : Z -> option Z) (kcontig : Z -> Z) (L : Z) (contigs : list (Z * Z)) (bs f : Z) (fs : list frag)
    (tagf : mol -> frag -> read -> Z) (jobs : list (list task)),
  let ps := gen_plans contigs bs f in
  (forall l m f, In m (g l) -> In f m -> In f l) ->
  (forall l m, In m (g l) -> m <> []) ->
  0 < bs -> L <= f -> (forall cl, In cl contigs -> 0 <= snd cl) -> distinct (map fst contigs) = true ->
  frags_ok L ps fs = true ->
  (forall f, In f fs -> keyed ksite kcontig f) ->
  (forall t f, In t (plan_tasks ps) -> In f fs -> In (partial t f) (job_frag partial t f) -> keyed ksite kcontig (partial t f)) ->
  (forall t f, In t (plan_tasks ps) -> In f fs ->
     f_site (partial t f) = None \/ f_site (partial t f) = f_site f \/
     exists r, In r (f_reads f) /\ f_site (partial t f) = Some (r_lo r)) ->
  (forall t f, In t (plan_tasks ps) -> In f fs -> f_contig f = t_contig t -> f_contig (partial t f) = t_contig t) ->
  Permutation (concat jobs) (gen_regions contigs bs f) ->
  Permutation (flat_map (write tagf) (parallel g partial jobs fs))
              (flat_map (write tagf) (filter (covered_mol ps) (serial g fs))).
Proof.
  intros g partial ksite kcontig L contigs bs f fs tagf jobs ps Hs Hn Hbs HL Hlen Hd Hf Hk Hpk Hps Hpc Hj.
  apply (equiv_stmt g partial ksite kcontig L ps fs tagf jobs); auto.
  apply gen_plans_ok; assumption.
Qed.

(* the jobs run_multiome_tagging really builds (bp_chunked of the regions), in any completion order *)
Lemma Permutation_concat {A} (l l' : list (list A)) : Permutation l l' -> Permutation (concat l) (concat l').
Proof.
  intros H. induction H; cbn [concat].
  - apply Permutation_refl.
  - apply Permutation_app_head. assumption.
  - rewrite !app_assoc. apply Permutation_app_tail, Permutation_app_comm.
  - eapply Permutation_trans; eassumption.
Qed.

Lemma gen_jobs_perm contigs bs f k jobs : Permutation jobs (gen_jobs contigs bs f k) ->
  Permutation (concat jobs) (gen_regions contigs bs f).
Proof.
  intros H. rewrite <- (bp_chunked_concat (gen_regions contigs bs f) k).
  apply Permutation_concat. exact H.
Qed.

(* ---- which molecules are covered does not depend on bin size or fragment size *)
Definition covered_tiled (contigs : list (Z * Z)) (c : Z) (s : option Z) : bool :=
  existsb (fun cl => (c =? fst cl) && match s with Some x => (0 <=? x) && (x <? snd cl) | None => false end) contigs.

Lemma covered_gen contigs bs f c s : 0 < bs -> (forall cl, In cl contigs -> 0 <= snd cl) ->
  covered (gen_plans contigs bs f) c s = covered_tiled contigs c s.
Proof.
  intros Hbs. unfold covered, covered_tiled, gen_plans. induction contigs as [| cl r IH]; intros Hlen; [reflexivity |].
  cbn [map existsb]. rewrite IH by (intros; apply Hlen; right; assumption). f_equal.
  unfold covered_by. destruct (gen_tasks (fst cl) (snd cl) bs f) as [| t [| t' r']] eqn:E; try reflexivity.
  assert (Hr : t_region t = true).
  { apply (gen_tasks_shape (fst cl) (snd cl) bs f t Hbs (Hlen cl (or_introl eq_refl))). rewrite E. left. reflexivity. }
  rewrite Hr. reflexivity.
Qed.

Lemma filter_ext_all {A} (p q : A -> bool) (l : list A) : (forall x, p x = q x) -> filter p l = filter q l.
Proof. intros H. induction l as [| a l IH]; cbn [filter]; [reflexivity |]. rewrite H, IH. reflexivity. Qed.

(* two bin sizes / fragment sizes (both margins at least L) write the same multiset of records *)
Lemma binsize_independent : forall (g : list frag -> list mol) (partial : task -> frag -> frag)
    (ksite : Z -> option Z) (kcontig : Z -> Z) (L : Z) (contigs : list (Z * Z)) (bs1 f1 bs2 f2 : Z) (fs : list frag)
    (tagf : mol -> frag -> read -> Z) (jobs1 jobs2 : list (list task)),
  (forall l m f, In m (g l) -> In f m -> In f l) ->
  (forall l m, In m (g l) -> m <> []) ->
  0 < bs1 -> 0 < bs2 -> L <= f1 -> L <= f2 ->
  (forall cl, In cl contigs -> 0 <= snd cl) -> distinct (map fst contigs) = true ->
  frags_ok L (gen_plans contigs bs1 f1) fs = true -> frags_ok L (gen_plans contigs bs2 f2) fs = true ->
  (forall f, In f fs -> keyed ksite kcontig f) ->
  (forall t f, In f fs -> In (partial t f) (job_frag partial t f) -> keyed ksite kcontig (partial t f)) ->
  (forall t f, In f fs ->
     f_site (partial t f) = None \/ f_site (partial t f) = f_site f \/
     exists r, In r (f_reads f) /\ f_site (partial t f) = Some (r_lo r)) ->
  (forall t f, In f fs -> f_contig f = t_contig t -> f_contig (partial t f) = t_contig t) ->
  Permutation (concat jobs1) (gen_regions contigs bs1 f1) ->
  Permutation (concat jobs2) (gen_regions contigs bs2 f2) ->
  Permutation (flat_map (write tagf) (parallel g partial jobs1 fs))
              (flat_map (write tagf) (parallel g partial jobs2 fs)).
Proof.
  intros g partial ksite kcontig L contigs bs1 f1 bs2 f2 fs tagf jobs1 jobs2
         Hs Hn Hb1 Hb2 HL1 HL2 Hlen Hd Hf1 Hf2 Hk Hpk Hps Hpc Hj1 Hj2.
  eapply Permutation_trans.
  - apply (equiv_generated g partial ksite kcontig L contigs bs1 f1 fs tagf jobs1); auto.
  - apply Permutation_sym. eapply Permutation_trans.
    + apply (equiv_generated g partial ksite kcontig L contigs bs2 f2 fs tagf jobs2); auto.
    + rewrite (filter_ext_all (covered_mol (gen_plans contigs bs2 f2)) (covered_mol (gen_plans contigs bs1 f1))).
      * apply Permutation_refl.
      * intros m. unfold covered_mol. rewrite !covered_gen by assumption. reflexivity.
Qed.

(* ---- count conservation: the records written, summed over the tasks, are the records of the covered molecules *)
Lemma length_flat_map {A B} (h : A -> list B) (l : list A) :
  length (flat_map h l) = list_sum (map (fun x => length (h x)) l).
Proof. induction l as [| a l IH]; cbn [flat_map map list_sum]; [reflexivity |]. rewrite app_length, IH. reflexivity. Qed.

Lemma length_flat_map2 {A B C} (J : A -> list B) (W : B -> list C) (ts : list A) :
  length (flat_map W (flat_map J ts)) = list_sum (map (fun t => length (flat_map W (J t))) ts).
Proof.
  induction ts as [| a l IH]; cbn [flat_map map list_sum]; [reflexivity |].
  rewrite flat_map_app, app_length, IH. reflexivity.
Qed.

Lemma parallel_tasks g partial jobs fs : parallel g partial jobs fs = flat_map (fun t => job_run g partial t fs) (concat jobs).
Proof.
  unfold parallel. induction jobs as [| j r IH]; cbn [flat_map concat]; [reflexivity |].
  rewrite IH, flat_map_app. reflexivity.
Qed.

Lemma count_conservation : forall (g : list frag -> list mol) (partial : task -> frag -> frag)
    (ksite : Z -> option Z) (kcontig : Z -> Z) (L : Z) (ps : list contig_plan) (fs : list frag)
    (tagf : mol -> frag -> read -> Z) (jobs : list (list task)),
  (forall l m f, In m (g l) -> In f m -> In f l) ->
  (forall l m, In m (g l) -> m <> []) ->
  plans_ok L ps = true -> frags_ok L ps fs = true ->
  (forall f, In f fs -> keyed ksite kcontig f) ->
  (forall t f, In t (plan_tasks ps) -> In f fs -> In (partial t f) (job_frag partial t f) -> keyed ksite kcontig (partial t f)) ->
  (forall t f, In t (plan_tasks ps) -> In f fs ->
     f_site (partial t f) = None \/ f_site (partial t f) = f_site f \/
     exists r, In r (f_reads f) /\ f_site (partial t f) = Some (r_lo r)) ->
  (forall t f, In t (plan_tasks ps) -> In f fs -> f_contig f = t_contig t -> f_contig (partial t f) = t_contig t) ->
  Permutation (concat jobs) (plan_tasks ps) ->
  list_sum (map (fun t => length (flat_map (write tagf) (job_run g partial t fs))) (concat jobs))
  = length (flat_map (write tagf) (filter (covered_mol ps) (serial g fs))).
Proof.
  intros g partial ksite kcontig L ps fs tagf jobs Hs Hn Hp Hf Hk Hpk Hps Hpc Hj.
  rewrite <- (Permutation_length (equiv_stmt g partial ksite kcontig L ps fs tagf jobs Hs Hn Hp Hf Hk Hpk Hps Hpc Hj)).
  rewrite parallel_tasks. apply eq_sym, length_flat_map2.
Qed.

(* ---- concrete instances (non-vacuity) *)
Definition t4 (t : task) := (t_start t, t_end t, t_fs t, t_fe t).
Lemma gen_example :
  map t4 (gen_tasks 7 2500 1000 100) = [(0, 833, 0, 933); (833, 1666, 733, 1766); (1666, 2499, 1566, 2500); (2499, 2500, 2399, 2500)] /\
  map t4 (gen_tasks 7 5 1000 100) = [(0, 5, 0, 5)] /\
  map t4 (gen_tasks 7 2000 1000 1500) = [(0, 1000, 0, 2000); (1000, 2000, 0, 2000)] /\
  gen_tasks 7 0 1000 100 = [].
Proof. vm_compute. repeat split; reflexivity. Qed.

Lemma gen_example_binsize :
  let cs := [(0, 2000); (1, 500)] in
  plans_ok 100 (gen_plans cs 1000 100) = true /\ plans_ok 100 (gen_plans cs 300 117) = true /\
  frags_ok 100 (gen_plans cs 1000 100) Proofs.C08_ex.ex_fs = true /\ frags_ok 100 (gen_plans cs 300 117) Proofs.C08_ex.ex_fs = true /\
  length (gen_regions cs 1000 100) = 3%nat /\ length (gen_regions cs 300 117) = 10%nat /\
  mol_read_ids (parallel g_one partial_nla (gen_jobs cs 1000 100 1000) Proofs.C08_ex.ex_fs) = [0; 1; 2; 3; 4; 5; 14; 15; 6; 8; 9; 10; 11] /\
  mol_read_ids (parallel g_one partial_nla (gen_jobs cs 300 117 700) Proofs.C08_ex.ex_fs) = [0; 1; 2; 3; 14; 15; 4; 5; 8; 9; 6; 10; 11].
Proof. vm_compute. repeat split; reflexivity. Qed.
