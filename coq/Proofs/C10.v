From Coq Require Import ZArith List Bool Lia ZifyBool Permutation.
Import ListNotations.
From SCMO Require Import Lib.Val Lib.PyInt Lib.PyIntFacts Gen.GenBins Model.C10.
Open Scope Z_scope.
Ltac Zify.zify_post_hook ::= Z.to_euclidean_division_equations.

(* the window index range produced by the generated kernel is exactly the windows containing dp *)
Lemma index_range_iff dp b s i : 0 < s ->
  ((dp - b) / s + 1 <= i < dp / s + 1) <-> (i * s <= dp < i * s + b).
Proof. intros Hs. split; intros H; nia. Qed.

Section Kernel.
  Variable bins : Z -> Z -> Z -> list (Z * Z).
  Hypothesis bins_def : forall dp b s, 0 < s ->
    bins dp b s = map (fun i => (i * s, i * s + b)) (zrange ((dp - b) / s + 1) (dp / s + 1)).

  Lemma membership dp b s lo hi : 0 < s ->
    In (lo, hi) (bins dp b s) <-> exists i, lo = i * s /\ hi = i * s + b /\ lo <= dp < hi.
  Proof.
    intros Hs. rewrite bins_def, in_map_iff by assumption. split.
    - intros (i & Heq & Hin). inversion Heq; subst. exists i.
      apply zrange_In in Hin. apply index_range_iff in Hin; [|assumption]. lia.
    - intros (i & -> & -> & H). exists i. split; [reflexivity|].
      apply zrange_In. apply index_range_iff; [assumption|lia].
  Qed.

  Lemma no_sliding dp b : 0 < b -> bins dp b b = [(b * (dp / b), b * (dp / b) + b)].
  Proof.
    intros Hb. rewrite bins_def by assumption.
    replace ((dp - b) / b + 1) with (dp / b).
    2:{ replace (dp - b) with (dp + (-1) * b) by lia. rewrite Z.div_add by lia. lia. }
    rewrite zrange_single. cbn [map]. f_equal. f_equal; lia.
  Qed.

  Lemma nodup dp b s : 0 < s -> NoDup (bins dp b s).
  Proof.
    intros Hs. rewrite bins_def by assumption.
    apply FinFun.Injective_map_NoDup; [|apply zrange_NoDup].
    intros x y H. inversion H. nia.
  Qed.

  Lemma count_windows dp b s : 0 < s -> s <= b ->
    Z.of_nat (length (bins dp b s)) = dp / s - (dp - b) / s.
  Proof.
    intros Hs Hb. rewrite bins_def, map_length by assumption. unfold zrange. rewrite zrange_from_length.
    assert ((dp - b) / s <= dp / s) by (apply Z.div_le_mono; lia). lia.
  Qed.
End Kernel.

(* the generated definitions have the shape the kernel lemmas need: this is the obligation a
   changed floor/ceil/offset in the source breaks *)
(* robust to arithmetically equivalent rewrites of the index expressions: only the two range bounds
   are compared, by nia with the Euclidean-division equations *)
Ltac bins_shape :=
  intros dp b s Hs;
  unfold bins_u, bins_t, u_coordinate_to_bins, t_coordinate_to_bins,
         u_sliding_bin_locations, t_sliding_bin_locations, cdiv; cbv zeta beta;
  f_equal; unfold zrange; f_equal; try nia; f_equal; nia.

Lemma bins_u_def : forall dp b s, 0 < s ->
  bins_u dp b s = map (fun i => (i * s, i * s + b)) (zrange ((dp - b) / s + 1) (dp / s + 1)).
Proof. bins_shape. Qed.
Lemma bins_t_def : forall dp b s, 0 < s ->
  bins_t dp b s = map (fun i => (i * s, i * s + b)) (zrange ((dp - b) / s + 1) (dp / s + 1)).
Proof. bins_shape. Qed.

Lemma counted_iff keep reflen dp b s lo hi :
  In (lo, hi) (counted_bins keep reflen dp b s) <->
  In (lo, hi) (bins_t dp b s) /\ (keep = true \/ (0 <= lo /\ hi <= reflen)).
Proof.
  unfold counted_bins. rewrite filter_In. unfold skip_bin. cbn [fst snd].
  destruct keep; cbn [negb andb].
  - split; intros [H1 _]; split; auto.
  - split; intros [H1 H2]; split; auto.
    + right. lia.
    + destruct H2 as [H2|H2]; [discriminate|lia].
Qed.

(* ---- table *)
Lemma tkey_eqb_eq a b : tkey_eqb a b = true <-> a = b.
Proof.
  destruct a as [[a1 a2] a3], b as [[b1 b2] b3]. unfold tkey_eqb.
  rewrite !andb_true_iff, !Z.eqb_eq. split.
  - intros [[-> ->] ->]. reflexivity.
  - intros H. inversion H. auto.
Qed.

Lemma total_add_cell k w t : total (add_cell k w t) = total t + w.
Proof.
  induction t as [|[k' w'] t IH]; cbn [add_cell total fold_right snd].
  - lia.
  - destruct (tkey_eqb k k'); cbn [total fold_right snd]; fold (total t); fold (total (add_cell k w t)); lia.
Qed.

Lemma cell_add_cell q k w t :
  cell q (add_cell k w t) = cell q t + (if tkey_eqb q k then w else 0).
Proof.
  induction t as [|[k' w'] t IH]; cbn [add_cell cell fold_right fst snd].
  - lia.
  - destruct (tkey_eqb k k') eqn:E.
    + apply tkey_eqb_eq in E. subst k'. cbn [cell fold_right fst snd]. fold (cell q t).
      destruct (tkey_eqb q k); lia.
    + cbn [cell fold_right fst snd]. fold (cell q t). fold (cell q (add_cell k w t)). lia.
Qed.

Definition occ (q : Z * Z) (l : list (Z * Z)) : Z :=
  fold_right (fun p acc => (if (fst p =? fst q) && (snd p =? snd q) then 1 else 0) + acc) 0 l.

Lemma occ_cons q p l : occ q (p :: l) = (if (fst p =? fst q) && (snd p =? snd q) then 1 else 0) + occ q l.
Proof. reflexivity. Qed.

Lemma total_add_bins key w : forall l t,
  total (fold_left (fun t p => add_cell (key, fst p, snd p) w t) l t) = total t + w * Z.of_nat (length l).
Proof.
  induction l as [|p l IH]; intros t; cbn [fold_left length].
  - lia.
  - rewrite IH, total_add_cell. lia.
Qed.

Lemma cell_add_bins qk qlo qhi key w : forall l t,
  cell (qk, qlo, qhi) (fold_left (fun t p => add_cell (key, fst p, snd p) w t) l t)
  = cell (qk, qlo, qhi) t + (if qk =? key then w * occ (qlo, qhi) l else 0).
Proof.
  induction l as [|p l IH]; intros t; cbn [fold_left].
  - unfold occ. cbn [fold_right]. destruct (qk =? key); lia.
  - rewrite IH, cell_add_cell, occ_cons. unfold tkey_eqb. cbn [fst snd].
    destruct (qk =? key); cbn [andb]; [|lia].
    rewrite (Z.eqb_sym qlo), (Z.eqb_sym qhi).
    destruct ((fst p =? qlo) && (snd p =? qhi)); lia.
Qed.

Definition read_bins keep b s (r : read) := counted_bins keep (r_reflen r) (r_dp r) b s.

Definition spec_total keep b s (reads : list read) : Z :=
  fold_right (fun r acc => r_w r * Z.of_nat (length (read_bins keep b s r)) + acc) 0 reads.

Definition spec_cell keep b s (q : tkey) (reads : list read) : Z :=
  let '(qk, qlo, qhi) := q in
  fold_right (fun r acc => (if qk =? r_key r then r_w r * occ (qlo, qhi) (read_bins keep b s r) else 0) + acc) 0 reads.

Lemma spec_total_cons keep b s r reads :
  spec_total keep b s (r :: reads)
  = r_w r * Z.of_nat (length (read_bins keep b s r)) + spec_total keep b s reads.
Proof. reflexivity. Qed.

Lemma spec_cell_cons keep b s qk qlo qhi r reads :
  spec_cell keep b s (qk, qlo, qhi) (r :: reads)
  = (if qk =? r_key r then r_w r * occ (qlo, qhi) (read_bins keep b s r) else 0)
    + spec_cell keep b s (qk, qlo, qhi) reads.
Proof. reflexivity. Qed.

Lemma table_total_gen keep b s : forall reads t,
  total (fold_left (add_read keep b s) reads t) = total t + spec_total keep b s reads.
Proof.
  induction reads as [|r reads IH]; intros t.
  - cbn [fold_left]. unfold spec_total, spec_cell. cbn [fold_right]. lia.
  - cbn [fold_left]. rewrite IH, spec_total_cons. unfold add_read. rewrite total_add_bins.
    unfold read_bins. lia.
Qed.

Lemma table_cell_gen keep b s qk qlo qhi : forall reads t,
  cell (qk, qlo, qhi) (fold_left (add_read keep b s) reads t)
  = cell (qk, qlo, qhi) t + spec_cell keep b s (qk, qlo, qhi) reads.
Proof.
  induction reads as [|r reads IH]; intros t.
  - cbn [fold_left]. unfold spec_total, spec_cell. cbn [fold_right]. lia.
  - cbn [fold_left]. rewrite IH, spec_cell_cons. unfold add_read. rewrite cell_add_bins.
    unfold read_bins. lia.
Qed.

Lemma occ_notin q : forall l, ~ In q l -> occ q l = 0.
Proof.
  induction l as [|p l IH]; intros Hn; [reflexivity|].
  rewrite occ_cons, IH by (intros H; apply Hn; right; exact H).
  destruct q as [q1 q2], p as [p1 p2]. cbn [fst snd].
  destruct ((p1 =? q1) && (p2 =? q2)) eqn:E; [|reflexivity].
  exfalso. apply Hn. left. apply andb_true_iff in E. destruct E as [E1 E2].
  apply Z.eqb_eq in E1, E2. subst. reflexivity.
Qed.

Lemma occ_in_NoDup q : forall l, NoDup l -> In q l -> occ q l = 1.
Proof.
  induction l as [|p l IH]; intros Hnd Hin; [destruct Hin|].
  inversion Hnd as [|? ? Hnot Hnd']; subst. rewrite occ_cons.
  destruct Hin as [->|Hin].
  - rewrite !Z.eqb_refl. cbn [andb]. rewrite occ_notin by assumption. reflexivity.
  - rewrite (IH Hnd' Hin). destruct q as [q1 q2], p as [p1 p2]. cbn [fst snd].
    destruct ((p1 =? q1) && (p2 =? q2)) eqn:E; [|reflexivity].
    exfalso. apply andb_true_iff in E. destruct E as [E1 E2].
    apply Z.eqb_eq in E1, E2. subst. contradiction.
Qed.

Lemma counted_NoDup keep reflen dp b s : 0 < s -> NoDup (counted_bins keep reflen dp b s).
Proof. intros Hs. unfold counted_bins. apply NoDup_filter. apply (nodup bins_t bins_t_def); assumption. Qed.

Definition pair_dec (a b : Z * Z) : {a = b} + {a <> b}.
Proof. decide equality; apply Z.eq_dec. Defined.

(* ---- declarative table specification: independent of the bins functions *)
Definition contributes (keep : bool) (b s : Z) (r : read) (q : tkey) : bool :=
  let '(k, lo, hi) := q in
  (k =? r_key r) && (lo mod s =? 0) && (hi =? lo + b) && (lo <=? r_dp r) && (r_dp r <? hi)
  && (keep || ((0 <=? lo) && (hi <=? r_reflen r))).

Definition decl_cell keep b s (q : tkey) (reads : list read) : Z :=
  fold_right (fun r acc => (if contributes keep b s r q then r_w r else 0) + acc) 0 reads.

Lemma contributes_occ keep b s r k lo hi : 0 < s ->
  (if k =? r_key r then r_w r * occ (lo, hi) (read_bins keep b s r) else 0)
  = if contributes keep b s r (k, lo, hi) then r_w r else 0.
Proof.
  intros Hs. unfold contributes, read_bins. destruct (k =? r_key r); cbn [andb]; [|reflexivity].
  destruct (in_dec pair_dec (lo, hi) (counted_bins keep (r_reflen r) (r_dp r) b s)) as [Hin|Hin].
  - rewrite occ_in_NoDup by (auto using counted_NoDup).
    apply counted_iff in Hin. destruct Hin as [Hin Hk].
    apply (membership bins_t bins_t_def) in Hin; [|assumption].
    destruct Hin as (i & -> & -> & Hr).
    replace ((i * s) mod s =? 0) with true by (symmetry; apply Z.eqb_eq; apply Z_mod_mult).
    replace (i * s + b =? i * s + b) with true by (symmetry; apply Z.eqb_refl).
    replace (i * s <=? r_dp r) with true by lia. replace (r_dp r <? i * s + b) with true by lia.
    replace (keep || ((0 <=? i * s) && (i * s + b <=? r_reflen r))) with true; [cbn [andb]; lia|].
    destruct Hk as [->|Hk]; [reflexivity|]. destruct keep; [reflexivity|]. cbn [orb]. lia.
  - rewrite occ_notin by assumption.
    destruct ((lo mod s =? 0) && (hi =? lo + b) && (lo <=? r_dp r) && (r_dp r <? hi)
              && (keep || ((0 <=? lo) && (hi <=? r_reflen r)))) eqn:E; [|lia].
    exfalso. apply Hin. rewrite !andb_true_iff in E. destruct E as [[[[E1 E2] E3] E4] E5].
    apply counted_iff. split.
    + apply (membership bins_t bins_t_def); [assumption|]. exists (lo / s).
      apply Z.eqb_eq in E1. apply Z.eqb_eq in E2. subst hi.
      assert (lo = lo / s * s) by (rewrite (Z.div_mod lo s) at 1 by lia; lia). lia.
    + destruct keep; [left; reflexivity|right]. cbn [orb] in E5. lia.
Qed.

Lemma spec_cell_decl keep b s k lo hi reads : 0 < s ->
  spec_cell keep b s (k, lo, hi) reads = decl_cell keep b s (k, lo, hi) reads.
Proof.
  intros Hs. induction reads as [|r reads IH]; [reflexivity|].
  rewrite spec_cell_cons, IH. unfold decl_cell. cbn [fold_right].
  rewrite <- contributes_occ by assumption. reflexivity.
Qed.

Lemma table_cell_decl keep b s k lo hi reads : 0 < s ->
  cell (k, lo, hi) (table keep b s reads) = decl_cell keep b s (k, lo, hi) reads.
Proof.
  intros Hs. unfold table. rewrite table_cell_gen. cbn [cell fold_right].
  rewrite spec_cell_decl by assumption. lia.
Qed.

Lemma table_total keep b s reads :
  total (table keep b s reads) = spec_total keep b s reads.
Proof. unfold table. rewrite table_total_gen. cbn [total fold_right]. lia. Qed.

Lemma split_double_bin_ok ds b : 0 < b -> split_double_bin ds b = Some (b * (ds / b), b * (ds / b) + b).
Proof.
  intros Hb. unfold split_double_bin. change t_coordinate_to_bins with bins_t.
  rewrite (no_sliding bins_t bins_t_def) by assumption. reflexivity.
Qed.

(* a history of calls: the table of every call is the table of that call alone (nothing is carried over
   from earlier calls, alignment files or contigs) *)
Lemma history_nth calls n keep b s reads :
  nth_error calls n = Some (keep, b, s, reads) -> nth_error (history calls) n = Some (table keep b s reads).
Proof.
  intros H. unfold history. rewrite nth_error_map, H. reflexivity.
Qed.
