(* C15 proofs: shape lemmas.  What the expressions regenerated from the source (coq/Gen/GenDedup.v)
   have to mean for the proofs of the model to go through.  If the source changes one of them to
   something else, the lemma for it fails here (and the check searches for a failing input). *)
From Coq Require Import ZArith NArith List Bool Lia ZifyBool QArith.
Import ListNotations.
From SCMO Require Import Lib.Val Lib.PyInt Gen.GenDedup Model.C15.
Open Scope Z_scope.

(* get_CIGAR: gap = start - previous end - 1 (both inclusive), block = end - start + 1 *)
Lemma shape_gap_len s pe : gen_cigar_gap_len s pe = s - pe - 1.
Proof. unfold gen_cigar_gap_len. lia. Qed.
Lemma shape_block_len s e : gen_cigar_block_len s e = e - s + 1.
Proof. unfold gen_cigar_block_len. lia. Qed.
Lemma shape_alignment_start a s : gen_alignment_start a s = Z.min a s.
Proof. unfold gen_alignment_start. lia. Qed.

(* the operation characters get_CIGAR emits are the ones generate_partial_reads dispatches on,
   and the two are different *)
Lemma shape_ops : gen_cigar_gap_op = gen_branch_gap_op /\ gen_cigar_block_op = gen_branch_block_op /\
                  gen_branch_gap_op <> gen_branch_block_op.
Proof. repeat split; try reflexivity. discriminate. Qed.

(* generate_partial_reads: a gap splits iff max_N_span is given and the gap is longer;
   a block is the first of its record iff no operation has been kept yet *)
Lemma shape_split h m a : gen_split h m a = h && (m <? a).
Proof. unfold gen_split. destruct h; cbn [andb]; lia. Qed.
Lemma shape_first_block n : gen_first_block n = (n =? 0).
Proof. unfold gen_first_block. lia. Qed.

(* create_MD_tag: a column matches iff the upper-cased reference base equals the query base;
   the running count is written iff it is positive *)
Lemma shape_md_match r b : gen_md_match r b = (r =? b).
Proof. unfold gen_md_match. lia. Qed.
Lemma shape_md_flush n : gen_md_flush n = (0 <? n).
Proof. unfold gen_md_flush. lia. Qed.

(* phredscores_to_base_call: no call iff nothing is ranked or the two best are equal; the no-call
   result and the default of a position without observation are ('N', 0) *)
Lemma shape_no_call n e : gen_no_call n e = (n =? 0) || ((2 <=? n) && e).
Proof. unfold gen_no_call. destruct e; rewrite ?andb_true_r, ?andb_false_r, ?orb_false_r; lia. Qed.
Lemma shape_no_call_result : gen_no_call_base = baseN /\ gen_no_call_prob = 0 /\
                             gen_default_base = baseN /\ gen_default_prob = 0.
Proof. repeat split; reflexivity. Qed.

(* extract_stretch_from_dict: 0 < lo < hi < 1 *)
Lemma shape_clip : (0 < clip_lo /\ clip_lo < clip_hi /\ clip_hi < 1)%Q.
Proof. unfold clip_lo, clip_hi, q_of, Qlt. cbn. lia. Qed.

(* write_tags_to_psuedoreads: SM always = sample; DS = site when there is one; RX, BC, MI = UMI,
   barcode, barcode ++ UMI when there is a UMI; TF always = fragments + overflow *)
Lemma shape_TF n o : gen_TF n o = n + o.
Proof. unfold gen_TF. lia. Qed.
Definition has_tag (code guard kind : Z) : Prop := In (code, guard, kind) gen_tags /\
  forall g k, In (code, g, k) gen_tags -> g = guard /\ k = kind.
Lemma shape_tags : has_tag tagSM 0 1 /\ has_tag tagDS 1 2 /\ has_tag tagRX 2 3 /\ has_tag tagBC 2 4 /\
                   has_tag tagMI 2 5 /\ has_tag tagTF 0 6.
Proof.
  unfold has_tag, gen_tags. repeat split; try (cbn; tauto);
    try (cbn in H; repeat (destruct H as [H|H]; [inversion H; try reflexivity|]); try contradiction).
Qed.

(* ------------------------------------------------------------------ consequences used by the other files *)
Lemma too_long_spec maxN a :
  too_long maxN a = match maxN with Some m => m <? a | None => false end.
Proof. unfold too_long. destruct maxN; now rewrite shape_split. Qed.

Lemma first_block_spec {A} (c : list cop) (x y : A) :
  (if gen_first_block (Z.of_nat (length c)) then x else y) = match c with [] => x | _ => y end.
Proof. rewrite shape_first_block. destruct c; reflexivity. Qed.

Lemma flush_num_spec n : flush_num n = if (0 <? n)%N then num n else [].
Proof.
  unfold flush_num. rewrite shape_md_flush.
  replace (0 <? Z.of_N n) with (0 <? n)%N; [reflexivity|].
  destruct n; reflexivity.
Qed.

Lemma no_call_spec l :
  no_call l = match l with [] => true | [_] => false | (_, p) :: (_, p2) :: _ => Qeq_bool p p2 end.
Proof.
  unfold no_call. rewrite shape_no_call. destruct l as [|[b p] [|[b2 p2] t]]; try reflexivity.
  cbn [eq01 length]. replace (Z.of_nat (S (S (length t))) =? 0) with false by (symmetry; apply Z.eqb_neq; lia).
  replace (2 <=? Z.of_nat (S (S (length t)))) with true by (symmetry; apply Z.leb_le; lia).
  reflexivity.
Qed.

Lemma decide_spec l :
  decide l = match l with
             | [] => (baseN, 0%Q)
             | [(b, p)] => (b, p)
             | (b, p) :: (_, p2) :: _ => if Qeq_bool p p2 then (baseN, 0%Q) else (b, p)
             end.
Proof.
  unfold decide. rewrite no_call_spec. destruct l as [|[b p] [|[b2 p2] t]]; try reflexivity.
Qed.

Lemma call_fast_spec pc os :
  call_fast pc os = match most_common (likelihoods pc os) with
                    | [] => (baseN, 0)
                    | [(b, _)] => (b, 0)
                    | (b, v1) :: (_, v2) :: _ =>
                        if Qeq_bool v1 v2 then (baseN, 1)
                        else (b, if Qle_bool v1 ((v1 - v2) * inject_Z (2 ^ 20))%Q then 0 else 2)
                    end.
Proof.
  unfold call_fast. cbn zeta. rewrite no_call_spec.
  destruct (most_common (likelihoods pc os)) as [|[b p] [|[b2 p2] t]]; reflexivity.
Qed.

(* the raw (character, amount) list of get_CIGAR drives generate_partial_reads exactly like the cop list *)
Lemma step_raw_of callf qualf maxN st o : step_raw callf qualf maxN st (raw_of o) = step callf qualf maxN st o.
Proof.
  destruct shape_ops as (Hg & Hb & Hne). unfold step_raw. destruct o as [n|n]; cbn [raw_of fst snd].
  - rewrite Hb. destruct (gen_branch_block_op =? gen_branch_gap_op) eqn:E.
    + apply Z.eqb_eq in E. congruence.
    + now rewrite Z.eqb_refl.
  - rewrite Hg. now rewrite Z.eqb_refl.
Qed.

Lemma partial_reads_raw_of callf qualf maxN c s :
  partial_reads_raw callf qualf maxN (map raw_of c) s = partial_reads callf qualf maxN c s.
Proof.
  unfold partial_reads_raw, partial_reads. generalize (g_init s). induction c as [|o c IH]; intros st; [reflexivity|].
  cbn [map fold_left]. rewrite step_raw_of. apply IH.
Qed.
