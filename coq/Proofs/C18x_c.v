(* C18 proofs, extension part c: what a region-restricted run answers OUTSIDE its window, and the four ways in which the
   loading modes disagree for one and the same window (concrete witnesses, all reproduced on the real class). *)
From Coq Require Import ZArith List Bool Lia.
Import ListNotations.
From SCMO Require Import Lib.Val Gen.GenAlleles Model.C18 Model.C18x Proofs.C18_s Proofs.C18_a Proofs.C18_b Proofs.C18_c Proofs.C18_d Proofs.C18_e Proofs.C18 Proofs.C18x_a Proofs.C18x_b.
Open Scope Z_scope.

Definition no_answer (q : query) : answer := match q with QGet _ _ _ => ANone | QHas _ _ => ABool false end.

(* ------------------------------------------------------------------ outside the window, as the code defines it *)
Lemma spec_answer_no_rec v cf q : spec_rec v cf (query_contig q) (query_pos q) = None -> spec_answer v cf q = no_answer q.
Proof.
  destruct q as [c p b|c p]; cbn [spec_answer query_contig query_pos no_answer]; intros ->;
    destruct (in_scope cf c); reflexivity.
Qed.
Lemma spec_answer_beyond_end v w cf q : win_hi w <= query_pos q -> spec_answer (vwin v w) cf q = no_answer q.
Proof. intros H. apply spec_answer_no_rec, spec_rec_beyond_end, H. Qed.
Lemma spec_answer_before_start v w cf q : query_pos q < win_lo w ->
  (forall r, In r (v_recs v) -> r_chrom r = query_contig q -> (length (r_ref r) <= 1)%nat) ->
  spec_answer (vwin v w) cf q = no_answer q.
Proof. intros H Hs. apply spec_answer_no_rec, spec_rec_before_start; assumption. Qed.

(* a lazily loading (lazyLoad and / or use_cache) run whose queries all lie outside its window answers nothing, when no
   REF of the file is longer than one base *)
Lemma spec_run_x_outside v run : is_lazy (x_cf (fst run)) = true -> win_valid (x_win (fst run)) = true ->
  (forall q, In q (snd run) -> in_win (x_win (fst run)) (query_pos q) = false) ->
  (forall r, In r (v_recs v) -> (length (r_ref r) <= 1)%nat) ->
  spec_run_x v run = map no_answer (snd run).
Proof.
  intros Hl Hw Hq Hs. unfold spec_run_x, ctor_raises_win. rewrite Hl. cbn [negb andb].
  unfold veff, eager_all, wv. rewrite Hl, Hw. cbn [negb andb]. unfold spec_run. cbn [fst snd]. rewrite Hl.
  apply map_ext_in. intros q Hin. specialize (Hq q Hin). unfold in_win in Hq. apply andb_false_iff in Hq. destruct Hq as [Hq|Hq].
  - apply Z.leb_gt in Hq. apply spec_answer_before_start; [exact Hq|]. intros r Hr _. apply Hs, Hr.
  - apply Z.ltb_ge in Hq. apply spec_answer_beyond_end, Hq.
Qed.

(* the eager load of all contigs ignores the window altogether *)
Lemma spec_run_x_eager_all v run : eager_all (x_cf (fst run)) = true -> spec_run_x v run = spec_run v (unlift run).
Proof.
  intros He. unfold spec_run_x, ctor_raises_win, veff. rewrite He.
  unfold eager_all in He. apply andb_true_iff in He. destruct He as [_ Hc]. apply negb_true_iff in Hc. rewrite Hc, andb_false_r. reflexivity.
Qed.

(* ------------------------------------------------------------------ witnesses *)
Definition w_S1 : str := [83; 49].
Definition w_S2 : str := [83; 50].
Definition w_chr1 : str := [99; 104; 114; 49].
Definition w_A : str := [65].
Definition w_C : str := [67].
Definition w_G : str := [71].
Definition w_T : str := [84].
Definition w_rec (pos : Z) (ref : str) (alts : list str) (g1 g2 : str) : vrec :=
  {| r_chrom := w_chr1; r_pos := pos; r_ref := ref; r_alts := alts;
     r_gts := [(w_S1, [Some g1; Some g1]); (w_S2, [Some g2; Some g2])] |}.
(* chr1: 5 ACGT>C,G (S1 C|C, S2 G|G)   10 A>T (S1 A|A, S2 T|T)   20 C>T (S1 C|C, S2 T|T)   30 C>T (S1 C|C, S2 T|T) *)
Definition w_vcf : vcf :=
  {| v_contigs := [w_chr1];
     v_recs := [w_rec 5 [65; 67; 71; 84] [w_C; w_G] w_C w_G; w_rec 10 w_A [w_T] w_A w_T;
                w_rec 20 w_C [w_T] w_C w_T; w_rec 30 w_C [w_T] w_C w_T] |}.
Definition w_cfg (lz ca : bool) : cfg :=
  {| c_phased := true; c_select := None; c_ignore := None; c_lazy := lz; c_cache := ca; c_chrom := None |}.
Definition w_run (lz ca : bool) (s e : option Z) (qs : list query) : xcfg * list query :=
  ({| x_cf := w_cfg lz ca; x_win := {| w_start := s; w_end := e |} |}, qs).

(* runs that differ in nothing but the mode flags *)
Definition same_but_mode (r1 r2 : xcfg * list query) : Prop :=
  snd r1 = snd r2 /\ x_win (fst r1) = x_win (fst r2) /\ c_phased (x_cf (fst r1)) = c_phased (x_cf (fst r2))
  /\ c_select (x_cf (fst r1)) = c_select (x_cf (fst r2)) /\ c_ignore (x_cf (fst r1)) = c_ignore (x_cf (fst r2))
  /\ c_chrom (x_cf (fst r1)) = c_chrom (x_cf (fst r2)).

(* (1) a cache file written under one window is served to a run with another window: INSIDE its own window the second run
       answers None where the VCF has a variant.  All settings equal, every query inside its run's window, the
       condition of C18_history_spec on file names holds - only the windows differ. *)
Theorem window_cache_shared_refuted : exists v h,
  vcf_ok_x v = true /\ hist_ok (map unlift h) = true /\ hist_inside h = true /\
  (forall r1 r2, In r1 h -> In r2 h -> x_cf (fst r1) = x_cf (fst r2)) /\
  snd (run_history_x v [] h) <> map (spec_run v) (map unlift h).
Proof.
  exists w_vcf, [w_run false true (Some 0) (Some 20) [QGet w_chr1 9 w_A]; w_run false true (Some 20) (Some 40) [QGet w_chr1 29 w_T]].
  split; [vm_compute; reflexivity|]. split; [vm_compute; reflexivity|]. split; [vm_compute; reflexivity|]. split.
  - intros r1 r2 [<-|[<-|[]]] [<-|[<-|[]]]; reflexivity.
  - vm_compute. discriminate.
Qed.

(* (2) region_end is exclusive for the VCF (lazy / eager) but inclusive for a cache file: after an unrestricted run wrote
       the cache, a cached and a lazy run with the SAME window [9,19) answer position 19 differently *)
Theorem window_end_inclusive_refuted : exists v r0 r1 r2,
  vcf_ok_x v = true /\ hist_ok (map unlift [r0; r1; r2]) = true /\ same_but_mode r1 r2 /\ win_valid (x_win (fst r1)) = true /\
  nth 1 (snd (run_history_x v [] [r0; r1; r2])) [] <> nth 2 (snd (run_history_x v [] [r0; r1; r2])) [].
Proof.
  exists w_vcf, (w_run false true None None [QGet w_chr1 19 w_T]),
         (w_run false true (Some 9) (Some 19) [QGet w_chr1 19 w_T]), (w_run true false (Some 9) (Some 19) [QGet w_chr1 19 w_T]).
  split; [vm_compute; reflexivity|]. split; [vm_compute; reflexivity|]. split; [repeat split|]. split; [vm_compute; reflexivity|].
  vm_compute. discriminate.
Qed.

(* (3) a record whose REF starts before region_start and reaches into the window is loaded from the VCF (stored at its own
       position, outside the window) but dropped when the same table is read back from the cache: the run that writes the
       cache and the run that reads it - same settings, same window, same mode flags - answer position 4 differently *)
Theorem window_long_ref_refuted : exists v r1 r2,
  vcf_ok_x v = true /\ hist_ok (map unlift [r1; r2]) = true /\ r1 = r2 /\ win_valid (x_win (fst r1)) = true /\
  nth 0 (snd (run_history_x v [] [r1; r2])) [] <> nth 1 (snd (run_history_x v [] [r1; r2])) [].
Proof.
  exists w_vcf, (w_run false true (Some 6) (Some 20) [QGet w_chr1 4 w_C]), (w_run false true (Some 6) (Some 20) [QGet w_chr1 4 w_C]).
  split; [vm_compute; reflexivity|]. split; [vm_compute; reflexivity|]. split; [reflexivity|]. split; [vm_compute; reflexivity|].
  vm_compute. discriminate.
Qed.

(* (4) the eager load of all contigs (lazyLoad=False, use_cache=False, chrom=None) ignores the window, every other mode
       honours it: same settings, same window, no cache involved - position 29, outside [9,20), is answered differently *)
Theorem window_eager_all_refuted : exists v r1 r2,
  vcf_ok_x v = true /\ hist_ok_x [r1; r2] = true /\ same_but_mode r1 r2 /\ win_valid (x_win (fst r1)) = true /\
  nth 0 (snd (run_history_x v [] [r1; r2])) [] <> nth 1 (snd (run_history_x v [] [r1; r2])) [].
Proof.
  exists w_vcf, (w_run false false (Some 9) (Some 20) [QGet w_chr1 29 w_T]), (w_run true false (Some 9) (Some 20) [QGet w_chr1 29 w_T]).
  split; [vm_compute; reflexivity|]. split; [vm_compute; reflexivity|]. split; [repeat split|]. split; [vm_compute; reflexivity|].
  vm_compute. discriminate.
Qed.

(* ------------------------------------------------------------------ non-vacuity of the positive statements *)
(* one setting, window [5,25): eager on chr1, lazy, cache (writing), cache (reading), lazy+cache - the same five lookups *)
Definition w_qs : list query := [QGet w_chr1 9 w_A; QGet w_chr1 9 w_T; QHas w_chr1 19; QGet w_chr1 19 w_T; QHas w_chr1 12].
Definition w_hist : list (xcfg * list query) :=
  [ ({| x_cf := {| c_phased := true; c_select := None; c_ignore := None; c_lazy := false; c_cache := false; c_chrom := Some w_chr1 |};
        x_win := {| w_start := Some 5; w_end := Some 25 |} |}, w_qs);
    w_run true false (Some 5) (Some 25) w_qs; w_run false true (Some 5) (Some 25) w_qs;
    w_run false true (Some 5) (Some 25) w_qs; w_run true true (Some 5) (Some 25) w_qs ].
Lemma window_example :
  vcf_ok_x w_vcf = true /\ hist_ok_x w_hist = true /\ hist_inside w_hist = true /\
  snd (run_history_x w_vcf [] w_hist)
  = repeat [ASome [w_S1]; ASome [w_S2]; ABool true; ASome [w_S2]; ABool false] 5 /\
  length (fst (run_history_x w_vcf [] w_hist)) = 1%nat.
Proof. vm_compute. repeat split. Qed.

(* outside the window [6,20): position 4 is decided by the 4-base REF record that reaches into the window, position 29
   (beyond region_end) by nothing although the VCF has a variant there; a cache file read back under [9,20] *)
Lemma window_outside_example :
  let w := {| w_start := Some 6; w_end := Some 20 |} in
  option_map r_pos (spec_rec (vwin w_vcf w) (w_cfg true false) w_chr1 4) = Some 5 /\
  spec_answer (vwin w_vcf w) (w_cfg true false) (QGet w_chr1 29 w_T) = ANone /\
  spec_answer w_vcf (w_cfg true false) (QGet w_chr1 29 w_T) = ASome [w_S2] /\
  map fst (getd seqb (read_cached_x {| w_start := Some 9; w_end := Some 20 |}
                        (serialise (getd seqb (contig_table w_vcf (w_cfg true true) w_chr1) w_chr1)) w_chr1 []) w_chr1) = [9; 19].
Proof. vm_compute. repeat split. Qed.
