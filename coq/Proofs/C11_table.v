(* C11 proofs, part 2: what one read adds (assign = declarative contribution), the accumulated table
   (fold = group-by sum over the presented (region, read) pairs), absence of exceptions, keys. *)
From Coq Require Import ZArith List Bool QArith Lia.
Import ListNotations.
From SCMO Require Import Lib.Val Model.C11 Proofs.C11.
Open Scope Z_scope.

(* ------------------------------------------------------------------ lists of (key, amount) up to Qeq *)
Definition eqvK {K} (l1 l2 : list (K * Q)) : Prop :=
  Forall2 (fun a b => fst a = fst b /\ (snd a == snd b)%Q) l1 l2.

Lemma eqvK_refl {K} (l : list (K * Q)) : eqvK l l.
Proof. induction l; constructor; [split; reflexivity|assumption]. Qed.

Lemma eqvK_app {K} (a a' b b' : list (K * Q)) : eqvK a a' -> eqvK b b' -> eqvK (a ++ b) (a' ++ b').
Proof. apply Forall2_app. Qed.

Lemma eqvK_map_same {A K} (f g : A -> K * Q) l :
  (forall x, fst (f x) = fst (g x) /\ (snd (f x) == snd (g x))%Q) -> eqvK (map f l) (map g l).
Proof. intros H. induction l; cbn [map]; constructor; auto. Qed.

Lemma eqvK_flat_map_same {A K} (f g : A -> list (K * Q)) l :
  (forall x, eqvK (f x) (g x)) -> eqvK (flat_map f l) (flat_map g l).
Proof. intros H. induction l; cbn [flat_map]; [constructor|apply eqvK_app; auto]. Qed.

Lemma eqvK_map {K K'} (h : K * Q -> K' * Q) l l' :
  (forall a b, fst a = fst b -> (snd a == snd b)%Q -> fst (h a) = fst (h b) /\ (snd (h a) == snd (h b))%Q) ->
  eqvK l l' -> eqvK (map h l) (map h l').
Proof. intros Hh H. induction H as [|a b l l' [H1 H2] _ IH]; cbn [map]; constructor; auto. Qed.

Lemma eqvK_flat_map {K K'} (h : K * Q -> list (K' * Q)) l l' :
  (forall a b, fst a = fst b -> (snd a == snd b)%Q -> eqvK (h a) (h b)) ->
  eqvK l l' -> eqvK (flat_map h l) (flat_map h l').
Proof. intros Hh H. induction H as [|a b l l' [H1 H2] _ IH]; cbn [flat_map]; [constructor|apply eqvK_app; auto]. Qed.

Lemma sum_matching_cons k c l :
  sum_matching k (c :: l) = ((if ck_eqb k (fst c) then snd c else 0) + sum_matching k l)%Q.
Proof. reflexivity. Qed.

Lemma sum_matching_compat k l l' : eqvK l l' -> (sum_matching k l == sum_matching k l')%Q.
Proof.
  intros H. induction H as [|a b l l' [H1 H2] _ IH]; [reflexivity|].
  rewrite !sum_matching_cons, IH, H1. destruct (ck_eqb k (fst b)); [rewrite H2|]; reflexivity.
Qed.

Lemma sum_matching_app k l1 l2 : (sum_matching k (l1 ++ l2) == sum_matching k l1 + sum_matching k l2)%Q.
Proof.
  induction l1 as [|c l1 IH]; cbn [app]; [unfold sum_matching at 2; cbn [fold_right]; ring|].
  rewrite !sum_matching_cons, IH. ring.
Qed.

(* ------------------------------------------------------------------ one read *)
Definition res_rel {A} (R : A -> A -> Prop) (x y : res A) : Prop :=
  match x, y with Ok a, Ok b => R a b | Raise e, Raise e' => e = e' | _, _ => False end.

Lemma incs_compat o r (w w' : Q) : (w == w')%Q -> res_rel eqvK (incs o w r) (incs o w' r).
Proof.
  intros Hw. unfold incs. destruct (prep o) as [joined ft]. destruct joined.
  - destruct (o_split o).
    + destruct (is_nil (o_delim o)); [reflexivity|].
      destruct (o_byvalue o).
      * destruct (is_nil _); [apply eqvK_refl|reflexivity].
      * cbn [res_rel]. apply eqvK_map_same. intros st. split; [reflexivity|exact Hw].
    + destruct (o_byvalue o); cbn [res_rel].
      * apply eqvK_refl.
      * constructor; [split; [reflexivity|exact Hw]|constructor].
  - destruct (o_split o && is_nil (o_delim o) && negb (forallb (is_byvalue o) (dedup_str ft))); [reflexivity|].
    cbn [res_rel]. apply eqvK_flat_map_same. intros t.
    destruct (is_byvalue o t); [apply eqvK_refl|].
    destruct (o_split o).
    + apply eqvK_map_same. intros f. split; [reflexivity|exact Hw].
    + constructor; [split; [reflexivity|exact Hw]|constructor].
Qed.

Lemma final_keys_compat o reg l l' : eqvK l l' -> eqvK (final_keys o reg l) (final_keys o reg l').
Proof.
  intros H. unfold final_keys. destruct reg as [g|].
  - apply eqvK_flat_map; [|assumption]. intros a b H1 H2. rewrite H1.
    destruct (bed_key o g (fst b)); [|constructor]. constructor; [split; [reflexivity|exact H2]|constructor].
  - apply eqvK_map; [|assumption]. intros a b H1 H2. cbn [fst snd]. rewrite H1. split; [reflexivity|exact H2].
Qed.

(* what assignReads adds is the declarative contribution of the read *)
Lemma assign_spec o reg r l : assign o reg r = Ok l -> eqvK l (spec_contrib o reg r).
Proof.
  unfold assign, spec_contrib. destruct (should_count o r) as [b|e] eqn:Hs; [|discriminate].
  apply should_count_passesb in Hs. rewrite <- Hs. destruct b.
  2:{ intros H. apply Ok_inj in H. subst l. constructor. }
  destruct (weight o r) as [w|e] eqn:Hw; [|discriminate]. apply weight_pure in Hw.
  pose proof (incs_compat o r w (pure_weight o r) Hw) as Hc. unfold pure_incs.
  destruct (incs o w r) as [li|e]; [|discriminate].
  destruct (incs o (pure_weight o r) r) as [li'|e']; [|contradiction]. cbn [res_rel] in Hc.
  intros H. apply Ok_inj in H. subst l.
  apply eqvK_map; [|apply final_keys_compat; exact Hc].
  intros a b H1 H2. cbn [fst snd]. rewrite H1. split; [reflexivity|exact H2].
Qed.

Lemma incs_total o w r : wf_opts o = true -> exists l, incs o w r = Ok l.
Proof.
  unfold wf_opts, incs. destruct (prep o) as [joined ft]. cbn [fst snd].
  rewrite !andb_true_iff, !negb_true_iff. intros [[Hft Hd] Hn].
  destruct joined.
  - destruct (o_split o); cbn [negb orb andb] in *.
    + apply negb_true_iff in Hd. rewrite Hd.
      destruct (o_byvalue o); [discriminate|eauto].
    + destruct (o_byvalue o); eauto.
  - destruct (o_split o); cbn [negb orb andb] in *; [|eauto].
    apply negb_true_iff in Hd. rewrite Hd. cbn [andb]. eauto.
Qed.

Lemma assign_total o reg r : wf_opts o = true -> wf_read r = true -> exists l, assign o reg r = Ok l.
Proof.
  intros Ho Hr. unfold assign. destruct (should_count_total o r Hr) as [b ->].
  destruct b; [|eauto]. destruct (weight_total o r Hr) as [w ->].
  destruct (incs_total o w r Ho) as [l ->]. eauto.
Qed.

(* ------------------------------------------------------------------ the table *)
Lemma cell_cons q c t : cell q (c :: t) = ((if ck_eqb q (fst c) then snd c else 0) + cell q t)%Q.
Proof. reflexivity. Qed.

Lemma cell_add_cell q k w t :
  (cell q (add_cell k w t) == cell q t + (if ck_eqb q k then w else 0))%Q.
Proof.
  induction t as [|[k' w'] t IH]; cbn [add_cell].
  - rewrite cell_cons. cbn [fst snd]. unfold cell. cbn [fold_right]. ring.
  - destruct (ck_eqb k k') eqn:E.
    + apply ck_eqb_eq in E. subst k'. rewrite !cell_cons. cbn [fst snd]. destruct (ck_eqb q k); ring.
    + rewrite !cell_cons, IH. cbn [fst snd]. ring.
Qed.

Lemma cell_add_all q : forall l t, (cell q (add_all l t) == cell q t + sum_matching q l)%Q.
Proof.
  induction l as [|c l IH]; intros t; unfold add_all; cbn [fold_left].
  - unfold sum_matching. cbn [fold_right]. ring.
  - fold (add_all l (add_cell (fst c) (snd c) t)). rewrite IH, cell_add_cell, sum_matching_cons. ring.
Qed.

Definition count_pairs (o : opts) (pairs : list (option (Z * Z * str) * read)) (acc : res tbl) : res tbl :=
  fold_left (fun acc p => step o (fst p) acc (snd p)) pairs acc.

Definition spec_sum (o : opts) (k : cellkey) (pairs : list (option (Z * Z * str) * read)) : Q :=
  fold_right (fun p acc => (sum_matching k (spec_contrib o (fst p) (snd p)) + acc)%Q) 0%Q pairs.

Lemma count_pairs_cons o p pairs acc :
  count_pairs o (p :: pairs) acc = count_pairs o pairs (step o (fst p) acc (snd p)).
Proof. reflexivity. Qed.

Lemma spec_sum_cons o k p pairs :
  spec_sum o k (p :: pairs) = (sum_matching k (spec_contrib o (fst p) (snd p)) + spec_sum o k pairs)%Q.
Proof. reflexivity. Qed.

Lemma count_pairs_raise o e : forall pairs, count_pairs o pairs (Raise e) = Raise e.
Proof. induction pairs as [|p pairs IH]; [reflexivity|]. rewrite count_pairs_cons. exact IH. Qed.

Lemma count_pairs_app o l1 l2 acc : count_pairs o (l1 ++ l2) acc = count_pairs o l2 (count_pairs o l1 acc).
Proof. unfold count_pairs. apply fold_left_app. Qed.

(* the map-fold lemma: the sequential accumulation is the group-by sum *)
Lemma count_pairs_ok o k : forall pairs t t',
  count_pairs o pairs (Ok t) = Ok t' -> (cell k t' == cell k t + spec_sum o k pairs)%Q.
Proof.
  induction pairs as [|p pairs IH]; intros t t' H.
  - cbn in H. apply Ok_inj in H. subst t'. unfold spec_sum. cbn [fold_right]. ring.
  - rewrite count_pairs_cons in H. unfold step in H at 1.
    destruct (assign o (fst p) (snd p)) as [l|e] eqn:Ha.
    2:{ rewrite count_pairs_raise in H. discriminate. }
    apply IH in H. rewrite H, cell_add_all, spec_sum_cons.
    rewrite (sum_matching_compat k _ _ (assign_spec _ _ _ _ Ha)). ring.
Qed.

Lemma count_pairs_total o : wf_opts o = true -> forall pairs t,
  Forall (fun p => wf_read (snd p) = true) pairs -> exists t', count_pairs o pairs (Ok t) = Ok t'.
Proof.
  intros Ho. induction pairs as [|p pairs IH]; intros t Hf.
  - exists t. reflexivity.
  - inversion Hf as [|? ? Hp Hf']; subst. rewrite count_pairs_cons. unfold step.
    destruct (assign_total o (fst p) (snd p) Ho Hp) as [l ->]. apply IH. assumption.
Qed.

Lemma count_reads_pairs o reg reads acc :
  count_reads o reg reads acc = count_pairs o (map (pair reg) reads) acc.
Proof.
  unfold count_reads, count_pairs. revert acc.
  induction reads as [|r reads IH]; intros acc; [reflexivity|]. cbn [map fold_left fst snd]. apply IH.
Qed.

Lemma bed_fold o reads : forall regions acc,
  fold_left (fun acc (row : str * Z * Z * str) =>
               let '(c, s, e, n) := row in
               if region_selected o c then count_reads o (Some (s, e, n)) (filter (overlaps c s e) reads) acc
               else acc) regions acc
  = count_pairs o (flat_map (fun row : str * Z * Z * str =>
                               let '(c, s, e, n) := row in
                               if region_selected o c then map (pair (Some (s, e, n))) (filter (overlaps c s e) reads)
                               else []) regions) acc.
Proof.
  induction regions as [|[[[c s] e] n] regions IH]; intros acc; [reflexivity|].
  cbn [fold_left flat_map]. rewrite count_pairs_app, IH. f_equal.
  destruct (region_selected o c); [apply count_reads_pairs|reflexivity].
Qed.

Lemma count_table_pairs o reads :
  count_table o reads = if is_nil (snd (prep o)) then Raise 2 else count_pairs o (presented o reads) (Ok []).
Proof.
  unfold count_table, presented. destruct (is_nil (snd (prep o))); [reflexivity|].
  destruct (o_bed o) as [regions|].
  - apply bed_fold.
  - apply count_reads_pairs.
Qed.

Lemma spec_cell_sum o k reads : spec_cell o k reads = spec_sum o k (presented o reads).
Proof. reflexivity. Qed.

Lemma cell_nil k : cell k [] = 0%Q.
Proof. reflexivity. Qed.

(* C11_table_eq_spec *)
Lemma count_table_spec o reads t :
  count_table o reads = Ok t -> forall k, (cell k t == spec_cell o k reads)%Q.
Proof.
  rewrite count_table_pairs. destruct (is_nil (snd (prep o))); [discriminate|].
  intros H k. apply (count_pairs_ok o k) in H. rewrite H, cell_nil, spec_cell_sum. ring.
Qed.

Lemma presented_subset o reads p : In p (presented o reads) -> In (snd p) reads.
Proof.
  unfold presented. destruct (o_bed o) as [regions|].
  - rewrite in_flat_map. intros ([[[c s] e] n] & _ & Hin).
    destruct (region_selected o c); [|destruct Hin].
    apply in_map_iff in Hin. destruct Hin as (r & <- & Hr). apply filter_In in Hr. exact (proj1 Hr).
  - rewrite in_map_iff. intros (r & <- & Hr). cbn [snd].
    destruct (o_contig o); [apply filter_In in Hr; exact (proj1 Hr)|exact Hr].
Qed.

(* C11_no_raise *)
Lemma count_table_total o reads : pre o reads = true -> exists t, count_table o reads = Ok t.
Proof.
  unfold pre. rewrite andb_true_iff. intros [Ho Hr]. rewrite count_table_pairs.
  assert (Hn : is_nil (snd (prep o)) = false).
  { unfold wf_opts in Ho. rewrite !andb_true_iff in Ho. destruct Ho as [[Ho _] _].
    apply negb_true_iff in Ho. exact Ho. }
  rewrite Hn. apply count_pairs_total; [assumption|].
  apply Forall_forall. intros p Hp. apply presented_subset in Hp.
  rewrite forallb_forall in Hr. apply Hr. assumption.
Qed.

(* a read contributes (to some cell, under some region) exactly when it passes the filters: the contribution list of
   a read that does not pass is empty, and a passing read always yields at least one increment outside BED mode *)
Lemma contrib_nonpassing o reg r : ~ passes o r -> spec_contrib o reg r = [].
Proof.
  intros H. unfold spec_contrib. destruct (passesb o r) eqn:E; [|reflexivity].
  exfalso. apply H. apply passesb_iff. assumption.
Qed.

Lemma product_nonempty : forall ls, Forall (fun l => l <> []) ls -> product ls <> [].
Proof.
  induction ls as [|l ls IH]; intros H; cbn [product]; [discriminate|].
  inversion H as [|? ? Hl Hls]; subst. destruct l as [|x l]; [contradiction|]. cbn [flat_map].
  specialize (IH Hls). destruct (product ls); [contradiction|]. cbn [map app]. discriminate.
Qed.

Lemma split_aux_nonempty sep : forall s skip cur, split_aux sep s skip cur <> [].
Proof.
  induction s as [|c s IH]; intros skip cur; cbn [split_aux]; [discriminate|].
  destruct skip; [|apply IH]. destruct (is_prefix sep (c :: s)); [discriminate|apply IH].
Qed.

Lemma split_nonempty sep s : split sep s <> [].
Proof. apply split_aux_nonempty. Qed.

Lemma dedup_str_nonempty l : l <> [] -> dedup_str l <> [].
Proof. destruct l; [contradiction|]. cbn [dedup_str]. discriminate. Qed.

Lemma incs_nonempty o w r l : is_nil (snd (prep o)) = false -> incs o w r = Ok l -> l <> [].
Proof.
  unfold incs. destruct (prep o) as [joined ft]. cbn [snd]. intros Hft. destruct joined.
  - destruct (o_split o).
    + destruct (is_nil (o_delim o)); [discriminate|].
      assert (Hp : product (map (fun t => split (o_delim o) (feat r t)) ft) <> []).
      { apply product_nonempty. apply Forall_forall. intros x Hx. apply in_map_iff in Hx.
        destruct Hx as (t & <- & _). apply split_nonempty. }
      destruct (product _) as [|st states]; [contradiction|].
      destruct (o_byvalue o); cbn [is_nil]; [discriminate|].
      intros H. apply Ok_inj in H. subst l. cbn [map]. discriminate.
    + destruct (o_byvalue o); intros H; apply Ok_inj in H; subst l; discriminate.
  - destruct (_ && _ && _); [discriminate|]. intros H. apply Ok_inj in H. subst l.
    destruct ft as [|t ft]; [discriminate|]. cbn [dedup_str flat_map].
    destruct (is_byvalue o t); [discriminate|]. destruct (o_split o); [|discriminate].
    pose proof (split_nonempty (o_delim o) (feat r t)) as Hs.
    destruct (split (o_delim o) (feat r t)); [contradiction|]. cbn [map app]. discriminate.
Qed.

Lemma assign_contributes_iff o r l :
  is_nil (snd (prep o)) = false -> assign o None r = Ok l -> (l <> [] <-> passes o r).
Proof.
  intros Hft. unfold assign. destruct (should_count o r) as [b|e] eqn:Hs; [|discriminate].
  apply should_count_iff in Hs. destruct b.
  - destruct (weight o r) as [w|e]; [|discriminate]. destruct (incs o w r) as [li|e] eqn:Hi; [|discriminate].
    intros H. apply Ok_inj in H. subst l. split; [intros _; apply Hs; reflexivity|intros _].
    apply (incs_nonempty o w r li Hft) in Hi. unfold final_keys. destruct li; [contradiction|]. cbn [map]. discriminate.
  - intros H. apply Ok_inj in H. subst l. split; [intros H; contradiction|].
    intros Hp. apply Hs in Hp. discriminate.
Qed.

(* ------------------------------------------------------------------ keys *)
Lemma assign_sample o reg r l ck w :
  assign o reg r = Ok l -> In (ck, w) l -> fst ck = sample_of o r.
Proof.
  unfold assign. destruct (should_count o r) as [[|]|]; try discriminate.
  - destruct (weight o r); [|discriminate]. destruct (incs o a r); [|discriminate].
    intros H. apply Ok_inj in H. subst l. rewrite in_map_iff. intros (p & Hp & _). inversion Hp. reflexivity.
  - intros H. apply Ok_inj in H. subst l. intros [].
Qed.

Lemma filter_all {A} (f : A -> bool) l : (forall x, f x = true) -> filter f l = l.
Proof. intros H. induction l as [|x l IH]; [reflexivity|]. cbn [filter]. rewrite H, IH. reflexivity. Qed.

(* joined feature tags, no split, no by-value: exactly one increment, keyed by the read's own values of the tags *)
Lemma assign_joined o r jt l :
  o_jtags o = Some jt -> o_split o = false -> o_byvalue o = None -> assign o None r = Ok l ->
  (l = [] /\ ~ passes o r) \/
  (passes o r /\ exists w, weight o r = Ok w /\ l = [((map (meta r) (o_stags o), map (fun t => KS (feat r t)) jt), w)]).
Proof.
  intros Hj Hs Hb. unfold assign. destruct (should_count o r) as [b|e] eqn:Hc; [|discriminate].
  apply should_count_iff in Hc. destruct b.
  - destruct (weight o r) as [w|e]; [|discriminate]. unfold incs, prep. rewrite Hj, Hb, Hs.
    intros H. apply Ok_inj in H. subst l. right. split; [apply Hc; reflexivity|]. exists w. split; [reflexivity|].
    cbn [final_keys map fst snd plain_key]. unfold joined_feature, is_byvalue. rewrite Hb.
    rewrite filter_all by reflexivity. rewrite map_map. reflexivity.
  - intros H. apply Ok_inj in H. subst l. left. split; [reflexivity|]. intros Hp. apply Hc in Hp. discriminate.
Qed.

Lemma mem_app_self b l : mem b (l ++ [b]) = true.
Proof. unfold mem. rewrite existsb_app. cbn [existsb]. rewrite str_eqb_refl, orb_true_r. reflexivity. Qed.

(* by-value counting: the amount is the numeric value of the read's own tag, whatever the weight *)
Lemma assign_by_value o r jt b l :
  o_jtags o = Some jt -> jt <> [] -> o_split o = false -> o_byvalue o = Some b -> assign o None r = Ok l ->
  passes o r ->
  l = [((map (meta r) (o_stags o), map KS (joined_feature o (snd (prep o)) r)), num_of (meta r b))].
Proof.
  intros Hj Hne Hs Hb. unfold assign. destruct (should_count o r) as [v|e] eqn:Hc; [|discriminate].
  apply should_count_iff in Hc. intros H Hp. apply Hc in Hp. subst v.
  destruct (weight o r) as [w|e]; [|discriminate]. revert H. unfold incs.
  destruct (prep o) as [joined ft] eqn:Hprep. unfold prep in Hprep. rewrite Hj, Hb in Hprep.
  inversion Hprep as [[Hjn Hft]]. rewrite Hs, Hb. intros H. apply Ok_inj in H. subst l.
  assert (Hm : mem b ft = true).
  { rewrite <- Hft. destruct jt as [|t jt']; [contradiction|]. cbn [is_nil negb andb].
    destruct (mem b (t :: jt')) eqn:Em; cbn [negb]; [exact Em|apply mem_app_self]. }
  cbn [snd]. rewrite !Hft. unfold byvalue_amount. rewrite Hm. reflexivity.
Qed.

(* pair of mates, same cell: 1 in total *)
Lemma pair_cell_one o r1 r2 jt t :
  o_jtags o = Some jt -> jt <> [] -> o_split o = false -> o_byvalue o = None -> o_bed o = None -> o_contig o = None ->
  o_r1only o = false -> o_r2only o = false -> o_no_divide o = false -> o_div_multi o = false ->
  paired r1 = true -> paired r2 = true -> mate_unmapped r1 = false -> mate_unmapped r2 = false ->
  passes o r1 -> passes o r2 ->
  sample_of o r1 = sample_of o r2 -> map (feat r1) jt = map (feat r2) jt ->
  count_table o [r1; r2] = Ok t ->
  (cell (sample_of o r1, map KS (map (feat r1) jt)) t == 1)%Q.
Proof.
  intros Hj Hne Hs Hb Hbed Hc O1 O2 O3 O4 P1 P2 M1 M2 Q1 Q2 Hsm Hft H.
  apply (count_table_spec o [r1; r2] t) with (k := (sample_of o r1, map KS (map (feat r1) jt))) in H.
  rewrite H. unfold spec_cell, presented. rewrite Hbed, Hc. cbn [map fold_right fst snd].
  unfold spec_contrib. apply passesb_iff in Q1, Q2. rewrite Q1, Q2.
  unfold pure_incs, incs, prep. rewrite Hj, Hb, Hs. cbn [final_keys map fst snd plain_key].
  unfold joined_feature, is_byvalue. rewrite Hb. rewrite !filter_all by reflexivity.
  rewrite <- Hsm, <- Hft. rewrite !sum_matching_cons. cbn [fst snd]. rewrite ck_eqb_refl.
  unfold sum_matching. cbn [fold_right]. unfold pure_weight, hits, base_weight.
  rewrite O1, O2, O3, O4, P1, P2, M1, M2. cbn. reflexivity.
Qed.
