(* C16 proofs, part y: the extended machine (nearest lookups, findFeaturesBetweenBRK, loaders) refines the specification
   for every operation history. *)
From Coq Require Import ZArith List Bool Lia Permutation Sorted.
Import ListNotations.
From SCMO Require Import Gen.GenFeatures Model.C16 Model.C16x Proofs.C16_a Proofs.C16_b Proofs.C16_c Proofs.C16_x.
Open Scope Z_scope.

(* ------------------------------------------------------------------ what sort() leaves behind, structurally *)
Definition fullrec (r : crec) : Prop := StronglySorted fle (c_feats r) /\ c_ends r = sort_Z (map f_end (c_feats r)).
Definition G (st : state) : Prop := st_sorted st = true -> forall c r, In (c, r) (st_contigs st) -> fullrec r.
Definition GK (K : list Z) (st : state) : Prop := G st /\ keys (st_contigs st) = K.

Lemma sort_one_full c r m r' m' : sort_one c r m = (inl r', m') -> fullrec r'.
Proof.
  unfold sort_one. destruct (has_incomparable (c_feats r)); [discriminate|].
  destruct (existsb _ _); [discriminate|].
  destruct (lowest_starts _ _ _ _) as [[lows|] m1]; [|discriminate].
  intros E. inversion E; subst. split; cbn [c_feats c_ends]; [apply sort_ssorted | reflexivity].
Qed.

Lemma sort_contigs_full l : forall m l' m', sort_contigs l m = (inl l', m') ->
  keys l' = keys l /\ forall c r, In (c, r) l' -> fullrec r.
Proof.
  induction l as [|[c r] t IH]; intros m l' m'; cbn [sort_contigs].
  - intros E. inversion E. split; [reflexivity | intros ? ? []].
  - destruct (sort_one c r m) as [[r1|e] m1] eqn:E1; [|discriminate].
    destruct (sort_contigs t m1) as [[t'|e] m2] eqn:E2; [|discriminate].
    intros E. inversion E; subst. destruct (IH _ _ _ E2) as [Hk Hf]. split.
    + unfold keys in *. cbn. f_equal. exact Hk.
    + intros c0 r0 [H|H]; [inversion H; subst; eapply sort_one_full; exact E1 | eapply Hf; exact H].
Qed.

Lemma do_sort_full g st st' : do_sort g st = (st', None) ->
  st_sorted st' = true /\ keys (st_contigs st') = keys (st_contigs st) /\ (forall c r, In (c, r) (st_contigs st') -> fullrec r).
Proof.
  unfold do_sort. destruct (sort_contigs _ _) as [[cs|e] m] eqn:E; intros H; cbn in H; [|discriminate].
  inversion H; subst; cbn. destruct (sort_contigs_full _ _ _ _ E) as [Hk Hf]. auto.
Qed.

Lemma ensure_full g st st' K : ensure_sorted g st = (st', None) -> GK K st -> GK K st' /\ st_sorted st' = true.
Proof.
  unfold ensure_sorted. destruct (st_sorted st) eqn:Es; intros E [HG HK].
  - injection E as E. subst st'. split; [split; [exact HG | exact HK] | exact Es].
  - destruct (do_sort_full g st st' E) as [H1 [H2 H3]]. split; [split|exact H1].
    + intros _. exact H3.
    + rewrite H2. exact HK.
Qed.

Lemma GK_memo K st m : GK K st -> GK K (mkS (st_contigs st) (st_sorted st) m).
Proof. intros [HG HK]. split; [exact HG | exact HK]. Qed.

Lemma at_cached_full g st k st' l K : at_cached g st k = (st', ROk l) -> GK K st -> GK K st'.
Proof.
  unfold at_cached. rewrite autosort_at_shape. destruct (memo_find k (st_memo st)).
  - intros E HG. inversion E; subst. apply GK_memo. exact HG.
  - destruct (ensure_sorted g st) as [st1 [e|]] eqn:E1; [discriminate|].
    intros E HG. inversion E; subst. destruct (ensure_full g st st1 K E1 HG) as [HG1 _]. apply GK_memo. exact HG1.
Qed.

Lemma between_full g st c a b q st' l K : between g st c a b q = (st', ROk l) -> GK K st -> GK K st'.
Proof.
  unfold between. intros E HG.
  destruct (if fix_autosort g then ensure_sorted g st else (st, None)) as [st1 [e|]] eqn:E0; [discriminate|].
  assert (HG1 : GK K st1).
  { destruct (fix_autosort g); [exact (proj1 (ensure_full _ _ _ _ E0 HG)) | inversion E0; subst; exact HG]. }
  destruct (find_contig c (st_contigs st1)) as [r|]; [|inversion E; subst; exact HG1].
  destruct (negb (c_indexed r)); [inversion E; subst; exact HG1|].
  destruct (at_cached g st1 (c, a, q, 0)) as [st2 [l1|e]] eqn:E2; [|discriminate].
  destruct (at_cached g st2 (c, b, q, 0)) as [st3 [l2|e]] eqn:E3; [|discriminate].
  inversion E; subst. eapply at_cached_full; [exact E3|]. eapply at_cached_full; [exact E2 | exact HG1].
Qed.

Lemma fold_q_pres {A} (f : state -> A -> state * res) (P : state -> Prop) :
  (forall st x st' l, f st x = (st', ROk l) -> P st -> P st') ->
  forall xs st acc st' l, fold_q f st xs acc = (st', ROk l) -> P st -> P st'.
Proof.
  intros Hf. induction xs as [|x t IH]; intros st acc st' l; cbn [fold_q].
  - intros E HP. inversion E; subst; exact HP.
  - destruct (f st x) as [st1 [l1|e]] eqn:E1; [|intros E; discriminate E]. intros E HP. eapply IH; [exact E | eapply Hf; eassumption].
Qed.

Lemma blocks_full g st c bl q meth st' l K : blocks g st c bl q meth = (st', ROk l) -> GK K st -> GK K st'.
Proof.
  unfold blocks. intros E HG.
  destruct (if fix_autosort g then ensure_sorted g st else (st, None)) as [st1 [e|]] eqn:E0; [discriminate|].
  assert (HG1 : GK K st1).
  { destruct (fix_autosort g); [exact (proj1 (ensure_full _ _ _ _ E0 HG)) | inversion E0; subst; exact HG]. }
  destruct (find_contig c (st_contigs st1)) as [r|]; [|inversion E; subst; exact HG1].
  destruct (negb (c_indexed r)); [inversion E; subst; exact HG1|].
  destruct (meth =? 0).
  - destruct (fold_q _ st1 (block_positions bl) []) as [st2 [l2|e]] eqn:E2; [|discriminate].
    inversion E; subst. eapply (fold_q_pres _ (GK K)); [|exact E2 | exact HG1].
    intros s x s' l' Es Hs. cbn beta in Es. eapply at_cached_full; [exact Es | exact Hs].
  - destruct (fold_q _ st1 bl []) as [st2 [l2|e]] eqn:E2; [|discriminate].
    inversion E; subst. eapply (fold_q_pres _ (GK K)); [|exact E2 | exact HG1].
    intros s x s' l' Es Hs. cbn beta in Es. eapply between_full; [exact Es | exact Hs].
Qed.

Lemma step_full g st o st' l K : step g st o = (st', ROk l) -> (forall c f, o <> Add c f) -> GK K st -> GK K st'.
Proof.
  destruct o as [c f| |c x q o|c a b q|c bl q meth]; cbn [step]; intros E Hna HG.
  - exfalso. eapply Hna. reflexivity.
  - destruct (do_sort g st) as [st1 [e|]] eqn:E1; [discriminate|]. inversion E; subst.
    destruct (do_sort_full _ _ _ E1) as [H1 [H2 H3]]. destruct HG as [HG HK]. split; [intros _; exact H3 | rewrite H2; exact HK].
  - eapply at_cached_full; eassumption.
  - eapply between_full; eassumption.
  - eapply blocks_full; eassumption.
Qed.

Lemma keys_add_contig c f cs :
  keys (add_contig c f cs) = if existsb (Z.eqb c) (keys cs) then keys cs else keys cs ++ [c].
Proof.
  unfold keys. induction cs as [|[c' r] t IH]; cbn [add_contig map existsb fst]; [reflexivity|].
  destruct (c =? c') eqn:E; cbn [map fst orb]; [reflexivity|]. rewrite IH.
  destruct (existsb (Z.eqb c) (map fst t)); reflexivity.
Qed.

Lemma contig_keys_app all : forall ext acc, contig_keys (all ++ ext) acc = contig_keys ext (contig_keys all acc).
Proof. induction all as [|[c f] t IH]; intros ext acc; cbn [app contig_keys]; [reflexivity | apply IH]. Qed.

(* sortedness is never lost by a lookup *)
Lemma at_cached_sorted g st k st' r : at_cached g st k = (st', r) -> st_sorted st = true -> st_sorted st' = true.
Proof.
  unfold at_cached. rewrite autosort_at_shape. intros E Hs. destruct (memo_find k (st_memo st)).
  - inversion E; subst. exact Hs.
  - unfold ensure_sorted in E. rewrite Hs in E. inversion E; subst. exact Hs.
Qed.

Lemma between_sorted g st c a b q st' l : fix_autosort g = true ->
  between g st c a b q = (st', ROk l) -> st_sorted st' = true.
Proof.
  unfold between. intros Hf E. rewrite Hf in E.
  destruct (ensure_sorted g st) as [st1 [e|]] eqn:E0; [discriminate|].
  assert (Hs1 : st_sorted st1 = true).
  { unfold ensure_sorted in E0. destruct (st_sorted st) eqn:Es; [inversion E0; subst; exact Es|].
    exact (proj1 (do_sort_full _ _ _ E0)). }
  destruct (find_contig c (st_contigs st1)) as [r|]; [|inversion E; subst; exact Hs1].
  destruct (negb (c_indexed r)); [inversion E; subst; exact Hs1|].
  destruct (at_cached g st1 (c, a, q, 0)) as [st2 [l1|e]] eqn:E2; [|discriminate].
  destruct (at_cached g st2 (c, b, q, 0)) as [st3 [l2|e]] eqn:E3; [|discriminate].
  inversion E; subst. eapply at_cached_sorted; [exact E3|]. eapply at_cached_sorted; [exact E2 | exact Hs1].
Qed.

Lemma blocks_sorted g st c bl q meth st' l : fix_autosort g = true ->
  blocks g st c bl q meth = (st', ROk l) -> st_sorted st' = true.
Proof.
  unfold blocks. intros Hf E. rewrite Hf in E.
  destruct (ensure_sorted g st) as [st1 [e|]] eqn:E0; [discriminate|].
  assert (Hs1 : st_sorted st1 = true).
  { unfold ensure_sorted in E0. destruct (st_sorted st) eqn:Es; [inversion E0; subst; exact Es|].
    exact (proj1 (do_sort_full _ _ _ E0)). }
  destruct (find_contig c (st_contigs st1)) as [r|]; [|inversion E; subst; exact Hs1].
  destruct (negb (c_indexed r)); [inversion E; subst; exact Hs1|].
  destruct (meth =? 0).
  - destruct (fold_q _ st1 (block_positions bl) []) as [st2 [l2|e]] eqn:E2; [|discriminate].
    inversion E; subst. eapply (fold_q_pres _ (fun s => st_sorted s = true)); [|exact E2 | exact Hs1].
    intros s x s' l' Es Hs. cbn beta in Es. eapply at_cached_sorted; [exact Es | exact Hs].
  - destruct (fold_q _ st1 bl []) as [st2 [l2|e]] eqn:E2; [|discriminate].
    inversion E; subst. eapply (fold_q_pres _ (fun s => st_sorted s = true)); [|exact E2 | exact Hs1].
    intros s x s' l' Es Hs. cbn beta in Es. eapply between_sorted; [exact Hf | exact Es].
Qed.

(* ------------------------------------------------------------------ the canonical index *)
Lemma canon st all c r : Inv st all -> G st -> st_sorted st = true -> find_contig c (st_contigs st) = Some r ->
  c_feats r = sort_feats (feats_of c all) /\ c_starts r = map f_start (c_feats r) /\
  c_ends r = sort_Z (map f_end (c_feats r)) /\ wb r.
Proof.
  intros Hinv HG Hs Ef. pose proof (find_contig_In _ _ _ Ef) as Hin. destruct (HG Hs c r Hin) as [Hss He].
  destruct (inv_sorted _ _ Hinv Hs) as [Hwb _]. pose proof (Hwb c r Hin) as Hr.
  pose proof (inv_rel _ _ Hinv c) as Hrel. unfold cfeats in Hrel. rewrite Ef in Hrel.
  split; [|split; [apply (wb_starts r Hr) | split; [exact He | exact Hr]]].
  apply sorted_perm_eq; [exact Hss | apply sort_ssorted | rewrite sort_perm; exact Hrel].
Qed.

Lemma none_empty st all c : Inv st all -> find_contig c (st_contigs st) = None -> feats_of c all = [].
Proof.
  intros Hinv Ef. pose proof (inv_rel _ _ Hinv c) as Hrel. unfold cfeats in Hrel. rewrite Ef in Hrel.
  apply Permutation_nil in Hrel. exact Hrel.
Qed.

Lemma near_left_canon n r fs x q : c_feats r = sort_feats fs -> c_ends r = sort_Z (map f_end (c_feats r)) ->
  near_left_rec n r x q = near_left_rec n (fresh_rec fs) x q.
Proof. intros H1 H2. unfold near_left_rec, fresh_rec, pre_rec. cbn [c_feats c_ends]. rewrite H2, H1. reflexivity. Qed.

Lemma near_right_canon r fs x q : c_feats r = sort_feats fs -> c_starts r = map f_start (c_feats r) ->
  near_right_rec r x q = near_right_rec (fresh_rec fs) x q.
Proof. intros H1 H2. unfold near_right_rec, fresh_rec, pre_rec. cbn [c_feats c_starts]. rewrite H2, H1. reflexivity. Qed.

Lemma find_contig_keys c cs :
  existsb (Z.eqb c) (keys cs) = match find_contig c cs with Some _ => true | None => false end.
Proof.
  unfold keys. induction cs as [|[c' r] t IH]; cbn [map existsb find_contig fst]; [reflexivity|].
  destruct (c =? c'); cbn [orb]; [reflexivity | exact IH].
Qed.

Lemma known_acc all c : forall acc,
  existsb (Z.eqb c) (contig_keys all acc) = existsb (Z.eqb c) acc || has_feats all c.
Proof.
  unfold has_feats. induction all as [|[c' f] t IH]; intros acc; cbn [contig_keys existsb fst]; [rewrite orb_false_r; reflexivity|].
  rewrite IH. destruct (existsb (Z.eqb c') acc) eqn:E.
  - destruct (c' =? c) eqn:Ec; [|reflexivity]. apply Z.eqb_eq in Ec. subst c'. rewrite E. reflexivity.
  - rewrite existsb_app. cbn [existsb]. rewrite orb_false_r, (Z.eqb_sym c c'). rewrite orb_assoc. reflexivity.
Qed.

Lemma has_feats_nil all c : has_feats all c = false -> feats_of c all = [].
Proof.
  unfold has_feats, feats_of. induction all as [|p t IH]; cbn [existsb filter map]; [reflexivity|].
  intros H. apply orb_false_iff in H. destruct H as [H1 H2]. rewrite H1. apply IH. exact H2.
Qed.

Lemma unknown_empty all c : known all c = false -> feats_of c all = [].
Proof. unfold known. rewrite known_acc. cbn [existsb orb]. apply has_feats_nil. Qed.

Definition nr_fresh (all : list (Z * feat)) (c x q : Z) : list feat :=
  if known all c then near_right_rec (fresh_rec (feats_of c all)) x q else [].

Lemma nr_fresh_spec all c x q : all_wf all -> nr_fresh all c x q = spec_near_right all c x q.
Proof.
  intros [Hwf _]. unfold nr_fresh, spec_near_right. destruct (known all c) eqn:Ek.
  - rewrite near_right_rec_exact.
    + unfold fresh_rec, pre_rec. cbn [c_feats]. reflexivity.
    + unfold fresh_rec, pre_rec. cbn [c_feats]. apply sort_sorted.
    + unfold fresh_rec, pre_rec. reflexivity.
    + unfold fresh_rec, pre_rec. cbn [c_feats]. intros f Hf. apply sort_In, feats_of_In in Hf.
      destruct (Hwf _ Hf) as [H _]. exact H.
  - rewrite (unknown_empty all c Ek). reflexivity.
Qed.

(* ------------------------------------------------------------------ the nearest lookups of the machine *)
Definition KA (all : list (Z * feat)) : list Z := contig_keys all [].

Lemma known_find st all c : GK (KA all) st ->
  known all c = match find_contig c (st_contigs st) with Some _ => true | None => false end.
Proof. intros [_ HK]. unfold known. fold (KA all). rewrite <- HK. apply find_contig_keys. Qed.

Lemma find_same_keys c cs cs' r : keys cs' = keys cs -> find_contig c cs = Some r -> exists r', find_contig c cs' = Some r'.
Proof.
  intros Hk Ef. pose proof (find_contig_keys c cs) as H1. pose proof (find_contig_keys c cs') as H2.
  rewrite Hk, H1, Ef in H2. destruct (find_contig c cs') as [r'|]; [exists r'; reflexivity | discriminate].
Qed.

Lemma nlen st all : GK (KA all) st -> length (st_contigs st) = length (contig_keys all []).
Proof. intros [_ HK]. fold (KA all). rewrite <- HK. unfold keys. rewrite map_length. reflexivity. Qed.

Lemma near_left_ok st all c x q : Inv st all -> all_wf all -> GK (KA all) st ->
  exists st', near_left cfg_ref st c x q = (st', ROk (spec_near_left all c x q)) /\ Inv st' all /\ GK (KA all) st' /\
              (st_sorted st = true -> st' = st) /\ (known all c = true -> st_sorted st' = true) /\
              (st_sorted st' = false -> st' = st).
Proof.
  intros Hinv Hwf HG. unfold near_left, spec_near_left. rewrite (known_find st all c HG).
  destruct (find_contig c (st_contigs st)) as [r0|] eqn:Ef.
  - destruct (ensure_sorted_ok st all Hinv Hwf) as [st1 [E [Hi1 [Hs1 Hsame]]]]. rewrite E.
    destruct (ensure_full _ _ _ _ E HG) as [HG1 _].
    destruct (find_same_keys c (st_contigs st) (st_contigs st1) r0) as [r Ef1]; [rewrite (proj2 HG1), (proj2 HG); reflexivity | exact Ef|].
    rewrite Ef1. destruct (canon st1 all c r Hi1 (proj1 HG1) Hs1 Ef1) as [C1 [C2 [C3 _]]].
    rewrite (near_left_canon _ r (feats_of c all) x q C1 C3), (nlen st1 all HG1).
    exists st1. split; [reflexivity|]. split; [exact Hi1|]. split; [exact HG1|]. split; [exact Hsame|].
    split; [intros _; exact Hs1 | intros H; congruence].
  - exists st. split; [reflexivity|]. split; [exact Hinv|]. split; [exact HG|]. split; [reflexivity|].
    split; [discriminate | reflexivity].
Qed.

Lemma near_right_ok st all c x q : Inv st all -> all_wf all -> GK (KA all) st ->
  exists st', near_right cfg_ref st c x q = (st', ROk (nr_fresh all c x q)) /\ Inv st' all /\ GK (KA all) st' /\
              (st_sorted st = true -> st' = st) /\ (known all c = true -> st_sorted st' = true) /\
              (st_sorted st' = false -> st' = st).
Proof.
  intros Hinv Hwf HG. unfold near_right, nr_fresh. rewrite (known_find st all c HG).
  destruct (find_contig c (st_contigs st)) as [r0|] eqn:Ef.
  - destruct (ensure_sorted_ok st all Hinv Hwf) as [st1 [E [Hi1 [Hs1 Hsame]]]]. rewrite E.
    destruct (ensure_full _ _ _ _ E HG) as [HG1 _].
    destruct (find_same_keys c (st_contigs st) (st_contigs st1) r0) as [r Ef1]; [rewrite (proj2 HG1), (proj2 HG); reflexivity | exact Ef|].
    rewrite Ef1. destruct (canon st1 all c r Hi1 (proj1 HG1) Hs1 Ef1) as [C1 [C2 [C3 _]]].
    rewrite (near_right_canon r (feats_of c all) x q C1 C2).
    exists st1. split; [reflexivity|]. split; [exact Hi1|]. split; [exact HG1|]. split; [exact Hsame|].
    split; [intros _; exact Hs1 | intros H; congruence].
  - exists st. split; [reflexivity|]. split; [exact Hinv|]. split; [exact HG|]. split; [reflexivity|].
    split; [discriminate | reflexivity].
Qed.

(* the default point lookup on the canonical index *)
Lemma answer_canon st all c x : Inv st all -> G st -> st_sorted st = true ->
  answer (st_contigs st) (c, x, 0, 0) = filter (hit0 x) (sort_feats (feats_of c all)).
Proof.
  intros Hinv HG Hs. unfold answer. destruct (find_contig c (st_contigs st)) as [r|] eqn:Ef.
  - destruct (canon st all c r Hinv HG Hs Ef) as [C1 [_ [_ Hr]]]. rewrite (wb_idx r Hr), (at_exact_fast r x 0 Hr), C1. reflexivity.
  - rewrite (none_empty st all c Hinv Ef). reflexivity.
Qed.

Lemma near_body_ok st all c x q : Inv st all -> all_wf all -> GK (KA all) st ->
  exists st', near_body cfg_ref st c x q = (st', ROk (spec_near all c x q)) /\ Inv st' all /\ GK (KA all) st' /\
              st_sorted st' = true.
Proof.
  intros Hinv Hwf HG. unfold near_body, spec_near.
  destruct (at_cached_ok st all (c, x, 0, 0) Hinv Hwf) as [st1 [E [Hi1 [Hs1 _]]]]. rewrite E.
  pose proof (at_cached_full _ _ _ _ _ _ E HG) as HG1.
  rewrite (answer_canon st1 all c x Hi1 (proj1 HG1) Hs1).
  destruct (filter (hit0 x) (sort_feats (feats_of c all))) as [|f s].
  - destruct (near_right_ok st1 all c x q Hi1 Hwf HG1) as [st2 [E2 [Hi2 [HG2 [Hsame2 _]]]]]. rewrite E2.
    specialize (Hsame2 Hs1). subst st2.
    destruct (near_left_ok st1 all c x q Hi1 Hwf HG1) as [st3 [E3 [Hi3 [HG3 [Hsame3 _]]]]]. rewrite E3.
    specialize (Hsame3 Hs1). subst st3.
    exists st1. split; [|auto]. f_equal. f_equal. unfold nr_fresh, spec_near_left. destruct (known all c); reflexivity.
  - exists st1. auto.
Qed.

Lemma brk_ok b st all c lo hi q : Inv st all -> all_wf all -> GK (KA all) st -> (b = true \/ st_sorted st = true) ->
  exists st' l, brk (mkXC cfg_ref b true) st c lo hi q = (st', ROk l) /\ Inv st' all /\ GK (KA all) st' /\ st_sorted st' = true /\
                NoDup l /\ (forall f, In f l <-> In f (spec_brk all c lo hi q)).
Proof.
  intros Hinv Hwf HG Hb. unfold brk. cbn [x_cfg xf_brk].
  assert (H0 : exists st0, (if b then ensure_sorted cfg_ref st else (st, None)) = (st0, None) /\ Inv st0 all /\ GK (KA all) st0 /\ st_sorted st0 = true).
  { destruct b.
    - destruct (ensure_sorted_ok st all Hinv Hwf) as [st1 [E [Hi1 [Hs1 _]]]]. exists st1. split; [exact E|].
      split; [exact Hi1|]. split; [exact (proj1 (ensure_full _ _ _ _ E HG)) | exact Hs1].
    - destruct Hb as [Hb|Hb]; [discriminate|]. exists st. auto. }
  destruct H0 as [st0 [E0 [Hi0 [HG0 Hs0]]]]. rewrite E0.
  assert (Hspec_nil : feats_of c all = [] -> forall f, In f [] <-> In f (spec_brk all c lo hi q)).
  { intros Hn f. unfold spec_brk. rewrite Hn. cbn. tauto. }
  destruct (find_contig c (st_contigs st0)) as [r|] eqn:Ef.
  2:{ exists st0, []. split; [reflexivity|]. split; [exact Hi0|]. split; [exact HG0|]. split; [exact Hs0|].
      split; [constructor | apply Hspec_nil; apply (none_empty st0 all c Hi0 Ef)]. }
  destruct (inv_sorted _ _ Hi0 Hs0) as [Hwb _]. rewrite (wb_idx r (Hwb c r (find_contig_In _ _ _ Ef))). cbn [negb].
  destruct (at_cached_ok st0 all (c, lo, q, 0) Hi0 Hwf) as [st1 [E1 [Hi1 [Hs1 Hc1]]]]. rewrite E1.
  destruct (at_cached_ok st1 all (c, hi, q, 0) Hi1 Hwf) as [st2 [E2 [Hi2 [Hs2 Hc2]]]]. rewrite E2.
  pose proof (at_cached_full _ _ _ _ _ _ E1 HG0) as HG1. pose proof (at_cached_full _ _ _ _ _ _ E2 HG1) as HG2.
  eexists. eexists. split; [reflexivity|]. split; [exact Hi2|]. split; [exact HG2|]. split; [exact Hs2|].
  split; [apply dedup_NoDup|]. intros f. rewrite dedup_In, filter_In, memf_In.
  rewrite (answer_In st1 all c lo q 0 f Hi1 Hs1) by auto. rewrite (answer_In st2 all c hi q 0 f Hi2 Hs2) by auto.
  unfold spec_brk. rewrite filter_In. unfold hit. rewrite !andb_true_iff. tauto.
Qed.

(* ------------------------------------------------------------------ invariant of the extended machine *)
Definition near_ans (all : list (Z * feat)) (k : key) : list feat := let '(c, x, q, _) := k in spec_near all c x q.

Record XInv (xs : xstate) (all : list (Z * feat)) (clean : bool) : Prop := {
  xi_inv : Inv (x_st xs) all;
  xi_gk : GK (KA all) (x_st xs);
  xi_clean : clean = true -> st_sorted (x_st xs) = true;
  xi_near_s : memo_okf (near_ans all) (x_near xs);
  xi_near_u : st_sorted (x_st xs) = false -> x_near xs = [] }.

Definition xg_of (b : bool) : xcfg := mkXC cfg_ref b true.

Lemma sync_cases xg st st' m : sync_near xg st st' m = [] \/ sync_near xg st st' m = m.
Proof. unfold sync_near. destruct (xf_near xg && negb (st_sorted st) && st_sorted st'); auto. Qed.

Lemma XInv_query b xs all clean clean' st' :
  XInv xs all clean -> Inv st' all -> GK (KA all) st' -> (clean' = true -> st_sorted st' = true) ->
  (st_sorted st' = false -> st_sorted (x_st xs) = false) ->
  XInv (mkX st' (sync_near (xg_of b) (x_st xs) st' (x_near xs))) all clean'.
Proof.
  intros HX Hi HG Hc Hu. constructor; cbn [x_st x_near].
  - exact Hi.
  - exact HG.
  - exact Hc.
  - destruct (sync_cases (xg_of b) (x_st xs) st' (x_near xs)) as [E|E]; rewrite E; [apply memo_okf_nil | exact (xi_near_s _ _ _ HX)].
  - intros Hs. destruct (sync_cases (xg_of b) (x_st xs) st' (x_near xs)) as [E|E]; rewrite E; [reflexivity|].
    apply (xi_near_u _ _ _ HX). apply Hu. exact Hs.
Qed.

Lemma all_wf_app l e : all_wf (l ++ e) -> all_wf l.
Proof.
  intros [H1 H2]. split.
  - intros p Hp. apply H1. apply in_or_app. left. exact Hp.
  - intros p p' Hp Hp'. apply H2; apply in_or_app; left; assumption.
Qed.

Lemma KA_snoc all c f : KA (all ++ [(c, f)]) = if existsb (Z.eqb c) (KA all) then KA all else KA all ++ [c].
Proof. unfold KA. rewrite contig_keys_app. reflexivity. Qed.

Lemma add_ok st all c f : Inv st all -> all_wf all -> wf_feat f = true -> strand_ok f = true ->
  all_wf (all ++ [(c, f)]) -> GK (KA all) st ->
  let st' := mkS (add_contig c f (st_contigs st)) false [] in
  step cfg_ref st (Add c f) = (st', ROk []) /\ Inv st' (all ++ [(c, f)]) /\ GK (KA (all ++ [(c, f)])) st'.
Proof.
  intros Hinv Hwf Hf Hso Hwf' HG st'.
  destruct (step_ok st all (Add c f) Hinv Hwf) as [st1 [r [E [Hi _]]]]; [exact Hf | cbn [abs_step]; rewrite Hso; exact Hwf'|].
  cbn [step abs_step] in E, Hi. rewrite Hso in E, Hi. cbn [fix_clear cfg_ref] in E. inversion E; subst st1 r.
  split; [cbn [step]; rewrite Hso; reflexivity|]. split; [exact Hi|].
  split; [intros H; discriminate H|]. unfold st'. cbn [st_contigs]. rewrite keys_add_contig, KA_snoc, (proj2 HG). reflexivity.
Qed.

Lemma adds_all_ok ops :
  forallb (fun o => match o with Add _ f => wf_feat f && strand_ok f | _ => false end) ops = true -> adds_until_bad ops = ops.
Proof.
  induction ops as [|o t IH]; cbn [forallb adds_until_bad]; [reflexivity|]. intros H. apply andb_true_iff in H. destruct H as [H1 H2].
  destruct o; try discriminate. apply andb_true_iff in H1. destruct H1 as [_ H1]. rewrite H1, (IH H2). reflexivity.
Qed.

Lemma run_adds_ok ops : forall st all, Inv st all -> GK (KA all) st -> all_wf all -> all_wf (fold_left abs_step ops all) ->
  forallb (fun o => match o with Add _ f => wf_feat f && strand_ok f | _ => false end) ops = true ->
  exists st', run_adds cfg_ref st ops = (st', None) /\ Inv st' (fold_left abs_step ops all) /\ GK (KA (fold_left abs_step ops all)) st'.
Proof.
  induction ops as [|o t IH]; intros st all Hinv HG Hwf Hwf' Hall; cbn [run_adds fold_left].
  - exists st. auto.
  - cbn [forallb] in Hall. apply andb_true_iff in Hall. destruct Hall as [H1 H2].
    destruct o as [c f| | | |]; try discriminate. apply andb_true_iff in H1. destruct H1 as [Hf Hso].
    cbn [fold_left abs_step] in Hwf'. rewrite Hso in Hwf'.
    assert (Hwf1 : all_wf (all ++ [(c, f)])).
    { destruct (fold_abs_ext t (all ++ [(c, f)])) as [ext E]. rewrite E in Hwf'. eapply all_wf_app. exact Hwf'. }
    destruct (add_ok st all c f Hinv Hwf Hf Hso Hwf1 HG) as [E [Hi HG1]]. rewrite E.
    cbn [abs_step]. rewrite Hso. apply IH; assumption.
Qed.

Lemma load_ok st all ops : Inv st all -> GK (KA all) st -> all_wf all -> all_wf (fold_left abs_step ops all) ->
  forallb (fun o => match o with Add _ f => wf_feat f && strand_ok f | _ => false end) ops = true ->
  exists st', load cfg_ref st ops None = (st', ROk []) /\ Inv st' (fold_left abs_step ops all) /\
              GK (KA (fold_left abs_step ops all)) st' /\ st_sorted st' = true.
Proof.
  intros Hinv HG Hwf Hwf' Hall. unfold load.
  destruct (run_adds_ok ops st all Hinv HG Hwf Hwf' Hall) as [st1 [E [Hi1 HG1]]]. rewrite E. cbn [step].
  destruct (do_sort_ok st1 _ (inv_nodup _ _ Hi1) (inv_rel _ _ Hi1) Hwf') as [st2 [E2 [Hi2 Hs2]]]. rewrite E2.
  exists st2. split; [reflexivity|]. split; [exact Hi2|]. split; [|exact Hs2].
  destruct (do_sort_full _ _ _ E2) as [_ [Hk Hfull]]. split; [intros _; exact Hfull | rewrite Hk; exact (proj2 HG1)].
Qed.

(* ------------------------------------------------------------------ the extended history theorem *)
Definition xans_ok (all : list (Z * feat)) (o : xop) (r : res) : Prop :=
  match o with
  | XB b => ans_ok all b r
  | XNearL c x q => r = ROk (spec_near_left all c x q)
  | XNearR c x q => r = ROk (spec_near_right all c x q)
  | XNear c x q => r = ROk (spec_near all c x q)
  | XBrk c lo hi q => exists l, r = ROk l /\ NoDup l /\ forall f, In f l <-> In f (spec_brk all c lo hi q)
  | XLoad _ _ => r = ROk []
  end.

Fixpoint xtrace_ok (all : list (Z * feat)) (ops : list xop) (rs : list res) : Prop :=
  match ops, rs with
  | [], [] => True
  | o :: t, r :: rt => xans_ok all o r /\ xtrace_ok (xabs_step all o) t rt
  | _, _ => False
  end.

Definition brk_guard (b clean : bool) (o : xop) : Prop :=
  match o with XBrk _ _ _ _ => b = true \/ clean = true | _ => True end.

Fixpoint xhist_wf (b : bool) (all : list (Z * feat)) (clean : bool) (ops : list xop) : Prop :=
  match ops with
  | [] => True
  | o :: t => xop_wfb o = true /\ all_wf (xabs_step all o) /\ brk_guard b clean o /\
              xhist_wf b (xabs_step all o) (xclean_step all clean o) t
  end.

Lemma sync_same b st m : sync_near (xg_of b) st st m = m.
Proof. unfold sync_near. destruct (st_sorted st); cbn; reflexivity. Qed.

Lemma known_has all c : known all c = has_feats all c.
Proof. unfold known. rewrite known_acc. reflexivity. Qed.

Lemma xstep_ok b xs all clean o :
  XInv xs all clean -> all_wf all -> xop_wfb o = true -> all_wf (xabs_step all o) -> brk_guard b clean o ->
  exists xs' r, xstep (xg_of b) xs o = (xs', r) /\ XInv xs' (xabs_step all o) (xclean_step all clean o) /\ xans_ok all o r.
Proof.
  intros HX Hwf Hop Hwf' Hbg. pose proof (xi_inv _ _ _ HX) as Hinv. pose proof (xi_gk _ _ _ HX) as HG.
  destruct o as [bo|c x q|c x q|c x q|c lo hi q|ops err]; cbn [xabs_step] in Hwf';
    cbn [xstep xabs_step xclean_step xans_ok x_cfg xg_of xf_near andb].
  - (* an operation of the base machine *)
    cbn [xop_wfb] in Hop.
    destruct (step_ok (x_st xs) all bo Hinv Hwf Hop Hwf') as [st' [r [E [Hi Ha]]]]. rewrite E.
    destruct bo as [c f| |c x q o|c lo hi q|c bl q meth].
    + (* addFeature *)
      cbn [step abs_step] in *. destruct (strand_ok f) eqn:Hso.
      * destruct (add_ok (x_st xs) all c f Hinv Hwf Hop Hso Hwf' HG) as [E' [Hi' HG']].
        cbn [step] in E'. rewrite Hso in E'. rewrite E' in E. inversion E; subst st' r.
        eexists. eexists. split; [reflexivity|]. split; [|exact Ha].
        constructor; cbn [x_st x_near]; [exact Hi' | exact HG' | discriminate | apply memo_okf_nil | reflexivity].
      * inversion E; subst st' r. eexists. eexists. split; [reflexivity|]. split; [|exact Ha].
        rewrite sync_same. destruct xs as [st m]. exact HX.
    + (* sort *)
      destruct r as [l|e]; [|contradiction]. pose proof (step_full _ _ _ _ _ _ E ltac:(discriminate) HG) as HG'.
      assert (Hs' : st_sorted st' = true).
      { cbn [step] in E. destruct (do_sort cfg_ref (x_st xs)) as [st1 [e|]] eqn:Ed; [discriminate|]. inversion E; subst.
        exact (proj1 (do_sort_full _ _ _ Ed)). }
      eexists. eexists. split; [reflexivity|]. split; [|exact Ha]. cbn [abs_step] in *.
      constructor; cbn [x_st x_near]; [exact Hi | exact HG' | intros _; exact Hs' | apply memo_okf_nil | reflexivity].
    + (* findFeaturesAt *)
      destruct r as [l|e]; [|contradiction]. pose proof (step_full _ _ _ _ _ _ E ltac:(discriminate) HG) as HG'.
      assert (Hs' : st_sorted st' = true).
      { destruct (at_cached_ok (x_st xs) all (c, x, q, o) Hinv Hwf) as [st2 [E2 [_ [Hs2 _]]]]. cbn [step] in E. rewrite E2 in E.
        inversion E; subst. exact Hs2. }
      eexists. eexists. split; [reflexivity|]. split; [|exact Ha]. cbn [abs_step] in *.
      apply XInv_query with (clean := clean); [exact HX | exact Hi | exact HG' | intros _; exact Hs' | intros H; congruence].
    + (* findFeaturesBetween *)
      destruct r as [l|e]; [|contradiction]. pose proof (step_full _ _ _ _ _ _ E ltac:(discriminate) HG) as HG'.
      assert (Hs' : st_sorted st' = true) by (cbn [step] in E; exact (between_sorted cfg_ref _ _ _ _ _ _ _ eq_refl E)).
      eexists. eexists. split; [reflexivity|]. split; [|exact Ha]. cbn [abs_step] in *.
      apply XInv_query with (clean := clean); [exact HX | exact Hi | exact HG' | intros _; exact Hs' | intros H; congruence].
    + (* findFeaturesAtPysamAlign *)
      destruct r as [l|e]; [|contradiction]. pose proof (step_full _ _ _ _ _ _ E ltac:(discriminate) HG) as HG'.
      assert (Hs' : st_sorted st' = true) by (cbn [step] in E; exact (blocks_sorted cfg_ref _ _ _ _ _ _ _ eq_refl E)).
      eexists. eexists. split; [reflexivity|]. split; [|exact Ha]. cbn [abs_step] in *.
      apply XInv_query with (clean := clean); [exact HX | exact Hi | exact HG' | intros _; exact Hs' | intros H; congruence].
  - (* findNearestLeftFeature *)
    destruct (near_left_ok (x_st xs) all c x q Hinv Hwf HG) as [st' [E [Hi [HG' [Hsame [Hk Hu]]]]]].
    unfold xlift. rewrite E. eexists. eexists. split; [reflexivity|]. split; [|reflexivity].
    apply XInv_query with (clean := clean); [exact HX | exact Hi | exact HG' | | intros H; rewrite (Hu H) in H; exact H].
    intros Hc. apply orb_true_iff in Hc. destruct Hc as [Hc|Hc].
    + rewrite (Hsame (xi_clean _ _ _ HX Hc)). exact (xi_clean _ _ _ HX Hc).
    + apply Hk. rewrite known_has. exact Hc.
  - (* findNearestRightFeature *)
    destruct (near_right_ok (x_st xs) all c x q Hinv Hwf HG) as [st' [E [Hi [HG' [Hsame [Hk Hu]]]]]].
    unfold xlift. rewrite E. rewrite (nr_fresh_spec all c x q Hwf). eexists. eexists. split; [reflexivity|]. split; [|reflexivity].
    apply XInv_query with (clean := clean); [exact HX | exact Hi | exact HG' | | intros H; rewrite (Hu H) in H; exact H].
    intros Hc. apply orb_true_iff in Hc. destruct Hc as [Hc|Hc].
    + rewrite (Hsame (xi_clean _ _ _ HX Hc)). exact (xi_clean _ _ _ HX Hc).
    + apply Hk. rewrite known_has. exact Hc.
  - (* findNearestFeature, through its cache *)
    unfold near. destruct (memo_find (c, x, q, 0) (x_near xs)) as [v|] eqn:Ef.
    + pose proof (xi_near_s _ _ _ HX _ _ (memo_find_In _ _ _ Ef)) as Hv. cbn in Hv. subst v.
      assert (Hs : st_sorted (x_st xs) = true).
      { destruct (st_sorted (x_st xs)) eqn:Es; [reflexivity|]. rewrite (xi_near_u _ _ _ HX Es) in Ef. discriminate. }
      eexists. eexists. split; [reflexivity|]. split; [|reflexivity].
      constructor; cbn [x_st x_near]; [exact Hinv | exact HG | intros _; exact Hs | | intros H; congruence].
      apply memo_touch_ok; [exact (xi_near_s _ _ _ HX) | exact Ef].
    + destruct (near_body_ok (x_st xs) all c x q Hinv Hwf HG) as [st' [E [Hi [HG' Hs']]]].
      unfold xlift. cbn [x_cfg xg_of]. rewrite E. cbn [x_st x_near].
      eexists. eexists. split; [reflexivity|]. split; [|reflexivity].
      constructor; cbn [x_st x_near]; [exact Hi | exact HG' | intros _; exact Hs' | | intros H; congruence].
      apply memo_put_ok; [|reflexivity].
      match goal with |- memo_okf _ (sync_near ?g ?s1 ?s2 ?m) => destruct (sync_cases g s1 s2 m) as [E1|E1]; rewrite E1 end;
        [apply memo_okf_nil | exact (xi_near_s _ _ _ HX)].
  - (* findFeaturesBetweenBRK *)
    assert (Hb : b = true \/ st_sorted (x_st xs) = true).
    { cbn [brk_guard] in Hbg. destruct Hbg as [H|H]; [left; exact H | right; exact (xi_clean _ _ _ HX H)]. }
    destruct (brk_ok b (x_st xs) all c lo hi q Hinv Hwf HG Hb) as [st' [l [E [Hi [HG' [Hs' [Hnd Hin]]]]]]].
    change (mkXC cfg_ref b true) with (xg_of b) in E. unfold xlift. rewrite E. eexists. eexists. split; [reflexivity|]. split; [|exists l; auto].
    apply XInv_query with (clean := clean); [exact HX | exact Hi | exact HG' | intros _; exact Hs' | intros H; congruence].
  - (* a loader *)
    cbn [xop_wfb] in Hop. destruct err as [e|]; [discriminate|].
    rewrite (adds_all_ok ops Hop) in *.
    destruct (load_ok (x_st xs) all ops Hinv HG Hwf Hwf' Hop) as [st' [E [Hi [HG' Hs']]]]. rewrite E.
    eexists. eexists. split; [reflexivity|]. split; [|reflexivity].
    constructor; cbn [x_st x_near]; [exact Hi | exact HG' | intros _; exact Hs' | apply memo_okf_nil | reflexivity].
Qed.

Lemma xinv_init : XInv xinit [] true.
Proof.
  constructor; cbn.
  - apply inv_init.
  - split; [intros _ c r [] | reflexivity].
  - reflexivity.
  - apply memo_okf_nil.
  - reflexivity.
Qed.

Lemma xhistory_gen b ops : forall xs all clean,
  XInv xs all clean -> all_wf all -> xhist_wf b all clean ops -> xtrace_ok all ops (xrun (xg_of b) xs ops).
Proof.
  induction ops as [|o t IH]; intros xs all clean HX Hwf Hh; cbn [xrun xtrace_ok]; [exact I|].
  destruct Hh as [Hop [Hwf' [Hbg Hh]]].
  destruct (xstep_ok b xs all clean o HX Hwf Hop Hwf' Hbg) as [xs' [r [E [HX' Ha]]]].
  rewrite E. cbn [xtrace_ok]. split; [exact Ha|]. eapply IH; eassumption.
Qed.

(* boolean precondition (mode 11 of run_C16x) implies the inductive one *)
Lemma xabs_step_ext all o : exists ext, xabs_step all o = all ++ ext.
Proof.
  destruct o as [bo| | | | |ops err]; cbn [xabs_step]; try (exists []; rewrite app_nil_r; reflexivity).
  - apply abs_step_ext.
  - apply fold_abs_ext.
Qed.

Lemma xfold_abs_ext ops : forall all, exists ext, fold_left xabs_step ops all = all ++ ext.
Proof.
  induction ops as [|o t IH]; intros all; cbn; [exists []; rewrite app_nil_r; reflexivity|].
  destruct (xabs_step_ext all o) as [e1 E1]. destruct (IH (xabs_step all o)) as [e2 E2].
  exists (e1 ++ e2). rewrite E2, E1, app_assoc. reflexivity.
Qed.

Lemma fold_adds_wf ops : forall all,
  forallb (fun o => match o with Add _ f => wf_feat f && strand_ok f | _ => false end) ops = true ->
  (forall p, In p all -> wfP (snd p)) -> forall p, In p (fold_left abs_step ops all) -> wfP (snd p).
Proof.
  induction ops as [|o t IH]; intros all Hall Hwf; cbn [fold_left]; [exact Hwf|].
  cbn [forallb] in Hall. apply andb_true_iff in Hall. destruct Hall as [H1 H2].
  destruct o as [c f| | | |]; try discriminate. apply andb_true_iff in H1. destruct H1 as [Hf Hso].
  apply IH; [exact H2|]. cbn [abs_step]. rewrite Hso. intros p Hp. apply in_app_or in Hp. destruct Hp as [Hp|[Hp|[]]]; [apply Hwf; exact Hp|].
  subst p. cbn. unfold wf_feat in Hf. apply andb_true_iff in Hf. destruct Hf as [A B]. apply Z.leb_le in A. apply Z.leb_le in B. split; assumption.
Qed.

Lemma xhist_wfb_gen b ops : forall all clean,
  forallb xop_wfb ops = true -> orderableP (fold_left xabs_step ops all) -> xguard b all clean ops = true ->
  (forall p, In p all -> wfP (snd p)) -> xhist_wf b all clean ops.
Proof.
  induction ops as [|o t IH]; intros all clean Hf Hord Hg Hwf; cbn [xhist_wf]; [exact I|].
  cbn [forallb] in Hf. apply andb_true_iff in Hf. destruct Hf as [Ho Hf]. cbn [fold_left] in Hord.
  cbn [xguard] in Hg. apply andb_true_iff in Hg. destruct Hg as [Hg1 Hg2].
  assert (Hwf' : forall p, In p (xabs_step all o) -> wfP (snd p)).
  { destruct o as [bo| | | | |ops err]; cbn [xabs_step]; try exact Hwf.
    - destruct bo as [c f| | | |]; cbn [abs_step]; try exact Hwf.
      destruct (strand_ok f); [|exact Hwf]. intros p Hp. apply in_app_or in Hp. destruct Hp as [Hp|[Hp|[]]]; [apply Hwf; exact Hp|].
      subst p. cbn. cbn [xop_wfb op_wfb] in Ho. unfold wf_feat in Ho. apply andb_true_iff in Ho. destruct Ho as [H1 H2].
      apply Z.leb_le in H1. apply Z.leb_le in H2. split; assumption.
    - cbn [xop_wfb] in Ho. destruct err; [discriminate|]. rewrite (adds_all_ok ops Ho). apply fold_adds_wf; assumption. }
  split; [exact Ho|]. split; [|split].
  - split; [exact Hwf'|]. destruct (xfold_abs_ext t (xabs_step all o)) as [ext E]. rewrite E in Hord.
    intros p p' Hp Hp'. apply Hord; apply in_or_app; left; assumption.
  - destruct o; cbn [brk_guard]; try exact I. apply orb_true_iff in Hg1. destruct Hg1; auto.
  - apply IH; assumption.
Qed.

Theorem xhistory b ops : xhist_wfb b ops = true -> xtrace_ok [] ops (xrun (xg_of b) xinit ops).
Proof.
  intros H. unfold xhist_wfb in H. apply andb_true_iff in H. destruct H as [H H3]. apply andb_true_iff in H. destruct H as [H1 H2].
  apply orderableb_P in H2. unfold xfinal_all in H2.
  apply (xhistory_gen b ops xinit [] true); [apply xinv_init | split; [intros p [] | intros p p' []] |].
  apply xhist_wfb_gen; [exact H1 | exact H2 | exact H3 | intros p []].
Qed.

Lemma clear_near_shape : g_clear_near = true.
Proof. reflexivity. Qed.

Lemma xcfg_src_shape : xcfg_src = xg_of g_autosort_brk.
Proof. unfold xcfg_src, xg_of. rewrite cfg_fixed_shape, clear_near_shape. reflexivity. Qed.

(* the machine with the switches of the current source *)
Theorem xhistory_src ops : xhist_wfb g_autosort_brk ops = true -> xtrace_ok [] ops (xrun xcfg_src xinit ops).
Proof. rewrite xcfg_src_shape. apply xhistory. Qed.

(* the repaired machine: no guard on findFeaturesBetweenBRK *)
Theorem xhistory_ref ops : xhist_wfb true ops = true -> xtrace_ok [] ops (xrun xcfg_ref xinit ops).
Proof. apply (xhistory true). Qed.

(* ------------------------------------------------------------------ refutations *)
Definition xops_brk : list xop := [XB (Add 0 f1); XBrk 0 12 13 0].

Lemma xbrk_refuted :
  xhist_wfb true xops_brk = true /\ xrun xcfg_brk xinit xops_brk = [ROk []; ROk []] /\
  ~ xtrace_ok [] xops_brk (xrun xcfg_brk xinit xops_brk).
Proof.
  split; [vm_compute; reflexivity|]. split; [vm_compute; reflexivity|].
  replace (xrun xcfg_brk xinit xops_brk) with [ROk []; ROk []] by (vm_compute; reflexivity).
  intros [_ [[l [E [_ H]]] _]]. inversion E; subst l. destruct (H f1) as [_ H']. apply H'. vm_compute. left. reflexivity.
Qed.

(* findNearestLeftFeature is not the nearest feature to the left: three disjoint features on one contig, coordinate 25 *)
Definition nl_a := mkF 0 1 1 1 0.
Definition nl_b := mkF 10 11 2 1 0.
Definition nl_c := mkF 20 21 3 1 0.
Definition xops_nl : list xop := [XB (Add 0 nl_a); XB (Add 0 nl_b); XB (Add 0 nl_c); XNearL 0 25 0].

Lemma near_left_refuted :
  xhist_wfb true xops_nl = true /\
  xrun xcfg_ref xinit xops_nl = [ROk []; ROk []; ROk []; ROk [nl_b]] /\
  is_nearest_left [nl_a; nl_b; nl_c] 25 nl_b = false /\ is_nearest_left [nl_a; nl_b; nl_c] 25 nl_c = true.
Proof. vm_compute. repeat split. Qed.

(* ... and does not respect the strand: the walk ends at features[0] whatever its strand *)
Definition xops_nl_strand : list xop := [XB (Add 0 (mkF 0 1 1 2 0)); XB (Add 0 (mkF 10 11 2 2 0)); XNearL 0 30 1].
Lemma near_left_strand_refuted :
  xhist_wfb true xops_nl_strand = true /\
  xrun xcfg_ref xinit xops_nl_strand = [ROk []; ROk []; ROk [mkF 0 1 1 2 0]].
Proof. vm_compute. repeat split. Qed.

(* findNearestFeature ignores the requested strand when the coordinate lies inside a feature *)
Definition xops_near_strand : list xop := [XB (Add 0 (mkF 0 5 1 2 0)); XNear 0 3 1].
Lemma near_strand_refuted :
  xhist_wfb true xops_near_strand = true /\ xrun xcfg_ref xinit xops_near_strand = [ROk []; ROk [mkF 0 5 1 2 0]].
Proof. vm_compute. repeat split. Qed.

(* ------------------------------------------------------------------ brute force reading of the nearest-right answer *)
Lemma spec_near_right_bf all c x q :
  match spec_near_right all c x q with
  | [] => forall f, In f (feats_of c all) -> right_of x q f = false
  | [f] => In f (feats_of c all) /\ right_of x q f = true /\
           forall g, In g (feats_of c all) -> right_of x q g = true -> fle f g /\ f_start f <= f_start g
  | _ => False
  end.
Proof.
  unfold spec_near_right. change (fun f => (x <? f_start f) && smatch q f) with (right_of x q).
  destruct (filter (right_of x q) (sort_feats (feats_of c all))) as [|f t] eqn:E.
  - intros f Hf. destruct (right_of x q f) eqn:Er; [|reflexivity].
    assert (Hin : In f (filter (right_of x q) (sort_feats (feats_of c all)))) by (apply filter_In; split; [apply sort_In; exact Hf | exact Er]).
    rewrite E in Hin. contradiction.
  - destruct (hd_filter_min (right_of x q) _ (sort_ssorted (feats_of c all)) f t E) as [H1 [H2 H3]].
    split; [apply sort_In; exact H1|]. split; [exact H2|]. intros g Hg Hr.
    assert (Hfg : fle f g) by (apply H3; [apply sort_In; exact Hg | exact Hr]). split; [exact Hfg | apply feat_leb_start; exact Hfg].
Qed.

(* ------------------------------------------------------------------ file records -> loadGTF -> sort -> findFeaturesAt *)
Definition frec_wf (r : frec) : Prop := r_start r <= r_end r /\ 0 <= r_end r.

Lemma fold_frec code recs : forall all,
  fold_left abs_step (map (frec_op code) recs) all = all ++ map (frec_feat code) recs.
Proof.
  induction recs as [|r t IH]; intros all; cbn [map fold_left]; [rewrite app_nil_r; reflexivity|].
  rewrite IH. unfold frec_op at 1. cbn [abs_step].
  replace (strand_ok (snd (frec_feat code r))) with true by (unfold frec_feat, strand_ok; cbn; destruct (r_plus r); reflexivity).
  rewrite <- app_assoc. cbn [app]. rewrite <- surjective_pairing. reflexivity.
Qed.

Lemma frec_ops_wf code recs : (forall r, In r recs -> frec_wf r) ->
  forallb (fun o => match o with Add _ f => wf_feat f && strand_ok f | _ => false end) (map (frec_op code) recs) = true.
Proof.
  intros H. apply forallb_forall. intros o Ho. apply in_map_iff in Ho. destruct Ho as [r [<- Hr]].
  destruct (H r Hr) as [A B]. unfold frec_op, frec_feat, wf_feat, strand_ok. cbn.
  apply andb_true_iff. split; [apply andb_true_iff; split; apply Z.leb_le; assumption | destruct (r_plus r); reflexivity].
Qed.

Lemma orderable_stranded all : (forall p, In p all -> f_strand (snd p) <> 0) -> orderableb all = true.
Proof.
  intros H. apply orderableb_P. intros p p' Hp Hp' _. unfold incomparable.
  destruct (Z.eqb_spec (f_strand (snd p)) 0) as [E|_]; [exfalso; exact (H p Hp E)|].
  destruct (Z.eqb_spec (f_strand (snd p')) 0) as [E|_]; [exfalso; exact (H p' Hp' E)|].
  cbn. apply andb_false_r.
Qed.

Theorem gtf_end_to_end code recs c x q : (forall r, In r recs -> frec_wf r) ->
  let loaded := gtf_compile code gpar_default 0 (map print_gtf recs) in
  exists l, xrun xcfg_src xinit [XLoad (fst loaded) (snd loaded); XB (At c x q 0)] = [ROk []; ROk l] /\
            Permutation l (filter (hit x q) (feats_of c (map (frec_feat code) recs))).
Proof.
  intros Hwf loaded. unfold loaded. rewrite gtf_roundtrip. cbn [fst snd].
  set (ops := [XLoad (map (frec_op code) recs) None; XB (At c x q 0)]).
  assert (Hpre : xhist_wfb g_autosort_brk ops = true).
  { unfold xhist_wfb, ops. cbn [forallb xop_wfb op_wfb xguard xfinal_all fold_left xabs_step abs_step].
    rewrite (frec_ops_wf code recs Hwf), (adds_all_ok _ (frec_ops_wf code recs Hwf)), fold_frec. cbn [app andb].
    rewrite orderable_stranded; [destruct g_autosort_brk; reflexivity|].
    intros p Hp. apply in_map_iff in Hp. destruct Hp as [r [<- _]]. unfold frec_feat. cbn. destruct (r_plus r); discriminate. }
  pose proof (xhistory_src ops Hpre) as Ht. unfold ops in Ht. cbn [xtrace_ok xabs_step] in Ht.
  fold ops in Ht. destruct (xrun xcfg_src xinit ops) as [|r1 [|r2 [|r3 rt]]]; cbn [xtrace_ok] in Ht; try contradiction.
  - destruct Ht as [_ []].
  - destruct Ht as [H1 [H2 _]]. cbn [xans_ok] in H1, H2. subst r1.
    rewrite (adds_all_ok _ (frec_ops_wf code recs Hwf)), fold_frec in H2. cbn [app ans_ok] in H2.
    destruct r2 as [l|e]; [|contradiction]. cbn in H2. exists l. split; [reflexivity | exact H2].
  - destruct Ht as [_ [_ []]].
Qed.
