(* C15 proofs, part b: create_MD_tag read back column-wise reconstructs the reference. *)
From Coq Require Import ZArith NArith List Bool Lia Decimal DecimalN.
Import ListNotations.
From SCMO Require Import Lib.Val Lib.PyInt Model.C15 Proofs.C15_g.
Open Scope Z_scope.

Lemma codes_uint_codes u : codes_uint (uint_codes u) = u.
Proof. induction u as [|u IH|u IH|u IH|u IH|u IH|u IH|u IH|u IH|u IH|u IH]; cbn; now rewrite ?IH. Qed.

Lemma uint_codes_digits u : Forall (fun c => is_digit c = true) (uint_codes u).
Proof.
  induction u as [|u IH|u IH|u IH|u IH|u IH|u IH|u IH|u IH|u IH|u IH]; cbn [uint_codes];
    constructor; auto.
Qed.

Lemma pend_value_num n : pend_value (num n) = N.to_nat n.
Proof. unfold pend_value, num. now rewrite codes_uint_codes, DecimalN.Unsigned.of_to. Qed.

Lemma pend_value_flush n : pend_value (flush_num n) = N.to_nat n.
Proof.
  rewrite flush_num_spec. destruct (0 <? n)%N eqn:E.
  - apply pend_value_num.
  - apply N.ltb_ge in E. assert (n = 0%N) by lia. subst n. reflexivity.
Qed.

Lemma flush_digits n : Forall (fun c => is_digit c = true) (flush_num n).
Proof. rewrite flush_num_spec. unfold num. destruct (0 <? n)%N; [apply uint_codes_digits|constructor]. Qed.

(* a run of digits is collected into the pending number *)
Lemma md_dec_digits : forall ds rest pend q, Forall (fun c => is_digit c = true) ds ->
  md_dec (ds ++ rest) pend q = md_dec rest (pend ++ ds) q.
Proof.
  induction ds as [|d ds IH]; intros rest pend q H.
  - now rewrite app_nil_r.
  - inversion H as [|? ? Hd Hds]; subst. rewrite <- app_comm_cons. cbn [md_dec]. rewrite Hd.
    rewrite IH by assumption. now rewrite <- app_assoc.
Qed.

Lemma upper_not_digit c : is_digit c = false -> is_digit (upper c) = false.
Proof. unfold is_digit, upper. intros H. destruct ((97 <=? c) && (c <=? 122)) eqn:E; lia. Qed.

Lemma md_go_roundtrip : forall ref q nc pre,
  length ref = length q ->
  Forall (fun c => is_digit c = false) ref ->
  length pre = N.to_nat nc ->
  md_dec (md_go ref q nc) [] (pre ++ q) = Some (pre ++ map upper ref).
Proof.
  induction ref as [|r ref IH]; intros q nc pre Hlen Hlet Hpre.
  - destruct q; [|discriminate]. cbn [md_go map]. rewrite !app_nil_r.
    rewrite <- (app_nil_r (flush_num nc)), md_dec_digits by apply flush_digits.
    cbn [md_dec]. rewrite app_nil_l, pend_value_flush, <- Hpre, Nat.eqb_refl. reflexivity.
  - destruct q as [|b q]; [discriminate|]. injection Hlen as Hlen.
    inversion Hlet as [|? ? Hr Hlet']; subst. cbn [md_go map]. rewrite shape_md_match.
    destruct (upper r =? b) eqn:E.
    + apply Z.eqb_eq in E. subst b.
      replace (pre ++ upper r :: q) with ((pre ++ [upper r]) ++ q) by (now rewrite <- app_assoc).
      rewrite IH; auto.
      * now rewrite <- app_assoc.
      * rewrite app_length. cbn [length]. lia.
    + rewrite md_dec_digits by apply flush_digits. cbn [md_dec]. rewrite app_nil_l.
      rewrite (upper_not_digit r Hr), pend_value_flush, <- Hpre.
      assert (Hlt : Nat.ltb (length pre) (length (pre ++ b :: q)) = true).
      { apply Nat.ltb_lt. rewrite app_length. cbn [length]. lia. }
      rewrite Hlt.
      replace (skipn (S (length pre)) (pre ++ b :: q)) with q.
      2:{ replace (pre ++ b :: q) with ((pre ++ [b]) ++ q) by (now rewrite <- app_assoc).
          replace (S (length pre)) with (length (pre ++ [b])) by (rewrite app_length; cbn; lia).
          now rewrite skipn_app, skipn_all, Nat.sub_diag. }
      pose proof (IH q 0%N [] Hlen Hlet' eq_refl) as IH0. rewrite !app_nil_l in IH0. rewrite IH0.
      rewrite firstn_app, firstn_all, Nat.sub_diag. cbn [firstn]. now rewrite app_nil_r.
Qed.

(* the full-strength round trip: any reference stretch of letters, any query of the same length *)
Lemma md_roundtrip ref q :
  length ref = length q -> Forall (fun c => is_digit c = false) ref ->
  md_decode (md_tag ref q) q = Some (map upper ref).
Proof.
  intros H1 H2. unfold md_decode, md_tag.
  exact (md_go_roundtrip ref q 0%N [] H1 H2 eq_refl).
Qed.

(* the unrepaired stretch (reference_start .. reference_end, gap included) breaks it:
   coverage 0..2 and 6..8 of reference AAACCCGGG, consensus equal to the reference *)
Lemma md_old_refuted :
  let ref := fun p => nth (Z.to_nat p) [65;65;65;67;67;67;71;71;71] 78 in
  let p := mkPartial 0 (Some 9) [65;65;65;71;71;71] [30;30;30;30;30;30] [CM 3; CN 3; CM 3] [(0,3);(6,9)] in
  md_decode (md_old ref p) (pa_seq p) <> Some (map ref (expand (pa_start p) (pa_cigar p))) /\
  md_decode (md_tag (map ref (block_positions (pa_md p))) (pa_seq p)) (pa_seq p)
    = Some (map ref (expand (pa_start p) (pa_cigar p))).
Proof. vm_compute. split; [discriminate|reflexivity]. Qed.
