(* C14 proofs, part a: the context table and position_to_context against a direct specification *)
From Coq Require Import ZArith List Bool Lia.
Import ListNotations.
From SCMO Require Import Lib.Val Gen.GenTaps Model.C14.
From SCMO Require Export Model.C14s.   (* is_acgt ref_at up_at neighbours ctx_class conv spec_letter: definitions *)
Open Scope Z_scope.

(* ------------------------------------------------------------------ specification of the table *)
Definition is_act (c : Z) : bool := (c =? cA) || (c =? cC) || (c =? cT).

(* CG* -> z, C[ACT]G -> x, C[ACT][ACT] -> h, nothing else *)
Definition spec_ctx (k : list Z) : option Z :=
  match k with
  | [a; b; c] =>
      if a =? cC then
        if b =? cG then (if is_acgt c then Some c_z else None)
        else if is_act b then (if c =? cG then Some c_x else if is_act c then Some c_h else None)
        else None
      else None
  | _ => None
  end.

Definition alphabet5 : list Z := [cA; cC; cG; cT; cN].
Definition contexts125 : list (list Z) :=
  flat_map (fun a => flat_map (fun b => map (fun c => [a; b; c]) alphabet5) alphabet5) alphabet5.

Definition oZ_eqb (a b : option Z) : bool :=
  match a, b with Some x, Some y => x =? y | None, None => true | _, _ => false end.
Lemma oZ_eqb_eq a b : oZ_eqb a b = true -> a = b.
Proof. destruct a, b; cbn; intros H; try discriminate; auto. apply Z.eqb_eq in H. now subst. Qed.

Lemma list_eqb_eq a : forall b, list_eqb a b = true <-> a = b.
Proof.
  induction a as [|x a IH]; intros [|y b]; cbn; split; intros H; try discriminate; auto.
  - apply andb_true_iff in H as [H1 H2]. apply Z.eqb_eq in H1. apply IH in H2. now subst.
  - injection H as -> ->. rewrite Z.eqb_refl. cbn. now apply IH.
Qed.

Lemma table_125 : forall k, In k contexts125 ->
  lookup k ctx_unmeth = spec_ctx k /\ lookup k ctx_meth = option_map upper (spec_ctx k).
Proof.
  assert (H : forallb (fun k => oZ_eqb (lookup k ctx_unmeth) (spec_ctx k) &&
                                oZ_eqb (lookup k ctx_meth) (option_map upper (spec_ctx k))) contexts125 = true)
    by (vm_compute; reflexivity).
  intros k Hk. rewrite forallb_forall in H. specialize (H k Hk).
  apply andb_true_iff in H as [H1 H2]. split; now apply oZ_eqb_eq.
Qed.

Definition mem_ctx (k : list Z) (l : list (list Z)) : bool := existsb (list_eqb k) l.
Lemma mem_ctx_In k l : mem_ctx k l = true <-> In k l.
Proof.
  unfold mem_ctx. rewrite existsb_exists. split.
  - intros [x [Hx He]]. apply list_eqb_eq in He. now subst.
  - intros H. exists k. split; auto. now apply list_eqb_eq.
Qed.

Lemma table_keys_125 : forall k v, In (k, v) ctx_unmeth \/ In (k, v) ctx_meth -> In k contexts125.
Proof.
  assert (H : forallb (fun e => mem_ctx (fst e) contexts125) (ctx_unmeth ++ ctx_meth) = true)
    by (vm_compute; reflexivity).
  intros k v Hk. rewrite forallb_forall in H. apply mem_ctx_In.
  apply (H (k, v)). apply in_or_app. exact Hk.
Qed.

Lemma lookup_In k : forall t v, lookup k t = Some v -> In (k, v) t.
Proof.
  induction t as [|[k' v'] t IH]; cbn; intros v H; [discriminate|].
  destruct (list_eqb k k') eqn:E.
  - apply list_eqb_eq in E. injection H as ->. subst. now left.
  - right. now apply IH.
Qed.

Lemma eqb_cases c : c = cA \/ c = cC \/ c = cG \/ c = cT \/
  ((c =? cA) = false /\ (c =? cC) = false /\ (c =? cG) = false /\ (c =? cT) = false).
Proof.
  destruct (Z.eqb_spec c cA); [tauto|]. destruct (Z.eqb_spec c cC); [tauto|].
  destruct (Z.eqb_spec c cG); [tauto|]. destruct (Z.eqb_spec c cT); [tauto|].
  right; right; right; right. tauto.
Qed.

Ltac fin := repeat (try reflexivity;
                    match goal with |- context [match ?x with _ => _ end] =>
                      lazymatch x with context [match _ with _ => _ end] => fail | _ => destruct x end end);
  try reflexivity.

Ltac split_base c :=
  let H := fresh "Hc" in
  destruct (eqb_cases c) as [H|[H|[H|[H|[? [? [? ?]]]]]]]; [subst c|subst c|subst c|subst c|].

Lemma spec_ctx_125 k : spec_ctx k <> None -> In k contexts125.
Proof.
  destruct k as [|a [|b [|c [|d k]]]]; cbn [spec_ctx]; try congruence.
  intros H. apply mem_ctx_In.
  split_base a; try (vm_compute in H; congruence);
  [| unfold is_acgt, is_act in H; cbn in H; repeat match goal with E : (_ =? _) = false |- _ => rewrite E in H end;
     cbn in H; congruence].
  split_base b; split_base c;
    try (vm_compute; reflexivity);
    try (exfalso; unfold is_acgt, is_act in H;
         repeat match goal with E : (_ =? _) = false |- _ => rewrite E in H end; vm_compute in H; congruence).
  all: exfalso; unfold is_acgt, is_act in H; cbn in H;
    repeat match goal with E : (_ =? _) = false |- _ => rewrite E in H end; cbn in H; congruence.
Qed.

(* the generated tables are exactly the specification, for ANY key (any length, any characters) *)
Lemma table_total : forall k,
  lookup k ctx_unmeth = spec_ctx k /\ lookup k ctx_meth = option_map upper (spec_ctx k).
Proof.
  intros k. destruct (mem_ctx k contexts125) eqn:E.
  - apply mem_ctx_In in E. now apply table_125.
  - assert (Hs : spec_ctx k = None).
    { destruct (spec_ctx k) eqn:S; auto. exfalso.
      assert (In k contexts125) by (apply spec_ctx_125; congruence).
      apply mem_ctx_In in H. congruence. }
    rewrite Hs. cbn. split.
    + destruct (lookup k ctx_unmeth) eqn:L; auto. apply lookup_In in L.
      assert (In k contexts125) by (eapply table_keys_125; left; eauto).
      apply mem_ctx_In in H. congruence.
    + destruct (lookup k ctx_meth) eqn:L; auto. apply lookup_In in L.
      assert (In k contexts125) by (eapply table_keys_125; right; eauto).
      apply mem_ctx_In in H. congruence.
Qed.

Lemma lookup_table m k : lookup k (table_of taps0 m) = if m then option_map upper (spec_ctx k) else spec_ctx k.
Proof. destruct (table_total k) as [H1 H2]. destruct m; cbn [table_of taps0 tp_meth tp_unmeth]; auto. Qed.

(* ------------------------------------------------------------------ specification of a call letter *)
(* ref_at, up_at, neighbours, ctx_class, conv, spec_letter: see Model/C14s.v *)

(* ---- spec_ctx in terms of ctx_class *)
Lemma spec_ctx_class a b c : spec_ctx [a; b; c] = if a =? cC then ctx_class b c else None.
Proof.
  cbn [spec_ctx]. destruct (a =? cC); auto. unfold ctx_class, is_acgt, is_act.
  split_base b; split_base c; try reflexivity;
    repeat match goal with E : (_ =? _) = false |- _ => rewrite E end; reflexivity.
Qed.

Lemma compl_is_C c : (compl c =? cC) = (c =? cG).
Proof.
  unfold compl. split_base c; try reflexivity.
  repeat match goal with E : (_ =? _) = false |- _ => rewrite E end. auto.
Qed.

(* ---- slices *)
Lemma nth_error_skipn {A} (l : list A) n i : nth_error (skipn n l) i = nth_error l (n + i).
Proof. revert l. induction n as [|n IH]; intros [|x l]; cbn; auto. now destruct i. Qed.

Definition window (ref : list Z) (s : Z) : list Z :=
  match ref_at ref s, ref_at ref (s + 1), ref_at ref (s + 2) with
  | Some a, Some b, Some c => [a; b; c]
  | Some a, Some b, None => [a; b]
  | Some a, None, _ => [a]
  | None, _, _ => []
  end.

Lemma slice3 ref s : 0 <= s -> slice ref s (s + 3) = window ref s.
Proof.
  intros Hs. unfold slice, window, ref_at.
  replace (s + 3 - s) with 3 by lia.
  destruct (Z.ltb_spec s 0); [lia|]. destruct (Z.ltb_spec (s + 1) 0); [lia|]. destruct (Z.ltb_spec (s + 2) 0); [lia|].
  replace (Z.to_nat (s + 1)) with (Z.to_nat s + 1)%nat by lia.
  replace (Z.to_nat (s + 2)) with (Z.to_nat s + 2)%nat by lia.
  replace (Z.to_nat s) with (Z.to_nat s + 0)%nat at 2 by lia.
  rewrite <- !nth_error_skipn.
  destruct (skipn (Z.to_nat s) ref) as [|a [|b [|c t]]]; reflexivity.
Qed.

Lemma firstn_ge {A} (l : list A) n : (length l <= n)%nat -> firstn n l = l.
Proof. intros H. now apply firstn_all2. Qed.

Lemma slice_cached3 ref s : 0 <= s ->
  let n := Z.of_nat (length ref) in slice ref (pynorm n s) (pynorm n (s + 3)) = window ref s.
Proof.
  intros Hs n. rewrite <- slice3 by lia. unfold pynorm.
  destruct (Z.ltb_spec s 0); [lia|]. destruct (Z.ltb_spec (s + 3) 0); [lia|].
  unfold slice. replace (s + 3 - s) with 3 by lia.
  destruct (Z_le_gt_dec n s) as [Hge|Hlt].
  - rewrite Z.min_r by lia.
    rewrite !skipn_all2 by (unfold n in *; lia). now rewrite !firstn_nil.
  - rewrite (Z.min_l s n) by lia.
    destruct (Z_le_gt_dec (s + 3) n) as [H3|H3].
    + rewrite Z.min_l by lia. now replace (s + 3 - s) with 3 by lia.
    + rewrite Z.min_r by lia.
      assert (Hl : length (skipn (Z.to_nat s) ref) = Z.to_nat (n - s)).
      { rewrite skipn_length. unfold n. lia. }
      rewrite firstn_ge by lia. rewrite firstn_ge by lia. reflexivity.
Qed.

Lemma slice_length_le l s e : (length (slice l s e) <= Z.to_nat (e - s))%nat.
Proof. unfold slice. rewrite firstn_length. lia. Qed.

(* a context that is not three characters long is never in the table *)
Lemma spec_ctx_len k : length k <> 3%nat -> spec_ctx k = None.
Proof. destruct k as [|a [|b [|c [|d k]]]]; cbn; intros H; auto; lia. Qed.

Lemma window_len3 ref s a b c : window ref s = [a; b; c] ->
  ref_at ref s = Some a /\ ref_at ref (s + 1) = Some b /\ ref_at ref (s + 2) = Some c.
Proof.
  unfold window. destruct (ref_at ref s), (ref_at ref (s + 1)), (ref_at ref (s + 2)); intros H; try discriminate;
    injection H as -> -> ->; auto.
Qed.

Lemma window_short ref s : (ref_at ref s = None \/ ref_at ref (s + 1) = None \/ ref_at ref (s + 2) = None) ->
  length (window ref s) <> 3%nat.
Proof.
  unfold window. intros [H|[H|H]]; rewrite H; destruct (ref_at ref s); try destruct (ref_at ref (s + 1)); cbn; lia.
Qed.

(* fetch of the forward triplet, both reference kinds *)
Lemma fetch_fwd cached ref pos : 0 <= pos -> fetch cached ref pos (pos + 3) = Some (window ref pos).
Proof.
  intros H. unfold fetch. destruct cached.
  - f_equal. now apply slice_cached3.
  - destruct (Z.ltb_spec pos 0); [lia|]. destruct (Z.ltb_spec (pos + 3) pos); [lia|]. f_equal. now apply slice3.
Qed.

(* fetch of the preceding triplet: either the window, or (truncated at the contig start) something that is
   not three characters long / a ValueError *)
Lemma fetch_bwd cached ref pos : 0 <= pos ->
  (2 <= pos /\ fetch cached ref (pos - 2) (pos + 1) = Some (window ref (pos - 2))) \/
  (pos < 2 /\ match fetch cached ref (pos - 2) (pos + 1) with None => True | Some o => length o <> 3%nat end).
Proof.
  intros H. destruct (Z_le_gt_dec 2 pos) as [H2|H2].
  - left. split; auto. replace (pos + 1) with (pos - 2 + 3) by lia. apply fetch_fwd. lia.
  - right. split; [lia|]. unfold fetch. destruct cached.
    + set (n := Z.of_nat (length ref)).
      pose proof (slice_length_le ref (pynorm n (pos - 2)) (pynorm n (pos + 1))) as HL.
      assert (Hn : 0 <= n) by (unfold n; lia).
      unfold pynorm in *. destruct (Z.ltb_spec (pos - 2) 0); [|lia]. destruct (Z.ltb_spec (pos + 1) 0); [lia|].
      destruct (Z.eq_dec n 0) as [Hz|Hz].
      * unfold slice. destruct ref; [|cbn in n; lia]. rewrite skipn_nil, firstn_nil. cbn. lia.
      * assert (Z.to_nat (Z.min (pos + 1) n - Z.max 0 (pos - 2 + n)) < 3)%nat by lia. lia.
    + destruct (Z.ltb_spec (pos - 2) 0); [exact I|lia].
Qed.

Lemma upper_idem_base b : is_acgt b = true -> upper b = b.
Proof.
  unfold is_acgt. intros H. split_base b; try reflexivity.
  repeat match goal with E : (_ =? _) = false |- _ => rewrite E in H end. discriminate.
Qed.

Lemma option_map_upper_at ref i : option_map upper (ref_at ref i) = up_at ref i.
Proof. reflexivity. Qed.

(* main lemma: position_to_context computes exactly the direct specification *)
Lemma symbol_spec cached ref pos base obs :
  base = cC \/ base = cG -> 0 <= pos ->
  symbol cached ref pos base obs = spec_letter ref pos base (upper obs).
Proof.
  intros Hb Hpos. unfold symbol, symbol_t, spec_letter, context.
  destruct Hb as [-> | ->].
  - (* reference C : forward triplet *)
    change (cC =? cC) with true. cbn iota.
    rewrite fetch_fwd by lia. cbn [option_map].
    unfold up_at, neighbours. change (cC =? cC) with true. cbn iota.
    unfold window.
    destruct (ref_at ref pos) as [a|] eqn:Ea; cbn [option_map map].
    2:{ destruct (methylated cC (upper obs)); auto. rewrite lookup_table.
        change (spec_ctx []) with (@None Z). now destruct b. }
    unfold up_at.
    destruct (ref_at ref (pos + 1)) as [b|] eqn:Eb; cbn [option_map map].
    2:{ destruct (methylated cC (upper obs)) as [m|]; [rewrite lookup_table; cbn [spec_ctx option_map]; destruct m|];
        destruct (upper a =? cC); auto. }
    destruct (ref_at ref (pos + 2)) as [c|] eqn:Ec; cbn [option_map map].
    2:{ destruct (methylated cC (upper obs)) as [m|]; [rewrite lookup_table; cbn [spec_ctx option_map]; destruct m|];
        destruct (upper a =? cC); auto. }
    unfold methylated, conv. change (cC =? cC) with true. cbn iota.
    destruct (upper obs =? cT) eqn:ET.
    + rewrite lookup_table, spec_ctx_class. destruct (upper a =? cC); auto.
      try (destruct (ctx_class (upper b) (upper c)); auto; fail).
    + destruct (upper obs =? cC) eqn:EC.
      * rewrite lookup_table, spec_ctx_class. destruct (upper a =? cC); auto.
      * destruct (upper a =? cC); auto. try (destruct (ctx_class (upper b) (upper c)); auto; fail).
  - (* reference G : reverse complement of the preceding triplet *)
    change (cG =? cC) with false. change (cG =? cG) with true. cbn iota.
    unfold methylated, conv, neighbours. change (cG =? cC) with false. change (cG =? cG) with true. cbn iota.
    destruct (fetch_bwd cached ref pos Hpos) as [[H2 HF]|[H2 HF]].
    + rewrite HF. cbn [option_map]. unfold window, up_at.
      replace (pos - 2 + 1) with (pos - 1) by lia. replace (pos - 2 + 2) with pos by lia.
      destruct (ref_at ref (pos - 2)) as [a|] eqn:Ea; cbn [option_map map rev app].
      2:{ assert (ref_at ref pos = None) as ->.
          { unfold ref_at in *. destruct (Z.ltb_spec (pos - 2) 0); [lia|]. destruct (Z.ltb_spec pos 0); [lia|].
            apply nth_error_None in Ea. apply nth_error_None. lia. }
          cbn. destruct (upper obs =? cA); [rewrite lookup_table; reflexivity|].
          destruct (upper obs =? cG); [rewrite lookup_table; reflexivity|reflexivity]. }
      destruct (ref_at ref (pos - 1)) as [b|] eqn:Eb; cbn [option_map map rev app].
      2:{ assert (ref_at ref pos = None) as ->.
          { unfold ref_at in *. destruct (Z.ltb_spec (pos - 1) 0); [lia|]. destruct (Z.ltb_spec pos 0); [lia|].
            apply nth_error_None in Eb. apply nth_error_None. lia. }
          cbn. destruct (upper obs =? cA); [rewrite lookup_table; reflexivity|].
          destruct (upper obs =? cG); [rewrite lookup_table; reflexivity|reflexivity]. }
      destruct (ref_at ref pos) as [c|] eqn:Ec; cbn [option_map map rev app].
      2:{ destruct (upper obs =? cA); [rewrite lookup_table; reflexivity|].
          destruct (upper obs =? cG); [rewrite lookup_table; reflexivity|reflexivity]. }
      destruct (upper obs =? cA) eqn:EA.
      * rewrite lookup_table, spec_ctx_class, compl_is_C. destruct (upper c =? cG); auto.
        try (destruct (ctx_class (compl (upper b)) (compl (upper a))); auto; fail).
      * destruct (upper obs =? cG) eqn:EG.
        -- rewrite lookup_table, spec_ctx_class, compl_is_C. destruct (upper c =? cG); auto.
        -- fin.
    + (* truncated at the contig start *)
      assert (Hn : up_at ref (pos - 2) = None).
      { unfold up_at, ref_at. destruct (Z.ltb_spec (pos - 2) 0); [reflexivity|lia]. }
      rewrite Hn.
      transitivity cDot.
      * destruct (fetch cached ref (pos - 2) (pos + 1)) as [o|]; cbn [option_map]; auto.
        assert (HL : length (rev (map compl (map upper o))) <> 3%nat) by (rewrite rev_length, !map_length; exact HF).
        destruct (upper obs =? cA); [rewrite lookup_table, (spec_ctx_len _ HL); reflexivity|].
        destruct (upper obs =? cG); [rewrite lookup_table, (spec_ctx_len _ HL); reflexivity|reflexivity].
      * symmetry. fin.
Qed.

(* ---- readable consequences of spec_letter *)
Definition is_call_letter (l : Z) : bool :=
  (l =? c_z) || (l =? c_x) || (l =? c_h) || (l =? c_Z) || (l =? c_X) || (l =? c_H).
Definition is_upper_letter (l : Z) : bool := (l =? c_Z) || (l =? c_X) || (l =? c_H).
Definition is_lower_letter (l : Z) : bool := (l =? c_z) || (l =? c_x) || (l =? c_h).

Lemma ctx_class_letter n1 n2 l : ctx_class n1 n2 = Some l -> l = c_z \/ l = c_x \/ l = c_h.
Proof.
  unfold ctx_class. destruct (is_acgt n1 && is_acgt n2); [|discriminate].
  destruct (n1 =? cG); [intros [= <-]; auto|]. destruct (n2 =? cG); intros [= <-]; auto.
Qed.

(* every symbol is one of  z x h Z X H .  *)
Lemma spec_letter_range ref pos base cons :
  spec_letter ref pos base cons = cDot \/ is_call_letter (spec_letter ref pos base cons) = true.
Proof.
  unfold spec_letter. destruct (up_at ref pos); auto. destruct (z =? base); auto.
  destruct (neighbours ref pos base) as [[n1 n2]|]; auto.
  destruct (ctx_class n1 n2) as [l|] eqn:E; auto. apply ctx_class_letter in E.
  destruct (cons =? conv base); [right; destruct E as [->|[->| ->]]; reflexivity|].
  destruct (cons =? base); [right; destruct E as [->|[->| ->]]; reflexivity|auto].
Qed.

(* a letter (not '.') means: the reference base at pos is the expected base, both strand-neighbours are inside
   the contig and ACGT, the letter names their class, and its case reports the observed base *)
Lemma spec_letter_called ref pos base cons l :
  base = cC \/ base = cG ->
  spec_letter ref pos base cons = l -> l <> cDot ->
  up_at ref pos = Some base /\
  exists n1 n2, neighbours ref pos base = Some (n1, n2) /\ is_acgt n1 = true /\ is_acgt n2 = true /\
    (cons = conv base \/ cons = base) /\
    l = (let low := if n1 =? cG then c_z else if n2 =? cG then c_x else c_h in
         if cons =? conv base then upper low else low).
Proof.
  intros Hb. unfold spec_letter. destruct (up_at ref pos) as [b0|]; [|congruence].
  destruct (Z.eqb_spec b0 base) as [->|]; [|congruence].
  destruct (neighbours ref pos base) as [[n1 n2]|]; [|congruence].
  unfold ctx_class. destruct (is_acgt n1 && is_acgt n2) eqn:E; [|congruence].
  apply andb_true_iff in E as [E1 E2].
  intros H Hd. split; auto. exists n1, n2. repeat split; auto.
  - destruct (Z.eqb_spec cons (conv base)); auto. destruct (Z.eqb_spec cons base); auto. congruence.
  - destruct (cons =? conv base); auto. destruct (cons =? base); auto. congruence.
Qed.

Lemma conv_neq base : base = cC \/ base = cG -> conv base <> base.
Proof. intros [-> | ->]; vm_compute; congruence. Qed.

(* upper case exactly when the consensus shows the conversion; lower case exactly when it shows the
   unconverted base *)
Lemma spec_letter_case ref pos base cons :
  base = cC \/ base = cG ->
  let l := spec_letter ref pos base cons in
  l <> cDot -> (is_upper_letter l = true <-> cons = conv base) /\ (is_lower_letter l = true <-> cons = base).
Proof.
  intros Hb l Hd. destruct (spec_letter_called ref pos base cons l Hb eq_refl Hd) as [_ [n1 [n2 [_ [_ [_ [Hc Hl]]]]]]].
  pose proof (conv_neq base Hb) as Hne. cbv zeta in Hl.
  destruct (Z.eqb_spec cons (conv base)) as [E|E].
  - split; split; intros; auto.
    + rewrite Hl. destruct (n1 =? cG); [|destruct (n2 =? cG)]; reflexivity.
    + exfalso. rewrite Hl in H. destruct (n1 =? cG); [|destruct (n2 =? cG)]; vm_compute in H; congruence.
    + exfalso. congruence.
  - destruct Hc as [Hc|Hc]; [congruence|]. split; split; intros; auto.
    + exfalso. rewrite Hl in H. destruct (n1 =? cG); [|destruct (n2 =? cG)]; vm_compute in H; congruence.
    + rewrite Hl. destruct (n1 =? cG); [|destruct (n2 =? cG)]; reflexivity.
Qed.
