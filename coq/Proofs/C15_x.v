(* C15 proofs, part x: the request as a whole - what is raised, what is skipped, several contigs -
   and the tie of the executable model (call_fast / col_qual_fast) to the model of the theorems. *)
From Coq Require Import ZArith List Bool Lia QArith.
Import ListNotations.
From SCMO Require Import Lib.Val Lib.PyInt Gen.GenDedup Model.C15 Proofs.C15_g Proofs.C15_a Proofs.C15_c Proofs.C15 Proofs.C15_q.
Open Scope Z_scope.

Lemma run_model_is_call tab ttab ref maxN m reads : valid_tab tab = true ->
  consensus (fun os => fst (call_fast (pc_of tab) os)) (col_qual_fast (pc_of tab) ttab) ref maxN m reads =
  consensus (fun os => fst (call (pc_of tab) os)) (col_qual (pc_of tab) (tt_of ttab)) ref maxN m reads.
Proof.
  intros Hv. apply consensus_ext; intros os.
  - apply call_fast_correct. now apply pc_of_range.
  - apply col_qual_fast_correct. now apply pc_of_range.
Qed.

Section X.
  Variables caller qcaller : list (Z * Z) -> Z.
  Variable maxN : option Z.
  Variable m : meta.

  (* no chromosome: no record, no exception - whatever else is missing *)
  Lemma x_no_chromosome ref creads : consensus_x caller qcaller ref maxN m None creads = Records None [].
  Proof. reflexivity. Qed.

  (* a chromosome but no aligned base: ValueError, with or without a reference *)
  Lemma x_no_coverage ref k creads : all_obs (map snd creads) = [] ->
    consensus_x caller qcaller ref maxN m (Some k) creads = RaiseNoCoverage.
  Proof.
    intros H. unfold consensus_x.
    now rewrite (proj2 (consensus_none caller qcaller (match ref with Some f => f | None => fun _ => baseN end) maxN m _) H).
  Qed.

  (* aligned bases but no reference attached: AttributeError and no record at all *)
  Lemma x_no_reference k creads : all_obs (map snd creads) <> [] ->
    consensus_x caller qcaller None maxN m (Some k) creads = RaiseNoReference.
  Proof.
    intros H. unfold consensus_x.
    destruct (consensus caller qcaller (fun _ => baseN) maxN m (map snd creads)) eqn:E; [reflexivity|].
    apply consensus_none in E. contradiction.
  Qed.

  (* otherwise: the records of [consensus] over ALL reads, each on the molecule's chromosome *)
  Lemma x_records f k creads : all_obs (map snd creads) <> [] ->
    exists recs, consensus_x caller qcaller (Some f) maxN m (Some k) creads = Records (Some k) recs /\
                 consensus caller qcaller f maxN m (map snd creads) = Some recs.
  Proof.
    intros H. unfold consensus_x.
    destruct (consensus caller qcaller f maxN m (map snd creads)) as [recs|] eqn:E.
    - exists recs. split; reflexivity.
    - apply consensus_none in E. contradiction.
  Qed.

  (* the four outcomes are exhaustive and exclusive *)
  Lemma x_outcome ref chrom creads :
    match consensus_x caller qcaller ref maxN m chrom creads with
    | Records None recs => chrom = None /\ recs = []
    | Records (Some k) recs => chrom = Some k /\ all_obs (map snd creads) <> [] /\
                               exists f, ref = Some f /\ consensus caller qcaller f maxN m (map snd creads) = Some recs
    | RaiseNoCoverage => chrom <> None /\ all_obs (map snd creads) = []
    | RaiseNoReference => chrom <> None /\ all_obs (map snd creads) <> [] /\ ref = None
    end.
  Proof.
    unfold consensus_x. destruct chrom as [k|]; [|split; reflexivity].
    destruct (consensus caller qcaller (match ref with Some f => f | None => fun _ => baseN end) maxN m (map snd creads))
      as [recs|] eqn:E.
    - assert (Hne : all_obs (map snd creads) <> []).
      { intros Hnil. rewrite (proj2 (consensus_none caller qcaller _ maxN m _) Hnil) in E. discriminate. }
      destruct ref as [f|].
      + split; [reflexivity|]. split; [assumption|]. exists f. split; [reflexivity|assumption].
      + split; [discriminate|]. split; [assumption|reflexivity].
    - apply consensus_none in E. split; [discriminate|assumption].
  Qed.

  (* every read that contributes an observation lies on the molecule's chromosome: the records align
     exactly the positions covered on that contig *)
  Lemma all_obs_on k : forall creads,
    Forall (fun cr => fst cr = k \/ read_obs (snd cr) = []) creads ->
    all_obs (map snd creads) = all_obs (reads_on k creads).
  Proof.
    unfold all_obs, reads_on. induction creads as [|[c r] t IH]; intros H; [reflexivity|].
    inversion H as [|? ? Hc Ht]; subst. cbn [map filter flat_map fst snd]. rewrite (IH Ht).
    destruct (c =? k) eqn:E.
    - reflexivity.
    - destruct Hc as [Hc|Hc]; [cbn in Hc; apply Z.eqb_neq in E; contradiction|].
      cbn [snd] in Hc. rewrite Hc. reflexivity.
  Qed.

  Lemma x_single_contig f k creads recs :
    Forall (fun cr => fst cr = k \/ read_obs (snd cr) = []) creads ->
    consensus_x caller qcaller (Some f) maxN m (Some k) creads = Records (Some k) recs ->
    flat_map rec_positions recs = covered (reads_on k creads).
  Proof.
    intros Hall H. pose proof (x_outcome (Some f) (Some k) creads) as Ho. rewrite H in Ho.
    destruct Ho as (_ & _ & f' & Hf & Hc). injection Hf as <-.
    destruct (blocks_exact _ _ _ _ _ _ _ Hc) as (Hb & _). rewrite Hb. unfold covered.
    now rewrite (all_obs_on k creads Hall).
  Qed.
End X.

(* reads on two contigs in one molecule (a chimeric pair, or add_molecule of a molecule on another
   contig): the positions are pooled and the record on the molecule's chromosome aligns positions that
   no read covers on that contig *)
Lemma x_multicontig_refuted :
  let tab := map (fun q => if q =? 0 then 0 else 2 ^ 60 - 2 ^ (60 - q)) (zrange 0 42) in
  let m := mkMeta [83] (Some [85]) None [66] 2 0 (Some false) [60; 60] in
  let creads := [ (0, mkRead 10 [(0,3)] [65;65;65] [30;30;30]); (1, mkRead 20 [(0,3)] [67;67;67] [30;30;30]) ] in
  exists recs,
    consensus_x (fun os => fst (call (pc_of tab) os)) (col_qual (pc_of tab) []) (Some (fun _ => 67)) None m (Some 1) creads
      = Records (Some 1) recs /\
    flat_map rec_positions recs = [10; 11; 12; 20; 21; 22] /\
    covered (reads_on 1 creads) = [20; 21; 22].
Proof. cbn zeta. eexists. split; [vm_compute; reflexivity|]. split; vm_compute; reflexivity. Qed.
