(* C08: concrete instances (non-vacuity of the hypotheses of C08_equiv; the defect witness of the
   historical stopping criterion). *)
From Coq Require Import ZArith List Bool Lia ZifyBool Permutation Arith Sorted.
Import ListNotations.
From SCMO Require Import Lib.Val Gen.GenOwner Model.C08 Proofs.C08_a Proofs.C08_b Proofs.C08.
Open Scope Z_scope.

(* ---- the concrete instances of the executable model satisfy the hypotheses on g / partial *)
Lemma g_one_sub : forall l m f, In m (g_one l) -> In f m -> In f l.
Proof. intros l m f Hm Hf. unfold g_one in Hm. destruct l; [destruct Hm|]. destruct Hm as [<-|[]]. exact Hf. Qed.

Lemma g_one_nonempty : forall l m, In m (g_one l) -> m <> [].
Proof. intros l m Hm. unfold g_one in Hm. destruct l; [destruct Hm|]. destruct Hm as [<-|[]]. discriminate. Qed.

Lemma partial_nla_site : forall t f,
  f_site (partial_nla t f) = None \/ f_site (partial_nla t f) = f_site f \/
  exists r, In r (f_reads f) /\ f_site (partial_nla t f) = Some (r_lo r).
Proof.
  intros t f. unfold partial_nla. destruct (f_reads f) as [|r1 rest] eqn:E.
  - right. left. reflexivity.
  - destruct (overlaps t r1).
    + right. left. reflexivity.
    + cbn [f_site]. destruct (fetched_reads t f) as [|r l] eqn:F.
      * left. reflexivity.
      * right. right. exists r. split; [|reflexivity].
        assert (In r (fetched_reads t f)) as X by (rewrite F; left; reflexivity).
        unfold fetched_reads in X. apply filter_In in X. rewrite <- E. tauto.
Qed.

Lemma partial_nla_contig : forall t f, f_contig (partial_nla t f) = f_contig f.
Proof. intros t f. unfold partial_nla. destruct (f_reads f); [reflexivity|]. destruct (overlaps t r); reflexivity. Qed.

(* ---- decidable form of "the hash determines contig and site" over a finite universe *)
Definition opt_eqb (a b : option Z) : bool :=
  match a, b with Some x, Some y => x =? y | None, None => true | _, _ => false end.
Definition univ (ps : list contig_plan) (fs : list frag) : list frag :=
  fs ++ flat_map (fun t => job_frags partial_nla t fs) (plan_tasks ps).
Definition ksite_of (u : list frag) (k : Z) : option Z :=
  match find (has_key k) u with Some f => f_site f | None => None end.
Definition kcontig_of (u : list frag) (k : Z) : Z :=
  match find (has_key k) u with Some f => f_contig f | None => 0 end.
Definition keyed_b (u : list frag) (f : frag) : bool :=
  opt_eqb (f_site f) (ksite_of u (f_key f)) && (f_contig f =? kcontig_of u (f_key f)).

Lemma keyed_b_ok : forall u f, keyed_b u f = true -> keyed (ksite_of u) (kcontig_of u) f.
Proof.
  intros u f H. unfold keyed_b in H. apply andb_prop in H. destruct H as [H1 H2]. split; [|lia].
  unfold opt_eqb in H1. destruct (f_site f), (ksite_of u (f_key f)); try discriminate; [f_equal; lia|reflexivity].
Qed.

(* all hypotheses of the equivalence theorem follow from three boolean checks *)
Lemma equiv_checked : forall L ps fs (tagf : mol -> frag -> read -> Z) jobs,
  plans_ok L ps = true -> frags_ok L ps fs = true -> forallb (keyed_b (univ ps fs)) (univ ps fs) = true ->
  Permutation (concat jobs) (plan_tasks ps) ->
  Permutation (flat_map (write tagf) (parallel g_one partial_nla jobs fs))
              (flat_map (write tagf) (filter (covered_mol ps) (serial g_one fs))).
Proof.
  intros L ps fs tagf jobs Hp Hf Hk Hperm. rewrite forallb_forall in Hk.
  apply (equiv_records g_one g_one_sub g_one_nonempty partial_nla (ksite_of (univ ps fs)) (kcontig_of (univ ps fs)) L ps fs Hp Hf).
  - intros f Hin. apply keyed_b_ok, Hk. unfold univ. apply in_or_app. left. exact Hin.
  - intros t f Ht Hin Hj. apply keyed_b_ok, Hk. unfold univ. apply in_or_app. right.
    apply in_flat_map. exists t. split; [exact Ht|]. unfold job_frags. apply in_flat_map. exists f. split; assumption.
  - intros t f _ _. apply partial_nla_site.
  - intros t f _ _ Hc. rewrite partial_nla_contig. exact Hc.
  - exact Hperm.
Qed.

(* ---- example: two contigs, contig 0 tiled in two bins of 1000 with margin 100, unmapped reads on
   contig -1; a molecule with site 990 whose mate ends at 1090 (straddles the bin boundary), a
   reverse read with site 1146 that overlaps the first fetch window, a duplicate pair *)
Definition mk (c s e fs fe : Z) : task := {| t_contig := c; t_region := true; t_start := s; t_end := e; t_fs := fs; t_fe := fe |}.
Definition whole (c : Z) : task := {| t_contig := c; t_region := false; t_start := 0; t_end := 0; t_fs := 0; t_fe := 0 |}.
Definition rd (i lo hi : Z) : read := {| r_id := i; r_lo := lo; r_hi := hi |}.
Definition fr (i k c : Z) (s : option Z) (rs : list read) : frag := {| f_id := i; f_key := k; f_contig := c; f_site := s; f_reads := rs |}.

Definition ex_t0 := mk 0 0 1000 0 1100.
Definition ex_t1 := mk 0 1000 2000 900 2000.
Definition ex_ps : list contig_plan := [(-1, 0, [whole (-1)]); (0, 2000, [ex_t0; ex_t1]); (1, 500, [mk 1 0 500 0 500])].
Definition ex_fs : list frag :=
  [ fr 0 10 0 (Some 100) [rd 0 100 140; rd 1 150 180];
    fr 1 10 0 (Some 100) [rd 2 100 140; rd 3 140 170];
    fr 2 11 0 (Some 990) [rd 4 990 1030; rd 5 1060 1090];
    fr 3 12 0 (Some 1146) [rd 6 1050 1150];
    fr 4 13 0 (Some 1000) [rd 8 964 1004; rd 9 905 935];
    fr 5 14 1 (Some 496) [rd 10 460 500; rd 11 420 450];
    fr 6 15 (-1) None [rd 12 0 1];
    fr 7 16 0 (Some 850) [rd 14 850 890; rd 15 905 935] ].
Definition ex_jobs : list (list task) := [[ex_t1; mk 1 0 500 0 500]; []; [ex_t0]; [whole (-1)]].
Definition ex_tag (m : mol) (f : frag) (r : read) : Z := Z.of_nat (length m) * 1000 + f_id (hd f m).

Lemma ex_hyps : plans_ok 100 ex_ps = true /\ frags_ok 100 ex_ps ex_fs = true /\
  forallb (keyed_b (univ ex_ps ex_fs)) (univ ex_ps ex_fs) = true /\
  Permutation (concat ex_jobs) (plan_tasks ex_ps) /\
  forallb (covered_mol ex_ps) (serial g_one ex_fs) = true.
Proof.
  repeat split; try (vm_compute; reflexivity).
  cbv [ex_jobs concat app plan_tasks ex_ps flat_map snd].
  apply perm_trans with ([ex_t1; mk 1 0 500 0 500; whole (-1); ex_t0]).
  - repeat constructor.
  - apply perm_trans with ([ex_t1; whole (-1); mk 1 0 500 0 500; ex_t0]); [repeat constructor|].
    apply perm_trans with ([whole (-1); ex_t1; mk 1 0 500 0 500; ex_t0]); [repeat constructor|].
    constructor. apply perm_trans with ([ex_t1; ex_t0; mk 1 0 500 0 500]); [repeat constructor|]. repeat constructor.
Qed.

Lemma ex_equiv :
  Permutation (flat_map (write ex_tag) (parallel g_one partial_nla ex_jobs ex_fs))
              (flat_map (write ex_tag) (serial g_one ex_fs)).
Proof.
  destruct ex_hyps as (A & B & C & D & E).
  rewrite (equiv_checked 100 ex_ps ex_fs ex_tag ex_jobs A B C D).
  rewrite (filter_const_in _ true); [reflexivity|]. rewrite forallb_forall in E. exact E.
Qed.

(* what the tasks write in this example: the molecule with site 990 by the first bin only, the one with
   site 1000 (whose mate starts at 905, inside the margin) by the second bin only; the second job sees
   fragment 7 without its first read (a private key, -8) and does not write it *)
Lemma ex_owners :
  map (fun t => mol_read_ids (job_run g_one partial_nla t ex_fs)) [ex_t0; ex_t1] =
  [[0; 1; 2; 3; 4; 5; 14; 15]; [6; 8; 9]] /\
  map (fun t => map f_key (job_frags partial_nla t ex_fs)) [ex_t0; ex_t1] = [[10; 10; 11; 12; 13; 16]; [11; 12; 13; -8]].
Proof. vm_compute. split; reflexivity. Qed.

(* ---- the historical stopping criterion loses an owned molecule when the emission order is not the
   site order: the job of the first bin sees the reverse read (site 1146 >= fetch_end 1100, starts at
   1050) before the pair completed at 1060 (site 990) *)
Definition ex_emission : list mol :=
  [ [fr 3 12 0 (Some 1146) [rd 6 1050 1150]]; [fr 2 11 0 (Some 990) [rd 4 990 1030; rd 5 1060 1090]] ].

Lemma break_unsafe_witness :
  margin_ok 100 2000 ex_t0 = true /\
  forallb (fun m => forallb (frag_ok 100 2000) m) ex_emission = true /\
  mol_read_ids (filter (writes ex_t0) ex_emission) = [4; 5] /\
  mol_read_ids (job_loop_gen act_with_stop ex_t0 ex_emission) = [].
Proof. vm_compute. repeat split. Qed.

(* ---- D11: a molecule without any site on a tiled contig is written by the serial pass and by the
   whole-contig task of contig-per-process mode, and by no region task *)
Definition ex_nosite_fs : list frag := [fr 0 1 0 None [rd 0 1700 1701]; fr 1 2 0 (Some 100) [rd 2 100 140]].
Definition ex_nosite_ps : list contig_plan := [(0, 2000, [ex_t0; ex_t1])].

Lemma siteless_witness :
  plans_ok 100 ex_nosite_ps = true /\ frags_ok 100 ex_nosite_ps ex_nosite_fs = true /\
  mol_read_ids (serial g_one ex_nosite_fs) = [0; 2] /\
  mol_read_ids (parallel g_one partial_nla [[ex_t0]; [ex_t1]] ex_nosite_fs) = [2] /\
  mol_read_ids (parallel g_one partial_nla [[whole 0]] ex_nosite_fs) = [0; 2].
Proof. vm_compute. repeat split. Qed.

Lemma siteless_refuted : exists ps fs jobs,
  plans_ok 100 ps = true /\ frags_ok 100 ps fs = true /\ Permutation (concat jobs) (plan_tasks ps) /\
  mol_read_ids (serial g_one fs) = [0; 2] /\ mol_read_ids (parallel g_one partial_nla jobs fs) = [2] /\
  mol_read_ids (parallel g_one partial_nla [[whole 0]] fs) = [0; 2].
Proof.
  exists ex_nosite_ps, ex_nosite_fs, [[ex_t0]; [ex_t1]].
  destruct siteless_witness as (A & B & C & D & E). repeat split; try assumption. apply Permutation_refl.
Qed.
