(* C08 proofs, part a: list toolkit, the generated gate, ownership counting. *)
From Coq Require Import ZArith List Bool Lia ZifyBool Permutation Arith.
Import ListNotations.
From SCMO Require Import Lib.Val Gen.GenOwner Model.C08.
Open Scope Z_scope.

(* ------------------------------------------------------------------ list toolkit *)
Lemma flat_map_nil_fun {A B} (l : list A) : flat_map (fun _ : A => @nil B) l = [].
Proof. induction l; simpl; auto. Qed.

Lemma filter_flat_map {A B} (p : B -> bool) (f : A -> list B) (l : list A) :
  filter p (flat_map f l) = flat_map (fun x => filter p (f x)) l.
Proof. induction l as [|a l IH]; simpl; [reflexivity|]. rewrite filter_app, IH. reflexivity. Qed.

Lemma flat_map_filter_if {A B} (p : A -> bool) (f : A -> list B) (l : list A) :
  flat_map f (filter p l) = flat_map (fun x => if p x then f x else []) l.
Proof. induction l as [|a l IH]; simpl; [reflexivity|]. destruct (p a); simpl; rewrite IH; reflexivity. Qed.

Lemma filter_const_in {A} (p : A -> bool) (b : bool) (l : list A) :
  (forall x, In x l -> p x = b) -> filter p l = if b then l else [].
Proof.
  induction l as [|a l IH]; intros H; simpl.
  - destruct b; reflexivity.
  - rewrite (H a (or_introl eq_refl)). rewrite IH by (intros x Hx; apply H; right; exact Hx).
    destruct b; reflexivity.
Qed.

Lemma flat_map_app_perm {A B} (p q : A -> list B) (l : list A) :
  Permutation (flat_map (fun a => p a ++ q a) l) (flat_map p l ++ flat_map q l).
Proof.
  induction l as [|a l IH]; simpl; [constructor|].
  rewrite IH. rewrite <- !app_assoc. apply Permutation_app_head.
  rewrite !app_assoc. apply Permutation_app_tail. apply Permutation_app_comm.
Qed.

Lemma flat_map_swap {A B C} (f : A -> B -> list C) (la : list A) (lb : list B) :
  Permutation (flat_map (fun a => flat_map (f a) lb) la)
              (flat_map (fun b => flat_map (fun a => f a b) la) lb).
Proof.
  induction la as [|a la IH]; simpl.
  - rewrite flat_map_nil_fun. constructor.
  - rewrite IH. symmetry. apply flat_map_app_perm.
Qed.

Lemma flat_map_if_count {A B} (p : A -> bool) (x : list B) (l : list A) :
  flat_map (fun a => if p a then x else []) l = concat (repeat x (length (filter p l))).
Proof. induction l as [|a l IH]; simpl; [reflexivity|]. destruct (p a); simpl; rewrite IH; reflexivity. Qed.

Lemma flat_map_concat {A B} (f : A -> list B) (ll : list (list A)) :
  flat_map (fun l => flat_map f l) ll = flat_map f (concat ll).
Proof. induction ll as [|l ll IH]; simpl; [reflexivity|]. rewrite flat_map_app, IH. reflexivity. Qed.

Lemma distinct_NoDup (l : list Z) : distinct l = true -> NoDup l.
Proof.
  induction l as [|x l IH]; simpl; intros H; [constructor|].
  apply andb_prop in H. destruct H as [H1 H2]. constructor; [|apply IH; exact H2].
  intros Hin. apply negb_true_iff in H1.
  assert (existsb (Z.eqb x) l = true) as E by (apply existsb_exists; exists x; split; [exact Hin|apply Z.eqb_refl]).
  congruence.
Qed.

(* ------------------------------------------------------------------ the generated gate *)
(* THE tie: the regenerated gate writes exactly the molecules whose site lies in [start,end) on the
   task's contig, skips everything else and never stops.  (With the historical stopping criterion
   in the source this lemma is false and the build fails; see act_with_stop / C08_break_unsafe.) *)
Lemma region_action_spec : forall site c s e fs fe,
  region_action site c s e fs fe =
  match site with
  | None => ASkip
  | Some (cc, p) => if (cc =? c) && (s <=? p) && (p <? e) then AWrite else ASkip
  end.
Proof.
  intros [[cc p]|] c s e fs fe; unfold region_action; [|reflexivity].
  destruct (cc =? c) eqn:E1, (p <? s) eqn:E2, (p >=? e) eqn:E3, (s <=? p) eqn:E4, (p <? e) eqn:E5;
    cbn [negb orb andb]; try reflexivity; lia.
Qed.

Lemma owns_spec : forall t c s,
  owns t c s = (c =? t_contig t) && (t_start t <=? s) && (s <? t_end t).
Proof. intros t c s. unfold owns. rewrite region_action_spec. destruct ((c =? t_contig t) && (t_start t <=? s) && (s <? t_end t)); reflexivity. Qed.

(* does the loop of task t write molecule m *)
Definition writes (t : task) (m : mol) : bool :=
  if t_region t then match mol_site m with Some (c, p) => owns t c p | None => false end else true.

Lemma job_loop_filter : forall t ms, job_loop t ms = filter (writes t) ms.
Proof.
  intros t ms. unfold job_loop. induction ms as [|m r IH]; [reflexivity|].
  cbn [job_loop_gen filter]. unfold writes at 1. destruct (t_region t) eqn:R.
  - rewrite region_action_spec. destruct (mol_site m) as [[c p]|].
    + rewrite owns_spec. destruct ((c =? t_contig t) && (t_start t <=? p) && (p <? t_end t)); rewrite IH; reflexivity.
    + exact IH.
  - rewrite IH. reflexivity.
Qed.

(* ------------------------------------------------------------------ ownership counting *)
Lemma chain_le : forall c ts lo hi, chain c lo hi ts = true -> lo <= hi.
Proof.
  intros c ts. induction ts as [|t r IH]; intros lo hi H; cbn [chain] in H.
  - lia.
  - repeat (apply andb_prop in H; destruct H as [H ?]). specialize (IH _ _ H0). lia.
Qed.

Lemma chain_tasks : forall c ts lo hi t, chain c lo hi ts = true -> In t ts ->
  t_region t = true /\ t_contig t = c /\ lo <= t_start t /\ t_start t < t_end t /\ t_end t <= hi.
Proof.
  intros c ts. induction ts as [|a r IH]; intros lo hi t H Hin; [destruct Hin|].
  cbn [chain] in H. repeat (apply andb_prop in H; destruct H as [H ?]).
  pose proof (chain_le _ _ _ _ H0) as Hle.
  destruct Hin as [->|Hin].
  - repeat split; lia.
  - destruct (IH _ _ _ H0 Hin) as (A & B & C & D & E). repeat split; lia.
Qed.

Lemma chain_count : forall c ts lo hi s, chain c lo hi ts = true ->
  length (filter (fun t => owns t c s) ts) = if (lo <=? s) && (s <? hi) then 1%nat else 0%nat.
Proof.
  intros c ts. induction ts as [|t r IH]; intros lo hi s H; cbn [chain] in H.
  - cbn [filter length]. destruct ((lo <=? s) && (s <? hi)) eqn:E; [lia|reflexivity].
  - repeat (apply andb_prop in H; destruct H as [H ?]).
    pose proof (chain_le _ _ _ _ H0) as Hle.
    cbn [filter]. rewrite owns_spec. specialize (IH _ _ s H0).
    destruct ((c =? t_contig t) && (t_start t <=? s) && (s <? t_end t)) eqn:E1;
      cbn [length]; rewrite IH;
      destruct ((t_end t <=? s) && (s <? hi)) eqn:E2; destruct ((lo <=? s) && (s <? hi)) eqn:E3; try reflexivity; lia.
Qed.

Lemma chain_count_other : forall c ts lo hi c' s, chain c lo hi ts = true -> c' <> c ->
  length (filter (fun t => owns t c' s) ts) = 0%nat.
Proof.
  intros c ts lo hi c' s H Hne.
  rewrite (filter_const_in _ false); [reflexivity|].
  intros t Hin. destruct (chain_tasks _ _ _ _ _ H Hin) as (_ & Hc & _). rewrite owns_spec.
  destruct (c' =? t_contig t) eqn:E; [lia|reflexivity].
Qed.

(* covered: the (contig, site) of a hash group is handled by some task of the plans *)
Definition covered_by (p : contig_plan) (c : Z) (s : option Z) : bool :=
  let '(pc, len, ts) := p in
  (c =? pc) &&
  match ts with
  | [t] => if t_region t then match s with Some x => (0 <=? x) && (x <? len) | None => false end else true
  | _ => match s with Some x => (0 <=? x) && (x <? len) | None => false end
  end.
Definition covered (ps : list contig_plan) (c : Z) (s : option Z) : bool := existsb (fun p => covered_by p c s) ps.

Lemma accepts_region_list : forall ts c s, (forall t, In t ts -> t_region t = true) ->
  filter (fun t => accepts t c s) ts = match s with Some x => filter (fun t => owns t c x) ts | None => [] end.
Proof.
  intros ts c s H. induction ts as [|t r IH]; [destruct s; reflexivity|].
  cbn [filter]. unfold accepts at 1. rewrite (H t (or_introl eq_refl)).
  rewrite IH by (intros u Hu; apply H; right; exact Hu). destruct s; reflexivity.
Qed.

Lemma plan_count : forall L p c s, plan_ok L p = true ->
  n_accept (snd p) c s = if covered_by p c s then 1%nat else 0%nat.
Proof.
  intros L [[pc len] ts] c s H. unfold n_accept. cbn [snd]. unfold plan_ok in H. unfold covered_by.
  assert (Hreg : chain pc 0 len ts = true ->
                 length (filter (fun t => accepts t c s) ts) =
                 if (c =? pc) && match s with Some x => (0 <=? x) && (x <? len) | None => false end then 1%nat else 0%nat).
  { intros Hc. rewrite accepts_region_list by (intros t Ht; apply (chain_tasks _ _ _ _ _ Hc Ht)).
    destruct s as [x|]; [|rewrite andb_false_r; reflexivity].
    destruct (c =? pc) eqn:E.
    - assert (c = pc) by lia. subst c. rewrite (chain_count _ _ _ _ x Hc). reflexivity.
    - rewrite (chain_count_other _ _ _ _ c x Hc) by lia. reflexivity. }
  destruct ts as [|t [|t2 r]].
  - apply andb_prop in H. destruct H as [H _]. exact (Hreg H).
  - destruct (t_region t) eqn:R.
    + apply andb_prop in H. destruct H as [H _]. exact (Hreg H).
    + cbn [filter]. unfold accepts. rewrite R. rewrite andb_true_r.
      assert (t_contig t = pc) by lia. subst pc. destruct (c =? t_contig t); reflexivity.
  - apply andb_prop in H. destruct H as [H _]. exact (Hreg H).
Qed.

Lemma covered_by_contig : forall p c s, covered_by p c s = true -> c = fst (fst p).
Proof. intros [[pc len] ts] c s H. unfold covered_by in H. apply andb_prop in H. cbn. lia. Qed.

Lemma n_accept_app : forall a b c s, n_accept (a ++ b) c s = (n_accept a c s + n_accept b c s)%nat.
Proof. intros. unfold n_accept. rewrite filter_app, app_length. reflexivity. Qed.

(* every (contig, site) is accepted by exactly one task when covered and by none otherwise *)
Lemma plans_count : forall L ps c s, plans_ok L ps = true ->
  n_accept (plan_tasks ps) c s = if covered ps c s then 1%nat else 0%nat.
Proof.
  intros L ps c s H. unfold plans_ok in H. apply andb_prop in H. destruct H as [Hall Hd].
  apply distinct_NoDup in Hd. unfold plan_tasks, covered.
  induction ps as [|p ps IH]; [reflexivity|].
  cbn [flat_map existsb]. rewrite n_accept_app.
  cbn [forallb] in Hall. apply andb_prop in Hall. destruct Hall as [Hp Hall].
  cbn [plan_contigs map] in Hd. inversion Hd as [|x l Hnotin Hnd]; subst.
  rewrite (plan_count L p c s Hp). rewrite (IH Hall Hnd).
  destruct (covered_by p c s) eqn:E1; [|reflexivity].
  destruct (existsb (fun p0 => covered_by p0 c s) ps) eqn:E2; [|reflexivity].
  exfalso. apply existsb_exists in E2. destruct E2 as [q [Hq Hcq]].
  apply covered_by_contig in E1. apply covered_by_contig in Hcq.
  apply Hnotin. rewrite <- E1, Hcq. apply (in_map (fun p0 : contig_plan => fst (fst p0))). exact Hq.
Qed.
