(* C17 extension proofs: blacklisted_binning_contigs is, contig by contig in input order, the tiling of that
   contig; the per-contig partition / window theorems lifted to the genome; the bp budget rule of bp_chunked. *)
From Coq Require Import ZArith List Bool Lia ZifyBool Arith.
Import ListNotations.
From SCMO Require Import Lib.Val Lib.Tiling Lib.TilingFacts Gen.GenTiling Model.C17 Model.C17bed Model.C17x
     Proofs.C17_shape Proofs.C17 Proofs.C17bed.
Open Scope Z_scope.

(* ================================================================== names *)
Lemma name_eqb_eq : forall a b, name_eqb a b = true <-> a = b.
Proof.
  induction a as [| x a IH]; destruct b as [| y b]; cbn [name_eqb]; try (split; [discriminate | congruence]); [tauto |].
  rewrite andb_true_iff, Z.eqb_eq, IH. split; [intros (-> & ->); reflexivity | intros H; inversion H; auto].
Qed.

Lemma name_eqb_refl a : name_eqb a a = true.
Proof. apply name_eqb_eq. reflexivity. Qed.

Lemma name_eqb_neq a b : name_eqb a b = false <-> a <> b.
Proof. rewrite <- name_eqb_eq. destruct (name_eqb a b); split; congruence. Qed.

Lemma name_eqb_sym a b : name_eqb a b = name_eqb b a.
Proof.
  destruct (name_eqb a b) eqn:E; symmetry.
  - apply name_eqb_eq in E. subst. apply name_eqb_refl.
  - apply name_eqb_neq. apply name_eqb_neq in E. congruence.
Qed.

(* ================================================================== the blacklist dictionary *)
Lemma bed_get_cons r recs c :
  bed_get (r :: recs) c = if name_eqb (fst r) c then snd r :: bed_get recs c else bed_get recs c.
Proof. unfold bed_get. cbn [filter]. destruct (name_eqb (fst r) c); reflexivity. Qed.

Lemma bed_get_app r1 r2 c : bed_get (r1 ++ r2) c = bed_get r1 c ++ bed_get r2 c.
Proof. unfold bed_get. rewrite filter_app, map_app. reflexivity. Qed.

Lemma dict_get_append : forall d c b c',
  dict_get (dict_append d c b) c' = if name_eqb c c' then dict_get d c' ++ [b] else dict_get d c'.
Proof.
  induction d as [| [k l] d IH]; intros c b c'; cbn [dict_append dict_get].
  - destruct (name_eqb c c'); reflexivity.
  - destruct (name_eqb k c) eqn:E; cbn [dict_get].
    + apply name_eqb_eq in E. subst k. destruct (name_eqb c c'); reflexivity.
    + rewrite IH. destruct (name_eqb k c') eqn:E2; [| reflexivity].
      apply name_eqb_eq in E2. subst c'. rewrite (name_eqb_sym c k), E. reflexivity.
Qed.

Lemma dict_get_fold : forall recs d c,
  dict_get (fold_left (fun d r => dict_append d (fst r) (snd r)) recs d) c = dict_get d c ++ bed_get recs c.
Proof.
  induction recs as [| r recs IH]; intros d c; cbn [fold_left].
  - unfold bed_get. cbn. rewrite app_nil_r. reflexivity.
  - rewrite IH, dict_get_append, bed_get_cons. destruct (name_eqb (fst r) c); [| reflexivity].
    rewrite <- app_assoc. reflexivity.
Qed.

(* blacklist_dict.get(contig, []) is the list of the records of that contig, in file order *)
Lemma dict_get_bed_dict recs c : dict_get (bed_dict recs) c = bed_get recs c.
Proof. unfold bed_dict. rewrite dict_get_fold. reflexivity. Qed.

Lemma dict_of_bed bed c :
  dict_get (match bed with None => [] | Some recs => bed_dict recs end) c = bed_get (bed_recs bed) c.
Proof. destruct bed as [recs |]; [apply dict_get_bed_dict | reflexivity]. Qed.

(* the blacklisted bases of contig c: the records naming it *)
Definition blacklisted (recs : list bedrec) (c : name) (p : Z) : Prop :=
  exists r, In r recs /\ fst r = c /\ inside p (snd r).

Lemma covers_bed_get recs c p : covers (bed_get recs c) p <-> blacklisted recs c p.
Proof.
  unfold covers, blacklisted, bed_get. split.
  - intros (b & Hb & Hp). apply in_map_iff in Hb. destruct Hb as (r & <- & Hr). apply filter_In in Hr.
    destruct Hr as (Hr & E). apply name_eqb_eq in E. eauto.
  - intros (r & Hr & E & Hp). exists (snd r). split; [| exact Hp]. apply in_map. apply filter_In.
    split; [exact Hr |]. apply name_eqb_eq. exact E.
Qed.

(* ================================================================== the result, contig by contig *)
(* results of a sequence of generators consumed one after the other: rows in order; the first exception wins *)
Fixpoint collect (l : list (Res (list grow))) : Res (list grow) :=
  match l with
  | [] => Ok []
  | Raise e :: _ => Raise e
  | Ok a :: t => match collect t with Raise e => Raise e | Ok r => Ok (a ++ r) end
  end.

Definition tag_rows (c : name) (r : Res (list obin)) : Res (list grow) :=
  match r with Ok out => Ok (map (pair c) out) | Raise e => Raise e end.

(* the tiling of one contig as blacklisted_binning_contigs computes it: region 0..length, blacklist = the
   records of that contig sorted by (start, end) *)
Definition contig_tiling (recs : list bedrec) (bs : Z) (frag : option Z) (cl : name * Z) : Res (list obin) :=
  blacklisted_binning 0 (snd cl) bs (isort (bed_get recs (fst cl))) frag.

Lemma selected_cons wl cl contigs :
  selected wl (cl :: contigs) = if in_whitelist wl (fst cl) then cl :: selected wl contigs else selected wl contigs.
Proof. reflexivity. Qed.

Lemma bbc_loop_collect bed bs frag wl : forall contigs,
  bbc_loop (match bed with None => [] | Some recs => bed_dict recs end) bs frag wl contigs =
  collect (map (fun cl => tag_rows (fst cl) (contig_tiling (bed_recs bed) bs frag cl)) (selected wl contigs)).
Proof.
  induction contigs as [| [c len] rest IH]; [reflexivity |].
  cbn [bbc_loop]. rewrite selected_cons. cbn [fst snd]. destruct (in_whitelist wl c); cbn [negb].
  - cbn [map collect]. unfold contig_tiling at 1. cbn [fst snd]. rewrite dict_of_bed, IH.
    destruct (blacklisted_binning 0 len bs (isort (bed_get (bed_recs bed) c)) frag); reflexivity.
  - exact IH.
Qed.

(* STRUCTURE (no hypothesis): for every contig list, whitelist, blacklist, bin size and fragment size the result
   is, contig by contig in input order over the whitelisted contigs, the tiling of that contig tagged with its
   name; an exception of one contig's tiling is the exception of the whole *)
Theorem bbc_per_contig contigs bs frag bed wl :
  blacklisted_binning_contigs contigs bs frag bed wl =
  collect (map (fun cl => tag_rows (fst cl) (contig_tiling (bed_recs bed) bs frag cl)) (selected wl contigs)).
Proof. unfold blacklisted_binning_contigs. apply bbc_loop_collect. Qed.

(* ================================================================== genome-level specification *)
(* rows = for each selected contig in order a block of rows tagged with its name whose bins / windows satisfy
   the per-contig specification [spec] for the region 0..length and the blacklist records of that contig *)
Inductive gtiling (recs : list bedrec) (bs : Z) (frag : option Z) : list (name * Z) -> list grow -> Prop :=
| gt_nil : gtiling recs bs frag [] []
| gt_cons c len sel out rows :
    spec 0 len bs (bed_get recs c) frag out -> gtiling recs bs frag sel rows ->
    gtiling recs bs frag ((c, len) :: sel) (map (pair c) out ++ rows).

Definition gspec (contigs : list (name * Z)) (bs : Z) (frag : option Z) (bed : option (list bedrec))
           (wl : option (list name)) (rows : list grow) : Prop :=
  gtiling (bed_recs bed) bs frag (selected wl contigs) rows.

(* [spec] depends on the blacklist only through the bases it covers *)
Lemma window_ok_ext sc ec f bl bl' o : (forall p, covers bl p <-> covers bl' p) ->
  window_ok sc ec f bl o -> window_ok sc ec f bl' o.
Proof.
  intros He (w & H1 & H2 & H3 & H4 & H5 & H6 & H7 & H8). exists w. repeat split; auto.
  intros p Hp Hc. apply (H8 p Hp). apply He. exact Hc.
Qed.

Lemma spec_ext sc ec bs bl bl' frag out : (forall p, covers bl p <-> covers bl' p) ->
  spec sc ec bs bl frag out -> spec sc ec bs bl' frag out.
Proof.
  intros He (H1 & H2 & H3 & H4). split; [exact H1 |]. split; [exact H2 |]. split.
  - intros p Hp. rewrite (H3 p Hp), (He p). tauto.
  - destruct frag as [f |]; [| exact H4]. eapply Forall_impl; [| exact H4]. intros o. apply window_ok_ext. exact He.
Qed.

Definition gpre_prop (contigs : list (name * Z)) (bs : Z) (frag : option Z) (bed : option (list bedrec))
           (wl : option (list name)) : Prop :=
  0 < bs /\
  Forall (fun cl => 0 <= snd cl /\ Forall wf (bed_get (bed_recs bed) (fst cl))) (selected wl contigs) /\
  match frag with Some f => 0 <= f | None => True end.

Lemma gpre_iff contigs bs frag bed wl : gpre contigs bs frag bed wl = true <-> gpre_prop contigs bs frag bed wl.
Proof.
  unfold gpre, gpre_prop. rewrite !andb_true_iff, Z.ltb_lt, forallb_forall, Forall_forall.
  assert (H : (forall x, In x (selected wl contigs) ->
                 (0 <=? snd x) && forallb wfb (bed_get (bed_recs bed) (fst x)) = true) <->
              (forall x, In x (selected wl contigs) -> 0 <= snd x /\ Forall wf (bed_get (bed_recs bed) (fst x)))).
  { split; intros H x Hx; specialize (H x Hx).
    - apply andb_true_iff in H. destruct H as (H1 & H2). split; [lia |].
      rewrite forallb_forall in H2. apply Forall_forall. intros b Hb. specialize (H2 b Hb). unfold wf, wfb in *. lia.
    - destruct H as (H1 & H2). apply andb_true_iff. split; [lia |]. apply forallb_forall. intros b Hb.
      rewrite Forall_forall in H2. specialize (H2 b Hb). unfold wf, wfb in *. lia. }
  rewrite H. destruct frag as [f |].
  - split; [intros ((A & B) & C); split; [exact A | split; [exact B | lia]]
           | intros (A & B & C); split; [split; [exact A | exact B] | lia]].
  - split; [intros ((A & B) & C); split; [exact A | split; [exact B | exact I]]
           | intros (A & B & C); split; [split; [exact A | exact B] | reflexivity]].
Qed.

Lemma collect_gtiling recs bs frag : 0 < bs -> match frag with Some f => 0 <= f | None => True end ->
  forall sel, Forall (fun cl => 0 <= snd cl /\ Forall wf (bed_get recs (fst cl))) sel ->
  exists rows, collect (map (fun cl => tag_rows (fst cl) (contig_tiling recs bs frag cl)) sel) = Ok rows /\
               gtiling recs bs frag sel rows.
Proof.
  intros Hbs Hf. induction sel as [| [c len] sel IH]; intros Hall.
  - exists []. split; [reflexivity | constructor].
  - inversion Hall as [| ? ? (Hlen & Hwf) Hall']; subst. cbn [fst snd] in *.
    destruct (IH Hall') as (rows & Hr & Hg).
    destruct (bb_correct 0 len bs (isort (bed_get recs c)) frag Hbs Hlen (isort_Forall _ _ Hwf) Hf) as (out & Ho & Hs).
    exists (map (pair c) out ++ rows). split.
    + cbn [map collect]. unfold contig_tiling at 1. cbn [fst snd]. rewrite Ho. cbn [tag_rows]. rewrite Hr. reflexivity.
    + constructor; [| exact Hg]. eapply spec_ext; [| exact Hs]. intros p. apply isort_covers.
Qed.

(* MAIN (genome level): under the precondition the call returns rows (no exception) satisfying [gspec] *)
Theorem bbc_correct contigs bs frag bed wl : gpre_prop contigs bs frag bed wl ->
  exists rows, blacklisted_binning_contigs contigs bs frag bed wl = Ok rows /\ gspec contigs bs frag bed wl rows.
Proof.
  intros (Hbs & Hall & Hf). rewrite bbc_per_contig. apply collect_gtiling; assumption.
Qed.

(* ------------------------------------------------------------------ consequences of [gtiling] *)
Lemma gtiling_In recs bs frag : forall sel rows, gtiling recs bs frag sel rows ->
  forall r, In r rows -> exists len out, In (fst r, len) sel /\ spec 0 len bs (bed_get recs (fst r)) frag out /\ In (snd r) out.
Proof.
  induction 1 as [| c len sel out rows Hs Hg IH]; intros r Hr; [destruct Hr |].
  apply in_app_or in Hr. destruct Hr as [Hr | Hr].
  - apply in_map_iff in Hr. destruct Hr as (o & <- & Ho). exists len, out. cbn [fst snd]. split; [left; reflexivity | auto].
  - destruct (IH r Hr) as (len' & out' & H1 & H2 & H3). exists len', out'. split; [right; exact H1 | auto].
Qed.

(* every row: its contig is a selected contig; the bin is non-empty, inside 0..length of that contig (no bin
   crosses a contig), at most bin_size long and contains no blacklisted base of that contig *)
Lemma gtiling_bins recs bs frag sel rows : gtiling recs bs frag sel rows ->
  forall r, In r rows -> exists len, In (fst r, len) sel /\
    0 <= fst (row_span r) /\ fst (row_span r) < snd (row_span r) /\ snd (row_span r) <= len /\
    snd (row_span r) - fst (row_span r) <= bs /\
    forall p, inside p (row_span r) -> ~ blacklisted recs (fst r) p.
Proof.
  intros Hg r Hr. destruct (gtiling_In _ _ _ _ _ Hg r Hr) as (len & out & H1 & H2 & H3).
  exists len. split; [exact H1 |]. unfold row_span.
  assert (Hb : In (fst (snd r)) (map fst out)) by (apply in_map; exact H3).
  pose proof (spec_inside_region _ _ _ _ _ _ H2 _ Hb) as (Ha & Hb' & Hc & Hd).
  repeat split; try assumption. intros p Hp Hbl. apply covers_bed_get in Hbl.
  exact (spec_no_blacklisted_base _ _ _ _ _ _ H2 _ p Hb Hp Hbl).
Qed.

(* with a fragment size: every row has a fetch window that contains its bin, extends it by at most
   fragment_size, stays inside 0..length of the row's contig and contains no blacklisted base of it *)
Lemma gtiling_windows recs bs f sel rows : gtiling recs bs (Some f) sel rows ->
  forall r, In r rows -> exists len w, In (fst r, len) sel /\ snd (snd r) = Some w /\
    fst w <= fst (row_span r) /\ snd (row_span r) <= snd w /\
    fst (row_span r) - fst w <= f /\ snd w - snd (row_span r) <= f /\
    0 <= fst w /\ snd w <= len /\
    forall p, inside p w -> ~ blacklisted recs (fst r) p.
Proof.
  intros Hg r Hr. destruct (gtiling_In _ _ _ _ _ Hg r Hr) as (len & out & H1 & H2 & H3).
  destruct H2 as (_ & _ & _ & Hw). rewrite Forall_forall in Hw. destruct (Hw _ H3) as (w & E & A & B & C & D & E1 & F & G).
  exists len, w. unfold row_span. repeat split; try assumption.
  intros p Hp Hbl. apply covers_bed_get in Hbl. exact (G p Hp Hbl).
Qed.

Lemma gtiling_no_windows recs bs sel rows : gtiling recs bs None sel rows ->
  forall r, In r rows -> snd (snd r) = None.
Proof.
  intros Hg r Hr. destruct (gtiling_In _ _ _ _ _ Hg r Hr) as (len & out & H1 & H2 & H3).
  destruct H2 as (_ & _ & _ & Hw). rewrite Forall_forall in Hw. exact (Hw _ H3).
Qed.

(* every non-blacklisted base of every selected contig lies in a bin of that contig *)
Lemma gtiling_covered recs bs frag : forall sel rows, gtiling recs bs frag sel rows ->
  forall c len p, In (c, len) sel -> 0 <= p < len -> ~ blacklisted recs c p ->
  exists r, In r rows /\ fst r = c /\ inside p (row_span r).
Proof.
  induction 1 as [| c0 len0 sel out rows Hs Hg IH]; intros c len p Hin Hp Hn; [destruct Hin |].
  destruct Hin as [E | Hin].
  - inversion E; subst c0 len0. destruct Hs as (_ & _ & Hc & _).
    assert (Hcov : covers (map fst out) p) by (apply (Hc p Hp); rewrite covers_bed_get; exact Hn).
    destruct Hcov as (b & Hb & Hpb). apply in_map_iff in Hb. destruct Hb as (o & <- & Ho).
    exists (c, o). split; [apply in_or_app; left; apply in_map; exact Ho |]. split; [reflexivity | exact Hpb].
  - destruct (IH c len p Hin Hp Hn) as (r & H1 & H2 & H3). exists r. split; [apply in_or_app; right; exact H1 | auto].
Qed.

(* rows of a contig that is not selected do not exist *)
Lemma gtiling_names recs bs frag sel rows : gtiling recs bs frag sel rows ->
  forall r, In r rows -> In (fst r) (map fst sel).
Proof.
  intros Hg r Hr. destruct (gtiling_In _ _ _ _ _ Hg r Hr) as (len & out & H1 & _).
  apply in_map_iff. exists (fst r, len). split; [reflexivity | exact H1].
Qed.

Lemma NoDup_map_inj {A B} (f : A -> B) : forall l a b, NoDup (map f l) -> In a l -> In b l -> f a = f b -> a = b.
Proof.
  induction l as [| x l IH]; intros a b Hn Ha Hb E; [destruct Ha |].
  cbn [map] in Hn. inversion Hn as [| ? ? Hx Hn']; subst.
  destruct Ha as [-> | Ha], Hb as [-> | Hb]; auto.
  - exfalso. apply Hx. rewrite E. apply in_map. exact Hb.
  - exfalso. apply Hx. rewrite <- E. apply in_map. exact Ha.
Qed.

(* with pairwise different contig names: a base of a contig lies in at most one row *)
Lemma gtiling_unique recs bs frag : forall sel rows, gtiling recs bs frag sel rows -> NoDup (map fst sel) ->
  forall r1 r2 p, In r1 rows -> In r2 rows -> fst r1 = fst r2 -> inside p (row_span r1) -> inside p (row_span r2) -> r1 = r2.
Proof.
  induction 1 as [| c len sel out rows Hs Hg IH]; intros Hnd r1 r2 p H1 H2 E P1 P2; [destruct H1 |].
  cbn [map fst] in Hnd. inversion Hnd as [| ? ? Hc Hnd']; subst.
  assert (Hblk : forall r, In r (map (pair c) out) -> fst r = c /\ In (snd r) out).
  { intros r Hr. apply in_map_iff in Hr. destruct Hr as (o & <- & Ho). auto. }
  assert (Hrest : forall r, In r rows -> fst r <> c).
  { intros r Hr Heq. apply Hc. rewrite <- Heq. eapply gtiling_names; eauto. }
  apply in_app_or in H1. apply in_app_or in H2. destruct H1 as [H1 | H1], H2 as [H2 | H2].
  - destruct (Hblk _ H1) as (N1 & O1). destruct (Hblk _ H2) as (N2 & O2).
    destruct Hs as (Ho & _). unfold row_span in *.
    assert (Eb : fst (snd r1) = fst (snd r2)).
    { eapply ordered_unique; [exact Ho | apply in_map; exact O1 | apply in_map; exact O2 | exact P1 | exact P2]. }
    assert (Eo : snd r1 = snd r2).
    { eapply (NoDup_map_inj fst); [eapply ordered_NoDup; exact Ho | exact O1 | exact O2 | exact Eb]. }
    destruct r1, r2. cbn [fst snd] in *. congruence.
  - exfalso. destruct (Hblk _ H1) as (N1 & _). apply (Hrest _ H2). congruence.
  - exfalso. destruct (Hblk _ H2) as (N2 & _). apply (Hrest _ H1). congruence.
  - eapply IH; eauto.
Qed.

(* ------------------------------------------------------------------ only the records of a contig matter *)
Lemma collect_ext (f g : name * Z -> Res (list grow)) : forall l, (forall x, In x l -> f x = g x) ->
  collect (map f l) = collect (map g l).
Proof.
  induction l as [| x l IH]; intros H; [reflexivity |]. cbn [map collect].
  rewrite (H x (or_introl eq_refl)), IH; [reflexivity |]. intros y Hy. apply H. right. exact Hy.
Qed.

(* two blacklists with the same records (in the same order) on every selected contig give the same result:
   records naming another contig - one that is absent from the contig list or not whitelisted, or simply a
   different one - have no effect on a contig's bins *)
Theorem bbc_other_contigs contigs bs frag bed bed' wl :
  (forall cl, In cl (selected wl contigs) -> bed_get (bed_recs bed) (fst cl) = bed_get (bed_recs bed') (fst cl)) ->
  blacklisted_binning_contigs contigs bs frag bed wl = blacklisted_binning_contigs contigs bs frag bed' wl.
Proof.
  intros H. rewrite !bbc_per_contig. apply collect_ext. intros cl Hcl. unfold contig_tiling. rewrite (H cl Hcl). reflexivity.
Qed.

(* dropping every record whose contig is not selected changes nothing; no blacklist file = an empty one *)
Definition relevant (wl : option (list name)) (contigs : list (name * Z)) (r : bedrec) : bool :=
  existsb (fun cl => name_eqb (fst cl) (fst r)) (selected wl contigs).

Lemma bed_get_filter_relevant wl contigs recs cl : In cl (selected wl contigs) ->
  bed_get (filter (relevant wl contigs) recs) (fst cl) = bed_get recs (fst cl).
Proof.
  intros Hcl. induction recs as [| r recs IH]; [reflexivity |]. cbn [filter].
  destruct (relevant wl contigs r) eqn:E.
  - rewrite !bed_get_cons, IH. reflexivity.
  - rewrite bed_get_cons, IH. destruct (name_eqb (fst r) (fst cl)) eqn:E2; [| reflexivity].
    exfalso. unfold relevant in E. apply not_true_iff_false in E. apply E. apply existsb_exists.
    exists cl. split; [exact Hcl |]. rewrite name_eqb_sym. exact E2.
Qed.

Theorem bbc_irrelevant_records contigs bs frag recs wl :
  blacklisted_binning_contigs contigs bs frag (Some recs) wl =
  blacklisted_binning_contigs contigs bs frag (Some (filter (relevant wl contigs) recs)) wl.
Proof.
  apply bbc_other_contigs. intros cl Hcl. cbn [bed_recs]. symmetry. apply bed_get_filter_relevant. exact Hcl.
Qed.

Theorem bbc_no_blacklist contigs bs frag wl :
  blacklisted_binning_contigs contigs bs frag None wl = blacklisted_binning_contigs contigs bs frag (Some []) wl.
Proof. reflexivity. Qed.

(* the whitelist: a row's contig is a whitelisted contig of the list *)
Lemma selected_In wl contigs cl : In cl (selected wl contigs) <-> In cl contigs /\ in_whitelist wl (fst cl) = true.
Proof. unfold selected. apply filter_In. Qed.

Lemma in_whitelist_Some w c : in_whitelist (Some w) c = true <-> In c w.
Proof.
  cbn [in_whitelist]. rewrite existsb_exists. split.
  - intros (x & Hx & E). apply name_eqb_eq in E. subst. exact Hx.
  - intros H. exists c. split; [exact H | apply name_eqb_refl].
Qed.

(* ================================================================== executable spec = spec *)
Lemma span_name_spec c : forall rows blk rest, span_name c rows = (blk, rest) ->
  rows = blk ++ rest /\ blk = map (pair c) (map snd blk) /\ (forall r t, rest = r :: t -> fst r <> c).
Proof.
  induction rows as [| r rows IH]; intros blk rest H; cbn [span_name] in H.
  - inversion H; subst. repeat split. intros r t E. discriminate.
  - destruct (name_eqb (fst r) c) eqn:E.
    + destruct (span_name c rows) as [a b]. inversion H; subst. destruct (IH a rest eq_refl) as (H1 & H2 & H3).
      apply name_eqb_eq in E. split; [cbn [app]; congruence |]. split; [| exact H3].
      cbn [map]. rewrite <- H2. destruct r. cbn [fst snd] in *. subst. reflexivity.
    + inversion H; subst. repeat split. intros r' t E'. inversion E'; subst. apply name_eqb_neq. exact E.
Qed.

Lemma span_name_block c out : forall rest, (forall r t, rest = r :: t -> fst r <> c) ->
  span_name c (map (pair c) out ++ rest) = (map (pair c) out, rest).
Proof.
  induction out as [| o out IH]; intros rest H; cbn [map app].
  - destruct rest as [| r t]; [reflexivity |]. cbn [span_name].
    destruct (name_eqb (fst r) c) eqn:E; [| reflexivity]. apply name_eqb_eq in E. destruct (H r t eq_refl E).
  - cbn [span_name fst]. rewrite name_eqb_refl, (IH rest H). reflexivity.
Qed.

Lemma gspecb_loop_sound recs bs frag : forall sel rows, gspecb_loop recs bs frag sel rows = true -> gtiling recs bs frag sel rows.
Proof.
  induction sel as [| [c len] sel IH]; intros rows H; cbn [gspecb_loop] in H.
  - destruct rows; [constructor | discriminate].
  - destruct (span_name c rows) as [blk rest] eqn:E. apply andb_true_iff in H. destruct H as (H1 & H2).
    destruct (span_name_spec c rows blk rest E) as (-> & Hb & _). rewrite Hb.
    constructor; [apply specb_iff; exact H1 | apply IH; exact H2].
Qed.

Lemma gspecb_loop_complete recs bs frag : forall sel rows, gtiling recs bs frag sel rows -> NoDup (map fst sel) ->
  gspecb_loop recs bs frag sel rows = true.
Proof.
  induction 1 as [| c len sel out rows Hs Hg IH]; intros Hnd; [reflexivity |].
  cbn [map fst] in Hnd. inversion Hnd as [| ? ? Hc Hnd']; subst. cbn [gspecb_loop].
  rewrite span_name_block.
  - rewrite map_map. cbn [snd]. rewrite map_id. apply andb_true_iff. split; [apply specb_iff; exact Hs | apply IH; exact Hnd'].
  - intros r t E Heq. apply Hc. rewrite <- Heq. eapply gtiling_names; [exact Hg |]. rewrite E. left. reflexivity.
Qed.

(* the boolean specification run on the implementation's rows: true only if [gspec] holds; and exactly [gspec]
   when the selected contig names are pairwise different *)
Theorem gspecb_sound contigs bs frag bed wl rows :
  gspecb contigs bs frag bed wl rows = true -> gspec contigs bs frag bed wl rows.
Proof. apply gspecb_loop_sound. Qed.

Theorem gspecb_iff contigs bs frag bed wl rows : NoDup (map fst (selected wl contigs)) ->
  (gspecb contigs bs frag bed wl rows = true <-> gspec contigs bs frag bed wl rows).
Proof. intros Hnd. split; [apply gspecb_loop_sound | intros H; apply gspecb_loop_complete; assumption]. Qed.

Lemma nodupb_iff : forall l, nodupb l = true <-> NoDup l.
Proof.
  induction l as [| a l IH]; cbn [nodupb]; [split; [constructor | reflexivity] |].
  rewrite andb_true_iff, negb_true_iff, IH. split.
  - intros (H1 & H2). constructor; [| exact H2]. intros Hin. apply not_true_iff_false in H1. apply H1.
    apply existsb_exists. exists a. split; [exact Hin | apply name_eqb_refl].
  - intros H. inversion H as [| ? ? Ha Hl]; subst. split; [| exact Hl]. apply not_true_iff_false. intros E.
    apply existsb_exists in E. destruct E as (x & Hx & E). apply name_eqb_eq in E. subst. exact (Ha Hx).
Qed.

Theorem gspecb_iffb contigs bs frag bed wl rows : nodupb (map fst (selected wl contigs)) = true ->
  (gspecb contigs bs frag bed wl rows = true <-> gspec contigs bs frag bed wl rows).
Proof. intros H. apply gspecb_iff. apply nodupb_iff. exact H. Qed.

(* ================================================================== statement-level packaging (genome) *)
Theorem genome_bins contigs bs frag bed wl rows : gspec contigs bs frag bed wl rows ->
  forall r, In r rows -> exists len, In (fst r, len) contigs /\ in_whitelist wl (fst r) = true /\
    0 <= fst (row_span r) /\ fst (row_span r) < snd (row_span r) /\ snd (row_span r) <= len /\
    snd (row_span r) - fst (row_span r) <= bs /\
    forall p, inside p (row_span r) -> ~ blacklisted (bed_recs bed) (fst r) p.
Proof.
  intros Hg r Hr. destruct (gtiling_bins _ _ _ _ _ Hg r Hr) as (len & H1 & H2).
  apply selected_In in H1. destruct H1 as (H1 & H1'). exists len. split; [exact H1 |]. split; [exact H1' | exact H2].
Qed.

Theorem genome_windows contigs bs f bed wl rows : gspec contigs bs (Some f) bed wl rows ->
  forall r, In r rows -> exists len w, In (fst r, len) contigs /\ snd (snd r) = Some w /\
    fst w <= fst (row_span r) /\ snd (row_span r) <= snd w /\
    fst (row_span r) - fst w <= f /\ snd w - snd (row_span r) <= f /\
    0 <= fst w /\ snd w <= len /\
    forall p, inside p w -> ~ blacklisted (bed_recs bed) (fst r) p.
Proof.
  intros Hg r Hr. destruct (gtiling_windows _ _ _ _ _ Hg r Hr) as (len & w & H1 & H2).
  apply selected_In in H1. destruct H1 as (H1 & _). exists len, w. split; [exact H1 | exact H2].
Qed.

Theorem genome_covered contigs bs frag bed wl rows : gspec contigs bs frag bed wl rows ->
  forall c len p, In (c, len) contigs -> in_whitelist wl c = true -> 0 <= p < len -> ~ blacklisted (bed_recs bed) c p ->
  exists r, In r rows /\ fst r = c /\ inside p (row_span r).
Proof.
  intros Hg c len p Hin Hw Hp Hn. eapply gtiling_covered; eauto. apply selected_In. split; [exact Hin | exact Hw].
Qed.

Theorem genome_exactly_once contigs bs frag bed wl rows : gspec contigs bs frag bed wl rows ->
  NoDup (map fst (selected wl contigs)) ->
  forall r1 r2 p, In r1 rows -> In r2 rows -> fst r1 = fst r2 -> inside p (row_span r1) -> inside p (row_span r2) -> r1 = r2.
Proof. intros Hg Hnd. eapply gtiling_unique; eauto. Qed.

Theorem genome_whitelist contigs bs frag bed w rows : gspec contigs bs frag bed (Some w) rows ->
  forall r, In r rows -> In (fst r) w.
Proof.
  intros Hg r Hr. destruct (genome_bins _ _ _ _ _ _ Hg r Hr) as (len & _ & H & _). apply in_whitelist_Some. exact H.
Qed.

(* ================================================================== bp_chunked: the budget rule *)
Section BudgetRule.
  Context {A : Type}.
  Variable span : A -> iv.
  Notation bp_sum := (bp_sum span).
  Notation bp_job := (bp_job span).

  (* p is a prefix of c / a proper prefix *)
  Definition prefix_of (p c : list A) : Prop := exists s, c = p ++ s.
  Definition proper_prefix (p c : list A) : Prop := exists s, s <> [] /\ c = p ++ s.

  (* the rule the loop implements, for every bp_per_job k (also k <= 0):
     a chunk that was closed by the test `bp_current >= bp_per_job` is not empty, its total |end-start| reaches k,
     and no earlier non-empty part of it did (the test is made after every job);
     the chunk yielded after the loop never reached k after any of its jobs (it may be empty) *)
  Definition closed_rule (k : Z) (c : list A) : Prop :=
    c <> [] /\ k <= bp_sum c /\ forall p, p <> [] -> proper_prefix p c -> bp_sum p < k.
  Definition open_rule (k : Z) (c : list A) : Prop :=
    forall p, p <> [] -> prefix_of p c -> bp_sum p < k.

  Lemma prefix_snoc p cur j : proper_prefix p (cur ++ [j]) -> prefix_of p cur.
  Proof.
    intros (s & Hs & E). destruct (exists_last Hs) as (s' & x & ->).
    rewrite app_assoc in E. apply app_inj_tail in E. destruct E as (E & _). exists s'. exact E.
  Qed.

  Lemma prefix_snoc_cases p cur j : prefix_of p (cur ++ [j]) -> prefix_of p cur \/ p = cur ++ [j].
  Proof.
    intros (s & E). destruct s as [| y s].
    - right. rewrite app_nil_r in E. auto.
    - left. apply (prefix_snoc p cur j). exists (y :: s). split; [discriminate | exact E].
  Qed.

  Lemma bp_sum_snoc cur j : bp_sum (cur ++ [j]) = bp_sum cur + Z.abs (snd (span j) - fst (span j)).
  Proof. rewrite bp_sum_app, bp_sum_cons. unfold bp_job. cbv [C17.bp_sum fold_right]. lia. Qed.

  Lemma open_rule_nil k : open_rule k [].
  Proof.
    intros p Hp (s & E). symmetry in E. apply app_eq_nil in E. destruct E as (E & _). contradiction.
  Qed.

  Lemma bp_loop_rule k : forall jobs cur, open_rule k cur ->
    Forall (closed_rule k) (removelast (bp_loop span k (bp_sum cur) cur jobs))
    /\ open_rule k (last (bp_loop span k (bp_sum cur) cur jobs) []).
  Proof.
    induction jobs as [| j rest IH]; intros cur Hop; cbn [bp_loop].
    - cbn [removelast last]. split; [constructor | exact Hop].
    - cbv zeta. rewrite sh_bp_inc, sh_bp_reset, <- bp_sum_snoc.
      destruct (g_bp_full (bp_sum (cur ++ [j])) k) eqn:E.
      + apply sh_bp_full in E. pose proof (bp_loop_nonempty span k rest 0 []) as Hne.
        rewrite (removelast_cons2 _ _ Hne), (last_cons2 _ _ _ Hne).
        destruct (IH [] (open_rule_nil k)) as (H1 & H2). change (bp_sum []) with 0 in H1, H2.
        split; [| exact H2]. constructor; [| exact H1].
        split; [intros Heq; apply app_eq_nil in Heq; destruct Heq as (_ & Heq); discriminate |].
        split; [exact E |]. intros p Hp Hpp. apply Hop; [exact Hp |]. eapply prefix_snoc. exact Hpp.
      + apply not_true_iff_false in E. rewrite sh_bp_full in E. apply IH.
        intros p Hp Hpre. destruct (prefix_snoc_cases _ _ _ Hpre) as [H | ->]; [apply Hop; assumption | lia].
  Qed.

  (* BUDGET RULE, as coded, for every job list and every bp_per_job *)
  Theorem bp_chunked_rule jobs k :
    Forall (closed_rule k) (removelast (bp_chunked span jobs k)) /\ open_rule k (last (bp_chunked span jobs k) []).
  Proof. unfold bp_chunked. rewrite sh_bp_init. apply (bp_loop_rule k jobs []). apply open_rule_nil. Qed.

  (* the rule determines the chunking: bp_chunked is the only way to cut the job list into chunks obeying it *)
  Fixpoint rule (k : Z) (cs : list (list A)) : Prop :=
    match cs with
    | [] => False
    | [c] => open_rule k c
    | c :: cs' => closed_rule k c /\ rule k cs'
    end.

  Lemma rule_iff k : forall cs, rule k cs <-> cs <> [] /\ Forall (closed_rule k) (removelast cs) /\ open_rule k (last cs []).
  Proof.
    induction cs as [| c cs IH]; [cbn; split; [tauto | intros (H & _); congruence] |].
    destruct cs as [| c2 cs].
    - cbn. split; [intros H; repeat split; [discriminate | constructor | exact H] | tauto].
    - change (rule k (c :: c2 :: cs)) with (closed_rule k c /\ rule k (c2 :: cs)). rewrite IH.
      rewrite (removelast_cons2 c (c2 :: cs)) by discriminate. rewrite (last_cons2 c (c2 :: cs)) by discriminate.
      split.
      + intros (H1 & _ & H2 & H3). split; [discriminate |]. split; [constructor; assumption | assumption].
      + intros (_ & H1 & H2). inversion H1; subst. split; [assumption |]. split; [discriminate |]. split; assumption.
  Qed.

  Lemma rule_cons2 k c c2 cs : rule k (c :: c2 :: cs) <-> closed_rule k c /\ rule k (c2 :: cs).
  Proof. reflexivity. Qed.

  Lemma app_eq_app_cases (a b c d : list A) : a ++ b = c ++ d ->
    exists l, (a = c ++ l /\ d = l ++ b) \/ (c = a ++ l /\ b = l ++ d).
  Proof.
    revert c. induction a as [| x a IH]; intros c E.
    - exists c. right. cbn in *. auto.
    - destruct c as [| y c].
      + exists (x :: a). left. cbn in *. auto.
      + cbn in E. inversion E as [[Hxy E']]; subst y. destruct (IH c E') as (l & [(H1 & H2) | (H1 & H2)]); exists l.
        * left. subst. auto.
        * right. subst. auto.
  Qed.

  Lemma closed_not_proper k c1 c2 l : closed_rule k c1 -> l <> [] -> c2 = c1 ++ l ->
    ~ closed_rule k c2 /\ ~ open_rule k c2.
  Proof.
    intros (Hne & Hk & _) Hl ->. split.
    - intros (_ & _ & H). specialize (H c1 Hne (ex_intro _ l (conj Hl eq_refl))). lia.
    - intros H. specialize (H c1 Hne (ex_intro _ l eq_refl)). lia.
  Qed.

  Lemma rule_unique k : forall cs1 cs2, rule k cs1 -> rule k cs2 -> concat cs1 = concat cs2 -> cs1 = cs2.
  Proof.
    induction cs1 as [| c1 cs1 IH]; intros cs2 R1 R2 E; [destruct R1 |].
    destruct cs2 as [| c2 cs2]; [destruct R2 |].
    destruct cs1 as [| d1 cs1], cs2 as [| d2 cs2].
    - cbn in E. rewrite !app_nil_r in E. congruence.
    - (* c1 is the last chunk of cs1, c2 a closed chunk of cs2 *)
      exfalso. apply rule_cons2 in R2. destruct R2 as (Hc2 & _). cbn [rule] in R1.
      cbn [concat] in E. rewrite app_nil_r in E. destruct Hc2 as (Hne & Hk & _).
      specialize (R1 c2 Hne (ex_intro _ _ E)). lia.
    - exfalso. apply rule_cons2 in R1. destruct R1 as (Hc1 & _). cbn [rule] in R2.
      cbn [concat] in E. rewrite app_nil_r in E. destruct Hc1 as (Hne & Hk & _).
      specialize (R2 c1 Hne (ex_intro _ _ (eq_sym E))). lia.
    - apply rule_cons2 in R1. apply rule_cons2 in R2. destruct R1 as (Hc1 & R1). destruct R2 as (Hc2 & R2).
      change (c1 ++ concat (d1 :: cs1) = c2 ++ concat (d2 :: cs2)) in E.
      destruct (app_eq_app_cases _ _ _ _ E) as (l & [(H1 & H2) | (H1 & H2)]).
      + destruct l as [| x l].
        * rewrite app_nil_r in H1. cbn [app] in H2. subst c2. f_equal. apply IH; auto.
        * exfalso. destruct (closed_not_proper k c2 c1 (x :: l) Hc2 ltac:(discriminate) H1) as (H & _). exact (H Hc1).
      + destruct l as [| x l].
        * rewrite app_nil_r in H1. cbn [app] in H2. subst c2. f_equal. apply IH; auto.
        * exfalso. destruct (closed_not_proper k c1 c2 (x :: l) Hc1 ltac:(discriminate) H1) as (H & _). exact (H Hc2).
  Qed.

  Theorem bp_chunked_rule_unique jobs k cs :
    cs <> [] -> Forall (closed_rule k) (removelast cs) -> open_rule k (last cs []) -> concat cs = jobs ->
    cs = bp_chunked span jobs k.
  Proof.
    intros H1 H2 H3 H4. apply (rule_unique k).
    - apply rule_iff. auto.
    - apply rule_iff. split; [apply bp_loop_nonempty |]. apply bp_chunked_rule.
    - rewrite bp_chunked_concat. exact H4.
  Qed.

  (* overshoot bound: when every job is at most m long and k > 0, a closed chunk stays below k + m *)
  Lemma closed_rule_bound k m c : 0 < k -> Forall (fun j => bp_job j <= m) c -> closed_rule k c ->
    k <= bp_sum c < k + m.
  Proof.
    intros Hk Hm (Hne & Hge & Hpre). split; [exact Hge |].
    destruct (exists_last Hne) as (c' & j & ->). rewrite bp_sum_snoc.
    apply Forall_app in Hm. destruct Hm as (_ & Hj). inversion Hj as [| ? ? Hj' _]; subst. unfold C17.bp_job in Hj'.
    destruct c' as [| x c'].
    - cbv [C17.bp_sum fold_right]. lia.
    - assert (bp_sum (x :: c') < k); [| lia]. apply Hpre; [discriminate |]. exists [j]. split; [discriminate | reflexivity].
  Qed.
End BudgetRule.

(* bp_chunked applied to the rows of blacklisted_binning_contigs: a job is at most bin_size long, so with
   bp_per_job k > 0 every chunk but the last holds between k and k + bin_size - 1 bases, the last fewer than k;
   the chunks concatenate to the rows *)
Lemma gtiling_job_sizes recs bs frag sel rows : gtiling recs bs frag sel rows ->
  Forall (fun r => 0 < bp_job row_span r <= bs) rows.
Proof.
  intros Hg. apply Forall_forall. intros r Hr. destruct (gtiling_bins _ _ _ _ _ Hg r Hr) as (len & _ & H1 & H2 & H3 & H4 & _).
  unfold bp_job. lia.
Qed.

Lemma Forall_concat_in {A} (P : A -> Prop) (cs : list (list A)) c : Forall P (concat cs) -> In c cs -> Forall P c.
Proof.
  intros H Hc. rewrite Forall_forall in *. intros x Hx. apply H. apply in_concat. exists c. auto.
Qed.

Lemma In_removelast {A} (l : list A) x : In x (removelast l) -> In x l.
Proof.
  induction l as [| a l IH]; [intros [] |]. destruct l as [| b l]; [intros [] |].
  change (removelast (a :: b :: l)) with (a :: removelast (b :: l)). intros [-> | H]; [left; reflexivity | right; auto].
Qed.

Theorem bp_rows_budget contigs bs frag bed wl rows k : gspec contigs bs frag bed wl rows -> 0 < k ->
  concat (bp_chunked_rows rows k) = rows /\
  Forall (fun c => k <= bp_sum row_span c < k + bs) (removelast (bp_chunked_rows rows k)) /\
  bp_sum row_span (last (bp_chunked_rows rows k) []) < k.
Proof.
  intros Hg Hk. unfold bp_chunked_rows. split; [apply bp_chunked_concat |].
  destruct (bp_chunked_rule row_span rows k) as (H1 & H2).
  pose proof (gtiling_job_sizes _ _ _ _ _ Hg) as Hsz. split.
  - apply Forall_forall. intros c Hc. rewrite Forall_forall in H1. apply (closed_rule_bound row_span k bs c Hk); [| apply H1; exact Hc].
    apply In_removelast in Hc.
    assert (Hall : Forall (fun r => 0 < bp_job row_span r <= bs) c).
    { eapply Forall_concat_in; [| exact Hc]. rewrite bp_chunked_concat. exact Hsz. }
    eapply Forall_impl; [| exact Hall]. cbn beta. intros r Hr. lia.
  - destruct (last (bp_chunked row_span rows k) []) as [| x l] eqn:E; [cbv [bp_sum fold_right]; lia |].
    apply H2; [discriminate |]. exists []. rewrite app_nil_r. reflexivity.
Qed.

(* ================================================================== from the text of the BED file *)
(* the whole path: a BED file printed from the records (also with extra columns / CRLF line ends) gives the same
   result as the records themselves *)
Theorem bbc_text_ext contigs bs frag l wl : Forall (fun p => rec_ok (fst p) /\ extra_ok (fst (snd p))) l ->
  blacklisted_binning_contigs_text contigs bs frag (Some (print_bed_ext l)) wl =
  blacklisted_binning_contigs contigs bs frag (Some (map fst l)) wl.
Proof. intros H. unfold blacklisted_binning_contigs_text. rewrite parse_print_bed_ext by assumption. reflexivity. Qed.

Theorem bbc_text contigs bs frag recs wl : Forall rec_ok recs ->
  blacklisted_binning_contigs_text contigs bs frag (Some (print_bed recs)) wl =
  blacklisted_binning_contigs contigs bs frag (Some recs) wl.
Proof. intros H. unfold blacklisted_binning_contigs_text. rewrite parse_print_bed by assumption. reflexivity. Qed.
