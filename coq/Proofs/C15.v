(* C15 proofs, top level: the records of deduplicate_majority. *)
From Coq Require Import ZArith List Bool Lia QArith.
Import ListNotations.
From SCMO Require Import Lib.Val Lib.PyInt Lib.PyIntFacts Model.C15 Proofs.C15_a Proofs.C15_b Proofs.C15_c.
Open Scope Z_scope.

Definition rec_positions (r : crec) : list Z := expand (c_start r) (c_cigar r).
Definition covered (reads : list read) : list Z := sort_uniq (map o_pos (all_obs reads)).

Lemma flat_map_map {A B C} (f : B -> list C) (g : A -> B) l :
  flat_map f (map g l) = flat_map (fun x => f (g x)) l.
Proof. induction l as [|a l IH]; cbn; [reflexivity|]. now rewrite IH. Qed.

Lemma inc_head_least x l : inc (x :: l) -> forall y, In y (x :: l) -> x - 2 + 1 < y.
Proof.
  intros H y Hy. apply inc_cons in H. destruct H as [H _].
  destruct Hy as [<-|Hy]; [lia|]. specialize (H y Hy). lia.
Qed.

(* everything the later theorems need about one run of deduplicate_majority *)
Lemma consensus_inv caller ref maxN m reads recs :
  consensus caller ref maxN m reads = Some recs ->
  exists s ps,
    covered reads <> [] /\
    recs = map (record_of ref m) ps /\
    Forall (rec_ok (call_at caller (all_obs reads)) maxN) ps /\
    pcat ps = covered reads /\
    length ps = S (n_long maxN (cigar_of_runs (runs (covered reads)))) /\
    alignment_start (runs (covered reads)) = Some s.
Proof.
  unfold consensus. fold (covered reads). intros H.
  pose proof (sort_uniq_inc (map o_pos (all_obs reads))) as Hinc. fold (covered reads) in Hinc.
  pose proof (runs_expand (covered reads)) as Hexp.
  destruct (covered reads) as [|x0 cov] eqn:Ecov; [discriminate H|].
  pose proof (runs_ok_inc (x0 :: cov) Hinc (x0 - 2) (inc_head_least x0 cov Hinc)) as Hok.
  destruct (runs (x0 :: cov)) as [|[s e] t] eqn:Er.
  - cbn in Hexp. discriminate Hexp.
  - rewrite (alignment_start_first s e t (x0 - 2) Hok) in H. injection H as <-.
    assert (Hcig : okM None (cigar_of_runs ((s, e) :: t))).
    { apply (cigar_of_runs_ok (x0 - 2)); [discriminate|assumption]. }
    destruct (partial_reads_spec (call_at caller (all_obs reads)) maxN _ s Hcig) as (P1 & P2 & P3).
    cbn zeta in *. exists s, (partial_reads (call_at caller (all_obs reads)) maxN (cigar_of_runs ((s, e) :: t)) s).
    repeat split; try assumption; try discriminate.
    + rewrite P2, cigar_of_runs_expand. exact Hexp.
    + now rewrite (alignment_start_first s e t (x0 - 2) Hok).
Qed.

Lemma consensus_none caller ref maxN m reads :
  consensus caller ref maxN m reads = None <-> all_obs reads = [].
Proof.
  unfold consensus. fold (covered reads). split.
  - intros H. destruct (covered reads) as [|x0 cov] eqn:Ecov.
    + apply sort_uniq_nil in Ecov. now apply map_eq_nil in Ecov.
    + exfalso.
      pose proof (sort_uniq_inc (map o_pos (all_obs reads))) as Hinc. fold (covered reads) in Hinc.
      rewrite Ecov in Hinc.
      pose proof (runs_ok_inc (x0 :: cov) Hinc (x0 - 2) (inc_head_least x0 cov Hinc)) as Hok.
      pose proof (runs_expand (x0 :: cov)) as Hexp.
      destruct (runs (x0 :: cov)) as [|[s e] t]; [discriminate Hexp|].
      rewrite (alignment_start_first s e t (x0 - 2) Hok) in H. discriminate H.
  - intros H. unfold covered. rewrite H. reflexivity.
Qed.

(* ---- C15_blocks_exact *)
Lemma blocks_exact caller ref maxN m reads recs :
  consensus caller ref maxN m reads = Some recs ->
  flat_map rec_positions recs = covered reads /\
  inc (covered reads) /\
  (forall p, In p (covered reads) <-> exists o, In o (all_obs reads) /\ o_pos o = p) /\
  Forall (fun r => okM maxN (c_cigar r)) recs /\
  length recs = S (n_long maxN (cigar_of_runs (runs (covered reads)))).
Proof.
  intros H. destruct (consensus_inv _ _ _ _ _ _ H) as (s & ps & Hne & -> & Hok & Hcat & Hlen & _).
  repeat split.
  - rewrite flat_map_map. exact Hcat.
  - apply sort_uniq_inc.
  - unfold covered. rewrite sort_uniq_In, in_map_iff. intros (o & Ho & Hin). exists o. auto.
  - intros (o & Hin & Ho). unfold covered. rewrite sort_uniq_In, in_map_iff. exists o. auto.
  - apply Forall_map. eapply Forall_impl; [|exact Hok]. intros p (Hc & _). exact Hc.
  - now rewrite map_length.
Qed.

(* ---- C15_lengths and the sequence as calls *)
Lemma record_seq caller ref maxN m reads recs r :
  consensus caller ref maxN m reads = Some recs -> In r recs ->
  c_seq r = map (call_at caller (all_obs reads)) (rec_positions r) /\
  Z.of_nat (length (c_seq r)) = query_len (c_cigar r) /\
  length (c_seq r) = length (rec_positions r).
Proof.
  intros H Hr. destruct (consensus_inv _ _ _ _ _ _ H) as (s & ps & Hne & -> & Hok & _).
  apply in_map_iff in Hr. destruct Hr as (p & <- & Hp).
  rewrite Forall_forall in Hok. destruct (Hok p Hp) as (Hc & Hs & Hm & He).
  unfold rec_positions, record_of. cbn [c_seq c_start c_cigar]. fold (pexpand p).
  split; [exact Hs|]. rewrite Hs, map_length. split; [|reflexivity].
  apply expand_length. eapply okM_M_pos. exact Hc.
Qed.

(* ---- C15_md *)
Lemma record_md caller ref maxN m reads recs r :
  consensus caller ref maxN m reads = Some recs -> In r recs ->
  (forall p, is_digit (ref p) = false) ->
  md_decode (c_md r) (c_seq r) = Some (map (fun p => upper (ref p)) (rec_positions r)).
Proof.
  intros H Hr Href. destruct (consensus_inv _ _ _ _ _ _ H) as (s & ps & Hne & -> & Hok & _).
  apply in_map_iff in Hr. destruct Hr as (p & <- & Hp).
  rewrite Forall_forall in Hok. destruct (Hok p Hp) as (Hc & Hs & Hm & He).
  unfold rec_positions, record_of. cbn [c_seq c_start c_cigar c_md]. fold (pexpand p).
  rewrite Hm, md_roundtrip.
  - now rewrite map_map.
  - rewrite Hs. now rewrite !map_length.
  - apply Forall_forall. intros c Hc'. apply in_map_iff in Hc'. destruct Hc' as (q & <- & _). apply Href.
Qed.

(* ---- C15_tags *)
Lemma record_tags caller ref maxN m reads recs r :
  consensus caller ref maxN m reads = Some recs -> In r recs ->
  c_SM r = m_sample m /\ c_RX r = m_umi m /\ c_DS r = m_site m /\
  c_TF r = m_fragments m + m_overflow m /\
  c_reverse r = match m_strand m with Some b => b | None => false end /\
  (forall u, m_umi m = Some u -> c_BC r = Some (m_bc m) /\ c_MI r = Some (m_bc m ++ u)).
Proof.
  intros H Hr. destruct (consensus_inv _ _ _ _ _ _ H) as (s & ps & Hne & -> & _).
  apply in_map_iff in Hr. destruct Hr as (p & <- & Hp).
  unfold record_of. cbn [c_SM c_RX c_DS c_TF c_reverse c_BC c_MI]. repeat split; try reflexivity.
  all: rewrite H0; reflexivity.
Qed.

(* ---- the record start is the first covered position of the record; records are in order *)
Lemma okM_expand_head maxN : forall c pos, okM maxN c -> exists t, expand pos c = pos :: t.
Proof.
  intros c pos H. destruct c as [|[n|n] c']; cbn in H; try contradiction. destruct H as [Hn _].
  cbn [expand]. rewrite (zrange_cons pos (pos + n)) by lia. cbn [app]. eauto.
Qed.

Lemma record_start caller ref maxN m reads recs r :
  consensus caller ref maxN m reads = Some recs -> In r recs ->
  exists t, rec_positions r = c_start r :: t.
Proof.
  intros H Hr. destruct (blocks_exact _ _ _ _ _ _ H) as (_ & _ & _ & Hok & _).
  rewrite Forall_forall in Hok. apply (okM_expand_head maxN). apply Hok. assumption.
Qed.

(* ---- the model that the correspondence check runs (call_fast) is the model of the theorems *)
Lemma pc_of_range tab : valid_tab tab = true -> forall q, (0 <= pc_of tab q /\ pc_of tab q < 1)%Q.
Proof.
  intros Hv q. unfold pc_of. destruct (q <? 0); [split; [apply Qle_refl|reflexivity]|].
  unfold valid_tab in Hv. rewrite forallb_forall in Hv.
  destruct (nth_in_or_default (Z.to_nat q) tab 0) as [Hin|Hd].
  - specialize (Hv _ Hin). apply andb_true_iff in Hv. destruct Hv as [H1 H2].
    apply Z.leb_le in H1. apply Z.ltb_lt in H2. unfold Qle, Qlt. cbn [Qnum Qden]. lia.
  - rewrite Hd. unfold Qle, Qlt. cbn [Qnum Qden]. lia.
Qed.

Lemma call_at_ext f g all p : (forall os, f os = g os) -> call_at f all p = call_at g all p.
Proof. intros H. unfold call_at. destruct (obs_at all p); [reflexivity|apply H]. Qed.

Lemma step_ext f g maxN st o : (forall p, f p = g p) -> step f maxN st o = step g maxN st o.
Proof.
  intros H. destruct o as [a|a]; cbn [step]; [|reflexivity].
  f_equal. f_equal. apply map_ext. intros p. apply H.
Qed.

Lemma partial_reads_ext f g maxN c s : (forall p, f p = g p) ->
  partial_reads f maxN c s = partial_reads g maxN c s.
Proof.
  intros H. unfold partial_reads.
  assert (G : forall st, fold_left (step f maxN) c st = fold_left (step g maxN) c st).
  { induction c as [|o c IH]; intros st; cbn [fold_left]; [reflexivity|].
    rewrite (step_ext f g maxN st o H). apply IH. }
  now rewrite G.
Qed.

Lemma consensus_ext f g ref maxN m reads : (forall os, f os = g os) ->
  consensus f ref maxN m reads = consensus g ref maxN m reads.
Proof.
  intros H. unfold consensus. destruct (alignment_start _); [|reflexivity].
  f_equal. f_equal. apply partial_reads_ext. intros p. now apply call_at_ext.
Qed.

Lemma run_model_is_call tab ref maxN m reads : valid_tab tab = true ->
  consensus (fun os => fst (call_fast (pc_of tab) os)) ref maxN m reads =
  consensus (fun os => fst (call (pc_of tab) os)) ref maxN m reads.
Proof.
  intros Hv. apply consensus_ext. intros os. apply call_fast_correct. now apply pc_of_range.
Qed.
