(* C15 proofs, top level: the records of deduplicate_majority. *)
From Coq Require Import ZArith List Bool Lia QArith.
Import ListNotations.
From SCMO Require Import Lib.Val Lib.PyInt Lib.PyIntFacts Gen.GenDedup Model.C15 Proofs.C15_g Proofs.C15_a Proofs.C15_b Proofs.C15_c.
Open Scope Z_scope.

Definition rec_positions (r : crec) : list Z := expand (c_start r) (c_cigar r).
Definition covered (reads : list read) : list Z := sort_uniq (map o_pos (all_obs reads)).

Lemma flat_map_map {A B C} (f : B -> list C) (g : A -> B) l :
  flat_map f (map g l) = flat_map (fun x => f (g x)) l.
Proof. induction l as [|a l IH]; cbn; [reflexivity|]. now rewrite IH. Qed.

Lemma inc_head_least x l : inc (x :: l) -> forall y, In y (x :: l) -> x - 2 + 1 < y.
Proof.
  intros H y Hy. apply inc_cons in H. destruct H as [H _].
  destruct Hy as [<-|Hy]; [lia|]. specialize (H y Hy). lia.
Qed.

(* the (character, amount) list of get_CIGAR drives generate_partial_reads like the M/N list *)
Lemma consensus_unfold caller qcaller ref maxN m reads :
  consensus caller qcaller ref maxN m reads =
  match alignment_start (runs (covered reads)) with
  | None => None
  | Some s => Some (map (record_of ref m)
                        (partial_reads (call_at caller (all_obs reads)) (qual_at qcaller (all_obs reads)) maxN
                                       (cigar_of_runs (runs (covered reads))) s))
  end.
Proof.
  unfold consensus, get_cigar, covered. cbn zeta.
  destruct (alignment_start (runs (sort_uniq (map o_pos (all_obs reads))))); [|reflexivity].
  now rewrite partial_reads_raw_of.
Qed.

(* everything the later theorems need about one run of deduplicate_majority *)
Lemma consensus_inv caller qcaller ref maxN m reads recs :
  consensus caller qcaller ref maxN m reads = Some recs ->
  exists s ps,
    covered reads <> [] /\
    recs = map (record_of ref m) ps /\
    Forall (rec_ok (call_at caller (all_obs reads)) (qual_at qcaller (all_obs reads)) maxN) ps /\
    pcat ps = covered reads /\
    length ps = S (n_long maxN (cigar_of_runs (runs (covered reads)))) /\
    alignment_start (runs (covered reads)) = Some s.
Proof.
  rewrite consensus_unfold. intros H.
  pose proof (sort_uniq_inc (map o_pos (all_obs reads))) as Hinc. fold (covered reads) in Hinc.
  pose proof (runs_expand (covered reads)) as Hexp.
  destruct (covered reads) as [|x0 cov] eqn:Ecov; [discriminate H|].
  pose proof (runs_ok_inc (x0 :: cov) Hinc (x0 - 2) (inc_head_least x0 cov Hinc)) as Hok.
  destruct (runs (x0 :: cov)) as [|[s e] t] eqn:Er.
  - cbn in Hexp. discriminate Hexp.
  - rewrite (alignment_start_first s e t (x0 - 2) Hok) in H. injection H as <-.
    assert (Hcig : okM None (cigar_of_runs ((s, e) :: t))).
    { apply (cigar_of_runs_ok (x0 - 2)); [discriminate|assumption]. }
    destruct (partial_reads_spec (call_at caller (all_obs reads)) (qual_at qcaller (all_obs reads)) maxN _ s Hcig) as (P1 & P2 & P3).
    cbn zeta in *. exists s, (partial_reads (call_at caller (all_obs reads)) (qual_at qcaller (all_obs reads)) maxN (cigar_of_runs ((s, e) :: t)) s).
    repeat split; try assumption; try discriminate.
    + rewrite P2, cigar_of_runs_expand. exact Hexp.
    + now rewrite (alignment_start_first s e t (x0 - 2) Hok).
Qed.

Lemma consensus_none caller qcaller ref maxN m reads :
  consensus caller qcaller ref maxN m reads = None <-> all_obs reads = [].
Proof.
  rewrite consensus_unfold. split.
  - intros H. destruct (covered reads) as [|x0 cov] eqn:Ecov.
    + apply sort_uniq_nil in Ecov. now apply map_eq_nil in Ecov.
    + exfalso.
      pose proof (sort_uniq_inc (map o_pos (all_obs reads))) as Hinc. fold (covered reads) in Hinc.
      rewrite Ecov in Hinc.
      pose proof (runs_ok_inc (x0 :: cov) Hinc (x0 - 2) (inc_head_least x0 cov Hinc)) as Hok.
      pose proof (runs_expand (x0 :: cov)) as Hexp.
      destruct (runs (x0 :: cov)) as [|[s e] t]; [discriminate Hexp|].
      rewrite (alignment_start_first s e t (x0 - 2) Hok) in H. discriminate H.
  - intros H. unfold covered. rewrite H. reflexivity.
Qed.

(* ---- C15_blocks_exact *)
Lemma blocks_exact caller qcaller ref maxN m reads recs :
  consensus caller qcaller ref maxN m reads = Some recs ->
  flat_map rec_positions recs = covered reads /\
  inc (covered reads) /\
  (forall p, In p (covered reads) <-> exists o, In o (all_obs reads) /\ o_pos o = p) /\
  Forall (fun r => okM maxN (c_cigar r)) recs /\
  length recs = S (n_long maxN (cigar_of_runs (runs (covered reads)))).
Proof.
  intros H. destruct (consensus_inv _ _ _ _ _ _ _ H) as (s & ps & Hne & -> & Hok & Hcat & Hlen & _).
  repeat split.
  - rewrite flat_map_map. exact Hcat.
  - apply sort_uniq_inc.
  - unfold covered. rewrite sort_uniq_In, in_map_iff. intros (o & Ho & Hin). exists o. auto.
  - intros (o & Hin & Ho). unfold covered. rewrite sort_uniq_In, in_map_iff. exists o. auto.
  - apply Forall_map. eapply Forall_impl; [|exact Hok]. intros p (Hc & _). exact Hc.
  - now rewrite map_length.
Qed.

(* ---- C15_lengths and the sequence as calls *)
Lemma record_seq caller qcaller ref maxN m reads recs r :
  consensus caller qcaller ref maxN m reads = Some recs -> In r recs ->
  c_seq r = map (call_at caller (all_obs reads)) (rec_positions r) /\
  Z.of_nat (length (c_seq r)) = query_len (c_cigar r) /\
  length (c_seq r) = length (rec_positions r).
Proof.
  intros H Hr. destruct (consensus_inv _ _ _ _ _ _ _ H) as (s & ps & Hne & -> & Hok & _).
  apply in_map_iff in Hr. destruct Hr as (p & <- & Hp).
  rewrite Forall_forall in Hok. destruct (Hok p Hp) as (Hc & Hs & Hq & Hm & He).
  unfold rec_positions, record_of. cbn [c_seq c_start c_cigar]. fold (pexpand p).
  split; [exact Hs|]. rewrite Hs, map_length. split; [|reflexivity].
  apply expand_length. eapply okM_M_pos. exact Hc.
Qed.

(* ---- one quality per base: the quality of the column at that position *)
Lemma record_qual caller qcaller ref maxN m reads recs r :
  consensus caller qcaller ref maxN m reads = Some recs -> In r recs ->
  c_qual r = map (qual_at qcaller (all_obs reads)) (rec_positions r) /\
  length (c_qual r) = length (c_seq r) /\
  Z.of_nat (length (c_qual r)) = query_len (c_cigar r).
Proof.
  intros H Hr. destruct (record_seq _ _ _ _ _ _ _ _ H Hr) as (Hs & Hl & Hl2).
  destruct (consensus_inv _ _ _ _ _ _ _ H) as (s & ps & Hne & -> & Hok & _).
  apply in_map_iff in Hr. destruct Hr as (p & <- & Hp).
  rewrite Forall_forall in Hok. destruct (Hok p Hp) as (Hc & Hs' & Hq & Hm & He).
  unfold rec_positions, record_of in *. cbn [c_seq c_qual c_start c_cigar] in *. fold (pexpand p) in *.
  split; [exact Hq|]. rewrite Hq, Hs', !map_length. split; [reflexivity|].
  rewrite <- Hl, Hs', map_length. reflexivity.
Qed.

(* ---- C15_md *)
Lemma record_md caller qcaller ref maxN m reads recs r :
  consensus caller qcaller ref maxN m reads = Some recs -> In r recs ->
  (forall p, is_digit (ref p) = false) ->
  md_decode (c_md r) (c_seq r) = Some (map (fun p => upper (ref p)) (rec_positions r)).
Proof.
  intros H Hr Href. destruct (consensus_inv _ _ _ _ _ _ _ H) as (s & ps & Hne & -> & Hok & _).
  apply in_map_iff in Hr. destruct Hr as (p & <- & Hp).
  rewrite Forall_forall in Hok. destruct (Hok p Hp) as (Hc & Hs & Hq & Hm & He).
  unfold rec_positions, record_of. cbn [c_seq c_start c_cigar c_md]. fold (pexpand p).
  rewrite Hm, md_roundtrip.
  - now rewrite map_map.
  - rewrite Hs. now rewrite !map_length.
  - apply Forall_forall. intros c Hc'. apply in_map_iff in Hc'. destruct Hc' as (q & <- & _). apply Href.
Qed.

(* ---- C15_tags *)
Lemma tags_spec m :
  tag_str tagSM m = Some (m_sample m) /\ tag_int tagDS m = m_site m /\ tag_str tagRX m = m_umi m /\
  tag_str tagBC m = option_map (fun _ => m_bc m) (m_umi m) /\
  tag_str tagMI m = option_map (fun u => m_bc m ++ u) (m_umi m) /\
  tag_int tagTF m = Some (m_fragments m + m_overflow m).
Proof.
  unfold tag_str, tag_int, tags_of, gen_tags, tagSM, tagDS, tagRX, tagBC, tagMI, tagTF.
  cbn [flat_map fst snd guard_ok tag_value Z.eqb Pos.eqb app].
  destruct (m_site m) as [st|], (m_umi m) as [u|]; cbn [option_map app tag_get Z.eqb Pos.eqb];
    rewrite ?shape_TF; repeat split; reflexivity.
Qed.

Lemma record_tags caller qcaller ref maxN m reads recs r :
  consensus caller qcaller ref maxN m reads = Some recs -> In r recs ->
  c_SM r = m_sample m /\ c_RX r = m_umi m /\ c_DS r = m_site m /\
  c_TF r = m_fragments m + m_overflow m /\
  c_reverse r = match m_strand m with Some b => b | None => false end /\
  (forall u, m_umi m = Some u -> c_BC r = Some (m_bc m) /\ c_MI r = Some (m_bc m ++ u)).
Proof.
  intros H Hr. destruct (consensus_inv _ _ _ _ _ _ _ H) as (s & ps & Hne & -> & _).
  apply in_map_iff in Hr. destruct Hr as (p & <- & Hp).
  destruct (tags_spec m) as (T1 & T2 & T3 & T4 & T5 & T6).
  unfold record_of. cbn [c_SM c_RX c_DS c_TF c_reverse c_BC c_MI]. rewrite T1, T2, T3, T4, T5, T6.
  repeat split; try reflexivity. all: rewrite H0; reflexivity.
Qed.

(* ---- the record start is the first covered position of the record; records are in order *)
Lemma okM_expand_head maxN : forall c pos, okM maxN c -> exists t, expand pos c = pos :: t.
Proof.
  intros c pos H. destruct c as [|[n|n] c']; cbn in H; try contradiction. destruct H as [Hn _].
  cbn [expand]. rewrite (zrange_cons pos (pos + n)) by lia. cbn [app]. eauto.
Qed.

Lemma record_start caller qcaller ref maxN m reads recs r :
  consensus caller qcaller ref maxN m reads = Some recs -> In r recs ->
  exists t, rec_positions r = c_start r :: t.
Proof.
  intros H Hr. destruct (blocks_exact _ _ _ _ _ _ _ H) as (_ & _ & _ & Hok & _).
  rewrite Forall_forall in Hok. apply (okM_expand_head maxN). apply Hok. assumption.
Qed.

(* ---- the model that the correspondence check runs (call_fast) is the model of the theorems *)
Lemma pc_of_range tab : valid_tab tab = true -> forall q, (0 <= pc_of tab q /\ pc_of tab q < 1)%Q.
Proof.
  intros Hv q. unfold pc_of. destruct (q <? 0); [split; [apply Qle_refl|reflexivity]|].
  unfold valid_tab in Hv. rewrite forallb_forall in Hv.
  destruct (nth_in_or_default (Z.to_nat q) tab 0) as [Hin|Hd].
  - specialize (Hv _ Hin). apply andb_true_iff in Hv. destruct Hv as [H1 H2].
    apply Z.leb_le in H1. apply Z.ltb_lt in H2. unfold Qle, Qlt. cbn [Qnum Qden]. lia.
  - rewrite Hd. unfold Qle, Qlt. cbn [Qnum Qden]. lia.
Qed.

Lemma call_at_ext f g all p : (forall os, f os = g os) -> call_at f all p = call_at g all p.
Proof. intros H. unfold call_at. destruct (obs_at all p); [reflexivity|apply H]. Qed.

Lemma step_ext f g qf qg maxN st o : (forall p, f p = g p) -> (forall p, qf p = qg p) ->
  step f qf maxN st o = step g qg maxN st o.
Proof.
  intros H Hq. destruct o as [a|a]; cbn [step]; [|reflexivity].
  f_equal; f_equal; apply map_ext; intros p; [apply H|apply Hq].
Qed.

Lemma partial_reads_ext f g qf qg maxN c s : (forall p, f p = g p) -> (forall p, qf p = qg p) ->
  partial_reads f qf maxN c s = partial_reads g qg maxN c s.
Proof.
  intros H Hq. unfold partial_reads.
  assert (G : forall st, fold_left (step f qf maxN) c st = fold_left (step g qg maxN) c st).
  { induction c as [|o c IH]; intros st; cbn [fold_left]; [reflexivity|].
    rewrite (step_ext f g qf qg maxN st o H Hq). apply IH. }
  now rewrite G.
Qed.

Lemma consensus_ext f g qf qg ref maxN m reads : (forall os, f os = g os) -> (forall os, qf os = qg os) ->
  consensus f qf ref maxN m reads = consensus g qg ref maxN m reads.
Proof.
  intros H Hq. rewrite !consensus_unfold. destruct (alignment_start _); [|reflexivity].
  f_equal. f_equal. apply partial_reads_ext; intros p; [now apply call_at_ext|apply Hq].
Qed.
