From Coq Require Import ZArith List Bool Lia.
Import ListNotations.
From SCMO Require Import Lib.Val Lib.PyInt Lib.PyIntFacts Model.C15.
Open Scope Z_scope.
Lemma placeholder : runs [1;2;3;7;8] = [(1,3);(7,8)].
Proof. reflexivity. Qed.
