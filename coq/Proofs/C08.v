(* C08 proofs, assembly: all tasks of a plan together write the covered serial molecules once;
   historical stopping criterion; bp_chunked; site-less molecules. *)
From Coq Require Import ZArith List Bool Lia ZifyBool Permutation Arith Sorted.
Import ListNotations.
From SCMO Require Import Lib.Val Gen.GenOwner Model.C08 Proofs.C08_a Proofs.C08_b.
Open Scope Z_scope.

Lemma Permutation_flat_map_in {A B} (f h : A -> list B) (l : list A) :
  (forall a, In a l -> Permutation (f a) (h a)) -> Permutation (flat_map f l) (flat_map h l).
Proof.
  induction l as [|a l IH]; intros H; [constructor|]. cbn [flat_map].
  apply Permutation_app; [apply H; left; reflexivity|apply IH; intros x Hx; apply H; right; exact Hx].
Qed.

Definition mol_contig (m : mol) : Z := match m with f :: _ => f_contig f | [] => 0 end.
(* the serial molecule is handled by some task: it lies on a whole-contig task's contig, or its
   site lies in [0, len) of a tiled contig *)
Definition covered_mol (ps : list contig_plan) (m : mol) : bool :=
  covered ps (mol_contig m) (option_map snd (mol_site m)).

Section Equiv.
  Variable g : list frag -> list mol.
  Hypothesis g_sub : forall l m f, In m (g l) -> In f m -> In f l.
  Hypothesis g_nonempty : forall l m, In m (g l) -> m <> [].
  Variable partial : task -> frag -> frag.
  Variable ksite : Z -> option Z.
  Variable kcontig : Z -> Z.
  Variable L : Z.
  Variable ps : list contig_plan.
  Variable fs : list frag.
  Hypothesis Hplans : plans_ok L ps = true.
  Hypothesis Hfrags : frags_ok L ps fs = true.
  Hypothesis fs_keyed : forall f, In f fs -> keyed ksite kcontig f.
  Hypothesis partial_keyed : forall t f, In t (plan_tasks ps) -> In f fs ->
    In (partial t f) (job_frag partial t f) -> keyed ksite kcontig (partial t f).
  Hypothesis partial_site : forall t f, In t (plan_tasks ps) -> In f fs ->
    f_site (partial t f) = None \/ f_site (partial t f) = f_site f \/
    exists r, In r (f_reads f) /\ f_site (partial t f) = Some (r_lo r).
  Hypothesis partial_contig : forall t f, In t (plan_tasks ps) -> In f fs ->
    f_contig f = t_contig t -> f_contig (partial t f) = t_contig t.

  Lemma geom_from_plans : forall t f, In t (plan_tasks ps) -> In f fs -> t_region t = true ->
    f_contig f = t_contig t -> exists len, margin_ok L len t = true /\ frag_ok L len f = true.
  Proof.
    intros t f Ht Hf R Hc. unfold plan_tasks in Ht. apply in_flat_map in Ht. destruct Ht as [[[c len] ts] [Hp Hin]].
    cbn [snd] in Hin. exists len.
    pose proof Hplans as HP. unfold plans_ok in HP. apply andb_prop in HP. destruct HP as [HP _].
    rewrite forallb_forall in HP. specialize (HP _ Hp).
    assert (Hch : chain c 0 len ts = true /\ forallb (margin_ok L len) ts = true).
    { unfold plan_ok in HP. destruct ts as [|t1 [|t2 r]].
      - destruct Hin.
      - destruct Hin as [->|[]]. rewrite R in HP. apply andb_prop in HP. exact HP.
      - apply andb_prop in HP. exact HP. }
    destruct Hch as [Hch Hmar]. rewrite forallb_forall in Hmar. split; [apply Hmar; exact Hin|].
    destruct (chain_tasks _ _ _ _ _ Hch Hin) as (_ & Hct & _).
    pose proof Hfrags as HF. unfold frags_ok in HF. rewrite forallb_forall in HF. specialize (HF _ Hf).
    rewrite forallb_forall in HF. specialize (HF _ Hp). cbn beta iota in HF.
    assert (existsb t_region ts = true) as Ex by (apply existsb_exists; exists t; auto).
    rewrite Ex in HF. replace (f_contig f =? c) with true in HF by lia. exact HF.
  Qed.

  Definition hk (k : Z) : list mol := g (filter (has_key k) fs).
  Definition cov (k : Z) : bool := covered ps (kcontig k) (ksite k).

  Lemma task_perm : forall t, In t (plan_tasks ps) ->
    Permutation (job_run g partial t fs)
                (flat_map (fun k => if accepts t (kcontig k) (ksite k) then hk k else []) (keys fs)).
  Proof.
    intros t Ht.
    exact (job_run_perm g g_sub g_nonempty partial ksite kcontig L fs t fs_keyed
             (fun f Hf => partial_keyed t f Ht Hf) (fun f Hf => partial_site t f Ht Hf)
             (fun f Hf => partial_contig t f Ht Hf) (fun f Hf => geom_from_plans t f Ht Hf)).
  Qed.

  Lemma equiv_keys : forall jobs, Permutation (concat jobs) (plan_tasks ps) ->
    Permutation (parallel g partial jobs fs) (flat_map (fun k => if cov k then hk k else []) (keys fs)).
  Proof.
    intros jobs Hperm. unfold parallel. rewrite flat_map_concat.
    rewrite (Permutation_flat_map_list _ _ _ Hperm).
    rewrite (Permutation_flat_map_in _ _ _ task_perm).
    rewrite (flat_map_swap (fun t k => if accepts t (kcontig k) (ksite k) then hk k else []) (plan_tasks ps) (keys fs)).
    apply Permutation_flat_map_in. intros k _.
    rewrite flat_map_if_count. fold (n_accept (plan_tasks ps) (kcontig k) (ksite k)).
    rewrite (plans_count L ps _ _ Hplans). unfold cov.
    destruct (covered ps (kcontig k) (ksite k)); cbn [repeat concat]; [rewrite app_nil_r|]; reflexivity.
  Qed.

  Lemma hk_mol : forall k m, In m (hk k) ->
    m <> [] /\ (forall f, In f m -> keyed ksite kcontig f /\ f_key f = k).
  Proof.
    intros k m Hm. split; [exact (g_nonempty _ _ Hm)|]. intros f Hf.
    pose proof (g_sub _ _ _ Hm Hf) as Hin. apply filter_In in Hin. destruct Hin as [Hin HK].
    split; [apply fs_keyed; exact Hin|unfold has_key in HK; lia].
  Qed.

  Lemma serial_filter : filter (covered_mol ps) (serial g fs) = flat_map (fun k => if cov k then hk k else []) (keys fs).
  Proof.
    unfold serial, group. rewrite filter_flat_map. apply flat_map_ext_in. intros k _. fold (hk k).
    apply filter_const_in. intros m Hm. destruct (hk_mol k m Hm) as [Hne Hfr].
    unfold covered_mol, cov. rewrite (mol_site_keyed ksite kcontig k m Hne Hfr).
    destruct m as [|f r]; [congruence|]. destruct (Hfr f (or_introl eq_refl)) as [[_ Hc] Hk].
    cbn [mol_contig]. rewrite Hc, Hk. destruct (ksite k); reflexivity.
  Qed.

  (* the jobs, in any grouping and any completion order, write exactly the covered serial molecules *)
  Lemma equiv_mols : forall jobs, Permutation (concat jobs) (plan_tasks ps) ->
    Permutation (parallel g partial jobs fs) (filter (covered_mol ps) (serial g fs)).
  Proof. intros jobs H. rewrite serial_filter. apply equiv_keys. exact H. Qed.

  Lemma equiv_records : forall (tagf : mol -> frag -> read -> Z) jobs, Permutation (concat jobs) (plan_tasks ps) ->
    Permutation (flat_map (write tagf) (parallel g partial jobs fs))
                (flat_map (write tagf) (filter (covered_mol ps) (serial g fs))).
  Proof. intros tagf jobs H. apply Permutation_flat_map_list. apply equiv_mols. exact H. Qed.

  Lemma equiv_all : forall (tagf : mol -> frag -> read -> Z) jobs, Permutation (concat jobs) (plan_tasks ps) ->
    (forall m, In m (serial g fs) -> covered_mol ps m = true) ->
    Permutation (flat_map (write tagf) (parallel g partial jobs fs)) (flat_map (write tagf) (serial g fs)).
  Proof.
    intros tagf jobs H Hall. rewrite (equiv_records tagf jobs H).
    rewrite (filter_const_in (covered_mol ps) true _ Hall). reflexivity.
  Qed.
End Equiv.

(* ------------------------------------------------------------------ single chain ownership *)
Lemma owner_unique_chain : forall c lo hi ts s, chain c lo hi ts = true -> lo <= s < hi ->
  length (filter (fun t => owns t c s) ts) = 1%nat.
Proof. intros c lo hi ts s H Hs. rewrite (chain_count _ _ _ _ s H). replace ((lo <=? s) && (s <? hi)) with true by lia. reflexivity. Qed.

(* ------------------------------------------------------------------ the historical stopping criterion *)
Definition site_le (a b : mol) : Prop :=
  match mol_site a, mol_site b with Some (_, x), Some (_, y) => x <= y | _, _ => True end.

Lemma break_safe : forall t ms, t_end t <= t_fe t -> StronglySorted site_le ms ->
  job_loop_gen act_with_stop t ms = filter (writes t) ms.
Proof.
  intros t ms Hfe Hs. induction Hs as [|m r Hr IH Hall]; [reflexivity|].
  cbn [job_loop_gen filter]. unfold writes at 1. destruct (t_region t) eqn:R.
  - unfold act_with_stop. destruct (mol_site m) as [[c p]|] eqn:Sm.
    + rewrite owns_spec. destruct (p >=? t_fe t) eqn:Stop.
      * replace ((c =? t_contig t) && (t_start t <=? p) && (p <? t_end t)) with false by lia.
        symmetry. rewrite (filter_const_in _ false); [reflexivity|].
        intros m' Hm'. rewrite Forall_forall in Hall. specialize (Hall m' Hm').
        unfold site_le in Hall. rewrite Sm in Hall. unfold writes. rewrite R.
        destruct (mol_site m') as [[c' p']|]; [|reflexivity]. rewrite owns_spec. lia.
      * destruct (c =? t_contig t) eqn:E1, (p <? t_start t) eqn:E2, (p >=? t_end t) eqn:E3,
                 (t_start t <=? p) eqn:E4, (p <? t_end t) eqn:E5; cbn [negb orb andb]; try lia; first [exact IH | f_equal; exact IH].
    + exact IH.
  - rewrite IH. reflexivity.
Qed.

(* ------------------------------------------------------------------ bp_chunked *)
Lemma bp_chunked_go_concat : forall n jobs bp cur, concat (bp_chunked_go n jobs bp cur) = cur ++ jobs.
Proof.
  intros n jobs. induction jobs as [|j r IH]; intros bp cur; cbn [bp_chunked_go].
  - cbn [concat]. rewrite app_nil_r. reflexivity.
  - destruct (bp + Z.abs (t_end j - t_start j) >=? n).
    + cbn [concat]. rewrite IH. rewrite <- app_assoc. reflexivity.
    + rewrite IH. rewrite <- app_assoc. reflexivity.
Qed.

Lemma bp_chunked_concat : forall jobs n, concat (bp_chunked jobs n) = jobs.
Proof. intros. unfold bp_chunked. rewrite bp_chunked_go_concat. reflexivity. Qed.

(* ------------------------------------------------------------------ site-less molecules *)
Lemma siteless_region : forall t ms m, t_region t = true -> In m (job_loop t ms) -> mol_site m <> None.
Proof.
  intros t ms m R Hin. rewrite job_loop_filter in Hin. apply filter_In in Hin. destruct Hin as [_ W].
  unfold writes in W. rewrite R in W. destruct (mol_site m); [discriminate|discriminate].
Qed.

Lemma siteless_contig : forall t ms, t_region t = false -> job_loop t ms = ms.
Proof.
  intros t ms R. rewrite job_loop_filter. rewrite (filter_const_in _ true); [reflexivity|].
  intros m _. unfold writes. rewrite R. reflexivity.
Qed.

(* ------------------------------------------------------------------ statements as used in Props *)
Lemma equiv_stmt : forall (g : list frag -> list mol) (partial : task -> frag -> frag)
    (ksite : Z -> option Z) (kcontig : Z -> Z) (L : Z) (ps : list contig_plan) (fs : list frag)
    (tagf : mol -> frag -> read -> Z) (jobs : list (list task)),
  (forall l m f, In m (g l) -> In f m -> In f l) ->
  (forall l m, In m (g l) -> m <> []) ->
  plans_ok L ps = true -> frags_ok L ps fs = true ->
  (forall f, In f fs -> keyed ksite kcontig f) ->
  (forall t f, In t (plan_tasks ps) -> In f fs -> In (partial t f) (job_frag partial t f) -> keyed ksite kcontig (partial t f)) ->
  (forall t f, In t (plan_tasks ps) -> In f fs ->
     f_site (partial t f) = None \/ f_site (partial t f) = f_site f \/
     exists r, In r (f_reads f) /\ f_site (partial t f) = Some (r_lo r)) ->
  (forall t f, In t (plan_tasks ps) -> In f fs -> f_contig f = t_contig t -> f_contig (partial t f) = t_contig t) ->
  Permutation (concat jobs) (plan_tasks ps) ->
  Permutation (flat_map (write tagf) (parallel g partial jobs fs))
              (flat_map (write tagf) (filter (covered_mol ps) (serial g fs))).
Proof.
  intros g partial ksite kcontig L ps fs tagf jobs Hs Hn Hp Hf Hk Hpk Hps Hpc Hj.
  exact (equiv_records g Hs Hn partial ksite kcontig L ps fs Hp Hf Hk Hpk Hps Hpc tagf jobs Hj).
Qed.

Lemma equiv_all_stmt : forall (g : list frag -> list mol) (partial : task -> frag -> frag)
    (ksite : Z -> option Z) (kcontig : Z -> Z) (L : Z) (ps : list contig_plan) (fs : list frag)
    (tagf : mol -> frag -> read -> Z) (jobs : list (list task)),
  (forall l m f, In m (g l) -> In f m -> In f l) ->
  (forall l m, In m (g l) -> m <> []) ->
  plans_ok L ps = true -> frags_ok L ps fs = true ->
  (forall f, In f fs -> keyed ksite kcontig f) ->
  (forall t f, In t (plan_tasks ps) -> In f fs -> In (partial t f) (job_frag partial t f) -> keyed ksite kcontig (partial t f)) ->
  (forall t f, In t (plan_tasks ps) -> In f fs ->
     f_site (partial t f) = None \/ f_site (partial t f) = f_site f \/
     exists r, In r (f_reads f) /\ f_site (partial t f) = Some (r_lo r)) ->
  (forall t f, In t (plan_tasks ps) -> In f fs -> f_contig f = t_contig t -> f_contig (partial t f) = t_contig t) ->
  Permutation (concat jobs) (plan_tasks ps) ->
  (forall m, In m (serial g fs) -> covered_mol ps m = true) ->
  Permutation (flat_map (write tagf) (parallel g partial jobs fs)) (flat_map (write tagf) (serial g fs)).
Proof.
  intros g partial ksite kcontig L ps fs tagf jobs Hs Hn Hp Hf Hk Hpk Hps Hpc Hj Hall.
  exact (equiv_all g Hs Hn partial ksite kcontig L ps fs Hp Hf Hk Hpk Hps Hpc tagf jobs Hj Hall).
Qed.
