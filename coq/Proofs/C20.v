(* C20 proofs: a collecting semantics (reachable sets of worlds, per outcome) for Lib.StatusLang
   programs, proved sound for EVERY loop count, EVERY branch outcome and EVERY fault oracle
   (loops by a checked inductive invariant).  The property theorems are then instances: the checker
   is evaluated on the generated pipeline by vm_compute. *)
From Coq Require Import List Bool Arith Lia.
Import ListNotations.
From SCMO Require Import Lib.StatusLang.

(* ---------------------------------------------------------------- finite sets of worlds *)
Definition world_eqb (a b : world) : bool :=
  status_eqb (st a) (st b) && Bool.eqb (ex a) (ex b) && Bool.eqb (co a) (co b) &&
  Bool.eqb (so a) (so b) && Bool.eqb (ix a) (ix b) && Bool.eqb (lost a) (lost b).

Lemma status_eqb_eq a b : status_eqb a b = true <-> a = b.
Proof. destruct a, b; cbn; split; intros H; try reflexivity; discriminate. Qed.

Lemma world_eqb_eq a b : world_eqb a b = true <-> a = b.
Proof.
  destruct a as [s1 a1 b1 c1 d1 e1], b as [s2 a2 b2 c2 d2 e2]. unfold world_eqb. cbn [st ex co so ix lost].
  split.
  - intros H. repeat (apply andb_prop in H; destruct H as [H ?]).
    apply status_eqb_eq in H.
    repeat match goal with X : Bool.eqb _ _ = true |- _ => apply eqb_prop in X end.
    subst. reflexivity.
  - intros H. inversion H; subst. rewrite !eqb_reflx.
    replace (status_eqb s2 s2) with true by (symmetry; apply status_eqb_eq; reflexivity). reflexivity.
Qed.

Definition mem (w : world) (l : list world) : bool := existsb (world_eqb w) l.

Lemma mem_In w l : mem w l = true <-> In w l.
Proof.
  unfold mem. rewrite existsb_exists. split.
  - intros (x & Hx & He). apply world_eqb_eq in He. subst. assumption.
  - intros H. exists w. split; [assumption|]. apply world_eqb_eq. reflexivity.
Qed.

Fixpoint union (a b : list world) : list world :=
  match a with
  | [] => b
  | x :: a' => let u := union a' b in if mem x u then u else x :: u
  end.

Lemma In_union x a b : In x (union a b) <-> In x a \/ In x b.
Proof.
  induction a as [|y a IH]; cbn [union].
  - cbn. tauto.
  - destruct (mem y (union a b)) eqn:Hm.
    + apply mem_In in Hm. rewrite IH in *. cbn. split; [tauto|].
      intros [[->|H]|H]; tauto.
    + cbn. rewrite IH. tauto.
Qed.

Definition smap (g : world -> world) (l : list world) : list world := union (map g l) [].

Lemma In_smap g l x : In x l -> In (g x) (smap g l).
Proof. intros H. unfold smap. apply In_union. left. apply in_map. assumption. Qed.

Definition subsetb (a b : list world) : bool := forallb (fun x => mem x b) a.

Lemma subsetb_spec a b : subsetb a b = true -> forall x, In x a -> In x b.
Proof.
  unfold subsetb. rewrite forallb_forall. intros H x Hx. apply mem_In. apply H. assumption.
Qed.

(* ---------------------------------------------------------------- collecting semantics *)
Record ares := mkA { nN : list world; nE : list world; nB : list world; okf : bool }.

Definition in_res (a : ares) (r : res) (w : world) : Prop :=
  match r with RNormal => In w (nN a) | RExc => In w (nE a) | RBase => In w (nB a) end.

Definition mark_w (b : bool) (w : world) : world :=
  if b then mkW (st w) (ex w) (co w) (so w) (ix w) true else w.

Definition r_step (e : eff) (S : list world) : ares :=
  let bad := union S (smap (partial e) S) in
  mkA (smap (apply e) S) bad bad true.

Fixpoint grow (fuel : nat) (F : list world -> ares) (I : list world) : list world :=
  match fuel with
  | O => I
  | S k => let I' := union (nN (F I)) I in if subsetb I' I then I else grow k F I'
  end.

(* the analysis of each construct, as a function of the analysis [F]/[G] of its parts *)
Definition seq_res (F G : list world -> ares) (S : list world) : ares :=
  let ra := F S in
  let rb := G (nN ra) in
  mkA (nN rb) (union (nE ra) (nE rb)) (union (nB ra) (nB rb)) (okf ra && okf rb).

Definition loop_one (h : eff) (F : list world -> ares) (I : list world) : ares :=
  let rh := r_step h I in
  let rb := F (nN rh) in
  mkA (nN rb) (union (nE rh) (nE rb)) (union (nB rh) (nB rb)) (okf rb).

Definition loop_fuel : nat := 64.

Definition loop_res (h : eff) (F : list world -> ares) (S : list world) : ares :=
  let I := grow loop_fuel (loop_one h F) S in
  let r1 := loop_one h F I in
  let rl := r_step ENop I in
  mkA (nN rl) (union (nE r1) (nE rl)) (union (nB r1) (nB rl))
      (okf r1 && subsetb (nN r1) I && subsetb S I).

Definition try_res (mkb reraise cb : bool) (F H : list world -> ares) (S : list world) : ares :=
  let rb := F S in
  let mk := smap (mark_w mkb) in
  let hE := H (mk (nE rb)) in
  let hB := if cb then H (mk (nB rb)) else mkA [] [] (nB rb) true in
  mkA (union (nN rb) (if reraise then [] else union (nN hE) (nN hB)))
      (union (nE hE) (union (nE hB) (if reraise then nN hE else [])))
      (union (nB hE) (union (nB hB) (if reraise then nN hB else [])))
      (okf rb && okf hE && okf hB).

Definition choice_res (F G : list world -> ares) (S : list world) : ares :=
  let ra := F S in
  let rb := G S in
  mkA (union (nN ra) (nN rb)) (union (nE ra) (nE rb)) (union (nB ra) (nB rb)) (okf ra && okf rb).

(* [sound F run]: F over-approximates what [run] can do from any configuration whose world is in S *)
Definition sound (F : list world -> ares) (run : cfg -> res * cfg) : Prop :=
  forall S s r s', okf (F S) = true -> In (wd s) S -> run s = (r, s') -> in_res (F S) r (wd s').

Section Constructs.
  Variable f : nat -> fault.

  Lemma step_sound l e : sound (r_step e) (step f l e).
  Proof.
    intros S s r s' _ Hin Hst. unfold step in Hst. unfold r_step.
    destruct (f (cn s)) as [|b|b]; inversion Hst; subst; clear Hst; cbn [wd].
    - cbn. apply In_smap. assumption.
    - destruct b; cbn; apply In_union; left; assumption.
    - destruct b; cbn; apply In_union; right; apply In_smap; assumption.
  Qed.

  Lemma seq_sound F G ra rb : sound F ra -> sound G rb ->
    sound (seq_res F G) (fun s => let (r, s1) := ra s in match r with RNormal => rb s1 | _ => (r, s1) end).
  Proof.
    intros HF HG S s r s' Hok Hin Hex. unfold seq_res in *. cbn zeta in *. cbn [okf] in Hok.
    apply andb_prop in Hok. destruct Hok as [Hoka Hokb].
    destruct (ra s) as [r1 s1] eqn:Ha.
    pose proof (HF S s r1 s1 Hoka Hin Ha) as H1.
    destruct r1.
    - cbn [in_res] in H1. pose proof (HG _ s1 r s' Hokb H1 Hex) as H2.
      destruct r; cbn [in_res nN nE nB] in *;
        [exact H2 | apply In_union; right; exact H2 | apply In_union; right; exact H2].
    - inversion Hex; subst. cbn [in_res nE] in *. apply In_union. left. exact H1.
    - inversion Hex; subst. cbn [in_res nB] in *. apply In_union. left. exact H1.
  Qed.

  Lemma iter_sound (one : cfg -> res * cfg) (A : ares) (I : list world) :
    (forall s r s', In (wd s) I -> one s = (r, s') -> in_res A r (wd s')) ->
    (forall x, In x (nN A) -> In x I) ->
    forall k s r s', In (wd s) I -> iter k one s = (r, s') ->
      match r with RNormal => In (wd s') I | RExc => In (wd s') (nE A) | RBase => In (wd s') (nB A) end.
  Proof.
    intros Hone Hsub. induction k as [|k IH]; intros s r s' Hin Hit; cbn [iter] in Hit.
    - inversion Hit; subst. assumption.
    - destruct (one s) as [r0 s0] eqn:H1. specialize (Hone _ _ _ Hin H1).
      destruct r0.
      + apply (IH s0); [apply Hsub; exact Hone | assumption].
      + inversion Hit; subst. exact Hone.
      + inversion Hit; subst. exact Hone.
  Qed.

  Lemma loop_sound n l h F rb : sound F rb ->
    sound (loop_res h F)
      (fun s => let (r, s1) := iter n (fun s0 => let (r0, s0') := step f l h s0 in
                                       match r0 with RNormal => rb s0' | _ => (r0, s0') end) s in
                match r with RNormal => step f l ENop s1 | _ => (r, s1) end).
  Proof.
    intros HF S s r s' Hok Hin Hex. unfold loop_res in *. cbn zeta in *.
    revert Hok. generalize (grow loop_fuel (loop_one h F) S). intros I Hok.
    cbn [okf] in Hok. apply andb_prop in Hok. destruct Hok as [Hok HsubS].
    apply andb_prop in Hok. destruct Hok as [Hok1 HsubN].
    pose proof (subsetb_spec _ _ HsubS) as HS. pose proof (subsetb_spec _ _ HsubN) as HN.
    pose proof (seq_sound _ _ _ _ (step_sound l h) HF) as Hone. fold (loop_one h F) in Hone.
    match type of Hex with context [iter ?k ?o s] => destruct (iter k o s) as [ri si] eqn:Hit end.
    assert (Hone' : forall s0 r0 s0', In (wd s0) I ->
              (let (r1, s1) := step f l h s0 in match r1 with RNormal => rb s1 | _ => (r1, s1) end) = (r0, s0') ->
              in_res (loop_one h F I) r0 (wd s0')).
    { intros s0 r0 s0' Hin0 H0. apply (Hone I s0 r0 s0'); [exact Hok1 | exact Hin0 | exact H0]. }
    pose proof (iter_sound _ (loop_one h F I) I Hone' HN n s ri si (HS _ Hin) Hit) as Hres.
    destruct ri.
    - pose proof (step_sound l ENop I si r s' eq_refl Hres Hex) as Hl.
      destruct r; cbn [in_res nN nE nB] in *;
        [exact Hl | apply In_union; right; exact Hl | apply In_union; right; exact Hl].
    - inversion Hex; subst. cbn [in_res nE]. apply In_union. left. exact Hres.
    - inversion Hex; subst. cbn [in_res nB]. apply In_union. left. exact Hres.
  Qed.

  Lemma try_sound mkb reraise cb F H rb rh : sound F rb -> sound H rh ->
    sound (try_res mkb reraise cb F H)
      (fun s => let (r, s1) := rb s in
                let handle := let (r2, s2) := rh (mark mkb s1) in
                              match r2 with RNormal => (if reraise then r else RNormal, s2) | _ => (r2, s2) end in
                match r with RNormal => (RNormal, s1) | RExc => handle
                           | RBase => if cb then handle else (RBase, s1) end).
  Proof.
    intros HF HH S s r s' Hok Hin Hex. unfold try_res in *. cbn zeta in *. cbn [okf] in Hok.
    apply andb_prop in Hok. destruct Hok as [Hok HokB].
    apply andb_prop in Hok. destruct Hok as [Hokb HokE].
    destruct (rb s) as [r1 sb] eqn:Hb.
    pose proof (HF S s r1 sb Hokb Hin Hb) as H1.
    assert (Hmk : wd (mark mkb sb) = mark_w mkb (wd sb)).
    { unfold mark, mark_w. destruct mkb; reflexivity. }
    destruct r1.
    - inversion Hex; subst. cbn [in_res nN] in *. apply In_union. left. exact H1.
    - destruct (rh (mark mkb sb)) as [r2 s2] eqn:Hh. cbn [in_res] in H1.
      assert (Hin2 : In (wd (mark mkb sb)) (smap (mark_w mkb) (nE (F S)))).
      { rewrite Hmk. apply In_smap. exact H1. }
      pose proof (HH _ _ r2 s2 HokE Hin2 Hh) as H2.
      destruct r2; inversion Hex; subst; clear Hex; cbn [in_res] in H2.
      + destruct reraise; cbn [in_res nN nE nB].
        * apply In_union. right. apply In_union. right. exact H2.
        * apply In_union. right. apply In_union. left. exact H2.
      + cbn [in_res nE]. apply In_union. left. exact H2.
      + cbn [in_res nB]. apply In_union. left. exact H2.
    - cbn [in_res] in H1. destruct cb.
      + destruct (rh (mark mkb sb)) as [r2 s2] eqn:Hh.
        assert (Hin2 : In (wd (mark mkb sb)) (smap (mark_w mkb) (nB (F S)))).
        { rewrite Hmk. apply In_smap. exact H1. }
        pose proof (HH _ _ r2 s2 HokB Hin2 Hh) as H2.
        destruct r2; inversion Hex; subst; clear Hex; cbn [in_res] in H2.
        * destruct reraise; cbn [in_res nN nE nB].
          -- apply In_union. right. apply In_union. right. exact H2.
          -- apply In_union. right. apply In_union. right. exact H2.
        * cbn [in_res nE]. apply In_union. right. apply In_union. left. exact H2.
        * cbn [in_res nB]. apply In_union. right. apply In_union. left. exact H2.
      + inversion Hex; subst. cbn [in_res nB]. apply In_union. right. apply In_union. left. cbn [nB]. exact H1.
  Qed.

  Lemma choice_sound_l F G ra : sound F ra -> sound (choice_res F G) ra.
  Proof.
    intros HF S s r s' Hok Hin Hex. unfold choice_res in *. cbn zeta in *. cbn [okf] in Hok.
    apply andb_prop in Hok. destruct Hok as [Hoka Hokb].
    pose proof (HF S s r s' Hoka Hin Hex) as H1.
    destruct r; cbn [in_res nN nE nB] in *; apply In_union; left; exact H1.
  Qed.

  Lemma choice_sound_r F G rb : sound G rb -> sound (choice_res F G) rb.
  Proof.
    intros HG S s r s' Hok Hin Hex. unfold choice_res in *. cbn zeta in *. cbn [okf] in Hok.
    apply andb_prop in Hok. destruct Hok as [Hoka Hokb].
    pose proof (HG S s r s' Hokb Hin Hex) as H1.
    destruct r; cbn [in_res nN nE nB] in *; apply In_union; right; exact H1.
  Qed.
End Constructs.

Section Reach.
  Variable chk : nat -> option bool.   (* branch outcomes fixed by a hypothesis of the theorem *)

  Fixpoint reach (p : prog) : list world -> ares :=
    match p with
    | Skip => fun S => mkA S [] [] true
    | Step _ e => r_step e
    | Raise _ => fun S => mkA [] S [] true
    | Seq a b => seq_res (reach a) (reach b)
    | Loop _ _ h body => loop_res h (reach body)
    | Try body h reraise cb => try_res (negb reraise && has_unit body) reraise cb (reach body) (reach h)
    | Choice id a b =>
        match chk id with
        | Some true => reach a
        | Some false => reach b
        | None => choice_res (reach a) (reach b)
        end
    end.

  Variable cnt : nat -> nat.
  Variable ch : nat -> bool.
  Variable f : nat -> fault.
  Hypothesis chk_ok : forall id b, chk id = Some b -> ch id = b.

  Theorem reach_sound : forall p, sound (reach p) (exec cnt ch f p).
  Proof.
    induction p as [|l e|l|a IHa b IHb|id l h body IHbody|body IHbody h IHh reraise cb|id a IHa b IHb].
    - intros S s r s' _ Hin Hex. cbn in Hex. inversion Hex; subst. cbn. exact Hin.
    - exact (step_sound f l e).
    - intros S s r s' _ Hin Hex. cbn in Hex. inversion Hex; subst. cbn. exact Hin.
    - exact (seq_sound _ _ _ _ IHa IHb).
    - exact (loop_sound f (cnt id) l h _ _ IHbody).
    - exact (try_sound _ reraise cb _ _ _ _ IHbody IHh).
    - cbn [reach exec]. destruct (chk id) as [[|]|] eqn:Hc.
      + rewrite (chk_ok _ _ Hc). exact IHa.
      + rewrite (chk_ok _ _ Hc). exact IHb.
      + destruct (ch id); [exact (choice_sound_l _ _ _ IHa) | exact (choice_sound_r _ _ _ IHb)].
  Qed.
End Reach.

(* ---------------------------------------------------------------- all worlds *)
Definition all_status := [SNone; SUnfinished; SFail; SOk; SOther].
Definition bools := [true; false].
Definition all_worlds : list world :=
  flat_map (fun s => flat_map (fun a => flat_map (fun b => flat_map (fun c => flat_map (fun d =>
    map (fun l => mkW s a b c d l) bools) bools) bools) bools) bools) all_status.

Lemma in_bools b : In b bools.
Proof. destruct b; cbn; tauto. Qed.

Lemma all_worlds_complete w : In w all_worlds.
Proof.
  destruct w as [s a b c d l]. unfold all_worlds.
  apply in_flat_map. exists s. split; [destruct s; cbn; tauto|].
  apply in_flat_map. exists a. split; [apply in_bools|].
  apply in_flat_map. exists b. split; [apply in_bools|].
  apply in_flat_map. exists c. split; [apply in_bools|].
  apply in_flat_map. exists d. split; [apply in_bools|].
  apply in_map. apply in_bools.
Qed.

(* ---------------------------------------------------------------- the checker and its soundness *)
Definition check (chk : nat -> option bool) (p : prog) (init PN PE PB : world -> bool) : bool :=
  let a := reach chk p (filter init all_worlds) in
  okf a && forallb PN (nN a) && forallb PE (nE a) && forallb PB (nB a).

Theorem check_sound chk p init PN PE PB :
  check chk p init PN PE PB = true ->
  forall cnt ch f w0 r s,
    (forall id b, chk id = Some b -> ch id = b) ->
    init w0 = true ->
    exec cnt ch f p (mkC 0 w0 []) = (r, s) ->
    match r with RNormal => PN (wd s) = true | RExc => PE (wd s) = true | RBase => PB (wd s) = true end.
Proof.
  unfold check. intros H cnt ch f w0 r s Hchk Hinit Hex.
  apply andb_prop in H. destruct H as [H HB]. apply andb_prop in H. destruct H as [H HE].
  apply andb_prop in H. destruct H as [Hok HN].
  assert (Hin : In (wd (mkC 0 w0 [])) (filter init all_worlds)).
  { cbn [wd]. apply filter_In. split; [apply all_worlds_complete | assumption]. }
  pose proof (reach_sound chk cnt ch f Hchk p _ _ r s Hok Hin Hex) as Hr.
  rewrite forallb_forall in HN, HE, HB.
  destruct r; cbn [in_res] in Hr; auto.
Qed.

Definition no_chk : nat -> option bool := fun _ => None.
Definition tt_w : world -> bool := fun _ => true.
Definition not_ok (w : world) : bool := negb (status_eqb (st w) SOk).
Definition ok_and_four (w : world) : bool := status_eqb (st w) SOk && (ex w && co w && so w && ix w).
Definition four (w : world) : bool := ex w && co w && so w && ix w.
Definition inv_init (w : world) : bool := invb w && negb (lost w).
Definition fresh (w : world) : bool := negb (lost w).

Lemma invb_spec w : invb w = true -> st w = SOk ->
  ex w = true /\ co w = true /\ so w = true /\ ix w = true.
Proof.
  unfold invb. intros H Hs. rewrite Hs in H. cbn in H.
  repeat (apply andb_prop in H; destruct H as [H ?]). auto.
Qed.
