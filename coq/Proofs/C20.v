(* C20 proofs: a collecting semantics (reachable sets of (outcome, world) pairs) for Lib.StatusLang
   programs, proved sound for EVERY loop count (per entry of every loop), EVERY branch outcome (per
   evaluation) and EVERY fault oracle whose exception kinds lie in a given list (loops by a checked
   inductive invariant; break / continue / return are outcomes of their own; branches on tracked data split
   the set; a pool worker is analysed from its own initial world and its outcomes are joined into the
   caller's worlds).  The property theorems are then instances: the checker is evaluated on the
   generated pipeline by vm_compute. *)
From Coq Require Import List Bool Arith Lia.
Import ListNotations.
From SCMO Require Import Lib.StatusLang.

(* ---------------------------------------------------------------- sets of worlds: lists without
   repetition (nothing below needs the absence of repetitions; it keeps the lists short) *)
Definition weqb (a b : world) : bool :=
  status_eqb (st a) (st b) && Bool.eqb (ex a) (ex b) && Bool.eqb (co a) (co b) && Bool.eqb (so a) (so b)
  && Bool.eqb (ix a) (ix b) && Bool.eqb (lost a) (lost b) && Bool.eqb (rep a) (rep b) && Bool.eqb (tu a) (tu b)
  && Bool.eqb (tm a) (tm b) && Bool.eqb (gu a) (gu b) && Bool.eqb (gm a) (gm b) && Bool.eqb (got a) (got b).

Lemma status_eqb_eq a b : status_eqb a b = true <-> a = b.
Proof. destruct a, b; cbn; split; intros H; try reflexivity; discriminate. Qed.

Lemma weqb_eq a b : weqb a b = true -> a = b.
Proof.
  unfold weqb. intros H.
  repeat (apply andb_prop in H; destruct H as [H ?]).
  destruct a as [a1 a2 a3 a4 a5 a6 a7 a8 a9 a10 a11 a12], b as [b1 b2 b3 b4 b5 b6 b7 b8 b9 b10 b11 b12].
  cbn [st ex co so ix lost rep tu tm gu gm got] in *.
  apply status_eqb_eq in H.
  repeat match goal with E : Bool.eqb _ _ = true |- _ => apply eqb_prop in E end.
  subst. reflexivity.
Qed.

Lemma weqb_refl a : weqb a a = true.
Proof.
  unfold weqb. rewrite !eqb_reflx.
  replace (status_eqb (st a) (st a)) with true by (symmetry; apply status_eqb_eq; reflexivity). reflexivity.
Qed.

Definition wset := list world.
Definition wmem (w : world) (S : wset) : bool := existsb (weqb w) S.

Lemma wmem_In w S : wmem w S = true <-> In w S.
Proof.
  unfold wmem. rewrite existsb_exists. split.
  - intros [x [Hin He]]. apply weqb_eq in He. subst. exact Hin.
  - intros H. exists w. split; [exact H | apply weqb_refl].
Qed.

Definition wadd (w : world) (S : wset) : wset := if wmem w S then S else w :: S.
Lemma wadd_In w x S : In x (wadd w S) <-> x = w \/ In x S.
Proof.
  unfold wadd. destruct (wmem w S) eqn:E.
  - apply wmem_In in E. split; [intros H; right; exact H | intros [->|H]; assumption].
  - cbn. split; intros [H|H]; auto.
Qed.

Definition wunion (a b : wset) : wset := fold_right wadd b a.
Lemma wunion_In x a b : In x (wunion a b) <-> In x a \/ In x b.
Proof.
  induction a as [|y a IH]; cbn [wunion fold_right].
  - split; [intros H; right; exact H | intros [[]|H]; exact H].
  - fold (wunion a b). rewrite wadd_In, IH. cbn. split.
    + intros [->|[H|H]]; auto.
    + intros [[->|H]|H]; auto.
Qed.

Lemma wmem_union_l w a b : wmem w a = true -> wmem w (wunion a b) = true.
Proof. rewrite !wmem_In, wunion_In. auto. Qed.
Lemma wmem_union_r w a b : wmem w b = true -> wmem w (wunion a b) = true.
Proof. rewrite !wmem_In, wunion_In. auto. Qed.

Definition image (g : world -> world) (S : wset) : wset := fold_right (fun w acc => wadd (g w) acc) [] S.
Lemma image_In g S w : In w S -> In (g w) (image g S).
Proof.
  induction S as [|x S IH]; intros H; [contradiction H|]. cbn [image fold_right]. fold (image g S).
  apply wadd_In. destruct H as [->|H]; [left; reflexivity | right; apply IH; exact H].
Qed.
Lemma wmem_image g S w : wmem w S = true -> wmem (g w) (image g S) = true.
Proof. rewrite !wmem_In. apply image_In. Qed.

(* { g a b | a in A, b in B } *)
Definition image2 (g : world -> world -> world) (A B : wset) : wset :=
  fold_right (fun a acc => wunion (image (g a) B) acc) [] A.
Lemma wmem_image2 g A B a b : wmem a A = true -> wmem b B = true -> wmem (g a b) (image2 g A B) = true.
Proof.
  rewrite !wmem_In. intros HA HB. induction A as [|x A IH]; [contradiction HA|].
  cbn [image2 fold_right]. fold (image2 g A B). apply wunion_In.
  destruct HA as [->|HA]; [left; apply image_In; exact HB | right; apply IH; exact HA].
Qed.

Definition wsubset (a b : wset) : bool := forallb (fun w => wmem w b) a.
Lemma wsubset_spec a b : wsubset a b = true -> forall w, wmem w a = true -> wmem w b = true.
Proof.
  unfold wsubset. rewrite forallb_forall. intros H w Hw. apply H. apply wmem_In. exact Hw.
Qed.

Definition wempty (S : wset) : bool := match S with [] => true | _ => false end.
Lemma wempty_false w S : wmem w S = true -> wempty S = false.
Proof. destruct S; [discriminate | reflexivity]. Qed.

Lemma wmem_filter p S w : wmem w S = true -> p w = true -> wmem w (filter p S) = true.
Proof. rewrite !wmem_In. intros H Hp. apply filter_In. split; assumption. Qed.

(* the worlds with ghost and data fields in their initial state *)
Definition all_status := [SNone; SUnfinished; SFail; SOk; SOther].
Definition bools := [true; false].
Definition base_worlds : list world :=
  flat_map (fun s => flat_map (fun a => flat_map (fun b => flat_map (fun c =>
    map (fun d => mkW s a b c d false false false false false false false) bools) bools) bools) bools) all_status.

Lemma in_bools b : In b bools.
Proof. destruct b; cbn; tauto. Qed.

Lemma base_worlds_complete w : aux_clear w = true -> In w base_worlds.
Proof.
  destruct w as [s a b c d l r u m g1 g2 g]. unfold aux_clear. cbn [lost rep tu tm gu gm got].
  intros H. apply negb_true_iff in H.
  repeat (apply orb_false_elim in H; destruct H as [H ?]). subst.
  unfold base_worlds.
  apply in_flat_map. exists s. split; [destruct s; cbn; tauto|].
  apply in_flat_map. exists a. split; [apply in_bools|].
  apply in_flat_map. exists b. split; [apply in_bools|].
  apply in_flat_map. exists c. split; [apply in_bools|].
  apply in_map_iff. exists d. split; [reflexivity | apply in_bools].
Qed.

Definition of_pred (p : world -> bool) : wset := filter p base_worlds.
Lemma wmem_of_pred p w : aux_clear w = true -> p w = true -> wmem w (of_pred p) = true.
Proof. intros Ha Hp. apply wmem_In. apply filter_In. split; [apply base_worlds_complete; exact Ha | exact Hp]. Qed.

(* ---------------------------------------------------------------- outcomes *)
Definition ekind_eqb (a b : ekind) : bool :=
  match a, b with
  | KRuntime, KRuntime | KValue, KValue | KOS, KOS | KTimeout, KTimeout | KMemory, KMemory
  | KOther, KOther | KBase, KBase => true
  | _, _ => false
  end.
Lemma ekind_eqb_eq a b : ekind_eqb a b = true <-> a = b.
Proof. destruct a, b; cbn; split; intros H; try reflexivity; discriminate. Qed.
Definition kin (k : ekind) (ks : list ekind) : bool := existsb (ekind_eqb k) ks.
Lemma kin_In k ks : In k ks -> kin k ks = true.
Proof. intros H. unfold kin. apply existsb_exists. exists k. split; [exact H | apply ekind_eqb_eq; reflexivity]. Qed.

Lemma all_kinds_complete k : In k all_kinds.
Proof. destruct k; cbn; tauto. Qed.

Definition all_res : list res :=
  [RNormal; RBreak; RContinue; RReturn VPath; RReturn VNone] ++ map RRaised all_kinds.
Lemma all_res_complete r : In r all_res.
Proof. destruct r as [|k| | |v]; [| destruct k | | | destruct v]; cbn; tauto. Qed.

(* one set per exception kind *)
Record r7 := mkR7 { rRuntime : wset; rValue : wset; rOS : wset; rTimeout : wset; rMemory : wset; rOther : wset; rBase : wset }.
Definition getk (k : ekind) (r : r7) : wset :=
  match k with KRuntime => rRuntime r | KValue => rValue r | KOS => rOS r | KTimeout => rTimeout r
             | KMemory => rMemory r | KOther => rOther r | KBase => rBase r end.
Definition mk7 (f : ekind -> wset) : r7 :=
  mkR7 (f KRuntime) (f KValue) (f KOS) (f KTimeout) (f KMemory) (f KOther) (f KBase).
Lemma getk_mk7 k f : getk k (mk7 f) = f k.
Proof. destruct k; reflexivity. Qed.

(* collecting semantics: for every way a program can end, the worlds in which it can end that way *)
Record ares := mkA { aN : wset;    (* normally *)
                     aR : r7;      (* raising kind k *)
                     aB : wset;    (* break *)
                     aC : wset;    (* continue *)
                     aP : wset;    (* return <path> *)
                     aQ : wset;    (* return None *)
                     okf : bool }. (* every loop invariant inside was checked *)

Definition getr (r : res) (a : ares) : wset :=
  match r with
  | RNormal => aN a | RRaised k => getk k (aR a) | RBreak => aB a | RContinue => aC a
  | RReturn VPath => aP a | RReturn VNone => aQ a
  end.
Definition mkres (f : res -> wset) (ok : bool) : ares :=
  mkA (f RNormal) (mk7 (fun k => f (RRaised k))) (f RBreak) (f RContinue) (f (RReturn VPath)) (f (RReturn VNone)) ok.
Lemma getr_mkres r f ok : getr r (mkres f ok) = f r.
Proof. destruct r as [|k| | |v]; [| destruct k | | | destruct v]; reflexivity. Qed.
Lemma okf_mkres f ok : okf (mkres f ok) = ok.
Proof. reflexivity. Qed.

Definition in_res (a : ares) (r : res) (w : world) : Prop := wmem w (getr r a) = true.

Definition big_or (f : ekind -> wset) (l : list ekind) : wset := fold_right (fun k acc => wunion (f k) acc) [] l.
Lemma big_or_spec f l k w : In k l -> wmem w (f k) = true -> wmem w (big_or f l) = true.
Proof.
  induction l as [|x l IH]; intros Hin Hw; [contradiction Hin|]. cbn [big_or fold_right].
  destruct Hin as [->|Hin]; [apply wmem_union_l; exact Hw | apply wmem_union_r; apply IH; assumption].
Qed.

Section Analysis.
  Variable ks : list ekind.      (* the exception kinds a failing step may raise *)

  Definition r_step (e : eff) (S : wset) : ares :=
    let bad := wunion S (image (partial e) S) in
    let good := image (apply e) S in
    mkres (fun r => match r with RNormal => good | RRaised k => if kin k ks then bad else [] | _ => [] end) true.

  Definition seq_res (F G : wset -> ares) (S : wset) : ares :=
    let ra := F S in
    let rb := G (aN ra) in
    mkres (fun r => match r with RNormal => aN rb | _ => wunion (getr r ra) (getr r rb) end) (okf ra && okf rb).

  Definition loop_one (h : eff) (F : wset -> ares) : wset -> ares := seq_res (r_step h) F.
  (* the worlds after which the loop goes on: the body ended normally or by continue *)
  Definition nc (a : ares) : wset := wunion (aN a) (aC a).

  Fixpoint grow (fuel : nat) (F : wset -> ares) (I : wset) : wset :=
    match fuel with
    | O => I
    | S k => let n := nc (F I) in if wsubset n I then I else grow k F (wunion n I)
    end.

  Definition loop_fuel : nat := 400.

  Definition loop_res (h : eff) (F : wset -> ares) (S : wset) : ares :=
    let I := grow loop_fuel (loop_one h F) S in
    let r1 := loop_one h F I in
    let rl := r_step ENop I in
    mkres (fun r => match r with
                    | RNormal => wunion (aN rl) (aB r1)
                    | RBreak | RContinue => []
                    | RRaised _ => wunion (getr r r1) (getr r rl)
                    | RReturn _ => getr r r1
                    end)
          (okf r1 && wsubset (nc r1) I && wsubset S I).

  (* the handler's analysis per exception kind, computed once per kind *)
  Definition kidx (k : ekind) : nat :=
    match k with KRuntime => 0 | KValue => 1 | KOS => 2 | KTimeout => 3 | KMemory => 4 | KOther => 5 | KBase => 6 end.
  Definition no_res : ares := mkres (fun _ => []) true.
  Definition per_kind (g : ekind -> ares) : ekind -> ares :=
    let l := map g all_kinds in fun k => nth (kidx k) l no_res.
  Lemma per_kind_spec g k : per_kind g k = g k.
  Proof. destruct k; reflexivity. Qed.

  Definition try_res (mkb rp reraise : bool) (hs : list hclass) (F H : wset -> ares) (S : wset) : ares :=
    let rb := F (image (commit_w rp) S) in
    let caught := filter (catches hs) all_kinds in
    let hk := per_kind (fun k => if catches hs k then H (image (mark_w mkb rp) (getk k (aR rb))) else no_res) in
    mkres (fun r => match r with
                    | RNormal => wunion (image (commit_w rp) (aN rb))
                                        (if reraise then [] else big_or (fun k => aN (hk k)) caught)
                    | RRaised k' =>
                        wunion (if catches hs k' then (if reraise then aN (hk k') else []) else getk k' (aR rb))
                               (big_or (fun k => getk k' (aR (hk k))) caught)
                    | _ => wunion (image (commit_w rp) (getr r rb)) (big_or (fun k => getr r (hk k)) caught)
                    end)
          (okf rb && forallb (fun k => okf (hk k)) caught).

  Definition choice_res (F G : wset -> ares) (S : wset) : ares :=
    let ra := F S in
    let rb := G S in
    mkres (fun r => wunion (getr r ra) (getr r rb)) (okf ra && okf rb).

  Definition ifw_res (g : guard) (F G : wset -> ares) (S : wset) : ares :=
    let ra := F (filter (guard_holds g) S) in
    let rb := G (filter (fun w => negb (guard_holds g w)) S) in
    mkres (fun r => wunion (getr r ra) (getr r rb)) (okf ra && okf rb).

  (* A = the analysis of the worker from its own initial world *)
  Definition spawn_res (A : ares) (S : wset) : ares :=
    let fails := image spawn_fail S in
    let junk := negb (wempty (aN A) && wempty (aB A) && wempty (aC A)) in
    mkres (fun r => match r with
                    | RNormal => wunion (image2 (join VPath) (aP A) S) (image2 (join VNone) (aQ A) S)
                    | RRaised k => wunion (if wempty (getk k (aR A)) then [] else fails)
                                          (match k with KOther => if junk then fails else [] | _ => [] end)
                    | _ => []
                    end)
          (okf A).

  (* [sound F run]: F over-approximates what [run] can do from any configuration whose world is in S *)
  Definition sound (F : wset -> ares) (run : cfg -> res * cfg) : Prop :=
    forall S s r s', okf (F S) = true -> wmem (wd s) S = true -> run s = (r, s') -> in_res (F S) r (wd s').

  Variable f : nat -> fault.
  Hypothesis f_kinds : forall i, match f i with FNone => True | FBefore k => In k ks | FPartial k => In k ks end.

  Lemma step_sound l e : sound (r_step e) (step f l e).
  Proof.
    intros S s r s' _ Hin Hst. unfold step in Hst. unfold r_step, in_res. rewrite getr_mkres.
    pose proof (f_kinds (cn s)) as Hk.
    destruct (f (cn s)) as [|k|k]; inversion Hst; subst; clear Hst; cbn [wd].
    - apply wmem_image. exact Hin.
    - rewrite (kin_In _ _ Hk). apply wmem_union_l. exact Hin.
    - rewrite (kin_In _ _ Hk). apply wmem_union_r. apply wmem_image. exact Hin.
  Qed.

  Lemma step_res l e s r s' : step f l e s = (r, s') -> r = RNormal \/ exists k, r = RRaised k.
  Proof.
    unfold step. destruct (f (cn s)) as [|k|k]; intros H; inversion H; subst; [left; reflexivity | right; eexists; reflexivity ..].
  Qed.

  Lemma seq_sound F G ra rb : sound F ra -> sound G rb ->
    sound (seq_res F G) (fun s => let (r, s1) := ra s in match r with RNormal => rb s1 | _ => (r, s1) end).
  Proof.
    intros HF HG S s r s' Hok Hin Hex. unfold seq_res in *. cbn zeta in *. rewrite okf_mkres in Hok.
    apply andb_prop in Hok. destruct Hok as [Hoka Hokb].
    destruct (ra s) as [r1 s1] eqn:Ha.
    pose proof (HF S s r1 s1 Hoka Hin Ha) as H1. unfold in_res in *. rewrite getr_mkres.
    destruct r1 as [|k| | |v].
    - cbn [getr] in H1. pose proof (HG _ s1 r s' Hokb H1 Hex) as H2.
      destruct r; [exact H2 | apply wmem_union_r; exact H2 ..].
    - inversion Hex; subst. apply wmem_union_l. exact H1.
    - inversion Hex; subst. apply wmem_union_l. exact H1.
    - inversion Hex; subst. apply wmem_union_l. exact H1.
    - inversion Hex; subst. apply wmem_union_l. exact H1.
  Qed.

  (* one round of a loop whose invariant I is closed under "the body ends normally or by continue" *)
  Lemma iter_sound (one : cfg -> res * cfg) (A : ares) (I : wset) :
    (forall s r s', wmem (wd s) I = true -> one s = (r, s') ->
        match r with RNormal => wmem (wd s') I = true | RContinue => False | _ => wmem (wd s') (getr r A) = true end) ->
    forall n s r s', wmem (wd s) I = true -> iter n one s = (r, s') ->
      match r with RNormal => wmem (wd s') I = true | RContinue => False | _ => wmem (wd s') (getr r A) = true end.
  Proof.
    intros Hone. induction n as [|n IH]; intros s r s' Hin Hit; cbn [iter] in Hit.
    - inversion Hit; subst. assumption.
    - destruct (one s) as [r0 s0] eqn:H1. specialize (Hone _ _ _ Hin H1).
      destruct r0 as [|k| | |v]; try (inversion Hit; subst; exact Hone).
      apply (IH s0); assumption.
  Qed.

  Lemma loop_sound n l h F rb : sound F rb ->
    forall id,
    sound (loop_res h F)
      (fun s => let (r, s1) := iter n (fun s0 => let (r0, s0') := step f l h s0 in
                                       match r0 with
                                       | RNormal => let (rb0, sb) := rb s0' in (cont_to_normal rb0, sb)
                                       | _ => (r0, s0')
                                       end) (mkC (cn s) (wd s) (tr s) (id :: en s)) in
                match r with RNormal => step f l ENop s1 | RBreak => (RNormal, s1) | _ => (r, s1) end).
  Proof.
    intros HF id S s r s' Hok Hin Hex. unfold loop_res in *. cbn zeta in *.
    revert Hok. generalize (grow loop_fuel (loop_one h F) S). intros I Hok.
    rewrite okf_mkres in Hok. apply andb_prop in Hok. destruct Hok as [Hok HsubS].
    apply andb_prop in Hok. destruct Hok as [Hok1 HsubN].
    pose proof (wsubset_spec _ _ HsubS) as HS. pose proof (wsubset_spec _ _ HsubN) as HN.
    pose proof (seq_sound _ _ _ _ (step_sound l h) HF) as Hone. fold (loop_one h F) in Hone.
    match type of Hex with context [iter ?k ?o ?s0] => destruct (iter k o s0) as [ri si] eqn:Hit end.
    set (A := loop_one h F I) in *.
    assert (Hone' : forall s0 r0 s0', wmem (wd s0) I = true ->
              (let (r1, s1) := step f l h s0 in
               match r1 with RNormal => let (rb0, sb) := rb s1 in (cont_to_normal rb0, sb) | _ => (r1, s1) end) = (r0, s0') ->
              match r0 with RNormal => wmem (wd s0') I = true | RContinue => False
                          | _ => wmem (wd s0') (getr r0 A) = true end).
    { intros s0 r0 s0' Hin0 H0.
      (* the raw outcome of one round, before continue is turned into normal *)
      assert (Hraw : exists rr, (let (r1, s1) := step f l h s0 in
                                 match r1 with RNormal => rb s1 | _ => (r1, s1) end) = (rr, s0')
                                /\ r0 = cont_to_normal rr).
      { destruct (step f l h s0) as [r1 s1] eqn:Hs1.
        destruct (step_res _ _ _ _ _ Hs1) as [->|[k ->]].
        - destruct (rb s1) as [rb0 sb]. inversion H0; subst. exists rb0. split; reflexivity.
        - inversion H0; subst. eexists. split; reflexivity. }
      destruct Hraw as [rr [Hrr ->]].
      pose proof (Hone I s0 rr s0' Hok1 Hin0 Hrr) as Hr. unfold in_res in Hr. fold A in Hr.
      destruct rr as [|k| | |v]; cbn [cont_to_normal].
      - apply HN. unfold nc. apply wmem_union_l. exact Hr.
      - exact Hr.
      - exact Hr.
      - apply HN. unfold nc. apply wmem_union_r. exact Hr.
      - exact Hr. }
    assert (Hin0 : wmem (wd (mkC (cn s) (wd s) (tr s) (id :: en s))) I = true) by (cbn [wd]; apply HS; exact Hin).
    pose proof (iter_sound _ A I Hone' n _ ri si Hin0 Hit) as Hres.
    unfold in_res. rewrite getr_mkres.
    destruct ri as [|k| | |v].
    - pose proof (step_sound l ENop I si r s' eq_refl Hres Hex) as Hl. unfold in_res in Hl.
      destruct r as [|k2| | |v2].
      + apply wmem_union_l. exact Hl.
      + apply wmem_union_r. exact Hl.
      + unfold r_step in Hl. rewrite getr_mkres in Hl. discriminate Hl.
      + unfold r_step in Hl. rewrite getr_mkres in Hl. discriminate Hl.
      + unfold r_step in Hl. rewrite getr_mkres in Hl. discriminate Hl.
    - inversion Hex; subst. apply wmem_union_l. exact Hres.
    - inversion Hex; subst. apply wmem_union_r. exact Hres.
    - contradiction Hres.
    - inversion Hex; subst. exact Hres.
  Qed.

  Lemma wd_commit rp s : wd (commit rp s) = commit_w rp (wd s).
  Proof. reflexivity. Qed.
  Lemma wd_mark b rp s : wd (mark b rp s) = mark_w b rp (wd s).
  Proof. reflexivity. Qed.

  Lemma try_sound mkb rp reraise hs F H rb rh : sound F rb -> sound H rh ->
    sound (try_res mkb rp reraise hs F H)
      (fun s => let (r, s1) := rb (commit rp s) in
                match r with
                | RRaised k =>
                    if catches hs k then
                      let (r2, s2) := rh (mark mkb rp s1) in
                      match r2 with RNormal => (if reraise then r else RNormal, s2) | _ => (r2, s2) end
                    else (r, s1)
                | _ => (r, commit rp s1)
                end).
  Proof.
    intros HF HH S s r s' Hok Hin Hex. unfold try_res in *. cbn zeta in *. rewrite okf_mkres in Hok.
    apply andb_prop in Hok. destruct Hok as [Hokb HokH].
    destruct (rb (commit rp s)) as [r1 sb] eqn:Hb.
    assert (Hin1 : wmem (wd (commit rp s)) (image (commit_w rp) S) = true).
    { rewrite wd_commit. apply wmem_image. exact Hin. }
    pose proof (HF _ _ r1 sb Hokb Hin1 Hb) as H1. unfold in_res in *. rewrite getr_mkres.
    set (S1 := image (commit_w rp) S) in *.
    destruct r1 as [|k| | |v].
    - inversion Hex; subst. apply wmem_union_l. rewrite wd_commit. apply wmem_image. exact H1.
    - cbn [getr] in H1. destruct (catches hs k) eqn:Hc.
      + assert (Hk : In k (filter (catches hs) all_kinds)).
        { apply filter_In. split; [apply all_kinds_complete | exact Hc]. }
        set (g := fun k0 => if catches hs k0 then H (image (mark_w mkb rp) (getk k0 (aR (F S1)))) else no_res) in *.
        assert (Hg : per_kind g k = H (image (mark_w mkb rp) (getk k (aR (F S1))))).
        { rewrite per_kind_spec. unfold g. rewrite Hc. reflexivity. }
        rewrite forallb_forall in HokH. specialize (HokH k Hk). rewrite Hg in HokH.
        destruct (rh (mark mkb rp sb)) as [r2 s2] eqn:Hh.
        assert (Hin2 : wmem (wd (mark mkb rp sb)) (image (mark_w mkb rp) (getk k (aR (F S1)))) = true).
        { rewrite wd_mark. apply wmem_image. exact H1. }
        pose proof (HH _ _ r2 s2 HokH Hin2 Hh) as H2. unfold in_res in H2. rewrite <- Hg in H2.
        destruct r2 as [|k2| | |v2]; inversion Hex; subst; clear Hex.
        * cbn [getr] in H2. destruct reraise.
          -- rewrite Hc. apply wmem_union_l. exact H2.
          -- apply wmem_union_r. exact (big_or_spec (fun k0 => aN (per_kind g k0)) _ k _ Hk H2).
        * cbn [getr] in H2. apply wmem_union_r.
          exact (big_or_spec (fun k0 => getk k2 (aR (per_kind g k0))) _ k _ Hk H2).
        * apply wmem_union_r. exact (big_or_spec (fun k0 => getr RBreak (per_kind g k0)) _ k _ Hk H2).
        * apply wmem_union_r. exact (big_or_spec (fun k0 => getr RContinue (per_kind g k0)) _ k _ Hk H2).
        * apply wmem_union_r. exact (big_or_spec (fun k0 => getr (RReturn v2) (per_kind g k0)) _ k _ Hk H2).
      + inversion Hex; subst. rewrite Hc. apply wmem_union_l. exact H1.
    - inversion Hex; subst. apply wmem_union_l. rewrite wd_commit. apply wmem_image. exact H1.
    - inversion Hex; subst. apply wmem_union_l. rewrite wd_commit. apply wmem_image. exact H1.
    - inversion Hex; subst. apply wmem_union_l. rewrite wd_commit. apply wmem_image. exact H1.
  Qed.

  Lemma choice_sound_l F G ra : sound F ra -> sound (choice_res F G) ra.
  Proof.
    intros HF S s r s' Hok Hin Hex. unfold choice_res in *. cbn zeta in *. rewrite okf_mkres in Hok.
    apply andb_prop in Hok. destruct Hok as [Hoka Hokb].
    pose proof (HF S s r s' Hoka Hin Hex) as H1. unfold in_res in *. rewrite getr_mkres.
    apply wmem_union_l. exact H1.
  Qed.

  Lemma choice_sound_r F G rb : sound G rb -> sound (choice_res F G) rb.
  Proof.
    intros HG S s r s' Hok Hin Hex. unfold choice_res in *. cbn zeta in *. rewrite okf_mkres in Hok.
    apply andb_prop in Hok. destruct Hok as [Hoka Hokb].
    pose proof (HG S s r s' Hokb Hin Hex) as H1. unfold in_res in *. rewrite getr_mkres.
    apply wmem_union_r. exact H1.
  Qed.

  Lemma ifw_sound g F G ra rb : sound F ra -> sound G rb ->
    sound (ifw_res g F G) (fun s => if guard_holds g (wd s) then ra s else rb s).
  Proof.
    intros HF HG S s r s' Hok Hin Hex. unfold ifw_res in *. cbn zeta in *. rewrite okf_mkres in Hok.
    apply andb_prop in Hok. destruct Hok as [Hoka Hokb]. unfold in_res. rewrite getr_mkres.
    destruct (guard_holds g (wd s)) eqn:Hg.
    - apply wmem_union_l. apply (HF _ s r s' Hoka); [apply wmem_filter; assumption | exact Hex].
    - apply wmem_union_r. apply (HG _ s r s' Hokb); [apply wmem_filter; [assumption | rewrite Hg; reflexivity] | exact Hex].
  Qed.

  Lemma spawn_sound F rp : sound F rp ->
    sound (spawn_res (F [w_spawn0]))
      (fun s => let (r, s1) := rp (mkC (cn s) w_spawn0 (tr s) (en s)) in
                let back := fun w => mkC (cn s1) w (tr s1) (en s1) in
                match r with
                | RReturn v => (RNormal, back (join v (wd s1) (wd s)))
                | RRaised k => (RRaised k, back (spawn_fail (wd s)))
                | _ => (RRaised KOther, back (spawn_fail (wd s)))
                end).
  Proof.
    intros HF S s r s' Hok Hin Hex. unfold spawn_res in *. cbn zeta in *. rewrite okf_mkres in Hok.
    destruct (rp (mkC (cn s) w_spawn0 (tr s) (en s))) as [r1 s1] eqn:Hp.
    assert (Hin0 : wmem (wd (mkC (cn s) w_spawn0 (tr s) (en s))) [w_spawn0] = true).
    { cbn [wd]. apply wmem_In. left. reflexivity. }
    pose proof (HF _ _ r1 s1 Hok Hin0 Hp) as H1. unfold in_res in *. rewrite getr_mkres.
    set (A := F [w_spawn0]) in *.
    assert (Hfail : wmem (spawn_fail (wd s)) (image spawn_fail S) = true) by (apply wmem_image; exact Hin).
    destruct r1 as [|k| | |v]; inversion Hex; subst; clear Hex; cbn [wd].
    - apply wmem_union_r. cbn [getr] in H1. rewrite (wempty_false _ _ H1). cbn [andb negb]. exact Hfail.
    - apply wmem_union_l. cbn [getr] in H1. rewrite (wempty_false _ _ H1). exact Hfail.
    - apply wmem_union_r. cbn [getr] in H1. rewrite (wempty_false _ _ H1). rewrite andb_false_r. cbn [andb negb]. exact Hfail.
    - apply wmem_union_r. cbn [getr] in H1. rewrite (wempty_false _ _ H1). rewrite andb_false_r. cbn [negb]. exact Hfail.
    - destruct v; cbn [getr] in H1.
      + apply wmem_union_l. apply wmem_image2; assumption.
      + apply wmem_union_r. apply wmem_image2; assumption.
  Qed.

  Variable chk : nat -> option bool.   (* branch outcomes fixed by a hypothesis of the theorem *)

  Fixpoint reach (p : prog) : wset -> ares :=
    match p with
    | Skip => fun S => mkres (fun r => match r with RNormal => S | _ => [] end) true
    | Step _ e => r_step e
    | Raise _ k => fun S => mkres (fun r => match r with RRaised k' => if ekind_eqb k' k then S else [] | _ => [] end) true
    | Seq a b => seq_res (reach a) (reach b)
    | Loop _ _ h body => loop_res h (reach body)
    | Try body h reraise hs => try_res (negb reraise && has_unit body) (reports h) reraise hs (reach body) (reach h)
    | Choice id a b =>
        match chk id with
        | Some true => reach a
        | Some false => reach b
        | None => choice_res (reach a) (reach b)
        end
    | Break => fun S => mkres (fun r => match r with RBreak => S | _ => [] end) true
    | Continue => fun S => mkres (fun r => match r with RContinue => S | _ => [] end) true
    | Return v => fun S => mkres (fun r => match r, v with
                                           | RReturn VPath, VPath => S | RReturn VNone, VNone => S | _, _ => [] end) true
    | IfW g a b => ifw_res g (reach a) (reach b)
    | Spawn _ p => spawn_res (reach p [w_spawn0])
    end.

  Variable cnt : nat -> nat -> nat.
  Variable ch : nat -> nat -> bool.
  Hypothesis chk_ok : forall id b, chk id = Some b -> forall n, ch id n = b.

  Theorem reach_sound : forall p, sound (reach p) (exec cnt ch f p).
  Proof.
    induction p as [|l e|l k|a IHa b IHb|id l h body IHbody|body IHbody h IHh reraise hs|id a IHa b IHb
                    | | |v|g a IHa b IHb|l p IHp].
    - intros S s r s' _ Hin Hex. cbn in Hex. inversion Hex; subst. unfold in_res. cbn [reach]. rewrite getr_mkres. exact Hin.
    - exact (step_sound l e).
    - intros S s r s' _ Hin Hex. cbn in Hex. inversion Hex; subst. unfold in_res. cbn [reach wd]. rewrite getr_mkres.
      replace (ekind_eqb k k) with true by (symmetry; apply ekind_eqb_eq; reflexivity). exact Hin.
    - exact (seq_sound _ _ _ _ IHa IHb).
    - intros S s r s' Hok Hin Hex. cbn [reach exec] in *.
      exact (loop_sound (cnt id (count id (en s))) l h _ _ IHbody id S s r s' Hok Hin Hex).
    - exact (try_sound _ _ reraise hs _ _ _ _ IHbody IHh).
    - cbn [reach exec]. destruct (chk id) as [[|]|] eqn:Hc.
      + intros S s r s' Hok Hin Hex. rewrite (chk_ok _ _ Hc) in Hex. exact (IHa S s r s' Hok Hin Hex).
      + intros S s r s' Hok Hin Hex. rewrite (chk_ok _ _ Hc) in Hex. exact (IHb S s r s' Hok Hin Hex).
      + intros S s r s' Hok Hin Hex. destruct (ch id (cn s)).
        * exact (choice_sound_l _ _ _ IHa S s r s' Hok Hin Hex).
        * exact (choice_sound_r _ _ _ IHb S s r s' Hok Hin Hex).
    - intros S s r s' _ Hin Hex. cbn in Hex. inversion Hex; subst. unfold in_res. cbn [reach]. rewrite getr_mkres. exact Hin.
    - intros S s r s' _ Hin Hex. cbn in Hex. inversion Hex; subst. unfold in_res. cbn [reach]. rewrite getr_mkres. exact Hin.
    - intros S s r s' _ Hin Hex. cbn in Hex. inversion Hex; subst. unfold in_res. cbn [reach]. rewrite getr_mkres.
      destruct v; exact Hin.
    - exact (ifw_sound g _ _ _ _ IHa IHb).
    - exact (spawn_sound _ _ IHp).
  Qed.
End Analysis.

(* ---------------------------------------------------------------- the checker and its soundness *)
Definition holds_on (S : wset) (P : world -> bool) : bool := forallb P S.
Lemma holds_on_spec S P w : holds_on S P = true -> wmem w S = true -> P w = true.
Proof. unfold holds_on. rewrite forallb_forall. intros H Hw. apply H. apply wmem_In. exact Hw. Qed.

Definition check_from (ks : list ekind) (chk : nat -> option bool) (p : prog) (S0 : wset)
                      (P : res -> world -> bool) : bool :=
  let a := reach ks chk p S0 in
  okf a && forallb (fun r => holds_on (getr r a) (P r)) all_res.

Definition faults_in (ks : list ekind) (f : nat -> fault) : Prop :=
  forall i, match f i with FNone => True | FBefore k => In k ks | FPartial k => In k ks end.

Theorem check_from_sound ks chk p S0 P :
  check_from ks chk p S0 P = true ->
  forall cnt ch f s0 r s,
    faults_in ks f ->
    (forall id b, chk id = Some b -> forall n, ch id n = b) ->
    wmem (wd s0) S0 = true ->
    exec cnt ch f p s0 = (r, s) ->
    P r (wd s) = true.
Proof.
  unfold check_from. intros H cnt ch f s0 r s Hf Hchk Hin Hex.
  apply andb_prop in H. destruct H as [Hok HR].
  pose proof (reach_sound ks f Hf chk cnt ch Hchk p _ _ r s Hok Hin Hex) as Hr. unfold in_res in Hr.
  rewrite forallb_forall in HR. exact (holds_on_spec _ _ _ (HR r (all_res_complete r)) Hr).
Qed.

Definition check (ks : list ekind) (chk : nat -> option bool) (p : prog) (init : world -> bool)
                 (P : res -> world -> bool) : bool := check_from ks chk p (of_pred init) P.

Theorem check_sound ks chk p init P :
  check ks chk p init P = true ->
  forall cnt ch f w0 r s,
    faults_in ks f ->
    (forall id b, chk id = Some b -> forall n, ch id n = b) ->
    aux_clear w0 = true -> init w0 = true ->
    exec cnt ch f p (mkC 0 w0 [] []) = (r, s) ->
    P r (wd s) = true.
Proof.
  unfold check. intros H cnt ch f w0 r s Hf Hchk Haux Hinit Hex.
  apply (check_from_sound _ _ _ _ _ H cnt ch f (mkC 0 w0 [] []) r s Hf Hchk); [|exact Hex].
  cbn [wd]. apply wmem_of_pred; assumption.
Qed.

Lemma any_kind f : faults_in all_kinds f.
Proof. intros i. destruct (f i) as [|k|k]; [exact I | destruct k; cbn; tauto | destruct k; cbn; tauto]. Qed.

(* every exception class except TimeoutError *)
Definition worker_kinds : list ekind := [KRuntime; KValue; KOS; KMemory; KOther; KBase].
Definition no_timeout (f : nat -> fault) : Prop :=
  forall i, f i <> FBefore KTimeout /\ f i <> FPartial KTimeout.

Lemma no_timeout_kinds f : no_timeout f -> faults_in worker_kinds f.
Proof.
  intros H i. destruct (H i) as [H1 H2]. destruct (f i) as [|k|k].
  - exact I.
  - destruct k; cbn; try tauto; exfalso; apply H1; reflexivity.
  - destruct k; cbn; try tauto; exfalso; apply H2; reflexivity.
Qed.

Definition no_chk : nat -> option bool := fun _ => None.
Lemma no_chk_ok (ch : nat -> nat -> bool) : forall id b, no_chk id = Some b -> forall n, ch id n = b.
Proof. intros id b H. discriminate H. Qed.

Definition not_ok (w : world) : bool := negb (status_eqb (st w) SOk).
Definition four (w : world) : bool := ex w && co w && so w && ix w.
Definition ok_and_four (w : world) : bool := status_eqb (st w) SOk && four w.
Definition ok_and_good (w : world) : bool := status_eqb (st w) SOk && goodb w.
Definition any_w (w : world) : bool := true.

Lemma invb_spec w : invb w = true -> st w = SOk ->
  ex w = true /\ co w = true /\ so w = true /\ ix w = true.
Proof.
  unfold invb. intros H Hs. rewrite Hs in H. cbn in H.
  repeat (apply andb_prop in H; destruct H as [H ?]). auto.
Qed.

Lemma four_spec w : four w = true -> ex w = true /\ co w = true /\ so w = true /\ ix w = true.
Proof. unfold four. intros H. repeat (apply andb_prop in H; destruct H as [H ?]). auto. Qed.

Lemma goodb_spec w : goodb w = true ->
  ex w = true /\ so w = true /\ ix w = true /\ lost w = false /\ (co w = true \/ rep w = true).
Proof.
  unfold goodb. intros H. repeat (apply andb_prop in H; destruct H as [H ?]).
  apply negb_true_iff in H1. apply orb_prop in H0. auto.
Qed.

Lemma invb_rep_spec w : invb_rep w = true -> st w = SOk ->
  ex w = true /\ so w = true /\ ix w = true /\ lost w = false /\ (co w = true \/ rep w = true).
Proof. unfold invb_rep. intros H Hs. rewrite Hs in H. cbn in H. apply goodb_spec. exact H. Qed.
