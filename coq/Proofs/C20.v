(* C20 proofs: a collecting semantics (reachable sets of (outcome, world) pairs) for Lib.StatusLang
   programs, proved sound for EVERY loop count, EVERY branch outcome and EVERY fault oracle whose
   exception kinds lie in a given list (loops by a checked inductive invariant).  The property theorems
   are then instances: the checker is evaluated on the generated pipeline by vm_compute. *)
From Coq Require Import List Bool Arith Lia.
Import ListNotations.
From SCMO Require Import Lib.StatusLang.

(* ---------------------------------------------------------------- finite sets *)
Section FSet.
  Variable A : Type.
  Variable eqb : A -> A -> bool.
  Hypothesis eqb_eq : forall a b, eqb a b = true <-> a = b.

  Definition mem (x : A) (l : list A) : bool := existsb (eqb x) l.

  Lemma mem_In x l : mem x l = true <-> In x l.
  Proof.
    unfold mem. rewrite existsb_exists. split.
    - intros (y & Hy & He). apply eqb_eq in He. subst. assumption.
    - intros H. exists x. split; [assumption|]. apply eqb_eq. reflexivity.
  Qed.

  Fixpoint union (a b : list A) : list A :=
    match a with
    | [] => b
    | x :: a' => let u := union a' b in if mem x u then u else x :: u
    end.

  Lemma In_union x a b : In x (union a b) <-> In x a \/ In x b.
  Proof.
    induction a as [|y a IH]; cbn [union].
    - cbn. tauto.
    - destruct (mem y (union a b)) eqn:Hm.
      + apply mem_In in Hm. rewrite IH in *. cbn. split; [tauto|].
        intros [[->|H]|H]; tauto.
      + cbn. rewrite IH. tauto.
  Qed.

  Definition subsetb (a b : list A) : bool := forallb (fun x => mem x b) a.

  Lemma subsetb_spec a b : subsetb a b = true -> forall x, In x a -> In x b.
  Proof.
    unfold subsetb. rewrite forallb_forall. intros H x Hx. apply mem_In. apply H. assumption.
  Qed.
End FSet.

Definition world_eqb (a b : world) : bool :=
  status_eqb (st a) (st b) && Bool.eqb (ex a) (ex b) && Bool.eqb (co a) (co b) &&
  Bool.eqb (so a) (so b) && Bool.eqb (ix a) (ix b) && Bool.eqb (lost a) (lost b).

Lemma status_eqb_eq a b : status_eqb a b = true <-> a = b.
Proof. destruct a, b; cbn; split; intros H; try reflexivity; discriminate. Qed.

Lemma world_eqb_eq a b : world_eqb a b = true <-> a = b.
Proof.
  destruct a as [s1 a1 b1 c1 d1 e1], b as [s2 a2 b2 c2 d2 e2]. unfold world_eqb. cbn [st ex co so ix lost].
  split.
  - intros H. repeat (apply andb_prop in H; destruct H as [H ?]).
    apply status_eqb_eq in H.
    repeat match goal with X : Bool.eqb _ _ = true |- _ => apply eqb_prop in X end.
    subst. reflexivity.
  - intros H. inversion H; subst. rewrite !eqb_reflx.
    replace (status_eqb s2 s2) with true by (symmetry; apply status_eqb_eq; reflexivity). reflexivity.
Qed.

Definition ekind_eqb (a b : ekind) : bool :=
  match a, b with
  | KRuntime, KRuntime | KValue, KValue | KOS, KOS | KTimeout, KTimeout | KMemory, KMemory
  | KOther, KOther | KBase, KBase => true
  | _, _ => false
  end.
Lemma ekind_eqb_eq a b : ekind_eqb a b = true <-> a = b.
Proof. destruct a, b; cbn; split; intros H; try reflexivity; discriminate. Qed.

Definition res_eqb (a b : res) : bool :=
  match a, b with
  | RNormal, RNormal => true
  | RRaised x, RRaised y => ekind_eqb x y
  | _, _ => false
  end.
Lemma res_eqb_eq a b : res_eqb a b = true <-> a = b.
Proof.
  destruct a as [|x], b as [|y]; cbn; split; intros H; try reflexivity; try discriminate.
  - apply ekind_eqb_eq in H. subst. reflexivity.
  - inversion H. apply ekind_eqb_eq. reflexivity.
Qed.

Definition tw : Type := (res * world)%type.     (* an outcome: how the program ended, and the world *)
Definition tw_eqb (a b : tw) : bool := res_eqb (fst a) (fst b) && world_eqb (snd a) (snd b).
Lemma tw_eqb_eq a b : tw_eqb a b = true <-> a = b.
Proof.
  destruct a as [r1 w1], b as [r2 w2]. unfold tw_eqb. cbn [fst snd]. split.
  - intros H. apply andb_prop in H. destruct H as [H1 H2].
    apply res_eqb_eq in H1. apply world_eqb_eq in H2. subst. reflexivity.
  - intros H. inversion H; subst. apply andb_true_intro. split; [apply res_eqb_eq | apply world_eqb_eq]; reflexivity.
Qed.

Definition wunion := union world world_eqb.
Definition tunion := union tw tw_eqb.
Definition wsubsetb := subsetb world world_eqb.
Definition In_wunion := In_union world world_eqb world_eqb_eq.
Definition In_tunion := In_union tw tw_eqb tw_eqb_eq.
Definition wsubsetb_spec := subsetb_spec world world_eqb world_eqb_eq.

Definition wdedup (l : list world) : list world := wunion l [].
Definition tdedup (l : list tw) : list tw := tunion l [].
Lemma In_wdedup x l : In x (wdedup l) <-> In x l.
Proof. unfold wdedup. rewrite In_wunion. cbn. tauto. Qed.
Lemma In_tdedup x l : In x (tdedup l) <-> In x l.
Proof. unfold tdedup. rewrite In_tunion. cbn. tauto. Qed.

(* ---------------------------------------------------------------- collecting semantics *)
Record ares := mkA { outs : list tw; okf : bool }.

Definition in_res (a : ares) (r : res) (w : world) : Prop := In (r, w) (outs a).

Definition is_normal (r : res) : bool := match r with RNormal => true | _ => false end.

Definition normals (o : list tw) : list world :=
  wdedup (flat_map (fun t => if is_normal (fst t) then [snd t] else []) o).
Definition raisedk (k : ekind) (o : list tw) : list world :=
  wdedup (flat_map (fun t => if res_eqb (fst t) (RRaised k) then [snd t] else []) o).
Definition raised_part (o : list tw) : list tw := filter (fun t => negb (is_normal (fst t))) o.

Lemma In_normals w o : In (RNormal, w) o -> In w (normals o).
Proof.
  intros H. unfold normals. apply In_wdedup. apply in_flat_map. exists (RNormal, w). split; [assumption|].
  cbn. left. reflexivity.
Qed.

Lemma In_raisedk k w o : In (RRaised k, w) o -> In w (raisedk k o).
Proof.
  intros H. unfold raisedk. apply In_wdedup. apply in_flat_map. exists (RRaised k, w). split; [assumption|].
  cbn [fst snd]. replace (res_eqb (RRaised k) (RRaised k)) with true by (symmetry; apply res_eqb_eq; reflexivity).
  cbn. left. reflexivity.
Qed.

Lemma In_raised_part k w o : In (RRaised k, w) o -> In (RRaised k, w) (raised_part o).
Proof. intros H. unfold raised_part. apply filter_In. split; [assumption | reflexivity]. Qed.

Definition mark_w (b : bool) (w : world) : world :=
  if b then mkW (st w) (ex w) (co w) (so w) (ix w) true else w.

Section Analysis.
  Variable ks : list ekind.      (* the exception kinds a failing step may raise *)

  Definition r_step (e : eff) (S : list world) : ares :=
    mkA (tdedup (map (fun w => (RNormal, apply e w)) S ++
                 flat_map (fun k => map (fun w => (RRaised k, w)) S) ks ++
                 flat_map (fun k => map (fun w => (RRaised k, partial e w)) S) ks)) true.

  Definition seq_res (F G : list world -> ares) (S : list world) : ares :=
    let ra := F S in
    let rb := G (normals (outs ra)) in
    mkA (tunion (raised_part (outs ra)) (outs rb)) (okf ra && okf rb).

  Definition loop_one (h : eff) (F : list world -> ares) : list world -> ares := seq_res (r_step h) F.

  Fixpoint grow (fuel : nat) (F : list world -> ares) (I : list world) : list world :=
    match fuel with
    | O => I
    | S k => let I' := wunion (normals (outs (F I))) I in if wsubsetb I' I then I else grow k F I'
    end.

  Definition loop_fuel : nat := 64.

  Definition loop_res (h : eff) (F : list world -> ares) (S : list world) : ares :=
    let I := grow loop_fuel (loop_one h F) S in
    let r1 := loop_one h F I in
    let rl := r_step ENop I in
    mkA (tunion (raised_part (outs r1)) (outs rl))
        (okf r1 && wsubsetb (normals (outs r1)) I && wsubsetb S I).

  (* what the handler does with the outcomes of kind k of the body *)
  Definition handle_k (mkb reraise : bool) (H : list world -> ares) (o : list tw) (k : ekind) : ares :=
    let hk := H (wdedup (map (mark_w mkb) (raisedk k o))) in
    mkA (raised_part (outs hk) ++
         map (fun w => (if reraise then RRaised k else RNormal, w)) (normals (outs hk))) (okf hk).

  Definition try_res (mkb reraise : bool) (hs : list hclass) (F H : list world -> ares) (S : list world) : ares :=
    let rb := F S in
    let pass := filter (fun t => match fst t with RNormal => true | RRaised k => negb (catches hs k) end) (outs rb) in
    let caught := filter (catches hs) all_kinds in
    mkA (tdedup (pass ++ flat_map (fun k => outs (handle_k mkb reraise H (outs rb) k)) caught))
        (okf rb && forallb (fun k => okf (handle_k mkb reraise H (outs rb) k)) caught).

  Definition choice_res (F G : list world -> ares) (S : list world) : ares :=
    let ra := F S in
    let rb := G S in
    mkA (tunion (outs ra) (outs rb)) (okf ra && okf rb).

  (* [sound F run]: F over-approximates what [run] can do from any configuration whose world is in S *)
  Definition sound (F : list world -> ares) (run : cfg -> res * cfg) : Prop :=
    forall S s r s', okf (F S) = true -> In (wd s) S -> run s = (r, s') -> in_res (F S) r (wd s').

  Variable f : nat -> fault.
  Hypothesis f_kinds : forall i, match f i with FNone => True | FBefore k => In k ks | FPartial k => In k ks end.

  Lemma step_sound l e : sound (r_step e) (step f l e).
  Proof.
    intros S s r s' _ Hin Hst. unfold step in Hst. unfold r_step, in_res. cbn [outs].
    pose proof (f_kinds (cn s)) as Hk.
    apply In_tdedup. rewrite !in_app_iff.
    destruct (f (cn s)) as [|k|k]; inversion Hst; subst; clear Hst; cbn [wd].
    - left. apply in_map_iff. exists (wd s). split; [reflexivity | assumption].
    - right. left. apply in_flat_map. exists k. split; [assumption|].
      apply in_map_iff. exists (wd s). split; [reflexivity | assumption].
    - right. right. apply in_flat_map. exists k. split; [assumption|].
      apply in_map_iff. exists (wd s). split; [reflexivity | assumption].
  Qed.

  Lemma seq_sound F G ra rb : sound F ra -> sound G rb ->
    sound (seq_res F G) (fun s => let (r, s1) := ra s in match r with RNormal => rb s1 | _ => (r, s1) end).
  Proof.
    intros HF HG S s r s' Hok Hin Hex. unfold seq_res, in_res in *. cbn zeta in *. cbn [okf outs] in *.
    apply andb_prop in Hok. destruct Hok as [Hoka Hokb].
    destruct (ra s) as [r1 s1] eqn:Ha.
    pose proof (HF S s r1 s1 Hoka Hin Ha) as H1. unfold in_res in H1.
    apply In_tunion.
    destruct r1 as [|k].
    - right. apply (HG _ s1 r s' Hokb); [apply In_normals; exact H1 | exact Hex].
    - inversion Hex; subst. left. apply In_raised_part. exact H1.
  Qed.

  Lemma iter_sound (one : cfg -> res * cfg) (A : ares) (I : list world) :
    (forall s r s', In (wd s) I -> one s = (r, s') -> in_res A r (wd s')) ->
    (forall x, In x (normals (outs A)) -> In x I) ->
    forall n s r s', In (wd s) I -> iter n one s = (r, s') ->
      match r with RNormal => In (wd s') I | RRaised k => In (RRaised k, wd s') (outs A) end.
  Proof.
    intros Hone Hsub. induction n as [|n IH]; intros s r s' Hin Hit; cbn [iter] in Hit.
    - inversion Hit; subst. assumption.
    - destruct (one s) as [r0 s0] eqn:H1. specialize (Hone _ _ _ Hin H1). unfold in_res in Hone.
      destruct r0 as [|k].
      + apply (IH s0); [apply Hsub; apply In_normals; exact Hone | assumption].
      + inversion Hit; subst. exact Hone.
  Qed.

  Lemma loop_sound n l h F rb : sound F rb ->
    sound (loop_res h F)
      (fun s => let (r, s1) := iter n (fun s0 => let (r0, s0') := step f l h s0 in
                                       match r0 with RNormal => rb s0' | _ => (r0, s0') end) s in
                match r with RNormal => step f l ENop s1 | _ => (r, s1) end).
  Proof.
    intros HF S s r s' Hok Hin Hex. unfold loop_res, in_res in *. cbn zeta in *.
    revert Hok. generalize (grow loop_fuel (loop_one h F) S). intros I Hok.
    cbn [okf outs] in *. apply andb_prop in Hok. destruct Hok as [Hok HsubS].
    apply andb_prop in Hok. destruct Hok as [Hok1 HsubN].
    pose proof (wsubsetb_spec _ _ HsubS) as HS. pose proof (wsubsetb_spec _ _ HsubN) as HN.
    pose proof (seq_sound _ _ _ _ (step_sound l h) HF) as Hone. fold (loop_one h F) in Hone.
    match type of Hex with context [iter ?k ?o s] => destruct (iter k o s) as [ri si] eqn:Hit end.
    assert (Hone' : forall s0 r0 s0', In (wd s0) I ->
              (let (r1, s1) := step f l h s0 in match r1 with RNormal => rb s1 | _ => (r1, s1) end) = (r0, s0') ->
              in_res (loop_one h F I) r0 (wd s0')).
    { intros s0 r0 s0' Hin0 H0. apply (Hone I s0 r0 s0'); [exact Hok1 | exact Hin0 | exact H0]. }
    pose proof (iter_sound _ (loop_one h F I) I Hone' HN n s ri si (HS _ Hin) Hit) as Hres.
    apply In_tunion.
    destruct ri as [|k].
    - right. exact (step_sound l ENop I si r s' eq_refl Hres Hex).
    - inversion Hex; subst. left. apply In_raised_part. exact Hres.
  Qed.

  Lemma all_kinds_complete k : In k all_kinds.
  Proof. destruct k; cbn; tauto. Qed.

  Lemma try_sound mkb reraise hs F H rb rh : sound F rb -> sound H rh ->
    sound (try_res mkb reraise hs F H)
      (fun s => let (r, s1) := rb s in
                match r with
                | RNormal => (RNormal, s1)
                | RRaised k =>
                    if catches hs k then
                      let (r2, s2) := rh (mark mkb s1) in
                      match r2 with RNormal => (if reraise then r else RNormal, s2) | _ => (r2, s2) end
                    else (r, s1)
                end).
  Proof.
    intros HF HH S s r s' Hok Hin Hex. unfold try_res, in_res in *. cbn zeta in *. cbn [okf outs] in *.
    apply andb_prop in Hok. destruct Hok as [Hokb HokH].
    destruct (rb s) as [r1 sb] eqn:Hb.
    pose proof (HF S s r1 sb Hokb Hin Hb) as H1. unfold in_res in H1.
    apply In_tdedup. apply in_app_iff.
    destruct r1 as [|k].
    - inversion Hex; subst. left. apply filter_In. split; [exact H1 | reflexivity].
    - destruct (catches hs k) eqn:Hc.
      + right. apply in_flat_map. exists k.
        assert (Hk : In k (filter (catches hs) all_kinds)).
        { apply filter_In. split; [apply all_kinds_complete | exact Hc]. }
        split; [exact Hk|].
        rewrite forallb_forall in HokH. specialize (HokH k Hk).
        unfold handle_k in *. cbn [okf outs] in *.
        destruct (rh (mark mkb sb)) as [r2 s2] eqn:Hh.
        assert (Hmk : wd (mark mkb sb) = mark_w mkb (wd sb)).
        { unfold mark, mark_w. destruct mkb; reflexivity. }
        assert (Hin2 : In (wd (mark mkb sb)) (wdedup (map (mark_w mkb) (raisedk k (outs (F S)))))).
        { rewrite Hmk. apply In_wdedup. apply in_map. apply In_raisedk. exact H1. }
        pose proof (HH _ _ r2 s2 HokH Hin2 Hh) as H2. unfold in_res in H2.
        apply in_app_iff.
        destruct r2 as [|k2]; inversion Hex; subst; clear Hex.
        * right. apply in_map_iff. exists (wd s'). split; [reflexivity | apply In_normals; exact H2].
        * left. apply In_raised_part. exact H2.
      + inversion Hex; subst. left. apply filter_In. split; [exact H1|]. cbn [fst]. rewrite Hc. reflexivity.
  Qed.

  Lemma choice_sound_l F G ra : sound F ra -> sound (choice_res F G) ra.
  Proof.
    intros HF S s r s' Hok Hin Hex. unfold choice_res, in_res in *. cbn zeta in *. cbn [okf outs] in *.
    apply andb_prop in Hok. destruct Hok as [Hoka Hokb].
    apply In_tunion. left. exact (HF S s r s' Hoka Hin Hex).
  Qed.

  Lemma choice_sound_r F G rb : sound G rb -> sound (choice_res F G) rb.
  Proof.
    intros HG S s r s' Hok Hin Hex. unfold choice_res, in_res in *. cbn zeta in *. cbn [okf outs] in *.
    apply andb_prop in Hok. destruct Hok as [Hoka Hokb].
    apply In_tunion. right. exact (HG S s r s' Hokb Hin Hex).
  Qed.

  Variable chk : nat -> option bool.   (* branch outcomes fixed by a hypothesis of the theorem *)

  Fixpoint reach (p : prog) : list world -> ares :=
    match p with
    | Skip => fun S => mkA (map (fun w => (RNormal, w)) S) true
    | Step _ e => r_step e
    | Raise _ k => fun S => mkA (map (fun w => (RRaised k, w)) S) true
    | Seq a b => seq_res (reach a) (reach b)
    | Loop _ _ h body => loop_res h (reach body)
    | Try body h reraise hs => try_res (negb reraise && has_unit body) reraise hs (reach body) (reach h)
    | Choice id a b =>
        match chk id with
        | Some true => reach a
        | Some false => reach b
        | None => choice_res (reach a) (reach b)
        end
    end.

  Variable cnt : nat -> nat.
  Variable ch : nat -> bool.
  Hypothesis chk_ok : forall id b, chk id = Some b -> ch id = b.

  Theorem reach_sound : forall p, sound (reach p) (exec cnt ch f p).
  Proof.
    induction p as [|l e|l k|a IHa b IHb|id l h body IHbody|body IHbody h IHh reraise hs|id a IHa b IHb].
    - intros S s r s' _ Hin Hex. cbn in Hex. inversion Hex; subst. unfold in_res. cbn.
      apply in_map_iff. exists (wd s'). split; [reflexivity | exact Hin].
    - exact (step_sound l e).
    - intros S s r s' _ Hin Hex. cbn in Hex. inversion Hex; subst. unfold in_res. cbn.
      apply in_map_iff. exists (wd s). split; [reflexivity | exact Hin].
    - exact (seq_sound _ _ _ _ IHa IHb).
    - exact (loop_sound (cnt id) l h _ _ IHbody).
    - exact (try_sound _ reraise hs _ _ _ _ IHbody IHh).
    - cbn [reach exec]. destruct (chk id) as [[|]|] eqn:Hc.
      + rewrite (chk_ok _ _ Hc). exact IHa.
      + rewrite (chk_ok _ _ Hc). exact IHb.
      + destruct (ch id); [exact (choice_sound_l _ _ _ IHa) | exact (choice_sound_r _ _ _ IHb)].
  Qed.
End Analysis.

(* ---------------------------------------------------------------- all worlds *)
Definition all_status := [SNone; SUnfinished; SFail; SOk; SOther].
Definition bools := [true; false].
Definition all_worlds : list world :=
  flat_map (fun s => flat_map (fun a => flat_map (fun b => flat_map (fun c => flat_map (fun d =>
    map (fun l => mkW s a b c d l) bools) bools) bools) bools) bools) all_status.

Lemma in_bools b : In b bools.
Proof. destruct b; cbn; tauto. Qed.

Lemma all_worlds_complete w : In w all_worlds.
Proof.
  destruct w as [s a b c d l]. unfold all_worlds.
  apply in_flat_map. exists s. split; [destruct s; cbn; tauto|].
  apply in_flat_map. exists a. split; [apply in_bools|].
  apply in_flat_map. exists b. split; [apply in_bools|].
  apply in_flat_map. exists c. split; [apply in_bools|].
  apply in_flat_map. exists d. split; [apply in_bools|].
  apply in_map. apply in_bools.
Qed.

(* ---------------------------------------------------------------- the checker and its soundness *)
Definition check (ks : list ekind) (chk : nat -> option bool) (p : prog) (init : world -> bool)
                 (P : res -> world -> bool) : bool :=
  let a := reach ks chk p (filter init all_worlds) in
  okf a && forallb (fun t => P (fst t) (snd t)) (outs a).

Theorem check_sound ks chk p init P :
  check ks chk p init P = true ->
  forall cnt ch f w0 r s,
    (forall i, match f i with FNone => True | FBefore k => In k ks | FPartial k => In k ks end) ->
    (forall id b, chk id = Some b -> ch id = b) ->
    init w0 = true ->
    exec cnt ch f p (mkC 0 w0 []) = (r, s) ->
    P r (wd s) = true.
Proof.
  unfold check. intros H cnt ch f w0 r s Hf Hchk Hinit Hex.
  apply andb_prop in H. destruct H as [Hok HP].
  assert (Hin : In (wd (mkC 0 w0 [])) (filter init all_worlds)).
  { cbn [wd]. apply filter_In. split; [apply all_worlds_complete | assumption]. }
  pose proof (reach_sound ks f Hf chk cnt ch Hchk p _ _ r s Hok Hin Hex) as Hr.
  unfold in_res in Hr. rewrite forallb_forall in HP. exact (HP _ Hr).
Qed.

Lemma any_kind f : forall i : nat, match f i with FNone => True | FBefore k => In k all_kinds | FPartial k => In k all_kinds end.
Proof. intros i. destruct (f i) as [|k|k]; [exact I | destruct k; cbn; tauto | destruct k; cbn; tauto]. Qed.

Definition no_chk : nat -> option bool := fun _ => None.
Definition not_ok (w : world) : bool := negb (status_eqb (st w) SOk).
Definition four (w : world) : bool := ex w && co w && so w && ix w.
Definition ok_and_four (w : world) : bool := status_eqb (st w) SOk && four w.
Definition inv_init (w : world) : bool := invb w && negb (lost w).
Definition fresh (w : world) : bool := negb (lost w).

Definition P_inv (r : res) (w : world) : bool := invb w.
Definition P_end (r : res) (w : world) : bool := match r with RNormal => ok_and_four w | _ => true end.
Definition P_fail (r : res) (w : world) : bool := match r with RNormal => true | _ => not_ok w end.
Definition P_four (r : res) (w : world) : bool := match r with RNormal => four w | _ => true end.

Lemma invb_spec w : invb w = true -> st w = SOk ->
  ex w = true /\ co w = true /\ so w = true /\ ix w = true.
Proof.
  unfold invb. intros H Hs. rewrite Hs in H. cbn in H.
  repeat (apply andb_prop in H; destruct H as [H ?]). auto.
Qed.

Lemma four_spec w : four w = true -> ex w = true /\ co w = true /\ so w = true /\ ix w = true.
Proof. unfold four. intros H. repeat (apply andb_prop in H; destruct H as [H ?]). auto. Qed.
