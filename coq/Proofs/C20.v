(* C20 proofs: a collecting semantics (reachable sets of (outcome, world) pairs) for Lib.StatusLang
   programs, proved sound for EVERY loop count, EVERY branch outcome and EVERY fault oracle whose
   exception kinds lie in a given list (loops by a checked inductive invariant).  The property theorems
   are then instances: the checker is evaluated on the generated pipeline by vm_compute. *)
From Coq Require Import List Bool Arith Lia NArith.
Import ListNotations.
From SCMO Require Import Lib.StatusLang.

(* ---------------------------------------------------------------- sets of worlds as bit sets
   A world is numbered by [code]; a set of worlds is an N whose bit [code w] says whether w is in it.
   (Nothing below needs [code] to be injective: a collision could only make a set larger, which keeps
   the analysis an over-approximation.) *)
Definition bN (b : bool) : N := if b then 1%N else 0%N.
Definition code (w : world) : N :=
  (match st w with SNone => 0 | SUnfinished => 1 | SFail => 2 | SOk => 3 | SOther => 4 end * 32
   + bN (ex w) * 16 + bN (co w) * 8 + bN (so w) * 4 + bN (ix w) * 2 + bN (lost w))%N.

Definition wset := N.
Definition wmem (w : world) (S : wset) : bool := N.testbit S (code w).
Definition wadd (w : world) (S : wset) : wset := N.setbit S (code w).

Lemma wmem_union w a b : wmem w (N.lor a b) = wmem w a || wmem w b.
Proof. unfold wmem. apply N.lor_spec. Qed.

Lemma wmem_union_l w a b : wmem w a = true -> wmem w (N.lor a b) = true.
Proof. intros H. rewrite wmem_union, H. reflexivity. Qed.
Lemma wmem_union_r w a b : wmem w b = true -> wmem w (N.lor a b) = true.
Proof. intros H. rewrite wmem_union, H. apply orb_true_r. Qed.

Definition wsubset (a b : wset) : bool := N.eqb (N.lor a b) b.
Lemma wsubset_spec a b : wsubset a b = true -> forall w, wmem w a = true -> wmem w b = true.
Proof.
  unfold wsubset. intros H w Hw. apply N.eqb_eq in H. rewrite <- H. apply wmem_union_l. exact Hw.
Qed.

Definition all_status := [SNone; SUnfinished; SFail; SOk; SOther].
Definition bools := [true; false].
Definition all_worlds : list world :=
  flat_map (fun s => flat_map (fun a => flat_map (fun b => flat_map (fun c => flat_map (fun d =>
    map (fun l => mkW s a b c d l) bools) bools) bools) bools) bools) all_status.

Lemma in_bools b : In b bools.
Proof. destruct b; cbn; tauto. Qed.

Lemma all_worlds_complete w : In w all_worlds.
Proof.
  destruct w as [s a b c d l]. unfold all_worlds.
  apply in_flat_map. exists s. split; [destruct s; cbn; tauto|].
  apply in_flat_map. exists a. split; [apply in_bools|].
  apply in_flat_map. exists b. split; [apply in_bools|].
  apply in_flat_map. exists c. split; [apply in_bools|].
  apply in_flat_map. exists d. split; [apply in_bools|].
  apply in_map. apply in_bools.
Qed.

(* { g w | sel w } *)
Definition collect_from (sel : world -> bool) (g : world -> world) (l : list world) (acc : wset) : wset :=
  fold_left (fun acc w => if sel w then wadd (g w) acc else acc) l acc.
Definition collect (sel : world -> bool) (g : world -> world) : wset := collect_from sel g all_worlds 0%N.

Lemma collect_mono sel g l : forall acc i, N.testbit acc i = true -> N.testbit (collect_from sel g l acc) i = true.
Proof.
  induction l as [|x l IH]; intros acc i H; cbn [collect_from fold_left].
  - exact H.
  - apply IH. destruct (sel x); [|exact H]. unfold wadd. apply N.setbit_iff. right. exact H.
Qed.

Lemma collect_from_spec sel g l : forall acc w, In w l -> sel w = true -> wmem (g w) (collect_from sel g l acc) = true.
Proof.
  induction l as [|x l IH]; intros acc w Hin Hs; [contradiction Hin|].
  cbn [collect_from fold_left]. destruct Hin as [->|Hin].
  - rewrite Hs. unfold wmem. apply collect_mono. unfold wadd. apply N.setbit_iff. left. reflexivity.
  - apply IH; assumption.
Qed.

Lemma collect_spec sel g w : sel w = true -> wmem (g w) (collect sel g) = true.
Proof. intros H. apply collect_from_spec; [apply all_worlds_complete | exact H]. Qed.

Definition image (g : world -> world) (S : wset) : wset := collect (fun w => wmem w S) g.
Lemma wmem_image g S w : wmem w S = true -> wmem (g w) (image g S) = true.
Proof. intros H. unfold image. apply (collect_spec (fun w => wmem w S) g w H). Qed.

Definition of_pred (p : world -> bool) : wset := collect p (fun w => w).
Lemma wmem_of_pred p w : p w = true -> wmem w (of_pred p) = true.
Proof. intros H. exact (collect_spec p (fun w => w) w H). Qed.

(* one set per exception kind *)
Record r7 := mkR7 { rRuntime : wset; rValue : wset; rOS : wset; rTimeout : wset; rMemory : wset; rOther : wset; rBase : wset }.
Definition getk (k : ekind) (r : r7) : wset :=
  match k with KRuntime => rRuntime r | KValue => rValue r | KOS => rOS r | KTimeout => rTimeout r
             | KMemory => rMemory r | KOther => rOther r | KBase => rBase r end.
Definition mk7 (f : ekind -> wset) : r7 :=
  mkR7 (f KRuntime) (f KValue) (f KOS) (f KTimeout) (f KMemory) (f KOther) (f KBase).
Lemma getk_mk7 k f : getk k (mk7 f) = f k.
Proof. destruct k; reflexivity. Qed.

Definition ekind_eqb (a b : ekind) : bool :=
  match a, b with
  | KRuntime, KRuntime | KValue, KValue | KOS, KOS | KTimeout, KTimeout | KMemory, KMemory
  | KOther, KOther | KBase, KBase => true
  | _, _ => false
  end.
Lemma ekind_eqb_eq a b : ekind_eqb a b = true <-> a = b.
Proof. destruct a, b; cbn; split; intros H; try reflexivity; discriminate. Qed.
Definition kin (k : ekind) (ks : list ekind) : bool := existsb (ekind_eqb k) ks.
Lemma kin_In k ks : In k ks -> kin k ks = true.
Proof. intros H. unfold kin. apply existsb_exists. exists k. split; [exact H | apply ekind_eqb_eq; reflexivity]. Qed.

Definition big_or (f : ekind -> wset) (l : list ekind) : wset := fold_right (fun k acc => N.lor (f k) acc) 0%N l.
Lemma big_or_spec f l k w : In k l -> wmem w (f k) = true -> wmem w (big_or f l) = true.
Proof.
  induction l as [|x l IH]; intros Hin Hw; [contradiction Hin|]. cbn [big_or fold_right].
  destruct Hin as [->|Hin]; [apply wmem_union_l; exact Hw | apply wmem_union_r; apply IH; assumption].
Qed.

Lemma status_eqb_eq a b : status_eqb a b = true <-> a = b.
Proof. destruct a, b; cbn; split; intros H; try reflexivity; discriminate. Qed.

Lemma all_kinds_complete k : In k all_kinds.
Proof. destruct k; cbn; tauto. Qed.

(* ---------------------------------------------------------------- collecting semantics *)
(* aN: worlds in which the program can end normally; aR k: worlds in which it can end raising kind k *)
Record ares := mkA { aN : wset; aR : r7; okf : bool }.

Definition in_res (a : ares) (r : res) (w : world) : Prop :=
  match r with RNormal => wmem w (aN a) = true | RRaised k => wmem w (getk k (aR a)) = true end.

Definition mark_w (b : bool) (w : world) : world :=
  if b then mkW (st w) (ex w) (co w) (so w) (ix w) true else w.

Section Analysis.
  Variable ks : list ekind.      (* the exception kinds a failing step may raise *)

  Definition r_step (e : eff) (S : wset) : ares :=
    let bad := N.lor S (image (partial e) S) in
    mkA (image (apply e) S) (mk7 (fun k => if kin k ks then bad else 0%N)) true.

  Definition seq_res (F G : wset -> ares) (S : wset) : ares :=
    let ra := F S in
    let rb := G (aN ra) in
    mkA (aN rb) (mk7 (fun k => N.lor (getk k (aR ra)) (getk k (aR rb)))) (okf ra && okf rb).

  Definition loop_one (h : eff) (F : wset -> ares) : wset -> ares := seq_res (r_step h) F.

  Fixpoint grow (fuel : nat) (F : wset -> ares) (I : wset) : wset :=
    match fuel with
    | O => I
    | S k => let I' := N.lor (aN (F I)) I in if N.eqb I' I then I else grow k F I'
    end.

  Definition loop_fuel : nat := 200.

  Definition loop_res (h : eff) (F : wset -> ares) (S : wset) : ares :=
    let I := grow loop_fuel (loop_one h F) S in
    let r1 := loop_one h F I in
    let rl := r_step ENop I in
    mkA (aN rl) (mk7 (fun k => N.lor (getk k (aR r1)) (getk k (aR rl))))
        (okf r1 && wsubset (aN r1) I && wsubset S I).

  (* the handler's analysis per exception kind, computed once per kind *)
  Definition kidx (k : ekind) : nat :=
    match k with KRuntime => 0 | KValue => 1 | KOS => 2 | KTimeout => 3 | KMemory => 4 | KOther => 5 | KBase => 6 end.
  Definition no_res : ares := mkA 0%N (mk7 (fun _ => 0%N)) true.
  Definition per_kind (g : ekind -> ares) : ekind -> ares :=
    let l := map g all_kinds in fun k => nth (kidx k) l no_res.
  Lemma per_kind_spec g k : per_kind g k = g k.
  Proof. destruct k; reflexivity. Qed.

  Definition try_res (mkb reraise : bool) (hs : list hclass) (F H : wset -> ares) (S : wset) : ares :=
    let rb := F S in
    let caught := filter (catches hs) all_kinds in
    let hk := per_kind (fun k => if catches hs k then H (image (mark_w mkb) (getk k (aR rb))) else no_res) in
    mkA (N.lor (aN rb) (if reraise then 0%N else big_or (fun k => aN (hk k)) caught))
        (mk7 (fun k' => N.lor (if catches hs k' then (if reraise then aN (hk k') else 0%N) else getk k' (aR rb))
                              (big_or (fun k => getk k' (aR (hk k))) caught)))
        (okf rb && forallb (fun k => okf (hk k)) caught).

  Definition choice_res (F G : wset -> ares) (S : wset) : ares :=
    let ra := F S in
    let rb := G S in
    mkA (N.lor (aN ra) (aN rb)) (mk7 (fun k => N.lor (getk k (aR ra)) (getk k (aR rb)))) (okf ra && okf rb).

  (* [sound F run]: F over-approximates what [run] can do from any configuration whose world is in S *)
  Definition sound (F : wset -> ares) (run : cfg -> res * cfg) : Prop :=
    forall S s r s', okf (F S) = true -> wmem (wd s) S = true -> run s = (r, s') -> in_res (F S) r (wd s').

  Variable f : nat -> fault.
  Hypothesis f_kinds : forall i, match f i with FNone => True | FBefore k => In k ks | FPartial k => In k ks end.

  Lemma step_sound l e : sound (r_step e) (step f l e).
  Proof.
    intros S s r s' _ Hin Hst. unfold step in Hst. unfold r_step, in_res.
    pose proof (f_kinds (cn s)) as Hk.
    destruct (f (cn s)) as [|k|k]; inversion Hst; subst; clear Hst; cbn [wd aN aR].
    - apply wmem_image. exact Hin.
    - rewrite getk_mk7, (kin_In _ _ Hk). apply wmem_union_l. exact Hin.
    - rewrite getk_mk7, (kin_In _ _ Hk). apply wmem_union_r. apply wmem_image. exact Hin.
  Qed.

  Lemma seq_sound F G ra rb : sound F ra -> sound G rb ->
    sound (seq_res F G) (fun s => let (r, s1) := ra s in match r with RNormal => rb s1 | _ => (r, s1) end).
  Proof.
    intros HF HG S s r s' Hok Hin Hex. unfold seq_res in *. cbn zeta in *. cbn [okf] in Hok.
    apply andb_prop in Hok. destruct Hok as [Hoka Hokb].
    destruct (ra s) as [r1 s1] eqn:Ha.
    pose proof (HF S s r1 s1 Hoka Hin Ha) as H1.
    destruct r1 as [|k].
    - cbn [in_res] in H1. pose proof (HG _ s1 r s' Hokb H1 Hex) as H2.
      destruct r as [|k2]; unfold in_res in *; cbn [aN aR] in *; [exact H2|].
      rewrite getk_mk7. apply wmem_union_r. exact H2.
    - inversion Hex; subst. unfold in_res in *. cbn [aR]. rewrite getk_mk7. apply wmem_union_l. exact H1.
  Qed.

  Lemma iter_sound (one : cfg -> res * cfg) (A : ares) (I : wset) :
    (forall s r s', wmem (wd s) I = true -> one s = (r, s') -> in_res A r (wd s')) ->
    (forall x, wmem x (aN A) = true -> wmem x I = true) ->
    forall n s r s', wmem (wd s) I = true -> iter n one s = (r, s') ->
      match r with RNormal => wmem (wd s') I = true | RRaised k => wmem (wd s') (getk k (aR A)) = true end.
  Proof.
    intros Hone Hsub. induction n as [|n IH]; intros s r s' Hin Hit; cbn [iter] in Hit.
    - inversion Hit; subst. assumption.
    - destruct (one s) as [r0 s0] eqn:H1. specialize (Hone _ _ _ Hin H1).
      destruct r0 as [|k].
      + apply (IH s0); [apply Hsub; exact Hone | assumption].
      + inversion Hit; subst. exact Hone.
  Qed.

  Lemma loop_sound n l h F rb : sound F rb ->
    sound (loop_res h F)
      (fun s => let (r, s1) := iter n (fun s0 => let (r0, s0') := step f l h s0 in
                                       match r0 with RNormal => rb s0' | _ => (r0, s0') end) s in
                match r with RNormal => step f l ENop s1 | _ => (r, s1) end).
  Proof.
    intros HF S s r s' Hok Hin Hex. unfold loop_res in *. cbn zeta in *.
    revert Hok. generalize (grow loop_fuel (loop_one h F) S). intros I Hok.
    cbn [okf] in Hok. apply andb_prop in Hok. destruct Hok as [Hok HsubS].
    apply andb_prop in Hok. destruct Hok as [Hok1 HsubN].
    pose proof (wsubset_spec _ _ HsubS) as HS. pose proof (wsubset_spec _ _ HsubN) as HN.
    pose proof (seq_sound _ _ _ _ (step_sound l h) HF) as Hone. fold (loop_one h F) in Hone.
    match type of Hex with context [iter ?k ?o s] => destruct (iter k o s) as [ri si] eqn:Hit end.
    assert (Hone' : forall s0 r0 s0', wmem (wd s0) I = true ->
              (let (r1, s1) := step f l h s0 in match r1 with RNormal => rb s1 | _ => (r1, s1) end) = (r0, s0') ->
              in_res (loop_one h F I) r0 (wd s0')).
    { intros s0 r0 s0' Hin0 H0. apply (Hone I s0 r0 s0'); [exact Hok1 | exact Hin0 | exact H0]. }
    pose proof (iter_sound _ (loop_one h F I) I Hone' HN n s ri si (HS _ Hin) Hit) as Hres.
    destruct ri as [|k].
    - pose proof (step_sound l ENop I si r s' eq_refl Hres Hex) as Hl.
      destruct r as [|k2]; unfold in_res in *; cbn [aN aR] in *; [exact Hl|].
      rewrite getk_mk7. apply wmem_union_r. exact Hl.
    - inversion Hex; subst. unfold in_res. cbn [aR]. rewrite getk_mk7. apply wmem_union_l. exact Hres.
  Qed.

  Lemma try_sound mkb reraise hs F H rb rh : sound F rb -> sound H rh ->
    sound (try_res mkb reraise hs F H)
      (fun s => let (r, s1) := rb s in
                match r with
                | RNormal => (RNormal, s1)
                | RRaised k =>
                    if catches hs k then
                      let (r2, s2) := rh (mark mkb s1) in
                      match r2 with RNormal => (if reraise then r else RNormal, s2) | _ => (r2, s2) end
                    else (r, s1)
                end).
  Proof.
    intros HF HH S s r s' Hok Hin Hex. unfold try_res in *. cbn zeta in *. cbn [okf] in Hok.
    apply andb_prop in Hok. destruct Hok as [Hokb HokH].
    destruct (rb s) as [r1 sb] eqn:Hb.
    pose proof (HF S s r1 sb Hokb Hin Hb) as H1.
    destruct r1 as [|k].
    - inversion Hex; subst. unfold in_res in *. cbn [aN]. apply wmem_union_l. exact H1.
    - cbn [in_res] in H1. destruct (catches hs k) eqn:Hc.
      + assert (Hk : In k (filter (catches hs) all_kinds)).
        { apply filter_In. split; [apply all_kinds_complete | exact Hc]. }
        set (g := fun k0 => if catches hs k0 then H (image (mark_w mkb) (getk k0 (aR (F S)))) else no_res) in *.
        assert (Hg : per_kind g k = H (image (mark_w mkb) (getk k (aR (F S))))).
        { rewrite per_kind_spec. unfold g. rewrite Hc. reflexivity. }
        rewrite forallb_forall in HokH. specialize (HokH k Hk). rewrite Hg in HokH.
        destruct (rh (mark mkb sb)) as [r2 s2] eqn:Hh.
        assert (Hmk : wd (mark mkb sb) = mark_w mkb (wd sb)).
        { unfold mark, mark_w. destruct mkb; reflexivity. }
        assert (Hin2 : wmem (wd (mark mkb sb)) (image (mark_w mkb) (getk k (aR (F S)))) = true).
        { rewrite Hmk. apply wmem_image. exact H1. }
        pose proof (HH _ _ r2 s2 HokH Hin2 Hh) as H2. rewrite <- Hg in H2.
        destruct r2 as [|k2]; inversion Hex; subst; clear Hex.
        * cbn [in_res] in H2. destruct reraise; unfold in_res; cbn [aN aR].
          -- rewrite getk_mk7, Hc. apply wmem_union_l. exact H2.
          -- apply wmem_union_r. exact (big_or_spec (fun k0 => aN (per_kind g k0)) _ k _ Hk H2).
        * cbn [in_res] in H2. unfold in_res. cbn [aR]. rewrite getk_mk7. apply wmem_union_r.
          exact (big_or_spec (fun k0 => getk k2 (aR (per_kind g k0))) _ k _ Hk H2).
      + inversion Hex; subst. unfold in_res. cbn [aR]. rewrite getk_mk7, Hc. apply wmem_union_l. exact H1.
  Qed.

  Lemma choice_sound_l F G ra : sound F ra -> sound (choice_res F G) ra.
  Proof.
    intros HF S s r s' Hok Hin Hex. unfold choice_res in *. cbn zeta in *. cbn [okf] in Hok.
    apply andb_prop in Hok. destruct Hok as [Hoka Hokb].
    pose proof (HF S s r s' Hoka Hin Hex) as H1.
    destruct r as [|k]; unfold in_res in *; cbn [aN aR]; [|rewrite getk_mk7]; apply wmem_union_l; exact H1.
  Qed.

  Lemma choice_sound_r F G rb : sound G rb -> sound (choice_res F G) rb.
  Proof.
    intros HG S s r s' Hok Hin Hex. unfold choice_res in *. cbn zeta in *. cbn [okf] in Hok.
    apply andb_prop in Hok. destruct Hok as [Hoka Hokb].
    pose proof (HG S s r s' Hokb Hin Hex) as H1.
    destruct r as [|k]; unfold in_res in *; cbn [aN aR]; [|rewrite getk_mk7]; apply wmem_union_r; exact H1.
  Qed.

  Variable chk : nat -> option bool.   (* branch outcomes fixed by a hypothesis of the theorem *)

  Definition empty7 : r7 := mk7 (fun _ => 0%N).

  Fixpoint reach (p : prog) : wset -> ares :=
    match p with
    | Skip => fun S => mkA S empty7 true
    | Step _ e => r_step e
    | Raise _ k => fun S => mkA 0%N (mk7 (fun k' => if ekind_eqb k' k then S else 0%N)) true
    | Seq a b => seq_res (reach a) (reach b)
    | Loop _ _ h body => loop_res h (reach body)
    | Try body h reraise hs => try_res (negb reraise && has_unit body) reraise hs (reach body) (reach h)
    | Choice id a b =>
        match chk id with
        | Some true => reach a
        | Some false => reach b
        | None => choice_res (reach a) (reach b)
        end
    end.

  Variable cnt : nat -> nat.
  Variable ch : nat -> bool.
  Hypothesis chk_ok : forall id b, chk id = Some b -> ch id = b.

  Theorem reach_sound : forall p, sound (reach p) (exec cnt ch f p).
  Proof.
    induction p as [|l e|l k|a IHa b IHb|id l h body IHbody|body IHbody h IHh reraise hs|id a IHa b IHb].
    - intros S s r s' _ Hin Hex. cbn in Hex. inversion Hex; subst. unfold in_res. cbn. exact Hin.
    - exact (step_sound l e).
    - intros S s r s' _ Hin Hex. cbn in Hex. inversion Hex; subst. unfold in_res. cbn [reach aR].
      rewrite getk_mk7. replace (ekind_eqb k k) with true by (symmetry; apply ekind_eqb_eq; reflexivity).
      exact Hin.
    - exact (seq_sound _ _ _ _ IHa IHb).
    - exact (loop_sound (cnt id) l h _ _ IHbody).
    - exact (try_sound _ reraise hs _ _ _ _ IHbody IHh).
    - cbn [reach exec]. destruct (chk id) as [[|]|] eqn:Hc.
      + rewrite (chk_ok _ _ Hc). exact IHa.
      + rewrite (chk_ok _ _ Hc). exact IHb.
      + destruct (ch id); [exact (choice_sound_l _ _ _ IHa) | exact (choice_sound_r _ _ _ IHb)].
  Qed.
End Analysis.

(* ---------------------------------------------------------------- the checker and its soundness *)
Definition holds_on (S : wset) (P : world -> bool) : bool :=
  forallb (fun w => if wmem w S then P w else true) all_worlds.
Lemma holds_on_spec S P w : holds_on S P = true -> wmem w S = true -> P w = true.
Proof.
  unfold holds_on. rewrite forallb_forall. intros H Hw. specialize (H w (all_worlds_complete w)).
  rewrite Hw in H. exact H.
Qed.

Definition check (ks : list ekind) (chk : nat -> option bool) (p : prog) (init : world -> bool)
                 (P : res -> world -> bool) : bool :=
  let a := reach ks chk p (of_pred init) in
  okf a && holds_on (aN a) (P RNormal) && forallb (fun k => holds_on (getk k (aR a)) (P (RRaised k))) all_kinds.

Theorem check_sound ks chk p init P :
  check ks chk p init P = true ->
  forall cnt ch f w0 r s,
    (forall i, match f i with FNone => True | FBefore k => In k ks | FPartial k => In k ks end) ->
    (forall id b, chk id = Some b -> ch id = b) ->
    init w0 = true ->
    exec cnt ch f p (mkC 0 w0 []) = (r, s) ->
    P r (wd s) = true.
Proof.
  unfold check. intros H cnt ch f w0 r s Hf Hchk Hinit Hex.
  apply andb_prop in H. destruct H as [H HR]. apply andb_prop in H. destruct H as [Hok HN].
  assert (Hin : wmem (wd (mkC 0 w0 [])) (of_pred init) = true).
  { cbn [wd]. apply wmem_of_pred. exact Hinit. }
  pose proof (reach_sound ks f Hf chk cnt ch Hchk p _ _ r s Hok Hin Hex) as Hr.
  destruct r as [|k]; cbn [in_res] in Hr.
  - exact (holds_on_spec _ _ _ HN Hr).
  - rewrite forallb_forall in HR. exact (holds_on_spec _ _ _ (HR k (all_kinds_complete k)) Hr).
Qed.

Lemma any_kind f : forall i : nat, match f i with FNone => True | FBefore k => In k all_kinds | FPartial k => In k all_kinds end.
Proof. intros i. destruct (f i) as [|k|k]; [exact I | destruct k; cbn; tauto | destruct k; cbn; tauto]. Qed.

Definition no_chk : nat -> option bool := fun _ => None.
Definition not_ok (w : world) : bool := negb (status_eqb (st w) SOk).
Definition four (w : world) : bool := ex w && co w && so w && ix w.
Definition ok_and_four (w : world) : bool := status_eqb (st w) SOk && four w.
Definition inv_init (w : world) : bool := invb w && negb (lost w).
Definition fresh (w : world) : bool := negb (lost w).

Definition P_inv (r : res) (w : world) : bool := invb w.
Definition P_end (r : res) (w : world) : bool := match r with RNormal => ok_and_four w | _ => true end.
Definition P_fail (r : res) (w : world) : bool := match r with RNormal => true | _ => not_ok w end.
Definition P_four (r : res) (w : world) : bool := match r with RNormal => four w | _ => true end.

Lemma invb_spec w : invb w = true -> st w = SOk ->
  ex w = true /\ co w = true /\ so w = true /\ ix w = true.
Proof.
  unfold invb. intros H Hs. rewrite Hs in H. cbn in H.
  repeat (apply andb_prop in H; destruct H as [H ?]). auto.
Qed.

Lemma four_spec w : four w = true -> ex w = true /\ co w = true /\ so w = true /\ ix w = true.
Proof. unfold four. intros H. repeat (apply andb_prop in H; destruct H as [H ?]). auto. Qed.
