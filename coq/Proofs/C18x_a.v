(* C18 proofs, extension part a: region-restricted loading - shapes of the regenerated read filters, the windowed
   machine without a window is the machine of Model/C18.v, what a window keeps of a VCF, read_cached under a window *)
From Coq Require Import ZArith List Bool Lia Permutation Sorting.Sorted.
Import ListNotations.
From SCMO Require Import Lib.Val Gen.GenAlleles Model.C18 Model.C18x Proofs.C18_s Proofs.C18_a Proofs.C18_b Proofs.C18_c Proofs.C18_d Proofs.C18_e.
Open Scope Z_scope.

(* ------------------------------------------------------------------ T: the regenerated filters of read_cached *)
Lemma read_skip_shape b p s : g_read_skip b p s = b && (p <? s).
Proof. reflexivity. Qed.
Lemma read_stop_shape b p e : g_read_stop b p e = b && (p >? e).
Proof. reflexivity. Qed.
Lemma skipb_shape w p : skipb w p = match w_start w with Some s => p <? s | None => false end.
Proof. unfold skipb. rewrite read_skip_shape. destruct (w_start w); reflexivity. Qed.
Lemma stopb_shape w p : stopb w p = match w_end w with Some e => p >? e | None => false end.
Proof. unfold stopb. rewrite read_stop_shape. destruct (w_end w); reflexivity. Qed.

(* ------------------------------------------------------------------ windows *)
Lemma win_valid_bounds w : win_valid w = true -> 0 <= win_lo w /\ win_lo w < MAXPOS /\ win_hi w <= MAXPOS /\ win_lo w <= win_hi w.
Proof. unfold win_valid. rewrite !andb_true_iff. intros [[[A B] C] D]. lia. Qed.
Lemma nowin_valid : win_valid nowin = true.
Proof. reflexivity. Qed.

Lemma pos_rec_ok_parts r : pos_rec_ok r = true -> 1 <= r_pos r /\ r_pos r <= MAXPOS /\ (1 <= length (r_ref r))%nat.
Proof.
  unfold pos_rec_ok. rewrite !andb_true_iff, negb_true_iff. intros [[A B] C]. apply Nat.eqb_neq in C. lia.
Qed.
Lemma vcf_ok_x_parts v : vcf_ok_x v = true -> vcf_ok v = true /\ forall r, In r (v_recs v) -> pos_rec_ok r = true.
Proof. unfold vcf_ok_x. rewrite andb_true_iff, forallb_forall. auto. Qed.

Lemma rec_in_nowin r : pos_rec_ok r = true -> rec_in_win nowin r = true.
Proof.
  intros H. apply pos_rec_ok_parts in H. unfold rec_in_win, nowin, win_lo, win_hi. cbn [w_start w_end oz].
  rewrite !andb_true_iff. repeat split; apply Z.ltb_lt; unfold MAXPOS in *; lia.
Qed.
Lemma filter_all {A} (f : A -> bool) l : (forall x, In x l -> f x = true) -> filter f l = l.
Proof.
  induction l as [|a l IH]; intros H; [reflexivity|]. cbn. rewrite (H a (or_introl eq_refl)). f_equal.
  apply IH. intros x Hx. apply H. right; exact Hx.
Qed.
Lemma vwin_nowin v : (forall r, In r (v_recs v) -> pos_rec_ok r = true) -> vwin v nowin = v.
Proof.
  intros H. unfold vwin. rewrite filter_all by (intros r Hr; apply rec_in_nowin, H, Hr). destruct v; reflexivity.
Qed.

(* the records a window keeps are records of the file: vcf_ok is inherited *)
Lemma rec_ok_contigs v v' r : v_contigs v' = v_contigs v -> rec_ok v' r = rec_ok v r.
Proof. intros E. unfold rec_ok. rewrite E. reflexivity. Qed.
Lemma vcf_ok_sub v v' : v_contigs v' = v_contigs v -> (forall r, In r (v_recs v') -> In r (v_recs v)) ->
  vcf_ok v = true -> vcf_ok v' = true.
Proof.
  intros E Hsub. unfold vcf_ok. rewrite !forallb_forall. intros H r Hr. rewrite (rec_ok_contigs v v' r E). apply H, Hsub, Hr.
Qed.
Lemma vcf_ok_vwin v w : vcf_ok v = true -> vcf_ok (vwin v w) = true.
Proof. apply vcf_ok_sub; [reflexivity|]. intros r Hr. cbn in Hr. apply filter_In in Hr. tauto. Qed.
Lemma vcf_ok_vnone v : vcf_ok v = true -> vcf_ok (vnone v) = true.
Proof. apply vcf_ok_sub; [reflexivity|]. intros r []. Qed.
Lemma vcf_ok_wv v w : vcf_ok v = true -> vcf_ok (wv v w) = true.
Proof. intros H. unfold wv. destruct (win_valid w); [apply vcf_ok_vwin|apply vcf_ok_vnone]; exact H. Qed.
Lemma valid_contig_wv v w c : valid_contig (wv v w) c = valid_contig v c.
Proof. unfold wv. destruct (win_valid w); reflexivity. Qed.

(* an unacceptable window leaves the sentinel-only table: the table of a file without records *)
Lemma contig_table_vnone v cf c : contig_table (vnone v) cf c = add_sentinel [] c.
Proof. unfold contig_table. destruct (valid_contig (vnone v) c); reflexivity. Qed.
Lemma contig_table_x_wv v xc c : contig_table_x v xc c = contig_table (wv v (x_win xc)) (x_cf xc) c.
Proof. unfold contig_table_x, wv. destruct (win_valid (x_win xc)); [reflexivity|]. rewrite contig_table_vnone. reflexivity. Qed.

(* ------------------------------------------------------------------ inside the window nothing is lost *)
Lemma in_win_bounds w p : in_win w p = true -> win_lo w <= p < win_hi w.
Proof. unfold in_win. rewrite andb_true_iff, Z.leb_le, Z.ltb_lt. tauto. Qed.
Lemma at_site_pos c p r : at_site c p r = true -> r_pos r - 1 = p.
Proof. unfold at_site. rewrite andb_true_iff, Z.eqb_eq. tauto. Qed.

Lemma at_site_in_win w c p r : pos_rec_ok r = true -> in_win w p = true -> at_site c p r = true -> rec_in_win w r = true.
Proof.
  intros Hr Hw Hs. apply pos_rec_ok_parts in Hr. apply in_win_bounds in Hw. apply at_site_pos in Hs.
  unfold rec_in_win. rewrite !andb_true_iff. repeat split; apply Z.ltb_lt; lia.
Qed.

Lemma spec_rec_filter v cf c p (f : vrec -> bool) :
  (forall r, In r (v_recs v) -> at_site c p r = true -> f r = true) ->
  spec_rec {| v_contigs := v_contigs v; v_recs := filter f (v_recs v) |} cf c p = spec_rec v cf c p.
Proof.
  unfold spec_rec. cbn [v_recs]. generalize (@None vrec). induction (v_recs v) as [|r l IH]; intros acc H; [reflexivity|].
  cbn [filter]. destruct (f r) eqn:F.
  - cbn [fold_left]. apply IH. intros r' Hr'. apply H. right; exact Hr'.
  - cbn [fold_left]. destruct (at_site c p r) eqn:S.
    + rewrite (H r (or_introl eq_refl) S) in F. discriminate.
    + cbn [andb]. apply IH. intros r' Hr'. apply H. right; exact Hr'.
Qed.

Lemma spec_rec_inside v w cf c p : (forall r, In r (v_recs v) -> pos_rec_ok r = true) -> in_win w p = true ->
  spec_rec (vwin v w) cf c p = spec_rec v cf c p.
Proof.
  intros Hr Hw. unfold vwin. apply spec_rec_filter. intros r Hin Hs. apply (at_site_in_win w c p r); auto.
Qed.

Lemma spec_answer_inside v w cf q : (forall r, In r (v_recs v) -> pos_rec_ok r = true) -> in_win w (query_pos q) = true ->
  spec_answer (vwin v w) cf q = spec_answer v cf q.
Proof.
  intros Hr Hw. destruct q as [c p b|c p]; cbn [spec_answer query_pos] in *; rewrite (spec_rec_inside v w cf c p Hr Hw); reflexivity.
Qed.

(* outside the window: the deciding record is one the tabix iterator returned - it starts below region_end and its
   REF reaches beyond region_start *)
Lemma spec_rec_vwin_some v w cf c p r : spec_rec (vwin v w) cf c p = Some r ->
  In r (v_recs v) /\ at_site c p r = true /\ informativeb cf r = true /\ p < win_hi w /\ win_lo w < p + Z.of_nat (length (r_ref r)).
Proof.
  intros H. apply spec_rec_some in H. destruct H as (l1 & l2 & E & Hs & Hi & _).
  assert (Hin : In r (v_recs (vwin v w))) by (rewrite E; apply in_or_app; right; left; reflexivity).
  cbn [vwin v_recs] in Hin. apply filter_In in Hin. destruct Hin as [Hin Hw].
  unfold rec_in_win in Hw. rewrite !andb_true_iff in Hw. destruct Hw as [[_ A] B]. apply Z.ltb_lt in A, B.
  pose proof (at_site_pos c p r Hs) as Ep. repeat split; try assumption; lia.
Qed.
Lemma spec_rec_beyond_end v w cf c p : win_hi w <= p -> spec_rec (vwin v w) cf c p = None.
Proof.
  intros Hp. destruct (spec_rec (vwin v w) cf c p) as [r|] eqn:E; [|reflexivity].
  apply spec_rec_vwin_some in E. lia.
Qed.
Lemma spec_rec_before_start v w cf c p : p < win_lo w ->
  (forall r, In r (v_recs v) -> r_chrom r = c -> (length (r_ref r) <= 1)%nat) -> spec_rec (vwin v w) cf c p = None.
Proof.
  intros Hp Hsingle. destruct (spec_rec (vwin v w) cf c p) as [r|] eqn:E; [|reflexivity].
  apply spec_rec_vwin_some in E. destruct E as (Hin & Hs & _ & _ & Hlen).
  specialize (Hsingle r Hin (at_site_chrom c p r Hs)). lia.
Qed.

(* ------------------------------------------------------------------ read_cached under a window *)
Definition ekeep (w : win) (e : entry) : bool := negb (skipb w (fst (fst e))).

Lemma read_lines_x_bodies w c (es : list entry) :
  (forall p b ss, In (p, b, ss) es -> base_ok_P b /\ ss <> [] /\ ssorted ss /\ (forall s, In s ss -> name_ok_P s)) ->
  (forall p b ss, In (p, b, ss) es -> stopb w p = false) ->
  forall t, read_lines_x w (map (fun e : entry => body_of (fst (fst e)) (snd (fst e)) (snd e)) es) c t
            = fold_left (fun t (e : entry) => store3 t c (fst (fst e)) (snd (fst e)) (snd e)) (filter (ekeep w) es) t.
Proof.
  induction es as [|[[p b] ss] es IH]; intros H Hstop t; [reflexivity|].
  cbn [map read_lines_x fst snd].
  destruct (H p b ss (or_introl eq_refl)) as (Hb & Hne & Hso & Hs).
  rewrite parse_line_body by assumption.
  assert (IH' : forall t, read_lines_x w (map (fun e : entry => body_of (fst (fst e)) (snd (fst e)) (snd e)) es) c t
            = fold_left (fun t (e : entry) => store3 t c (fst (fst e)) (snd (fst e)) (snd e)) (filter (ekeep w) es) t).
  { apply IH; intros p' b' ss' Hin; [apply (H p' b' ss')|apply (Hstop p' b' ss')]; right; exact Hin. }
  cbn [filter]. unfold ekeep at 1. cbn [fst]. destruct (skipb w p) eqn:Sk; cbn [negb].
  - apply IH'.
  - rewrite (Hstop p b ss (or_introl eq_refl)). cbn [fold_left fst snd]. apply IH'.
Qed.

Lemma NoDup_map_filter {A B} (g : A -> B) (f : A -> bool) l : NoDup (map g l) -> NoDup (map g (filter f l)).
Proof.
  induction l as [|a l IH]; intros H; [constructor|]. inversion H as [|? ? Hn Hd]; subst. cbn [filter].
  destruct (f a); [|apply IH, Hd]. cbn [map]. constructor; [|apply IH, Hd].
  intros Hin. apply Hn. apply in_map_iff in Hin. destruct Hin as (x & E & Hx). apply filter_In in Hx.
  rewrite <- E. apply in_map. tauto.
Qed.

Lemma efind_filter w p b es : efind p b (filter (ekeep w) es) = if skipb w p then None else efind p b es.
Proof.
  unfold efind. induction es as [|e es IH]; [destruct (skipb w p); reflexivity|].
  cbn [filter find]. destruct (ekeep w e) eqn:K.
  - cbn [find]. destruct (ekey_eqb p b e) eqn:E; [|exact IH].
    apply ekey_eqb_true in E. unfold ekeep in K. rewrite E in K. cbn [fst] in K. apply negb_true_iff in K. rewrite K. reflexivity.
  - destruct (ekey_eqb p b e) eqn:E; [|exact IH].
    apply ekey_eqb_true in E. unfold ekeep in K. rewrite E in K. cbn [fst] in K. apply negb_false_iff in K.
    rewrite IH, K. reflexivity.
Qed.
Lemma existsb_filter_pos w p es :
  existsb (fun e : entry => p =? fst (fst e)) (filter (ekeep w) es) = negb (skipb w p) && existsb (fun e : entry => p =? fst (fst e)) es.
Proof.
  induction es as [|e es IH]; [cbn; rewrite andb_false_r; reflexivity|].
  cbn [filter existsb]. destruct (ekeep w e) eqn:K; cbn [existsb]; rewrite IH.
  - destruct (p =? fst (fst e)) eqn:E; [|reflexivity]. apply Z.eqb_eq in E. unfold ekeep in K. rewrite <- E in K. rewrite K. reflexivity.
  - destruct (p =? fst (fst e)) eqn:E; [|reflexivity]. apply Z.eqb_eq in E. unfold ekeep in K. rewrite <- E in K. rewrite K. reflexivity.
Qed.

(* what a run reads back, under its window, from a cache file whose positions all lie at or below region_end: exactly the
   entries at positions >= region_start *)
Lemma read_cached_x_serialise w ct c : ct_wf ct -> (forall p, amem Z.eqb ct p = true -> stopb w p = false) ->
  let t := read_cached_x w (serialise ct) c [] in
  (forall p b, look3 (getd seqb t c) p b = if skipb w p then None else look3 ct p b) /\
  (forall p, amem Z.eqb (getd seqb t c) p = negb (skipb w p) && amem Z.eqb ct p) /\
  (forall c', amem seqb t c' = true -> c' = c).
Proof.
  intros Hwf Hstop. cbv zeta. unfold read_cached_x. rewrite serialise_bodies.
  set (bodies := map (fun e : entry => body_of (fst (fst e)) (snd (fst e)) (snd e)) (entries ct)).
  assert (Hb : forall b, In b bodies -> forall ch, In ch b -> ch <> 10 /\ ch <> 13).
  { intros b Hin. apply in_map_iff in Hin. destruct Hin as ([[p b0] ss] & E & Hin). subst b. cbn [fst snd].
    destruct (entries_ok ct Hwf p b0 ss Hin) as (H1 & _ & _ & H4). apply body_no_nl; assumption. }
  rewrite unl_id.
  2:{ intros Hin. apply in_concat in Hin. destruct Hin as (l & Hl & Hc). apply in_map_iff in Hl.
      destruct Hl as (b & E & Hbin). subst l. apply in_app_or in Hc. destruct Hc as [Hc|[Hc|[]]]; [|discriminate].
      destruct (Hb b Hbin 13 Hc) as [_ F]. congruence. }
  rewrite lines_of_concat.
  2:{ intros b Hin H10. destruct (Hb b Hin 10 H10) as [F _]. congruence. }
  unfold bodies. rewrite read_lines_x_bodies.
  2:{ apply entries_ok, Hwf. }
  2:{ intros p b ss Hin. apply Hstop. apply entries_In in Hin; [|exact Hwf]. destruct Hin as (bm & Hc & _).
      apply (amem_In Z.eqb zeqb_eq). change p with (fst (p, bm)). apply in_map, Hc. }
  rewrite fold_store3_getd. cbn [getd aget].
  assert (Hnd : NoDup (map fst (filter (ekeep w) (entries ct)))) by (apply NoDup_map_filter, entries_NoDup, Hwf).
  split; [|split].
  - intros p b. rewrite look3_fold by exact Hnd. rewrite efind_filter.
    rewrite <- (look3_entries ct p b Hwf). rewrite (look3_fold (entries ct)) by (apply entries_NoDup, Hwf).
    destruct (skipb w p); reflexivity.
  - intros p. rewrite amem_fold. rewrite existsb_filter_pos. rewrite <- (amem_entries ct p Hwf). rewrite (amem_fold (entries ct)).
    reflexivity.
  - intros c' Hm. rewrite fold_store3_amem in Hm. cbn [amem aget orb] in Hm. apply andb_true_iff in Hm. apply seqb_eq. tauto.
Qed.

(* ------------------------------------------------------------------ without a window: the machine of Model/C18.v *)
Lemma read_lines_x_nowin ls c : forall t, read_lines_x nowin ls c t = read_lines ls c t.
Proof. induction ls as [|l ls IH]; intros t; [reflexivity|]. cbn [read_lines_x read_lines]. destruct (parse_line l) as [[[p b] ss]|]; [|reflexivity].
  unfold skipb, stopb, nowin. cbn [w_start w_end is_some oz]. destruct (g_read_skip false p 0); [apply IH|]. destruct (g_read_stop false p 0); [reflexivity|apply IH].
Qed.

Section NoWindow.
  Variable v : vcf.
  Hypothesis Hpos : forall r, In r (v_recs v) -> pos_rec_ok r = true.

  Lemma contig_table_x_nowin cf c : contig_table_x v {| x_cf := cf; x_win := nowin |} c = contig_table v cf c.
  Proof. unfold contig_table_x. cbn [x_win x_cf]. rewrite nowin_valid, (vwin_nowin v Hpos). reflexivity. Qed.

  Lemma fetch_lazy_x_nowin cf fs c : fetch_lazy_x v {| x_cf := cf; x_win := nowin |} fs c = fetch_lazy v cf fs c.
  Proof.
    unfold fetch_lazy_x, fetch_lazy. cbn [x_cf x_win]. rewrite contig_table_x_nowin, nowin_valid, andb_true_r.
    destruct (if c_cache cf && cacheable c then aget seqb fs (cache_name cf c) else None); [|reflexivity].
    unfold read_cached_x, read_cached. rewrite read_lines_x_nowin. reflexivity.
  Qed.
  Lemma step_x_nowin cf st q : step_x v {| x_cf := cf; x_win := nowin |} st q = step v cf st q.
  Proof.
    assert (E : forall c, ensure_x v {| x_cf := cf; x_win := nowin |} st c = ensure v cf st c).
    { intros c. unfold ensure_x, ensure. cbn [x_cf]. rewrite fetch_lazy_x_nowin. reflexivity. }
    destruct q; cbn [step_x step x_cf]; rewrite E; reflexivity.
  Qed.
  Lemma run_queries_x_nowin cf qs : forall st, run_queries_x v {| x_cf := cf; x_win := nowin |} st qs = run_queries v cf st qs.
  Proof.
    induction qs as [|q qs IH]; intros st; [reflexivity|]. cbn [run_queries_x run_queries]. rewrite step_x_nowin.
    destruct (step v cf st q) as [st' a]. rewrite IH. reflexivity.
  Qed.
  Lemma run_one_x_nowin fs run : run_one_x v fs (lift run) = run_one v fs run.
  Proof.
    unfold run_one_x, run_one, lift, init_table_x, init_table. cbn [fst snd x_cf x_win].
    destruct (is_lazy (fst run)); [apply run_queries_x_nowin|].
    destruct (c_chrom (fst run)); [|apply run_queries_x_nowin].
    rewrite nowin_valid, andb_true_r. destruct (valid_contig v s); [|reflexivity].
    rewrite contig_table_x_nowin. apply run_queries_x_nowin.
  Qed.
  Lemma run_history_x_nowin h : forall fs, run_history_x v fs (map lift h) = run_history v fs h.
  Proof.
    induction h as [|run h IH]; intros fs; [reflexivity|]. cbn [map run_history_x run_history]. rewrite run_one_x_nowin.
    destruct (run_one v fs run) as [fs1 a]. rewrite IH. reflexivity.
  Qed.
End NoWindow.

Theorem nowin_conservative v h fs : vcf_ok_x v = true -> run_history_x v fs (map lift h) = run_history v fs h.
Proof. intros H. apply vcf_ok_x_parts in H. apply run_history_x_nowin. tauto. Qed.
