(* C04 proofs, part 7: the table-free coordinates statement; headers with fewer or more fields (refused loudly, or
   accepted by position); which values survive the decoder exactly (the '+' of dual indices does not). *)
From Coq Require Import ZArith List Bool Lia String.
Import ListNotations.
From SCMO Require Import Lib.Val Gen.GenCodec Model.C04 Proofs.C04 Proofs.C04_b Proofs.C04_c Proofs.C04_d Proofs.C04_e Proofs.C04_f.
Open Scope Z_scope.

(* ------------------------------------------------------------------ coordinates, stated on the header itself *)
Lemma coordinates_spec : forall h c ix t bc ia ly bi,
  coords_of h = Some c ->
  let d0 := fst (parse_illumina fmt h ix []) in
  wf_store t = true ->
  let w := wr t in
  (forall k, In k name_keys -> get k w = get k d0) ->
  len (header_of w) <= header_limit ->
  get k_BC w = Some bc -> get k_QT w = None -> get k_aA w = Some ia -> get k_LY w = Some ly -> get k_bi w = Some bi ->
  (forall k v, In (k, v) w -> is_phred k = true -> Forall (fun x => In x dec_table) v) ->
  exists out, chain t = Ok (c, out) /\ spec_coords h c = true /\
    get k_SM out = Some (TS (fqSafe ly ++ 95 :: fqSafe bi)) /\
    get k_MI out = Some (TS (fqSafe bc ++ ovalue (get k_RX w) ++ fqSafe ia)).
Proof.
  intros h c ix t bc ia ly bi Hc d0 Hwf w Hk Hlen HBC HQT HaA HLY Hbi HP.
  destruct (coords_of_shape h c Hc) as (f0 & f1 & f2 & f3 & f4 & f5 & f6 & tl & H0 & H1 & H2 & H3 & H4 & H5 & H6 & W & Eh & Ec).
  subst c. unfold d0 in Hk. rewrite Eh in Hk.
  destruct (coordinates_end_to_end f0 f1 f2 f3 f4 f5 f6 tl ix t bc ia ly bi H0 H1 H2 H3 H4 H5 H6 W Hwf Hk Hlen HBC HQT HaA HLY Hbi HP)
    as [out [A [B D]]].
  exists out. split; [exact A|]. split; [|split; assumption].
  unfold spec_coords. rewrite Hc. apply str_eqb_refl.
Qed.

(* the shapes are all accepted: no Illumina-shaped header is refused by the parser (whatever the index lookup says,
   the first component of the result holds the coordinates; the exception, if any, is NonMultiplexable) *)
Lemma shape_accepted : forall h c, coords_of h = Some c -> exists F ps, first_form forms0 h = Some (F, ps).
Proof.
  intros h c Hc.
  destruct (coords_of_shape h c Hc) as (f0 & f1 & f2 & f3 & f4 & f5 & f6 & tl & H0 & H1 & H2 & H3 & H4 & H5 & H6 & W & Eh & Ec).
  subst h. eexists. eexists. apply shape_first_form; assumption.
Qed.

(* ------------------------------------------------------------------ fewer or more fields: refused loudly *)
(* _parse_illumina_header accepts a header iff it holds exactly 10 characters of ": ", or exactly 9 after deleting
   every "::", or exactly 6 ':' *)
Lemma accept_iff : forall h,
  (exists F ps, first_form forms0 h = Some (F, ps)) <->
  (count_in [58; 32] h = 10 \/ count_in [58; 32] (remove_sub [58; 58] h) = 9 \/ count_in [58] h = 6).
Proof.
  intro h. rewrite gen_forms. split.
  - intros [F [ps H]]. destruct (first_form_Some _ _ _ _ H) as [HI HP].
    assert (HE : exists p, form_pieces F h = Some p) by (eexists; exact HP).
    apply form_pieces_iff in HE. cbn [In] in HI. destruct HI as [E|[E|[E|[]]]]; subst F; cbn [f_seps f_del f_n form1 form2 form3] in HE;
      rewrite ?remove_sub_nil in HE; [left|right; left|right; right]; lia.
  - intro H. destruct (first_form [form1; form2; form3] h) as [[F ps]|] eqn:E; [eexists; eexists; reflexivity|].
    exfalso. apply first_form_None in E. inversion E as [|? ? E1 E']; subst. inversion E' as [|? ? E2 E'']; subst.
    inversion E'' as [|? ? E3 _]; subst.
    assert (N1 : ~ exists p, form_pieces form1 h = Some p) by (intros [p Hp]; congruence).
    assert (N2 : ~ exists p, form_pieces form2 h = Some p) by (intros [p Hp]; congruence).
    assert (N3 : ~ exists p, form_pieces form3 h = Some p) by (intros [p Hp]; congruence).
    rewrite form_pieces_iff in N1, N2, N3. cbn [f_seps f_del f_n form1 form2 form3] in N1, N2, N3.
    rewrite ?remove_sub_nil in N1, N3. lia.
Qed.

Lemma count_count_in : forall c s, count c s = count_in [c] s.
Proof.
  intros c s. unfold count, count_in. f_equal. induction s as [|x s IH]; [reflexivity|]. cbn [filter]. unfold in_chars at 1. cbn [existsb].
  rewrite orb_false_r, (Z.eqb_sym x c), IH. reflexivity.
Qed.

(* a header of none of the three forms, that does not start like an scmo header and is not 3-DEC either, makes the
   TaggedRecord constructor raise ValueError: nothing is assigned by position, the read is not silently mis-labelled *)
Lemma malformed_header_raises : forall h ix library reason,
  first_form forms0 h = None -> starts_with scmo_prefix h = false -> count 95 h <> 4 ->
  tagged_record h ix library reason = Raise EValue.
Proof.
  intros h ix library reason HN HS HC. unfold tagged_record, from_raw, parse_illumina.
  rewrite (parse_none forms0 index_raw_tag index_found_tags fmt h ix [] HN), HS.
  unfold parse_3dec_g. change (t_sep threedec0) with 95. change (t_nsep threedec0) with 4.
  apply Z.eqb_neq in HC. rewrite HC. reflexivity.
Qed.

(* ------------------------------------------------------------------ the tagger: a malformed name raises *)
Lemma decode_unfold : forall q, decode q =
  let s := strip q in
  match add_items (split dec_item_sep s) [] with
  | (d, true) => Ok d
  | (d, false) =>
      match split1 dec_item_sep s with
      | None => Raise EValue
      | Some (ih, attrs) =>
          match parse_illumina (fun v => v) ih None d with
          | (_, Some e) => Raise e
          | (d', None) => match add_items (split dec_item_sep attrs) d' with
                          | (d'', true) => Ok d''
                          | (_, false) => Raise EValue
                          end
          end
      end
  end.
Proof. reflexivity. Qed.

(* some item is not key:value and what precedes the first ';' is not an Illumina header: ValueError *)
Lemma malformed_name_raises : forall q d,
  add_items (split dec_item_sep (strip q)) [] = (d, false) ->
  (forall ih attrs, split1 dec_item_sep (strip q) = Some (ih, attrs) -> first_form forms0 ih = None) ->
  decode q = Raise EValue.
Proof.
  intros q d HA HF. rewrite decode_unfold. cbv zeta. rewrite HA.
  destruct (split1 dec_item_sep (strip q)) as [[ih attrs]|] eqn:E; [|reflexivity].
  unfold parse_illumina. rewrite (parse_none forms0 index_raw_tag index_found_tags (fun v => v) ih None d (HF ih attrs eq_refl)).
  reflexivity.
Qed.

(* ------------------------------------------------------------------ which values come back exactly *)
(* a written value comes back unchanged iff it lies in the header-safe alphabet; otherwise it comes back with exactly
   the characters outside the alphabet deleted *)
Lemma field_exact_iff : forall t k v, wf_store t = true -> In (k, v) t -> dnw k = false ->
  (get k (dec_view (wr t)) = Some (TS v) <-> safe v = true).
Proof.
  intros t k v H HI Hd. unfold wr. rewrite (roundtrip_get t k v H HI Hd). split.
  - intro E. injection E as E1. apply fqSafe_fixed_iff. exact E1.
  - intro S. rewrite (fqSafe_fixed v S). reflexivity.
Qed.

Lemma field_loss : forall v, len (fqSafe v) = len v - len (filter (fun c => negb (fq_keep c)) v).
Proof. exact (len_fqSafe_g_exact fqsafe_ranges). Qed.

Lemma plus_not_safe : fq_keep 43 = false.
Proof. reflexivity. Qed.

(* a value that contains a '+' never comes back unchanged *)
Lemma plus_value_changes : forall v, In 43 v -> fqSafe v <> v.
Proof.
  intros v HI E. apply fqSafe_fixed_iff in E. pose proof (safe_In C0 v 43 E HI) as K. vm_compute in K. discriminate.
Qed.

(* ------------------------------------------------------------------ the sample-name chain, legacy BI branch *)
Lemma sm_legacy : forall r ly bI, get k_bi r = None -> get k_BI r = Some (TS bI) -> get k_LY r = Some (TS ly) ->
  sm_apply fqsafe_ranges k_SM sm_recipes_expected r =
  Ok (ddel k_BI (dset k_bi (TS bI) (dset k_SM (TS (fqSafe (ly ++ 95 :: bI))) r))).
Proof.
  intros r ly bI Hbi HBI HLY. unfold sm_recipes_expected. rewrite sm_apply_skip by exact Hbi.
  cbn [sm_apply]. unfold has. rewrite HBI.
  rewrite (eval_parts_tag _ _ _ _ HLY), eval_parts_lit, (eval_parts_tag _ _ _ _ HBI). cbn [eval_parts fmt app].
  rewrite app_nil_r. change (k_bi) with [98; 105] at 1. cbv iota.
  rewrite get_dset_other by discriminate. rewrite HBI. reflexivity.
Qed.

(* ------------------------------------------------------------------ the demultiplexer reads its own header back *)
Lemma update_fresh : forall V (w d : list (str * V)), NoDup (map fst w) -> (forall k, In k (map fst w) -> get k d = None) ->
  update d w = d ++ w.
Proof.
  intros V w. induction w as [|[k v] w IH]; intros d ND Hd; [rewrite app_nil_r; reflexivity|].
  cbn [map fst] in ND. inversion ND as [|? ? Hn ND']; subst. rewrite update_cons. cbn [fst snd].
  rewrite dset_fresh by (apply Hd; left; reflexivity). rewrite IH; [rewrite <- app_assoc; reflexivity|exact ND'|].
  intros k' Hk'. rewrite get_app, (Hd k') by (right; exact Hk'). cbn [get].
  destruct (str_eqb k' k) eqn:E; [|reflexivity]. apply str_eqb_eq in E. subst. contradiction.
Qed.

Lemma all_some_map_Some : forall A (l : list A), all_some (map Some l) = Some l.
Proof. induction l as [|a l IH]; [reflexivity|]. cbn [map all_some]. rewrite IH. reflexivity. Qed.

(* a FASTQ header line written by asFastq ('@' + header), demultiplexed again (fromRawFastq takes the scmo branch for a
   name starting with "@Is"): parse_scmo_header gives back exactly the written tags, in order *)
Lemma scmo_reparse : forall w, w <> [] -> Forall entry_ok w -> NoDup (map fst w) ->
  parse_scmo (fastq_prefix ++ header_of w) [] = Ok w.
Proof.
  intros w Hne HF ND. unfold parse_scmo. change scmo_parse with (true, (1, (59, 58))). cbv iota beta.
  unfold parse_scmo_g. change fastq_prefix with [64].
  assert (NS : Forall (fun c => in_chars py_space c = false) ([64] ++ header_of w)).
  { apply Forall_app. split; [repeat constructor|]. exact (header_nospace C0 gen_wf_codec w HF). }
  rewrite (strip_g_nospace py_space _ NS). change (Z.to_nat 1) with 1%nat. cbn [app skipn].
  change 59 with dec_item_sep. rewrite (header_split0 w Hne HF).
  assert (M : map (split_kv_g 58 (-1)) (map item w) = map Some w).
  { rewrite map_map. apply map_ext_in. intros kv HI. rewrite Forall_forall in HF.
    exact (split_kv_item C0 gen_wf_codec kv (HF kv HI)). }
  rewrite M, all_some_map_Some. rewrite (update_fresh _ w [] ND); [reflexivity|]. intros; reflexivity.
Qed.

Lemma scmo_redemultiplex : forall w ix, w <> [] -> Forall entry_ok w -> NoDup (map fst w) ->
  first_form forms0 (fastq_prefix ++ header_of w) = None -> starts_with scmo_prefix (fastq_prefix ++ header_of w) = true ->
  from_raw (fastq_prefix ++ header_of w) ix [] = Ok w.
Proof.
  intros w ix Hne HF ND HN HS. unfold from_raw, parse_illumina.
  rewrite (parse_none forms0 index_raw_tag index_found_tags fmt _ ix [] HN), HS. apply scmo_reparse; assumption.
Qed.
