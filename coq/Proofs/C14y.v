(* C14 proofs, extension part y: the declarative reading of the molecule abstraction.
   which fragment calls which base where (fragcallb <-> FragCall), per-position votes = number of calling
   fragments, the call dictionary is EXACTLY the set of strict-majority positions (Entry), specb decides that
   specification, invariance under permutation of fragments and under mate order. *)
From Coq Require Import ZArith List Bool Lia Arith Permutation.
Import ListNotations.
From SCMO Require Import Lib.Val Gen.GenTaps Model.C14 Model.C14x Proofs.C14_a Proofs.C14 Proofs.C14x.
Open Scope Z_scope.

(* ------------------------------------------------------------------ dictionaries with unique keys *)
Lemma dget_none {V} k (l : list (Z * V)) : dget k l = None <-> ~ In k (map fst l).
Proof.
  induction l as [|[k' v'] l IH]; cbn [dget map fst In]; [tauto|].
  destruct (dget k l) as [w|] eqn:E.
  - split; [discriminate|]. intros H. exfalso. apply H. right.
    apply dget_In in E. apply in_map_iff. exists (k, w). auto.
  - destruct (Z.eqb_spec k k') as [->|Hne].
    + split; [discriminate|]. intros H. exfalso. apply H. now left.
    + split; [|reflexivity]. intros _ [H|H]; [congruence|]. now apply (proj1 IH eq_refl).
Qed.

Lemma dget_some {V} k (l : list (Z * V)) v : NoDup (map fst l) -> In (k, v) l -> dget k l = Some v.
Proof.
  induction l as [|[k' v'] l IH]; cbn [dget map fst In]; [tauto|].
  intros ND H. inversion ND as [|? ? Hnot ND']; subst.
  destruct H as [H|H].
  - injection H as -> ->. assert (E : dget k l = None) by (apply dget_none; exact Hnot).
    rewrite E, Z.eqb_refl. reflexivity.
  - now rewrite (IH ND' H).
Qed.

Lemma NoDup_map_filter {A} (f : A -> Z) (p : A -> bool) l : NoDup (map f l) -> NoDup (map f (filter p l)).
Proof.
  induction l as [|a l IH]; cbn [map filter]; intros ND; [constructor|].
  inversion ND as [|? ? Hnot ND']; subst. destruct (p a); auto. cbn [map]. constructor; auto.
  intros H. apply Hnot. apply in_map_iff in H as [x [E Hx]]. apply filter_In in Hx as [Hx _].
  apply in_map_iff. eauto.
Qed.

(* ------------------------------------------------------------------ per-fragment well-formedness *)
Definition frag_okx (f : frag) : Prop :=
  forall r, fst f = Some r \/ snd f = Some r -> read_ok r = true /\ uniq_read r = true.

Lemma wfx_frag fs f : wfx fs = true -> In f fs -> frag_okx f.
Proof.
  unfold wfx. intros H Hf r Hr. apply andb_true_iff in H as [H1 H2].
  split; [eapply wf_read; eauto|]. rewrite forallb_forall in H2. apply H2.
  unfold reads_of. apply in_flat_map. exists f. split; auto. apply in_or_app.
  destruct Hr as [-> | ->]; [left|right]; now left.
Qed.

Lemma rdict_keys_NoDup o lo hi only minq :
  (forall r, o = Some r -> uniq_read r = true) -> NoDup (map fst (rdict o lo hi only minq)).
Proof.
  destruct o as [r|]; cbn [rdict]; [|constructor]. intros H. specialize (H r eq_refl).
  rewrite map_map. cbn [fst]. apply NoDup_map_filter. apply nodupb_NoDup. exact H.
Qed.

Lemma rdict_qual_nonneg o lo hi only minq pos b q :
  (forall r, o = Some r -> read_ok r = true) -> In (pos, (b, q)) (rdict o lo hi only minq) -> 0 <= q.
Proof.
  intros H Hin. apply rdict_In in Hin as [r [p [-> [Hp [_ [_ [_ <-]]]]]]]. specialize (H r eq_refl).
  unfold read_ok in H. rewrite forallb_forall in H. specialize (H p Hp).
  apply andb_true_iff in H as [_ H]. lia.
Qed.

(* ------------------------------------------------------------------ observations *)
Lemma obs_list_rdict c lo hi o pos b q :
  In (b, q) (obs_list c lo hi o pos) <-> In (pos, (b, q)) (rdict o lo hi (expected c) (c_minq c)).
Proof.
  destruct o as [r|]; cbn [obs_list rdict]; [|tauto]. rewrite !in_map_iff. split.
  - intros [p [E Hp]]. apply filter_In in Hp as [Hp Hk]. apply andb_true_iff in Hk as [E1 Hk].
    apply Z.eqb_eq in E1. injection E as <- <-. exists p. split; [now rewrite E1|]. apply filter_In. auto.
  - intros [p [E Hp]]. apply filter_In in Hp as [Hp Hk]. injection E as <- <- <-. exists p. split; auto.
    apply filter_In. split; auto. now rewrite Z.eqb_refl.
Qed.

(* ------------------------------------------------------------------ pick_best_base_call, two mates *)
Definition pb_side (o o' : option (Z * Z)) (b : Z) : Prop :=
  exists q, o = Some (b, q) /\
            match o' with None => True | Some (b', q') => q' < q \/ (q' = q /\ b' = b) end.

Lemma pick_best_iff o1 o2 b :
  (forall b1 q1, o1 = Some (b1, q1) -> 0 <= q1) -> (forall b2 q2, o2 = Some (b2, q2) -> 0 <= q2) ->
  b <> cN ->
  (fst (pick_best [o1; o2]) = b <-> pb_side o1 o2 b \/ pb_side o2 o1 b).
Proof.
  intros H1 H2 Hn. unfold pick_best, pb_side. cbn [fold_left].
  destruct o1 as [[b1 q1]|], o2 as [[b2 q2]|]; cbn [pb_step opt_eqb].
  - specialize (H1 b1 q1 eq_refl). specialize (H2 b2 q2 eq_refl).
    destruct (Z.ltb_spec (-1) q1); [|lia]. cbn [pb_step opt_eqb].
    destruct (Z.ltb_spec q1 q2).
    + cbn [fst]. split.
      * intros <-. right. exists q2. split; auto.
      * intros [[q [E [Hc|[Hc _]]]]|[q [E _]]]; injection E as <- <-; auto; lia.
    + destruct (Z.eqb_spec q2 q1) as [->|Hq]; cbn [andb].
      * destruct (Z.eqb_spec b1 b2) as [->|Hb]; cbn [negb fst].
        -- split.
           ++ intros <-. left. exists q1. split; auto.
           ++ intros [[q [E _]]|[q [E _]]]; injection E as <- <-; auto.
        -- split; [intros E; congruence|].
           intros [[q [E [Hc|[_ Hc]]]]|[q [E [Hc|[_ Hc]]]]]; injection E as <- <-; try lia; congruence.
      * cbn [fst]. split.
        -- intros <-. left. exists q1. split; auto. left. lia.
        -- intros [[q [E _]]|[q [E [Hc|[Hc _]]]]]; injection E as <- <-; auto; lia.
  - specialize (H1 b1 q1 eq_refl). destruct (Z.ltb_spec (-1) q1); [|lia]. cbn [fst]. split.
    + intros <-. left. exists q1. auto.
    + intros [[q [E _]]|[q [E _]]]; [injection E as <- <-; auto|discriminate].
  - specialize (H2 b2 q2 eq_refl). destruct (Z.ltb_spec (-1) q2); [|lia]. cbn [fst]. split.
    + intros <-. right. exists q2. auto.
    + intros [[q [E _]]|[q [E _]]]; [discriminate|injection E as <- <-; auto].
  - cbn [fst]. split; [intros E; congruence|]. intros [[q [E _]]|[q [E _]]]; discriminate.
Qed.

(* ------------------------------------------------------------------ a fragment's votes *)
Lemma frag_votes_In c f pos b :
  In (pos, b) (frag_votes c f) <->
  b <> cN /\ exists d q, frag_cons c f = Some d /\ In (pos, (b, q)) d.
Proof.
  unfold frag_votes. destruct (frag_cons c f) as [d|].
  - rewrite in_flat_map. split.
    + intros [[k [b' q]] [Hin Hv]]. cbn [fst snd] in Hv.
      destruct (Z.eqb_spec b' cN) as [|Hn]; [destruct Hv|]. destruct Hv as [Hv|[]]. injection Hv as -> ->.
      split; auto. exists d, q. auto.
    + intros [Hn [d' [q [E Hin]]]]. injection E as <-. exists (pos, (b, q)). split; auto. cbn [fst snd].
      destruct (Z.eqb_spec b cN); [contradiction|now left].
  - split; [intros []|]. intros [_ [d [q [E _]]]]. discriminate.
Qed.

Lemma frag_cons_some c o1 o2 d :
  frag_cons c (o1, o2) = Some d <->
  exists lo hi, safe_span c (o1, o2) = Some (lo, hi) /\ md_ok o1 = true /\ md_ok o2 = true /\
    d = map (fun k => (k, pick_best [dget k (rdict o1 lo hi (expected c) (c_minq c));
                                     dget k (rdict o2 lo hi (expected c) (c_minq c))]))
            (dedupe (map fst (rdict o1 lo hi (expected c) (c_minq c)) ++
                     map fst (rdict o2 lo hi (expected c) (c_minq c)))).
Proof.
  unfold frag_cons.
  destruct (negb (c_unsafe c) && (negb (has o2) || negb (has o1))) eqn:Hskip.
  - split; [discriminate|]. intros [lo [hi [Hs _]]]. exfalso.
    apply andb_true_iff in Hskip as [Hu Hh]. apply negb_true_iff in Hu. unfold safe_span in Hs. rewrite Hu in Hs.
    destruct o1, o2; cbn in Hh; discriminate.
  - destruct (safe_span c (o1, o2)) as [[lo hi]|].
    + destruct (md_ok o1 && md_ok o2) eqn:Hmd.
      * apply andb_true_iff in Hmd as [M1 M2]. split.
        -- intros [= <-]. exists lo, hi. auto.
        -- intros [lo' [hi' [[= <- <-] [_ [_ ->]]]]]. reflexivity.
      * split; [discriminate|]. intros [lo' [hi' [_ [M1 [M2 _]]]]]. rewrite M1, M2 in Hmd. discriminate.
    + split; [discriminate|]. intros [lo' [hi' [E _]]]. discriminate.
Qed.

Lemma beats_spec b q l : beats b q l = true <-> forall b' q', In (b', q') l -> q' < q \/ (q' = q /\ b' = b).
Proof.
  unfold beats. rewrite forallb_forall. split.
  - intros H b' q' Hin. specialize (H (b', q') Hin). cbn [fst snd] in H.
    apply orb_true_iff in H as [H|H]; [left; now apply Z.ltb_lt|].
    apply andb_true_iff in H as [E1 E2]. apply Z.eqb_eq in E1, E2. auto.
  - intros H [b' q'] Hin. cbn [fst snd]. destruct (H b' q' Hin) as [Hl|[-> ->]].
    + apply orb_true_iff. left. now apply Z.ltb_lt.
    + rewrite !Z.eqb_refl. apply orb_true_r.
Qed.

Lemma mate_calls_spec c lo hi o o' pos b :
  mate_calls c lo hi o o' pos b = true <->
  exists q, In (b, q) (obs_list c lo hi o pos) /\
            forall b' q', In (b', q') (obs_list c lo hi o' pos) -> q' < q \/ (q' = q /\ b' = b).
Proof.
  unfold mate_calls. rewrite existsb_exists. split.
  - intros [[b0 q] [Hin H]]. cbn [fst snd] in H. apply andb_true_iff in H as [E Hb]. apply Z.eqb_eq in E. subst b0.
    exists q. split; auto. now apply beats_spec.
  - intros [q [Hin H]]. exists (b, q). split; auto. cbn [fst snd]. rewrite Z.eqb_refl. now apply beats_spec.
Qed.

(* the mate-level reading of pb_side on the two dictionaries *)
Lemma pb_side_mate c lo hi o o' pos b :
  (forall r, o = Some r -> uniq_read r = true) -> (forall r, o' = Some r -> uniq_read r = true) ->
  (pb_side (dget pos (rdict o lo hi (expected c) (c_minq c))) (dget pos (rdict o' lo hi (expected c) (c_minq c))) b
   <-> mate_calls c lo hi o o' pos b = true).
Proof.
  intros U U'. rewrite mate_calls_spec. unfold pb_side.
  pose proof (rdict_keys_NoDup o lo hi (expected c) (c_minq c) U) as ND.
  pose proof (rdict_keys_NoDup o' lo hi (expected c) (c_minq c) U') as ND'.
  split.
  - intros [q [E H]]. exists q. split; [apply obs_list_rdict; now apply dget_In|].
    intros b' q' Hin. apply obs_list_rdict in Hin. rewrite (dget_some _ _ _ ND' Hin) in H. exact H.
  - intros [q [Hin H]]. exists q. apply obs_list_rdict in Hin. split; [now apply dget_some|].
    destruct (dget pos (rdict o' lo hi (expected c) (c_minq c))) as [[b' q']|] eqn:E; auto.
    apply H. apply obs_list_rdict. now apply dget_In.
Qed.

Lemma frag_votes_iff c f pos b : frag_okx f ->
  (In (pos, b) (frag_votes c f) <-> fragcallb c f pos b = true).
Proof.
  intros Hok. destruct f as [o1 o2]. rewrite frag_votes_In. unfold fragcallb. cbn [fst snd].
  assert (U1 : forall r, o1 = Some r -> uniq_read r = true) by (intros r ->; apply (Hok r); now left).
  assert (U2 : forall r, o2 = Some r -> uniq_read r = true) by (intros r ->; apply (Hok r); now right).
  assert (R1 : forall r, o1 = Some r -> read_ok r = true) by (intros r ->; apply (Hok r); now left).
  assert (R2 : forall r, o2 = Some r -> read_ok r = true) by (intros r ->; apply (Hok r); now right).
  split.
  - intros [Hn [d [q [Hd Hin]]]]. apply frag_cons_some in Hd as [lo [hi [Hs [M1 [M2 ->]]]]].
    rewrite Hs, M1, M2. apply in_map_iff in Hin as [k [E Hk]]. injection E as -> Epb.
    destruct (Z.eqb_spec b cN); [contradiction|]. cbn [negb andb].
    set (d1 := rdict o1 lo hi (expected c) (c_minq c)) in *. set (d2 := rdict o2 lo hi (expected c) (c_minq c)) in *.
    assert (Hf : fst (pick_best [dget pos d1; dget pos d2]) = b) by now rewrite Epb.
    apply pick_best_iff in Hf; auto.
    + apply orb_true_iff. destruct Hf as [Hf|Hf]; [left|right].
      * apply (proj1 (pb_side_mate c lo hi o1 o2 pos b U1 U2)). exact Hf.
      * apply (proj1 (pb_side_mate c lo hi o2 o1 pos b U2 U1)). exact Hf.
    + intros b1 q1 E. apply dget_In in E. unfold d1 in E. exact (rdict_qual_nonneg _ _ _ _ _ _ _ _ R1 E).
    + intros b2 q2 E. apply dget_In in E. unfold d2 in E. exact (rdict_qual_nonneg _ _ _ _ _ _ _ _ R2 E).
  - intros H. apply andb_true_iff in H as [H Hm]. apply andb_true_iff in H as [H M2].
    apply andb_true_iff in H as [Hn M1]. apply negb_true_iff in Hn. apply Z.eqb_neq in Hn.
    destruct (safe_span c (o1, o2)) as [[lo hi]|] eqn:Hs; [|discriminate]. split; auto.
    set (d1 := rdict o1 lo hi (expected c) (c_minq c)). set (d2 := rdict o2 lo hi (expected c) (c_minq c)).
    assert (Hpb : pb_side (dget pos d1) (dget pos d2) b \/ pb_side (dget pos d2) (dget pos d1) b).
    { apply orb_true_iff in Hm as [Hm|Hm]; [left|right].
      - apply (proj2 (pb_side_mate c lo hi o1 o2 pos b U1 U2)). exact Hm.
      - apply (proj2 (pb_side_mate c lo hi o2 o1 pos b U2 U1)). exact Hm. }
    assert (Hkey : In pos (map fst d1 ++ map fst d2)).
    { apply in_or_app. destruct Hpb as [[q [E _]]|[q [E _]]]; [left|right];
        apply dget_In in E; apply in_map_iff; exists (pos, (b, q)); auto. }
    apply pick_best_iff in Hpb; auto.
    + exists (map (fun k => (k, pick_best [dget k d1; dget k d2])) (dedupe (map fst d1 ++ map fst d2))),
             (snd (pick_best [dget pos d1; dget pos d2])).
      split; [apply frag_cons_some; exists lo, hi; auto|].
      apply in_map_iff. exists pos. split; [|now apply dedupe_In].
      f_equal. rewrite <- Hpb. now destruct (pick_best [dget pos d1; dget pos d2]).
    + intros b1 q1 E. apply dget_In in E. unfold d1 in E. exact (rdict_qual_nonneg _ _ _ _ _ _ _ _ R1 E).
    + intros b2 q2 E. apply dget_In in E. unfold d2 in E. exact (rdict_qual_nonneg _ _ _ _ _ _ _ _ R2 E).
Qed.

(* one vote per position and fragment *)
Lemma frag_votes_keys_NoDup c f : NoDup (map fst (frag_votes c f)).
Proof.
  unfold frag_votes. destruct (frag_cons c f) as [d|] eqn:E; [|constructor].
  assert (ND : NoDup (map fst d)).
  { destruct f as [o1 o2]. apply frag_cons_some in E as [lo [hi [_ [_ [_ ->]]]]].
    rewrite map_map. cbn [fst]. rewrite map_id. apply dedupe_NoDup. }
  clear E. induction d as [|[k [b q]] d IH]; cbn [flat_map map fst snd]; [constructor|].
  inversion ND as [|? ? Hnot ND']; subst.
  assert (Hsub : forall x, In x (map fst (flat_map (fun e : Z * (Z * Z) =>
                    if fst (snd e) =? cN then [] else [(fst e, fst (snd e))]) d)) -> In x (map fst d)).
  { intros x Hx. apply in_map_iff in Hx as [[x' b'] [<- Hx]]. apply in_flat_map in Hx as [[k' [b'' q']] [Hin Hv]].
    cbn [fst snd] in Hv. destruct (b'' =? cN); [destruct Hv|]. destruct Hv as [Hv|[]]. injection Hv as <- <-.
    apply in_map_iff. exists (k', (b'', q')). auto. }
  destruct (b =? cN); cbn [app map fst]; auto. constructor; auto.
Qed.

(* ------------------------------------------------------------------ counting *)
Lemma count_app vs ws pos b : count (vs ++ ws) pos b = count vs pos b + count ws pos b.
Proof. unfold count. rewrite filter_app, app_length. lia. Qed.

Lemma count_notin vs pos b : ~ In (pos, b) vs -> count vs pos b = 0.
Proof.
  intros H. unfold count. destruct (filter _ vs) as [|[p' b'] t] eqn:E; [reflexivity|]. exfalso. apply H.
  assert (Hin : In (p', b') (filter (fun v => (fst v =? pos) && (snd v =? b)) vs)) by (rewrite E; now left).
  apply filter_In in Hin as [Hin Heq]. cbn in Heq. apply andb_true_iff in Heq as [E1 E2].
  apply Z.eqb_eq in E1, E2. now subst.
Qed.

Lemma count_NoDup_le1 vs pos b : NoDup (map fst vs) -> count vs pos b <= 1.
Proof.
  unfold count. induction vs as [|[p' b'] vs IH]; cbn [map fst filter snd]; intros ND; [cbn; lia|].
  inversion ND as [|? ? Hnot ND']; subst. specialize (IH ND').
  destruct (Z.eqb_spec p' pos) as [->|]; cbn [andb]; auto.
  destruct (b' =? b); auto. cbn [length].
  assert (Hz : filter (fun v : Z * Z => (fst v =? pos) && (snd v =? b)) vs = []).
  { destruct (filter _ vs) as [|[p2 b2] t] eqn:E; auto. exfalso. apply Hnot.
    assert (Hin : In (p2, b2) (filter (fun v : Z * Z => (fst v =? pos) && (snd v =? b)) vs)) by (rewrite E; now left).
    apply filter_In in Hin as [Hin Heq]. cbn in Heq. apply andb_true_iff in Heq as [E1 _]. apply Z.eqb_eq in E1.
    subst. apply in_map_iff. exists (pos, b2). auto. }
  rewrite Hz. cbn. lia.
Qed.

Lemma frag_count c f pos b : frag_okx f ->
  count (frag_votes c f) pos b = if fragcallb c f pos b then 1 else 0.
Proof.
  intros Hok. pose proof (frag_votes_iff c f pos b Hok) as Hiff.
  destruct (fragcallb c f pos b).
  - assert (Hin : In (pos, b) (frag_votes c f)) by now apply Hiff.
    pose proof (count_pos _ _ _ Hin). pose proof (count_NoDup_le1 _ pos b (frag_votes_keys_NoDup c f)). lia.
  - apply count_notin. intros Hin. apply Hiff in Hin. discriminate.
Qed.

Lemma nfrag_cons c f fs pos b :
  nfrag c (f :: fs) pos b = (if fragcallb c f pos b then 1 else 0) + nfrag c fs pos b.
Proof. unfold nfrag. cbn [filter]. destruct (fragcallb c f pos b); cbn [length]; lia. Qed.

Lemma vote_count c fs pos b : wfx fs = true -> count (votes c fs) pos b = nfrag c fs pos b.
Proof.
  intros Hwf. assert (H : forall f, In f fs -> frag_okx f) by (intros f Hf; eapply wfx_frag; eauto). clear Hwf.
  induction fs as [|f fs IH]; [reflexivity|]. unfold votes. cbn [flat_map]. fold (votes c fs).
  rewrite count_app, nfrag_cons, frag_count by (apply H; now left). rewrite IH; auto. intros f' Hf'. apply H. now right.
Qed.

Lemma nfrag_nonneg c fs pos b : 0 <= nfrag c fs pos b.
Proof. unfold nfrag. lia. Qed.

Lemma nfrag_pos c fs pos b : 0 < nfrag c fs pos b -> exists f, In f fs /\ fragcallb c f pos b = true.
Proof.
  unfold nfrag. destruct (filter (fun f => fragcallb c f pos b) fs) as [|f t] eqn:E; [cbn; lia|]. intros _.
  assert (Hin : In f (filter (fun f => fragcallb c f pos b) fs)) by (rewrite E; now left).
  apply filter_In in Hin. eauto.
Qed.
