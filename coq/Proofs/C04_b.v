(* C04 proofs, part 2: asFastq header -> fromTaggedBamRecord restores every written tag.
   First for EVERY codec table satisfying [wf_codec] (Section CodecFacts), then for the regenerated tables. *)
From Coq Require Import ZArith List Bool Lia.
Import ListNotations.
From SCMO Require Import Lib.Val Gen.GenCodec Model.C04 Proofs.C04.
Open Scope Z_scope.

Definition dnw_g (C : codec) (k : str) : bool := match tagdef_g C k with Some (_, b) => b | None => false end.
Definition dec_view_g (C : codec) (w : store) : rstore := map (fun kv => (fst kv, dec_val_g C (snd kv))) w.
Definition wr_g (C : codec) (t : store) : store := filter (fun kv => negb (dnw_g C (fst kv))) t.
Definition entry_ok_g (C : codec) (kv : str * str) : Prop := tagdef_g C (fst kv) <> None /\ sepfree_g C (snd kv) = true.

Lemma nodup_keys_NoDup : forall t : store, nodup_keys t = true -> NoDup (map fst t).
Proof.
  induction t as [|[k v] t IH]; intro H; [constructor|]. cbn [nodup_keys] in H.
  apply andb_true_iff in H. destruct H as [H1 H2]. cbn [map fst]. constructor; [|apply IH; exact H2].
  apply get_None_notin. unfold has in H1. destruct (get k t); [discriminate|reflexivity].
Qed.

Lemma NoDup_keys_filter : forall (f : str * str -> bool) (t : store), NoDup (map fst t) -> NoDup (map fst (filter f t)).
Proof.
  intros f t. induction t as [|kv t IH]; intro H; [constructor|]. cbn [map] in H. inversion H as [|? ? Hn Hd]; subst.
  cbn [filter]. destruct (f kv); [|apply IH; exact Hd]. cbn [map]. constructor; [|apply IH; exact Hd].
  intro HI. apply Hn. apply in_map_iff in HI. destruct HI as [x [Hx HI]]. apply filter_In in HI. destruct HI as [HI _].
  apply in_map_iff. exists x. split; assumption.
Qed.

Lemma split1_nosep_sep : forall sep k v, ~ In sep k -> split1 sep (k ++ sep :: v) = Some (k, v).
Proof.
  intros sep k v. induction k as [|c k IH]; intro H.
  - cbn [app split1]. rewrite Z.eqb_refl. reflexivity.
  - cbn [app split1]. destruct (c =? sep) eqn:E; [apply Z.eqb_eq in E; subst; exfalso; apply H; left; reflexivity|].
    rewrite IH; [reflexivity|]. intro HI. apply H. right. exact HI.
Qed.

(* ================================================================== every well-formed codec table *)
Section CodecFacts.
  Variable C : codec.
  Hypothesis WF : wf_codec C = true.

  Lemma wf_parts :
    k_isep C = k_disep C /\ k_kvsep C = k_dkvsep C /\ k_isep C <> k_kvsep C /\
    keep_g C (k_isep C) = false /\ keep_g C (k_kvsep C) = false /\
    space_g C (k_isep C) = false /\ space_g C (k_kvsep C) = false /\
    forallb (fun c => negb (keep_g C c)) (k_space C) = true /\
    forallb (fun e => (len (fst e) =? 2) && forallb (keep_g C) (fst e)) (k_tags C) = true /\
    k_maxsplit C <> 0.
  Proof.
    pose proof WF as W. unfold wf_codec in W. repeat (apply andb_true_iff in W; destruct W as [W ?]).
    repeat match goal with H : negb _ = true |- _ => apply negb_true_iff in H end.
    repeat match goal with H : (_ =? _) = true |- _ => apply Z.eqb_eq in H | H : (_ =? _) = false |- _ => apply Z.eqb_neq in H end.
    repeat split; assumption.
  Qed.

  Lemma keep_nospace : forall c, keep_g C c = true -> space_g C c = false.
  Proof.
    intros c H. destruct (space_g C c) eqn:E; [|reflexivity]. unfold space_g, in_chars in E.
    apply existsb_exists in E. destruct E as [x [Hx Ex]]. apply Z.eqb_eq in Ex. subst x.
    destruct wf_parts as [_ [_ [_ [_ [_ [_ [_ [G _]]]]]]]]. rewrite forallb_forall in G. specialize (G c Hx).
    rewrite H in G. discriminate.
  Qed.

  (* ---------------------------------------------------------------- well-formed stores *)
  Lemma wf_store_spec : forall t, wf_store_g C t = true ->
    NoDup (map fst t) /\ (forall k v, In (k, v) t -> entry_ok_g C (k, v)).
  Proof.
    intros t H. unfold wf_store_g in H. apply andb_true_iff in H. destruct H as [H H3].
    apply andb_true_iff in H. destruct H as [H1 H2]. split; [apply nodup_keys_NoDup; exact H1|].
    intros k v HI. rewrite forallb_forall in H2, H3. specialize (H2 _ HI). specialize (H3 _ HI). cbn [fst snd] in *.
    split; [|exact H3]. cbn [fst]. destruct (tagdef_g C k); [discriminate|discriminate].
  Qed.

  Lemma tagdef_key_safe : forall k pd, tagdef_g C k = Some pd -> len k = 2 /\ safe_g C k = true.
  Proof.
    intros k pd H. unfold tagdef_g in H. apply get_Some_In in H.
    destruct wf_parts as [_ [_ [_ [_ [_ [_ [_ [_ [G _]]]]]]]]]. rewrite forallb_forall in G. specialize (G _ H). cbn [fst] in G.
    apply andb_true_iff in G. destruct G as [G1 G2]. apply Z.eqb_eq in G1. split; assumption.
  Qed.

  Lemma written_cons : forall k v r,
    written_g C ((k, v) :: r) = match tagdef_g C k with
                                | None => Raise EKey
                                | Some (_, b) => match written_g C r with
                                                 | Raise e => Raise e
                                                 | Ok w => Ok (if b then w else (k, v) :: w)
                                                 end
                                end.
  Proof. reflexivity. Qed.

  Lemma written_filter : forall t, (forall k v, In (k, v) t -> tagdef_g C k <> None) ->
    written_g C t = Ok (wr_g C t).
  Proof.
    induction t as [|[k v] t IH]; intro H; [reflexivity|].
    rewrite written_cons. unfold wr_g. cbn [filter fst]. unfold dnw_g at 1.
    destruct (tagdef_g C k) as [[p b]|] eqn:E; [|exfalso; apply (H k v); [left; reflexivity|exact E]].
    fold (wr_g C t). rewrite IH by (intros k' v' HI; apply (H k' v'); right; exact HI).
    destruct b; reflexivity.
  Qed.

  (* ---------------------------------------------------------------- characters of a header *)
  Lemma sepfree_char_spec : forall c, sepfree_char_g C c = true ->
    c <> k_isep C /\ c <> k_kvsep C /\ space_g C c = false.
  Proof.
    intros c H. unfold sepfree_char_g in H. apply andb_true_iff in H. destruct H as [H H3].
    apply andb_true_iff in H. destruct H as [H1 H2].
    apply negb_true_iff in H1, H2, H3. apply Z.eqb_neq in H1, H2. repeat split; assumption.
  Qed.

  Lemma safe_In : forall s c, safe_g C s = true -> In c s -> keep_g C c = true.
  Proof. intros s c H HI. unfold safe_g in H. rewrite forallb_forall in H. apply H. exact HI. Qed.

  Lemma sepfree_In : forall s c, sepfree_g C s = true -> In c s -> sepfree_char_g C c = true.
  Proof. intros s c H HI. unfold sepfree_g in H. rewrite forallb_forall in H. apply H. exact HI. Qed.

  Lemma key_no_sep : forall k sep, safe_g C k = true -> keep_g C sep = false -> ~ In sep k.
  Proof. intros k sep Hs Hf HI. rewrite (safe_In k sep Hs HI) in Hf. discriminate. Qed.

  Lemma item_chars : forall kv c, entry_ok_g C kv -> In c (item_g C kv) ->
    c <> k_isep C /\ space_g C c = false.
  Proof.
    intros [k v] c [Hk Hv] HI. cbn [fst snd] in *. unfold item_g in HI. cbn [fst snd] in HI.
    destruct (tagdef_g C k) as [pd|] eqn:E; [|congruence]. destruct (tagdef_key_safe k pd E) as [_ Hs].
    destruct wf_parts as [_ [_ [Hne [Hu1 [Hu2 [Hn1 [Hn2 _]]]]]]].
    apply in_app_or in HI. destruct HI as [HI|[HI|HI]].
    - pose proof (safe_In k c Hs HI) as Hc. split; [intro; subst; congruence|apply keep_nospace; exact Hc].
    - subst c. split; [congruence|exact Hn2].
    - destruct (sepfree_char_spec c (sepfree_In v c Hv HI)) as [A [B D]]. split; assumption.
  Qed.

  Lemma split_kv_item : forall kv, entry_ok_g C kv -> split_kv_g (k_dkvsep C) (k_maxsplit C) (item_g C kv) = Some kv.
  Proof.
    intros [k v] [Hk Hv]. cbn [fst snd] in *. destruct wf_parts as [_ [E [_ [_ [Hu2 [_ [_ [_ [_ Hm]]]]]]]]]. rewrite <- E.
    destruct (tagdef_g C k) as [pd|] eqn:Ek; [|congruence]. destruct (tagdef_key_safe k pd Ek) as [_ Hs].
    assert (Hkn : ~ In (k_kvsep C) k) by (apply key_no_sep; assumption).
    assert (Hvn : ~ In (k_kvsep C) v).
    { intro HI. destruct (sepfree_char_spec _ (sepfree_In v _ Hv HI)) as [_ [B _]]. congruence. }
    unfold split_kv_g, item_g. cbn [fst snd]. apply Z.eqb_neq in Hm. rewrite Hm.
    destruct (k_maxsplit C =? 1).
    - apply split1_nosep_sep. exact Hkn.
    - rewrite split_app_sep by exact Hkn. rewrite split_nosep by exact Hvn. reflexivity.
  Qed.

  Lemma header_nospace : forall w, Forall (entry_ok_g C) w -> Forall (fun c => space_g C c = false) (header_of_g C w).
  Proof.
    intros w H. apply Forall_forall. intros c HI. unfold header_of_g in HI. apply join_In in HI.
    destruct HI as [HI|[p [Hp Hc]]]; [subst; apply wf_parts|].
    apply in_map_iff in Hp. destruct Hp as [kv [E Hkv]]. subst p. rewrite Forall_forall in H.
    apply (item_chars kv c (H kv Hkv) Hc).
  Qed.

  Lemma header_split : forall w, w <> [] -> Forall (entry_ok_g C) w ->
    split (k_disep C) (header_of_g C w) = map (item_g C) w.
  Proof.
    intros w Hne H. destruct wf_parts as [E _]. rewrite <- E. unfold header_of_g. apply split_join.
    - destruct w; [contradiction|discriminate].
    - apply Forall_forall. intros p Hp. apply in_map_iff in Hp. destruct Hp as [kv [Ep Hkv]]. subst p.
      rewrite Forall_forall in H. intro HI. destruct (item_chars kv _ (H kv Hkv) HI) as [A _]. congruence.
  Qed.

  (* ---------------------------------------------------------------- the decoder loop *)
  Lemma add_items_cons : forall it r d,
    add_items_g C (it :: r) d = match split_kv_g (k_dkvsep C) (k_maxsplit C) it with
                                | None => (d, false)
                                | Some (k, v) => add_items_g C r (dset k (dec_val_g C v) d)
                                end.
  Proof. reflexivity. Qed.

  Lemma add_items_written : forall w d, Forall (entry_ok_g C) w -> NoDup (map fst w) ->
    (forall k, In k (map fst w) -> get k d = None) ->
    add_items_g C (map (item_g C) w) d = (d ++ dec_view_g C w, true).
  Proof.
    induction w as [|[k v] w IH]; intros d HF ND Hd.
    - cbn. rewrite app_nil_r. reflexivity.
    - inversion HF as [|? ? Hkv HF']; subst. cbn [map fst] in ND. inversion ND as [|? ? Hn ND']; subst.
      cbn [map]. rewrite add_items_cons, (split_kv_item (k, v) Hkv).
      rewrite dset_fresh by (apply Hd; left; reflexivity).
      rewrite IH; [unfold dec_view_g; cbn [map fst snd]; rewrite <- app_assoc; reflexivity|exact HF'|exact ND'|].
      intros k' Hk'. rewrite get_app, (Hd k') by (right; exact Hk'). cbn [get].
      destruct (str_eqb k' k) eqn:E; [|reflexivity]. apply str_eqb_eq in E. subst. contradiction.
  Qed.

  (* ---------------------------------------------------------------- the round trip *)
  Lemma decode_header : forall pi w, w <> [] -> Forall (entry_ok_g C) w -> NoDup (map fst w) ->
    decode_g C pi (header_of_g C w) = Ok (dec_view_g C w).
  Proof.
    intros pi w Hne HF ND. unfold decode_g.
    assert (E : (if k_strip C then strip_g (k_space C) (header_of_g C w) else header_of_g C w) = header_of_g C w).
    { destruct (k_strip C); [|reflexivity]. apply strip_g_nospace. apply (header_nospace w HF). }
    rewrite E. cbv zeta. rewrite header_split by assumption.
    rewrite add_items_written by (try assumption; reflexivity). reflexivity.
  Qed.

  Lemma wr_entry_ok_g : forall t, wf_store_g C t = true -> Forall (entry_ok_g C) (wr_g C t).
  Proof.
    intros t H. destruct (wf_store_spec t H) as [_ Hall]. apply Forall_forall. intros [k v] HI.
    apply filter_In in HI. destruct HI as [HI _]. exact (Hall k v HI).
  Qed.

  Lemma wr_NoDup_g : forall t, wf_store_g C t = true -> NoDup (map fst (wr_g C t)).
  Proof. intros t H. destruct (wf_store_spec t H) as [ND _]. apply NoDup_keys_filter. exact ND. Qed.

  (* THE ROUND TRIP, for every well-formed codec table and every fallback parser [pi]:
     what asFastq writes is decoded to the written tags, in order, each value as the decoder stores it *)
  Lemma roundtrip_g : forall pi t, wf_store_g C t = true ->
    let w := wr_g C t in
    written_g C t = Ok w /\
    (w <> [] -> len (header_of_g C w) <= k_limit C ->
     encode_g C t = Ok (header_of_g C w) /\ decode_g C pi (header_of_g C w) = Ok (dec_view_g C w)).
  Proof.
    intros pi t H w. destruct (wf_store_spec t H) as [ND Hall].
    assert (Hw : written_g C t = Ok w) by (apply written_filter; intros k v HI; apply (Hall k v HI)).
    split; [exact Hw|]. intros Hne Hlen. split.
    - unfold encode_g. rewrite Hw. cbv zeta. destruct (k_limit C <? len (header_of_g C w)) eqn:E; [apply Z.ltb_lt in E; lia|reflexivity].
    - apply decode_header; [exact Hne|apply wr_entry_ok_g; exact H|apply wr_NoDup_g; exact H].
  Qed.

  (* each written tag is found again under its name *)
  Lemma roundtrip_get_g : forall t k v, wf_store_g C t = true -> In (k, v) t -> dnw_g C k = false ->
    get k (dec_view_g C (wr_g C t)) = Some (dec_val_g C v).
  Proof.
    intros t k v H HI Hd. destruct (wf_store_spec t H) as [ND _].
    unfold dec_view_g. rewrite (get_map_val str tval (dec_val_g C)).
    rewrite (get_In k v); [reflexivity|apply NoDup_keys_filter; exact ND|].
    apply filter_In. split; [exact HI|]. cbn [fst]. rewrite Hd. reflexivity.
  Qed.
End CodecFacts.

(* values over the kept class come back unchanged, whether or not the decoder filters *)
Lemma dec_view_g_safe : forall C w, Forall (fun kv => safe_g C (snd kv) = true) w ->
  dec_view_g C w = map (fun kv => (fst kv, TS (snd kv))) w.
Proof.
  intros C. induction w as [|[k v] w IH]; intro H; [reflexivity|]. inversion H; subst. unfold dec_view_g in *. cbn [map fst snd] in *.
  rewrite IH by assumption. unfold dec_val_g. destruct (k_safe C); [|reflexivity].
  rewrite (fqSafe_g_fixed (k_keep C)) by assumption. reflexivity.
Qed.

(* refusal of long headers needs no hypothesis on the tables at all *)
Lemma refuse_long_g : forall C t w, written_g C t = Ok w ->
  (encode_g C t = Raise ETooLong <-> k_limit C < len (header_of_g C w)) /\
  (forall h, encode_g C t = Ok h -> h = header_of_g C w /\ len h <= k_limit C).
Proof.
  intros C t w Hw. unfold encode_g. rewrite Hw. cbv zeta.
  destruct (k_limit C <? len (header_of_g C w)) eqn:E.
  - apply Z.ltb_lt in E. split; [split; [intros _; exact E|reflexivity]|intros h Hh; discriminate].
  - apply Z.ltb_ge in E. split; [split; [discriminate|lia]|]. intros h Hh. inversion Hh; subst. split; [reflexivity|lia].
Qed.

(* ================================================================== the regenerated tables *)
Definition dnw (k : str) : bool := dnw_g C0 k.
Definition dec_view (w : store) : rstore := map (fun kv => (fst kv, TS (fqSafe (snd kv)))) w.
Definition entry_ok (kv : str * str) : Prop := tagdef (fst kv) <> None /\ sepfree (snd kv) = true.

Lemma dec_view_C0 : forall w, dec_view_g C0 w = dec_view w.
Proof. reflexivity. Qed.

Lemma gen_seps : enc_item_sep = dec_item_sep /\ enc_kv_sep = dec_kv_sep /\ enc_item_sep <> enc_kv_sep.
Proof. destruct (wf_parts C0 gen_wf_codec) as [A [B [D _]]]. repeat split; assumption. Qed.

Lemma safe_nospace : forall c, fq_keep c = true -> is_space c = false.
Proof. exact (keep_nospace C0 gen_wf_codec). Qed.

Lemma wf_store_spec0 : forall t, wf_store t = true ->
  NoDup (map fst t) /\ (forall k v, In (k, v) t -> tagdef k <> None /\ sepfree v = true).
Proof. exact (wf_store_spec C0). Qed.

Lemma tagdef_key_safe0 : forall k pd, tagdef k = Some pd -> len k = 2 /\ safe k = true.
Proof. exact (tagdef_key_safe C0 gen_wf_codec). Qed.

Lemma written_KeyError : forall t, (exists k v, In (k, v) t /\ tagdef k = None) -> written t = Raise EKey.
Proof.
  induction t as [|[k v] t IH]; intros [k' [v' [HI HN]]]; [contradiction|].
  unfold written. rewrite written_cons. destruct HI as [HI|HI].
  - inversion HI; subst. unfold tagdef in HN. rewrite HN. reflexivity.
  - destruct (tagdef_g C0 k) as [[p b]|]; [|reflexivity]. fold (written t). rewrite IH; [reflexivity|]. exists k', v'. split; assumption.
Qed.

Lemma header_split0 : forall w, w <> [] -> Forall entry_ok w -> split dec_item_sep (header_of w) = map item w.
Proof. exact (header_split C0 gen_wf_codec). Qed.

Lemma decode_header0 : forall w, w <> [] -> Forall entry_ok w -> NoDup (map fst w) ->
  decode (header_of w) = Ok (dec_view w).
Proof. intros w. exact (decode_header C0 gen_wf_codec _ w). Qed.

Lemma roundtrip : forall t, wf_store t = true ->
  let w := filter (fun kv => negb (dnw (fst kv))) t in
  written t = Ok w /\
  (w <> [] -> len (header_of w) <= header_limit ->
   encode t = Ok (header_of w) /\ decode (header_of w) = Ok (dec_view w)).
Proof. intros t H. exact (roundtrip_g C0 gen_wf_codec _ t H). Qed.

(* values over the header-safe alphabet come back unchanged *)
Lemma dec_view_safe : forall w, Forall (fun kv => safe (snd kv) = true) w ->
  dec_view w = map (fun kv => (fst kv, TS (snd kv))) w.
Proof. exact (dec_view_g_safe C0). Qed.

(* each written tag is found again under its name *)
Lemma roundtrip_get : forall t k v, wf_store t = true -> In (k, v) t -> dnw k = false ->
  get k (dec_view (filter (fun kv => negb (dnw (fst kv))) t)) = Some (TS (fqSafe v)).
Proof. exact (roundtrip_get_g C0). Qed.

(* ------------------------------------------------------------------ refusal of long headers *)
Lemma refuse_long : forall t w, written t = Ok w ->
  (encode t = Raise ETooLong <-> header_limit < len (header_of w)) /\
  (forall h, encode t = Ok h -> h = header_of w /\ len h <= 254).
Proof.
  intros t w Hw. destruct (refuse_long_g C0 t w Hw) as [A B]. split; [exact A|].
  intros h Hh. destruct (B h Hh) as [B1 B2]. split; [exact B1|]. pose proof gen_limit. change (k_limit C0) with header_limit in B2. lia.
Qed.

Lemma encode_never_truncates : forall t h, encode t = Ok h -> exists w, written t = Ok w /\ h = header_of w.
Proof.
  intros t h H. unfold encode, encode_g in H. fold (written t) in H. destruct (written t) as [w|e] eqn:E; [|discriminate]. cbv zeta in H.
  destruct (k_limit C0 <? len (header_of_g C0 w)); [discriminate|]. inversion H. exists w. split; reflexivity.
Qed.
