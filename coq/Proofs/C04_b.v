(* C04 proofs, part 2: asFastq header -> fromTaggedBamRecord restores every written tag *)
From Coq Require Import ZArith List Bool Lia.
Import ListNotations.
From SCMO Require Import Lib.Val Gen.GenCodec Model.C04 Proofs.C04.
Open Scope Z_scope.

Definition dnw (k : str) : bool := match tagdef k with Some (_, b) => b | None => false end.
Definition dec_view (w : store) : rstore := map (fun kv => (fst kv, TS (fqSafe (snd kv)))) w.

(* ------------------------------------------------------------------ well-formed stores *)
Lemma nodup_keys_NoDup : forall t : store, nodup_keys t = true -> NoDup (map fst t).
Proof.
  induction t as [|[k v] t IH]; intro H; [constructor|]. cbn [nodup_keys] in H.
  apply andb_true_iff in H. destruct H as [H1 H2]. cbn [map fst]. constructor; [|apply IH; exact H2].
  apply get_None_notin. unfold has in H1. destruct (get k t); [discriminate|reflexivity].
Qed.

Lemma wf_store_spec : forall t, wf_store t = true ->
  NoDup (map fst t) /\ (forall k v, In (k, v) t -> tagdef k <> None /\ sepfree v = true).
Proof.
  intros t H. unfold wf_store in H. apply andb_true_iff in H. destruct H as [H H3].
  apply andb_true_iff in H. destruct H as [H1 H2]. split; [apply nodup_keys_NoDup; exact H1|].
  intros k v HI. rewrite forallb_forall in H2, H3. specialize (H2 _ HI). specialize (H3 _ HI). cbn [fst snd] in *.
  split; [|exact H3]. destruct (tagdef k); [discriminate|discriminate].
Qed.

Lemma tagdef_key_safe : forall k pd, tagdef k = Some pd -> len k = 2 /\ safe k = true.
Proof.
  intros k pd H. unfold tagdef in H. apply get_Some_In in H.
  pose proof gen_keys_safe as G. rewrite forallb_forall in G. specialize (G _ H). cbn [fst] in G.
  apply andb_true_iff in G. destruct G as [G1 G2]. apply Z.eqb_eq in G1. split; assumption.
Qed.

Lemma written_cons : forall k v r,
  written ((k, v) :: r) = match tagdef k with
                          | None => Raise EKey
                          | Some (_, b) => match written r with
                                           | Raise e => Raise e
                                           | Ok w => Ok (if b then w else (k, v) :: w)
                                           end
                          end.
Proof. reflexivity. Qed.

Lemma written_filter : forall t, (forall k v, In (k, v) t -> tagdef k <> None) ->
  written t = Ok (filter (fun kv => negb (dnw (fst kv))) t).
Proof.
  induction t as [|[k v] t IH]; intro H; [reflexivity|].
  rewrite written_cons. cbn [filter fst]. unfold dnw at 1.
  destruct (tagdef k) as [[p b]|] eqn:E; [|exfalso; apply (H k v); [left; reflexivity|exact E]].
  rewrite IH by (intros k' v' HI; apply (H k' v'); right; exact HI).
  destruct b; reflexivity.
Qed.

Lemma written_KeyError : forall t, (exists k v, In (k, v) t /\ tagdef k = None) -> written t = Raise EKey.
Proof.
  induction t as [|[k v] t IH]; intros [k' [v' [HI HN]]]; [contradiction|].
  rewrite written_cons. destruct HI as [HI|HI].
  - inversion HI; subst. rewrite HN. reflexivity.
  - destruct (tagdef k) as [[p b]|]; [|reflexivity]. rewrite IH; [reflexivity|]. exists k', v'. split; assumption.
Qed.

Lemma NoDup_keys_filter : forall (f : str * str -> bool) (t : store), NoDup (map fst t) -> NoDup (map fst (filter f t)).
Proof.
  intros f t. induction t as [|kv t IH]; intro H; [constructor|]. cbn [map] in H. inversion H as [|? ? Hn Hd]; subst.
  cbn [filter]. destruct (f kv); [|apply IH; exact Hd]. cbn [map]. constructor; [|apply IH; exact Hd].
  intro HI. apply Hn. apply in_map_iff in HI. destruct HI as [x [Hx HI]]. apply filter_In in HI. destruct HI as [HI _].
  apply in_map_iff. exists x. split; assumption.
Qed.

(* ------------------------------------------------------------------ characters of a header *)
Lemma sepfree_char_spec : forall c, sepfree_char c = true ->
  c <> enc_item_sep /\ c <> enc_kv_sep /\ is_space c = false.
Proof.
  intros c H. unfold sepfree_char in H. apply andb_true_iff in H. destruct H as [H H3].
  apply andb_true_iff in H. destruct H as [H1 H2].
  apply negb_true_iff in H1, H2, H3. apply Z.eqb_neq in H1, H2. repeat split; assumption.
Qed.

Lemma safe_In : forall s c, safe s = true -> In c s -> fq_keep c = true.
Proof. intros s c H HI. unfold safe in H. rewrite forallb_forall in H. apply H. exact HI. Qed.

Lemma sepfree_In : forall s c, sepfree s = true -> In c s -> sepfree_char c = true.
Proof. intros s c H HI. unfold sepfree in H. rewrite forallb_forall in H. apply H. exact HI. Qed.

Lemma key_no_sep : forall k sep, safe k = true -> fq_keep sep = false -> ~ In sep k.
Proof. intros k sep Hs Hf HI. rewrite (safe_In k sep Hs HI) in Hf. discriminate. Qed.

Definition entry_ok (kv : str * str) : Prop := tagdef (fst kv) <> None /\ sepfree (snd kv) = true.

Lemma item_chars : forall kv c, entry_ok kv -> In c (item kv) ->
  c <> enc_item_sep /\ is_space c = false.
Proof.
  intros [k v] c [Hk Hv] HI. cbn [fst snd] in *. unfold item in HI. cbn [fst snd] in HI.
  destruct (tagdef k) as [pd|] eqn:E; [|congruence]. destruct (tagdef_key_safe k pd E) as [_ Hs].
  destruct gen_seps as [_ [_ Hne]]. destruct gen_seps_unsafe as [Hu1 Hu2]. destruct gen_seps_nospace as [Hn1 Hn2].
  apply in_app_or in HI. destruct HI as [HI|[HI|HI]].
  - pose proof (safe_In k c Hs HI) as Hc. split; [intro; subst; congruence|apply safe_nospace; exact Hc].
  - subst c. split; [congruence|exact Hn2].
  - destruct (sepfree_char_spec c (sepfree_In v c Hv HI)) as [A [B C]]. split; assumption.
Qed.

Lemma split_kv_item : forall kv, entry_ok kv -> split_kv dec_kv_sep (item kv) = Some kv.
Proof.
  intros [k v] [Hk Hv]. cbn [fst snd] in *. destruct gen_seps as [_ [E _]]. rewrite <- E.
  destruct (tagdef k) as [pd|] eqn:Ek; [|congruence]. destruct (tagdef_key_safe k pd Ek) as [_ Hs].
  destruct gen_seps_unsafe as [_ Hu2].
  unfold split_kv, item. cbn [fst snd]. rewrite split_app_sep by (apply key_no_sep; assumption).
  rewrite split_nosep; [reflexivity|].
  intro HI. destruct (sepfree_char_spec _ (sepfree_In v _ Hv HI)) as [_ [B _]]. congruence.
Qed.

Lemma header_nospace : forall w, Forall entry_ok w -> Forall (fun c => is_space c = false) (header_of w).
Proof.
  intros w H. apply Forall_forall. intros c HI. unfold header_of in HI. apply join_In in HI.
  destruct HI as [HI|[p [Hp Hc]]]; [subst; apply gen_seps_nospace|].
  apply in_map_iff in Hp. destruct Hp as [kv [E Hkv]]. subst p. rewrite Forall_forall in H.
  apply (item_chars kv c (H kv Hkv) Hc).
Qed.

Lemma header_split : forall w, w <> [] -> Forall entry_ok w -> split dec_item_sep (header_of w) = map item w.
Proof.
  intros w Hne H. destruct gen_seps as [E _]. rewrite <- E. unfold header_of. apply split_join.
  - destruct w; [contradiction|discriminate].
  - apply Forall_forall. intros p Hp. apply in_map_iff in Hp. destruct Hp as [kv [Ep Hkv]]. subst p.
    rewrite Forall_forall in H. intro HI. destruct (item_chars kv _ (H kv Hkv) HI) as [A _]. congruence.
Qed.

(* ------------------------------------------------------------------ the decoder loop *)
Lemma add_items_cons : forall it r d,
  add_items (it :: r) d = match split_kv dec_kv_sep it with
                          | None => (d, false)
                          | Some (k, v) => add_items r (dset k (TS (fqSafe v)) d)
                          end.
Proof. reflexivity. Qed.

Lemma add_items_written : forall w d, Forall entry_ok w -> NoDup (map fst w) ->
  (forall k, In k (map fst w) -> get k d = None) ->
  add_items (map item w) d = (d ++ dec_view w, true).
Proof.
  induction w as [|[k v] w IH]; intros d HF ND Hd.
  - cbn. rewrite app_nil_r. reflexivity.
  - inversion HF as [|? ? Hkv HF']; subst. cbn [map fst] in ND. inversion ND as [|? ? Hn ND']; subst.
    cbn [map]. rewrite add_items_cons, (split_kv_item (k, v) Hkv).
    rewrite dset_fresh by (apply Hd; left; reflexivity).
    rewrite IH; [unfold dec_view; cbn [map fst snd]; rewrite <- app_assoc; reflexivity|exact HF'|exact ND'|].
    intros k' Hk'. rewrite get_app, (Hd k') by (right; exact Hk'). cbn [get].
    destruct (str_eqb k' k) eqn:E; [|reflexivity]. apply str_eqb_eq in E. subst. contradiction.
Qed.

(* ------------------------------------------------------------------ the round trip *)
Lemma decode_header : forall w, w <> [] -> Forall entry_ok w -> NoDup (map fst w) ->
  decode (header_of w) = Ok (dec_view w).
Proof.
  intros w Hne HF ND. unfold decode. rewrite strip_nospace by (apply header_nospace; exact HF).
  rewrite header_split by assumption. rewrite add_items_written by (try assumption; reflexivity). reflexivity.
Qed.

Lemma roundtrip : forall t, wf_store t = true ->
  let w := filter (fun kv => negb (dnw (fst kv))) t in
  written t = Ok w /\
  (w <> [] -> len (header_of w) <= header_limit ->
   encode t = Ok (header_of w) /\ decode (header_of w) = Ok (dec_view w)).
Proof.
  intros t H w. destruct (wf_store_spec t H) as [ND Hall].
  assert (Hw : written t = Ok w) by (apply written_filter; intros k v HI; apply (Hall k v HI)).
  split; [exact Hw|]. intros Hne Hlen. split.
  - unfold encode. rewrite Hw. cbv zeta. destruct (header_limit <? len (header_of w)) eqn:E; [apply Z.ltb_lt in E; lia|reflexivity].
  - apply decode_header; [exact Hne| |apply NoDup_keys_filter; exact ND].
    apply Forall_forall. intros [k v] HI. apply filter_In in HI. destruct HI as [HI _]. exact (Hall k v HI).
Qed.

(* values over the header-safe alphabet come back unchanged *)
Lemma dec_view_safe : forall w, Forall (fun kv => safe (snd kv) = true) w ->
  dec_view w = map (fun kv => (fst kv, TS (snd kv))) w.
Proof.
  induction w as [|[k v] w IH]; intro H; [reflexivity|]. inversion H; subst. unfold dec_view in *. cbn [map fst snd] in *.
  rewrite fqSafe_fixed by assumption. rewrite IH by assumption. reflexivity.
Qed.

(* each written tag is found again under its name *)
Lemma roundtrip_get : forall t k v, wf_store t = true -> In (k, v) t -> dnw k = false ->
  get k (dec_view (filter (fun kv => negb (dnw (fst kv))) t)) = Some (TS (fqSafe v)).
Proof.
  intros t k v H HI Hd. destruct (wf_store_spec t H) as [ND _].
  unfold dec_view. rewrite (get_map_val str tval (fun x => TS (fqSafe x))).
  rewrite (get_In k v); [reflexivity|apply NoDup_keys_filter; exact ND|].
  apply filter_In. split; [exact HI|]. cbn [fst]. rewrite Hd. reflexivity.
Qed.

(* ------------------------------------------------------------------ refusal of long headers *)
Lemma refuse_long : forall t w, written t = Ok w ->
  (encode t = Raise ETooLong <-> header_limit < len (header_of w)) /\
  (forall h, encode t = Ok h -> h = header_of w /\ len h <= 254).
Proof.
  intros t w Hw. unfold encode. rewrite Hw. cbv zeta. pose proof gen_limit as G.
  destruct (header_limit <? len (header_of w)) eqn:E.
  - apply Z.ltb_lt in E. split; [split; [intros _; exact E|reflexivity]|intros h Hh; discriminate].
  - apply Z.ltb_ge in E. split; [split; [discriminate|lia]|]. intros h Hh. inversion Hh; subst. split; [reflexivity|lia].
Qed.

Lemma encode_never_truncates : forall t h, encode t = Ok h -> exists w, written t = Ok w /\ h = header_of w.
Proof.
  intros t h H. unfold encode in H. destruct (written t) as [w|e] eqn:E; [|discriminate]. cbv zeta in H.
  destruct (header_limit <? len (header_of w)); [discriminate|]. inversion H. exists w. split; reflexivity.
Qed.
