(* C14 proofs, part b: consensus votes, call dictionary, XM strings and totals *)
From Coq Require Import ZArith List Bool Lia Arith.
Import ListNotations.
From SCMO Require Import Lib.Val Gen.GenTaps Model.C14 Proofs.C14_a.
Open Scope Z_scope.

(* ------------------------------------------------------------------ small list facts *)
Lemma memZ_In x l : memZ x l = true <-> In x l.
Proof.
  induction l as [|y l IH]; cbn; [split; [discriminate|tauto]|].
  rewrite orb_true_iff, IH, Z.eqb_eq. split; intros [H|H]; auto.
Qed.

Lemma dedupe_In x l : In x (dedupe l) <-> In x l.
Proof.
  induction l as [|y l IH]; cbn; [tauto|].
  destruct (memZ y l) eqn:E.
  - rewrite IH. split; auto. intros [<-|H]; auto. now apply memZ_In.
  - cbn. rewrite IH. tauto.
Qed.

Lemma dedupe_NoDup l : NoDup (dedupe l).
Proof.
  induction l as [|y l IH]; cbn; [constructor|].
  destruct (memZ y l) eqn:E; auto. constructor; auto.
  rewrite dedupe_In. intros H. apply memZ_In in H. congruence.
Qed.

Lemma dget_In {V} k (l : list (Z * V)) v : dget k l = Some v -> In (k, v) l.
Proof.
  induction l as [|[k' v'] l IH]; cbn; [discriminate|].
  destruct (dget k l) as [w|] eqn:E.
  - intros [= <-]. right. now apply IH.
  - destruct (Z.eqb_spec k k'); [|discriminate]. intros [= <-]. subst. now left.
Qed.

(* ------------------------------------------------------------------ pick_best_base_call *)
Lemma pick_best_origin o1 o2 b q : pick_best [o1; o2] = (b, q) ->
  b = cN \/ (exists q', o1 = Some (b, q')) \/ (exists q', o2 = Some (b, q')).
Proof.
  unfold pick_best. cbn [fold_left].
  destruct o1 as [[b1 q1]|], o2 as [[b2 q2]|];
    repeat (cbn -[Z.ltb Z.eqb]; match goal with |- context [if ?x then _ else _] => destruct x end);
    cbn -[Z.ltb Z.eqb]; intros [= <- <-]; eauto 6.
Qed.

(* ------------------------------------------------------------------ where a vote comes from *)
Lemma rdict_In o lo hi only minq pos b q :
  In (pos, (b, q)) (rdict o lo hi only minq) ->
  exists r p, o = Some r /\ In p (r_pairs r) /\ keep lo hi only minq p = true /\
              p_pos p = pos /\ p_base p = b /\ p_qual p = q.
Proof.
  destruct o as [r|]; cbn [rdict]; [|intros []].
  rewrite in_map_iff. intros [p [E H]]. apply filter_In in H as [H1 H2].
  injection E as <- <- <-. exists r, p. repeat split; auto.
Qed.

Lemma rdict_key_In o lo hi only minq pos :
  In pos (map fst (rdict o lo hi only minq)) ->
  exists r p, o = Some r /\ In p (r_pairs r) /\ keep lo hi only minq p = true /\ p_pos p = pos.
Proof.
  rewrite in_map_iff. intros [[k [b q]] [E H]]. cbn in E. subst k.
  apply rdict_In in H as [r [p [H1 [H2 [H3 [H4 _]]]]]]. eauto 8.
Qed.

(* a fragment supports base b at pos: (for dove-safe calling: it is a paired, inward facing fragment,)
   pos lies inside its mate-overlap-safe span [lo,hi], one of its mates has an aligned base b there whose MD
   reference base is the expected base and whose phred passes the threshold *)
Definition supports (c : cfg) (f : frag) (pos b : Z) : Prop :=
  exists o1 o2 lo hi r p,
    f = (o1, o2) /\ (c_unsafe c = false -> has o1 = true /\ has o2 = true) /\
    safe_span c f = Some (lo, hi) /\ (o1 = Some r \/ o2 = Some r) /\ r_md r = true /\
    In p (r_pairs r) /\ p_pos p = pos /\ p_base p = b /\ keep lo hi (expected c) (c_minq c) p = true.

Lemma frag_votes_origin c f pos b : In (pos, b) (frag_votes c f) -> supports c f pos b /\ b <> cN.
Proof.
  unfold frag_votes. destruct (frag_cons c f) as [d|] eqn:E; [|intros []].
  rewrite in_flat_map. intros [[k [b' q]] [Hin Hv]]. cbn [fst snd] in Hv.
  destruct (Z.eqb_spec b' cN) as [|Hn]; [destruct Hv|]. destruct Hv as [Hv|[]]. injection Hv as -> ->.
  split; auto.
  unfold frag_cons in E. destruct f as [o1 o2].
  destruct (negb (c_unsafe c) && (negb (has o2) || negb (has o1))) eqn:Hskip; [discriminate|].
  assert (Hboth : c_unsafe c = false -> has o1 = true /\ has o2 = true).
  { intros Hu. rewrite Hu in Hskip. cbn in Hskip. apply orb_false_iff in Hskip as [A B].
    apply negb_false_iff in A, B. auto. }
  destruct (safe_span c (o1, o2)) as [[lo hi]|] eqn:Hspan; [|discriminate].
  destruct (md_ok o1 && md_ok o2) eqn:Hmd; [|discriminate]. apply andb_true_iff in Hmd as [Hmd1 Hmd2].
  injection E as <-. apply in_map_iff in Hin as [k [Ek Hk]]. injection Ek as -> Epb.
  apply pick_best_origin in Epb as [Epb|[[q' Epb]|[q' Epb]]]; [congruence| |].
  - apply dget_In, rdict_In in Epb as [r [p [-> [Hp [Hkeep [Hpos [Hbase _]]]]]]].
    exists (Some r), o2, lo, hi, r, p. repeat split; auto; now apply Hboth.
  - apply dget_In, rdict_In in Epb as [r [p [-> [Hp [Hkeep [Hpos [Hbase _]]]]]]].
    exists o1, (Some r), lo, hi, r, p. repeat split; auto; now apply Hboth.
Qed.

Lemma votes_origin c fs pos b : In (pos, b) (votes c fs) -> exists f, In f fs /\ supports c f pos b /\ b <> cN.
Proof.
  unfold votes. rewrite in_flat_map. intros [f [Hf Hv]]. exists f. split; auto. now apply frag_votes_origin.
Qed.

(* ------------------------------------------------------------------ well-formed molecules *)
Lemma wf_read fs f r : wf fs = true -> In f fs -> (fst f = Some r \/ snd f = Some r) -> read_ok r = true.
Proof.
  unfold wf. rewrite forallb_forall. intros H Hf Hr. apply H. unfold reads_of. apply in_flat_map.
  exists f. split; auto. apply in_or_app. destruct Hr as [-> | ->]; [left|right]; now left.
Qed.

Lemma votes_wf c fs pos b : wf fs = true -> In (pos, b) (votes c fs) -> 0 <= pos /\ is_acgt b = true.
Proof.
  intros Hwf Hv. apply votes_origin in Hv as [f [Hf [[o1 [o2 [lo [hi [r [p H]]]]]] Hn]]].
  destruct H as [-> [_ [_ [Hr [_ [Hp [Hpos [Hbase _]]]]]]]].
  assert (Hok : read_ok r = true) by (eapply wf_read; eauto).
  unfold read_ok in Hok. rewrite forallb_forall in Hok. specialize (Hok p Hp).
  apply andb_true_iff in Hok as [Hok _]. apply andb_true_iff in Hok as [H0 Hb].
  subst. split; [lia|]. unfold base_ok in Hb. unfold is_acgt.
  destruct (p_base p =? cN) eqn:EN; [apply Z.eqb_eq in EN; congruence|]. now rewrite orb_false_r in Hb.
Qed.

(* ------------------------------------------------------------------ majority vote *)
Lemma count_nonneg vs pos b : 0 <= count vs pos b.
Proof. unfold count. lia. Qed.

Lemma count_pos vs pos b : In (pos, b) vs -> 0 < count vs pos b.
Proof.
  intros H. unfold count.
  assert (In (pos, b) (filter (fun v => (fst v =? pos) && (snd v =? b)) vs)).
  { apply filter_In. split; auto. cbn. now rewrite !Z.eqb_refl. }
  destruct (filter _ vs); [destruct H0|cbn; lia].
Qed.

Lemma winners_single vs pos b : winners vs pos = [b] ->
  In b bases /\ count vs pos b = maxcount vs pos /\ 0 < count vs pos b /\
  (forall b', In b' bases -> b' <> b -> count vs pos b' < count vs pos b).
Proof.
  unfold winners, bases. cbn [filter].
  pose proof (count_nonneg vs pos cA). pose proof (count_nonneg vs pos cC).
  pose proof (count_nonneg vs pos cG). pose proof (count_nonneg vs pos cT).
  assert (HM : maxcount vs pos = Z.max (count vs pos cA) (Z.max (count vs pos cC) (Z.max (count vs pos cG)
                 (Z.max (count vs pos cT) 0)))) by reflexivity.
  destruct (Z.eqb_spec (count vs pos cA) (maxcount vs pos));
  destruct (Z.eqb_spec (count vs pos cC) (maxcount vs pos));
  destruct (Z.eqb_spec (count vs pos cG) (maxcount vs pos));
  destruct (Z.eqb_spec (count vs pos cT) (maxcount vs pos));
  destruct (Z.eqb_spec 0 (maxcount vs pos)); cbn [app]; intros E; try discriminate; try (exfalso; lia);
  injection E as <-.
  all: split; [cbn; tauto|]. all: split; [assumption|]. all: split; [lia|].
  all: intros b' [<-|[<-|[<-|[<-|[]]]]] Hne; try congruence; lia.
Qed.

Lemma cons_at_In vs pos e : In e (cons_at vs pos) ->
  exists b, e = (pos, b, maxcount vs pos) /\ winners vs pos = [b].
Proof.
  unfold cons_at. destruct (winners vs pos) as [|b [|b' t]]; cbn; try tauto.
  intros [<-|[]]. eauto.
Qed.

Lemma consensus_In c fs pos b cov : In (pos, b, cov) (consensus c fs) ->
  In pos (map fst (votes c fs)) /\ winners (votes c fs) pos = [b] /\ cov = maxcount (votes c fs) pos.
Proof.
  unfold consensus. rewrite in_flat_map. intros [p [Hp He]]. apply (proj1 (dedupe_In _ _)) in Hp.
  apply cons_at_In in He as [b' [E Hw]]. injection E as -> -> ->. auto.
Qed.

Lemma consensus_NoDup c fs : NoDup (map (fun e => fst (fst e)) (consensus c fs)).
Proof.
  unfold consensus. set (vs := votes c fs).
  pose proof (dedupe_NoDup (map fst vs)) as ND. induction (dedupe (map fst vs)) as [|p l IH]; cbn; [constructor|].
  inversion ND as [|? ? Hnot ND']; subst. rewrite map_app.
  assert (Htail : forall x, In x (map (fun e => fst (fst e)) (flat_map (cons_at vs) l)) -> In x l).
  { intros x Hx. apply in_map_iff in Hx as [e [<- He]]. apply in_flat_map in He as [p' [Hp' He]].
    apply cons_at_In in He as [b [-> _]]. exact Hp'. }
  unfold cons_at at 1. destruct (winners vs p) as [|b [|b' t]]; cbn; auto.
  constructor; auto.
Qed.

(* ------------------------------------------------------------------ the call dictionary *)
Lemma expected_CG c : expected c = cC \/ expected c = cG.
Proof. unfold expected. destruct (c_tapsF c), (truthy (c_strand c)); auto. Qed.

Lemma calls_In c ref fs cs k : calls c ref fs = OK cs -> In k cs ->
  exists e, In e (consensus c fs) /\ k = mk_call c ref e.
Proof.
  unfold calls, calls_t. intros H Hk.
  assert (cs = map (mk_call c ref) (consensus c fs)) as ->.
  { destruct (c_strand c); [injection H; auto|]. destruct (consensus c fs); [injection H; auto|discriminate]. }
  apply in_map_iff in Hk as [e [<- He]]. eauto.
Qed.

Lemma calls_map c ref fs cs : calls c ref fs = OK cs -> cs = map (mk_call c ref) (consensus c fs).
Proof.
  unfold calls, calls_t. intros H.
  destruct (c_strand c); [injection H; auto|]. destruct (consensus c fs); [injection H; auto|discriminate].
Qed.

Lemma calls_raise c ref fs : calls c ref fs = Raise <-> c_strand c = None /\ consensus c fs <> [].
Proof.
  unfold calls, calls_t. destruct (c_strand c); [split; [discriminate|intros [? _]; discriminate]|].
  destruct (consensus c fs); split; try discriminate; try (intros [_ H]; congruence); auto.
  intros _. split; auto. discriminate.
Qed.

Lemma call_spec c ref fs cs k : wf fs = true -> calls c ref fs = OK cs -> In k cs ->
  In (k_pos k, k_cons k, k_cov k) (consensus c fs) /\
  0 <= k_pos k /\ is_acgt (k_cons k) = true /\
  k_letter k = spec_letter ref (k_pos k) (expected c) (k_cons k).
Proof.
  intros Hwf Hc Hk. destruct (calls_In _ _ _ _ _ Hc Hk) as [[[pos b] cov] [He ->]].
  unfold mk_call; cbn [mk_call_t k_pos k_cons k_cov k_letter]. split; auto.
  destruct (consensus_In _ _ _ _ _ He) as [Hp [Hw _]].
  apply in_map_iff in Hp as [[p' b'] [Ep Hv]]. cbn in Ep. subst p'.
  destruct (votes_wf _ _ _ _ Hwf Hv) as [H0 _].
  destruct (winners_single _ _ _ Hw) as [Hb _].
  assert (Hacgt : is_acgt b = true) by (cbn in Hb; destruct Hb as [<-|[<-|[<-|[<-|[]]]]]; reflexivity).
  repeat split; auto.
  fold symbol. rewrite symbol_spec by (auto using expected_CG). now rewrite upper_idem_base.
Qed.

Lemma call_majority c ref fs cs k : calls c ref fs = OK cs -> In k cs ->
  let vs := votes c fs in
  k_cov k = count vs (k_pos k) (k_cons k) /\ 0 < k_cov k /\
  forall b', In b' bases -> b' <> k_cons k -> count vs (k_pos k) b' < count vs (k_pos k) (k_cons k).
Proof.
  intros Hc Hk vs. destruct (calls_In _ _ _ _ _ Hc Hk) as [[[pos b] cov] [He ->]].
  unfold mk_call; cbn [mk_call_t k_pos k_cons k_cov k_letter].
  destruct (consensus_In _ _ _ _ _ He) as [_ [Hw ->]].
  destruct (winners_single _ _ _ Hw) as [_ [H1 [H2 H3]]]. fold vs in H1, H2, H3 |- *. rewrite <- H1. auto.
Qed.

(* every entry of the dictionary is supported by a fragment: inside its mate-overlap-safe span *)
Lemma call_supported c ref fs cs k : calls c ref fs = OK cs -> In k cs ->
  exists f, In f fs /\ supports c f (k_pos k) (k_cons k).
Proof.
  intros Hc Hk. destruct (calls_In _ _ _ _ _ Hc Hk) as [[[pos b] cov] [He ->]].
  unfold mk_call; cbn [mk_call_t k_pos k_cons]. destruct (consensus_In _ _ _ _ _ He) as [_ [Hw _]].
  destruct (winners_single _ _ _ Hw) as [_ [_ [Hpos _]]].
  unfold count in Hpos.
  destruct (filter (fun v => (fst v =? pos) && (snd v =? b)) (votes c fs)) as [|[p' b'] t] eqn:EF; [cbn in Hpos; lia|].
  assert (Hin : In (p', b') (filter (fun v => (fst v =? pos) && (snd v =? b)) (votes c fs))) by (rewrite EF; now left).
  apply filter_In in Hin as [Hin Heq]. cbn in Heq. apply andb_true_iff in Heq as [E1 E2].
  apply Z.eqb_eq in E1, E2. subst. apply votes_origin in Hin as [f [Hf [Hs _]]]. eauto.
Qed.

(* dove-tail safety spelled out *)
Lemma supports_safe c f pos b : c_unsafe c = false -> supports c f pos b ->
  exists r1 r2 lo hi, f = (Some r1, Some r2) /\
    ((r_rev r1 = true /\ r_rev r2 = false /\ lo = r_start r2 + c_d2 c /\ hi = r_end r1 - c_d1 c - 1) \/
     (r_rev r1 = false /\ r_rev r2 = true /\ lo = r_start r1 + c_d1 c /\ hi = r_end r2 - c_d2 c - 1)) /\
    lo <= pos <= hi /\
    exists r p, (r = r1 \/ r = r2) /\ In p (r_pairs r) /\ p_pos p = pos /\ p_base p = b /\
                upper (p_ref p) = expected c /\
                match c_minq c with None => True | Some m => m <= p_qual p end.
Proof.
  intros Hu [o1 [o2 [lo [hi [r [p [-> [H1 [Hs [Hr [_ [Hp [Hpos [Hb Hk]]]]]]]]]]]]]].
  unfold safe_span in Hs. rewrite Hu in Hs.
  destruct o1 as [r1|]; [|discriminate]. destruct o2 as [r2|]; [|discriminate].
  unfold keep in Hk. apply andb_true_iff in Hk as [Hk Href]. apply andb_true_iff in Hk as [Hk Hq].
  apply andb_true_iff in Hk as [Hlo Hhi]. apply Z.eqb_eq in Href.
  assert (HR : r = r1 \/ r = r2) by (destruct Hr as [[= ->]|[= ->]]; auto).
  assert (HQ : match c_minq c with None => True | Some m => m <= p_qual p end)
    by (destruct (c_minq c); [apply Z.leb_le in Hq; auto|exact I]).
  destruct (r_rev r1) eqn:R1, (r_rev r2) eqn:R2; cbn in Hs; try discriminate; injection Hs as <- <-;
    cbn [in_lo in_hi] in Hlo, Hhi; apply Z.leb_le in Hlo, Hhi.
  - exists r1, r2, (r_start r2 + c_d2 c), (r_end r1 - c_d1 c - 1). split; auto. split; [left; auto|].
    split; [lia|]. exists r, p. repeat split; auto.
  - exists r1, r2, (r_start r1 + c_d1 c), (r_end r2 - c_d2 c - 1). split; auto. split; [right; auto|].
    split; [lia|]. exists r, p. repeat split; auto.
Qed.

Lemma calls_NoDup c ref fs cs : calls c ref fs = OK cs -> NoDup (map k_pos cs).
Proof.
  intros H. rewrite (calls_map _ _ _ _ H), map_map.
  erewrite map_ext; [apply consensus_NoDup|]. intros [[pos b] cov]. reflexivity.
Qed.

(* ------------------------------------------------------------------ XM strings *)
Lemma letter_at_In cs k : NoDup (map k_pos cs) -> In k cs -> letter_at cs (k_pos k) = k_letter k.
Proof.
  induction cs as [|k' cs IH]; cbn; [tauto|]. intros ND [->|Hk].
  - now rewrite Z.eqb_refl.
  - inversion ND as [|? ? Hnot ND']; subst. destruct (Z.eqb_spec (k_pos k') (k_pos k)) as [E|E]; auto.
    exfalso. apply Hnot. rewrite E. now apply in_map.
Qed.

Lemma letter_at_notin cs pos : ~ In pos (map k_pos cs) -> letter_at cs pos = cDot.
Proof.
  induction cs as [|k' cs IH]; cbn; auto. intros H.
  destruct (Z.eqb_spec (k_pos k') pos); [tauto|]. apply IH. tauto.
Qed.

Lemma xm_length cs r : length (xm cs r) = length (r_pairs r).
Proof. unfold xm. apply map_length. Qed.

Lemma xm_nth cs r i p : nth_error (r_pairs r) i = Some p ->
  nth_error (xm cs r) i = Some (letter_at cs (p_pos p)).
Proof. intros H. unfold xm. now rewrite nth_error_map, H. Qed.

(* ------------------------------------------------------------------ totals *)
Definition ncalls (l : Z) (cs : list call) : Z := Z.of_nat (length (filter (fun k => k_letter k =? l) cs)).

Lemma nocc_ncalls l cs : nocc l (map k_letter cs) = ncalls l cs.
Proof.
  unfold ncalls. induction cs as [|k cs IH]; cbn [map nocc filter]; auto.
  rewrite IH, (Z.eqb_sym l). destruct (k_letter k =? l); cbn [length]; lia.
Qed.

Lemma tot_spec cs :
  t_sZ (tot cs) = ncalls c_Z cs /\ t_sz (tot cs) = ncalls c_z cs /\
  t_sX (tot cs) = ncalls c_X cs /\ t_sx (tot cs) = ncalls c_x cs /\
  t_sH (tot cs) = ncalls c_H cs /\ t_sh (tot cs) = ncalls c_h cs /\
  t_MC (tot cs) = ncalls c_Z cs + ncalls c_X cs + ncalls c_H cs /\
  t_uC (tot cs) = ncalls c_z cs + ncalls c_x cs + ncalls c_h cs.
Proof. unfold tot. cbn. rewrite !nocc_ncalls. repeat split; reflexivity. Qed.

(* the totals partition the dictionary: methylated + unmethylated + '.' entries = all entries *)
Lemma ncalls_partition cs :
  (forall k, In k cs -> k_letter k = cDot \/ is_call_letter (k_letter k) = true) ->
  ncalls c_Z cs + ncalls c_X cs + ncalls c_H cs + ncalls c_z cs + ncalls c_x cs + ncalls c_h cs + ncalls cDot cs
  = Z.of_nat (length cs).
Proof.
  unfold ncalls. induction cs as [|k cs IH]; intros H; [reflexivity|].
  assert (IH' := IH (fun k' Hk' => H k' (or_intror Hk'))). clear IH.
  cbn [filter length]. destruct (H k (or_introl eq_refl)) as [E|E].
  - rewrite E. unfold c_Z, c_X, c_H, c_z, c_x, c_h, cDot in *. cbn [Z.eqb Pos.eqb length]. lia.
  - unfold is_call_letter in E. repeat (apply orb_true_iff in E as [E|E]); apply Z.eqb_eq in E; rewrite E;
      unfold c_Z, c_X, c_H, c_z, c_x, c_h, cDot in *; cbn [Z.eqb Pos.eqb length]; lia.
Qed.

(* count of methylated calls = number of dictionary entries whose letter is upper case *)
Lemma MC_upper cs : t_MC (tot cs) = Z.of_nat (length (filter (fun k => is_upper_letter (k_letter k)) cs)).
Proof.
  destruct (tot_spec cs) as [_ [_ [_ [_ [_ [_ [-> _]]]]]]]. unfold ncalls.
  induction cs as [|k cs IH]; [reflexivity|]. cbn [filter]. unfold is_upper_letter at 1.
  destruct (Z.eqb_spec (k_letter k) c_Z) as [E|E]; [rewrite ?E; unfold c_Z, c_X, c_H, c_z, c_x, c_h in *; cbn [Z.eqb Pos.eqb orb length]; lia|].
  destruct (Z.eqb_spec (k_letter k) c_X) as [E2|E2]; [rewrite ?E2; unfold c_Z, c_X, c_H, c_z, c_x, c_h in *; cbn [Z.eqb Pos.eqb orb length]; lia|].
  destruct (Z.eqb_spec (k_letter k) c_H) as [E3|E3]; [rewrite ?E3; unfold c_Z, c_X, c_H, c_z, c_x, c_h in *; cbn [Z.eqb Pos.eqb orb length]; lia|]. cbn [orb length]. lia.
Qed.

Lemma uC_lower cs : t_uC (tot cs) = Z.of_nat (length (filter (fun k => is_lower_letter (k_letter k)) cs)).
Proof.
  destruct (tot_spec cs) as [_ [_ [_ [_ [_ [_ [_ ->]]]]]]]. unfold ncalls.
  induction cs as [|k cs IH]; [reflexivity|]. cbn [filter]. unfold is_lower_letter at 1.
  destruct (Z.eqb_spec (k_letter k) c_z) as [E|E]; [rewrite ?E; unfold c_Z, c_X, c_H, c_z, c_x, c_h in *; cbn [Z.eqb Pos.eqb orb length]; lia|].
  destruct (Z.eqb_spec (k_letter k) c_x) as [E2|E2]; [rewrite ?E2; unfold c_Z, c_X, c_H, c_z, c_x, c_h in *; cbn [Z.eqb Pos.eqb orb length]; lia|].
  destruct (Z.eqb_spec (k_letter k) c_h) as [E3|E3]; [rewrite ?E3; unfold c_Z, c_X, c_H, c_z, c_x, c_h in *; cbn [Z.eqb Pos.eqb orb length]; lia|]. cbn [orb length]. lia.
Qed.

(* ------------------------------------------------------------------ what run_C14 writes to every read *)
Definition read_tags (cs : list call) (r : read) : list Z * totals := (xm cs r, tot cs).

Lemma run_tags v cs : wf (dec_frags v) = true -> calls (dec_cfg v) (dec_ref v) (dec_frags v) = OK cs ->
  run_C14 0 v = VL [VL (map enc_call cs);
                    VL (map (fun r => VL (ofZs (fst (read_tags cs r)) :: enc_tot (snd (read_tags cs r))))
                            (reads_of (dec_frags v)))].
Proof. intros Hwf Hc. unfold run_C14. rewrite Hwf, Hc. reflexivity. Qed.

(* ------------------------------------------------------------------ histories through one TAPS object *)
Definition alone (t : taps) (m : molecule) : result (list call) := calls_t t (m_cfg m) (m_ref m) (m_frags m).

(* statelessness: whatever was processed before (other contigs, the same coordinates, the same contig again),
   every molecule gets exactly the calls it gets when processed alone by a fresh object *)
Lemma history_stateless : forall ms t, history t ms = map (alone t) ms.
Proof. induction ms as [|m ms IH]; intros t; cbn [history process map]; [reflexivity|]. now rewrite IH. Qed.

Lemma history_nth ms i m : nth_error ms i = Some m ->
  nth_error (history taps0 ms) i = Some (calls (m_cfg m) (m_ref m) (m_frags m)).
Proof. intros H. rewrite history_stateless, nth_error_map, H. reflexivity. Qed.

Lemma history_prefix_irrelevant pre m post :
  nth_error (history taps0 (pre ++ m :: post)) (length pre) = Some (calls (m_cfg m) (m_ref m) (m_frags m)).
Proof. apply history_nth. rewrite nth_error_app2 by auto. now rewrite Nat.sub_diag. Qed.

(* ------------------------------------------------------------------ call-level corollaries *)
(* a letter in the dictionary: on a reference C/G, true context, case = observed conversion *)
Lemma call_called c ref fs cs k : wf fs = true -> calls c ref fs = OK cs -> In k cs -> k_letter k <> cDot ->
  let base := expected c in
  up_at ref (k_pos k) = Some base /\
  (exists n1 n2, neighbours ref (k_pos k) base = Some (n1, n2) /\ is_acgt n1 = true /\ is_acgt n2 = true /\
     k_letter k = (let low := if n1 =? cG then c_z else if n2 =? cG then c_x else c_h in
                   if k_cons k =? conv base then upper low else low)) /\
  (is_upper_letter (k_letter k) = true <-> k_cons k = conv base) /\
  (is_lower_letter (k_letter k) = true <-> k_cons k = base).
Proof.
  intros Hwf Hc Hk Hd base. destruct (call_spec _ _ _ _ _ Hwf Hc Hk) as [_ [_ [_ Hl]]].
  pose proof (expected_CG c) as Hb. fold base in Hb, Hl.
  destruct (spec_letter_called _ _ _ _ _ Hb (eq_sym Hl) Hd) as [H1 [n1 [n2 [H2 [H3 [H4 [_ H5]]]]]]].
  split; auto. split; [exists n1, n2; auto|].
  rewrite Hl in Hd |- *. exact (spec_letter_case ref (k_pos k) base (k_cons k) Hb Hd).
Qed.

(* no letter when the context is truncated by a contig end, holds a non-ACGT base, the reference base is not the
   expected one, or the consensus shows neither the base nor its conversion *)
Lemma spec_letter_dot ref pos base cons :
  (up_at ref pos <> Some base \/ neighbours ref pos base = None \/
   (exists n1 n2, neighbours ref pos base = Some (n1, n2) /\ (is_acgt n1 = false \/ is_acgt n2 = false)) \/
   (cons <> conv base /\ cons <> base)) ->
  spec_letter ref pos base cons = cDot.
Proof.
  unfold spec_letter. intros [H|[H|[[n1 [n2 [H H']]]|[H H']]]].
  - destruct (up_at ref pos) as [b0|]; auto. destruct (Z.eqb_spec b0 base); auto. congruence.
  - rewrite H. destruct (up_at ref pos) as [b0|]; auto. destruct (b0 =? base); auto.
  - rewrite H. unfold ctx_class. destruct (up_at ref pos) as [b0|]; auto. destruct (b0 =? base); auto.
    destruct H' as [-> | ->]; [|rewrite andb_false_r]; reflexivity.
  - destruct (up_at ref pos) as [b0|]; auto. destruct (b0 =? base); auto.
    destruct (neighbours ref pos base) as [[n1 n2]|]; auto. destruct (ctx_class n1 n2); auto.
    destruct (Z.eqb_spec cons (conv base)); [congruence|]. destruct (Z.eqb_spec cons base); [congruence|]. reflexivity.
Qed.

Lemma call_dot c ref fs cs k : wf fs = true -> calls c ref fs = OK cs -> In k cs ->
  let base := expected c in
  (up_at ref (k_pos k) <> Some base \/ neighbours ref (k_pos k) base = None \/
   (exists n1 n2, neighbours ref (k_pos k) base = Some (n1, n2) /\ (is_acgt n1 = false \/ is_acgt n2 = false)) \/
   (k_cons k <> conv base /\ k_cons k <> base)) ->
  k_letter k = cDot.
Proof.
  intros Hwf Hc Hk base H. destruct (call_spec _ _ _ _ _ Hwf Hc Hk) as [_ [_ [_ ->]]]. now apply spec_letter_dot.
Qed.

Lemma call_letter_range c ref fs cs k : wf fs = true -> calls c ref fs = OK cs -> In k cs ->
  k_letter k = cDot \/ is_call_letter (k_letter k) = true.
Proof.
  intros Hwf Hc Hk. destruct (call_spec _ _ _ _ _ Hwf Hc Hk) as [_ [_ [_ ->]]]. apply spec_letter_range.
Qed.

Lemma call_safe c ref fs cs k : c_unsafe c = false -> calls c ref fs = OK cs -> In k cs ->
  exists r1 r2 lo hi, In (Some r1, Some r2) fs /\
    ((r_rev r1 = true /\ r_rev r2 = false /\ lo = r_start r2 + c_d2 c /\ hi = r_end r1 - c_d1 c - 1) \/
     (r_rev r1 = false /\ r_rev r2 = true /\ lo = r_start r1 + c_d1 c /\ hi = r_end r2 - c_d2 c - 1)) /\
    lo <= k_pos k <= hi /\
    exists r p, (r = r1 \/ r = r2) /\ In p (r_pairs r) /\ p_pos p = k_pos k /\ p_base p = k_cons k /\
                upper (p_ref p) = expected c /\
                match c_minq c with None => True | Some m => m <= p_qual p end.
Proof.
  intros Hu Hc Hk. destruct (call_supported _ _ _ _ _ Hc Hk) as [f [Hf Hs]].
  destruct (supports_safe _ _ _ _ Hu Hs) as [r1 [r2 [lo [hi [-> H]]]]]. exists r1, r2, lo, hi. split; auto.
Qed.

(* XM: the i-th character is the letter of the dictionary entry at the i-th aligned position, '.' if none *)
Lemma xm_content c ref fs cs r i p : calls c ref fs = OK cs -> nth_error (r_pairs r) i = Some p ->
  (forall k, In k cs -> k_pos k = p_pos p -> nth_error (xm cs r) i = Some (k_letter k)) /\
  ((forall k, In k cs -> k_pos k <> p_pos p) -> nth_error (xm cs r) i = Some cDot).
Proof.
  intros Hc Hp. rewrite (xm_nth cs r i p Hp). split.
  - intros k Hk <-. f_equal. apply letter_at_In; auto. eapply calls_NoDup; eauto.
  - intros H. f_equal. apply letter_at_notin. intros Hin. apply in_map_iff in Hin as [k [E Hk]]. now apply (H k).
Qed.

Lemma totals_partition c ref fs cs : wf fs = true -> calls c ref fs = OK cs ->
  t_MC (tot cs) + t_uC (tot cs) + ncalls cDot cs = Z.of_nat (length cs).
Proof.
  intros Hwf Hc. destruct (tot_spec cs) as [_ [_ [_ [_ [_ [_ [-> ->]]]]]]].
  rewrite <- (ncalls_partition cs); [lia|]. intros k Hk. eapply call_letter_range; eauto.
Qed.

(* ------------------------------------------------------------------ a concrete molecule for the Examples
   reference TCGACCGGNCG (contig of 11), molecule on the forward strand, taps_strand 'F' (calls on C):
   R1 forward over 0..9 reads TTGACCGGA (C1 converted), R2 reverse over 2..11 reads GACCGGACG.  *)
Definition str (l : list Z) := l.
Definition ex_ref : list Z := [84;67;71;65;67;67;71;71;78;67;71].
Fixpoint mk_pairs (start : Z) (seq refs : list Z) (q : Z) : list pair :=
  match seq, refs with
  | b :: seq', r :: refs' => mkPair start b q r :: mk_pairs (start + 1) seq' refs' q
  | _, _ => []
  end.
Definition ex_r1 : read := mkRead false 0 9 true (mk_pairs 0 [84;84;71;65;67;67;71;71;65] [84;99;71;65;67;67;71;71;110] 30).
Definition ex_r2 : read := mkRead true 2 11 true (mk_pairs 2 [71;65;67;67;71;71;65;67;71] [71;65;67;67;71;71;110;67;71] 30).
Definition ex_cfg (cached : bool) : cfg := mkCfg cached (Some false) true false 0 0 None.
Definition ex_frags : list frag := [(Some ex_r1, Some ex_r2)].
Definition ex_cfg_u : cfg := mkCfg false (Some false) true true 0 0 None.     (* allow_unsafe_base_calls *)
Definition ex_r1t : read := mkRead false 0 9 true (mk_pairs 0 [84;84;71;65;67;84;71;71;65] [84;99;71;65;67;99;71;71;110] 30).
Definition ex_ref2 : list Z := [84;84;71;65;67;65;71;71;78;67;65].   (* TTGACAGGNCA *)

(* the model's history entry point (mode 4) is the per-molecule entry point (mode 0) applied to each molecule *)
Lemma run_history v : forallb (fun m => wf (m_frags m)) (map dec_mol (getL v)) = true ->
  run_C14 4 v = VL (map (run_C14 0) (getL v)).
Proof.
  intros H. unfold run_C14 at 1. rewrite H. cbn [negb]. f_equal. rewrite history_stateless.
  induction (getL v) as [|x l IH]; [reflexivity|].
  cbn [map forallb] in H. apply andb_true_iff in H as [Hx Hl].
  cbn [map combine fst snd]. rewrite (IH Hl). f_equal.
  unfold run_C14. cbn [m_frags dec_mol] in Hx. rewrite Hx. reflexivity.
Qed.

(* ------------------------------------------------------------------ histories on ONE molecule object *)
Definition added (ops : list mop) : list frag := flat_map grown ops.
Fixpoint nfin (ops : list mop) : nat :=
  match ops with [] => 0 | MFin _ :: t => S (nfin t) | _ :: t => nfin t end.

Lemma mol_history_frags ref : forall ops st, ms_frags (fst (mol_history ref st ops)) = ms_frags st ++ added ops.
Proof.
  induction ops as [|o ops IH]; intros st; cbn [mol_history added flat_map]; [now rewrite app_nil_r|].
  destruct (mstep ref st o) as [st' out] eqn:E.
  specialize (IH st'). destruct (mol_history ref st' ops) as [st'' outs]. cbn [fst] in *. rewrite IH.
  fold (added ops). destruct o; cbn [mstep grown] in E; injection E as <- <-; cbn [ms_frags grown];
    now rewrite ?app_assoc, ?app_nil_r.
Qed.

Lemma mol_history_outputs_len ref : forall ops st, length (snd (mol_history ref st ops)) = nfin ops.
Proof.
  induction ops as [|o ops IH]; intros st; cbn [mol_history nfin]; [reflexivity|].
  destruct (mstep ref st o) as [st' out] eqn:E. specialize (IH st').
  destruct (mol_history ref st' ops) as [st'' outs]. cbn [snd] in *. rewrite app_length, IH.
  destruct o; cbn [mstep] in E; injection E as <- <-; reflexivity.
Qed.

(* every finalise answers with the calls computed from ALL fragments held at that moment, however they arrived
   (add_fragment / add_molecule / _add_fragment) and whatever was finalised before *)
Lemma mol_history_fin ref : forall pre st c post,
  nth_error (snd (mol_history ref st (pre ++ MFin c :: post))) (nfin pre) =
  Some (ms_frags st ++ added pre, calls c ref (ms_frags st ++ added pre)).
Proof.
  induction pre as [|o pre IH]; intros st c post.
  - cbn [app mol_history mstep nfin added flat_map]. rewrite app_nil_r.
    destruct (mol_history ref _ post) as [st'' outs]. reflexivity.
  - cbn [app mol_history]. destruct (mstep ref st o) as [st' out] eqn:E.
    specialize (IH st' c post). destruct (mol_history ref st' (pre ++ MFin c :: post)) as [st'' outs].
    cbn [snd] in *. cbn [added flat_map]. fold (added pre).
    destruct o; cbn [mstep grown] in E; injection E as <- <-; cbn [ms_frags grown nfin app] in *;
      rewrite ?app_assoc, ?app_nil_r in *; exact IH.
Qed.

(* ... and methylation_call_dict holds exactly that answer after a finalise that did not raise *)
Lemma mol_history_dict ref pre st c cs :
  calls c ref (ms_frags st ++ added pre) = OK cs ->
  ms_dict (fst (mol_history ref st (pre ++ [MFin c]))) = Some cs.
Proof.
  revert st. induction pre as [|o pre IH]; intros st H.
  - cbn [app mol_history mstep added flat_map] in *. rewrite app_nil_r in H. rewrite H. reflexivity.
  - cbn [app mol_history]. destruct (mstep ref st o) as [st' out] eqn:E.
    specialize (IH st'). destruct (mol_history ref st' (pre ++ [MFin c])) as [st'' outs]. cbn [fst] in *.
    apply IH. cbn [added flat_map] in H. fold (added pre) in H.
    destruct o; cbn [mstep grown] in E; injection E as <- <-; cbn [ms_frags grown] in *;
      rewrite ?app_assoc, ?app_nil_r in *; exact H.
Qed.
