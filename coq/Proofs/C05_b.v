(* C05 proofs, part b: Fragment construction, the molecule-iterator contract and a concrete iterator
   that meets it, fetch partition *)
From Coq Require Import ZArith List Bool Lia ZifyBool Permutation.
Import ListNotations.
From SCMO Require Import Lib.Val Model.C05 Proofs.C05_a.
Open Scope Z_scope.

Lemma perm_flat_map {A B} (g : A -> list B) (l l' : list A) :
  Permutation l l' -> Permutation (flat_map g l) (flat_map g l').
Proof.
  induction 1 as [|x l l' H IH|x y l|l l' l'' H1 IH1 H2 IH2]; cbn [flat_map].
  - constructor.
  - apply Permutation_app_head. exact IH.
  - rewrite !app_assoc. apply Permutation_app_tail. apply Permutation_app_comm.
  - eapply Permutation_trans; eassumption.
Qed.

Lemma flat_map_map' {A B C} (g : A -> B) (f : B -> list C) (l : list A) :
  flat_map f (map g l) = flat_map (fun a => f (g a)) l.
Proof. induction l as [|a l IH]; cbn [map flat_map]; [reflexivity|]. rewrite IH. reflexivity. Qed.

Lemma flat_map_concat' {A B} (f : A -> list B) (ls : list (list A)) :
  flat_map f (concat ls) = flat_map (flat_map f) ls.
Proof. induction ls as [|l ls IH]; cbn [concat flat_map]; [reflexivity|]. rewrite flat_map_app, IH. reflexivity. Qed.

(* ---------------------------------------------------------------- Fragment.__init__ *)
Lemma mkfrag_slotted p f : mkfrag p = Ok f -> frag_recs f = slotted p.
Proof.
  destruct p as [[a|] [b|]]; cbn [mkfrag]; unfold slotted; cbn [fst snd option_map opt_list app].
  - destruct (r_read2 a && negb (r_qcfail a)); [discriminate|]. intros H. inversion H. reflexivity.
  - destruct (r_read2 a && negb (r_qcfail a)); [discriminate|]. intros H. inversion H. reflexivity.
  - intros H. inversion H. reflexivity.
  - intros H. inversion H. reflexivity.
Qed.

Lemma mapM_mkfrag_recs : forall ps fs, mapM mkfrag ps = Ok fs -> flat_map frag_recs fs = flat_map slotted ps.
Proof.
  intros ps fs H. apply mapM_Ok in H. induction H as [|p f ps fs Hp _ IH]; [reflexivity|].
  cbn [flat_map]. rewrite (mkfrag_slotted _ _ Hp), IH. reflexivity.
Qed.

(* ---------------------------------------------------------------- the contract of the molecule iterator *)
(* every fragment handed to the iterator is either in exactly one emitted molecule or deleted; a fragment
   is deleted only when it is invalid and yield_invalid is off, or it overflowed a full molecule and
   yield_overflow is off; with yield_invalid off no invalid fragment is emitted.
   (C07 proves emit-exactly-once for the real ejection machine; here the contract is a hypothesis that the
   simple iterator below satisfies.) *)
Definition iter_contract (valid : frag -> bool)
  (it : bool -> bool -> list frag -> list (list frag) * list frag) : Prop :=
  forall yi yo fs,
    Permutation (concat (fst (it yi yo fs)) ++ snd (it yi yo fs)) fs /\
    (forall f, In f (snd (it yi yo fs)) -> (valid f = false /\ yi = false) \/ (valid f = true /\ yo = false)) /\
    (yi = false -> forall f, In f (concat (fst (it yi yo fs))) -> valid f = true).

Lemma contract_default valid it fs :
  iter_contract valid it -> Permutation (concat (fst (it true true fs))) fs.
Proof.
  intros H. destruct (H true true fs) as (HP & HD & _).
  destruct (snd (it true true fs)) as [|f d] eqn:E.
  - rewrite app_nil_r in HP. exact HP.
  - exfalso. destruct (HD f (or_introl eq_refl)) as [[_ Hx]|[_ Hx]]; discriminate.
Qed.

Lemma contract_no_rejects valid it fs :
  iter_contract valid it -> Permutation (concat (fst (it false true fs))) (filter valid fs).
Proof.
  intros H. destruct (H false true fs) as (HP & HD & HE).
  apply (Permutation_filter valid) in HP. rewrite filter_app in HP.
  rewrite (filter_all valid (concat _)) in HP by (apply HE; reflexivity).
  rewrite (filter_none valid (snd _)) in HP.
  - rewrite app_nil_r in HP. exact HP.
  - intros f Hf. destruct (HD f Hf) as [[Hx _]|[_ Hx]]; [exact Hx|discriminate].
Qed.

(* ---------------------------------------------------------------- the simple iterator meets the contract *)
Lemma add_frag_perm cap k f : forall ms ms',
  add_frag cap k f ms = Added ms' -> Permutation (concat (map snd ms')) (f :: concat (map snd ms)).
Proof.
  induction ms as [|[k' fs] ms IH]; intros ms' H; cbn [add_frag] in H.
  - inversion H. apply Permutation_refl.
  - assert (Hhere : Permutation (concat (map snd ((k', fs ++ [f]) :: ms))) (f :: concat (map snd ((k', fs) :: ms)))).
    { cbn [map snd concat]. rewrite <- app_assoc. cbn [app]. apply Permutation_sym, Permutation_middle. }
    destruct (k =? k').
    + destruct cap as [n|].
      * destruct (Nat.leb n (length fs)); [discriminate|]. inversion H; subst. exact Hhere.
      * inversion H; subst. exact Hhere.
    + destruct (add_frag cap k f ms) as [m|] eqn:E; [|discriminate]. inversion H; subst.
      cbn [map snd concat]. eapply Permutation_trans; [apply Permutation_app_head, (IH m eq_refl)|].
      apply Permutation_sym, Permutation_middle.
Qed.

Section SimpleIterProof.
  Variable valid : frag -> bool.
  Variable mkey : frag -> Z.
  Variable cap : option nat.
  Variable every : bool.
  Variables yi yo : bool.

  Let loop := iter_loop valid mkey cap every yi yo.

  Definition reason (f : frag) : Prop := (valid f = false /\ yi = false) \/ (valid f = true /\ yo = false).

  Lemma loop_cons f fs ms :
    loop (f :: fs) ms =
      if negb (valid f) then
        (if yi then ([f] :: fst (loop fs ms), snd (loop fs ms)) else (fst (loop fs ms), f :: snd (loop fs ms)))
      else if every then ([f] :: fst (loop fs ms), snd (loop fs ms))
      else match add_frag cap (mkey f) f ms with
           | Added ms' => loop fs ms'
           | Overflow =>
               if yo then ([f] :: fst (loop fs ms), snd (loop fs ms)) else (fst (loop fs ms), f :: snd (loop fs ms))
           end.
  Proof. reflexivity. Qed.

  Lemma iter_loop_spec : forall fs ms,
    Permutation (concat (fst (loop fs ms)) ++ snd (loop fs ms)) (concat (map snd ms) ++ fs) /\
    (forall f, In f (snd (loop fs ms)) -> reason f) /\
    (yi = false -> (forall f, In f (concat (map snd ms)) -> valid f = true) ->
     forall f, In f (concat (fst (loop fs ms))) -> valid f = true).
  Proof.
    induction fs as [|f fs IH]; intros ms.
    - unfold loop. cbn [iter_loop fst snd]. rewrite !app_nil_r. repeat split.
      + apply Permutation_refl.
      + intros f [].
      + intros _ H. exact H.
    - rewrite loop_cons.
      destruct (IH ms) as (IHP & IHD & IHE).
      (* the two recurring shapes: f emitted as a singleton molecule / f deleted *)
      assert (Hemit : Permutation (concat ([f] :: fst (loop fs ms)) ++ snd (loop fs ms)) (concat (map snd ms) ++ f :: fs)).
      { cbn [concat app]. eapply Permutation_trans; [constructor; exact IHP|]. apply Permutation_middle. }
      assert (Hdel : Permutation (concat (fst (loop fs ms)) ++ f :: snd (loop fs ms)) (concat (map snd ms) ++ f :: fs)).
      { eapply Permutation_trans; [apply Permutation_sym, Permutation_middle|].
        eapply Permutation_trans; [constructor; exact IHP|]. apply Permutation_middle. }
      destruct (valid f) eqn:Ev; cbn [negb].
      + destruct every.
        * cbn [fst snd]. repeat split; [exact Hemit|exact IHD|].
          intros Hy Hms x Hx. cbn [concat] in Hx. apply in_app_or in Hx. destruct Hx as [[<-|[]]|Hx]; [exact Ev|].
          exact (IHE Hy Hms x Hx).
        * destruct (add_frag cap (mkey f) f ms) as [ms'|] eqn:Ea.
          -- destruct (IH ms') as (IHP' & IHD' & IHE'). repeat split.
             ++ eapply Permutation_trans; [exact IHP'|].
                eapply Permutation_trans; [apply Permutation_app_tail, (add_frag_perm _ _ _ _ _ Ea)|].
                cbn [app]. apply Permutation_middle.
             ++ exact IHD'.
             ++ intros Hy Hms. apply (IHE' Hy). intros x Hx.
                apply (Permutation_in _ (add_frag_perm _ _ _ _ _ Ea)) in Hx. destruct Hx as [<-|Hx]; [exact Ev|].
                exact (Hms x Hx).
          -- destruct yo eqn:Eyo; cbn [fst snd]; repeat split.
             ++ exact Hemit.
             ++ exact IHD.
             ++ intros Hy Hms x Hx. cbn [concat] in Hx. apply in_app_or in Hx.
                destruct Hx as [[<-|[]]|Hx]; [exact Ev|]. exact (IHE Hy Hms x Hx).
             ++ exact Hdel.
             ++ intros x [<-|Hx]; [right; split; [exact Ev|exact Eyo]|exact (IHD x Hx)].
             ++ exact IHE.
      + destruct yi eqn:Eyi; cbn [fst snd]; repeat split.
        * exact Hemit.
        * exact IHD.
        * intros Hy. discriminate Hy.
        * exact Hdel.
        * intros x [<-|Hx]; [left; split; [exact Ev|exact Eyi]|exact (IHD x Hx)].
        * exact IHE.
  Qed.
End SimpleIterProof.

Lemma simple_iter_contract valid mkey cap every : iter_contract valid (simple_iter valid mkey cap every).
Proof.
  intros yi yo fs. unfold simple_iter.
  destruct (iter_loop_spec valid mkey cap every yi yo fs []) as (HP & HD & HE).
  cbn [map concat app] in HP. repeat split.
  - exact HP.
  - exact HD.
  - intros Hy. apply (HE Hy). intros f [].
Qed.

(* ---------------------------------------------------------------- fetch partitions the file *)
Lemma cname_eqb_eq a b : cname_eqb a b = true <-> a = b.
Proof.
  destruct a as [x|], b as [y|]; cbn [cname_eqb]; try (split; [discriminate|congruence]).
  - rewrite Z.eqb_eq. split; congruence.
  - split; reflexivity.
Qed.

Lemma cname_eqb_refl a : cname_eqb a a = true.
Proof. apply cname_eqb_eq. reflexivity. Qed.

Definition on_any (cs : list cname) (r : rec) : bool := existsb (cname_eqb (r_contig r)) cs.

Lemma fetch_union (recs : list rec) : forall cs, NoDup cs ->
  Permutation (flat_map (fun c => fetch c recs) cs) (filter (on_any cs) recs).
Proof.
  induction cs as [|c cs IH]; intros Hnd; cbn [flat_map].
  - rewrite filter_none; [constructor|]. reflexivity.
  - inversion Hnd as [|x xs Hn Hd]; subst.
    eapply Permutation_trans; [apply Permutation_app_head, IH, Hd|].
    unfold fetch at 1.
    eapply Permutation_trans; [apply filter_or_perm|].
    + intros r _ Hc. apply cname_eqb_eq in Hc. subst c.
      unfold on_any. destruct (existsb (cname_eqb (r_contig r)) cs) eqn:E; [|reflexivity].
      apply existsb_exists in E. destruct E as (y & Hy & Hey). apply cname_eqb_eq in Hey. subst y. contradiction.
    + apply Permutation_refl.
Qed.

Lemma fetch_cover (recs : list rec) cs :
  NoDup cs -> (forall r, In r recs -> In (r_contig r) cs) ->
  Permutation (flat_map (fun c => fetch c recs) cs) recs.
Proof.
  intros Hnd Hall. eapply Permutation_trans; [apply fetch_union, Hnd|].
  rewrite filter_all; [apply Permutation_refl|].
  intros r Hr. unfold on_any. apply existsb_exists. exists (r_contig r). split; [apply Hall, Hr|apply cname_eqb_refl].
Qed.

Lemma NoDup_Some (l : list Z) : NoDup l -> NoDup (None :: map (@Some Z) l).
Proof.
  intros H. constructor.
  - intros Hin. apply in_map_iff in Hin. destruct Hin as (x & Hx & _). discriminate.
  - apply FinFun.Injective_map_NoDup; [|exact H]. intros x y Hxy. congruence.
Qed.

Lemma placed_in_In names r : placed_in names r = true -> In (r_contig r) (None :: map (@Some Z) names).
Proof.
  unfold placed_in. destruct (r_contig r) as [c|]; [|left; reflexivity].
  intros H. right. apply existsb_exists in H. destruct H as (x & Hx & He). apply Z.eqb_eq in He. subst x.
  apply in_map. exact Hx.
Qed.

(* single process: the unplaced stream and the whole-file stream together are the file *)
Lemma fetch_single names recs :
  NoDup names -> (forall r, In r recs -> placed_in names r = true) ->
  Permutation (fetch None recs ++ fetch_all names recs) recs.
Proof.
  intros Hnd Hpl.
  replace (fetch None recs ++ fetch_all names recs)
    with (flat_map (fun c => fetch c recs) (None :: map (@Some Z) names)).
  - apply fetch_cover; [apply NoDup_Some, Hnd|]. intros r Hr. apply placed_in_In, Hpl, Hr.
  - cbn [flat_map]. f_equal. unfold fetch_all. apply flat_map_map'.
Qed.

(* contig per process: the job list covers the unplaced bin and every contig that has reads *)
Definition has_reads (recs : list rec) (cl : Z * Z) : bool :=
  existsb (fun r => cname_eqb (r_contig r) (Some (fst cl))) recs.

Lemma cwr_names hdr recs :
  filter nonstar (map fst (contigs_with_reads hdr recs)) = map (@Some Z) (map fst (filter (has_reads recs) hdr)).
Proof.
  unfold contigs_with_reads. rewrite map_app, filter_app.
  fold (has_reads recs).
  assert (Hstar : forall l : list (cname * Z), (l = [(None, 0)] \/ l = []) -> filter nonstar (map fst l) = []).
  { intros l [->| ->]; reflexivity. }
  rewrite (Hstar (if existsb _ recs then _ else _)) by (destruct (existsb _ recs); auto).
  rewrite app_nil_r, !map_map. cbn [fst].
  induction (filter (has_reads recs) hdr) as [|cl l IH]; cbn [map filter]; [reflexivity|].
  unfold nonstar at 1. cbn [is_star negb]. f_equal. exact IH.
Qed.

Lemma fetch_jobs hdr recs :
  NoDup (map fst hdr) -> (forall r, In r recs -> placed_in (map fst hdr) r = true) ->
  Permutation (flat_map (fun c => fetch c recs) (concat (contig_jobs (contigs_with_reads hdr recs)))) recs.
Proof.
  intros Hnd Hpl. rewrite contig_jobs_concat, cwr_names.
  apply fetch_cover.
  - apply NoDup_Some. apply NoDup_map_filter. exact Hnd.
  - intros r Hr. assert (Hp := Hpl r Hr). unfold placed_in in Hp.
    destruct (r_contig r) as [c|] eqn:Ec; [|left; reflexivity].
    right. apply in_map. apply existsb_exists in Hp. destruct Hp as (x & Hx & He). apply Z.eqb_eq in He. subst x.
    apply in_map_iff in Hx. destruct Hx as ([c' len] & Hc' & Hin). cbn [fst] in Hc'. subst c'.
    apply in_map_iff. exists (c, len). split; [reflexivity|].
    apply filter_In. split; [exact Hin|].
    unfold has_reads. apply existsb_exists. exists r. split; [exact Hr|]. cbn [fst]. rewrite Ec. apply cname_eqb_refl.
Qed.

(* ---------------------------------------------------------------- read groups *)
Lemma In_dedupZ x : forall l, In x (dedupZ l) <-> In x l.
Proof.
  induction l as [|a l IH]; cbn [dedupZ]; [tauto|].
  split.
  - intros [H|H]; [left; exact H|]. apply filter_In in H. right. apply IH. tauto.
  - intros [H|H]; [left; exact H|].
    destruct (Z.eq_dec a x) as [E|E]; [left; exact E|]. right.
    apply filter_In. split; [apply IH, H|]. apply negb_true_iff, Z.eqb_neq. exact E.
Qed.

Lemma write_fst ms : map fst (write ms) = flat_map frag_recs (concat ms).
Proof.
  unfold write. rewrite map_flat_map. apply flat_map_ext. intros f.
  unfold frag_out. rewrite map_map. cbn [fst]. apply map_id.
Qed.

Lemma write_app a b : write (a ++ b) = write a ++ write b.
Proof. unfold write. rewrite concat_app, flat_map_app. reflexivity. Qed.

Lemma write_concat mss : write (concat mss) = flat_map write mss.
Proof.
  induction mss as [|ms mss IH]; cbn [concat flat_map]; [reflexivity|].
  rewrite write_app, IH. reflexivity.
Qed.

Lemma write_rg ms r g : In (r, g) (write ms) -> In g (dedupZ (rg_dict ms)).
Proof.
  unfold write, rg_dict. intros H. apply in_flat_map in H. destruct H as (f & Hf & Hin).
  unfold frag_out in Hin. apply in_map_iff in Hin. destruct Hin as (x & Hx & _). inversion Hx; subst.
  apply In_dedupZ. apply in_map. exact Hf.
Qed.
