(* C15 proofs, part c: the base call is the arg-max of the exact likelihoods. *)
From Coq Require Import ZArith List Bool Lia QArith Permutation.
Import ListNotations.
From SCMO Require Import Lib.Val Lib.PyInt Model.C15 Proofs.C15_g.
Open Scope Q_scope.

Lemma bool_iff (b1 b2 : bool) : (b1 = true <-> b2 = true) -> b1 = b2.
Proof. destruct b1, b2; intuition congruence. Qed.

(* ------------------------------------------------------------------ most_common *)
Definition entry := (Z * Q)%type.

Fixpoint desc (l : list entry) : Prop :=
  match l with
  | [] => True
  | x :: t => (forall y, In y t -> snd y <= snd x) /\ desc t
  end.

Lemma mc_insert_perm x l : Permutation (mc_insert x l) (x :: l).
Proof.
  induction l as [|y t IH]; cbn [mc_insert]; [reflexivity|].
  destruct (Qle_bool (snd y) (snd x)); [reflexivity|].
  rewrite IH. apply perm_swap.
Qed.

Lemma mc_insert_desc x l : desc l -> desc (mc_insert x l).
Proof.
  induction l as [|y t IH]; intros H; cbn [mc_insert].
  - cbn. split; [intros ? []|exact I].
  - destruct H as [Hy Ht]. destruct (Qle_bool (snd y) (snd x)) eqn:E.
    + apply Qle_bool_iff in E. cbn [desc]. split; [|split; assumption].
      intros z [<-|Hz]; [assumption|]. eapply Qle_trans; [apply Hy; assumption|assumption].
    + assert (Hlt : snd x < snd y).
      { apply Qnot_le_lt. intros Hle. apply Qle_bool_iff in Hle. congruence. }
      cbn [desc]. split; [|apply IH; assumption].
      intros z Hz. apply (Permutation_in _ (mc_insert_perm x t)) in Hz.
      destruct Hz as [<-|Hz]; [apply Qlt_le_weak; assumption|apply Hy; assumption].
Qed.

Lemma most_common_perm l : Permutation (most_common l) l.
Proof.
  induction l as [|x t IH]; cbn [most_common fold_right]; [reflexivity|].
  fold (most_common t). rewrite mc_insert_perm. now constructor.
Qed.

Lemma most_common_desc l : desc (most_common l).
Proof.
  induction l as [|x t IH]; cbn [most_common fold_right]; [exact I|].
  fold (most_common t). now apply mc_insert_desc.
Qed.

(* the decision of phredscores_to_base_call on a ranked list *)
Definition call_of (l : list entry) : Z * Q :=
  match most_common l with
  | [] => (baseN, 0)
  | [(b, p)] => (b, p)
  | (b, p) :: (_, p2) :: _ => if Qeq_bool p p2 then (baseN, 0) else (b, p)
  end.

(* arg-max: either one entry is strictly above all others and is returned, or the two best
   are equal and the answer is ('N', 0) *)
Definition unique_max (l : list entry) (b : Z) (p : Q) : Prop :=
  exists rest, Permutation l ((b, p) :: rest) /\ forall e, In e rest -> snd e < p.
Definition tied_max (l : list entry) : Prop :=
  exists e1 e2 rest, Permutation l (e1 :: e2 :: rest) /\ snd e1 == snd e2 /\
                     forall e, In e rest -> snd e <= snd e1.

Lemma call_of_spec l :
  (l = [] /\ call_of l = (baseN, 0)) \/
  (exists b p, unique_max l b p /\ call_of l = (b, p)) \/
  (tied_max l /\ call_of l = (baseN, 0)).
Proof.
  unfold call_of. pose proof (most_common_perm l) as Hp. pose proof (most_common_desc l) as Hd.
  destruct (most_common l) as [|[b p] [|[b2 p2] rest]].
  - left. split; [|reflexivity]. apply Permutation_nil. assumption.
  - right. left. exists b, p. split; [|reflexivity]. exists []. split; [now symmetry|intros ? []].
  - destruct Hd as [H1 [H2 _]]. right. destruct (Qeq_bool p p2) eqn:E.
    + right. split; [|reflexivity]. apply Qeq_bool_iff in E.
      exists (b, p), (b2, p2), rest. split; [now symmetry|]. split; [assumption|].
      intros e He. apply H1. now right.
    + left. exists b, p. split; [|reflexivity]. exists ((b2, p2) :: rest). split; [now symmetry|].
      assert (Hlt : p2 < p).
      { pose proof (H1 (b2, p2) (or_introl eq_refl)) as Hle. cbn [snd] in Hle.
        apply Qle_lteq in Hle. destruct Hle as [Hlt|Heq]; [assumption|].
        symmetry in Heq. apply Qeq_bool_iff in Heq. congruence. }
      intros e [<-|He]; [assumption|]. cbn [snd].
      eapply Qle_lt_trans; [apply H2; assumption|assumption].
Qed.

(* ------------------------------------------------------------------ normalisation does not change the ranking *)
Section Scale.
  Variable t : Q.
  Hypothesis Ht : 0 < t.
  Definition sc (kv : entry) : entry := (fst kv, snd kv / t).

  Lemma div_le a b : Qle_bool (a / t) (b / t) = Qle_bool a b.
  Proof.
    apply bool_iff. rewrite !Qle_bool_iff. unfold Qdiv.
    apply Qmult_le_r. now apply Qinv_lt_0_compat.
  Qed.

  Lemma div_eq a b : Qeq_bool (a / t) (b / t) = Qeq_bool a b.
  Proof.
    apply bool_iff. rewrite !Qeq_bool_iff. unfold Qdiv. split; intros H.
    - apply Qmult_inj_r in H; [assumption|].
      intros Hz. pose proof (Qinv_lt_0_compat t Ht) as Hi. rewrite Hz in Hi. now apply Qlt_irrefl in Hi.
    - now rewrite H.
  Qed.

  Lemma mc_insert_sc x l : mc_insert (sc x) (map sc l) = map sc (mc_insert x l).
  Proof.
    induction l as [|y l IH]; cbn [map mc_insert]; [reflexivity|].
    unfold sc at 1 2. cbn [snd]. rewrite div_le.
    destruct (Qle_bool (snd y) (snd x)); cbn [map]; [reflexivity|]. now rewrite IH.
  Qed.

  Lemma most_common_sc l : most_common (map sc l) = map sc (most_common l).
  Proof.
    induction l as [|x l IH]; cbn [map most_common fold_right]; [reflexivity|].
    fold (most_common (map sc l)). fold (most_common l). rewrite IH. apply mc_insert_sc.
  Qed.
End Scale.

(* ------------------------------------------------------------------ likelihoods are non-negative, N's is positive *)
Section Range.
  Variable pc : Z -> Q.
  Hypothesis Hpc : forall q, 0 <= pc q /\ pc q < 1.

  Definition in01 (p : Q) : Prop := 0 <= p /\ p < 1.

  Lemma dict_add_vals b p d : in01 p -> Forall (fun kv => Forall in01 (snd kv)) d ->
    Forall (fun kv => Forall in01 (snd kv)) (dict_add b p d).
  Proof.
    intros Hp. induction d as [|[k v] d IH]; intros H; cbn [dict_add].
    - constructor; [|constructor]. cbn. constructor; [assumption|constructor].
    - inversion H as [|? ? Hv Hd]; subst. destruct (Z.eqb k b).
      + constructor; [|assumption]. cbn [snd] in *. apply Forall_app. split; [assumption|].
        constructor; [assumption|constructor].
      + constructor; [assumption|]. apply IH. assumption.
  Qed.

  Lemma conf_dict_vals os : Forall (fun kv => Forall in01 (snd kv)) (conf_dict pc os).
  Proof.
    unfold conf_dict.
    assert (G : forall d, Forall (fun kv => Forall in01 (snd kv)) d ->
              Forall (fun kv => Forall in01 (snd kv))
                (fold_left (fun d o => dict_add (fst o) (pc (snd o)) d) os d)).
    { induction os as [|o os IH]; intros d Hd; cbn [fold_left]; [assumption|].
      apply IH. apply dict_add_vals; [apply Hpc|assumption]. }
    apply G. constructor.
  Qed.

  Lemma one_minus_pos v : Forall in01 v -> Forall (fun p => 0 < p) (map (fun p => 1 - p) v).
  Proof.
    induction v as [|p v IHv]; intros Hv; cbn [map]; [constructor|].
    inversion Hv as [|? ? [_ Hp] Hv']; subst. constructor; [|apply IHv; assumption].
    rewrite <- (Qplus_opp_r p). unfold Qminus. apply Qplus_lt_l. assumption.
  Qed.

  Lemma n_probs_vals d : Forall (fun kv => Forall in01 (snd kv)) d ->
    Forall (fun p => 0 < p) (n_probs d).
  Proof.
    induction d as [|[k v] d IH]; intros H; unfold n_probs; cbn [flat_map]; [constructor|].
    inversion H as [|? ? Hv Hd]; subst. apply Forall_app. split; [|apply IH; assumption].
    cbn [fst snd] in *. destruct (Z.eqb k baseN); [constructor|]. apply one_minus_pos. assumption.
  Qed.

  Lemma scale4_pos n : 0 < scale4 n.
  Proof.
    destruct n as [|k]; cbn [scale4]; [reflexivity|].
    replace 0 with (inject_Z 0) by reflexivity. rewrite <- Zlt_Qlt. apply Z.pow_pos_nonneg; lia.
  Qed.

  Lemma qprod_acc_nonneg : forall v a, 0 <= a -> Forall (fun p => 0 <= p) v -> 0 <= fold_left Qmult v a.
  Proof.
    induction v as [|p v IH]; intros a Ha Hv; cbn [fold_left]; [assumption|].
    inversion Hv; subst. apply IH; [|assumption]. now apply Qmult_le_0_compat.
  Qed.

  Lemma qprod_acc_pos : forall v a, 0 < a -> Forall (fun p => 0 < p) v -> 0 < fold_left Qmult v a.
  Proof.
    induction v as [|p v IH]; intros a Ha Hv; cbn [fold_left]; [assumption|].
    inversion Hv; subst. apply IH; [|assumption]. now apply Qmult_lt_0_compat.
  Qed.

  Lemma lik_nonneg v : Forall in01 v -> 0 <= lik v.
  Proof.
    intros H. unfold lik, qprod. apply Qmult_le_0_compat.
    - apply qprod_acc_nonneg; [discriminate|]. eapply Forall_impl; [|exact H]. intros p [Hp _]. exact Hp.
    - apply Qlt_le_weak, scale4_pos.
  Qed.

  Lemma lik_pos v : Forall (fun p => 0 < p) v -> 0 < lik v.
  Proof.
    intros H. unfold lik, qprod. apply Qmult_lt_0_compat.
    - apply qprod_acc_pos; [reflexivity|assumption].
    - apply scale4_pos.
  Qed.

  Lemma liks_nonneg d : Forall (fun kv => Forall in01 (snd kv)) d ->
    Forall (fun e : entry => 0 <= snd e) (map (fun kv => (fst kv, lik (snd kv))) d).
  Proof.
    induction d as [|[k w] d IH]; intros H; cbn [map]; [constructor|].
    inversion H; subst. constructor; [cbn [snd]; apply lik_nonneg; assumption|apply IH; assumption].
  Qed.

  (* after probs['N'] = ..., every value is >= 0 and the N entry is > 0 *)
  Lemma dict_set_liks d v : Forall (fun kv => Forall in01 (snd kv)) d -> Forall (fun p => 0 < p) v ->
    let l := map (fun kv => (fst kv, lik (snd kv))) (dict_set baseN v d) in
    Forall (fun e => 0 <= snd e) l /\ Exists (fun e => 0 < snd e) l.
  Proof.
    intros Hd Hv. induction d as [|[k w] d IH]; cbn [dict_set map].
    - split; [constructor; [|constructor]|constructor]; cbn [snd fst].
      + apply Qlt_le_weak, lik_pos; assumption.
      + apply lik_pos; assumption.
    - inversion Hd as [|? ? Hw Hd']; subst. destruct (Z.eqb k baseN); cbn [map fst snd].
      + split.
        * constructor; [apply Qlt_le_weak, lik_pos; assumption|apply liks_nonneg; assumption].
        * constructor. apply lik_pos; assumption.
      + destruct (IH Hd') as [I1 I2]. split.
        * constructor; [apply lik_nonneg; assumption|assumption].
        * apply Exists_cons_tl. assumption.
  Qed.

  Lemma qsum_acc : forall l a, 0 <= a -> Forall (fun x => 0 <= x) l ->
    a <= fold_left Qplus l a.
  Proof.
    induction l as [|x l IH]; intros a Ha Hl; cbn [fold_left]; [apply Qle_refl|].
    inversion Hl; subst. eapply Qle_trans; [|apply IH].
    - rewrite <- (Qplus_0_r a) at 1. apply Qplus_le_r. assumption.
    - rewrite <- (Qplus_0_r 0). apply Qplus_le_compat; assumption.
    - assumption.
  Qed.

  Lemma qsum_pos : forall l a, 0 <= a -> Forall (fun x => 0 <= x) l -> Exists (fun x => 0 < x) l ->
    0 < fold_left Qplus l a.
  Proof.
    induction l as [|x l IH]; intros a Ha Hl He; [inversion He|]. cbn [fold_left].
    inversion Hl as [|? ? Hx Hl']; subst. inversion He as [? ? Hpos|? ? He']; subst.
    - eapply Qlt_le_trans; [|apply qsum_acc].
      + rewrite <- (Qplus_0_l 0), (Qplus_comm a x). apply Qplus_lt_le_compat; assumption.
      + rewrite <- (Qplus_0_r 0). apply Qplus_le_compat; assumption.
      + assumption.
    - apply IH; [|assumption|assumption].
      rewrite <- (Qplus_0_r 0). apply Qplus_le_compat; assumption.
  Qed.

  Lemma total_pos os : 0 < qsum (map snd (likelihoods pc os)).
  Proof.
    unfold likelihoods, qsum.
    destruct (dict_set_liks (conf_dict pc os) (n_probs (conf_dict pc os))
                (conf_dict_vals os) (n_probs_vals _ (conf_dict_vals os))) as [H1 H2].
    cbn zeta in *. apply qsum_pos; [apply Qle_refl| |].
    - apply Forall_forall. intros x Hx. apply in_map_iff in Hx. destruct Hx as (e & <- & He).
      rewrite Forall_forall in H1. apply H1. assumption.
    - apply Exists_exists in H2. destruct H2 as (e & He & Hpos).
      apply Exists_exists. exists (snd e). split; [apply in_map; assumption|assumption].
  Qed.

  (* phredscores_to_base_call decides on the likelihoods themselves; the probability it reports
     is the winner's share of the total *)
  Lemma call_is_call_of os :
    fst (call pc os) = fst (call_of (likelihoods pc os)) /\
    snd (call pc os) == snd (call_of (likelihoods pc os)) / qsum (map snd (likelihoods pc os)).
  Proof.
    pose proof (total_pos os) as Ht.
    unfold call. rewrite decide_spec. unfold base_probs, call_of.
    change (fun kv : Z * Q => (fst kv, snd kv / qsum (map snd (likelihoods pc os))))
      with (sc (qsum (map snd (likelihoods pc os)))).
    rewrite (most_common_sc _ Ht).
    destruct (most_common (likelihoods pc os)) as [|[b p] [|[b2 p2] rest]]; cbn [map sc fst snd].
    - split; [reflexivity|]. unfold Qdiv. now rewrite Qmult_0_l.
    - split; reflexivity.
    - rewrite (div_eq _ Ht). destruct (Qeq_bool p p2); cbn [fst snd].
      + split; [reflexivity|]. unfold Qdiv. now rewrite Qmult_0_l.
      + split; reflexivity.
  Qed.

  Lemma call_fast_correct os : fst (call_fast pc os) = fst (call pc os).
  Proof.
    destruct (call_is_call_of os) as [H _]. rewrite H, call_fast_spec. unfold call_of.
    destruct (most_common (likelihoods pc os)) as [|[b p] [|[b2 p2] rest]]; [reflexivity|reflexivity|].
    destruct (Qeq_bool p p2); reflexivity.
  Qed.

  (* arg-max theorem for the call: over the likelihood table of the column *)
  Lemma call_argmax os :
    let l := likelihoods pc os in
    (exists p, unique_max l (fst (call pc os)) p) \/ (tied_max l /\ fst (call pc os) = baseN).
  Proof.
    cbn zeta. destruct (call_is_call_of os) as [H _]. rewrite H.
    destruct (call_of_spec (likelihoods pc os)) as [[Hnil _]|[(b & p & Hu & Hc)|[Ht Hc]]].
    - exfalso. pose proof (total_pos os) as Hpos. rewrite Hnil in Hpos. cbn in Hpos. discriminate.
    - left. exists p. rewrite Hc. assumption.
    - right. rewrite Hc. split; [assumption|reflexivity].
  Qed.
End Range.
