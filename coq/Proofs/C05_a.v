(* C05 proofs, part a: list/permutation toolkit, the job list, the mate-pairing cache *)
From Coq Require Import ZArith List Bool Lia ZifyBool Permutation.
Import ListNotations.
From SCMO Require Import Lib.Val Model.C05.
Open Scope Z_scope.

(* ---------------------------------------------------------------- toolkit *)
Lemma Permutation_filter {A} (f : A -> bool) (l l' : list A) :
  Permutation l l' -> Permutation (filter f l) (filter f l').
Proof.
  induction 1 as [|x l l' H IH|x y l|l l' l'' H1 IH1 H2 IH2]; cbn [filter].
  - constructor.
  - destruct (f x); [constructor|]; assumption.
  - destruct (f x), (f y); try constructor; try apply Permutation_refl.
  - eapply Permutation_trans; eassumption.
Qed.

Lemma filter_all {A} (f : A -> bool) (l : list A) : (forall x, In x l -> f x = true) -> filter f l = l.
Proof.
  induction l as [|a l IH]; intros H; cbn [filter]; [reflexivity|].
  rewrite (H a (or_introl eq_refl)). f_equal. apply IH. intros x Hx. apply H. right. exact Hx.
Qed.

Lemma filter_none {A} (f : A -> bool) (l : list A) : (forall x, In x l -> f x = false) -> filter f l = [].
Proof.
  induction l as [|a l IH]; intros H; cbn [filter]; [reflexivity|].
  rewrite (H a (or_introl eq_refl)). apply IH. intros x Hx. apply H. right. exact Hx.
Qed.

Lemma filter_filter_comm {A} (f g : A -> bool) (l : list A) : filter f (filter g l) = filter g (filter f l).
Proof.
  induction l as [|a l IH]; cbn [filter]; [reflexivity|].
  destruct (f a) eqn:Ef, (g a) eqn:Eg; cbn [filter]; rewrite ?Ef, ?Eg, IH; reflexivity.
Qed.

Lemma filter_flat_map {A B} (f : B -> bool) (g : A -> list B) (l : list A) :
  filter f (flat_map g l) = flat_map (fun a => filter f (g a)) l.
Proof.
  induction l as [|a l IH]; cbn [flat_map]; [reflexivity|].
  rewrite filter_app, IH. reflexivity.
Qed.

Lemma map_flat_map {A B C} (h : B -> C) (g : A -> list B) (l : list A) :
  map h (flat_map g l) = flat_map (fun a => map h (g a)) l.
Proof.
  induction l as [|a l IH]; cbn [flat_map]; [reflexivity|].
  rewrite map_app, IH. reflexivity.
Qed.

Lemma flat_map_flat_map {A B C} (h : B -> list C) (g : A -> list B) (l : list A) :
  flat_map h (flat_map g l) = flat_map (fun a => flat_map h (g a)) l.
Proof.
  induction l as [|a l IH]; cbn [flat_map]; [reflexivity|].
  rewrite flat_map_app, IH. reflexivity.
Qed.

Lemma flat_map_ext_in {A B} (f g : A -> list B) (l : list A) :
  (forall a, In a l -> f a = g a) -> flat_map f l = flat_map g l.
Proof.
  induction l as [|a l IH]; intros H; cbn [flat_map]; [reflexivity|].
  rewrite (H a (or_introl eq_refl)), IH; [reflexivity|]. intros x Hx. apply H. right. exact Hx.
Qed.

Lemma flat_map_perm_pointwise {A B} (f g : A -> list B) (l : list A) :
  (forall a, In a l -> Permutation (f a) (g a)) -> Permutation (flat_map f l) (flat_map g l).
Proof.
  induction l as [|a l IH]; intros H; cbn [flat_map]; [constructor|].
  apply Permutation_app; [apply H; left; reflexivity|]. apply IH. intros x Hx. apply H. right. exact Hx.
Qed.

(* two disjoint filters partition the filter by their disjunction *)
Lemma filter_or_perm {A} (p q : A -> bool) (l : list A) :
  (forall x, In x l -> p x = true -> q x = false) ->
  Permutation (filter p l ++ filter q l) (filter (fun x => p x || q x) l).
Proof.
  induction l as [|a l IH]; intros H; cbn [filter]; [constructor|].
  assert (IH' := IH (fun x Hx => H x (or_intror Hx))).
  destruct (p a) eqn:Ep; cbn [orb app].
  - rewrite (H a (or_introl eq_refl) Ep). constructor. exact IH'.
  - destruct (q a); [|exact IH'].
    eapply Permutation_trans; [apply Permutation_sym, Permutation_middle|]. constructor. exact IH'.
Qed.

Lemma NoDup_map_filter {A B} (f : A -> B) (p : A -> bool) (l : list A) :
  NoDup (map f l) -> NoDup (map f (filter p l)).
Proof.
  induction l as [|a l IH]; cbn [map filter]; intros H; [constructor|].
  inversion H as [|x xs Hn Hd]; subst.
  destruct (p a); [|apply IH; exact Hd].
  cbn [map]. constructor; [|apply IH; exact Hd].
  intros Hin. apply Hn. apply in_map_iff in Hin. destruct Hin as (y & Hy & Hyin).
  apply in_map_iff. exists y. split; [exact Hy|]. apply filter_In in Hyin. tauto.
Qed.

(* ---------------------------------------------------------------- res monad inversions *)
Lemma cons_res_Ok {A} (a : A) x l : cons_res a x = Ok l -> exists l', x = Ok l' /\ l = a :: l'.
Proof. destruct x as [l'|e]; cbn; intros H; [|discriminate]. inversion H. eauto. Qed.

Lemma bind_Ok {A B} (x : res A) (f : A -> res B) b : bind x f = Ok b -> exists a, x = Ok a /\ f a = Ok b.
Proof. destruct x as [a|e]; cbn; intros H; [eauto|discriminate]. Qed.

Lemma mapM_Ok {A B} (f : A -> res B) : forall l ys, mapM f l = Ok ys -> Forall2 (fun x y => f x = Ok y) l ys.
Proof.
  induction l as [|a l IH]; cbn [mapM]; intros ys H.
  - inversion H. constructor.
  - destruct (f a) as [b|e] eqn:E; [|discriminate].
    apply cons_res_Ok in H. destruct H as (l' & Hl' & ->). constructor; [exact E|]. apply IH. exact Hl'.
Qed.

Lemma mapM_total {A B} (f : A -> res B) : forall l, (forall a, In a l -> exists b, f a = Ok b) -> exists ys, mapM f l = Ok ys.
Proof.
  induction l as [|a l IH]; intros H; cbn [mapM]; [eauto|].
  destruct (H a (or_introl eq_refl)) as (b & ->).
  destruct (IH (fun x Hx => H x (or_intror Hx))) as (ys & ->). cbn. eauto.
Qed.

(* ---------------------------------------------------------------- the job list *)
Definition nonstar (c : cname) : bool := negb (is_star c).

(* invariant of the loop with its two accumulators: nothing is lost, nothing is duplicated, order is kept *)
Lemma jobs_loop_concat : forall cs current job_gen,
  concat (jobs_loop cs current job_gen) = concat job_gen ++ current ++ filter nonstar (map fst cs).
Proof.
  induction cs as [|[c len] cs IH]; intros current job_gen; cbn [jobs_loop map filter fst].
  - destruct (0 <? Z.of_nat (length current)) eqn:E.
    + rewrite concat_app. cbn [concat]. rewrite !app_nil_r. reflexivity.
    + destruct current; [rewrite !app_nil_r; reflexivity|]. cbn [length] in E. lia.
  - unfold nonstar at 1. destruct (is_star c) eqn:Es; cbn [negb].
    + apply IH.
    + destruct (len <? small_contig_threshold).
      * rewrite IH. rewrite <- !app_assoc. reflexivity.
      * destruct (0 <? Z.of_nat (length current)) eqn:E.
        -- rewrite IH. rewrite !concat_app. cbn [concat app]. rewrite ?app_nil_r, <- ?app_assoc. reflexivity.
        -- destruct current; [|cbn [length] in E; lia].
           rewrite IH. rewrite concat_app. cbn [concat app]. rewrite ?app_nil_r, <- ?app_assoc. reflexivity.
Qed.

Lemma contig_jobs_concat cs : concat (contig_jobs cs) = None :: filter nonstar (map fst cs).
Proof. unfold contig_jobs. rewrite jobs_loop_concat. reflexivity. Qed.

Lemma jobs_cover cs : Permutation (concat (contig_jobs cs)) (None :: filter nonstar (map fst cs)).
Proof. rewrite contig_jobs_concat. apply Permutation_refl. Qed.

(* no job is empty *)
Lemma jobs_loop_nonempty : forall cs current job_gen,
  Forall (fun j => j <> []) job_gen -> Forall (fun j => j <> []) (jobs_loop cs current job_gen).
Proof.
  induction cs as [|[c len] cs IH]; intros current job_gen H; cbn [jobs_loop].
  - destruct (0 <? Z.of_nat (length current)) eqn:E; [|exact H].
    apply Forall_app. split; [exact H|]. constructor; [|constructor].
    intros ->. cbn in E. lia.
  - destruct (is_star c); [apply IH; exact H|].
    destruct (len <? small_contig_threshold); [apply IH; exact H|].
    destruct (0 <? Z.of_nat (length current)) eqn:E; apply IH.
    + apply Forall_app. split; [apply Forall_app; split; [exact H|]|].
      * constructor; [|constructor]. intros ->. cbn in E. lia.
      * constructor; [discriminate|constructor].
    + apply Forall_app. split; [exact H|]. constructor; [discriminate|constructor].
Qed.

(* shape of the jobs: the unplaced bin alone, a large contig alone, or small contigs only *)
Definition job_shape (cs : list (cname * Z)) (j : list cname) : Prop :=
  j = [None] \/
  (exists c len, j = [c] /\ In (c, len) cs /\ small_contig_threshold <= len) \/
  Forall (fun c => exists len, In (c, len) cs /\ len < small_contig_threshold) j.

Lemma jobs_loop_shape : forall all cs current job_gen,
  incl cs all ->
  Forall (fun c => exists len, In (c, len) all /\ len < small_contig_threshold) current ->
  Forall (job_shape all) job_gen -> Forall (job_shape all) (jobs_loop cs current job_gen).
Proof.
  intros all. induction cs as [|[c len] cs IH]; intros current job_gen Hi Hc H; cbn [jobs_loop].
  - destruct (0 <? Z.of_nat (length current)); [|exact H].
    apply Forall_app. split; [exact H|]. constructor; [|constructor]. right. right. exact Hc.
  - assert (Hi' : incl cs all) by (intros x Hx; apply Hi; right; exact Hx).
    assert (Hin : In (c, len) all) by (apply Hi; left; reflexivity).
    destruct (is_star c); [apply IH; assumption|].
    destruct (len <? small_contig_threshold) eqn:El.
    + apply IH; [assumption| |assumption]. apply Forall_app. split; [exact Hc|].
      constructor; [|constructor]. exists len. split; [exact Hin|lia].
    + assert (Hbig : job_shape all [c]).
      { right. left. exists c, len. repeat split; [exact Hin|lia]. }
      destruct (0 <? Z.of_nat (length current)); apply IH; try assumption.
      * constructor.
      * apply Forall_app. split; [apply Forall_app; split; [exact H|]|].
        -- constructor; [|constructor]. right. right. exact Hc.
        -- constructor; [exact Hbig|constructor].
      * apply Forall_app. split; [exact H|]. constructor; [exact Hbig|constructor].
Qed.

(* ---------------------------------------------------------------- dictionaries *)
Definition vals (d : dict) : list rec := map snd d.
Definition keys (d : dict) : list Z := map fst d.

Lemma dmem_In k d : dmem k d = true <-> In k (keys d).
Proof.
  induction d as [|[k' v] d IH]; cbn [dmem keys map fst]; [split; [discriminate|intros []]|].
  rewrite orb_true_iff, Z.eqb_eq, IH. unfold keys. cbn [In]. split; intros [H|H]; auto.
Qed.

Lemma dset_new k v d : ~ In k (keys d) -> dset k v d = d ++ [(k, v)].
Proof.
  induction d as [|[k' v'] d IH]; cbn [dset keys map fst app]; intros H; [reflexivity|].
  destruct (k =? k') eqn:E; [apply Z.eqb_eq in E; subst; exfalso; apply H; left; reflexivity|].
  rewrite IH; [reflexivity|]. intros Hin. apply H. right. exact Hin.
Qed.

Lemma dget_last k v d : ~ In k (keys d) -> dget k (d ++ [(k, v)]) = Some v.
Proof.
  induction d as [|[k' v'] d IH]; cbn [dget keys map fst app]; intros H.
  - rewrite Z.eqb_refl. reflexivity.
  - destruct (k =? k') eqn:E; [apply Z.eqb_eq in E; subst; exfalso; apply H; left; reflexivity|].
    apply IH. intros Hin. apply H. right. exact Hin.
Qed.

Lemma ddel_last k v d : ~ In k (keys d) -> ddel k (d ++ [(k, v)]) = d.
Proof.
  induction d as [|[k' v'] d IH]; cbn [ddel keys map fst app]; intros H.
  - rewrite Z.eqb_refl. reflexivity.
  - destruct (k =? k') eqn:E; [apply Z.eqb_eq in E; subst; exfalso; apply H; left; reflexivity|].
    rewrite IH; [reflexivity|]. intros Hin. apply H. right. exact Hin.
Qed.

Lemma dget_None k d : dget k d = None -> ~ In k (keys d).
Proof.
  induction d as [|[k' v'] d IH]; cbn [dget keys map fst]; intros H; [tauto|].
  destruct (k =? k') eqn:E; [discriminate|]. apply Z.eqb_neq in E.
  intros [Hin|Hin]; [congruence|]. exact (IH H Hin).
Qed.

Lemma dget_Some_perm k d b : dget k d = Some b -> Permutation (vals d) (b :: vals (ddel k d)).
Proof.
  induction d as [|[k' v'] d IH]; cbn [dget ddel vals map snd]; intros H; [discriminate|].
  destruct (k =? k') eqn:E.
  - inversion H; subst. apply Permutation_refl.
  - cbn [map snd]. eapply Permutation_trans; [constructor; apply IH; exact H|]. apply perm_swap.
Qed.

Lemma dget_Some_In k d b : dget k d = Some b -> In (k, b) d.
Proof.
  induction d as [|[k' v'] d IH]; cbn [dget]; intros H; [discriminate|].
  destruct (k =? k') eqn:E.
  - apply Z.eqb_eq in E. inversion H; subst. left. reflexivity.
  - right. apply IH. exact H.
Qed.

Lemma ddel_incl k d : incl (ddel k d) d.
Proof.
  induction d as [|[k' v'] d IH]; cbn [ddel]; [apply incl_refl|].
  destruct (k =? k'); [apply incl_tl, incl_refl|].
  intros x [Hx|Hx]; [left; exact Hx|right; apply IH; exact Hx].
Qed.

(* cache discipline: the key is the query name of the cached record; first-read cache holds paired first reads *)
Definition dwf (b : bool) (d : dict) : Prop :=
  forall k v, In (k, v) d -> k = r_name v /\ r_read1 v = b /\ r_paired v = true.

Lemma dwf_ddel b k d : dwf b d -> dwf b (ddel k d).
Proof. intros H k' v Hin. apply H. apply (ddel_incl k d). exact Hin. Qed.

Lemma dwf_snoc b d r : dwf b d -> r_read1 r = b -> r_paired r = true -> dwf b (d ++ [(r_name r, r)]).
Proof.
  intros H H1 H2 k v Hin. apply in_app_or in Hin. destruct Hin as [Hin|[Hin|[]]]; [apply H; exact Hin|].
  inversion Hin; subst. auto.
Qed.

Definition K (l : list rec) : Prop := NoDup (map ckey2 l).

Lemma K_perm l l' : Permutation l l' -> K l -> K l'.
Proof. intros HP HK. unfold K in *. eapply Permutation_NoDup; [apply Permutation_map; exact HP|exact HK]. Qed.

Lemma K_tail a l : K (a :: l) -> K l.
Proof. unfold K. cbn [map]. intros H. inversion H; assumption. Qed.

(* a record with the same (name, first?) as a cached one cannot occur again *)
Lemma key_fresh b d r rest :
  dwf b d -> r_read1 r = b -> K (vals d ++ r :: rest) -> ~ In (r_name r) (keys d).
Proof.
  intros Hw Hb HK Hin. unfold keys in Hin. apply in_map_iff in Hin. destruct Hin as ([k v] & Hk & Hin).
  cbn [fst] in Hk. subst k. destruct (Hw _ _ Hin) as (Hn & Hr & _).
  unfold K in HK. rewrite map_app in HK. cbn [map] in HK.
  apply NoDup_remove_2 in HK. apply HK. apply in_or_app. left.
  apply in_map_iff. exists v. split.
  - unfold ckey2. rewrite <- Hn, Hr, Hb. reflexivity.
  - unfold vals. apply in_map_iff. exists (r_name r, v). split; [reflexivity|exact Hin].
Qed.

(* ---------------------------------------------------------------- the pairing loop conserves primary records *)
Definition opt_list {A} (o : option A) : list A := match o with Some a => [a] | None => [] end.

(* the records of a pair as Fragment.__init__ will leave them: slot 0 forced to read 1, slot 1 to read 2 *)
Definition slotted (p : pairT) : list rec :=
  opt_list (option_map force1 (fst p)) ++ opt_list (option_map force2 (snd p)).

Lemma key_force1_fix r : key (force1 (fix_first r)) = key (force1 r).
Proof. reflexivity. Qed.
Lemma key_force2_fix r : key (force2 (fix_second r)) = key (force2 r).
Proof. reflexivity. Qed.

Lemma norm_unpaired r : r_paired r = false -> norm r = force1 r.
Proof. unfold norm. intros ->. reflexivity. Qed.
Lemma norm_first r : r_paired r = true -> r_read1 r = true -> norm r = force1 r.
Proof. unfold norm. intros -> ->. reflexivity. Qed.
Lemma norm_second r : r_paired r = true -> r_read1 r = false -> norm r = force2 r.
Proof. unfold norm. intros -> ->. reflexivity. Qed.

Definition nkeys (l : list rec) := map key (map norm l).

Lemma nkeys_app a b : nkeys (a ++ b) = nkeys a ++ nkeys b.
Proof. unfold nkeys. rewrite !map_app. reflexivity. Qed.
Lemma nkeys_cons a l : nkeys (a :: l) = key (norm a) :: nkeys l.
Proof. reflexivity. Qed.
Lemma nkeys_perm l l' : Permutation l l' -> Permutation (nkeys l) (nkeys l').
Proof. intros H. unfold nkeys. apply Permutation_map, Permutation_map, H. Qed.

Lemma nkeys_vals_first d : dwf true d -> nkeys (vals d) = map key (map force1 (vals d)).
Proof.
  unfold nkeys, vals. induction d as [|[k v] d IH]; intros H; cbn [map snd]; [reflexivity|].
  destruct (H k v (or_introl eq_refl)) as (_ & H1 & H2).
  rewrite norm_first by assumption. f_equal. apply IH. intros k' v' Hin. apply H. right. exact Hin.
Qed.
Lemma nkeys_vals_second d : dwf false d -> nkeys (vals d) = map key (map force2 (vals d)).
Proof.
  unfold nkeys, vals. induction d as [|[k v] d IH]; intros H; cbn [map snd]; [reflexivity|].
  destruct (H k v (or_introl eq_refl)) as (_ & H1 & H2).
  rewrite norm_second by assumption. f_equal. apply IH. intros k' v' Hin. apply H. right. exact Hin.
Qed.

Lemma flush_slotted c1 c2 :
  map key (flat_map slotted (flush c1 c2)) = map key (map force1 (vals c1)) ++ map key (map force2 (vals c2)).
Proof.
  unfold flush. rewrite flat_map_app, map_app. f_equal.
  - unfold vals. induction c1 as [|[k v] c1 IH]; cbn [map flat_map snd]; [reflexivity|].
    unfold slotted at 1. cbn [fst snd option_map opt_list app]. cbn [map]. f_equal. exact IH.
  - unfold vals. induction c2 as [|[k v] c2 IH]; cbn [map flat_map snd]; [reflexivity|].
    unfold slotted at 1. cbn [fst snd option_map opt_list app]. cbn [map]. f_equal. exact IH.
Qed.

Lemma pair_loop_conserve : forall rs c1 c2 ps,
  dwf true c1 -> dwf false c2 ->
  K (vals c1 ++ vals c2 ++ filter primary rs) ->
  pair_loop rs c1 c2 = Ok ps ->
  Permutation (map key (flat_map slotted ps)) (nkeys (vals c1 ++ vals c2 ++ filter primary rs)).
Proof.
  induction rs as [|r rs IH]; intros c1 c2 ps Hw1 Hw2 HK Hrun; cbn [pair_loop filter] in *.
  - inversion Hrun; subst. rewrite flush_slotted, app_nil_r, nkeys_app.
    rewrite nkeys_vals_first, nkeys_vals_second by assumption. apply Permutation_refl.
  - unfold primary at 1 in HK. unfold primary at 1.
    destruct (r_sec r) eqn:Esec; cbn [negb] in *.
    { apply IH; assumption. }
    assert (HKtail : K (vals c1 ++ vals c2 ++ filter primary rs)).
    { eapply K_tail. eapply K_perm; [|exact HK].
      rewrite !app_assoc. apply Permutation_sym, Permutation_middle. }
    assert (Hmid : forall x, Permutation (x :: nkeys (vals c1 ++ vals c2 ++ filter primary rs))
                                         (nkeys (vals c1 ++ vals c2) ++ x :: nkeys (filter primary rs))).
    { intros x. rewrite app_assoc, nkeys_app. apply Permutation_middle. }
    assert (Hgoal : nkeys (vals c1 ++ vals c2 ++ r :: filter primary rs)
                    = nkeys (vals c1 ++ vals c2) ++ key (norm r) :: nkeys (filter primary rs)).
    { rewrite app_assoc, nkeys_app, nkeys_cons. reflexivity. }
    destruct (r_paired r) eqn:Epair; cbn [negb] in Hrun.
    2:{ (* unpaired: (rec, None) *)
      apply cons_res_Ok in Hrun. destruct Hrun as (ps' & Hrun & ->).
      cbn [flat_map]. unfold slotted at 1. cbn [fst snd option_map opt_list app map].
      rewrite Hgoal, norm_unpaired by assumption.
      eapply Permutation_trans; [constructor; apply (IH c1 c2 ps'); assumption|]. apply Hmid. }
    destruct (negb (r_mate_unmapped r) && cname_eqb (r_contig r) (r_next r)) eqn:Ecache.
    2:{ (* mate unmapped or elsewhere: single, through verify_pair *)
      destruct (r_read1 r) eqn:E1.
      - apply cons_res_Ok in Hrun. destruct Hrun as (ps' & Hrun & ->).
        cbn [flat_map]. unfold slotted at 1. cbn [fst snd option_map opt_list app map].
        rewrite key_force1_fix, Hgoal, norm_first by assumption.
        eapply Permutation_trans; [constructor; apply (IH c1 c2 ps'); assumption|]. apply Hmid.
      - destruct (r_read2 r) eqn:E2; [|discriminate].
        apply cons_res_Ok in Hrun. destruct Hrun as (ps' & Hrun & ->).
        cbn [flat_map]. unfold slotted at 1. cbn [fst snd option_map opt_list app map].
        rewrite key_force2_fix, Hgoal, norm_second by assumption.
        eapply Permutation_trans; [constructor; apply (IH c1 c2 ps'); assumption|]. apply Hmid. }
    destruct (r_read1 r) eqn:E1.
    + (* first read enters the cache *)
      assert (Hfresh : ~ In (r_name r) (keys c1)).
      { apply (key_fresh true c1 r (vals c2 ++ filter primary rs)); [assumption..|].
        eapply K_perm; [|exact HK].
        apply Permutation_app_head. apply Permutation_sym, Permutation_middle. }
      rewrite dset_new in Hrun by exact Hfresh. rewrite dget_last in Hrun by exact Hfresh.
      destruct (dget (r_name r) c2) as [b|] eqn:Eg.
      * rewrite ddel_last in Hrun by exact Hfresh.
        apply cons_res_Ok in Hrun. destruct Hrun as (ps' & Hrun & ->).
        assert (Hb := dget_Some_perm _ _ _ Eg).
        destruct (Hw2 _ _ (dget_Some_In _ _ _ Eg)) as (_ & Hb1 & Hb2).
        assert (HP : Permutation (vals c1 ++ vals c2 ++ r :: filter primary rs)
                                 (r :: b :: vals c1 ++ vals (ddel (r_name r) c2) ++ filter primary rs)).
        { eapply Permutation_trans.
          { apply Permutation_app_head. apply Permutation_sym, Permutation_middle. }
          eapply Permutation_trans; [apply Permutation_sym, Permutation_middle|]. constructor.
          eapply Permutation_trans.
          { apply Permutation_app_head. apply Permutation_app_tail. exact Hb. }
          cbn [app]. apply Permutation_sym, Permutation_middle. }
        cbn [flat_map]. unfold slotted at 1. cbn [fst snd option_map opt_list app map].
        eapply Permutation_trans; [|apply Permutation_sym, nkeys_perm, HP].
        rewrite !nkeys_cons, norm_first, norm_second by assumption.
        constructor. constructor. apply IH; [assumption|apply dwf_ddel; assumption| |exact Hrun].
        eapply K_tail, K_tail. eapply K_perm; [exact HP|exact HK].
      * assert (HP : Permutation (vals c1 ++ vals c2 ++ r :: filter primary rs)
                                 (vals (c1 ++ [(r_name r, r)]) ++ vals c2 ++ filter primary rs)).
        { unfold vals at 3. rewrite map_app. cbn [map snd]. fold (vals c1). rewrite <- app_assoc. cbn [app].
          apply Permutation_app_head. apply Permutation_sym, Permutation_middle. }
        eapply Permutation_trans; [|apply Permutation_sym, nkeys_perm, HP].
        assert (Hrun' : pair_loop rs (c1 ++ [(r_name r, r)]) c2 = Ok ps).
        { destruct (dget (r_name r) c2); [discriminate|exact Hrun]. }
        apply IH; [apply dwf_snoc; assumption|assumption| |exact Hrun'].
        eapply K_perm; [exact HP|exact HK].
    + (* second read enters the cache *)
      assert (Hfresh : ~ In (r_name r) (keys c2)).
      { apply (key_fresh false c2 r (filter primary rs ++ vals c1)); [assumption..|].
        eapply K_perm; [|exact HK].
        eapply Permutation_trans; [apply Permutation_app_comm|]. rewrite <- app_assoc. cbn [app].
        apply Permutation_app_head. apply Permutation_refl. }
      rewrite dset_new in Hrun by exact Hfresh. rewrite dget_last in Hrun by exact Hfresh.
      destruct (dget (r_name r) c1) as [a|] eqn:Eg.
      * rewrite ddel_last in Hrun by exact Hfresh.
        apply cons_res_Ok in Hrun. destruct Hrun as (ps' & Hrun & ->).
        assert (Ha := dget_Some_perm _ _ _ Eg).
        destruct (Hw1 _ _ (dget_Some_In _ _ _ Eg)) as (_ & Ha1 & Ha2).
        assert (HP : Permutation (vals c1 ++ vals c2 ++ r :: filter primary rs)
                                 (a :: r :: vals (ddel (r_name r) c1) ++ vals c2 ++ filter primary rs)).
        { eapply Permutation_trans.
          { apply Permutation_app_tail. exact Ha. }
          cbn [app]. constructor.
          eapply Permutation_trans.
          { apply Permutation_app_head. apply Permutation_sym, Permutation_middle. }
          apply Permutation_sym, Permutation_middle. }
        cbn [flat_map]. unfold slotted at 1. cbn [fst snd option_map opt_list app map].
        eapply Permutation_trans; [|apply Permutation_sym, nkeys_perm, HP].
        rewrite !nkeys_cons, norm_first, norm_second by assumption.
        constructor. constructor. apply IH; [apply dwf_ddel; assumption|assumption| |exact Hrun].
        eapply K_tail, K_tail. eapply K_perm; [exact HP|exact HK].
      * assert (HP : Permutation (vals c1 ++ vals c2 ++ r :: filter primary rs)
                                 (vals c1 ++ vals (c2 ++ [(r_name r, r)]) ++ filter primary rs)).
        { unfold vals at 4. rewrite map_app. cbn [map snd]. fold (vals c2). rewrite <- app_assoc. cbn [app].
          apply Permutation_refl. }
        eapply Permutation_trans; [|apply Permutation_sym, nkeys_perm, HP].
        assert (Hrun' : pair_loop rs c1 (c2 ++ [(r_name r, r)]) = Ok ps).
        { destruct (dget (r_name r) c1); [discriminate|exact Hrun]. }
        apply IH; [assumption|apply dwf_snoc; assumption| |exact Hrun'].
        eapply K_perm; [exact HP|exact HK].
Qed.

Lemma pairing_conserve rs ps :
  K (filter primary rs) -> pairing rs = Ok ps ->
  Permutation (map key (flat_map slotted ps)) (nkeys (filter primary rs)).
Proof.
  intros HK H. apply (pair_loop_conserve rs [] [] ps); try assumption; intros k v [].
Qed.

(* with sane flags the pairing loop never raises *)
Lemma pair_loop_total : forall rs c1 c2, (forall r, In r rs -> wf_flags r = true) -> exists ps, pair_loop rs c1 c2 = Ok ps.
Proof.
  induction rs as [|r rs IH]; intros c1 c2 Hwf; cbn [pair_loop]; [eauto|].
  assert (Hwf' : forall x, In x rs -> wf_flags x = true) by (intros x Hx; apply Hwf; right; exact Hx).
  assert (Hr := Hwf r (or_introl eq_refl)). unfold wf_flags in Hr.
  destruct (r_sec r); [apply IH; exact Hwf'|].
  destruct (r_paired r) eqn:Ep; cbn [negb].
  2:{ destruct (IH c1 c2 Hwf') as (ps & ->). cbn. eauto. }
  destruct (negb (r_mate_unmapped r) && cname_eqb (r_contig r) (r_next r)).
  - destruct (r_read1 r).
    + destruct (dget (r_name r) (dset (r_name r) r c1)), (dget (r_name r) c2);
        try apply IH; try exact Hwf'.
      match goal with |- context [pair_loop rs ?a ?b] => destruct (IH a b Hwf') as (ps & ->) end. cbn. eauto.
    + destruct (dget (r_name r) c1), (dget (r_name r) (dset (r_name r) r c2));
        try apply IH; try exact Hwf'.
      match goal with |- context [pair_loop rs ?a ?b] => destruct (IH a b Hwf') as (ps & ->) end. cbn. eauto.
  - destruct (r_read1 r) eqn:E1.
    + destruct (IH c1 c2 Hwf') as (ps & ->). cbn. eauto.
    + destruct (r_read2 r); [|discriminate Hr]. destruct (IH c1 c2 Hwf') as (ps & ->). cbn. eauto.
Qed.

Lemma contig_jobs_nonempty cs : Forall (fun j : list cname => j <> []) (contig_jobs cs).
Proof. apply jobs_loop_nonempty. constructor; [discriminate|constructor]. Qed.

Lemma contig_jobs_shape cs : Forall (job_shape cs) (contig_jobs cs).
Proof.
  apply jobs_loop_shape; [apply incl_refl|constructor|].
  constructor; [left; reflexivity|constructor].
Qed.
