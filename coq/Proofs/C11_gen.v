(* C11 proofs, part 4 (T): the definitions REGENERATED from the current source (Gen/GenCountFilter.v: ordered guard
   chain of read_should_be_counted, countToAdd of assignReads, the by-value auto-append test and the args attributes
   assigned in the module) are the model's should_count / weight / prep; a call leaves the modelled options alone. *)
From Coq Require Import ZArith List Bool QArith Lia Btauto.
Import ListNotations.
From SCMO Require Import Lib.Val Model.C11 Model.C11x Gen.GenCountFilter Proofs.C11 Proofs.C11_table Proofs.C11_keys
  Proofs.C11x.
Open Scope Z_scope.

Lemma guard_cong a a' k k' : a = a' -> k = k' -> guard a k = guard a' k'.
Proof. intros -> ->. reflexivity. Qed.

Lemma rand_ok_if a x : rand (Ok a) x = if a then x else Ok false.
Proof. destruct a; reflexivity. Qed.

(* the two nested tests of the --filterMP block are one guard of the model *)
Lemma mp_merge (f : bool) r k :
  guard (Ok (f && negb (has_tag r [109; 112])))
    (guard (Ok (f && negb (tag_eq_str r [109; 112] [117; 110; 105; 113; 117; 101]))) k)
  = guard (Ok (f && negb (mp_unique r))) k.
Proof.
  unfold mp_unique, tag_eq_str, has_tag. change t_mp with [109; 112]. change s_unique with [117; 110; 105; 113; 117; 101].
  destruct f; destruct (get_tag r [109; 112]) as [[z|s|q s]|]; cbn; reflexivity.
Qed.

Lemma existsb_cons {A} (f : A -> bool) x l : existsb f (x :: l) = f x || existsb f l.
Proof. reflexivity. Qed.

Lemma existsb_ops2 a b : forall c,
  existsb (Z.eqb a) c || existsb (Z.eqb b) c = existsb (fun op => existsb (Z.eqb op) [a; b]) c.
Proof.
  induction c as [|x c IH]; [reflexivity|]. rewrite !existsb_cons, <- IH. cbn [existsb].
  rewrite (Z.eqb_sym x a), (Z.eqb_sym x b). btauto.
Qed.

Lemma existsb_ops1 a : forall c, existsb (Z.eqb a) c = existsb (fun op => existsb (Z.eqb op) [a]) c.
Proof.
  induction c as [|x c IH]; [reflexivity|]. rewrite !existsb_cons, <- IH. cbn [existsb].
  rewrite (Z.eqb_sym x a). btauto.
Qed.

Lemma cig12 r b : rand (Ok b) (ror (cig_in r 1) (cig_in r 2)) = if b then cig_has r [1; 2] else Ok false.
Proof.
  destruct b; [|reflexivity]. unfold cig_in, cig_has. destruct (cigar r) as [|x c]; [reflexivity|].
  cbn [rand ror]. rewrite <- existsb_ops2. destruct (existsb (Z.eqb 1) (x :: c)); reflexivity.
Qed.

Lemma cig4 r b : rand (Ok b) (cig_in r 4) = if b then cig_has r [4] else Ok false.
Proof.
  destruct b; [|reflexivity]. unfold cig_in, cig_has. destruct (cigar r) as [|x c]; [reflexivity|].
  cbn [rand]. rewrite <- existsb_ops1. reflexivity.
Qed.

Lemma nm_gen o r :
  rand (Ok (negb (negb (opt_is_some (o_max_edits o)))))
       (rand (Ok (has_tag r [78; 77])) (rgtb (tag_int r [78; 77]) (oz (o_max_edits o))))
  = nm_exceeds o r.
Proof.
  unfold nm_exceeds, has_tag, tag_int, oz, rgtb, rcmp. change t_NM with [78; 77].
  destruct (o_max_edits o) as [m|]; cbn; [|reflexivity].
  destruct (get_tag r [78; 77]) as [v|]; cbn; [|reflexivity].
  destruct (py_int v) as [n|e]; cbn; [|reflexivity]. rewrite Z.gtb_ltb. reflexivity.
Qed.

Lemma existsb_ext' {A} (f g : A -> bool) : (forall x, f x = g x) -> forall l, existsb f l = existsb g l.
Proof. intros H. induction l as [|x l IH]; [reflexivity|]. cbn [existsb]. rewrite H, IH. reflexivity. Qed.

Lemma iv_test_eq xs xe s e : gen_iv_test xs xe s e = in_iv xs s e || in_iv xe s e.
Proof. unfold gen_iv_test, in_iv. rewrite !Z.geb_leb. reflexivity. Qed.

Lemma bl_gen o r : bl_hit_with gen_iv_test o r = bl_hit o r.
Proof.
  unfold bl_hit_with, bl_hit. destruct (o_blacklist o) as [bl|]; [|reflexivity].
  destruct (refname r) as [c|]; [|reflexivity]. destruct (bl_rows bl c) as [|iv ivs]; [reflexivity|].
  destruct (rend r) as [e|]; [|reflexivity]. f_equal. apply existsb_ext'. intros x. apply iv_test_eq.
Qed.

Ltac solve_guard :=
  first [ reflexivity
        | solve [f_equal; btauto]
        | solve [f_equal; rewrite ?Z.gtb_ltb, ?Z.geb_leb; btauto]   (* a > b written for b < a *)
        | apply cig12 | apply cig4 | apply nm_gen | apply rand_ok_if | apply bl_gen ].

(* the guard chain of the current source, in source order, is the model's filter *)
Lemma gen_should_count_eq o r : gen_should_count o r = should_count o r.
Proof.
  unfold gen_should_count, gen_guards, should_count. cbn [fold_right]. rewrite mp_merge.
  cbv [t_RR t_NM t_XA t_NH].
  repeat (apply guard_cong; [solve_guard|]). reflexivity.
Qed.

Lemma gen_base o r :
  (if o_r1only o || o_r2only o then Ok 1%Q
   else if negb (o_no_divide o) then (if paired r && negb (mate_unmapped r) then Ok (1 # 2)%Q else Ok 1%Q) else Ok 1%Q)
  = Ok (base_weight o r).
Proof.
  unfold base_weight. destruct (o_r1only o || o_r2only o), (negb (o_no_divide o)), (paired r && negb (mate_unmapped r));
    reflexivity.
Qed.

Lemma split_len_nonzero sep s : Z.of_nat (length (split sep s)) =? 0 = false.
Proof.
  pose proof (split_nonempty sep s) as H. destruct (split sep s); [contradiction|]. cbn [length]. apply Z.eqb_neq. lia.
Qed.

(* countToAdd of the current source is the model's weight *)
Lemma gen_weight_eq o r : gen_weight o r = weight o r.
Proof.
  unfold gen_weight. rewrite !gen_base. unfold weight. cbv zeta. destruct (o_div_multi o); [|reflexivity].
  unfold has_tag, tag_split_len, tag_int. change t_XA with [88; 65]. change t_NH with [78; 72].
  destruct (get_tag r [88; 65]) as [[z|s|q s]|].
  - reflexivity.
  - cbn [rdivq]. rewrite split_len_nonzero. reflexivity.
  - reflexivity.
  - destruct (get_tag r [78; 72]) as [v|]; [|reflexivity]. cbn [rdivq]. destruct (py_int v); reflexivity.
Qed.

(* the auto-append test of create_count_table is the one of [prep] *)
Lemma gen_prep o :
  prep o = match o_jtags o with
           | Some l => (true, if gen_autoappend o l
                              then l ++ match o_byvalue o with Some b => [b] | None => [] end else l)
           | None => (false, match o_ftags o with Some l => l | None => [] end)
           end.
Proof.
  unfold prep, gen_autoappend. destruct (o_jtags o) as [l|]; [|reflexivity].
  destruct (o_byvalue o) as [b|]; cbn [opt_is_some opt_mem andb]; reflexivity.
Qed.

(* no modelled option attribute is assigned anywhere in the module: a call carries no state to the next one *)
Lemma args_written_ok : forallb (fun n => negb (mem n gen_args_modelled)) gen_args_written = true.
Proof. vm_compute. reflexivity. Qed.

Lemma history_stateless reads : forall steps ns,
  history ns steps reads = map (fun o => count_table o reads) (requested ns steps).
Proof.
  induction steps as [|f fs IH]; intros ns; [reflexivity|]. cbn [history requested map]. unfold call.
  f_equal. apply IH.
Qed.

(* -head: the break test of the current source, and its place relative to the assignReads call, in both loops *)
Lemma gen_head_stop_plain_eq h i : gen_head_stop_plain h i = stop h i.
Proof. unfold gen_head_stop_plain, stop. destruct h as [n|]; [|reflexivity]. rewrite ?Z.gtb_ltb, ?Z.geb_leb. reflexivity. Qed.

Lemma gen_head_stop_bed_eq h i : gen_head_stop_bed h i = stop h i.
Proof. unfold gen_head_stop_bed, stop. destruct h as [n|]; [|reflexivity]. rewrite ?Z.gtb_ltb, ?Z.geb_leb. reflexivity. Qed.

Lemma gen_head_plain o h reads acc :
  loop_src gen_head_test_first_plain gen_head_stop_plain o None h 0 reads acc
  = count_reads o None (head_plain h reads) acc.
Proof.
  rewrite (loop_src_ext _ gen_head_stop_plain stop o None h (gen_head_stop_plain_eq h)).
  change gen_head_test_first_plain with true. rewrite loop_src_plain. apply loop_plain_head.
Qed.

Lemma gen_head_bed o reg h reads acc :
  loop_src gen_head_test_first_bed gen_head_stop_bed o (Some reg) h 0 reads acc
  = count_reads o (Some reg) (head_bed h reads) acc.
Proof.
  rewrite (loop_src_ext _ gen_head_stop_bed stop o (Some reg) h (gen_head_stop_bed_eq h)).
  change gen_head_test_first_bed with false. rewrite loop_src_bed. apply loop_bed_head.
Qed.

Lemma gen_iff o r b : gen_should_count o r = Ok b -> (b = true <-> passes o r).
Proof. rewrite gen_should_count_eq. apply should_count_iff. Qed.

Lemma gen_pair_weight o r1 r2 w1 w2 :
  paired r1 = true -> paired r2 = true -> mate_unmapped r1 = false -> mate_unmapped r2 = false ->
  o_r1only o = false -> o_r2only o = false -> o_no_divide o = false -> o_div_multi o = false ->
  gen_weight o r1 = Ok w1 -> gen_weight o r2 = Ok w2 -> (w1 + w2 == 1)%Q.
Proof. rewrite !gen_weight_eq. apply pair_weight_half. Qed.

Lemma gen_selected_mate_weight o r w :
  o_r1only o = true \/ o_r2only o = true -> o_div_multi o = false -> gen_weight o r = Ok w -> (w == 1)%Q.
Proof.
  intros Hsel Hd. rewrite gen_weight_eq. unfold weight. rewrite base_weight_cases, Hd.
  replace (o_r1only o || o_r2only o || o_no_divide o) with true
    by (destruct Hsel as [-> | ->]; [reflexivity|rewrite orb_true_r; reflexivity]).
  intros H. apply Ok_inj in H. subst w. reflexivity.
Qed.
