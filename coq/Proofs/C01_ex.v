(* C01: concrete instances (non-vacuity of the hypotheses, and what is wrong without the repair). *)
From Coq Require Import ZArith List Bool Lia Arith.
Import ListNotations.
From SCMO Require Import Lib.Val Model.C01 Proofs.C01 Proofs.C01_b Proofs.C01_c.
Open Scope Z_scope.

(* "@a" / "@b" / "@c" headers; R1 bases starting with A are accepted, with C rejected ("bc"), else the
   strategy raises ("IndexError" abbreviated "IE") *)
Definition ex_pair (h : Z) (s1 s2 : str) : pair :=
  [mkRead [64; h] s1 [43] (map (fun _ => 73) s1); mkRead [64; h] s2 [43] (map (fun _ => 73) s2)].
Definition exA := ex_pair 97 [65; 67; 71] [84; 84].
Definition exB := ex_pair 98 [67; 67] [71].
Definition exC := ex_pair 99 [71] [].
Definition ex_strat : strategy := fun p =>
  match p with
  | r1 :: r2 :: _ =>
      match r_seq r1 with
      | 65 :: rest => Accept [mkArec true [49] (fastq_text (r_header r1 ++ [59; 88]) rest [43] (tl (r_qual r1)));
                              mkArec true [49] (fastq_text (r_header r2 ++ [59; 88]) (r_seq r2) [43] (r_qual r2))]
      | 67 :: _ => Reject [98; 99]
      | _ => Raise [73; 69]
      end
  | _ => Raise [73; 69]
  end.
Definition ex_rejhdr : read -> str -> hout := fun r reason => HOk (tl (r_header r) ++ tagRR ++ reason).
Definition ex_cfg (legacy : bool) : config := mkConfig None true false 2 legacy false.
Definition ex_pairs := [exA; exB; exC].

Lemma ex_rejhdr_contract : forall r reason h, ex_rejhdr r reason = HOk h -> contains (tagRR ++ reason) h.
Proof. intros r reason h H. inversion H. exists (tl (r_header r)), []. now rewrite app_nil_r. Qed.

(* the repaired loader on accept / reject / raise: every pair exactly once, R1/R2 in step, yield counter 1 *)
Lemma ex_run :
  let res := loader [ex_strat] ex_rejhdr (ex_cfg false) ex_pairs in
  res_crashed res = false /\ res_processed res = 3 /\ res_yields res = [1]
  /\ map lab (file_events (res_trace res) true [] 0) = [(0, 0)]%nat
  /\ map lab (file_events (res_trace res) true [] 1) = [(0, 0)]%nat
  /\ map lab (file_events (res_trace res) false [] 0) = [(1, 0); (2, 0)]%nat
  /\ map lab (file_events (res_trace res) false [] 1) = [(1, 0); (2, 0)]%nat
  /\ file_bytes (res_trace res) false [] 0 =
       [64;98;59;82;82;58;98;99;10; 67;67;10; 43;10; 73;73;10;   64;99;59;82;82;58;73;69;10; 71;10; 43;10; 73;10]
  /\ (forall r f, In r (consumed (ex_cfg false) ex_pairs) -> In f [ex_strat] -> step_ok2 (ex_cfg false) r f).
Proof.
  cbv zeta. repeat split; try (vm_compute; reflexivity).
  - destruct H0 as [<-|[]]. cbn in H. destruct H as [<-|[<-|[<-|[]]]]; vm_compute; lia.
  - destruct H0 as [<-|[]]. cbn in H. destruct H as [<-|[<-|[<-|[]]]]; cbn; try exact I.
    intros _ x y [<-|[<-|[]]] [<-|[<-|[]]]; reflexivity.
Qed.

(* the generic-exception arm of the unrepaired loader: pair 2 (the strategy raised) is written nowhere although a
   rejects handle exists, and the yield counter (2) exceeds the records written (1) *)
Lemma legacy_generic_arm_refuted :
  exists strats rejhdr cfg pairs,
    c_legacy cfg = true /\ c_rejects cfg = true /\
    let res := loader strats rejhdr cfg pairs in
    res_crashed res = false /\ res_processed res = 3 /\
    filter (lab_eqb 2 0) (res_trace res) = [] /\
    nth 0 (res_yields res) 0 = 2 /\
    length (filter (written_by 0) (res_trace res)) = 1%nat.
Proof.
  exists [ex_strat], ex_rejhdr, (ex_cfg true), ex_pairs. vm_compute. repeat split; reflexivity.
Qed.

(* a reject record that cannot be formatted (other exception than NonMultiplexable, e.g. the header limit with a
   very long library name) leaves the loop: the loader raises, the pair and everything after it is written nowhere *)
Lemma reject_crash_example :
  exists strats rejhdr cfg pairs,
    c_legacy cfg = false /\
    let res := loader strats rejhdr cfg pairs in
    res_crashed res = true /\ filter (lab_eqb 1 0) (res_trace res) = [] /\ filter (lab_eqb 2 0) (res_trace res) = [].
Proof.
  exists [ex_strat], (fun _ _ => HRaise), (ex_cfg false), ex_pairs. vm_compute. repeat split; reflexivity.
Qed.

(* the hypothesis step_ok excludes a PARTIAL write: if the first mate of an accepted pair is written and serialising the
   second raises (ValueError), FastqHandle.write has already put R1 into the demultiplexed output; the generic arm then
   puts both mates into the rejects: the pair is in both outputs and R1/R2 of the target fall out of step.  The
   correspondence check therefore treats a partial write of the real code as a violation. *)
Definition ex_partial : strategy := fun p =>
  match p with
  | r1 :: _ => Accept [mkArec true [49] (fastq_text (r_header r1) (r_seq r1) [43] (r_qual r1)); mkArec false [] [86; 69]]
  | _ => Raise [73; 69]
  end.

Lemma partial_write_refuted :
  exists strats rejhdr cfg pairs,
    c_legacy cfg = false /\ c_rejects cfg = true /\
    let res := loader strats rejhdr cfg pairs in
    res_crashed res = false /\
    count_at (res_trace res) true 0 0 0 = 1%nat /\ count_at (res_trace res) false 0 0 0 = 1%nat /\
    length (file_events (res_trace res) true [] 0) = 1%nat /\ length (file_events (res_trace res) true [] 1) = 0%nat /\
    res_yields res = [0].
Proof.
  exists [ex_partial], ex_rejhdr, (ex_cfg false), [exA]. vm_compute. repeat split; reflexivity.
Qed.

(* the loader does not look at the log handle: with and without one the same writes, counters and outcome *)
Lemma log_independent : forall strats rejhdr cfg b pairs,
  loader strats rejhdr (set_log b cfg) pairs = loader strats rejhdr cfg pairs.
Proof. intros. reflexivity. Qed.

(* the reader: R2 is one record short and R1 has a whitespace-only line where the third header should be *)
Lemma ex_reader :
  fastq_iter [[[64;49]; [65]; [43]; [73];  [64;50;32;9]; [67]; [43]; [73]; [32]; [71]; [43]; [73]];
              [[64;49]; [84]; [43]; [73];  [64;50]; [71]; [43]]]
  = [[mkRead [64;49] [65] [43] [73]; mkRead [64;49] [84] [43] [73]];
     [mkRead [64;50] [67] [43] [73]; mkRead [64;50] [71] [43] []]].
Proof. vm_compute. reflexivity. Qed.
