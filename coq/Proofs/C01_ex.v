(* C01: concrete instances (non-vacuity of the hypotheses, and what is wrong without the repair). *)
From Coq Require Import ZArith List Bool Lia Arith.
Import ListNotations.
From SCMO Require Import Lib.Val Lib.C01Shape Model.C01 Proofs.C01 Proofs.C01_b Proofs.C01_c.
Open Scope Z_scope.

(* "@a" / "@b" / "@c" headers; R1 bases starting with A are accepted, with C rejected ("bc"), else the
   strategy raises ("IndexError" abbreviated "IE") *)
Definition ex_pair (h : Z) (s1 s2 : str) : pair :=
  [mkRead [64; h] s1 [43] (map (fun _ => 73) s1); mkRead [64; h] s2 [43] (map (fun _ => 73) s2)].
Definition exA := ex_pair 97 [65; 67; 71] [84; 84].
Definition exB := ex_pair 98 [67; 67] [71].
Definition exC := ex_pair 99 [71] [].
Definition ex_strat : strategy := fun p =>
  match p with
  | r1 :: r2 :: _ =>
      match r_seq r1 with
      | 65 :: rest => Accept [mkArec true [49] (fastq_text (r_header r1 ++ [59; 88]) rest [43] (tl (r_qual r1)));
                              mkArec true [49] (fastq_text (r_header r2 ++ [59; 88]) (r_seq r2) [43] (r_qual r2))]
      | 67 :: _ => Reject [98; 99]
      | _ => Raise [73; 69]
      end
  | _ => Raise [73; 69]
  end.
(* accepted, but serialising the second mate raises "VE" *)
Definition ex_partial : strategy := fun p =>
  match p with
  | r1 :: _ => Accept [mkArec true [49] (fastq_text (r_header r1) (r_seq r1) [43] (r_qual r1)); mkArec false [] [86; 69]]
  | _ => Raise [73; 69]
  end.
Definition ex_rejhdr : read -> str -> hout := fun r reason => HOk (tl (r_header r) ++ tagRR ++ reason).
Definition ex_cfg : config := mkConfig None true false 2 false.
Definition ex_pairs := [exA; exB; exC].

Lemma ex_rejhdr_contract : forall r reason h, ex_rejhdr r reason = HOk h -> contains (tagRR ++ reason) h.
Proof. intros r reason h H. inversion H. exists (tl (r_header r)), []. now rewrite app_nil_r. Qed.

(* the repaired loader on accept / reject / raise: every pair exactly once, R1/R2 in step, yield counter 1 *)
Lemma ex_run :
  let res := loader repaired_shape [ex_strat] ex_rejhdr ex_cfg ex_pairs in
  wf_shape repaired_shape = true /\
  res_crashed res = false /\ res_processed res = 3 /\ res_yields res = [1]
  /\ map lab (file_events (res_trace res) true [] 0) = [(0, 0)]%nat
  /\ map lab (file_events (res_trace res) true [] 1) = [(0, 0)]%nat
  /\ map lab (file_events (res_trace res) false [] 0) = [(1, 0); (2, 0)]%nat
  /\ map lab (file_events (res_trace res) false [] 1) = [(1, 0); (2, 0)]%nat
  /\ file_bytes (res_trace res) false [] 0 =
       [64;98;59;82;82;58;98;99;10; 67;67;10; 43;10; 73;73;10;   64;99;59;82;82;58;73;69;10; 71;10; 43;10; 73;10]
  /\ (forall r f, In r (consumed repaired_shape ex_cfg ex_pairs) -> In f [ex_strat] -> step_ok2 ex_cfg r f).
Proof.
  cbv zeta. repeat split; try (vm_compute; reflexivity).
  - destruct H0 as [<-|[]]. cbn in H. destruct H as [<-|[<-|[<-|[]]]]; vm_compute; lia.
  - destruct H0 as [<-|[]]. cbn in H. destruct H as [<-|[<-|[<-|[]]]]; cbn; try exact I.
    intros _ x y [<-|[<-|[]]] [<-|[<-|[]]]; reflexivity.
Qed.

(* the other well-formed loop order (maxReadPairs test first): with maxReadPairs = 2 two pairs are consumed, with 0 none *)
Lemma ex_run_test_first :
  wf_shape (good_shape false false) = true /\
  let res := loader (good_shape false false) [ex_strat] ex_rejhdr (mkConfig (Some 2) true false 2 false) ex_pairs in
  res_crashed res = false /\ res_processed res = 2 /\ res_yields res = [1]
  /\ map lab (file_events (res_trace res) false [] 0) = [(1, 0)]%nat
  /\ res_processed (loader (good_shape false false) [ex_strat] ex_rejhdr (mkConfig (Some 0) true false 2 false) ex_pairs) = 0
  /\ res_processed (loader repaired_shape [ex_strat] ex_rejhdr (mkConfig (Some 0) true false 2 false) ex_pairs) = 1.
Proof. vm_compute. repeat split; reflexivity. Qed.

(* the generic-exception arm of the unrepaired loader: pair 2 (the strategy raised) is written nowhere although a
   rejects handle exists, and the yield counter (2) exceeds the records written (1) *)
Lemma legacy_generic_arm_refuted :
  exists sh strats rejhdr cfg pairs,
    wf_shape sh = false /\ c_rejects cfg = true /\
    let res := loader sh strats rejhdr cfg pairs in
    res_crashed res = false /\ res_processed res = 3 /\
    filter (lab_eqb 2 0) (res_trace res) = [] /\
    nth 0 (res_yields res) 0 = 2 /\
    length (filter (written_by 0) (res_trace res)) = 1%nat.
Proof.
  exists legacy_shape, [ex_strat], ex_rejhdr, ex_cfg, ex_pairs. vm_compute. repeat split; reflexivity.
Qed.

(* every conjunct of wf_shape is needed: one field of the repaired shape changed, and a run that breaks the property.
   (1) reject arm without the handle guard: without a rejects handle the loader dies on the first rejected pair;
   (2) reject arm falling through to the increment: a rejected pair is counted as a yield;
   (3) reject arm writing to the demultiplexed output: the pair is in the wrong sink;
   (4) increment before the write: a pair whose write raises is counted although it went to the rejects;
   (5) maxReadPairs test between the increment and the strategy loop: the last counted pair is written nowhere;
   (6) accepted records not written: the pair is in neither sink although counted. *)
Definition set_reject (a : arm) (s : shape) : shape :=
  mkShape (sh_accept s) a (sh_generic s) (sh_count_early s) (sh_incr_before_test s) (sh_strat_before_test s).

Lemma shape_fields_needed :
  (* 1 *) (let sh := set_reject (mkArm SReject false false) repaired_shape in
           wf_shape sh = false /\
           res_crashed (loader sh [ex_strat] ex_rejhdr (mkConfig None false false 2 false) ex_pairs) = true) /\
  (* 2 *) (let sh := set_reject (mkArm SReject true true) repaired_shape in
           wf_shape sh = false /\
           let res := loader sh [ex_strat] ex_rejhdr ex_cfg ex_pairs in
           res_crashed res = false /\ res_yields res = [2] /\ length (filter (written_by 0) (res_trace res)) = 1%nat) /\
  (* 3 *) (let sh := set_reject (mkArm STarget true false) repaired_shape in
           wf_shape sh = false /\
           let res := loader sh [ex_strat] ex_rejhdr ex_cfg ex_pairs in
           res_crashed res = false /\ count_at (res_trace res) true 1 0 0 = 1%nat /\ count_at (res_trace res) false 1 0 0 = 0%nat) /\
  (* 4 *) (let sh := mkShape (mkArm STarget true true) (mkArm SReject true false) (mkArm SReject true false) true true true in
           wf_shape sh = false /\
           let res := loader sh [ex_partial] ex_rejhdr ex_cfg [exA] in
           res_crashed res = false /\ res_yields res = [1] /\ count_at (res_trace res) false 0 0 0 = 1%nat) /\
  (* 5 *) (let sh := mkShape (mkArm STarget true true) (mkArm SReject true false) (mkArm SReject true false) false true false in
           wf_shape sh = false /\
           let res := loader sh [ex_strat] ex_rejhdr (mkConfig (Some 2) true false 2 false) ex_pairs in
           res_crashed res = false /\ res_processed res = 2 /\ filter (lab_eqb 1 0) (res_trace res) = []) /\
  (* 6 *) (let sh := mkShape (mkArm SNone true true) (mkArm SReject true false) (mkArm SReject true false) false true true in
           wf_shape sh = false /\
           let res := loader sh [ex_strat] ex_rejhdr ex_cfg ex_pairs in
           res_crashed res = false /\ res_yields res = [1] /\ filter (lab_eqb 0 0) (res_trace res) = []).
Proof. vm_compute. repeat split; reflexivity. Qed.

(* a reject record that cannot be formatted (other exception than NonMultiplexable, e.g. the header limit with a
   very long library name) leaves the loop: the loader raises, the pair and everything after it is written nowhere *)
Lemma reject_crash_example :
  exists sh strats rejhdr cfg pairs,
    wf_shape sh = true /\
    let res := loader sh strats rejhdr cfg pairs in
    res_crashed res = true /\ filter (lab_eqb 1 0) (res_trace res) = [] /\ filter (lab_eqb 2 0) (res_trace res) = [].
Proof.
  exists repaired_shape, [ex_strat], (fun _ _ => HRaise), ex_cfg, ex_pairs. vm_compute. repeat split; reflexivity.
Qed.

(* the hypothesis step_ok excludes a PARTIAL write: if the first mate of an accepted pair is written and serialising the
   second raises (ValueError), FastqHandle.write has already put R1 into the demultiplexed output; the generic arm then
   puts both mates into the rejects: the pair is in both outputs and R1/R2 of the target fall out of step.  The
   correspondence check therefore treats a partial write of the real code as a violation. *)

Lemma partial_write_refuted :
  exists sh strats rejhdr cfg pairs,
    wf_shape sh = true /\ c_rejects cfg = true /\
    let res := loader sh strats rejhdr cfg pairs in
    res_crashed res = false /\
    count_at (res_trace res) true 0 0 0 = 1%nat /\ count_at (res_trace res) false 0 0 0 = 1%nat /\
    length (file_events (res_trace res) true [] 0) = 1%nat /\ length (file_events (res_trace res) true [] 1) = 0%nat /\
    res_yields res = [0].
Proof.
  exists repaired_shape, [ex_partial], ex_rejhdr, ex_cfg, [exA]. vm_compute. repeat split; reflexivity.
Qed.

(* the loader does not look at the log handle: with and without one the same writes, counters and outcome *)
Lemma log_independent : forall sh strats rejhdr cfg b pairs,
  loader sh strats rejhdr (set_log b cfg) pairs = loader sh strats rejhdr cfg pairs.
Proof. intros. reflexivity. Qed.

(* the reader: R2 is one record short and R1 has a whitespace-only line where the third header should be *)
Lemma ex_reader :
  fastq_iter [[[64;49]; [65]; [43]; [73];  [64;50;32;9]; [67]; [43]; [73]; [32]; [71]; [43]; [73]];
              [[64;49]; [84]; [43]; [73];  [64;50]; [71]; [43]]]
  = [[mkRead [64;49] [65] [43] [73]; mkRead [64;49] [84] [43] [73]];
     [mkRead [64;50] [67] [43] [73]; mkRead [64;50] [71] [43] []]].
Proof. vm_compute. reflexivity. Qed.
