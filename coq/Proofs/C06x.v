(* C06 proofs, extension part 1: the flat-buffer machine (pooling_method=0), every_fragment_as_molecule,
   the order of the capacity test. *)
From Coq Require Import ZArith List Bool Lia ZifyBool Permutation.
Import ListNotations.
From SCMO Require Import Lib.Val Gen.GenAssign Model.C06 Model.C06x Proofs.C06_shape Proofs.C06 Proofs.C06_main.
Open Scope Z_scope.

(* ---------------------------------------------------------------- shape of the generated kernel *)
Lemma add_decision0_shape a hc n cap :
  g_add_decision0 false a hc n cap = (if a then (if hc && (cap <=? n) then 2 else 1) else 0).
Proof. unfold g_add_decision0. destruct a, hc; shape. Qed.

Lemma pool_use_hash_shape : g_pool_use_hash 0 = false /\ g_pool_use_hash 1 = true.
Proof. split; reflexivity. Qed.

Lemma decide0_shape c f m : decide0 c f m = (if accepts0 c f m then (if full c m then 2 else 1) else 0).
Proof.
  unfold decide0. destruct pool_use_hash_shape as [-> _].
  unfold full, has_cap, cap_val. rewrite add_decision0_shape. destruct (c_cap c); cbn [andb]; reflexivity.
Qed.

Lemma offer0_cons c f m ms :
  offer0 c f (m :: ms) =
  if accepts0 c f m then (if full c m then Overflowed (mol_bump m f :: ms) else Added (mol_add m f :: ms))
  else match offer0 c f ms with
       | Added r => Added (m :: r)
       | Overflowed r => Overflowed (m :: r)
       | Rejected => Rejected
       end.
Proof. cbn [offer0]. rewrite decide0_shape. destruct (accepts0 c f m); [destruct (full c m)|]; reflexivity. Qed.

Lemma add0_shape c f m ms :
  offer0 c f (m :: ms) =
  (if accepts0 c f m then (if full c m then Overflowed (mol_bump m f :: ms) else Added (mol_add m f :: ms))
   else match offer0 c f ms with Added r => Added (m :: r) | Overflowed r => Overflowed (m :: r) | Rejected => Rejected end) /\
  g_pool_use_hash 0 = false /\ g_pool_use_hash 1 = true.
Proof. split; [apply offer0_cons|exact pool_use_hash_shape]. Qed.

(* the member-by-member comparison g.__eq__(f) *)
Definition feq_spec (c : cfg) (g f : frag) : bool :=
  if c_cls c =? 1 then zs_eqb (key c g) (key c f) && umi_eq (c_d c) (f_umi g) (f_umi f)
  else if c_cls c =? 2 then
    zs_eqb (key c g) (key c f)
    && negb ((0 <? c_r c) && (c_r c <? Z.abs (f_site g - f_site f)))
    && umi_eq (c_d c) (f_umi g) (f_umi f)
  else
    (f_cell g =? f_cell f) && (f_strand g =? f_strand f) && (f_contig g =? f_contig f)
    && negb (c_r c <? Z.min (Z.abs (f_site g - f_site f)) (Z.abs (f_end g - f_end f)))
    && umi_eq (c_d c) (f_umi g) (f_umi f).

Lemma feq_shape c g f : feq c g f = feq_spec c g f.
Proof.
  unfold feq, feq_spec, g_nla_eq, g_chic_eq, g_fragment_eq. cbv zeta.
  generalize (umi_eq (c_d c) (f_umi g) (f_umi f)) (zs_eqb (key c g) (key c f)).
  intros u h. destruct (c_cls c =? 1); [destruct h, u; shape|].
  destruct (c_cls c =? 2).
  - generalize (Z.abs (f_site g - f_site f)). intros x. destruct h, u; shape.
  - generalize (Z.min (Z.abs (f_site g - f_site f)) (Z.abs (f_end g - f_end f))). intros x.
    destruct u; shape.
Qed.

(* ---------------------------------------------------------------- offer0: first molecule with a matching member *)
Definition rejects0 (c : cfg) (f : frag) (ms : list mol) : Prop := forall m, In m ms -> accepts0 c f m = false.

Lemma offer0_spec c f ms :
  match offer0 c f ms with
  | Added ms' => exists l1 m l2, ms = l1 ++ m :: l2 /\ ms' = l1 ++ mol_add m f :: l2 /\
                                 accepts0 c f m = true /\ full c m = false /\ rejects0 c f l1
  | Overflowed ms' => exists l1 m l2, ms = l1 ++ m :: l2 /\ ms' = l1 ++ mol_bump m f :: l2 /\
                                      accepts0 c f m = true /\ full c m = true /\ rejects0 c f l1
  | Rejected => rejects0 c f ms
  end.
Proof.
  induction ms as [|m ms IH]; [cbn [offer0]|rewrite offer0_cons].
  - intros m [].
  - destruct (accepts0 c f m) eqn:Ha.
    + destruct (full c m) eqn:Hf.
      * exists [], m, ms. repeat split; auto. intros x [].
      * exists [], m, ms. repeat split; auto. intros x [].
    + destruct (offer0 c f ms) as [r|r|].
      * destruct IH as (l1 & m0 & l2 & -> & -> & H1 & H2 & H3).
        exists (m :: l1), m0, l2. repeat split; auto. intros x [<-|Hx]; auto.
      * destruct IH as (l1 & m0 & l2 & -> & -> & H1 & H2 & H3).
        exists (m :: l1), m0, l2. repeat split; auto. intros x [<-|Hx]; auto.
      * intros x [<-|Hx]; auto.
Qed.

(* one arrival on the flat buffer (deterministic: the FIRST accepting molecule; a new one goes to the end) *)
Inductive trans0 (c : cfg) (f : frag) : list mol -> list mol -> option mol -> Prop :=
| t0_add X X' l1 m l2 : X = l1 ++ m :: l2 -> X' = l1 ++ mol_add m f :: l2 ->
    accepts0 c f m = true -> full c m = false -> rejects0 c f l1 -> trans0 c f X X' None
| t0_over X X' l1 m l2 : X = l1 ++ m :: l2 -> X' = l1 ++ mol_bump m f :: l2 ->
    accepts0 c f m = true -> full c m = true -> rejects0 c f l1 -> trans0 c f X X' (Some (mol_new 1 f))
| t0_new X X' : X' = X ++ [mol_new 0 f] -> rejects0 c f X -> trans0 c f X X' None.

Definition s00 : state0 := {| s0_mols := []; s0_emitted := [] |}.

Lemma step0_cases c st f :
  (f_valid f = false /\ s0_mols (step0 c st f) = s0_mols st /\
   s0_emitted (step0 c st f) = s0_emitted st ++ (if c_yinv c then [mol_new 2 f] else [])) \/
  (f_valid f = true /\ exists e, trans0 c f (s0_mols st) (s0_mols (step0 c st f)) e /\
   s0_emitted (step0 c st f) = s0_emitted st ++ emit_of c e).
Proof.
  unfold step0. destruct (f_valid f) eqn:Hv; cbn [negb].
  - right. split; [reflexivity|]. pose proof (offer0_spec c f (s0_mols st)) as Ho.
    destruct (offer0 c f (s0_mols st)) as [r|r|]; cbn [s0_mols s0_emitted].
    + destruct Ho as (l1 & m & l2 & E1 & E2 & Ha & Hf & Hr). exists None. split; [|cbn; now rewrite app_nil_r].
      eapply t0_add; eassumption.
    + destruct Ho as (l1 & m & l2 & E1 & E2 & Ha & Hf & Hr). exists (Some (mol_new 1 f)). split.
      * eapply t0_over; eassumption.
      * unfold emit_of. destruct (c_yover c); now rewrite ?app_nil_r.
    + exists None. split; [|cbn; now rewrite app_nil_r]. now apply t0_new.
  - left. destruct (c_yinv c); cbn [s0_mols s0_emitted]; repeat split; now rewrite ?app_nil_r.
Qed.

Section Invariant0.
  Variable c : cfg.
  Variable P : list frag -> list mol -> list mol -> Prop.   (* arrived prefix, flat buffer, emitted *)
  Hypothesis P0 : P [] [] [].
  Hypothesis Pinv : forall pre X E f, P pre X E -> f_valid f = false ->
    P (pre ++ [f]) X (E ++ (if c_yinv c then [mol_new 2 f] else [])).
  Hypothesis Pval : forall pre X E f X' e, P pre X E -> f_valid f = true -> trans0 c f X X' e ->
    P (pre ++ [f]) X' (E ++ emit_of c e).

  Lemma fold_inv0 frags : forall pre st, P pre (s0_mols st) (s0_emitted st) ->
    P (pre ++ frags) (s0_mols (fold_left (step0 c) frags st)) (s0_emitted (fold_left (step0 c) frags st)).
  Proof.
    induction frags as [|f frags IH]; intros pre st HP; cbn [fold_left].
    - now rewrite app_nil_r.
    - replace (pre ++ f :: frags) with ((pre ++ [f]) ++ frags) by now rewrite <- app_assoc.
      apply IH. destruct (step0_cases c st f) as [(Hv & Hg & He)|(Hv & e & Ht & He)].
      + rewrite Hg, He. now apply Pinv.
      + rewrite He. eapply Pval; eassumption.
  Qed.

  Lemma run_inv0 frags : let st := fold_left (step0 c) frags s00 in P frags (s0_mols st) (s0_emitted st).
  Proof. cbn zeta. apply (fold_inv0 frags [] s00). exact P0. Qed.
End Invariant0.

Lemma assign0_some c frags out : assign0 c frags = Some out ->
  (cap_bad c = true /\ out = [] /\ forall f, In f frags -> needs_mol c f = false) \/
  (cap_bad c = false /\ out = assign0_ok c frags).
Proof.
  unfold assign0. destruct (cap_bad c).
  - destruct (existsb (needs_mol c) frags) eqn:E; [discriminate|]. intros H; inversion H; subst. left.
    repeat split. intros f Hf. destruct (needs_mol c f) eqn:En; [|reflexivity].
    assert (existsb (needs_mol c) frags = true) by (apply existsb_exists; now exists f). congruence.
  - intros H; inversion H. now right.
Qed.

Lemma filter_needs_none c frags : (forall f, In f frags -> needs_mol c f = false) -> filter (needs_mol c) frags = [].
Proof. intros H. apply filter_none. exact H. Qed.

(* ---------------------------------------------------------------- partition (pooling 0) *)
Lemma partition0_inv c frags : c_yover c = true -> let st := fold_left (step0 c) frags s00 in
  Permutation (frs (s0_emitted st ++ s0_mols st)) (filter (needs_mol c) frags).
Proof.
  intros Hy. apply (run_inv0 c (fun pre X E => Permutation (frs (E ++ X)) (filter (needs_mol c) pre))).
  - constructor.
  - intros pre X E f HP Hv. rewrite filter_snoc. unfold needs_mol at 2. rewrite Hv. cbn [orb].
    destruct (c_yinv c); [|now rewrite !app_nil_r].
    rewrite <- app_assoc, !frs_app. cbn [app]. rewrite frs_cons. cbn [mol_new m_frags app].
    rewrite frs_app in HP. apply Permutation_sym. apply Permutation_trans with (f :: filter (needs_mol c) pre).
    + apply Permutation_sym, Permutation_cons_append.
    + apply Permutation_cons_app. now apply Permutation_sym.
  - intros pre X E f X' e HP Hv Ht. rewrite filter_snoc. unfold needs_mol at 2. rewrite Hv. cbn [orb].
    apply Permutation_trans with (f :: filter (needs_mol c) pre); [|apply Permutation_cons_append].
    rewrite frs_app in HP. inversion Ht; subst; unfold emit_of; rewrite ?Hy, ?app_nil_r, !frs_app, ?frs_cons in *.
    + cbn [mol_add m_frags]. rewrite <- !app_assoc. cbn [app].
      replace (frs E ++ frs l1 ++ m_frags m ++ f :: frs l2) with ((frs E ++ frs l1 ++ m_frags m) ++ f :: frs l2)
        by now rewrite <- !app_assoc.
      apply Permutation_sym, Permutation_cons_app. rewrite <- !app_assoc. now apply Permutation_sym.
    + cbn [mol_bump m_frags mol_new app frs map concat]. rewrite <- app_assoc. cbn [app].
      apply Permutation_sym, Permutation_cons_app. now apply Permutation_sym.
    + change (frs [mol_new 0 f]) with [f]. rewrite app_assoc. apply Permutation_sym.
      apply Permutation_trans with (f :: (frs E ++ frs X)); [constructor; now apply Permutation_sym|apply Permutation_cons_append].
Qed.

Lemma partition0_main c frags out : c_yover c = true -> assign0 c frags = Some out ->
  Permutation (concat (map m_frags out)) (filter (needs_mol c) frags).
Proof.
  intros Hy Ha. apply assign0_some in Ha as [(_ & -> & Hn)|(_ & ->)].
  - rewrite filter_needs_none by assumption. constructor.
  - apply (partition0_inv c frags Hy).
Qed.

(* ---------------------------------------------------------------- TF accounting (pooling 0) *)
Lemma tf0_inv c frags : let st := fold_left (step0 c) frags s00 in
  tf_sum (s0_mols st) = length (filter f_valid frags).
Proof.
  apply (run_inv0 c (fun pre X E => tf_sum X = length (filter f_valid pre))).
  - reflexivity.
  - intros pre X E f HP Hv. rewrite filter_snoc, Hv, app_nil_r. assumption.
  - intros pre X E f X' e HP Hv Ht. rewrite filter_snoc, Hv, app_length. cbn [length]. rewrite <- HP.
    inversion Ht; subst; rewrite !tf_sum_app; unfold tf_sum; cbn [map list_sum]; unfold tfn; cbn [mol_add mol_bump mol_new m_frags m_ovf];
      rewrite ?app_length; cbn [length]; unfold list_sum; cbn [fold_right]; lia.
Qed.

(* ---------------------------------------------------------------- structure of the result, cap (pooling 0) *)
Lemma trans0_in c f X X' e m' : trans0 c f X X' e -> In m' X' ->
  In m' X \/
  (exists m, In m X /\ accepts0 c f m = true /\
     ((full c m = false /\ m' = mol_add m f /\ e = None) \/ (full c m = true /\ m' = mol_bump m f /\ e = Some (mol_new 1 f)))) \/
  (m' = mol_new 0 f /\ rejects0 c f X /\ e = None).
Proof.
  intros H Hin. inversion H; subst; apply in_app_or in Hin as [Hin|[<-|Hin]].
  - left. apply in_or_app; now left.
  - right; left. exists m. split; [apply in_or_app; right; now left|]. split; [assumption|]. left. auto.
  - left. apply in_or_app; right; now right.
  - left. apply in_or_app; now left.
  - right; left. exists m. split; [apply in_or_app; right; now left|]. split; [assumption|]. right. auto.
  - left. apply in_or_app; right; now right.
  - now left.
  - right; right. auto.
  - destruct Hin.
Qed.

Lemma basic0_inv c frags : let st := fold_left (step0 c) frags s00 in
  (forall m, In m (s0_mols st) -> cached_ok c m) /\ (forall m, In m (s0_emitted st) -> emitted_ok m).
Proof.
  apply (run_inv0 c (fun _ X E => (forall m, In m X -> cached_ok c m) /\ (forall m, In m E -> emitted_ok m))).
  - split; intros m [].
  - intros pre X E f [HX HE] Hv. split; [assumption|]. intros m Hm. apply in_app_or in Hm as [Hm|Hm]; [auto|].
    destruct (c_yinv c); [|destruct Hm]. destruct Hm as [<-|[]]. split; [now right|]. split; [reflexivity|].
    exists f. repeat split; cbn; congruence.
  - intros pre X E f X' e [HX HE] Hv Ht. split.
    + intros m' Hm'. destruct (trans0_in _ _ _ _ _ _ Ht Hm') as [H|[(m & Hm & Ha & [(Hf & -> & _)|(Hf & -> & _)])|(-> & _)]].
      * auto.
      * destruct (HX _ Hm) as (Hk & Hne & Hval & Hov). split; [assumption|]. split; [|split].
        -- cbn. intros E0. apply app_eq_nil in E0 as [_ E0]. discriminate.
        -- cbn. intros g Hg. apply in_app_or in Hg as [Hg|[<-|[]]]; auto.
        -- cbn [mol_add m_ovf]. intros Ho. apply Hov in Ho. congruence.
      * destruct (HX _ Hm) as (Hk & Hne & Hval & Hov). split; [assumption|]. split; [assumption|]. split; [assumption|].
        intros _. now rewrite full_bump.
      * split; [reflexivity|]. split; [cbn; discriminate|]. split; [cbn; intros g [<-|[]]; assumption|]. cbn. congruence.
    + intros m Hm. apply in_app_or in Hm as [Hm|Hm]; [auto|]. inversion Ht; subst; cbn in Hm; try destruct Hm.
      destruct (c_yover c); [|destruct Hm]. destruct Hm as [<-|[]]. split; [now left|]. split; [reflexivity|].
      exists f. repeat split; cbn; congruence.
Qed.

(* no molecule exceeds the cap; only a full molecule has refused fragments *)
Lemma cap0_inv c k frags : c_cap c = Some k -> 1 <= k -> let st := fold_left (step0 c) frags s00 in
  (forall m, In m (s0_emitted st ++ s0_mols st) ->
     Z.of_nat (length (m_frags m)) <= k /\ (m_ovf m <> [] -> Z.of_nat (length (m_frags m)) = k)).
Proof.
  intros Hc Hk.
  apply (run_inv0 c (fun _ X E => forall m, In m (E ++ X) ->
           Z.of_nat (length (m_frags m)) <= k /\ (m_ovf m <> [] -> Z.of_nat (length (m_frags m)) = k))).
  - intros m [].
  - intros pre X E f HP Hv m Hm. rewrite <- app_assoc in Hm. apply in_app_or in Hm as [Hm|Hm].
    + apply HP. apply in_or_app. now left.
    + apply in_app_or in Hm as [Hm|Hm]; [|apply HP; apply in_or_app; now right].
      destruct (c_yinv c); [|destruct Hm]. destruct Hm as [<-|[]]. cbn. split; [lia|congruence].
  - intros pre X E f X' e HP Hv Ht m' Hm'. rewrite <- app_assoc in Hm'. apply in_app_or in Hm' as [Hm'|Hm'].
    { apply HP. apply in_or_app. now left. }
    apply in_app_or in Hm' as [Hm'|Hm'].
    { unfold emit_of in Hm'. destruct e as [m0|]; [|destruct Hm']. destruct (c_yover c); [|destruct Hm'].
      destruct Hm' as [<-|[]]. inversion Ht; subst. cbn. split; [lia|congruence]. }
    destruct (trans0_in _ _ _ _ _ _ Ht Hm') as [H|[(m & Hm & Ha & [(Hf & -> & _)|(Hf & -> & _)])|(-> & _)]].
    + apply HP. apply in_or_app. now right.
    + assert (Hin : In m (E ++ X)) by (apply in_or_app; now right). destruct (HP _ Hin) as [H1 H2].
      unfold full in Hf. rewrite Hc in Hf. cbn [mol_add m_frags m_ovf]. rewrite app_length. cbn [length].
      split; [lia|]. intros Ho. apply H2 in Ho. lia.
    + assert (Hin : In m (E ++ X)) by (apply in_or_app; now right). destruct (HP _ Hin) as [H1 H2].
      unfold full in Hf. rewrite Hc in Hf. cbn [mol_bump m_frags m_ovf]. split; [assumption|]. intros _. lia.
    + cbn. split; [lia|congruence].
Qed.

Lemma cap0_main c frags out k m : c_cap c = Some k -> assign0 c frags = Some out -> In m out ->
  Z.of_nat (length (m_frags m)) <= k /\ (m_ovf m <> [] -> Z.of_nat (length (m_frags m)) = k).
Proof.
  intros Hc Ha Hm. apply assign0_some in Ha as [(_ & -> & _)|(Hb & ->)]; [destruct Hm|].
  rewrite cap_bad_shape, Hc in Hb. apply (cap0_inv c k frags Hc); [lia|exact Hm].
Qed.

Lemma normal0_parts c frags out : assign0 c frags = Some out ->
  (cap_bad c = false /\ out = s0_emitted (fold_left (step0 c) frags s00) ++ s0_mols (fold_left (step0 c) frags s00) /\
   filter normal out = s0_mols (fold_left (step0 c) frags s00)) \/
  (cap_bad c = true /\ out = [] /\ forall f, In f frags -> needs_mol c f = false).
Proof.
  intros H. apply assign0_some in H as [(Hb & -> & Hn)|(Hb & ->)]; [right; auto|left].
  split; [assumption|]. split; [reflexivity|]. destruct (basic0_inv c frags) as [HX HE]. apply filter_normal.
  - intros m Hm. now destruct (HX m Hm).
  - intros m Hm. now destruct (HE m Hm).
Qed.

Lemma tf0_total_main c frags out : assign0 c frags = Some out ->
  list_sum (map tfn (filter normal out)) = length (filter f_valid frags).
Proof.
  intros H. destruct (normal0_parts _ _ _ H) as [(_ & _ & ->)|(_ & -> & Hn)].
  - apply tf0_inv.
  - cbn. rewrite filter_none; [reflexivity|]. intros f Hf. apply Hn in Hf. unfold needs_mol in Hf.
    now apply orb_false_iff in Hf as [Hf _].
Qed.

(* ---------------------------------------------------------------- soundness (pooling 0): linked through SOME member *)
Definition link (c : cfg) (g f : frag) : Prop :=
  umi_close (c_d c) (f_umi g) (f_umi f) /\
  (c_cls c = 2 -> 0 < c_r c -> Z.abs (f_site g - f_site f) <= c_r c) /\
  (c_cls c <> 1 -> c_cls c <> 2 -> Z.min (Z.abs (f_site g - f_site f)) (Z.abs (f_end g - f_end f)) <= c_r c).
Definition mol_sound0 (c : cfg) (fs : list frag) : Prop :=
  (forall f g, In f fs -> In g fs -> origin_ok c f g) /\
  (forall p f q, fs = p ++ f :: q -> p <> [] -> exists g, In g p /\ link c g f).

Lemma feq_meaning c g f : feq c g f = true -> origin_ok c g f /\ link c g f.
Proof.
  rewrite feq_shape. unfold feq_spec, link, origin_ok, same_origin, exact_site.
  destruct (c_cls c =? 1) eqn:E1; [|destruct (c_cls c =? 2) eqn:E2].
  - apply Z.eqb_eq in E1. intros H. apply andb_true_iff in H as [Hk Hu].
    apply zs_eqb_eq in Hk. apply (key_nla c g f E1) in Hk as (H1 & H2 & H3 & H4). apply umi_eq_close in Hu.
    repeat split; auto; intros; lia.
  - apply Z.eqb_neq in E1. apply Z.eqb_eq in E2. intros H. apply andb_true_iff in H as [H Hu].
    apply andb_true_iff in H as [Hk Hr]. apply zs_eqb_eq in Hk. apply umi_eq_close in Hu.
    destruct (Z.eq_dec (c_r c) 0) as [Er|Er].
    + apply (key_chic0 c g f E2 Er) in Hk as (H1 & H2 & H3 & H4). repeat split; auto; intros; lia.
    + apply (key_chicr c g f E2 Er) in Hk as (H1 & H2 & H3). repeat split; auto; intros; try lia.
  - apply Z.eqb_neq in E1. apply Z.eqb_neq in E2. intros H.
    apply andb_true_iff in H as [H Hu]. apply andb_true_iff in H as [H Hr]. apply andb_true_iff in H as [H H3].
    apply andb_true_iff in H as [H1 H2]. apply umi_eq_close in Hu.
    repeat split; auto; try lia.
Qed.

Lemma origin_ok_trans c f g h : origin_ok c f g -> origin_ok c g h -> origin_ok c f h.
Proof.
  intros [(A1 & A2 & A3) A4] [(B1 & B2 & B3) B4]. split; [repeat split; congruence|].
  intros He. rewrite A4, B4; auto.
Qed.

Lemma accepts0_in c f m : accepts0 c f m = true -> exists g, In g (m_frags m) /\ feq c g f = true.
Proof. unfold accepts0. intros H. apply existsb_exists in H. exact H. Qed.

Lemma mol_sound0_one c f : mol_sound0 c [f].
Proof.
  split.
  - intros x y [<-|[]] [<-|[]]. apply origin_ok_refl.
  - intros p x q H Hp. destruct p as [|a p]; [congruence|]. destruct p; discriminate.
Qed.

Lemma mol_sound0_snoc c fs f g : mol_sound0 c fs -> In g fs -> feq c g f = true -> mol_sound0 c (fs ++ [f]).
Proof.
  intros [H1 H2] Hg Hf. apply feq_meaning in Hf as [Ho Hl].
  assert (Hall : forall x, In x fs -> origin_ok c f x).
  { intros x Hx. apply origin_ok_trans with g; [now apply origin_ok_sym|auto]. }
  split.
  - intros x y Hx Hy. apply in_app_or in Hx as [Hx|[<-|[]]]; apply in_app_or in Hy as [Hy|[<-|[]]].
    + auto.
    + apply origin_ok_sym; auto.
    + auto.
    + apply origin_ok_refl.
  - intros p x q Heq Hp. symmetry in Heq. apply snoc_split in Heq as [(-> & -> & ->)|(q' & -> & ->)].
    + exists g. auto.
    + eapply H2; [reflexivity|assumption].
Qed.

Lemma sound0_inv c frags : let st := fold_left (step0 c) frags s00 in
  forall m, In m (s0_emitted st ++ s0_mols st) -> mol_sound0 c (m_frags m).
Proof.
  apply (run_inv0 c (fun _ X E => forall m, In m (E ++ X) -> mol_sound0 c (m_frags m))).
  - intros m [].
  - intros pre X E f HP Hv m Hm. rewrite <- app_assoc in Hm. apply in_app_or in Hm as [Hm|Hm].
    + apply HP. apply in_or_app. now left.
    + apply in_app_or in Hm as [Hm|Hm]; [|apply HP; apply in_or_app; now right].
      destruct (c_yinv c); [|destruct Hm]. destruct Hm as [<-|[]]. apply mol_sound0_one.
  - intros pre X E f X' e HP Hv Ht m' Hm'. rewrite <- app_assoc in Hm'. apply in_app_or in Hm' as [Hm'|Hm'].
    { apply HP. apply in_or_app. now left. }
    apply in_app_or in Hm' as [Hm'|Hm'].
    { unfold emit_of in Hm'. destruct e as [m0|]; [|destruct Hm']. destruct (c_yover c); [|destruct Hm'].
      destruct Hm' as [<-|[]]. inversion Ht; subst. apply mol_sound0_one. }
    destruct (trans0_in _ _ _ _ _ _ Ht Hm') as [H|[(m & Hm & Ha & [(Hf & -> & _)|(Hf & -> & _)])|(-> & _)]].
    + apply HP. apply in_or_app. now right.
    + assert (Hin : In m (E ++ X)) by (apply in_or_app; now right).
      apply accepts0_in in Ha as (g & Hg & Hfe). cbn [mol_add m_frags]. eapply mol_sound0_snoc; eauto.
    + cbn [mol_bump m_frags]. apply HP. apply in_or_app. now right.
    + apply mol_sound0_one.
Qed.

Lemma sound0_main c frags out m : assign0 c frags = Some out -> In m out ->
  (forall f g, In f (m_frags m) -> In g (m_frags m) ->
     f_cell f = f_cell g /\ f_strand f = f_strand g /\ f_contig f = f_contig g /\ (exact_site c -> f_site f = f_site g)) /\
  (forall p f q, m_frags m = p ++ f :: q -> p <> [] -> exists g, In g p /\ link c g f) /\
  (m_kind m <> 2 -> forall f, In f (m_frags m) -> f_valid f = true).
Proof.
  intros Ha Hm. apply assign0_some in Ha as [(_ & -> & _)|(Hb & ->)]; [destruct Hm|].
  destruct (sound0_inv c frags m Hm) as [H1 H2]. split; [|split].
  - intros f g Hf Hg. destruct (H1 f g Hf Hg) as [(A & B & C) D]. auto.
  - exact H2.
  - intros Hk f Hf. destruct (basic0_inv c frags) as [HX HE]. unfold assign0_ok in Hm. apply in_app_or in Hm as [Hm|Hm].
    + destruct (HE m Hm) as ([K|K] & _ & x & Hx & Hv1 & _); [|contradiction]. rewrite Hx in Hf. destruct Hf as [<-|[]]. auto.
    + destruct (HX m Hm) as (_ & _ & Hv & _). auto.
Qed.

(* ---------------------------------------------------------------- every_fragment_as_molecule *)
Lemma efm_main c frags out : assign_efm c frags = Some out ->
  Permutation (concat (map m_frags out)) (filter (needs_mol c) frags) /\
  (forall m, In m out -> exists f, In f frags /\ m_frags m = [f] /\ m_ovf m = [] /\
      (m_kind m = 0 /\ f_valid f = true \/ m_kind m = 2 /\ f_valid f = false /\ c_yinv c = true)) /\
  map m_frags (filter normal out) = map (fun f => [f]) (filter f_valid frags).
Proof.
  unfold assign_efm. destruct (cap_bad c).
  - destruct (existsb (needs_mol c) frags) eqn:E; [discriminate|]. intros H; inversion H; subst.
    assert (Hn : forall f, In f frags -> needs_mol c f = false).
    { intros f Hf. destruct (needs_mol c f) eqn:En; [|reflexivity].
      assert (existsb (needs_mol c) frags = true) by (apply existsb_exists; now exists f). congruence. }
    split; [rewrite filter_none by assumption; constructor|]. split; [intros m []|].
    cbn. rewrite filter_none; [reflexivity|]. intros f Hf. apply Hn in Hf. unfold needs_mol in Hf.
    now apply orb_false_iff in Hf as [Hf _].
  - intros H; inversion H; subst. clear H. split; [|split].
    + induction frags as [|f frags IH]; [constructor|]. cbn [flat_map map concat filter]. rewrite map_app, concat_app.
      assert (Hn : needs_mol c f = f_valid f || c_yinv c) by reflexivity. rewrite Hn.
      unfold efm_one at 1. destruct (f_valid f); cbn [orb map concat app m_frags mol_new].
      * apply perm_skip. exact IH.
      * destruct (c_yinv c); cbn [map concat app m_frags mol_new]; [apply perm_skip; exact IH|exact IH].
    + intros m Hm. apply in_flat_map in Hm as (f & Hf & Hm). exists f. split; [assumption|]. unfold efm_one in Hm.
      destruct (f_valid f) eqn:Hv; [|destruct (c_yinv c) eqn:Hy]; try destruct Hm as [<-|[]]; try destruct Hm; cbn; auto 10.
    + induction frags as [|f frags IH]; [reflexivity|]. cbn [flat_map filter]. rewrite filter_app, map_app, IH.
      unfold efm_one. destruct (f_valid f); [reflexivity|]. destruct (c_yinv c); reflexivity.
Qed.

(* write_tags of a one-fragment molecule without refused fragments: RC 0, not duplicate, af 1, TF 1 *)
Lemma single_tags m f : m_frags m = [f] -> m_ovf m = [] ->
  write_tags true m = [{| t_id := f_id f; t_rc := 0; t_dup := false; t_af := 1; t_tf := 1; t_qc := negb (f_valid f) |}].
Proof.
  intros Hf Ho. unfold write_tags, m_over. rewrite Hf, Ho. cbn [length Z.of_nat]. rewrite tags_from_cons by lia. reflexivity.
Qed.

(* ---------------------------------------------------------------- two iterators in one process *)
Lemma duo_isolated {S1 S2 : Type} (stepA : S1 -> frag -> S1) (stepB : S2 -> frag -> S2) sched :
  forall la lb sa sb, duo_run stepA stepB sched la lb sa sb = (fold_left stepA la sa, fold_left stepB lb sb).
Proof.
  induction sched as [|[] s IH]; intros la lb sa sb; cbn [duo_run]; [reflexivity| |].
  - destruct lb as [|b lb]; rewrite IH; reflexivity.
  - destruct la as [|a la]; rewrite IH; reflexivity.
Qed.

Lemma duo_isolated_main c1 c2 sched la lb :
  duo_run (step c1) (step0 c2) sched la lb st0 s00 = (fold_left (step c1) la st0, fold_left (step0 c2) lb s00) /\
  duo_run (step c1) (step c2) sched la lb st0 st0 = (fold_left (step c1) la st0, fold_left (step c2) lb st0).
Proof. split; apply duo_isolated. Qed.
