(* C17 shape lemmas: what the proofs need from the definitions REGENERATED from the source
   (Gen/GenTiling.v).  Each is closed by unfolding the generated definition and lia, so an arithmetically
   equivalent rewrite of the source expression keeps them (and everything above) valid, while a changed
   comparison (< vs <=), a dropped clip, another merged end, another sentinel ... breaks the lemma here. *)
From Coq Require Import ZArith List Bool Lia ZifyBool.
Import ListNotations.
From SCMO Require Import Lib.Tiling Gen.GenTiling.
Open Scope Z_scope.
Ltac Zify.zify_post_hook ::= Z.to_euclidean_division_equations.

Ltac tuple_eq := repeat match goal with |- (_, _) = (_, _) => apply f_equal2 end; try lia.

(* ---- fill_range *)
Lemma sh_fr_init st en step : g_fr_init st en step = st.
Proof. unfold g_fr_init. lia. Qed.
Lemma sh_fr_range st en step : g_fr_range st en step = (st, en, step).
Proof. unfold g_fr_range. tuple_eq. Qed.
Lemma sh_fr_e st en step s e : g_fr_e st en step s e = s + step.
Proof. unfold g_fr_e. lia. Qed.
Lemma sh_fr_over st en step s e : g_fr_over st en step s e = true <-> en < e.
Proof. unfold g_fr_over. lia. Qed.
Lemma sh_fr_back st en step s e : g_fr_back st en step s e = e - step.
Proof. unfold g_fr_back. lia. Qed.
Lemma sh_fr_yield st en step s e : g_fr_yield st en step s e = (s, e).
Proof. unfold g_fr_yield. tuple_eq. Qed.
Lemma sh_fr_tail st en step e : g_fr_tail st en step e = true <-> e < en.
Proof. unfold g_fr_tail. lia. Qed.
Lemma sh_fr_last st en step e : g_fr_last st en step e = (e, en).
Proof. unfold g_fr_last. tuple_eq. Qed.

(* ---- trim_rangelist: kept iff the start or the end lies in [sc,ec) or the range covers it *)
Lemma sh_trim_keep sc ec s e :
  g_trim_keep sc ec s e = true <-> (sc <= s < ec) \/ (sc <= e < ec) \/ (s < sc /\ ec <= e).
Proof. unfold g_trim_keep. lia. Qed.
Lemma sh_trim_clip sc ec s e : g_trim_clip sc ec s e = (Z.max s sc, Z.min e ec).
Proof. unfold g_trim_clip. tuple_eq. Qed.

(* ---- overlap tests and the merged interval *)
Lemma sh_rco_short n : g_rco_short n = true <-> n < 2.
Proof. unfold g_rco_short. lia. Qed.
Lemma sh_rco_ov s e ns ne : g_rco_ov s e ns ne = true <-> ns < s \/ ns < e \/ ne < e \/ ne < s.
Proof. unfold g_rco_ov. lia. Qed.
Lemma sh_mp_ov s e ns ne : g_mp_ov s e ns ne = true <-> ns < s \/ ns < e \/ ne < e \/ ne < s.
Proof. unfold g_mp_ov. lia. Qed.
Lemma sh_mp_merge s e ns ne : g_mp_merge s e ns ne = (Z.min s ns, Z.max ne e).
Proof. unfold g_mp_merge. tuple_eq. Qed.
Lemma sh_mp_keep s e ns ne : g_mp_keep s e ns ne = (s, e).
Proof. unfold g_mp_keep. tuple_eq. Qed.

(* ---- blacklisted_binning *)
Lemma sh_bb_need_merge n : g_bb_need_merge n = true <-> 1 < n.
Proof. unfold g_bb_need_merge. lia. Qed.
Lemma sh_bb_cur0 sc ec : g_bb_cur0 sc ec = sc.
Proof. unfold g_bb_cur0. lia. Qed.
Lemma sh_bb_trim_args sc ec : g_bb_trim_args sc ec = (sc, ec).
Proof. unfold g_bb_trim_args. tuple_eq. Qed.
Lemma sh_bb_sentinel sc ec : g_bb_sentinel sc ec = (ec, ec + 1).
Proof. unfold g_bb_sentinel. tuple_eq. Qed.
Lemma sh_bb_skip sc ec bs st en cur : g_bb_skip sc ec bs st en cur = true <-> st = cur.
Proof. unfold g_bb_skip. lia. Qed.
Lemma sh_bb_cur_skip sc ec bs st en cur : g_bb_cur_skip sc ec bs st en cur = en.
Proof. unfold g_bb_cur_skip. lia. Qed.
Lemma sh_bb_tb_args sc ec bs st en cur : g_bb_tb_args sc ec bs st en cur = (cur, st, bs).
Proof. unfold g_bb_tb_args. tuple_eq. Qed.
Lemma sh_bb_tb_neg n : g_bb_tb_neg n = true <-> n < 0.
Proof. unfold g_bb_tb_neg. lia. Qed.
Lemma sh_bb_tb_zero n : g_bb_tb_zero n = true <-> n = 0.
Proof. unfold g_bb_tb_zero. lia. Qed.
Lemma sh_bb_tb_one n : g_bb_tb_one n = 1.
Proof. unfold g_bb_tb_one. lia. Qed.
(* int((start - current) / total_bins) for a non-negative gap and a positive count is the floor quotient *)
Lemma sh_bb_lbs sc ec bs st en cur tb : 0 <= st - cur -> 0 < tb ->
  g_bb_lbs sc ec bs st en cur tb = (st - cur) / tb.
Proof. intros H1 H2. unfold g_bb_lbs. nia. Qed.
Lemma sh_bb_gap_start sc ec bs st en cur tb : g_bb_gap_start sc ec bs st en cur tb = cur.
Proof. unfold g_bb_gap_start. lia. Qed.
Lemma sh_bb_fill_args sc ec bs st en cur tb lbs : g_bb_fill_args sc ec bs st en cur tb lbs = (cur, st, lbs).
Proof. unfold g_bb_fill_args. tuple_eq. Qed.
Lemma sh_bb_yield2 sc ec bs st en gs ps pe : g_bb_yield2 sc ec bs st en gs ps pe = (ps, pe).
Proof. unfold g_bb_yield2. tuple_eq. Qed.
(* the window is the bin widened by f and clipped to the gap [gs, st) *)
Lemma sh_bb_fs sc ec bs st en gs ps pe f : g_bb_fs sc ec bs st en gs ps pe f = Z.max gs (ps - f).
Proof. unfold g_bb_fs. lia. Qed.
Lemma sh_bb_fe sc ec bs st en gs ps pe f : g_bb_fe sc ec bs st en gs ps pe f = Z.min st (pe + f).
Proof. unfold g_bb_fe. lia. Qed.
Lemma sh_bb_yield4 ps pe fs fe : g_bb_yield4 ps pe fs fe = (ps, pe, fs, fe).
Proof. unfold g_bb_yield4. tuple_eq. Qed.
Lemma sh_bb_cur_after sc ec st en : g_bb_cur_after sc ec st en = en.
Proof. unfold g_bb_cur_after. lia. Qed.

(* ---- bp_chunked *)
Lemma sh_bp_init k : g_bp_init k = 0.
Proof. unfold g_bp_init. lia. Qed.
Lemma sh_bp_inc s e : g_bp_inc s e = Z.abs (e - s).
Proof. unfold g_bp_inc. lia. Qed.
Lemma sh_bp_full bp k : g_bp_full bp k = true <-> k <= bp.
Proof. unfold g_bp_full. lia. Qed.
Lemma sh_bp_reset k : g_bp_reset k = 0.
Proof. unfold g_bp_reset. lia. Qed.
