(* C15 proofs, part h: a molecule object over time (add_fragment / add_molecule / consensus requests). *)
From Coq Require Import ZArith List Bool Lia QArith.
Import ListNotations.
From SCMO Require Import Lib.Val Lib.PyInt Model.C15 Proofs.C15_a Proofs.C15.
Open Scope Z_scope.

Definition added (o : mop) : list frag :=
  match o with AddFragment f => [f] | AddMolecule fs => fs | Consensus _ => [] end.
Definition held (pre : list mop) (st : list frag) : list frag := fold_left apply_op pre st.
Definition n_requests (ops : list mop) : nat :=
  length (filter (fun o => match o with Consensus _ => true | _ => false end) ops).

Lemma apply_op_added st o : apply_op st o = st ++ added o.
Proof. destruct o; cbn [apply_op added]; [reflexivity|reflexivity|now rewrite app_nil_r]. Qed.

(* the fragments held after a history are the initial ones followed by everything that was added,
   in order: consensus requests leave no trace *)
Lemma held_added : forall pre st, held pre st = st ++ flat_map added pre.
Proof.
  induction pre as [|o pre IH]; intros st; unfold held; cbn [fold_left flat_map].
  - now rewrite app_nil_r.
  - fold (held pre (apply_op st o)). rewrite IH, apply_op_added. now rewrite app_assoc.
Qed.

Lemma run_ops_length {A} (ans : option Z -> list frag -> A) : forall ops st,
  length (run_ops ans ops st) = n_requests ops.
Proof.
  induction ops as [|o ops IH]; intros st; cbn [run_ops]; [reflexivity|].
  rewrite app_length, IH. unfold n_requests. destruct o; cbn [filter length app]; reflexivity.
Qed.

(* statelessness: whatever was requested or added before, the answer to a consensus request is the one
   computed from the fragments held at that moment *)
Lemma run_ops_stateless {A} (ans : option Z -> list frag -> A) : forall pre st mx post,
  nth_error (run_ops ans (pre ++ Consensus mx :: post) st) (n_requests pre)
  = Some (ans mx (held pre st)).
Proof.
  induction pre as [|o pre IH]; intros st mx post.
  - reflexivity.
  - cbn [app run_ops]. unfold held. cbn [fold_left]. fold (held pre (apply_op st o)).
    destruct o as [f|fs|mx0]; unfold n_requests; cbn [filter length app].
    + apply IH.
    + apply IH.
    + cbn [nth_error]. apply IH.
Qed.

(* requests do not disturb each other: dropping one request leaves all other answers unchanged *)
Lemma run_ops_drop_request {A} (ans : option Z -> list frag -> A) : forall pre st mx post,
  run_ops ans (pre ++ post) st =
  firstn (n_requests pre) (run_ops ans (pre ++ Consensus mx :: post) st) ++
  skipn (S (n_requests pre)) (run_ops ans (pre ++ Consensus mx :: post) st).
Proof.
  induction pre as [|o pre IH]; intros st mx post.
  - reflexivity.
  - cbn [app run_ops]. destruct o as [f|fs|mx0]; unfold n_requests; cbn [filter length app].
    + apply IH.
    + apply IH.
    + cbn [firstn skipn]. rewrite <- app_comm_cons. f_equal. apply IH.
Qed.

(* every answer of a history obeys the block law for the reads held at that moment *)
Lemma history_blocks caller qcaller ref b pre st mx post recs :
  nth_error (run_ops (answer caller qcaller ref b) (pre ++ Consensus mx :: post) st) (n_requests pre) = Some (Some recs) ->
  flat_map rec_positions recs = covered (reads_of (st ++ flat_map added pre)) /\
  Forall (fun r => okM mx (c_cigar r)) recs /\
  forall r, In r recs -> c_TF r = Z.of_nat (length (st ++ flat_map added pre)) + 0.
Proof.
  rewrite run_ops_stateless, held_added. intros H. injection H as H. unfold answer in H.
  destruct (blocks_exact _ _ _ _ _ _ _ H) as (H1 & _ & _ & H4 & _).
  split; [exact H1|]. split; [exact H4|].
  intros r Hr. destruct (record_tags _ _ _ _ _ _ _ r H Hr) as (_ & _ & _ & HTF & _). exact HTF.
Qed.
