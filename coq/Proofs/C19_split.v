(* C19 proofs, part 2: bamSplitByTag - multi-pass splitting under a handle limit. *)
From Coq Require Import ZArith List Bool Lia.
Import ListNotations.
From SCMO Require Import Lib.Val Model.C19 Proofs.C19.
Open Scope Z_scope.

Definition occurs (v : Z) (reads : list bread) : Prop := In (Some v) (map fst reads).

Lemma occurs_snoc : forall v pre r, occurs v (pre ++ [r]) <-> occurs v pre \/ fst r = Some v.
Proof.
  intros. unfold occurs. rewrite map_app, in_app_iff. cbn [map In]. tauto.
Qed.

Lemma recs_snoc : forall v pre r,
  recs_of v (pre ++ [r]) = recs_of v pre ++ (if has_value v r then [snd r] else []).
Proof.
  intros. unfold recs_of. rewrite filter_app, map_app. cbn [filter].
  destruct (has_value v r); reflexivity.
Qed.

Lemma recs_absent : forall v l, ~ occurs v l -> recs_of v l = [].
Proof.
  intros v l. unfold recs_of, occurs. induction l as [|r l IH]; intros H; [reflexivity|].
  cbn [filter]. destruct (has_value v r) eqn:E.
  - exfalso. apply H. left. unfold has_value in E. destruct (fst r) as [w|]; [|discriminate].
    apply Z.eqb_eq in E. subst. reflexivity.
  - apply IH. intro H1. apply H. right. exact H1.
Qed.

Lemma has_value_some : forall v w i, has_value v (Some w, i) = (w =? v).
Proof. reflexivity. Qed.

Record PInv (maxh : Z) (skip : list Z) (f0 : Z -> option (list Z)) (pre : list bread) (st : bpass) : Prop := {
  p_open : forall v, In v (fst (fst st)) ->
           snd st v = Some (recs_of v pre) /\ ~ In v skip /\ occurs v pre;
  p_other : forall v, ~ In v (fst (fst st)) -> snd st v = f0 v;
  p_cover : forall v, occurs v pre -> ~ In v skip -> In v (fst (fst st)) \/ In v (snd (fst st));
  p_wait : forall v, In v (snd (fst st)) ->
           ~ In v (fst (fst st)) /\ ~ In v skip /\ occurs v pre /\ maxh <= Z.of_nat (length (fst (fst st)));
  p_bound : Z.of_nat (length (fst (fst st))) <= Z.max 0 maxh
}.

Lemma pinv_init : forall maxh skip f0, PInv maxh skip f0 [] ([], [], f0).
Proof.
  intros. split; cbn [fst snd length In].
  - intros v [].
  - reflexivity.
  - intros v [].
  - intros v [].
  - lia.
Qed.

Lemma pinv_step : forall maxh skip f0 pre st r,
  PInv maxh skip f0 pre st -> PInv maxh skip f0 (pre ++ [r]) (b_step maxh skip st r).
Proof.
  intros maxh skip f0 pre [[hs wt] f] [o i] HI. unfold b_step. cbn [fst snd].
  destruct HI as [Ho Hx Hc Hw Hb]. cbn [fst snd] in *.
  destruct o as [v|].
  2:{ (* untagged read *)
    split; cbn [fst snd].
    - intros u Hu. destruct (Ho u Hu) as [H1 [H2 H3]]. rewrite recs_snoc. cbn [has_value fst].
      rewrite app_nil_r. split; [exact H1|]. split; [exact H2|]. apply occurs_snoc. left. exact H3.
    - exact Hx.
    - intros u Hu. apply occurs_snoc in Hu. destruct Hu as [Hu|Hu]; [apply Hc; exact Hu | discriminate].
    - intros u Hu. destruct (Hw u Hu) as [H1 [H2 [H3 H4]]]. repeat split; try assumption.
      apply occurs_snoc. left. exact H3.
    - exact Hb. }
  assert (Hrec : forall u, u <> v -> recs_of u (pre ++ [(Some v, i)]) = recs_of u pre).
  { intros u Hu. rewrite recs_snoc, has_value_some.
    assert (E : (v =? u) = false) by (apply Z.eqb_neq; congruence). rewrite E. apply app_nil_r. }
  assert (Hocc : forall u, occurs u pre -> occurs u (pre ++ [(Some v, i)])).
  { intros u Hu. apply occurs_snoc. left. exact Hu. }
  assert (Hoccv : occurs v (pre ++ [(Some v, i)])).
  { apply occurs_snoc. right. reflexivity. }
  assert (Hocc' : forall u, occurs u (pre ++ [(Some v, i)]) -> occurs u pre \/ u = v).
  { intros u Hu. apply occurs_snoc in Hu. destruct Hu as [Hu|Hu]; [left; exact Hu|].
    cbn [fst] in Hu. right. congruence. }
  destruct (memZ v skip || memZ v wt) eqn:E1.
  - (* skipped or waiting: nothing happens *)
    assert (Hnv : ~ In v hs).
    { apply orb_true_iff in E1. destruct E1 as [E1|E1]; apply memZ_In in E1.
      - intro Hv. destruct (Ho v Hv) as [_ [H2 _]]. exact (H2 E1).
      - destruct (Hw v E1) as [H1 _]. exact H1. }
    split; cbn [fst snd].
    + intros u Hu. destruct (Ho u Hu) as [H1 [H2 H3]].
      assert (u <> v) by (intro; subst; exact (Hnv Hu)).
      rewrite Hrec by assumption. auto.
    + exact Hx.
    + intros u Hu Hs. destruct (Hocc' u Hu) as [H1|H1]; [exact (Hc u H1 Hs)|]. subst u.
      apply orb_true_iff in E1. destruct E1 as [E1|E1]; apply memZ_In in E1; [contradiction | right; exact E1].
    + intros u Hu. destruct (Hw u Hu) as [H1 [H2 [H3 H4]]]. auto.
    + exact Hb.
  - apply orb_false_iff in E1. destruct E1 as [Es Ewt].
    apply memZ_false in Es. apply memZ_false in Ewt.
    destruct (memZ v hs) eqn:E2.
    + (* handle open: write *)
      apply memZ_In in E2. split; cbn [fst snd].
      * intros u Hu. destruct (Ho u Hu) as [H1 [H2 H3]]. destruct (Z.eq_dec u v) as [E|E].
        -- subst u. rewrite fs_append_same. unfold content. rewrite H1, recs_snoc, has_value_some, Z.eqb_refl. auto.
        -- rewrite fs_append_other, Hrec by assumption. auto.
      * intros u Hu. rewrite fs_append_other; [apply Hx; exact Hu | intro; subst; exact (Hu E2)].
      * intros u Hu Hs. destruct (Hocc' u Hu) as [H1|H1]; [exact (Hc u H1 Hs) | subst u; left; exact E2].
      * intros u Hu. destruct (Hw u Hu) as [H1 [H2 [H3 H4]]]. auto.
      * exact Hb.
    + apply memZ_false in E2.
      assert (Hfresh : ~ occurs v pre).
      { intro H. destruct (Hc v H Es) as [H1|H1]; contradiction. }
      destruct (maxh <=? Z.of_nat (length hs)) eqn:E3.
      * (* limit reached: wait for the next pass *)
        apply Z.leb_le in E3. split; cbn [fst snd].
        -- intros u Hu. destruct (Ho u Hu) as [H1 [H2 H3]].
           assert (u <> v) by (intro; subst; exact (E2 Hu)). rewrite Hrec by assumption. auto.
        -- exact Hx.
        -- intros u Hu Hs. destruct (Hocc' u Hu) as [H1|H1].
           ++ destruct (Hc u H1 Hs) as [H2|H2]; [left; exact H2 | right; right; exact H2].
           ++ subst u. right. left. reflexivity.
        -- intros u [Hu|Hu].
           ++ subst u. auto.
           ++ destruct (Hw u Hu) as [H1 [H2 [H3 H4]]]. auto.
        -- exact Hb.
      * (* open a new file *)
        apply Z.leb_gt in E3. split; cbn [fst snd].
        -- intros u Hu. apply in_app_iff in Hu. cbn [In] in Hu. destruct (Z.eq_dec u v) as [E|E].
           ++ subst u. rewrite fs_append_same. unfold content. rewrite fs_open_same.
              rewrite recs_snoc, has_value_some, Z.eqb_refl, (recs_absent _ _ Hfresh). auto.
           ++ destruct Hu as [Hu|[Hu|[]]]; [|congruence].
              destruct (Ho u Hu) as [H1 [H2 H3]].
              rewrite fs_append_other, fs_open_other, Hrec by assumption. auto.
        -- intros u Hu. rewrite in_app_iff in Hu. cbn [In] in Hu.
           assert (u <> v) by (intro; subst; apply Hu; right; left; reflexivity).
           rewrite fs_append_other, fs_open_other by assumption. apply Hx. intro; apply Hu; left; assumption.
        -- intros u Hu Hs. rewrite in_app_iff. cbn [In]. destruct (Hocc' u Hu) as [H1|H1].
           ++ destruct (Hc u H1 Hs) as [H2|H2]; [left; left; exact H2 | right; exact H2].
           ++ subst u. left. right. left. reflexivity.
        -- intros u Hu. destruct (Hw u Hu) as [H1 [H2 [H3 H4]]].
           rewrite in_app_iff, app_length. cbn [In length].
           split; [intros [H5|[H5|[]]]; [exact (H1 H5) | subst u; exact (Ewt Hu)]|].
           split; [exact H2|]. split; [apply Hocc; exact H3 | lia].
        -- rewrite app_length. cbn [length]. lia.
Qed.

Lemma pinv_fold : forall maxh skip f0 reads pre st,
  PInv maxh skip f0 pre st ->
  PInv maxh skip f0 (pre ++ reads) (fold_left (b_step maxh skip) reads st).
Proof.
  intros maxh skip f0 reads. induction reads as [|r reads IH]; intros pre st HI; cbn [fold_left].
  - rewrite app_nil_r. exact HI.
  - replace (pre ++ r :: reads) with ((pre ++ [r]) ++ reads) by (rewrite <- app_assoc; reflexivity).
    apply IH. apply pinv_step. exact HI.
Qed.

Lemma pass_inv : forall maxh skip f0 reads, PInv maxh skip f0 reads (b_pass maxh skip reads f0).
Proof.
  intros. unfold b_pass. exact (pinv_fold maxh skip f0 reads [] ([], [], f0) (pinv_init maxh skip f0)).
Qed.

(* ---- the loop over passes *)
Record LInv (reads : list bread) (init : Z -> option (list Z)) (skip : list Z) (f : Z -> option (list Z)) : Prop := {
  l_done : forall v, In v skip -> f v = Some (recs_of v reads) /\ occurs v reads;
  l_rest : forall v, ~ In v skip -> f v = init v
}.

Definition pendingb (skip : list Z) (r : bread) : bool :=
  match fst r with Some v => negb (memZ v skip) | None => false end.
Definition pending (skip : list Z) (reads : list bread) : nat := length (filter (pendingb skip) reads).

Lemma filter_strict : forall A (f g : A -> bool) l,
  (forall x, g x = true -> f x = true) ->
  (exists x, In x l /\ f x = true /\ g x = false) ->
  (length (filter g l) < length (filter f l))%nat.
Proof.
  intros A f g l Himp. induction l as [|a l IH]; intros [x [Hin [Hf Hg]]]; [destruct Hin|].
  assert (Hle : forall l', (length (filter g l') <= length (filter f l'))%nat).
  { intros l'. induction l' as [|b l' IH']; cbn [filter length]; [lia|].
    destruct (g b) eqn:Eg.
    - rewrite (Himp b Eg). cbn [length]. lia.
    - destruct (f b); cbn [length]; lia. }
  cbn [filter]. destruct Hin as [Hin|Hin].
  - subst a. rewrite Hf, Hg. cbn [length]. specialize (Hle l). lia.
  - assert (IH' : (length (filter g l) < length (filter f l))%nat) by (apply IH; exists x; auto).
    destruct (g a) eqn:Eg.
    + rewrite (Himp a Eg). cbn [length]. lia.
    + destruct (f a); cbn [length]; lia.
Qed.

Lemma pending_decreases : forall skip hs reads v,
  In v hs -> ~ In v skip -> occurs v reads ->
  (pending (skip ++ hs) reads < pending skip reads)%nat.
Proof.
  intros skip hs reads v Hv Hs Ho. unfold pending. apply filter_strict.
  - intros [o i]. unfold pendingb. cbn [fst]. destruct o as [w|]; [|discriminate].
    intros H. apply negb_true_iff in H. apply memZ_false in H. apply negb_true_iff. apply memZ_false.
    intro H1. apply H. apply in_app_iff. left. exact H1.
  - unfold occurs in Ho. apply in_map_iff in Ho. destruct Ho as [[o i] [Ho Hin]]. cbn [fst] in Ho. subst o.
    exists (Some v, i). split; [exact Hin|]. unfold pendingb. cbn [fst]. split.
    + apply negb_true_iff. apply memZ_false. exact Hs.
    + apply negb_false_iff. apply memZ_In. apply in_app_iff. right. exact Hv.
Qed.

Lemma loop_correct : forall fuel maxh reads init skip f passes,
  1 <= maxh -> LInv reads init skip f -> (pending skip reads < fuel)%nat ->
  exists skip' f' n, b_loop fuel maxh reads skip f passes = Some (skip', f', n) /\
    (forall v, occurs v reads -> f' v = Some (recs_of v reads) /\ In v skip') /\
    (forall v, ~ occurs v reads -> f' v = init v).
Proof.
  intros fuel. induction fuel as [|fuel IH]; intros maxh reads init skip f passes Hm HL Hf; [lia|].
  cbn [b_loop]. pose proof (pass_inv maxh skip f reads) as HP.
  destruct (b_pass maxh skip reads f) as [[hs wt] f'] eqn:Ep.
  destruct HP as [Ho Hx Hc Hw Hb]. cbn [fst snd] in *.
  assert (HL' : LInv reads init (skip ++ hs) f').
  { split.
    - intros v Hv. apply in_app_iff in Hv. destruct Hv as [Hv|Hv].
      + assert (Hn : ~ In v hs) by (intro H; destruct (Ho v H) as [_ [H2 _]]; exact (H2 Hv)).
        rewrite (Hx v Hn). apply (l_done _ _ _ _ HL). exact Hv.
      + destruct (Ho v Hv) as [H1 [_ H3]]. auto.
    - intros v Hv. rewrite in_app_iff in Hv.
      rewrite Hx by (intro; apply Hv; right; assumption).
      apply (l_rest _ _ _ _ HL). intro; apply Hv; left; assumption. }
  destruct wt as [|w wt].
  - exists (skip ++ hs), f', (S passes). split; [reflexivity|]. split.
    + intros v Hv. destruct (in_dec Z.eq_dec v skip) as [Hs|Hs].
      * split; [apply (l_done _ _ _ _ HL'); apply in_app_iff; left; exact Hs | apply in_app_iff; left; exact Hs].
      * destruct (Hc v Hv Hs) as [H1|[]]. split; [apply (Ho v H1) | apply in_app_iff; right; exact H1].
    + intros v Hv. apply (l_rest _ _ _ _ HL'). intro H. apply (l_done _ _ _ _ HL') in H. apply Hv. apply H.
  - (* another pass is needed: at least one file was completed in this one *)
    destruct (Hw w (or_introl eq_refl)) as [_ [_ [_ Hlen]]].
    destruct hs as [|h hs]; [cbn [length] in Hlen; lia|].
    destruct (Ho h (or_introl eq_refl)) as [_ [Hhs Hho]].
    apply IH; [exact Hm | exact HL' |].
    pose proof (pending_decreases skip (h :: hs) reads h (or_introl eq_refl) Hhs Hho). lia.
Qed.

Lemma bamsplit : forall maxh reads init,
  1 <= maxh ->
  exists done f n, b_loop (S (length reads)) maxh reads [] init 0 = Some (done, f, n) /\
    (forall v, occurs v reads -> f v = Some (recs_of v reads) /\ In v done) /\
    (forall v, ~ occurs v reads -> f v = init v).
Proof.
  intros maxh reads init Hm. apply loop_correct; [exact Hm | |].
  - split; [intros v [] | reflexivity].
  - unfold pending. pose proof (filter_len_le _ (pendingb []) reads). lia.
Qed.

Lemma bamsplit_handles : forall maxh skip reads f,
  Z.of_nat (length (fst (fst (b_pass maxh skip reads f)))) <= Z.max 0 maxh.
Proof. intros. apply (p_bound _ _ _ _ _ (pass_inv maxh skip f reads)). Qed.

(* max_handles <= 0 with at least one tagged read: the loop never ends *)
Lemma bamsplit_zero_diverges : forall fuel maxh reads skip f passes v,
  maxh <= 0 -> occurs v reads -> ~ In v skip ->
  b_loop fuel maxh reads skip f passes = None.
Proof.
  intros fuel. induction fuel as [|fuel IH]; intros maxh reads skip f passes v Hm Ho Hs; [reflexivity|].
  cbn [b_loop]. pose proof (pass_inv maxh skip f reads) as HP.
  destruct (b_pass maxh skip reads f) as [[hs wt] f'] eqn:Ep.
  destruct HP as [_ _ Hc _ Hb]. cbn [fst snd] in *.
  assert (Hhs : hs = []) by (destruct hs; [reflexivity | cbn [length] in Hb; lia]).
  subst hs. destruct (Hc v Ho Hs) as [[]|Hw].
  destruct wt as [|w wt]; [destruct Hw|].
  rewrite app_nil_r. apply (IH maxh reads skip f' (S passes) v Hm Ho Hs).
Qed.
