(* C07 proofs, extension: no molecule is yielded twice (with emit-once: none lost, none duplicated) *)
From Coq Require Import ZArith List Bool Lia Permutation.
Import ListNotations.
From SCMO Require Import Lib.Val Gen.GenEject Model.C07 Proofs.C07_a Proofs.C07 Proofs.C07_b.
Open Scope Z_scope.

Lemma nodup_app_disjoint {A : Type} (x : A) : forall l1 l2, NoDup (l1 ++ l2) -> In x l1 -> In x l2 -> False.
Proof.
  induction l1 as [|a l1 IH]; intros l2 H H1 H2; [contradiction|].
  cbn in H. inversion H as [|? ? Hn Hr]; subst. destruct H1 as [->|H1].
  - apply Hn. apply in_or_app. right. exact H2.
  - exact (IH l2 Hr H1 H2).
Qed.

Lemma nodup_app_r {A : Type} : forall l1 l2 : list A, NoDup (l1 ++ l2) -> NoDup l2.
Proof. induction l1 as [|a l1 IH]; intros l2 H; [exact H|]. cbn in H. inversion H; subst. apply IH. assumption. Qed.

Lemma nodup_concat_nonempty {A B : Type} (g : A -> list B) : forall ms,
  (forall m, In m ms -> g m <> []) -> NoDup (concat (map g ms)) -> NoDup (map g ms).
Proof.
  induction ms as [|a ms IH]; intros Hne H; cbn [map concat] in *; [constructor|].
  constructor.
  - intros Hin. apply in_map_iff in Hin. destruct Hin as [m' [Eg Hm']].
    destruct (g a) as [|x r] eqn:Ea; [exact (Hne a (or_introl eq_refl) Ea)|].
    apply (nodup_app_disjoint x (x :: r) (concat (map g ms)) H (or_introl eq_refl)).
    apply in_concat. exists (g m'). split; [apply in_map; exact Hm'|]. rewrite Eg. left. reflexivity.
  - apply IH; [intros m Hm; apply Hne; right; exact Hm|]. exact (nodup_app_r _ _ H).
Qed.

Lemma nodup_map_filter {A B : Type} (f : A -> B) (p : A -> bool) : forall l, NoDup (map f l) -> NoDup (map f (filter p l)).
Proof.
  induction l as [|a l IH]; intros H; cbn [map filter] in *; [constructor|].
  inversion H as [|? ? Hn Hr]; subst. destruct (p a); [|exact (IH Hr)].
  cbn [map]. constructor; [|exact (IH Hr)].
  intros Hin. apply Hn. apply in_map_iff in Hin. destruct Hin as [y [Ey Hy]]. apply filter_In in Hy.
  apply in_map_iff. exists y. split; [exact Ey|exact (proj1 Hy)].
Qed.

Lemma members_ids ms : map f_id (members ms) = concat (map mol_ids ms).
Proof. unfold members, mol_ids. rewrite concat_map, map_map. reflexivity. Qed.

(* when the reads are distinguishable (distinct ids) no molecule is yielded twice, and the yielded molecules are
   pairwise disjoint; with C07_emit_once: none lost, none duplicated - every schedule, pooling method, cache size *)
Lemma no_molecule_twice c fs outs fl : NoDup (map f_id fs) -> runC c fs = (outs, fl, true) ->
  NoDup (map mol_ids (concat outs ++ fl)) /\ NoDup (concat (map mol_ids (concat outs ++ fl))).
Proof.
  intros Hnd H. pose proof (emit_once c fs outs fl H) as P.
  assert (N : NoDup (concat (map mol_ids (concat outs ++ fl)))).
  { rewrite <- members_ids. eapply Permutation_NoDup; [apply Permutation_sym; apply Permutation_map; exact P|].
    apply nodup_map_filter. exact Hnd. }
  split; [|exact N]. apply nodup_concat_nonempty; [|exact N].
  intros m Hm E. destruct (molecule_sound c fs outs fl true H m Hm) as [k S].
  apply (sm_nonempty c k fs m S). unfold mol_ids in E. apply map_eq_nil in E. exact E.
Qed.

(* the number of yielded molecules + the number of fragments that joined an existing molecule = the number of wanted fragments *)
Lemma yielded_count c fs outs fl : runC c fs = (outs, fl, true) ->
  length (members (concat outs ++ fl)) = length (filter (wantedC c) fs).
Proof. intros H. apply Permutation_length. exact (emit_once c fs outs fl H). Qed.
