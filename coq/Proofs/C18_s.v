(* C18 proofs, part s: SHAPE LEMMAS.  The machine of Model/C18.v is written with the definitions g_* regenerated
   from the current source (Gen/GenAlleles.v).  Each lemma here states that a generated piece has the shape the
   reference definitions (the ones the specification and the large proofs use) assume.  A change of the source that
   alters a test, a flag rule, a separator, the cache-name recipe ... makes exactly one of these lemmas fail. *)
From Coq Require Import ZArith List Bool Lia.
Import ListNotations.
From SCMO Require Import Lib.Val Gen.GenAlleles Model.C18.
Open Scope Z_scope.

(* ---- the single-nucleotide tests *)
Lemma gsingle_shape a : gsingle a = single a.
Proof.
  unfold gsingle, g_single, single. destruct a as [|x [|y l]]; try reflexivity.
  assert (E : (Z.of_nat (length (x :: y :: l)) =? 1) = false) by (apply Z.eqb_neq; cbn [length]; lia).
  rewrite ?E. reflexivity.
Qed.
Lemma gusingle_shape a : gusingle a = single a.
Proof.
  unfold gusingle, g_unphased_single, single. destruct a as [|x [|y l]]; try reflexivity.
  assert (E : (Z.of_nat (length (x :: y :: l)) =? 1) = false) by (apply Z.eqb_neq; cbn [length]; lia).
  rewrite ?E. reflexivity.
Qed.
(* ---- select_samples filter *)
Lemma gselected_shape cf s : gselected cf s = selected cf s.
Proof.
  unfold gselected, g_select_skip, selected, is_some, sel_list. destruct (c_select cf); cbn [andb negb].
  - apply negb_involutive.
  - reflexivity.
Qed.
(* ---- a missing allele: `continue`, the remaining alleles of the sample are still looked at *)
Lemma missing_continue_shape : g_missing_break = false.
Proof. reflexivity. Qed.
Lemma alleles_seen_shape l : alleles_seen l = l.
Proof. unfold alleles_seen. rewrite missing_continue_shape. reflexivity. Qed.
(* ---- unphased allele letters *)
Lemma gletters_shape : gletters = letters.
Proof. reflexivity. Qed.

(* ---- the bad / monomorphic flag rules after the sample loop *)
Lemma bad_after_shape sel_some used na ns mono nb bad :
  g_bad_after sel_some used (Z.of_nat na) (Z.of_nat ns) mono (Z.of_nat nb) bad
  = (let bad1 := if sel_some && used then (if (na =? ns)%nat then bad else true) else bad in
     if mono && (0 <? nb)%nat then false else if (nb <? 2)%nat then true else bad1).
Proof.
  unfold g_bad_after. cbv zeta.
  assert (E1 : (Z.of_nat na =? Z.of_nat ns) = (na =? ns)%nat).
  { destruct (Nat.eqb_spec na ns) as [->|N]; [apply Z.eqb_refl|apply Z.eqb_neq; lia]. }
  assert (E2 : (Z.of_nat nb >? 0) = (0 <? nb)%nat).
  { destruct (Nat.ltb_spec 0 nb); [apply Z.gtb_lt; lia|]. rewrite Z.gtb_ltb. apply Z.ltb_ge. lia. }
  assert (E3 : (Z.of_nat nb <? 2) = (nb <? 2)%nat).
  { destruct (Nat.ltb_spec nb 2); [apply Z.ltb_lt; lia|apply Z.ltb_ge; lia]. }
  rewrite E1, E2, E3. destruct (na =? ns)%nat; reflexivity.
Qed.

Definition phased_site_ref (cf : cfg) (r : vrec) : bmap * bool * bool :=
  let st := scan_rec cf r in
  let bad1 := match c_select cf with
              | Some sel => if s_used st
                            then (if (length (s_assigned st) =? length sel)%nat then s_bad st else true)
                            else s_bad st
              | None => s_bad st
              end in
  let bad2 := if s_mono st && (0 <? length (s_bm st))%nat then false
              else if (length (s_bm st) <? 2)%nat then true else bad1 in
  (s_bm st, s_used st, bad2).
Lemma phased_site_shape cf r : phased_site cf r = phased_site_ref cf r.
Proof.
  unfold phased_site, phased_site_ref. cbv zeta. f_equal. rewrite bad_after_shape. cbv zeta.
  unfold is_some, sel_list. destruct (c_select cf) as [sel|]; cbn [andb]; [|reflexivity].
  destruct (s_used (scan_rec cf r)); reflexivity.
Qed.

Lemma forallb_ext' {A} (f g : A -> bool) l : (forall x, f x = g x) -> forallb f l = forallb g l.
Proof. intros H. induction l as [|a l IH]; cbn; [reflexivity|]. rewrite H, IH. reflexivity. Qed.

Definition unphased_site_ref (r : vrec) : bmap * bool * bool :=
  if forallb single (alleles r)
  then (fold_left (fun m lb => badd m (snd lb) (fst lb)) (combine letters (alleles r)) [], true, false)
  else ([], false, true).
Lemma unphased_site_shape r : unphased_site r = unphased_site_ref r.
Proof.
  unfold unphased_site, unphased_site_ref. rewrite (forallb_ext' gusingle single _ gusingle_shape), gletters_shape. reflexivity.
Qed.

(* ---- the ignore_conversions step: guarded by `not bad`, tests (rec.ref, base) *)
Lemma ignored_any_shape cf r bm : ignored_any cf r bm = ignored cf r bm.
Proof.
  unfold ignored_any, ignored, g_ignore_key, ign_list. cbn [fst snd]. destruct (c_ignore cf); [reflexivity|].
  induction bm as [|kv bm IH]; [reflexivity|exact IH].
Qed.
Definition informative_ref (cf : cfg) (r : vrec) : option bmap :=
  let '(bm, used, bad) := if c_phased cf then phased_site_ref cf r else unphased_site_ref r in
  let bad' := if bad then true else ignored cf r bm in
  if used && negb bad' then Some bm else None.
Lemma informative_shape cf r : informative cf r = informative_ref cf r.
Proof.
  unfold informative, informative_ref. rewrite phased_site_shape, unphased_site_shape.
  destruct (if c_phased cf then phased_site_ref cf r else unphased_site_ref r) as [[bm used] bad].
  rewrite ignored_any_shape. unfold g_ignore_guard, g_store, is_some, ignored.
  destruct bad; cbn [negb andb]; [reflexivity|]. destruct (c_ignore cf); reflexivity.
Qed.

(* ---- where a record is stored, the sentinel *)
Lemma store_pos_shape p : g_store_pos p = p - 1.
Proof. reflexivity. Qed.
Lemma sentinel_shape : g_sentinel_pos = -1 /\ g_sentinel_base = str_N /\ g_sentinel_name = str_Nop.
Proof. repeat split. Qed.

(* ---- cache files: which contigs, the name recipe *)
Definition cacheable_ref (c : str) : bool :=
  negb (prefixb s_KN c || prefixb s_KZ c || prefixb s_chrUn c || suffixb s_random c || infixb s_ERCC c).
Lemma cacheable_shape c : cacheable c = cacheable_ref c.
Proof.
  unfold cacheable, cacheable_ref, g_nocache_rules. cbn [existsb fst snd Z.eqb]. rewrite orb_false_r, !orb_assoc. reflexivity.
Qed.
Definition s_unphased : str := [95; 117; 110; 112; 104; 97; 115; 101; 100].          (* "_unphased" *)
Definition s_ignore : str := [95; 105; 103; 110; 111; 114; 101; 45].                  (* "_ignore-" *)
Definition s_to : str := [116; 111].                                                  (* "to" *)
Definition s_tsvgz : str := [46; 116; 115; 118; 46; 103; 122].                        (* ".tsv.gz" *)
Definition cache_name_ref (cf : cfg) (c : str) : str :=
  c ++ (match c_select cf with Some sel => 95 :: join 45 (ssort sel) | None => [] end)
    ++ (if c_phased cf then [] else s_unphased)
    ++ (match c_ignore cf with
        | Some (q :: l) => s_ignore ++ join 45 (ssort (map (fun ab => fst ab ++ s_to ++ snd ab) (q :: l)))
        | _ => [] end)
    ++ s_tsvgz.
Lemma joins_one sep l : joins [sep] l = join sep l.
Proof.
  induction l as [|x l IH]; [reflexivity|]. destruct l as [|y l]; [reflexivity|].
  change (joins [sep] (x :: y :: l)) with (x ++ [sep] ++ joins [sep] (y :: l)). rewrite IH. reflexivity.
Qed.
Lemma cache_name_shape cf c : cache_name cf c = cache_name_ref cf c.
Proof.
  unfold cache_name, cache_name_ref, g_name_sel, g_name_sel_join, g_name_unphased, g_name_ignore_prefix, g_name_ignore_join,
         g_name_conv, g_name_suffix. cbv zeta.
  destruct (c_select cf) as [sel|]; destruct (c_phased cf); destruct (c_ignore cf) as [[|q l]|];
    rewrite ?joins_one; rewrite <- ?app_assoc; cbn [app]; rewrite ?app_nil_r; reflexivity.
Qed.

(* ---- the cache line format and the parser's separators / region filter (region_start = region_end = None) *)
Lemma line_of_shape p kv : line_of p kv = print_int p ++ 9 :: fst kv ++ 9 :: join 44 (snd kv) ++ [10].
Proof. reflexivity. Qed.
Lemma field_sep_shape : g_field_sep = 9 /\ g_sample_split = 44 /\ g_sample_join = 44.
Proof. repeat split. Qed.
Lemma read_filter_shape p : g_read_skip false p 0 = false /\ g_read_stop false p 0 = false.
Proof. split; reflexivity. Qed.
Definition parse_line_ref (l : str) : option (Z * str * list str) :=
  match split_on 9 (strip l) with
  | [ps; b; ss] => match parse_int ps with
                   | Some p => Some (p, b, fold_right sins [] (split_on 44 ss))
                   | None => None end
  | _ => None
  end.
Lemma parse_line_shape l : parse_line l = parse_line_ref l.
Proof. reflexivity. Qed.
Lemma read_lines_shape ls c : forall t,
  read_lines ls c t = (fix go (ls : list str) (t : table) : table :=
                         match ls with
                         | [] => t
                         | l :: ls' => match parse_line_ref l with
                                       | Some (p, b, ss) => go ls' (store3 t c p b ss)
                                       | None => t end
                         end) ls t.
Proof.
  induction ls as [|l ls IH]; intros t; [reflexivity|]. cbn [read_lines]. rewrite parse_line_shape.
  destruct (parse_line_ref l) as [[[p b] ss]|]; [|reflexivity].
  destruct (read_filter_shape p) as [-> ->]. apply IH.
Qed.

(* ---- getAllele keeps exactly the single-sample answers *)
Lemma allele_keep_shape a : allele_keep a = match a with ASome [s] => [s] | _ => [] end.
Proof.
  destruct a as [|ss| |]; try reflexivity. unfold allele_keep, g_allele_keep. cbn [andb].
  destruct ss as [|s [|s2 ss]]; try reflexivity.
  assert (E : (Z.of_nat (length (s :: s2 :: ss)) =? 1) = false) by (apply Z.eqb_neq; cbn [length]; lia).
  rewrite E. reflexivity.
Qed.

(* ---- __init__ and has_location *)
Lemma self_lazy_shape cf : self_lazy cf = is_lazy cf.
Proof. reflexivity. Qed.
Lemma has_invalid_contig_shape : g_has_invalid_contig = false.
Proof. reflexivity. Qed.
Lemma table_per_instance_shape : g_table_per_instance = true.
Proof. reflexivity. Qed.
